/-
Helper lemmas for C07 (round 4): `mean_filter<T>` in a rounded arithmetic.

`meanAtG` (Model/C07.lean) is the kernel generic in the arithmetic (`double sum = 0; sum += val; … sum / n`).
* at `Int` the gathered samples are those of `gather` (`gatherG_int`), so `meanParts` are its sum and count;
* with rounded rational operations on integer-valued data whose magnitudes sum to at most `2^53`, every addition is
  exact and the result is the single rounding of the exact quotient: `rnd (sum / n)` (`meanAtG_rat_exact`) — the
  "correctly rounded exact mean" the harness compares with.
-/
import Mahotas.Proofs.C07Float
import Mathlib.Tactic.Linarith
import Mathlib.Tactic.Positivity
import Mathlib.Tactic.Push

set_option linter.unusedVariables false
set_option linter.unusedSimpArgs false
namespace Mahotas.C07
open Mahotas Mahotas.C05

/-- the double operations over ℚ, every result rounded -/
def ratMeanOps (rnd : ℚ → ℚ) : MeanOps ℚ :=
  ⟨0, fun a b => rnd (a + b), fun a b => rnd (a / b), fun n => rnd (n : ℚ)⟩

theorem gatherG_int (m : Mode) (f : Img Int) (fp : List (List Int)) (p : List Int) :
    gatherG 0 m f fp p = gather m f fp p := rfl

theorem gatherG_cast (m : Mode) (f : Img Int) (fp : List (List Int)) (p : List Int) :
    gatherG (0 : ℚ) m (castImg f) fp p = (gather m f fp p).map fun (x : Int) => (x : ℚ) := by
  unfold gatherG gather
  rw [List.map_filterMap]
  congr 1
  funext k
  have hshape : (castImg f).shape = f.shape := rfl
  rw [hshape]
  cases fixPos m f.shape (addPos p k) with
  | some q => simp [getD_castImg]
  | none => by_cases hm : m = .constant <;> simp [hm]

/-- sum of the magnitudes -/
def absSum (xs : List Int) : Int := (xs.map fun x => |x|).sum

theorem absSum_cons (x : Int) (xs : List Int) : absSum (x :: xs) = |x| + absSum xs := by
  unfold absSum; simp

theorem absSum_nonneg (xs : List Int) : 0 ≤ absSum xs := by
  induction xs with
  | nil => simp [absSum]
  | cons x xs ih => rw [absSum_cons]; have := abs_nonneg x; linarith

/-- adding integers in rounded arithmetic is exact while the magnitudes sum to at most `2^53` -/
theorem foldl_rnd_add_exact (rnd : ℚ → ℚ) (hr : Rounding rnd) (xs : List Int) (acc : Int)
    (hb : |acc| + absSum xs ≤ 2 ^ 53) :
    (xs.map fun (x : Int) => (x : ℚ)).foldl (fun a b => rnd (a + b)) (acc : ℚ) = ((xs.foldl (· + ·) acc : Int) : ℚ) := by
  induction xs generalizing acc with
  | nil => rfl
  | cons x xs ih =>
    rw [absSum_cons] at hb
    simp only [List.map_cons, List.foldl_cons]
    have hax : |acc + x| ≤ |acc| + |x| := abs_add_le acc x
    have hn := absSum_nonneg xs
    have e : rnd ((acc : ℚ) + (x : ℚ)) = ((acc + x : Int) : ℚ) := by
      have := rnd_int rnd hr (acc + x) (by linarith)
      push_cast at this ⊢; exact this
    rw [e]
    exact ih (acc + x) (by linarith)

theorem length_le_of_pos (n : Nat) (h : (n : Int) ≤ 2 ^ 53) : |((n : Int) : ℚ)| ≤ 2 ^ 53 := by
  rw [abs_of_nonneg (by positivity)]
  exact_mod_cast h

/-- **`mean_filter` on integer-valued data is the correctly rounded exact mean** while the magnitudes of the samples
    sum to at most `2^53` (and there are at most `2^53` samples): the double accumulation is exact and only the final
    division rounds. -/
theorem meanAtG_rat_exact (rnd : ℚ → ℚ) (hr : Rounding rnd) (m : Mode) (f : Img Int) (fp : List (List Int)) (p : List Int)
    (hb : absSum (gather m f fp p) ≤ 2 ^ 53) (hn : (fp.length : Int) ≤ 2 ^ 53) :
    meanAtG (ratMeanOps rnd) m (castImg f) fp p =
      rnd (((meanParts m f fp p).1 : ℚ) / ((meanParts m f fp p).2 : ℚ)) := by
  unfold meanAtG meanParts ratMeanOps
  simp only
  rw [gatherG_cast]
  have h1 := foldl_rnd_add_exact rnd hr (gather m f fp p) 0 (by simpa using hb)
  have h1' : (List.map (fun (x : Int) => (x : ℚ)) (gather m f fp p)).foldl (fun a b => rnd (a + b)) 0 =
      ((List.foldl (· + ·) 0 (gather m f fp p) : Int) : ℚ) := by
    simpa using h1
  rw [h1', List.length_map]
  have hlen : ((gather m f fp p).length : Int) ≤ 2 ^ 53 := by
    have := gather_length_le' m f fp p
    have : ((gather m f fp p).length : Int) ≤ (fp.length : Int) := by exact_mod_cast this
    linarith
  have h2 := hr.exact_int ((gather m f fp p).length : Int) (length_le_of_pos _ hlen)
  push_cast at h2
  rw [h2]
where
  gather_length_le' (m : Mode) (f : Img Int) (fp : List (List Int)) (p : List Int) :
      (gather m f fp p).length ≤ fp.length := by
    unfold gather
    exact List.length_filterMap_le _ _

end Mahotas.C07
