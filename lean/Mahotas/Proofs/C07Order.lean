/-
C07, round 2 — order lemmas: the rescaled rank is monotone in the rank and hits both ends, the
element at a smaller index of the sorted samples is not larger, index 0 / last = minimum / maximum,
the sum of the samples lies between `n·min` and `n·max`, and `Bc.sum()` of a 0/1 neighbourhood is the
number of its members.
-/
import Mahotas.Proofs.C07
import Mathlib.Tactic.Linarith
namespace Mahotas.C07
open Mahotas

/-! ### the rescaled rank -/

theorem curRank_mono (n N2 r r' : Nat) (h : r ≤ r') : curRank n N2 r ≤ curRank n N2 r' := by
  unfold curRank
  split
  · exact Nat.div_le_div_right (Nat.mul_le_mul_left n h)
  · exact h

theorem curRank_zero (n N2 : Nat) : curRank n N2 0 = 0 := by
  unfold curRank
  split <;> simp

/-- the last rank `N2 − 1` selects the last of the `n ≤ N2` samples present -/
theorem curRank_last (n N2 : Nat) (hn : 0 < n) (hle : n ≤ N2) : curRank n N2 (N2 - 1) = n - 1 := by
  unfold curRank
  split
  · obtain ⟨k, rfl⟩ : ∃ k, N2 = k + 1 := ⟨N2 - 1, by omega⟩
    obtain ⟨j, rfl⟩ : ∃ j, n = j + 1 := ⟨n - 1, by omega⟩
    simp only [Nat.add_sub_cancel]
    obtain ⟨d, rfl⟩ : ∃ d, k = j + d := ⟨k - j, by omega⟩
    have h1 : (j + 1) * (j + d) = d + j * (j + d + 1) := by ring
    rw [h1, Nat.add_mul_div_right _ _ (by omega), Nat.div_eq_of_lt (by omega)]
    simp
  · omega

theorem curRank_lt (n N2 r : Nat) (hn : 0 < n) (hr : r < N2) : curRank n N2 r < n := by
  unfold curRank
  split
  · rw [Nat.div_lt_iff_lt_mul (by omega)]
    exact Nat.mul_lt_mul_of_pos_left hr hn
  · rename_i h; simp only [ne_eq, Decidable.not_not] at h; omega

theorem gather_length_le (m : Mode) (f : Img Int) (fp : List (List Int)) (p : List Int) :
    (gather m f fp p).length ≤ fp.length := by
  unfold gather
  exact List.length_filterMap_le _ _

/-! ### positions in the sorted samples -/

theorem nthElement_eq_some (xs : List Int) (k : Nat) (a : Int) (h : nthElement xs k = some a) :
    ∃ hk : k < (xs.mergeSort leB).length, (xs.mergeSort leB)[k] = a := by
  unfold nthElement at h
  exact List.getElem?_eq_some_iff.1 h

theorem nthElement_lt (xs : List Int) (k : Nat) (a : Int) (h : nthElement xs k = some a) : k < xs.length := by
  obtain ⟨hk, _⟩ := nthElement_eq_some xs k a h
  rwa [(List.mergeSort_perm xs leB).length_eq] at hk

theorem nthElement_mem (xs : List Int) (k : Nat) (a : Int) (h : nthElement xs k = some a) : a ∈ xs := by
  obtain ⟨hk, rfl⟩ := nthElement_eq_some xs k a h
  exact (List.mergeSort_perm xs leB).mem_iff.1 (List.getElem_mem hk)

theorem sorted_getElem_le (s : List Int) (hs : s.Pairwise (fun a b => a ≤ b)) (i j : Nat) (hij : i ≤ j)
    (hj : j < s.length) : s[i]'(by omega) ≤ s[j] := by
  rcases Nat.lt_or_ge i j with hlt | hge
  · exact List.pairwise_iff_getElem.1 hs i j (by omega) hj hlt
  · have : i = j := by omega
    subst this; exact Int.le_refl _

/-- a smaller index into the sorted samples gives a value that is not larger -/
theorem nthElement_mono (xs : List Int) (k k' : Nat) (a b : Int) (h : k ≤ k')
    (ha : nthElement xs k = some a) (hb : nthElement xs k' = some b) : a ≤ b := by
  obtain ⟨hk, rfl⟩ := nthElement_eq_some xs k a ha
  obtain ⟨hk', rfl⟩ := nthElement_eq_some xs k' b hb
  exact sorted_getElem_le _ (sorted_pairwise xs) k k' h hk'

/-- index 0 of the sorted samples is a lower bound of the samples -/
theorem nthElement_zero_le (xs : List Int) (a : Int) (ha : nthElement xs 0 = some a) :
    ∀ x ∈ xs, a ≤ x := by
  obtain ⟨hk, rfl⟩ := nthElement_eq_some xs 0 a ha
  intro x hx
  have hx' : x ∈ xs.mergeSort leB := (List.mergeSort_perm xs leB).mem_iff.2 hx
  obtain ⟨j, hj, rfl⟩ := List.mem_iff_getElem.1 hx'
  exact sorted_getElem_le _ (sorted_pairwise xs) 0 j (Nat.zero_le _) hj

/-- the last index of the sorted samples is an upper bound of the samples -/
theorem nthElement_last_ge (xs : List Int) (a : Int) (ha : nthElement xs (xs.length - 1) = some a) :
    ∀ x ∈ xs, x ≤ a := by
  obtain ⟨hk, rfl⟩ := nthElement_eq_some xs _ a ha
  intro x hx
  have hx' : x ∈ xs.mergeSort leB := (List.mergeSort_perm xs leB).mem_iff.2 hx
  obtain ⟨j, hj, rfl⟩ := List.mem_iff_getElem.1 hx'
  have hlen := (List.mergeSort_perm xs leB).length_eq
  exact sorted_getElem_le _ (sorted_pairwise xs) j _ (by omega) hk

/-! ### sums between the bounds -/

theorem sum_ge_of_le (xs : List Int) (lo : Int) (h : ∀ x ∈ xs, lo ≤ x) : lo * xs.length ≤ xs.sum := by
  induction xs with
  | nil => simp
  | cons a t ih =>
    have h1 := ih (fun x hx => h x (by simp [hx]))
    have h2 := h a (by simp)
    simp only [List.sum_cons, List.length_cons, Int.natCast_add, Int.natCast_one]
    rw [Int.mul_add]
    omega

theorem sum_le_of_le (xs : List Int) (hi : Int) (h : ∀ x ∈ xs, x ≤ hi) : xs.sum ≤ hi * xs.length := by
  induction xs with
  | nil => simp
  | cons a t ih =>
    have h1 := ih (fun x hx => h x (by simp [hx]))
    have h2 := h a (by simp)
    simp only [List.sum_cons, List.length_cons, Int.natCast_add, Int.natCast_one]
    rw [Int.mul_add]
    omega

/-! ### `Bc.sum()` of a 0/1 neighbourhood = number of members -/

theorem filterMap_ite_length {β : Type} (l : List Nat) (c : Nat → Bool) (g : Nat → β) :
    (l.filterMap fun i => if c i then none else some (g i)).length = l.countP (fun i => !c i) := by
  induction l with
  | nil => simp
  | cons a t ih =>
    by_cases h : c a = true
    · simp [h, ih]
    · have h' : c a = false := by simpa using h
      simp [h', ih]

theorem foldl_add_01 (l : List Int) (h : ∀ x ∈ l, x = 0 ∨ x = 1) (acc : Int) :
    l.foldl (· + ·) acc = acc + (l.countP (fun x => !(x == 0)) : Nat) := by
  induction l generalizing acc with
  | nil => simp
  | cons a t ih =>
    rw [List.foldl_cons, ih (fun x hx => h x (by simp [hx]))]
    rcases h a (by simp) with rfl | rfl
    · simp
    · simp only [List.countP_cons]
      simp
      omega

theorem range_map_getD (bc : Array Int) : (List.range bc.size).map (fun i => bc.getD i 0) = bc.toList := by
  apply List.ext_getElem
  · simp
  · intro i h1 h2
    simp only [List.length_map, List.length_range] at h1
    simp [Array.getD, h1]

/-- number of members of the neighbourhood as the filter iterator sees it = number of non-zero entries -/
theorem footprint_length (bshape : List Nat) (bc : Array Int) (hsz : bc.size = shapeSize bshape) :
    (footprint bshape bc).length = bc.toList.countP (fun x => !(x == 0)) := by
  unfold footprint
  rw [filterMap_ite_length, ← hsz, ← range_map_getD bc, List.countP_map]
  rfl

end Mahotas.C07
