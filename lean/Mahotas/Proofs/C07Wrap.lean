/-
C07, round 3 — `template_match<T>` in the wrap-around arithmetic of the image dtype: reduction modulo
`2^bits` is a ring homomorphism, so the value computed with promotions to `int`, wrapping products and
sums and conversions back to `T` is the exact sum of squared differences reduced into the range of `T`.
-/
import Mahotas.Proofs.C07
import Mahotas.Proofs.DType
import Mathlib.Data.Int.ModEq
namespace Mahotas.C07
open Mahotas

/-- the wrapped value is congruent to the exact one modulo the number of values of the dtype -/
theorem wrap_modEq (dt : DT) (x : Int) : dt.wrap x ≡ x [ZMOD dt.card] := by
  unfold DT.wrap
  have h : (x - dt.lo) % dt.card ≡ x - dt.lo [ZMOD dt.card] := Int.mod_modEq _ _
  have := h.add_right dt.lo
  simpa using this

/-- congruent integers wrap to the same value -/
theorem wrap_congr (dt : DT) (x y : Int) (h : x ≡ y [ZMOD dt.card]) : dt.wrap x = dt.wrap y := by
  unfold DT.wrap
  have : (x - dt.lo) % dt.card = (y - dt.lo) % dt.card := h.sub_right dt.lo
  rw [this]

/-- wrapping twice (first in a type whose size is a multiple) is wrapping once -/
theorem wrap_wrap_of_dvd (dt ar : DT) (hd : dt.card ∣ ar.card) (x : Int) :
    dt.wrap (ar.wrap x) = dt.wrap x :=
  wrap_congr dt _ _ ((wrap_modEq ar x).of_dvd hd)

/-- one accumulation step of `template_match<T>`: wrapped state in, wrapped state out -/
theorem tmStep_wrap (dt : DT) (hb : dt.isBool = false) (hd : dt.card ∣ (promote dt).card) (e d : Int) :
    castT dt ((promote dt).wrap (dt.wrap e + (promote dt).wrap
        (castT dt ((promote dt).wrap d) * castT dt ((promote dt).wrap d)))) =
      dt.wrap (e + d * d) := by
  simp only [castT, hb, Bool.false_eq_true, if_false]
  apply wrap_congr
  have hA : ∀ z, (promote dt).wrap z ≡ z [ZMOD dt.card] := fun z => (wrap_modEq _ z).of_dvd hd
  have hδ : dt.wrap ((promote dt).wrap d) ≡ d [ZMOD dt.card] := (wrap_modEq dt _).trans (hA d)
  exact (hA _).trans ((wrap_modEq dt e).add ((hA _).trans (hδ.mul hδ)))

/-- two folds over the same list whose steps preserve a relation end in related states -/
theorem foldl_rel {α β γ : Type} (R : α → β → Prop) (g : α → γ → α) (h : β → γ → β)
    (hstep : ∀ a b j, R a b → R (g a j) (h b j)) :
    ∀ (l : List γ) (a : α) (b : β), R a b → R (l.foldl g a) (l.foldl h b) := by
  intro l
  induction l with
  | nil => intro a b hab; exact hab
  | cons j l ih => intro a b hab; exact ih _ _ (hstep a b j hab)

/-- **the wrapping model is the exact model reduced into the dtype**, for every non-boolean dtype
    whose range contains 0 and whose size divides the size of its promoted type. -/
theorem tmAtWrap_eq_wrap (dt : DT) (hb : dt.isBool = false) (h0 : dt.lo ≤ 0 ∧ 0 ≤ dt.hi)
    (hd : dt.card ∣ (promote dt).card) (m : Mode) (f : Img Int) (tshape : List Nat) (t : Array Int)
    (p : List Int) :
    tmAtWrap dt m f tshape t p = dt.wrap (tmAt m f tshape t p) := by
  unfold tmAtWrap tmAt
  apply foldl_rel (fun a b => a = dt.wrap b)
  · intro a b j hab
    subst hab
    cases fixPos m f.shape (addPos p (offsetOf tshape j)) with
    | none => rfl
    | some q => exact tmStep_wrap dt hb hd _ _
  · exact (DT.wrap_in dt 0 h0).symm

/-- the integer dtypes of numpy that `template_match` is instantiated at -/
def intDTs : List DT := [dtU 8, dtU 16, dtU 32, dtU 64, dtI 8, dtI 16, dtI 32, dtI 64]

/-- each of them satisfies the hypotheses of `tmAtWrap_eq_wrap` (8/16-bit types are promoted to the
    32-bit `int`, whose size `2^32` is a multiple of theirs) -/
theorem intDTs_ok : ∀ dt ∈ intDTs,
    dt.isBool = false ∧ (dt.lo ≤ 0 ∧ 0 ≤ dt.hi) ∧ dt.card ∣ (promote dt).card := by
  decide

/-! ### bool -/

/-- one accumulation step for `T = bool` on 0/1 operands: the state is "some difference seen" -/
theorem tmStep_bool (w d : Int) (hw : w = 0 ∨ w = 1) (hd : d = 0 ∨ d = 1) :
    castT dtBool ((promote dtBool).wrap (w + (promote dtBool).wrap
        (castT dtBool ((promote dtBool).wrap d) * castT dtBool ((promote dtBool).wrap d)))) =
      if w = 0 ∧ d = 0 then 0 else 1 := by
  rcases hw with rfl | rfl <;> rcases hd with rfl | rfl <;> decide

/-- `template_match<bool>` on 0/1 data: `true` exactly when the exact sum of squared differences is
    not zero (conversion to `bool` is "non-zero", not reduction modulo 2) -/
theorem tmAtWrap_bool (m : Mode) (f : Img Int) (tshape : List Nat) (t : Array Int) (p : List Int)
    (hf : ∀ q, f.getD q 0 = 0 ∨ f.getD q 0 = 1) (ht : ∀ j, t.getD j 0 = 0 ∨ t.getD j 0 = 1) :
    tmAtWrap dtBool m f tshape t p = if tmAt m f tshape t p = 0 then 0 else 1 := by
  have hR : 0 ≤ tmAt m f tshape t p ∧ (tmAtWrap dtBool m f tshape t p = 0 ∨ tmAtWrap dtBool m f tshape t p = 1) ∧
      (tmAtWrap dtBool m f tshape t p = 0 ↔ tmAt m f tshape t p = 0) := by
    unfold tmAtWrap tmAt
    refine foldl_rel (fun (a b : Int) => 0 ≤ b ∧ (a = 0 ∨ a = 1) ∧ (a = 0 ↔ b = 0)) _ _ ?_ _ 0 0
      ⟨Int.le_refl 0, Or.inl rfl, Iff.rfl⟩
    intro a e j hab
    obtain ⟨he, ha, hae⟩ := hab
    cases fixPos m f.shape (addPos p (offsetOf tshape j)) with
    | none => exact ⟨he, ha, hae⟩
    | some q =>
      have hd : (if f.getD q 0 > t.getD j 0 then f.getD q 0 - t.getD j 0 else t.getD j 0 - f.getD q 0) = 0 ∨
          (if f.getD q 0 > t.getD j 0 then f.getD q 0 - t.getD j 0 else t.getD j 0 - f.getD q 0) = 1 := by
        rcases hf q with h | h <;> rcases ht j with h' | h' <;> rw [h, h'] <;> decide
      have hstep := tmStep_bool a _ ha hd
      refine ⟨?_, ?_, ?_⟩
      · show 0 ≤ e + _ * _
        rcases hd with h | h <;> rw [h] <;> omega
      · show castT dtBool _ = 0 ∨ castT dtBool _ = 1
        rw [hstep]
        rcases ha with rfl | rfl <;> rcases hd with h | h <;> rw [h] <;> decide
      · show castT dtBool _ = 0 ↔ e + _ * _ = 0
        rw [hstep]
        rcases ha with rfl | rfl <;> rcases hd with h | h <;> rw [h] <;> simp <;> omega
  obtain ⟨_, h01, hiff⟩ := hR
  by_cases h : tmAt m f tshape t p = 0
  · rw [if_pos h]; exact hiff.2 h
  · rw [if_neg h]
    rcases h01 with h0 | h1
    · exact absurd (hiff.1 h0) h
    · exact h1

end Mahotas.C07
