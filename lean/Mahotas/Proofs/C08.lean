/-
C08 — lemmas about the accessor layer: mixed-radix arithmetic (big-endian `unravel` vs the
little-endian digits the C++ loops produce), `at_flat`, the `iterator_base` odometer.
-/
import Mahotas.Model.C08Base
import Mathlib.Tactic.Ring
import Mathlib.Tactic.Linarith
namespace Mahotas.C08
open Mahotas

/-! ### little-endian digits (fastest axis first): what `p % dim(d); p /= dim(d)` produces -/

def unravelLE : List Nat → Nat → List Nat
  | [], _ => []
  | d :: ds, k => (k % d) :: unravelLE ds (k / d)

theorem shapeSize_append (xs ys : List Nat) : shapeSize (xs ++ ys) = shapeSize xs * shapeSize ys := by
  induction xs with
  | nil => simp [shapeSize]
  | cons x xs ih => simp [shapeSize, ih, Nat.mul_assoc]

theorem shapeSize_reverse (xs : List Nat) : shapeSize xs.reverse = shapeSize xs := by
  induction xs with
  | nil => rfl
  | cons x xs ih => simp [shapeSize_append, shapeSize, ih, Nat.mul_comm]

theorem unravelLE_length (ds : List Nat) (k : Nat) : (unravelLE ds k).length = ds.length := by
  induction ds generalizing k with
  | nil => rfl
  | cons d ds ih => simp [unravelLE, ih]

theorem unravel_length (ds : List Nat) (k : Nat) : (unravel ds k).length = ds.length := by
  induction ds generalizing k with
  | nil => rfl
  | cons d ds ih => simp [unravel, ih]

theorem unravelLE_append_one (xs : List Nat) (d k : Nat) :
    unravelLE (xs ++ [d]) k = unravelLE xs k ++ [(k / shapeSize xs) % d] := by
  induction xs generalizing k with
  | nil => simp [unravelLE, shapeSize]
  | cons x xs ih =>
    simp only [List.cons_append, unravelLE, shapeSize, ih, Nat.div_div_eq_div_mul]

theorem unravelLE_mod (xs : List Nat) (k : Nat) : unravelLE xs (k % shapeSize xs) = unravelLE xs k := by
  induction xs generalizing k with
  | nil => rfl
  | cons x xs ih =>
    simp only [unravelLE, shapeSize]
    rw [Nat.mod_mul_right_mod, Nat.mod_mul_right_div_self, ih]

/-- **digit reversal**: the digits the C++ loops peel off from the last axis are the C-order
coordinates, reversed -/
theorem unravelLE_reverse (shape : List Nat) (k : Nat) (hk : k < shapeSize shape) :
    unravelLE shape.reverse k = (unravel shape k).reverse := by
  induction shape generalizing k with
  | nil => rfl
  | cons d ds ih =>
    have hpos : 0 < shapeSize ds := by
      rcases Nat.eq_zero_or_pos (shapeSize ds) with h | h
      · simp [shapeSize, h] at hk
      · exact h
    simp only [List.reverse_cons, unravel, unravelLE_append_one, shapeSize_reverse]
    have h1 : k / shapeSize ds < d := by
      apply Nat.div_lt_of_lt_mul
      simpa [shapeSize, Nat.mul_comm] using hk
    rw [Nat.mod_eq_of_lt h1]
    have h2 := ih (k % shapeSize ds) (Nat.mod_lt _ hpos)
    rw [← h2]
    have h3 := unravelLE_mod ds.reverse k
    rw [shapeSize_reverse] at h3
    rw [h3]

/-! ### dot products -/

theorem dot_nil_right (ss : List Int) : dot ss [] = 0 := by cases ss <;> rfl

theorem dot_append_one (a : List Int) (b : List Nat) (x : Int) (y : Nat) (h : a.length = b.length) :
    dot (a ++ [x]) (b ++ [y]) = dot a b + x * (y : Int) := by
  induction a generalizing b with
  | nil =>
    cases b with
    | nil => simp [dot]
    | cons _ _ => simp at h
  | cons s ss ih =>
    cases b with
    | nil => simp at h
    | cons p ps =>
      simp only [List.cons_append, dot]
      rw [ih ps (by simpa using h)]
      ring

theorem dot_reverse (a : List Int) (b : List Nat) (h : a.length = b.length) :
    dot a.reverse b.reverse = dot a b := by
  induction a generalizing b with
  | nil => cases b <;> simp [dot]
  | cons s ss ih =>
    cases b with
    | nil => simp at h
    | cons p ps =>
      have hl : ss.length = ps.length := by simpa using h
      simp only [List.reverse_cons]
      rw [dot_append_one _ _ _ _ (by simpa using hl), ih ps hl]
      simp only [dot]
      ring

theorem dot_cStrides (shape : List Nat) (k : Nat) (hk : k < shapeSize shape) :
    dot (cStrides shape) (unravel shape k) = (k : Int) := by
  induction shape generalizing k with
  | nil =>
    simp [shapeSize] at hk
    simp [cStrides, unravel, dot, hk]
  | cons d ds ih =>
    have hpos : 0 < shapeSize ds := by
      rcases Nat.eq_zero_or_pos (shapeSize ds) with h | h
      · simp [shapeSize, h] at hk
      · exact h
    simp only [cStrides, unravel, dot]
    rw [ih _ (Nat.mod_lt _ hpos)]
    have := Nat.div_add_mod k (shapeSize ds)
    have h2 : (shapeSize ds : Int) * ((k / shapeSize ds : Nat) : Int) + ((k % shapeSize ds : Nat) : Int) = (k : Int) := by
      exact_mod_cast this
    linarith

/-! ### `at_flat` -/

theorem atFlatGo_eq (ds : List Nat) (ss : List Int) (p : Nat) (b : Int) :
    atFlatGo ds ss p b = b + dot ss (unravelLE ds p) := by
  induction ds generalizing ss p b with
  | nil => simp [atFlatGo, unravelLE, dot_nil_right]
  | cons d ds ih =>
    cases ss with
    | nil => simp [atFlatGo, dot]
    | cons s ss =>
      simp only [atFlatGo, unravelLE, dot]
      rw [ih]
      ring

/-- a well-formed view: one stride per axis, and the `carray` flag only on C-contiguous strides -/
structure View.WF (v : View) : Prop where
  len : v.strides.length = v.shape.length
  carray : v.carray = true → v.strides = cStrides v.shape

theorem le_address (v : View) (h : v.strides.length = v.shape.length) (k : Nat) (hk : k < shapeSize v.shape) :
    v.base + dot v.strides.reverse (unravelLE v.shape.reverse k) = v.addr (unravel v.shape k) := by
  rw [unravelLE_reverse _ _ hk, dot_reverse _ _ (by rw [unravel_length]; exact h)]
  rfl

theorem atFlat_eq_addr (v : View) (wf : v.WF) (p : Nat) (hp : p < shapeSize v.shape) :
    v.atFlat p = v.addr (unravel v.shape p) := by
  unfold View.atFlat
  split
  · rename_i hc
    unfold View.addr
    rw [wf.carray hc, dot_cStrides _ _ hp]
  · rw [atFlatGo_eq, le_address v wf.len p hp]

/-! ### the iterator odometer -/

theorem unravelLE_zero (ds : List Nat) : unravelLE ds 0 = ds.map (fun _ => 0) := by
  induction ds with
  | nil => rfl
  | cons d ds ih => simp [unravelLE, ih]

theorem dot_zeros (ss : List Int) (ds : List Nat) : dot ss (ds.map (fun _ => 0)) = 0 := by
  induction ss generalizing ds with
  | nil => cases ds <;> rfl
  | cons s ss ih =>
    cases ds with
    | nil => rfl
    | cons d ds => simp [dot, ih]

theorem succ_nocarry (k d : Nat) (h : k % d + 1 < d) : (k + 1) % d = k % d + 1 ∧ (k + 1) / d = k / d := by
  have hd : 0 < d := by omega
  have hk := Nat.div_add_mod k d
  have e : k + 1 = (k % d + 1) + d * (k / d) := by omega
  constructor
  · rw [e, Nat.add_mul_mod_self_left, Nat.mod_eq_of_lt h]
  · rw [e, Nat.add_mul_div_left _ _ hd, Nat.div_eq_of_lt h]; omega

theorem succ_carry (k d : Nat) (h : k % d + 1 = d) : (k + 1) % d = 0 ∧ (k + 1) / d = k / d + 1 := by
  have hd : 0 < d := by omega
  have hk := Nat.div_add_mod k d
  have e : k + 1 = d * (k / d + 1) := by rw [Nat.mul_add]; omega
  constructor
  · rw [e, Nat.mul_mod_right]
  · rw [e, Nat.mul_div_cancel_left _ hd]

/-- one `operator++`: position and pointer after the increment, for the steps computed by the
constructor loop started with an arbitrary `cummul` -/
theorem incrGo_eq (ds : List Nat) (rs : List Int) (cum : Int) (k : Nat) (data : Int)
    (hl : rs.length = ds.length) (hk : k + 1 < shapeSize ds) :
    incrGo (mkSteps rs ds cum) ds (unravelLE ds k) data =
      (unravelLE ds (k + 1), data + dot rs (unravelLE ds (k + 1)) - dot rs (unravelLE ds k) - cum) := by
  induction ds generalizing rs cum k data with
  | nil => simp [shapeSize] at hk
  | cons d ds ih =>
    cases rs with
    | nil => simp at hl
    | cons s rs =>
      have hl' : rs.length = ds.length := by simpa using hl
      have hd : 0 < d := by
        rcases Nat.eq_zero_or_pos d with h | h
        · simp [shapeSize, h] at hk
        · exact h
      have hlt : k % d < d := Nat.mod_lt _ hd
      simp only [mkSteps, unravelLE, incrGo]
      by_cases hc : k % d + 1 = d
      · -- carry into the next axis
        obtain ⟨hm, hq⟩ := succ_carry k d hc
        have hk' : k / d + 1 < shapeSize ds := by
          have : k + 1 = d * (k / d + 1) := by
            have := Nat.div_add_mod k d; rw [Nat.mul_add]; omega
          have h2 : d * (k / d + 1) < d * shapeSize ds := by
            rw [← this]; simpa [shapeSize] using hk
          exact Nat.lt_of_mul_lt_mul_left h2
        simp only [hc, ne_eq, not_true_eq_false, if_false, hm, hq]
        rw [ih rs _ (k / d) _ hl' hk']
        have hcast : ((k % d : Nat) : Int) = (d : Int) - 1 := by omega
        simp only [dot, hcast]
        congr 1
        push_cast
        ring
      · obtain ⟨hm, hq⟩ := succ_nocarry k d (by omega)
        simp only [ne_eq, hc, not_false_eq_true, if_true, hm, hq, dot]
        congr 1
        push_cast
        ring

/-- the state of the iterator after `k` increments -/
theorem incrN_eq (v : View) (h : v.strides.length = v.shape.length) (k : Nat) (hk : k < shapeSize v.shape) :
    (Iter.begin v).incrN k =
      { data := v.base + dot v.strides.reverse (unravelLE v.shape.reverse k)
        steps := mkSteps v.strides.reverse v.shape.reverse 0
        dims := v.shape.reverse
        pos := unravelLE v.shape.reverse k } := by
  induction k with
  | zero =>
    simp only [Iter.incrN, Iter.begin, unravelLE_zero, dot_zeros, Int.add_zero]
  | succ k ih =>
    have hk' : k < shapeSize v.shape := by omega
    simp only [Iter.incrN, ih hk', Iter.incr]
    rw [incrGo_eq _ _ _ _ _ (by simpa using h) (by rw [shapeSize_reverse]; exact hk)]
    simp only [Iter.mk.injEq, and_true]
    ring

/-! ### `pos_to_flat` / `flat_to_pos` -/

theorem posToFlatGo_eq (ds : List Nat) (k : Nat) (cum : Int) (hk : k < shapeSize ds) :
    posToFlatGo ds ((unravelLE ds k).map Int.ofNat) cum = cum * (k : Int) := by
  induction ds generalizing k cum with
  | nil =>
    simp [shapeSize] at hk
    simp [posToFlatGo, hk]
  | cons d ds ih =>
    have hd : 0 < d := by
      rcases Nat.eq_zero_or_pos d with h | h
      · simp [shapeSize, h] at hk
      · exact h
    have hk' : k / d < shapeSize ds := by
      apply Nat.div_lt_of_lt_mul
      simpa [shapeSize] using hk
    simp only [unravelLE, List.map_cons, posToFlatGo]
    rw [ih _ _ hk']
    have := Nat.div_add_mod k d
    have h2 : (d : Int) * ((k / d : Nat) : Int) + ((k % d : Nat) : Int) = (k : Int) := by exact_mod_cast this
    simp only [Int.ofNat_eq_natCast]
    rw [← h2]
    ring

theorem flatToPosGo_eq (ds : List Nat) (k : Nat) :
    flatToPosGo ds (k : Int) = ((unravelLE ds k).map Int.ofNat, ((k / shapeSize ds : Nat) : Int)) := by
  induction ds generalizing k with
  | nil => simp [flatToPosGo, unravelLE, shapeSize]
  | cons d ds ih =>
    simp only [flatToPosGo, unravelLE, shapeSize, List.map_cons]
    have h1 : Int.tdiv (k : Int) (d : Int) = ((k / d : Nat) : Int) := by
      rw [Int.tdiv_eq_ediv_of_nonneg (by omega)]; rfl
    have h2 : Int.tmod (k : Int) (d : Int) = ((k % d : Nat) : Int) := by
      rw [Int.tmod_eq_emod_of_nonneg (by omega)]; rfl
    rw [h1, h2, ih, Nat.div_div_eq_div_mul]
    rfl


theorem reverse_unravelI (shape : List Nat) (k : Nat) (hk : k < shapeSize shape) :
    (unravelI shape k).reverse = (unravelLE shape.reverse k).map Int.ofNat := by
  unfold unravelI
  rw [← List.map_reverse, unravelLE_reverse _ _ hk]

theorem posToFlat_unravel (v : View) (k : Nat) (hk : k < shapeSize v.shape) :
    v.posToFlat (unravelI v.shape k) = (k : Int) := by
  unfold View.posToFlat
  rw [reverse_unravelI _ _ hk, posToFlatGo_eq _ _ _ (by rw [shapeSize_reverse]; exact hk)]
  ring

theorem flatToPos_unravel (v : View) (k : Nat) (hk : k < shapeSize v.shape) :
    v.flatToPos (k : Int) = unravelI v.shape k := by
  unfold View.flatToPos
  rw [flatToPosGo_eq]
  simp only [shapeSize_reverse, Nat.div_eq_of_lt hk]
  have : ((unravelLE v.shape.reverse k).map Int.ofNat).reverse = unravelI v.shape k := by
    rw [← reverse_unravelI _ _ hk, List.reverse_reverse]
  rw [this]
  split <;> simp_all

/-! ### unsigned stride division -/

theorem unsignedStep_eq (sb : Int) (sz c : Nat) (h64 : sz ∣ two64) (hdiv : (sz : Int) ∣ sb) :
    ((unsignedStepBytes sb sz c : Nat) : Int) = ((c : Int) * sb) % (two64 : Int) := by
  unfold unsignedStepBytes
  have h2pos : (0 : Int) < (two64 : Int) := by decide
  have hnn : 0 ≤ sb % (two64 : Int) := Int.emod_nonneg _ (by omega)
  have hu : (((sb % (two64 : Int)).toNat : Nat) : Int) = sb % (two64 : Int) := Int.toNat_of_nonneg hnn
  have hdvd : (sz : Int) ∣ sb % (two64 : Int) := by
    rw [Int.emod_def]
    exact Int.dvd_sub hdiv (Dvd.dvd.mul_right (by exact_mod_cast h64) _)
  have hdn : sz ∣ (sb % (two64 : Int)).toNat := by
    have : (sz : Int) ∣ (((sb % (two64 : Int)).toNat : Nat) : Int) := by rw [hu]; exact hdvd
    exact_mod_cast this
  have hcancel : c * ((sb % (two64 : Int)).toNat / sz) * sz = c * (sb % (two64 : Int)).toNat := by
    rw [Nat.mul_assoc, Nat.div_mul_cancel hdn]
  rw [hcancel]
  push_cast
  rw [hu, Int.mul_emod, Int.emod_emod_of_dvd _ (dvd_refl _), ← Int.mul_emod]

end Mahotas.C08
