/-
C08 — F15 (`defined_everywhere`): the loop skeletons and the scatter of `dilate` leave no output cell unwritten;
`cwatershed`'s outputs keep the size of the zero-filled arrays they start from; the per-axis lines of `distance`.
-/
import Mahotas.Proofs.C08Kernels
namespace Mahotas.C08
open Mahotas

/-- no cell of an output is still unwritten -/
def AllSome {β : Type} (a : Array (Option β)) : Prop := ∀ o ∈ a.toList, o.isSome = true

theorem pixelLoop_defined {β : Type} (N : Nat) (g : Nat → β) :
    (pixelLoop N g).size = N ∧ AllSome (pixelLoop N g) := by
  rw [pixelLoop_eq]
  refine ⟨by simp, ?_⟩
  intro o ho
  simp only [List.mem_map] at ho
  obtain ⟨i, _, rfl⟩ := ho
  rfl

theorem markLoop_defined (N : Nat) (g : Nat → Bool) :
    (markLoop N g).size = N ∧ AllSome (markLoop N g) := by
  rw [markLoop_eq]
  refine ⟨by simp, ?_⟩
  intro o ho
  simp only [List.mem_map] at ho
  obtain ⟨i, _, rfl⟩ := ho
  rfl

theorem allSome_set {β : Type} (a : Array (Option β)) (i : Nat) (x : β) (h : AllSome a) :
    AllSome (a.setIfInBounds i (some x)) := by
  intro o ho
  rw [Array.toList_setIfInBounds] at ho
  rcases List.mem_or_eq_of_mem_set ho with h1 | h1
  · exact h o h1
  · subst h1; rfl

theorem foldl_inv {σ ι : Type} (P : σ → Prop) (f : σ → ι → σ) (l : List ι) (init : σ) (h0 : P init)
    (hstep : ∀ a x, P a → P (f a x)) : P (l.foldl f init) := by
  induction l generalizing init with
  | nil => exact h0
  | cons x t ih => exact ih (f init x) (hstep init x h0)

theorem dilateStep_inv (dt : DT) (fv : FiltV Int) (value : Int) (i : Nat) (res : Array (Option Int)) (j : Nat)
    (N : Nat) (h : res.size = N ∧ AllSome res) :
    (dilateStep dt fv value i res j).size = N ∧ AllSome (dilateStep dt fv value i res j) := by
  unfold dilateStep
  simp only
  split
  · split
    · exact ⟨by simp [h.1], allSome_set _ _ _ h.2⟩
    · exact h
  · exact h

theorem dilateView_defined (dt : DT) (mA : Int → Int) (vA : View) (mB : Int → Int) (vB : View) :
    (dilateView dt mA vA mB vB).size = shapeSize vA.shape ∧ AllSome (dilateView dt mA vA mB vB) := by
  unfold dilateView
  simp only
  split
  · exact pixelLoop_defined _ _
  · apply foldl_inv (fun (r : Array (Option Int)) => r.size = shapeSize vA.shape ∧ AllSome r)
    · exact pixelLoop_defined _ _
    · intro a i ha
      split
      · exact ha
      · apply foldl_inv (fun (r : Array (Option Int)) => r.size = shapeSize vA.shape ∧ AllSome r)
        · exact ha
        · intro a' j ha'
          exact dilateStep_inv dt _ _ i a' j _ ha'

/-! ### cwatershed: the outputs stay the zero-filled arrays, overwritten in place -/

def WsSized (n : Nat) (st : C04.MSt) : Prop := st.res.size = n ∧ st.lines.size = n

theorem modelInit_sized (surf markers : Img Int) : WsSized (shapeSize surf.shape) (C04.modelInit surf markers) := by
  unfold C04.modelInit
  simp only
  apply foldl_inv (WsSized (shapeSize surf.shape))
  · exact ⟨by simp, by simp⟩
  · intro st i h
    split
    · exact h
    · exact ⟨by simp [h.1], h.2⟩

theorem modelVisit_sized (surf : Img Int) (next : C04.QE) (n : Nat) (acc : C04.MSt × Int) (nb : C04.Nb)
    (h : WsSized n acc.1) : WsSized n (C04.modelVisit surf next acc nb).1 := by
  obtain ⟨st, margin⟩ := acc
  unfold C04.modelVisit
  simp only
  split
  · exact h
  · split
    · exact ⟨by simp [h.1], h.2⟩
    · split
      · split
        · exact ⟨h.1, by simp [h.2]⟩
        · exact h
      · exact h

theorem modelStep_sized (surf : Img Int) (nbs : List C04.Nb) (n : Nat) (st st' : C04.MSt) (h : WsSized n st)
    (hs : C04.modelStep surf nbs st = some st') : WsSized n st' := by
  unfold C04.modelStep at hs
  split at hs
  · cases hs
  · rename_i e rest _
    simp only [Option.some.injEq] at hs
    subst hs
    apply foldl_inv (fun (acc : C04.MSt × Int) => WsSized n acc.1)
    · exact h
    · intro acc nb hacc
      exact modelVisit_sized surf e n acc nb hacc

theorem modelRun_sized (surf : Img Int) (nbs : List C04.Nb) (n : Nat) (fuel : Nat) (st : C04.MSt)
    (h : WsSized n st) : WsSized n (C04.modelRun surf nbs fuel st) := by
  induction fuel generalizing st with
  | zero => exact h
  | succ k ih =>
    unfold C04.modelRun
    split
    · exact h
    · rename_i st' hs
      exact ih st' (modelStep_sized surf nbs n st st' h hs)

/-! ### distance: a line of the array, addressed by its own stride -/

theorem dot_set (s : List Int) (p : List Nat) (axis t : Nat) (hl : p.length = s.length) (ha : axis < p.length) :
    dot s (p.set axis t) = dot s (p.set axis 0) + s.getD axis 0 * (t : Int) := by
  induction s generalizing p axis with
  | nil => simp at hl; subst hl; simp at ha
  | cons x xs ih =>
    cases p with
    | nil => simp at ha
    | cons a as =>
      cases axis with
      | zero => simp [dot]; ring
      | succ k =>
        simp only [List.set_cons_succ, dot, List.getD_cons_succ]
        rw [ih as k (by simpa using hl) (by simpa using ha)]
        ring

theorem lineView_addr (v : View) (axis : Nat) (p : List Nat) (t : Nat) (hl : p.length = v.strides.length)
    (ha : axis < p.length) : (lineView v axis p).addr [t] = v.addr (p.set axis t) := by
  unfold lineView View.addr
  simp only [dot]
  rw [dot_set v.strides p axis t hl ha]
  ring

end Mahotas.C08
