/-
C08 (round 3) — F15 of the binary fast path. `fastBinaryView` runs the row loops of `fast_binary_dilate_erode_2d` on
`Option` cells (an update `&=` / `|=` of an unwritten cell leaves it unwritten). The `std::copy` / `std::fill_n` in
front of the loops assigns every cell, and from there on the `Option` cells are `some` of the cells of the `Int`-celled
loops `C01.fastErodeLoops` / `C01.fastDilateLoops` run on the logical arrays.
-/
import Mahotas.Proofs.C08Ties
namespace Mahotas.C08
open Mahotas

theorem set_oob {β : Type} (a : Array β) (j : Nat) (x : β) (h : ¬ j < a.size) : a.setIfInBounds j x = a := by
  simp [Array.setIfInBounds, h]

theorem andIntoO_map (out : Array Int) (j : Nat) (b : Int) :
    andIntoO (out.map some) j b = (C01.andInto out j b).map some := by
  unfold andIntoO C01.andInto
  rw [Array.map_setIfInBounds]
  by_cases hj : j < out.size
  · simp [Array.getD_eq_getD_getElem?, hj]
  · rw [set_oob _ _ _ (by simpa using hj), set_oob _ _ _ (by simpa using hj)]

theorem orIntoO_map (out : Array Int) (j : Nat) (b : Int) :
    orIntoO (out.map some) j b = (C01.orInto out j b).map some := by
  unfold orIntoO C01.orInto
  rw [Array.map_setIfInBounds]
  by_cases hj : j < out.size
  · simp [Array.getD_eq_getD_getElem?, hj]
  · rw [set_oob _ _ _ (by simpa using hj), set_oob _ _ _ (by simpa using hj)]

theorem fold_and (jf : Nat → Nat) (bf : Nat → Int) (l : List Nat) (out : Array Int) :
    l.foldl (fun res i => andIntoO res (jf i) (bf i)) (out.map some) =
      (l.foldl (fun res i => C01.andInto res (jf i) (bf i)) out).map some := by
  induction l generalizing out with
  | nil => rfl
  | cons a t ih => simp only [List.foldl_cons, andIntoO_map, ih]

theorem fold_or (jf : Nat → Nat) (bf : Nat → Int) (l : List Nat) (out : Array Int) :
    l.foldl (fun res i => orIntoO res (jf i) (bf i)) (out.map some) =
      (l.foldl (fun res i => C01.orInto res (jf i) (bf i)) out).map some := by
  induction l generalizing out with
  | nil => rfl
  | cons a t ih => simp only [List.foldl_cons, orIntoO_map, ih]

theorem fastErodeRowO_map (data : Array Int) (Nx orow irow : Nat) (dx : Int) (out : Array Int) :
    fastErodeRowO data Nx orow irow dx (out.map some) = (C01.fastErodeRow data Nx orow irow dx out).map some := by
  unfold fastErodeRowO C01.fastErodeRow
  simp only
  split
  · rw [fold_and, fold_and]
  · split
    · rw [fold_and, fold_and]
    · rw [fold_and]

theorem fastDilateRowO_map (data : Array Int) (Nx orow irow : Nat) (dx : Int) (out : Array Int) :
    fastDilateRowO data Nx orow irow dx (out.map some) = (C01.fastDilateRow data Nx orow irow dx out).map some := by
  unfold fastDilateRowO C01.fastDilateRow
  simp only
  split
  · rw [fold_or, fold_or]
  · split
    · rw [fold_or, fold_or]
    · rw [fold_or]

theorem foldl_map_some {ι : Type} (f : Array (Option Int) → ι → Array (Option Int)) (g : Array Int → ι → Array Int)
    (h : ∀ out x, f (out.map some) x = (g out x).map some) (l : List ι) (out : Array Int) :
    l.foldl f (out.map some) = (l.foldl g out).map some := by
  induction l generalizing out with
  | nil => rfl
  | cons a t ih => simp only [List.foldl_cons, h, ih]

/-- the `std::copy` of the raw data: every cell assigned -/
theorem pixelLoop_copy (L : List Int) :
    pixelLoop L.length (fun k => L.toArray.getD k 0) = L.toArray.map some := by
  rw [pixelLoop_eq]
  simp only [toArray_getD, List.map_toArray]
  congr 1
  have := range_map_getD L 0
  conv => rhs; rw [← this]
  rw [List.map_map]
  rfl

theorem pixelLoop_fill (N : Nat) (c : Int) : pixelLoop N (fun _ => c) = (Array.replicate N c).map some := by
  rw [pixelLoop_eq, Array.map_replicate, replicate_eq_map]

/-- raw-pointer reads of a C-array are its logical content -/
theorem raw_eq_logical (mem : Int → Int) (v : View) (wf : v.WF) (hc : v.carray = true) :
    ((List.range (shapeSize v.shape)).map fun (k : Nat) => mem (v.base + (k : Int))) = logical mem v := by
  unfold logical
  apply List.map_congr_left
  intro k hk
  unfold View.addr
  rw [wf.carray hc, dot_cStrides _ _ (List.mem_range.1 hk)]

/-- `Bc.at(y, x)` over `y, x` in C order is the logical content of a 2-D view -/
theorem at2_eq_logical (mem : Int → Int) (v : View) (By Bx : Nat) (hs : v.shape = [By, Bx]) :
    ((List.range (By * Bx)).map fun (k : Nat) => mem (v.at [k / Bx, k % Bx])) = logical mem v := by
  unfold logical
  rw [hs]
  simp only [shapeSize, Nat.mul_one, unravel, Nat.div_one]
  rfl

/-- **the binary fast path over views is C01's row-loop model on the logical arrays**, every cell assigned. -/
theorem fastBinaryView_eq (isErosion : Bool) (mA : Int → Int) (vA : View) (mB : Int → Int) (vB : View)
    (Ny Nx By Bx : Nat) (hA : vA.shape = [Ny, Nx]) (hB : vB.shape = [By, Bx]) (wfA : vA.WF)
    (hc : vA.carray = true) :
    fastBinaryView isErosion mA vA mB vB =
      (if isErosion then C01.fastErodeLoops (toImg mA vA) vB.shape (logical mB vB).toArray
       else C01.fastDilateLoops (toImg mA vA) vB.shape (logical mB vB).toArray).map some := by
  have hN : shapeSize vA.shape = Ny * Nx := by rw [hA]; simp [shapeSize]
  have hraw := raw_eq_logical mA vA wfA hc
  rw [hN] at hraw
  have hbc := at2_eq_logical mB vB By Bx hB
  have hlen : (logical mA vA).length = Ny * Nx := by rw [logical_length, hN]
  have hshape : (toImg mA vA).shape = [Ny, Nx] := hA
  have hdata : (toImg mA vA).data = (logical mA vA).toArray := rfl
  have hsize : (toImg mA vA).size = Ny * Nx := hN
  unfold fastBinaryView
  rw [hA, hB]
  simp only [hraw, hbc]
  have hinit : (if C01.centreSet [By, Bx] (logical mB vB).toArray = true then
        pixelLoop (Ny * Nx) fun k => (logical mA vA).toArray.getD k 0
      else pixelLoop (Ny * Nx) fun _ => if isErosion = true then (1 : Int) else 0) =
      (if C01.centreSet [By, Bx] (logical mB vB).toArray = true then (logical mA vA).toArray
       else Array.replicate (Ny * Nx) (if isErosion = true then (1 : Int) else 0)).map some := by
    split
    · rw [← hlen]; exact pixelLoop_copy _
    · exact pixelLoop_fill _ _
  rw [hinit]
  cases isErosion with
  | true =>
    simp only [if_true]
    unfold C01.fastErodeLoops
    simp only [hshape, hdata, hsize]
    apply foldl_map_some
    intro out y
    apply foldl_map_some
    intro out' d
    exact fastErodeRowO_map _ _ _ _ _ _
  | false =>
    simp only [Bool.false_eq_true, if_false]
    unfold C01.fastDilateLoops
    simp only [hshape, hdata, hsize]
    apply foldl_map_some
    intro out y
    apply foldl_map_some
    intro out' d
    exact fastDilateRowO_map _ _ _ _ _ _

end Mahotas.C08
