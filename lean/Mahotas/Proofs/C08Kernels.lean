/-
C08 — kernels over views: the reads a `filter_iterator` built from the strides of the array it is used on
delivers are the logical neighbours (F6 + F7), whatever the strides; the loop skeletons `pixelLoop` / `markLoop`
write every cell. Used by `Properties/C08.lean` for the per-kernel layout-freedom theorems.
-/
import Mahotas.Proofs.C08
import Mahotas.Proofs.FilterIter
import Mahotas.Proofs.C01Index
import Mahotas.Proofs.C02Index
namespace Mahotas.C08
open Mahotas

/-- the logical array a (memory, view) pair presents -/
def toImg {α : Type} (mem : Int → α) (v : View) : Img α := { shape := v.shape, data := (logical mem v).toArray }

/-- all axes have at least one element -/
def View.Pos (v : View) : Prop := ∀ a ∈ v.shape, 1 ≤ a

/-! ### signed positions -/

theorem elemOffset_ofNat (s : List Int) (l : List Nat) :
    FilterIter.elemOffset s (l.map Int.ofNat) = dot s l := by
  induction s generalizing l with
  | nil => cases l <;> simp [FilterIter.elemOffset, dot]
  | cons x xs ih =>
    cases l with
    | nil => simp [FilterIter.elemOffset, dot]
    | cons y ys => simp [FilterIter.elemOffset, dot, ih]

theorem elemOffset_sub (s p q : List Int) (h : q.length = p.length) :
    FilterIter.elemOffset s p + FilterIter.elemOffset s (subPos q p) = FilterIter.elemOffset s q := by
  induction s generalizing p q with
  | nil => simp [FilterIter.elemOffset]
  | cons x xs ih =>
    cases p with
    | nil =>
      have : q = [] := by simpa using h
      subst this
      simp [FilterIter.elemOffset, subPos]
    | cons a as =>
      cases q with
      | nil => simp at h
      | cons b bs =>
        simp only [FilterIter.elemOffset, subPos]
        have := ih as bs (by simpa using h)
        rw [← this]
        ring

theorem addr_unravel (v : View) (i : Nat) :
    v.addr (unravel v.shape i) = v.base + FilterIter.elemOffset v.strides (unravelI v.shape i) := by
  unfold View.addr unravelI
  rw [elemOffset_ofNat]

theorem toImg_getD {α : Type} (mem : Int → α) (v : View) (q : List Int) (d : α)
    (hq : inside v.shape q = true) :
    (toImg mem v).getD q d = mem (v.base + FilterIter.elemOffset v.strides q) := by
  have hlt := C01.ravelI_lt v.shape q hq
  have h1 : (toImg mem v).getD q d = (toImg mem v).data.getD (ravelI v.shape q) d :=
    Img.getD_inside (toImg mem v) q d hq
  rw [h1]
  simp only [toImg, logical]
  rw [Array.getD_eq_getD_getElem?, List.getElem?_toArray, List.getElem?_map, List.getElem?_range hlt]
  simp only [Option.map_some, Option.getD_some]
  rw [addr_unravel, C01.unravelI_ravelI _ _ hq]

theorem toImg_getD_unravel {α : Type} (mem : Int → α) (v : View) (i : Nat) (d : α)
    (hi : i < shapeSize v.shape) :
    (toImg mem v).getD (unravelI v.shape i) d = mem (v.addr (unravel v.shape i)) := by
  rw [toImg_getD mem v _ d (inside_unravelI _ _ hi), addr_unravel]

theorem fixPos_inside (m : Mode) : ∀ (s : List Nat) (q r : List Int), (∀ d ∈ s, 0 < d) →
    q.length = s.length → fixPos m s q = some r → inside s r = true := by
  intro s
  induction s with
  | nil =>
    intro q r _ hq h
    have : q = [] := by simpa using hq
    subst this
    simp only [fixPos, Option.some.injEq] at h
    subst h
    rfl
  | cons d ds ih =>
    intro q r hs hq h
    cases q with
    | nil => simp at hq
    | cons x xs =>
      simp only [fixPos] at h
      cases h1 : fixOffset m x d with
      | none => simp [h1] at h
      | some c =>
        cases h2 : fixPos m ds xs with
        | none => simp [h1, h2] at h
        | some cs =>
          simp only [h1, h2, Option.some.injEq] at h
          subst h
          have hr := fixOffset_range m x d (by have := hs d (by simp); omega) c h1
          have := ih xs cs (fun e he => hs e (by simp [he])) (by simpa using hq) h2
          simp only [inside, this, Bool.and_true, Bool.and_eq_true, decide_eq_true_eq]
          exact hr

/-! ### the read of a filter iterator -/

/-- **the filter read is the logical neighbour.** A `filter_iterator` whose offsets were multiplied with the
strides of the very array it is applied to retrieves, at loop iteration `i` and for the `j`-th footprint
element (filter coordinate `k`), the logical element at `fix(mode, p + k − ⌊fshape/2⌋)`, `p = unravel i` —
for all strides (F6 for the table, F7 for the pointer). -/
theorem retrieve_logical {α : Type} (mem : Int → α) (v : View) (wf : v.WF) (hpos : v.Pos)
    (m : Mode) (fshape : List Nat) (fp : Array Bool) (fdata : Array α)
    (hlen : v.shape.length = fshape.length) (hf : ∀ f ∈ fshape, 1 ≤ f)
    (i : Nat) (hi : i < shapeSize v.shape) (j : Nat) (hj : j < (FilterIter.footprintCoords fshape fp).length)
    (d : α) :
    (FiltV.mk (FilterIter.mkFIter m v.shape fshape fp) v.shape v.strides fdata).retrieve mem (iterPtr v i) i j =
      (fixPos m v.shape (addPos (unravelI v.shape i)
          (subPos ((FilterIter.footprintCoords fshape fp)[j]) (centreOf fshape)))).map
        fun q => (toImg mem v).getD q d := by
  unfold FiltV.retrieve
  simp only
  rw [filterIter_refines m v.shape fshape fp hlen hpos hf i hi j hj]
  unfold FilterIter.closedForm
  have hpl : (unravelI v.shape i).length = v.shape.length := by simp [unravelI, unravel_length]
  have hkl : ((FilterIter.footprintCoords fshape fp)[j]).length = fshape.length := by
    simp only [FilterIter.footprintCoords, List.getElem_map]
    simp [unravelI, unravel_length]
  cases hq : fixPos m v.shape (addPos (unravelI v.shape i)
      (subPos ((FilterIter.footprintCoords fshape fp)[j]) (centreOf fshape))) with
  | none => simp
  | some q =>
    simp only [Option.map_some]
    have hc : (centreOf fshape).length = ((FilterIter.footprintCoords fshape fp)[j]).length := by
      simp [centreOf, hkl]
    have h1 : (subPos ((FilterIter.footprintCoords fshape fp)[j]) (centreOf fshape)).length
        = (unravelI v.shape i).length := by
      rw [FilterIter.subPos_length _ _ hc, hkl, hpl, hlen]
    have hal := FilterIter.addPos_length (unravelI v.shape i) _ h1
    have hql := FilterIter.fixPos_length m v.shape _ q (by rw [hal, hpl]) hq
    have hin := fixPos_inside m v.shape _ q (fun e he => by have := hpos e he; omega) (by rw [hal, hpl]) hq
    rw [toImg_getD mem v q d hin]
    congr 2
    unfold iterPtr
    rw [(incrN_eq v wf.len i hi), le_address v wf.len i hi, addr_unravel, Int.add_assoc,
      elemOffset_sub v.strides (unravelI v.shape i) q (by rw [hql, hpl])]

/-! ### the filter argument -/

theorem filtVals_eq {α : Type} (mF : Int → α) (vF : View) (wf : vF.WF) : filtVals mF vF = logical mF vF := by
  unfold filtVals logical
  apply List.map_congr_left
  intro k hk
  have hk' : k < shapeSize vF.shape := List.mem_range.1 hk
  simp only [readIter]
  rw [incrN_eq vF wf.len k hk', le_address vF wf.len k hk']

theorem logical_length {α : Type} (mem : Int → α) (v : View) : (logical mem v).length = shapeSize v.shape := by
  simp [logical]

theorem range_map_getD {α : Type} (l : List α) (d : α) : (List.range l.length).map (fun k => l.getD k d) = l := by
  apply List.ext_getElem
  · simp
  · intro n h1 h2
    simp [List.getD_eq_getElem?_getD, List.getElem?_eq_getElem h2]

theorem filter_via_range {α : Type} (l : List α) (d : α) (P : α → Bool) :
    ((List.range l.length).filter fun k => P (l.getD k d)).map (fun k => l.getD k d) = l.filter P := by
  have := List.filter_map (f := fun k => l.getD k d) (p := P) (l := List.range l.length)
  rw [range_map_getD] at this
  rw [this]
  rfl

/-- the logical neighbour list at position `p`: the footprint elements in C order (those `keep` selects), each
with the element the border rule selects (`none`: flagged) and its filter value -/
def logicalNeigh {α : Type} (m : Mode) (A : Img α) (fshape : List Nat) (w : List α) (keep : α → Bool) (d : α)
    (p : List Int) : List (Option α × α) :=
  ((List.range (shapeSize fshape)).filter fun kk => keep (w.getD kk d)).map fun kk =>
    ((fixPos m A.shape (addPos p (subPos (unravelI fshape kk) (centreOf fshape)))).map (fun q => A.getD q d),
     w.getD kk d)

theorem fpIdx_eq {α : Type} (fshape : List Nat) (w : List α) (hw : w.length = shapeSize fshape) (P : α → Bool) (d : α) :
    FilterIter.fpIdx fshape (w.map P).toArray = (List.range (shapeSize fshape)).filter fun kk => P (w.getD kk d) := by
  unfold FilterIter.fpIdx
  apply List.filter_congr
  intro k hk
  have hk' : k < w.length := by rw [hw]; exact List.mem_range.1 hk
  simp [Array.getD_eq_getD_getElem?, List.getD_eq_getElem?_getD, List.getElem?_eq_getElem hk']

theorem fpIdx_all (fshape : List Nat) :
    FilterIter.fpIdx fshape (Array.replicate (shapeSize fshape) true) = List.range (shapeSize fshape) := by
  unfold FilterIter.fpIdx
  rw [List.filter_eq_self]
  intro k hk
  have hk' : k < shapeSize fshape := List.mem_range.1 hk
  simp [Array.getD_eq_getD_getElem?, hk']

/-- **the inner loop sees the logical neighbourhood.** For every well-formed view of an array with at least one
element per axis, any filter view of the same rank (C-contiguous when `compress = false`, where the raw data pointer
is indexed), any border mode and any loop iteration `i`: the list of `(retrieve(iter, j, ·), filter[j])` pairs is the
logical neighbour list of the *logical* arrays at `unravel i`. -/
theorem neigh_logical {α : Type} (isNZ : α → Bool) (mA : Int → α) (vA : View) (mF : Int → α) (vF : View)
    (wfA : vA.WF) (wfF : vF.WF) (hA : vA.Pos) (hF : vF.Pos) (hlen : vA.shape.length = vF.shape.length)
    (m : Mode) (compress : Bool) (hc : compress = false → vF.strides = cStrides vF.shape)
    (d : α) (i : Nat) (hi : i < shapeSize vA.shape) :
    (mkFiltV isNZ vA mF vF m compress).neigh d mA (iterPtr vA i) i =
      logicalNeigh m (toImg mA vA) vF.shape (logical mF vF) (if compress then isNZ else fun _ => true) d
        (unravelI vA.shape i) := by
  have hw : (logical mF vF).length = shapeSize vF.shape := logical_length mF vF
  unfold FiltV.neigh logicalNeigh mkFiltV
  simp only [filtVals_eq mF vF wfF]
  cases compress with
  | true =>
    simp only [if_true]
    have hidx := fpIdx_eq vF.shape (logical mF vF) hw isNZ d
    have hsz : (FilterIter.mkFIter m vA.shape vF.shape ((logical mF vF).map isNZ).toArray).size =
        ((List.range (shapeSize vF.shape)).filter fun kk => isNZ ((logical mF vF).getD kk d)).length := by
      rw [FilterIter.mkFIter_size, FilterIter.footprintCoords_eq, List.length_map, hidx]
    apply List.ext_getElem
    · simp [hsz]
    · intro j h1 h2
      have hj : j < ((List.range (shapeSize vF.shape)).filter fun kk => isNZ ((logical mF vF).getD kk d)).length := by
        simpa using h2
      have hjc : j < (FilterIter.footprintCoords vF.shape ((logical mF vF).map isNZ).toArray).length := by
        rw [FilterIter.footprintCoords_eq, List.length_map, hidx]; exact hj
      simp only [List.getElem_map, List.getElem_range]
      rw [retrieve_logical mA vA wfA hA m vF.shape _ _ hlen hF i hi j hjc d]
      congr 1
      · simp only [FilterIter.footprintCoords_eq, List.getElem_map, hidx]
        rfl
      · have hfl := filter_via_range (logical mF vF) d isNZ
        rw [hw] at hfl
        simp only [← hfl, Array.getD_eq_getD_getElem?, List.getElem?_toArray, List.getElem?_map,
          List.getElem?_eq_getElem hj, Option.map_some, Option.getD_some]
  | false =>
    simp only [Bool.false_eq_true, if_false]
    have hidx := fpIdx_all vF.shape
    have hsz : (FilterIter.mkFIter m vA.shape vF.shape (Array.replicate (shapeSize vF.shape) true)).size =
        shapeSize vF.shape := by
      rw [FilterIter.mkFIter_size, FilterIter.footprintCoords_eq, List.length_map, hidx, List.length_range]
    have hfr : ((List.range (shapeSize vF.shape)).filter fun _ => true) = List.range (shapeSize vF.shape) := by
      simp
    rw [hfr]
    apply List.ext_getElem
    · simp [hsz]
    · intro j h1 h2
      have hj : j < shapeSize vF.shape := by simpa using h2
      have hjc : j < (FilterIter.footprintCoords vF.shape (Array.replicate (shapeSize vF.shape) true)).length := by
        rw [FilterIter.footprintCoords_eq, List.length_map, hidx, List.length_range]; exact hj
      simp only [List.getElem_map, List.getElem_range]
      rw [retrieve_logical mA vA wfA hA m vF.shape _ _ hlen hF i hi j hjc d]
      congr 1
      · simp only [FilterIter.footprintCoords_eq, List.getElem_map, hidx, List.getElem_range]
        rfl
      · simp only [Array.getD_eq_getD_getElem?, List.getElem?_toArray, List.getElem?_map,
          List.getElem?_range hj, Option.map_some, Option.getD_some, logical,
          List.getD_eq_getElem?_getD]
        unfold View.addr
        rw [hc rfl, dot_cStrides _ _ hj]

/-! ### same logical content -/

theorem toImg_congr {α : Type} (m₁ m₂ : Int → α) (v₁ v₂ : View) (hs : v₁.shape = v₂.shape)
    (he : ∀ k, k < shapeSize v₁.shape → m₁ (v₁.addr (unravel v₁.shape k)) = m₂ (v₂.addr (unravel v₂.shape k))) :
    toImg m₁ v₁ = toImg m₂ v₂ := by
  unfold toImg logical
  rw [← hs]
  congr 2
  apply List.map_congr_left
  intro k hk
  have := he k (List.mem_range.1 hk)
  rw [← hs] at this
  exact this

theorem logical_eq_of_toImg {α : Type} (m₁ m₂ : Int → α) (v₁ v₂ : View) (h : toImg m₁ v₁ = toImg m₂ v₂) :
    logical m₁ v₁ = logical m₂ v₂ ∧ v₁.shape = v₂.shape := by
  unfold toImg at h
  injection h with h1 h2
  exact ⟨by simpa using h2, h1⟩

/-! ### the loop skeletons write every cell -/

theorem replicate_eq_map {γ : Type} (N : Nat) (c : γ) :
    Array.replicate N c = ((List.range N).map fun _ => c).toArray := by
  apply Array.ext
  · simp
  · intro i h1 h2
    simp

theorem pixelLoop_go {β : Type} (N : Nat) (g : Nat → β) (k : Nat) (hk : k ≤ N) :
    (List.range k).foldl (fun (res : Array (Option β)) i => res.setIfInBounds i (some (g i))) (Array.replicate N none)
      = ((List.range N).map fun i => if i < k then some (g i) else none).toArray := by
  induction k with
  | zero => simpa using replicate_eq_map N (none : Option β)
  | succ k ih =>
    rw [List.range_succ, List.foldl_append, ih (by omega)]
    simp only [List.foldl_cons, List.foldl_nil]
    apply Array.ext
    · simp
    · intro i h1 h2
      have hi : i < N := by simpa using h2
      simp only [Array.getElem_setIfInBounds, List.getElem_toArray, List.getElem_map, List.getElem_range]
      by_cases hik : k = i
      · subst hik; simp
      · have : (i < k + 1) = (i < k) := by
          apply propext; constructor <;> intro h <;> omega
        simp [hik, this]

/-- `pixelLoop` leaves no cell unwritten: it is the array of the `some (g i)` -/
theorem pixelLoop_eq {β : Type} (N : Nat) (g : Nat → β) :
    pixelLoop N g = ((List.range N).map fun i => some (g i)).toArray := by
  unfold pixelLoop
  rw [pixelLoop_go N g N (Nat.le_refl N)]
  congr 1
  apply List.map_congr_left
  intro i hi
  simp [List.mem_range.1 hi]

theorem markLoop_go (N : Nat) (g : Nat → Bool) (k : Nat) (hk : k ≤ N) :
    (List.range k).foldl (fun (res : Array (Option Bool)) i => if g i then res.setIfInBounds i (some true) else res)
        (Array.replicate N (some false))
      = ((List.range N).map fun i => some (decide (i < k) && g i)).toArray := by
  induction k with
  | zero => simpa using replicate_eq_map N (some false)
  | succ k ih =>
    rw [List.range_succ, List.foldl_append, ih (by omega)]
    simp only [List.foldl_cons, List.foldl_nil]
    apply Array.ext
    · split <;> simp
    · intro i h1 h2
      have hi : i < N := by simpa using h2
      simp only [List.getElem_toArray, List.getElem_map, List.getElem_range]
      by_cases hg : g k = true
      · simp only [hg, if_true, Array.getElem_setIfInBounds, List.getElem_toArray, List.getElem_map,
          List.getElem_range]
        by_cases hik : k = i
        · subst hik; simp [hg]
        · have : decide (i < k + 1) = decide (i < k) := by
            apply decide_eq_decide.2; constructor <;> intro h <;> omega
          simp [hik, this]
      · simp only [hg, Bool.false_eq_true, if_false, List.getElem_toArray, List.getElem_map, List.getElem_range]
        by_cases hik : k = i
        · subst hik
          have hgf : g k = false := by simpa using hg
          simp [hgf]
        · have : decide (i < k + 1) = decide (i < k) := by
            apply decide_eq_decide.2; constructor <;> intro h <;> omega
          simp [this]

theorem markLoop_eq (N : Nat) (g : Nat → Bool) :
    markLoop N g = ((List.range N).map fun i => some (g i)).toArray := by
  unfold markLoop
  rw [markLoop_go N g N (Nat.le_refl N)]
  congr 1
  apply List.map_congr_left
  intro i hi
  simp [List.mem_range.1 hi]

theorem pixelLoop_congr {β : Type} (N : Nat) (g h : Nat → β) (e : ∀ i, i < N → g i = h i) :
    pixelLoop N g = pixelLoop N h := by
  rw [pixelLoop_eq, pixelLoop_eq]
  congr 1
  apply List.map_congr_left
  intro i hi
  rw [e i (List.mem_range.1 hi)]

theorem markLoop_congr (N : Nat) (g h : Nat → Bool) (e : ∀ i, i < N → g i = h i) :
    markLoop N g = markLoop N h := by
  rw [markLoop_eq, markLoop_eq]
  congr 1
  apply List.map_congr_left
  intro i hi
  rw [e i (List.mem_range.1 hi)]

/-! ### layout freedom of the pieces every filter kernel is made of -/

/-- what the wrappers and native guards establish about an (array, filter) pair before a neighbourhood kernel runs -/
structure FilterArgs (vA vF : View) (compress : Bool) : Prop where
  wfA : vA.WF
  wfF : vF.WF
  posA : vA.Pos
  posF : vF.Pos
  rank : vA.shape.length = vF.shape.length
  /-- with `compress = false` the raw data pointer of the filter is indexed: the wrapper makes it C-contiguous -/
  raw : compress = false → vF.strides = cStrides vF.shape

theorem mkFiltV_size {α : Type} (isNZ : α → Bool) (vA : View) (mF : Int → α) (vF : View) (wfF : vF.WF)
    (m : Mode) (compress : Bool) (d : α) :
    (mkFiltV isNZ vA mF vF m compress).fi.size =
      ((List.range (shapeSize vF.shape)).filter fun kk =>
        (if compress then isNZ else fun _ => true) ((logical mF vF).getD kk d)).length := by
  unfold mkFiltV
  simp only [filtVals_eq mF vF wfF]
  rw [FilterIter.mkFIter_size, FilterIter.footprintCoords_eq, List.length_map]
  cases compress with
  | true =>
    simp only [if_true]
    rw [fpIdx_eq vF.shape (logical mF vF) (logical_length mF vF) isNZ d]
  | false =>
    simp only [Bool.false_eq_true, if_false]
    rw [fpIdx_all]
    have : ((List.range (shapeSize vF.shape)).filter fun _ => true) = List.range (shapeSize vF.shape) := by
      simp
    rw [this]

theorem size_layout_free {α : Type} (isNZ : α → Bool) (m : Mode) (compress : Bool)
    (mF₁ mF₂ : Int → α) (vA₁ vA₂ vF₁ vF₂ : View) (wf₁ : vF₁.WF) (wf₂ : vF₂.WF)
    (hF : toImg mF₁ vF₁ = toImg mF₂ vF₂) (d : α) :
    (mkFiltV isNZ vA₁ mF₁ vF₁ m compress).fi.size = (mkFiltV isNZ vA₂ mF₂ vF₂ m compress).fi.size := by
  obtain ⟨hl, hs⟩ := logical_eq_of_toImg _ _ _ _ hF
  rw [mkFiltV_size isNZ vA₁ mF₁ vF₁ wf₁ m compress d, mkFiltV_size isNZ vA₂ mF₂ vF₂ wf₂ m compress d, hl, hs]

theorem neigh_layout_free {α : Type} (isNZ : α → Bool) (m : Mode) (compress : Bool) (d : α)
    (mA₁ mA₂ mF₁ mF₂ : Int → α) (vA₁ vA₂ vF₁ vF₂ : View)
    (h₁ : FilterArgs vA₁ vF₁ compress) (h₂ : FilterArgs vA₂ vF₂ compress)
    (hA : toImg mA₁ vA₁ = toImg mA₂ vA₂) (hF : toImg mF₁ vF₁ = toImg mF₂ vF₂)
    (i : Nat) (hi : i < shapeSize vA₁.shape) :
    (mkFiltV isNZ vA₁ mF₁ vF₁ m compress).neigh d mA₁ (iterPtr vA₁ i) i =
      (mkFiltV isNZ vA₂ mF₂ vF₂ m compress).neigh d mA₂ (iterPtr vA₂ i) i := by
  obtain ⟨hl, hs⟩ := logical_eq_of_toImg _ _ _ _ hF
  obtain ⟨_, hsA⟩ := logical_eq_of_toImg _ _ _ _ hA
  rw [neigh_logical isNZ mA₁ vA₁ mF₁ vF₁ h₁.wfA h₁.wfF h₁.posA h₁.posF h₁.rank m compress h₁.raw d i hi,
    neigh_logical isNZ mA₂ vA₂ mF₂ vF₂ h₂.wfA h₂.wfF h₂.posA h₂.posF h₂.rank m compress h₂.raw d i (hsA ▸ hi),
    hA, hl, hs, hsA]

theorem readIter_logical {α : Type} (mem : Int → α) (v : View) (wf : v.WF) (i : Nat) (hi : i < shapeSize v.shape)
    (d : α) : readIter mem v i = (toImg mem v).getD (unravelI v.shape i) d := by
  rw [toImg_getD_unravel mem v i d hi]
  unfold readIter
  rw [incrN_eq v wf.len i hi, le_address v wf.len i hi]

theorem readIter_layout_free {α : Type} (m₁ m₂ : Int → α) (v₁ v₂ : View) (wf₁ : v₁.WF) (wf₂ : v₂.WF)
    (h : toImg m₁ v₁ = toImg m₂ v₂) (i : Nat) (hi : i < shapeSize v₁.shape) (d : α) :
    readIter m₁ v₁ i = readIter m₂ v₂ i := by
  obtain ⟨_, hs⟩ := logical_eq_of_toImg _ _ _ _ h
  rw [readIter_logical m₁ v₁ wf₁ i hi d, readIter_logical m₂ v₂ wf₂ i (hs ▸ hi) d, h, hs]

theorem readAtFlat_logical {α : Type} (mem : Int → α) (v : View) (wf : v.WF) (i : Nat) (hi : i < shapeSize v.shape)
    (d : α) : readAtFlat mem v i = (toImg mem v).getD (unravelI v.shape i) d := by
  rw [toImg_getD_unravel mem v i d hi]
  unfold readAtFlat
  rw [atFlat_eq_addr v wf i hi]

/-- a kernel that only calls `at_flat(i)`, `i < N`, sees the logical array -/
theorem flatImg_eq {α : Type} (mem : Int → α) (v : View) (wf : v.WF) : flatImg mem v = toImg mem v := by
  unfold flatImg toImg logical
  congr 2
  apply List.map_congr_left
  intro k hk
  unfold readAtFlat
  rw [atFlat_eq_addr v wf k (List.mem_range.1 hk)]

theorem filtVals_layout_free {α : Type} (m₁ m₂ : Int → α) (v₁ v₂ : View) (wf₁ : v₁.WF) (wf₂ : v₂.WF)
    (h : toImg m₁ v₁ = toImg m₂ v₂) : filtVals m₁ v₁ = filtVals m₂ v₂ := by
  rw [filtVals_eq m₁ v₁ wf₁, filtVals_eq m₂ v₂ wf₂, (logical_eq_of_toImg _ _ _ _ h).1]

/-- `position()` of the array iterator at iteration `i` -/
theorem position_eq (v : View) (wf : v.WF) (i : Nat) (hi : i < shapeSize v.shape) :
    ((Iter.begin v).incrN i).position.map Int.ofNat = unravelI v.shape i := by
  rw [incrN_eq v wf.len i hi]
  simp only [Iter.position]
  rw [unravelLE_reverse _ _ hi, List.reverse_reverse]
  rfl

end Mahotas.C08
