/-
C08 (round 3) — F15 of `rank_filter`: inside the wrapper's rank guard `0 ≤ rank < N2` every pixel receives a defined
`nth_element` answer as soon as the gathered sample list is non-empty — always in the five modes that deliver or
replace every sample, and in `ignore` mode whenever the centre of the neighbourhood is a member.
-/
import Mahotas.Proofs.C08Ties
namespace Mahotas.C08
open Mahotas

theorem specPos_some (m : Mode) (hm : m = .nearest ∨ m = .wrap ∨ m = .reflect ∨ m = .mirror) :
    ∀ (s : List Nat) (q : List Int), ∃ r, specPos m s q = some r := by
  intro s
  induction s with
  | nil => intro q; cases q <;> exact ⟨[], rfl⟩
  | cons d ds ih =>
    intro q
    cases q with
    | nil => exact ⟨[], rfl⟩
    | cons x xs =>
      obtain ⟨r, hr⟩ := ih xs
      rcases hm with rfl | rfl | rfl | rfl <;> simp [specPos, borderSpec, hr]

/-- in `ignore` / `constant` mode an inside position is retrieved as itself -/
theorem specPos_inside (m : Mode) (hm : m = .ignore ∨ m = .constant) :
    ∀ (s : List Nat) (q : List Int), inside s q = true → specPos m s q = some q := by
  intro s
  induction s with
  | nil => intro q h; cases q with
    | nil => rfl
    | cons _ _ => simp [inside] at h
  | cons d ds ih =>
    intro q h
    cases q with
    | nil => simp [inside] at h
    | cons x xs =>
      simp only [inside, Bool.and_eq_true, decide_eq_true_eq] at h
      have := ih xs h.2
      rcases hm with rfl | rfl <;> simp [specPos, borderSpec, this, h.1.1, h.1.2]

theorem addPos_subPos_self : ∀ (p c : List Int), c.length = p.length → addPos p (subPos c c) = p := by
  intro p
  induction p with
  | nil => intro c h; cases c <;> simp_all [addPos, subPos]
  | cons a as ih =>
    intro c h
    cases c with
    | nil => simp at h
    | cons b bs =>
      simp only [subPos, addPos, Int.sub_self, Int.add_zero]
      rw [ih bs (by simpa using h)]

theorem centre_inside : ∀ (s : List Nat), (∀ f ∈ s, 1 ≤ f) → inside s (centreOf s) = true := by
  intro s
  induction s with
  | nil => intro _; rfl
  | cons d ds ih =>
    intro h
    have hd := h d (by simp)
    have := ih (fun f hf => h f (by simp [hf]))
    simp only [centreOf, List.map_cons, inside, Bool.and_eq_true, decide_eq_true_eq]
    refine ⟨⟨by omega, by omega⟩, this⟩

/-- the gathered sample list is non-empty -/
theorem gather_nonempty (m : Mode) (A : Img Int) (hs : ∀ d ∈ A.shape, 0 < d) (fshape : List Nat)
    (hf : ∀ f ∈ fshape, 1 ≤ f) (hl : A.shape.length = fshape.length) (w : List Int) (p : List Int)
    (hp : inside A.shape p = true)
    (hK : keptIdx fshape w (fun x => x != 0) 0 ≠ [])
    (hc : m ≠ .ignore ∨ w.getD (ravelI fshape (centreOf fshape)) 0 ≠ 0) :
    C07.gather m A ((keptIdx fshape w (fun x => x != 0) 0).map (offAt fshape)) p ≠ [] := by
  have mem_ne : ∀ (v : Int) (l : List Int), v ∈ l → l ≠ [] := fun v l h e => by rw [e] at h; simp at h
  unfold C07.gather
  by_cases hm : m = .ignore
  · -- the centre is a member and is retrieved as the pixel itself
    have hcw : w.getD (ravelI fshape (centreOf fshape)) 0 ≠ 0 := by
      rcases hc with h | h
      · exact absurd hm h
      · exact h
    have hci := centre_inside fshape hf
    have hlt := C01.ravelI_lt fshape _ hci
    have hmemK : ravelI fshape (centreOf fshape) ∈ keptIdx fshape w (fun x => x != 0) 0 := by
      unfold keptIdx
      rw [List.mem_filter]
      exact ⟨List.mem_range.2 hlt, by simpa using hcw⟩
    have hoff : addPos p (offAt fshape (ravelI fshape (centreOf fshape))) = p := by
      unfold offAt
      rw [C01.unravelI_ravelI _ _ hci]
      apply addPos_subPos_self
      rw [C01.inside_length hp, hl]
      simp [centreOf]
    apply mem_ne (A.getD p 0)
    rw [List.mem_filterMap]
    refine ⟨offAt fshape (ravelI fshape (centreOf fshape)), List.mem_map.2 ⟨_, hmemK, rfl⟩, ?_⟩
    rw [hoff, FilterIter.fixPos_eq_specPos m A.shape p hs, specPos_inside m (Or.inl hm) A.shape p hp]
  · -- every sample is delivered (or replaced by the constant)
    obtain ⟨kk, t, hkt⟩ := List.exists_cons_of_ne_nil hK
    rw [hkt]
    simp only [List.map_cons, List.filterMap_cons]
    cases hq : fixPos m A.shape (addPos p (offAt fshape kk)) with
    | some q => simp
    | none =>
      have hcst : m = .constant := by
        rw [FilterIter.fixPos_eq_specPos m A.shape _ hs] at hq
        cases m with
        | nearest => obtain ⟨r, hr⟩ := specPos_some .nearest (by simp) A.shape (addPos p (offAt fshape kk)); rw [hr] at hq; cases hq
        | wrap => obtain ⟨r, hr⟩ := specPos_some .wrap (by simp) A.shape (addPos p (offAt fshape kk)); rw [hr] at hq; cases hq
        | reflect => obtain ⟨r, hr⟩ := specPos_some .reflect (by simp) A.shape (addPos p (offAt fshape kk)); rw [hr] at hq; cases hq
        | mirror => obtain ⟨r, hr⟩ := specPos_some .mirror (by simp) A.shape (addPos p (offAt fshape kk)); rw [hr] at hq; cases hq
        | constant => rfl
        | ignore => exact absurd rfl hm
      simp [hcst]

theorem curRank_lt (n N2 r : Nat) (hn : 0 < n) (hr : r < N2) : C07.curRank n N2 r < n := by
  unfold C07.curRank
  split
  · rw [Nat.div_lt_iff_lt_mul (by omega)]
    exact Nat.mul_lt_mul_of_pos_left hr hn
  · rename_i h; simp only [ne_eq, Decidable.not_not] at h; omega

theorem nthElement_isSome (xs : List Int) (k : Nat) (h : k < xs.length) : (C07.nthElement xs k).isSome = true := by
  unfold C07.nthElement
  simp [h]

/-- **F15, rank_filter.** Inside the rank guard every cell of the output is written with a defined value. -/
theorem rankView_defined (m : Mode) (rank : Int) (mA : Int → Int) (vA : View) (mB : Int → Int) (vB : View)
    (h : FilterArgs vA vB true)
    (hr : 0 ≤ rank ∧ rank < ((mkFiltV (fun x => x != 0) vA mB vB m true).fi.size : Int))
    (hc : m ≠ .ignore ∨ (logical mB vB).getD (ravelI vB.shape (centreOf vB.shape)) 0 ≠ 0) :
    (rankView m rank mA vA mB vB).size = shapeSize vA.shape ∧ AllSome (rankView m rank mA vA mB vB) := by
  have hN2 := keptIdx_length_eq_size vA mB vB h.wfF m
  rw [rankView_eq_C07 m rank mA vA mB vB h]
  refine ⟨by simp [allPos], ?_⟩
  intro o ho
  simp only [List.mem_map] at ho
  obtain ⟨p, hp, rfl⟩ := ho
  simp only [allPos, List.mem_map, List.mem_range] at hp
  obtain ⟨i, hi, rfl⟩ := hp
  have hK : keptIdx vB.shape (logical mB vB) (fun x => x != 0) 0 ≠ [] := by
    intro e
    rw [e] at hN2
    simp at hN2
    omega
  have hne := gather_nonempty m (toImg mA vA) (fun d hd => by have := h.posA d hd; omega) vB.shape h.posF h.rank
    (logical mB vB) (unravelI vA.shape i) (inside_unravelI _ _ hi) hK hc
  unfold C07.rankAt
  rw [C07_footprint_eq, List.length_map, ← hN2, if_neg (by omega)]
  apply nthElement_isSome
  apply curRank_lt _ _ _ (List.length_pos_iff.2 hne)
  omega

end Mahotas.C08
