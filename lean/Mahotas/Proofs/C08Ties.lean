/-
C08 (round 3) — value-level ties: every neighbourhood kernel over views (`erodeView`, `convolveView`, `rankView`,
`meanView`, `tmView`, `locView`, `bordersView`) *is* the owning property's logical model on the logical arrays.
Both sides fold over the logical neighbour list (`logicalNeigh`, T1 `neigh_logical`); what is proved here are the
list-reshaping lemmas: the owners write their supports with `filterMap`, the view kernels with `filter`/`map`.
-/
import Mahotas.Proofs.C08Kernels
import Mahotas.Proofs.C08Defined
import Mahotas.Proofs.C01
import Mahotas.Model.C03
import Mahotas.Model.C06
import Mahotas.Model.C07
import Mahotas.Model.C13
import Mahotas.Model.C14
namespace Mahotas.C08
open Mahotas

/-! ### reshaping: `filterMap (if c then none else some f)` = `filter` then `map` -/

theorem filterMap_ite {ι β : Type} (l : List ι) (c : ι → Bool) (f : ι → β) :
    l.filterMap (fun i => if c i = true then none else some (f i)) = (l.filter fun i => !c i).map f := by
  induction l with
  | nil => rfl
  | cons a t ih =>
    by_cases h : c a = true
    · simp [h, ih]
    · have h' : c a = false := by simpa using h
      simp [h', ih]

theorem filterMap_congr' {ι β : Type} (l : List ι) (f g : ι → Option β) (h : ∀ x ∈ l, f x = g x) :
    l.filterMap f = l.filterMap g := by
  induction l with
  | nil => rfl
  | cons a t ih =>
    simp only [List.filterMap_cons]
    rw [h a (by simp), ih (fun x hx => h x (by simp [hx]))]

theorem toArray_getD {α : Type} (l : List α) (i : Nat) (d : α) : l.toArray.getD i d = l.getD i d := by
  simp [Array.getD_eq_getD_getElem?, List.getD_eq_getElem?_getD]

/-- the footprint indices (C order) the filter iterator keeps -/
def keptIdx {α : Type} (fshape : List Nat) (w : List α) (keep : α → Bool) (d : α) : List Nat :=
  (List.range (shapeSize fshape)).filter fun kk => keep (w.getD kk d)

/-- offset `k − c` of the filter entry with flat index `kk` -/
def offAt (fshape : List Nat) (kk : Nat) : List Int := subPos (unravelI fshape kk) (centreOf fshape)

/-- the logical neighbour the border rule selects for filter entry `kk` at pixel `p` -/
def nbAt {α : Type} (m : Mode) (A : Img α) (fshape : List Nat) (d : α) (p : List Int) (kk : Nat) : Option α :=
  (fixPos m A.shape (addPos p (offAt fshape kk))).map fun q => A.getD q d

theorem logicalNeigh_eq {α : Type} (m : Mode) (A : Img α) (fshape : List Nat) (w : List α) (keep : α → Bool) (d : α)
    (p : List Int) :
    logicalNeigh m A fshape w keep d p =
      (keptIdx fshape w keep d).map fun kk => (nbAt m A fshape d p kk, w.getD kk d) := rfl

theorem keptIdx_all {α : Type} (fshape : List Nat) (w : List α) (d : α) :
    keptIdx fshape w (fun _ => true) d = List.range (shapeSize fshape) := by
  unfold keptIdx; simp

theorem offAt_length (fshape : List Nat) (kk : Nat) : (offAt fshape kk).length = fshape.length := by
  unfold offAt
  rw [FilterIter.subPos_length _ _ (by simp [centreOf, unravelI, unravel_length])]
  simp [unravelI, unravel_length]

/-- the neighbour position has the rank of the image -/
theorem addPos_offAt_length (shape fshape : List Nat) (hl : shape.length = fshape.length) (i kk : Nat) :
    (addPos (unravelI shape i) (offAt fshape kk)).length = shape.length := by
  have hp : (unravelI shape i).length = shape.length := by simp [unravelI, unravel_length]
  rw [FilterIter.addPos_length _ _ (by rw [offAt_length, hp, hl]), hp]

/-! ### the two loop skeletons, tabulated over `allPos` -/

theorem pixelLoop_eq_allPos {β : Type} (shape : List Nat) (g : Nat → β) (F : List Int → β)
    (h : ∀ i, i < shapeSize shape → g i = F (unravelI shape i)) :
    pixelLoop (shapeSize shape) g = (((allPos shape).map F).toArray).map some := by
  rw [pixelLoop_eq]
  simp only [allPos, List.map_toArray, List.map_map]
  congr 1
  apply List.map_congr_left
  intro i hi
  simp only [Function.comp]
  rw [h i (List.mem_range.1 hi)]

theorem markLoop_eq_allPos (shape : List Nat) (g : Nat → Bool) (F : List Int → Bool)
    (h : ∀ i, i < shapeSize shape → g i = F (unravelI shape i)) :
    markLoop (shapeSize shape) g = (((allPos shape).map F).toArray).map some := by
  rw [markLoop_eq]
  simp only [allPos, List.map_toArray, List.map_map]
  congr 1
  apply List.map_congr_left
  intro i hi
  simp only [Function.comp]
  rw [h i (List.mem_range.1 hi)]

/-! ### the owners' supports as `keptIdx … |>.map …` -/

theorem C01_support_eq (fshape : List Nat) (w : List Int) (cmp : Bool) :
    C01.support fshape w.toArray cmp =
      (keptIdx fshape w (if cmp then (fun x => x != 0) else fun _ => true) 0).map fun kk =>
        (offAt fshape kk, w.getD kk 0) := by
  unfold C01.support keptIdx
  simp only [toArray_getD]
  rw [filterMap_ite (List.range (shapeSize fshape)) (fun i => cmp && w.getD i 0 == 0)
    (fun i => (subPos (unravelI fshape i) (centreOf fshape), w.getD i 0))]
  congr 1
  apply List.filter_congr
  intro i _
  cases cmp <;> simp [bne]

theorem C03_offsets_eq (fshape : List Nat) (w : List Int) :
    C03.offsets fshape w.toArray = (keptIdx fshape w (fun x => x != 0) 0).map (offAt fshape) := by
  unfold C03.offsets keptIdx
  simp only [toArray_getD]
  rw [filterMap_ite (List.range (shapeSize fshape)) (fun i => w.getD i 0 == 0)
    (fun i => subPos (unravelI fshape i) (centreOf fshape))]
  rfl

theorem C07_footprint_eq (fshape : List Nat) (w : List Int) :
    C07.footprint fshape w.toArray = (keptIdx fshape w (fun x => x != 0) 0).map (offAt fshape) := by
  unfold C07.footprint keptIdx C07.offsetOf
  simp only [toArray_getD]
  rw [filterMap_ite (List.range (shapeSize fshape)) (fun i => w.getD i 0 == 0)
    (fun i => subPos (unravelI fshape i) (centreOf fshape))]
  rfl

theorem C06_support_eq {α : Type} [Add α] [Mul α] [Zero α] (isZero : α → Bool) (fshape : List Nat) (w : List α) :
    C06.support isZero fshape w.toArray =
      (keptIdx fshape w (fun x => !isZero x) 0).map fun kk => (offAt fshape kk, w.getD kk 0) := by
  unfold C06.support keptIdx C06.offsetOf
  simp only [toArray_getD]
  rw [filterMap_ite (List.range (shapeSize fshape)) (fun i => isZero (w.getD i 0))
    (fun i => (subPos (unravelI fshape i) (centreOf fshape), w.getD i 0))]
  rfl

/-! ### erode = `C01.erodeModel` -/

theorem nbAt_getD_nearest (A : Img Int) (fshape : List Nat) (p : List Int) (kk : Nat) :
    (nbAt .nearest A fshape 0 p kk).getD 0 = C01.readNearest A (addPos p (offAt fshape kk)) := by
  unfold nbAt C01.readNearest
  cases fixPos .nearest A.shape (addPos p (offAt fshape kk)) <;> rfl

theorem erodeInner_eq {ι : Type} (dt : DT) (A : Img Int) (p : List Int) (L : List ι) (g : ι → Option Int × Int)
    (f : ι → List Int × Int)
    (h : ∀ x ∈ L, (g x).1.getD 0 = C01.readNearest A (addPos p (f x).1) ∧ (g x).2 = (f x).2) (v : Int) :
    erodeInner dt (L.map g) v = C01.erodeAtExit.go dt A p (L.map f) v := by
  induction L generalizing v with
  | nil => rfl
  | cons a t ih =>
    simp only [List.map_cons, erodeInner, C01.erodeAtExit.go]
    rw [(h a (by simp)).1, (h a (by simp)).2]
    split
    · rfl
    · exact ih (fun x hx => h x (by simp [hx])) _

/-- **erode over views is `C01.erodeModel` on the logical arrays.** -/
theorem erodeView_eq_C01 (dt : DT) (mA : Int → Int) (vA : View) (mB : Int → Int) (vB : View)
    (h : FilterArgs vA vB dt.isBool) :
    erodeView dt mA vA mB vB =
      (C01.erodeModel dt (toImg mA vA) (C01.support vB.shape (logical mB vB).toArray dt.isBool)).map some := by
  have h1 : erodeView dt mA vA mB vB = pixelLoop (shapeSize vA.shape) fun i =>
      erodeInner dt ((mkFiltV (fun x => x != 0) vA mB vB .nearest dt.isBool).neigh 0 mA (iterPtr vA i) i) dt.hi := by
    unfold erodeView
    simp only
    split
    · rename_i hz
      apply pixelLoop_congr
      intro i _
      unfold FiltV.neigh
      rw [hz]
      rfl
    · rfl
  rw [h1]
  unfold C01.erodeModel
  apply pixelLoop_eq_allPos vA.shape _ (C01.erodeAtExit dt (toImg mA vA) _)
  intro i hi
  rw [neigh_logical _ mA vA mB vB h.wfA h.wfF h.posA h.posF h.rank .nearest dt.isBool h.raw 0 i hi,
    logicalNeigh_eq, C01_support_eq]
  unfold C01.erodeAtExit
  apply erodeInner_eq
  intro kk _
  exact ⟨nbAt_getD_nearest _ _ _ _, rfl⟩

/-! ### convolve = `C06.convAcc` tabulated -/

theorem nbAt_eq_sample {α : Type} [Add α] [Mul α] [Zero α] (m : Mode) (A : Img α) (fshape : List Nat) (p : List Int)
    (kk : Nat) : nbAt m A fshape 0 p kk = C06.sample m A (addPos p (offAt fshape kk)) := by
  unfold nbAt C06.sample
  cases fixPos m A.shape (addPos p (offAt fshape kk)) <;> rfl

/-- **convolve over views is the tabulated `C06.convAcc`** (followed by the cast `T(cur)`), any arithmetic. -/
theorem convolveView_eq_C06 {α : Type} [Add α] [Mul α] [Zero α] (isZero : α → Bool) (cast : α → α) (m : Mode)
    (mA : Int → α) (vA : View) (mW : Int → α) (vW : View) (h : FilterArgs vA vW true) :
    convolveView 0 isZero cast m mA vA mW vW =
      (((allPos vA.shape).map fun p =>
        cast (C06.convAcc m (toImg mA vA) (C06.support isZero vW.shape (logical mW vW).toArray) p)).toArray).map
        some := by
  unfold convolveView
  simp only
  apply pixelLoop_eq_allPos vA.shape
  intro i hi
  rw [neigh_logical _ mA vA mW vW h.wfA h.wfF h.posA h.posF h.rank m true h.raw 0 i hi,
    logicalNeigh_eq, C06_support_eq]
  unfold convInner C06.convAcc
  simp only [if_true, List.foldl_map, nbAt_eq_sample]
  rfl

/-! ### rank / mean / template_match = `C07` -/

theorem gatherInner_eq (m : Mode) (A : Img Int) (fshape : List Nat) (p : List Int) (L : List Nat)
    (w : List Int) :
    gatherInner m (L.map fun kk => (nbAt m A fshape 0 p kk, w.getD kk 0)) =
      C07.gather m A (L.map (offAt fshape)) p := by
  unfold gatherInner C07.gather
  rw [List.filterMap_map, List.filterMap_map]
  apply filterMap_congr'
  intro kk _
  simp only [Function.comp, nbAt]
  cases fixPos m A.shape (addPos p (offAt fshape kk)) <;> rfl

theorem keptIdx_length_eq_size (vA : View) (mB : Int → Int) (vB : View) (wfF : vB.WF) (m : Mode) :
    (mkFiltV (fun x => x != 0) vA mB vB m true).fi.size =
      (keptIdx vB.shape (logical mB vB) (fun x => x != 0) 0).length := by
  rw [mkFiltV_size _ vA mB vB wfF m true 0]
  rfl

/-- **rank_filter over views is `C07.rankAt` at every pixel** (`none` = nothing defined is written). -/
theorem rankView_eq_C07 (m : Mode) (rank : Int) (mA : Int → Int) (vA : View) (mB : Int → Int) (vB : View)
    (h : FilterArgs vA vB true) :
    rankView m rank mA vA mB vB =
      ((allPos vA.shape).map
        (C07.rankAt m (toImg mA vA) (C07.footprint vB.shape (logical mB vB).toArray) rank)).toArray := by
  have hN2 := keptIdx_length_eq_size vA mB vB h.wfF m
  have hfl : (C07.footprint vB.shape (logical mB vB).toArray).length =
      (mkFiltV (fun x => x != 0) vA mB vB m true).fi.size := by
    rw [hN2, C07_footprint_eq, List.length_map]
  unfold rankView
  simp only
  by_cases hr : rank < 0 ∨ rank ≥ ((mkFiltV (fun x => x != 0) vA mB vB m true).fi.size : Int)
  · rw [if_pos hr, replicate_eq_map]
    simp only [allPos, List.map_map]
    congr 1
    apply List.map_congr_left
    intro i _
    simp only [Function.comp, C07.rankAt]
    rw [hfl, if_pos hr]
  · rw [if_neg hr, pixelLoop_eq]
    simp only [allPos, List.map_toArray, List.map_map]
    congr 1
    apply List.map_congr_left
    intro i hi
    have hi' : i < shapeSize vA.shape := List.mem_range.1 hi
    simp only [Function.comp, C07.rankAt, Option.bind_some, id]
    rw [hfl, if_neg hr, neigh_logical _ mA vA mB vB h.wfA h.wfF h.posA h.posF h.rank m true h.raw 0 i hi',
      logicalNeigh_eq, C07_footprint_eq]
    simp only [if_true, gatherInner_eq]

/-- **mean_filter over views is `C07.meanParts` at every pixel.** -/
theorem meanView_eq_C07 (m : Mode) (mA : Int → Int) (vA : View) (mB : Int → Int) (vB : View)
    (h : FilterArgs vA vB true) :
    meanView m mA vA mB vB =
      (((allPos vA.shape).map
        (C07.meanParts m (toImg mA vA) (C07.footprint vB.shape (logical mB vB).toArray))).toArray).map some := by
  unfold meanView
  simp only
  apply pixelLoop_eq_allPos vA.shape
  intro i hi
  rw [neigh_logical _ mA vA mB vB h.wfA h.wfF h.posA h.posF h.rank m true h.raw 0 i hi,
    logicalNeigh_eq, C07_footprint_eq]
  simp only [if_true, gatherInner_eq]
  rfl

/-- **template_match over views is `C07.tmAt` at every pixel.** -/
theorem tmView_eq_C07 (m : Mode) (mA : Int → Int) (vA : View) (mT : Int → Int) (vT : View)
    (h : FilterArgs vA vT false) :
    tmView m mA vA mT vT =
      (((allPos vA.shape).map
        (C07.tmAt m (toImg mA vA) vT.shape (logical mT vT).toArray)).toArray).map some := by
  unfold tmView
  simp only
  apply pixelLoop_eq_allPos vA.shape
  intro i hi
  rw [neigh_logical _ mA vA mT vT h.wfA h.wfF h.posA h.posF h.rank m false h.raw 0 i hi,
    logicalNeigh_eq]
  simp only [Bool.false_eq_true, if_false, keptIdx_all]
  unfold tmInner C07.tmAt
  rw [List.foldl_map]
  congr 1
  funext diff2 j
  simp only [nbAt, toArray_getD, C07.offsetOf, offAt]
  cases fixPos m (toImg mA vA).shape
    (addPos (unravelI vA.shape i) (subPos (unravelI vT.shape j) (centreOf vT.shape))) <;> rfl

end Mahotas.C08
