/-
C08 (round 3) — `dilateView` = `C01.dilateModel` on the logical arrays. The scatter kernel builds its filter iterator
on the C-contiguous output; the element offset `i + Σ cstride·(q − p)` it writes to is the flat index `ravelI q` of the
clamped target, and the `Option` cells of the view model are `some` of the cells of the logical model throughout.
(The table facts are read off `neigh_logical` applied to the output view with the *identity* memory.)
-/
import Mahotas.Proofs.C08Ties
namespace Mahotas.C08
open Mahotas

theorem outView_wf (shape : List Nat) : (outView shape).WF := by
  refine ⟨?_, fun _ => rfl⟩
  simp only [outView]
  induction shape with
  | nil => rfl
  | cons d ds ih => simp [cStrides, ih]

theorem iterPtr_outView (shape : List Nat) (i : Nat) (hi : i < shapeSize shape) : iterPtr (outView shape) i = (i : Int) := by
  unfold iterPtr
  rw [incrN_eq (outView shape) (outView_wf shape).len i hi, le_address (outView shape) (outView_wf shape).len i hi]
  simp only [View.addr, outView]
  rw [dot_cStrides shape i hi]
  simp

/-- on the C-contiguous output the element offset of an inside position is its flat index -/
theorem elemOffset_cStrides (shape : List Nat) (q : List Int) (hq : inside shape q = true) :
    FilterIter.elemOffset (cStrides shape) q = (ravelI shape q : Int) := by
  have hlt := C01.ravelI_lt shape q hq
  have := C01.unravelI_ravelI shape q hq
  rw [← this]
  unfold unravelI
  rw [elemOffset_ofNat, dot_cStrides shape _ hlt]
  have h2 : (List.map Int.ofNat (unravel shape (ravelI shape q))) = q := this
  rw [h2]

/-- what one `retrieve`/`set` of the scatter addresses: the flat index of the clamped target `clamp(p + k)` -/
theorem dilate_entry (mB : Int → Int) (vB : View) (shape : List Nat) (cmp : Bool)
    (h : FilterArgs (outView shape) vB cmp) (i : Nat) (hi : i < shapeSize shape) (j : Nat)
    (hj : j < (keptIdx vB.shape (logical mB vB) (if cmp then (fun x => x != 0) else fun _ => true) 0).length) :
    let fv := mkFiltV (fun x => x != 0) (outView shape) mB vB .nearest cmp
    let K := keptIdx vB.shape (logical mB vB) (if cmp then (fun x => x != 0) else fun _ => true) 0
    fv.fdata.getD j 0 = (logical mB vB).getD (K[j]) 0 ∧
    ∃ off q, FilterIter.retrieve fv.fi (FilterIter.stateAfter fv.fi fv.ashape i) j = some (some off) ∧
      fixPos .nearest shape (addPos (unravelI shape i) (offAt vB.shape (K[j]))) = some q ∧
      inside shape q = true ∧
      ((i : Int) + FilterIter.elemOffset fv.astrides off).toNat = ravelI shape q := by
  intro fv K
  have hpos : ∀ d ∈ shape, 0 < d := fun d hd => by have := h.posA d hd; omega
  have key := neigh_logical (fun x => x != 0) (fun (a : Int) => a) (outView shape) mB vB h.wfA h.wfF h.posA h.posF
    h.rank .nearest cmp h.raw 0 i hi
  rw [logicalNeigh_eq] at key
  have hsz : fv.fi.size = K.length := mkFiltV_size _ (outView shape) mB vB h.wfF .nearest cmp 0
  have hj' : j < fv.fi.size := by rw [hsz]; exact hj
  have hjl : j < (fv.neigh 0 (fun (a : Int) => a) (iterPtr (outView shape) i) i).length := by
    simp [FiltV.neigh, hj']
  have key2 := List.getElem_of_eq key hjl
  simp only [FiltV.neigh, List.getElem_map, List.getElem_range, Prod.mk.injEq] at key2
  obtain ⟨k1, k2⟩ := key2
  refine ⟨k2, ?_⟩
  -- the clamped target exists and is inside
  have hfix := C01.fixPos_nearest shape (addPos (unravelI shape i) (offAt vB.shape (K[j]))) hpos
  have hin : inside shape (clampPos shape (addPos (unravelI shape i) (offAt vB.shape (K[j])))) = true :=
    fixPos_inside .nearest shape _ _ hpos (addPos_offAt_length shape vB.shape h.rank i _) hfix
  unfold FiltV.retrieve nbAt at k1
  have hfix' : fixPos .nearest (toImg (fun (a : Int) => a) (outView shape)).shape
      (addPos (unravelI (outView shape).shape i) (offAt vB.shape (K[j]))) =
      some (clampPos shape (addPos (unravelI shape i) (offAt vB.shape (K[j])))) := hfix
  rw [hfix', Option.map_some, toImg_getD (fun (a : Int) => a) (outView shape) _ 0 hin] at k1
  cases hr : FilterIter.retrieve fv.fi (FilterIter.stateAfter fv.fi fv.ashape i) j with
  | none => rw [hr] at k1; simp at k1
  | some e =>
    cases e with
    | none => rw [hr] at k1; simp at k1
    | some off =>
      rw [hr] at k1
      simp only [Option.some.injEq] at k1
      refine ⟨off, _, rfl, hfix, hin, ?_⟩
      rw [iterPtr_outView shape i hi] at k1
      have hb : (outView shape).base = 0 := rfl
      have hs : (outView shape).strides = cStrides shape := rfl
      have ha : fv.astrides = cStrides shape := rfl
      rw [hb, hs, elemOffset_cStrides shape _ hin] at k1
      have k1' : (i : Int) + FilterIter.elemOffset (cStrides shape) off =
          0 + ((ravelI shape (clampPos shape (addPos (unravelI shape i) (offAt vB.shape (K[j])))) : Nat) : Int) := k1
      rw [ha, k1']
      simp

/-! ### simulation of the two folds -/

theorem foldl_sim {σ τ ι : Type} (R : σ → τ → Prop) (f : σ → ι → σ) (g : τ → ι → τ) (l : List ι)
    (hstep : ∀ s t x, x ∈ l → R s t → R (f s x) (g t x)) (s0 : σ) (t0 : τ) (h0 : R s0 t0) :
    R (l.foldl f s0) (l.foldl g t0) := by
  induction l generalizing s0 t0 with
  | nil => exact h0
  | cons x t ih =>
    exact ih (fun s t' y hy => hstep s t' y (by simp [hy])) _ _ (hstep s0 t0 x (by simp) h0)

theorem foldl_via_range {τ β : Type} (g : τ → β → τ) (l : List β) (d : β) (t0 : τ) :
    l.foldl g t0 = (List.range l.length).foldl (fun acc j => g acc (l.getD j d)) t0 := by
  have := range_map_getD l d
  conv => lhs; rw [← this]
  rw [List.foldl_map]

/-- the relation kept by the scatter: the `Option` cells are `some` of the logical model's cells -/
def DilRel (N : Nat) (res : Array (Option Int)) (out : Array Int) : Prop := res = out.map some ∧ out.size = N

theorem dilateStep_sim (dt : DT) (mB : Int → Int) (vB : View) (shape : List Nat)
    (h : FilterArgs (outView shape) vB dt.isBool) (value : Int) (i : Nat) (hi : i < shapeSize shape) (j : Nat)
    (hj : j < (C01.support vB.shape (logical mB vB).toArray dt.isBool).length)
    (res : Array (Option Int)) (out : Array Int) (hR : DilRel (shapeSize shape) res out) :
    DilRel (shapeSize shape)
      (dilateStep dt (mkFiltV (fun x => x != 0) (outView shape) mB vB .nearest dt.isBool) value i res j)
      (C01.dilateScatter dt shape value (unravelI shape i) out
        ((C01.support vB.shape (logical mB vB).toArray dt.isBool).getD j ([], 0))) := by
  obtain ⟨hres, hsz⟩ := hR
  rw [C01_support_eq] at hj ⊢
  have hjK : j < (keptIdx vB.shape (logical mB vB) (if dt.isBool then (fun x => x != 0) else fun _ => true) 0).length := by
    simpa using hj
  obtain ⟨hd, off, q, hret, hfix, hin, haddr⟩ := dilate_entry mB vB shape dt.isBool h i hi j hjK
  have hget : ((keptIdx vB.shape (logical mB vB) (if dt.isBool then (fun x => x != 0) else fun _ => true) 0).map
      fun kk => (offAt vB.shape kk, (logical mB vB).getD kk 0)).getD j ([], 0) =
      (offAt vB.shape ((keptIdx vB.shape (logical mB vB) (if dt.isBool then (fun x => x != 0) else fun _ => true) 0)[j]),
       (logical mB vB).getD ((keptIdx vB.shape (logical mB vB) (if dt.isBool then (fun x => x != 0) else fun _ => true) 0)[j]) 0) := by
    simp [List.getD_eq_getElem?_getD, List.getElem?_eq_getElem hjK]
  rw [hget]
  unfold dilateStep C01.dilateScatter
  simp only [hret, hfix, hd, haddr]
  have hlt : ravelI shape q < out.size := by rw [hsz]; exact C01.ravelI_lt shape q hin
  have hcell : ((res.getD (ravelI shape q) none).getD 0) = out.getD (ravelI shape q) dt.lo := by
    rw [hres]
    simp [Array.getD_eq_getD_getElem?, hlt]
  rw [hcell]
  generalize dilateAdd dt value _ = nval
  by_cases hc : nval > out.getD (ravelI shape q) dt.lo
  · rw [if_pos hc, if_pos hc]
    exact ⟨by rw [hres, Array.map_setIfInBounds], by simp [hsz]⟩
  · rw [if_neg hc, if_neg hc]
    exact ⟨hres, hsz⟩

/-- **dilate over views is `C01.dilateModel` on the logical arrays.** -/
theorem dilateView_eq_C01 (dt : DT) (mA : Int → Int) (vA : View) (mB : Int → Int) (vB : View)
    (wfA : vA.WF) (h : FilterArgs (outView vA.shape) vB dt.isBool) :
    dilateView dt mA vA mB vB =
      (C01.dilateModel dt (toImg mA vA) (C01.support vB.shape (logical mB vB).toArray dt.isBool)).map some := by
  have hszK : (mkFiltV (fun x => x != 0) (outView vA.shape) mB vB .nearest dt.isBool).fi.size =
      (C01.support vB.shape (logical mB vB).toArray dt.isBool).length := by
    rw [mkFiltV_size _ (outView vA.shape) mB vB h.wfF .nearest dt.isBool 0, C01_support_eq, List.length_map]
    rfl
  -- the general formula (the early return for an empty element is a special case of it)
  have h1 : dilateView dt mA vA mB vB =
      (List.range (shapeSize vA.shape)).foldl (fun res i =>
        let value := readIter mA vA i
        if value = dt.lo then res
        else (List.range (mkFiltV (fun x => x != 0) (outView vA.shape) mB vB .nearest dt.isBool).fi.size).foldl
          (dilateStep dt (mkFiltV (fun x => x != 0) (outView vA.shape) mB vB .nearest dt.isBool) value i) res)
        (pixelLoop (shapeSize vA.shape) fun _ => dt.lo) := by
    unfold dilateView
    simp only
    split
    · rename_i hz
      rw [hz]
      symm
      apply foldl_inv (fun r => r = pixelLoop (shapeSize vA.shape) fun _ => dt.lo)
      · rfl
      · intro a x ha
        simp only [List.range_zero, List.foldl_nil, ite_self]
        exact ha
    · rfl
  rw [h1]
  unfold C01.dilateModel
  have hall : allPos (toImg mA vA).shape = (List.range (shapeSize vA.shape)).map (unravelI vA.shape) := rfl
  rw [hall, List.foldl_map]
  have hrel : DilRel (shapeSize vA.shape)
      ((List.range (shapeSize vA.shape)).foldl (fun res i =>
        let value := readIter mA vA i
        if value = dt.lo then res
        else (List.range (mkFiltV (fun x => x != 0) (outView vA.shape) mB vB .nearest dt.isBool).fi.size).foldl
          (dilateStep dt (mkFiltV (fun x => x != 0) (outView vA.shape) mB vB .nearest dt.isBool) value i) res)
        (pixelLoop (shapeSize vA.shape) fun _ => dt.lo))
      ((List.range (shapeSize vA.shape)).foldl (fun out i =>
        let v := (toImg mA vA).getD (unravelI vA.shape i) dt.lo
        if v = dt.lo then out
        else (C01.support vB.shape (logical mB vB).toArray dt.isBool).foldl
          (C01.dilateScatter dt (toImg mA vA).shape v (unravelI vA.shape i)) out)
        (Array.replicate (toImg mA vA).size dt.lo)) := by
    apply foldl_sim (DilRel (shapeSize vA.shape))
    · intro res out i hi hR
      have hi' : i < shapeSize vA.shape := List.mem_range.1 hi
      simp only
      rw [readIter_logical mA vA wfA i hi' dt.lo]
      split
      · exact hR
      · rw [foldl_via_range _ (C01.support vB.shape (logical mB vB).toArray dt.isBool) ([], 0), hszK]
        apply foldl_sim (DilRel (shapeSize vA.shape))
        · intro res' out' j hj hR'
          exact dilateStep_sim dt mB vB vA.shape h _ i hi' j (List.mem_range.1 hj) res' out' hR'
        · exact hR
    · refine ⟨?_, by simp [Img.size, toImg]⟩
      rw [pixelLoop_eq, Array.map_replicate, replicate_eq_map]
      rfl
  exact hrel.1

end Mahotas.C08
