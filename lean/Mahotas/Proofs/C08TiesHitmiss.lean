/-
C08 (round 3) — `hitmissView` = `C14.hitmissAt` at every pixel, with the bound on `i + delta` proved inside this
model: wherever the loop control `C14.hmEvaluated` lets the template be evaluated the element fits (`C10.Fits`), so
`i + pos_to_flat(k − centre)` is the flat index of the inside position `p + k − centre` (`C10.Fits_neighbour`) and
`at_flat` (F8) reads that logical element.
-/
import Mahotas.Proofs.C08TiesMark
import Mahotas.Proofs.C10Hitmiss
namespace Mahotas.C08
open Mahotas

/-- where the kernel evaluates the template, the template placed at `p` lies inside the image (odd *and* even sizes) -/
theorem hmEvaluated_fits : ∀ (ns bs : List Nat) (xs : List Int),
    C14.hmEvaluated ns bs xs = true → C10.Fits ns bs xs := by
  intro ns
  induction ns with
  | nil => intro bs xs h; simp [C14.hmEvaluated] at h
  | cons n ns ih =>
    intro bs xs h
    cases bs with
    | nil => simp [C14.hmEvaluated] at h
    | cons b bs =>
      cases xs with
      | nil => simp [C14.hmEvaluated] at h
      | cons x xs =>
        simp only [C14.hmEvaluated] at h
        by_cases he : ns.isEmpty = true
        · rw [if_pos he] at h
          simp only [Bool.and_eq_true, decide_eq_true_eq, List.isEmpty_iff] at h he
          obtain ⟨⟨⟨⟨hb, hx⟩, h1⟩, h2⟩, h3⟩ := h
          subst he; subst hb; subst hx
          simp only [C10.Fits, C10.origin, Int.ofNat_eq_natCast, and_true]
          omega
        · rw [if_neg he] at h
          simp only [Bool.and_eq_true, decide_eq_true_eq] at h
          refine ⟨?_, ?_, ih bs xs h.2⟩
          · simp only [C10.origin, Int.ofNat_eq_natCast]; omega
          · simp only [C10.origin, Int.ofNat_eq_natCast]; omega

/-! ### `pos_to_flat` is the signed C-order dot product, for every (also negative) coordinate list -/

theorem posToFlatGo_append (a : List Nat) (b : List Int) (d : Nat) (x : Int) (cum : Int) (h : a.length = b.length) :
    posToFlatGo (a ++ [d]) (b ++ [x]) cum = posToFlatGo a b cum + x * (cum * (shapeSize a : Int)) := by
  induction a generalizing b cum with
  | nil =>
    cases b with
    | nil => simp [posToFlatGo, shapeSize]
    | cons _ _ => simp at h
  | cons e es ih =>
    cases b with
    | nil => simp at h
    | cons y ys =>
      simp only [List.cons_append, posToFlatGo, shapeSize]
      rw [ih ys _ (by simpa using h)]
      push_cast
      ring

theorem posToFlatGo_reverse (s : List Nat) (p : List Int) (cum : Int) (h : s.length = p.length) :
    posToFlatGo s.reverse p.reverse cum = cum * C10.ravelZ s p := by
  induction s generalizing p with
  | nil =>
    cases p with
    | nil => simp [posToFlatGo, C10.ravelZ]
    | cons _ _ => simp at h
  | cons d ds ih =>
    cases p with
    | nil => simp at h
    | cons x xs =>
      simp only [List.reverse_cons]
      rw [posToFlatGo_append _ _ _ _ _ (by simpa using h), ih xs (by simpa using h), shapeSize_reverse]
      simp only [C10.ravelZ]
      ring

theorem posToFlat_eq_ravelZ (v : View) (pos : List Int) (h : v.shape.length = pos.length) :
    v.posToFlat pos = C10.ravelZ v.shape pos := by
  unfold View.posToFlat
  rw [posToFlatGo_reverse _ _ _ h]
  ring

/-- **the bound, inside this model.** At an evaluated pixel `i`, for every template coordinate `j`, the flat index
`i + pos_to_flat(k_j − centre)` is in range and `at_flat` reads the logical element under the template entry. -/
theorem hm_read (mA : Int → Int) (vA : View) (wfA : vA.WF) (bshape : List Nat) (hl : bshape.length = vA.shape.length)
    (i : Nat) (hi : i < shapeSize vA.shape)
    (hev : C14.hmEvaluated vA.shape bshape (unravelI vA.shape i) = true) (j : Nat) (hj : j < shapeSize bshape) :
    ((i : Int) + vA.posToFlat (offAt bshape j)).toNat < shapeSize vA.shape ∧
    readAtFlat mA vA ((i : Int) + vA.posToFlat (offAt bshape j)).toNat =
      (toImg mA vA).getD (addPos (unravelI vA.shape i) (offAt bshape j)) 0 := by
  have hf := hmEvaluated_fits _ _ _ hev
  have hk : inside bshape (unravelI bshape j) = true := inside_unravelI _ _ hj
  obtain ⟨h1, h2⟩ := C10.Fits_neighbour vA.shape bshape _ (unravelI bshape j) hf hk
  have hc : bshape.map C10.origin = centreOf bshape := rfl
  rw [hc] at h1 h2
  have h1' : inside vA.shape (addPos (unravelI vA.shape i) (offAt bshape j)) = true := h1
  have h2' : C10.ravelZ vA.shape (addPos (unravelI vA.shape i) (offAt bshape j)) =
      C10.ravelZ vA.shape (unravelI vA.shape i) + C10.ravelZ vA.shape (offAt bshape j) := h2
  have hidx : (i : Int) + vA.posToFlat (offAt bshape j) =
      ((ravelI vA.shape (addPos (unravelI vA.shape i) (offAt bshape j)) : Nat) : Int) := by
    rw [posToFlat_eq_ravelZ vA _ (by rw [offAt_length, hl]), ← C10.ravelZ_eq _ _ h1', h2',
      C10.ravelZ_unravelI vA.shape i hi]
  have hlt := C01.ravelI_lt vA.shape _ h1'
  rw [hidx, Int.toNat_natCast]
  refine ⟨hlt, ?_⟩
  rw [readAtFlat_logical mA vA wfA _ hlt 0, C01.unravelI_ravelI _ _ h1']

theorem all_congr_mem {ι : Type} (L : List ι) (P Q : ι → Bool) (h : ∀ x ∈ L, P x = Q x) : L.all P = L.all Q := by
  induction L with
  | nil => rfl
  | cons a t ih =>
    simp only [List.all_cons]
    rw [h a (by simp), ih (fun x hx => h x (by simp [hx]))]

/-- the indices of the tested template entries -/
def hmIdx (bshape : List Nat) (w : List Int) : List Nat :=
  (List.range (shapeSize bshape)).filter fun j => !(w.getD j 0 == 2)

theorem hmTable_eq (vA : View) (mB : Int → Int) (vB : View) (wfB : vB.WF) :
    hmTable vA mB vB =
      (hmIdx vB.shape (logical mB vB)).map fun j => (vA.posToFlat (offAt vB.shape j), (logical mB vB).getD j 0) := by
  unfold hmTable hmIdx
  rw [← filterMap_ite (List.range (shapeSize vB.shape)) (fun j => (logical mB vB).getD j 0 == 2)
    (fun j => (vA.posToFlat (offAt vB.shape j), (logical mB vB).getD j 0))]
  apply filterMap_congr'
  intro j hj
  have hj' : j < shapeSize vB.shape := List.mem_range.1 hj
  simp only
  rw [position_eq vB wfB j hj', readIter_logical mB vB wfB j hj' 0, toImg_getD_unravel mB vB j 0 hj',
    ← logical_getD mB vB j hj']
  rfl

theorem C14_hmEntries_eq (bshape : List Nat) (w : List Int) :
    C14.hmEntries bshape w.toArray = (hmIdx bshape w).map fun j => (offAt bshape j, w.getD j 0) := by
  unfold C14.hmEntries hmIdx
  simp only [toArray_getD]
  rw [filterMap_ite (List.range (shapeSize bshape)) (fun j => w.getD j 0 == 2)
    (fun j => (subPos (unravelI bshape j) (centreOf bshape), w.getD j 0))]
  rfl

/-- **hitmiss over views is `C14.hitmissAt` on the logical arrays**, no bound assumed. -/
theorem hitmissView_eq_C14 (mA : Int → Int) (vA : View) (mB : Int → Int) (vB : View) (wfA : vA.WF) (wfB : vB.WF)
    (hl : vB.shape.length = vA.shape.length) :
    hitmissView mA vA mB vB =
      (((allPos vA.shape).map
        (C14.hitmissAt (toImg mA vA) vB.shape (C14.hmEntries vB.shape (logical mB vB).toArray))).toArray).map
        some := by
  unfold hitmissView
  simp only
  apply pixelLoop_eq_allPos vA.shape
  intro i hi
  unfold C14.hitmissAt
  rw [flatToPos_unravel vA i hi]
  have hsh : (toImg mA vA).shape = vA.shape := rfl
  rw [hsh]
  by_cases hev : C14.hmEvaluated vA.shape vB.shape (unravelI vA.shape i) = true
  · rw [if_pos hev, if_pos hev, hmTable_eq vA mB vB wfB, C14_hmEntries_eq, List.all_map, List.all_map]
    have : ((hmIdx vB.shape (logical mB vB)).all
          ((fun (e : Int × Int) => readAtFlat mA vA ((i : Int) + e.1).toNat == e.2) ∘ fun j =>
            (vA.posToFlat (offAt vB.shape j), (logical mB vB).getD j 0))) =
        ((hmIdx vB.shape (logical mB vB)).all
          ((fun (e : List Int × Int) => (toImg mA vA).getD (addPos (unravelI vA.shape i) e.1) 0 == e.2) ∘ fun j =>
            (offAt vB.shape j, (logical mB vB).getD j 0))) := by
      apply all_congr_mem
      intro j hj
      have hj' : j < shapeSize vB.shape := by
        unfold hmIdx at hj
        exact List.mem_range.1 (List.mem_filter.1 hj).1
      simp only [Function.comp]
      rw [(hm_read mA vA wfA vB.shape hl i hi hev j hj').2]
    rw [this]
  · rw [if_neg hev, if_neg hev]

end Mahotas.C08
