/-
C08 (round 3) — value-level ties of the two mark kernels: `locView` = `C14.locModel` (the centre entry of the
structuring element, which `C14.neighbours` removes, never beats the pixel itself) and `bordersView` =
`C13.bordersModel`.
-/
import Mahotas.Proofs.C08Ties
namespace Mahotas.C08
open Mahotas

/-! ### locmin_max = `C14.locModel` -/

theorem locInner_eq_all (isMin : Bool) (cur : Int) (l : List (Option Int × Int)) :
    locInner isMin cur l = l.all fun ab => !C14.beats isMin (ab.1.getD 0) cur := by
  induction l with
  | nil => rfl
  | cons ab t ih =>
    simp only [locInner, List.all_cons]
    rw [ih]
    cases isMin <;> simp [C14.beats]

theorem all_filter_of {ι : Type} (L : List ι) (Q P : ι → Bool) (h : ∀ x ∈ L, Q x = false → P x = true) :
    (L.filter Q).all P = L.all P := by
  induction L with
  | nil => rfl
  | cons a t ih =>
    have iht := ih (fun x hx => h x (by simp [hx]))
    by_cases hq : Q a = true
    · simp only [List.filter_cons, hq, if_true, List.all_cons, iht]
    · have hq' : Q a = false := by simpa using hq
      simp only [List.filter_cons, hq', Bool.false_eq_true, if_false, List.all_cons, iht, h a (by simp) hq',
        Bool.true_and]

theorem addPos_zero (p k : List Int) (hl : k.length = p.length) (hz : C14.isZeroPos k = true) : addPos p k = p := by
  induction p generalizing k with
  | nil => cases k <;> simp_all [addPos]
  | cons a as ih =>
    cases k with
    | nil => simp at hl
    | cons b bs =>
      simp only [C14.isZeroPos, List.all_cons, Bool.and_eq_true, beq_iff_eq] at hz
      simp only [addPos, hz.1, Int.add_zero]
      rw [ih bs (by simpa using hl) (by simpa [C14.isZeroPos] using hz.2)]

theorem C14_neighbours_eq (fshape : List Nat) (w : List Int) :
    C14.neighbours fshape w.toArray =
      ((keptIdx fshape w (fun x => x != 0) 0).filter fun kk => !C14.isZeroPos (offAt fshape kk)).map
        (offAt fshape) := by
  unfold C14.neighbours keptIdx
  simp only [toArray_getD]
  rw [filterMap_ite (List.range (shapeSize fshape))
    (fun i => w.getD i 0 == 0 || C14.isZeroPos (subPos (unravelI fshape i) (centreOf fshape)))
    (fun i => subPos (unravelI fshape i) (centreOf fshape)), List.filter_filter]
  congr 1
  apply List.filter_congr
  intro i _
  simp only [offAt, Bool.not_or, bne, Bool.and_comm]

theorem beats_self (isMin : Bool) (a : Int) : C14.beats isMin a a = false := by
  cases isMin <;> simp [C14.beats]

/-- **locmin_max over views is `C14.locModel` on the logical arrays** (neighbourhood = non-zero entries of `Bc`
without the centre, as `_remove_centre` / `C14.neighbours` build it: a centre entry left in `Bc` changes nothing). -/
theorem locView_eq_C14 (isMin : Bool) (mA : Int → Int) (vA : View) (mB : Int → Int) (vB : View)
    (h : FilterArgs vA vB true) :
    locView isMin mA vA mB vB =
      (C14.locModel isMin (toImg mA vA) (C14.neighbours vB.shape (logical mB vB).toArray)).map some := by
  unfold locView C14.locModel
  simp only
  apply markLoop_eq_allPos vA.shape _ (C14.locAt isMin (toImg mA vA) _)
  intro i hi
  have hpos : ∀ d ∈ (toImg mA vA).shape, 0 < d := fun d hd => by have := h.posA d hd; omega
  have hin : inside (toImg mA vA).shape (unravelI vA.shape i) = true := inside_unravelI _ _ hi
  rw [neigh_logical _ mA vA mB vB h.wfA h.wfF h.posA h.posF h.rank .nearest true h.raw 0 i hi,
    logicalNeigh_eq, locInner_eq_all, C14_neighbours_eq, readIter_logical mA vA h.wfA i hi 0]
  unfold C14.locAt
  simp only [if_true, List.all_map]
  rw [all_filter_of]
  · apply List.all_congr rfl
    intro kk
    simp only [Function.comp, nbAt_getD_nearest]
  · intro kk _ hz
    have hz' : C14.isZeroPos (offAt vB.shape kk) = true := by simpa using hz
    have hl : (offAt vB.shape kk).length = (unravelI vA.shape i).length := by
      rw [offAt_length]; simp [unravelI, unravel_length, h.rank]
    simp only [Function.comp]
    rw [addPos_zero _ _ hl hz', C01.readNearest_eq _ _ hpos, C01.clampPos_of_inside _ _ hin, beats_self]
    rfl

/-! ### borders = `C13.bordersModel` -/

theorem logical_getD (mem : Int → Int) (v : View) (i : Nat) (hi : i < shapeSize v.shape) :
    (logical mem v).getD i 0 = mem (v.addr (unravel v.shape i)) := by
  simp [logical, List.getD_eq_getElem?_getD, List.getElem?_map, List.getElem?_range hi]

theorem toImg_getD_ravel (mem : Int → Int) (v : View) (q : List Int) (hq : inside v.shape q = true) :
    (toImg mem v).getD q 0 = (logical mem v).getD (ravelI v.shape q) 0 := by
  rw [Img.getD_inside (toImg mem v) q 0 hq]
  simp only [toImg, toArray_getD]

/-- **labeled.borders over views is `C13.bordersModel` on the logical arrays.** -/
theorem bordersView_eq_C13 (m : Mode) (mA : Int → Int) (vA : View) (mB : Int → Int) (vB : View)
    (h : FilterArgs vA vB true) :
    bordersView m mA vA mB vB =
      ((C13.bordersModel m vA.shape (logical mA vA) (C03.offsets vB.shape (logical mB vB).toArray)).map
        some).toArray := by
  unfold bordersView C13.bordersModel
  simp only
  rw [markLoop_eq, logical_length, List.map_map]
  congr 1
  apply List.map_congr_left
  intro i hi
  have hi' : i < shapeSize vA.shape := List.mem_range.1 hi
  have hpos : ∀ d ∈ vA.shape, 0 < d := fun d hd => by have := h.posA d hd; omega
  simp only [Function.comp]
  rw [neigh_logical _ mA vA mB vB h.wfA h.wfF h.posA h.posF h.rank m true h.raw 0 i hi',
    logicalNeigh_eq, C03_offsets_eq, readIter_logical mA vA h.wfA i hi' 0, toImg_getD_unravel mA vA i 0 hi',
    logical_getD mA vA i hi']
  simp only [if_true, List.any_map]
  congr 1
  apply List.any_congr rfl
  intro kk
  simp only [Function.comp, nbAt]
  cases hq : fixPos m (toImg mA vA).shape (addPos (unravelI vA.shape i) (offAt vB.shape kk)) with
  | none =>
    have hq' : fixPos m vA.shape (addPos (unravelI vA.shape i) (offAt vB.shape kk)) = none := hq
    simp [hq']
  | some q =>
    have hq' : fixPos m vA.shape (addPos (unravelI vA.shape i) (offAt vB.shape kk)) = some q := hq
    have hin := fixPos_inside m vA.shape _ q hpos (addPos_offAt_length vA.shape vB.shape h.rank i kk) hq'
    simp only [hq', Option.map_some]
    rw [toImg_getD_ravel mA vA q hin]

end Mahotas.C08
