/-
C08 (round 4) — the `at(pos)` kernels over views (`Model/C08ViewsA.lean`) equal the owners' logical models.
-/
import Mahotas.Model.C08ViewsA
import Mahotas.Proofs.C08Kernels
import Mahotas.Proofs.C08TiesMark
import Mahotas.Proofs.FilterIter
namespace Mahotas.C08
open Mahotas

/-- `at(pos)` is the address map: the tabulation through `at` is the logical array -/
theorem atImg_eq_toImg {α : Type} (mem : Int → α) (v : View) : atImg mem v = toImg mem v := rfl

theorem nbView_eq (mB : Int → Int) (vB : View) (wf : vB.WF) :
    nbView mB vB = C14.neighbours vB.shape (logical mB vB).toArray := by
  unfold nbView
  rw [filtVals_eq mB vB wf]

theorem map_some_all_isSome {β : Type} (x : Array β) : (x.map some).all Option.isSome = true := by
  simp [Array.all_eq_true]

theorem map_some_map_getD {β : Type} (x : Array β) (d : β) : (x.map some).map (fun o => o.getD d) = x := by
  simp

theorem regView_eq_C14 (isMin : Bool) (mA : Int → Int) (vA : View) (mB : Int → Int) (vB : View)
    (h : FilterArgs vA vB true) :
    regView isMin mA vA mB vB =
      (C14.regModel isMin (toImg mA vA) (C14.neighbours vB.shape (logical mB vB).toArray)).map some := by
  unfold regView
  simp only [locView_eq_C14 isMin mA vA mB vB h, map_some_all_isSome, if_true, map_some_map_getD,
    atImg_eq_toImg, nbView_eq mB vB h.wfF]
  rfl

theorem closeHolesView_eq_C14 (mR : Int → Int) (vR : View) (mB : Int → Int) (vB : View) (wfB : vB.WF) :
    closeHolesView mR vR mB vB =
      (C14.closeHoles (toImg mR vR) (C14.neighbours vB.shape (logical mB vB).toArray)).map some := by
  unfold closeHolesView
  rw [atImg_eq_toImg, nbView_eq mB vB wfB]

/-! ### majority_filter -/

theorem foldl_congr_mem {α β : Type} (f g : β → α → β) (l : List α) (b : β)
    (h : ∀ b a, a ∈ l → f b a = g b a) : l.foldl f b = l.foldl g b := by
  induction l generalizing b with
  | nil => rfl
  | cons a t ih =>
    simp only [List.foldl_cons]
    rw [h b a (by simp)]
    exact ih _ (fun b' a' ha' => h b' a' (by simp [ha']))

theorem majorityCount_congr (n : Nat) (px px' : Nat → Nat → Bool) (y x : Nat)
    (h : ∀ dy dx, dy < n → dx < n → px (y + dy) (x + dx) = px' (y + dy) (x + dx)) :
    majorityCount n px y x = majorityCount n px' y x := by
  unfold majorityCount
  congr 1
  have key : ∀ l : List Nat, (∀ dy ∈ l, dy < n) →
      (l.flatMap fun dy => (List.range n).map fun dx => px (y + dy) (x + dx)) =
      (l.flatMap fun dy => (List.range n).map fun dx => px' (y + dy) (x + dx)) := by
    intro l
    induction l with
    | nil => intro _; rfl
    | cons dy t ih =>
      intro hl
      simp only [List.flatMap_cons]
      rw [ih (fun d hd => hl d (by simp [hd]))]
      congr 1
      apply List.map_congr_left
      intro dx hdx
      exact h dy dx (hl dy (by simp)) (List.mem_range.mp hdx)
  exact key _ (fun dy hdy => List.mem_range.mp hdy)

/-- the loops only look at pixels inside the image -/
theorem majorityLoops_congr (rows cols n : Nat) (px px' : Nat → Nat → Bool)
    (h : ∀ y x, y < rows → x < cols → px y x = px' y x) :
    majorityLoops rows cols n px = majorityLoops rows cols n px' := by
  unfold majorityLoops
  by_cases hc : (rows < n || cols < n) = true
  · simp only [hc, if_true]
  · simp only [hc]
    have hr : ¬ rows < n := by intro hh; apply hc; simp [hh]
    have hcl : ¬ cols < n := by intro hh; apply hc; simp [hh]
    apply foldl_congr_mem
    intro res y hy
    apply foldl_congr_mem
    intro res' x hx
    have hy' := List.mem_range.mp hy
    have hx' := List.mem_range.mp hx
    rw [majorityCount_congr n px px' y x]
    intro dy dx hdy hdx
    exact h _ _ (by omega) (by omega)

theorem readAt_eq_toImg_getD {α : Type} (mem : Int → α) (v : View) (p : List Nat) (d : α)
    (hp : inside v.shape (p.map Int.ofNat) = true) :
    readAt mem v p = (toImg mem v).getD (p.map Int.ofNat) d := by
  rw [toImg_getD mem v _ d hp, elemOffset_ofNat]
  rfl

theorem inside2 (rows cols y x : Nat) (hy : y < rows) (hx : x < cols) :
    inside [rows, cols] [(y : Int), (x : Int)] = true := by
  simp [inside]
  omega

/-- **majority_filter over views = the same loops on the logical image**, any strides -/
theorem majorityView_eq_logical (n : Nat) (mA : Int → Int) (vA : View) :
    majorityView n mA vA = majorityLogical n (toImg mA vA) := by
  unfold majorityView majorityLogical
  have hs : (toImg mA vA).shape = vA.shape := rfl
  rw [hs]
  split
  · rename_i rows cols hshape
    apply majorityLoops_congr
    intro y x hy hx
    have hin : inside vA.shape ([y, x].map Int.ofNat) = true := by
      rw [hshape]; exact inside2 rows cols y x hy hx
    rw [readAt_eq_toImg_getD mA vA [y, x] 0 hin]
    rfl
  · rfl

/-- F15: every cell of the output is defined (`PyArray_FILLWBYTE` in front of the loops) -/
theorem majorityLoops_defined (rows cols n : Nat) (px : Nat → Nat → Bool) :
    (majorityLoops rows cols n px).size = rows * cols ∧
      ∀ i, i < rows * cols → ((majorityLoops rows cols n px).getD i none).isSome = true := by
  unfold majorityLoops
  have key : ∀ (l1 : List Nat) (res : Array (Option Bool)),
      (res.size = rows * cols ∧ ∀ i, i < rows * cols → (res.getD i none).isSome = true) →
      let r := l1.foldl (fun res y =>
        (List.range (cols - n)).foldl (fun res x =>
          if majorityCount n px y x ≥ n * n / 2 then res.setIfInBounds ((y + n / 2) * cols + n / 2 + x) (some true)
          else res) res) res
      (r.size = rows * cols ∧ ∀ i, i < rows * cols → (r.getD i none).isSome = true) := by
    intro l1
    induction l1 with
    | nil => intro res h; exact h
    | cons y t ih =>
      intro res h
      simp only [List.foldl_cons]
      apply ih
      have inner : ∀ (l2 : List Nat) (res : Array (Option Bool)),
          (res.size = rows * cols ∧ ∀ i, i < rows * cols → (res.getD i none).isSome = true) →
          let r := l2.foldl (fun res x =>
            if majorityCount n px y x ≥ n * n / 2 then res.setIfInBounds ((y + n / 2) * cols + n / 2 + x) (some true)
            else res) res
          (r.size = rows * cols ∧ ∀ i, i < rows * cols → (r.getD i none).isSome = true) := by
        intro l2
        induction l2 with
        | nil => intro res h; exact h
        | cons x t2 ih2 =>
          intro res h
          simp only [List.foldl_cons]
          apply ih2
          by_cases hc : majorityCount n px y x ≥ n * n / 2
          · simp only [hc, if_true]
            refine ⟨by rw [Array.size_setIfInBounds]; exact h.1, ?_⟩
            intro i hi
            have := h.2 i hi
            rw [Array.getD_eq_getD_getElem?, Array.getElem?_setIfInBounds]
            by_cases he : (y + n / 2) * cols + n / 2 + x = i
            · simp [he, h.1, hi]
            · simp only [he, if_false]
              rw [← Array.getD_eq_getD_getElem?]; exact this
          · simp only [hc, if_false]; exact h
      exact inner _ res h
  have hinit : ((Array.replicate (rows * cols) (some false) : Array (Option Bool)).size = rows * cols ∧
      ∀ i, i < rows * cols → ((Array.replicate (rows * cols) (some false) : Array (Option Bool)).getD i none).isSome = true) := by
    refine ⟨by simp, ?_⟩
    intro i hi
    simp [Array.getD_eq_getD_getElem?, hi]
  by_cases hc : (rows < n || cols < n) = true
  · simp only [hc, if_true]; exact hinit
  · simp only [hc]
    exact key _ _ hinit

/-! ### `iterate_both` reading the array iterator's position -/

theorem bothAfter_it (fi : FilterIter.FIter) (v : View) (i : Nat) : (bothAfter fi v i).it = (Iter.begin v).incrN i := by
  induction i with
  | zero => rfl
  | succ k ih => simp only [bothAfter, iterateBothV, Iter.incrN, ih]

/-- the two odometers agree: the private position of `Model/FilterIter.lean` is the array iterator's (reversed) position -/
theorem posRev_eq_iter_pos (m : Mode) (v : View) (wf : v.WF) (fshape : List Nat) (fp : Array Bool)
    (hlen : v.shape.length = fshape.length) (ha : ∀ a ∈ v.shape, 1 ≤ a) (hf : ∀ f ∈ fshape, 1 ≤ f)
    (i : Nat) (hi : i < shapeSize v.shape) :
    (FilterIter.stateAfter (FilterIter.mkFIter m v.shape fshape fp) v.shape i).posRev =
      ((Iter.begin v).incrN i).pos.map Int.ofNat := by
  have h1 := filterIter_position m v.shape fshape fp hlen ha hf i hi
  have h2 := position_eq v wf i hi
  simp only [Iter.position] at h2
  rw [← h2] at h1
  have := congrArg List.reverse h1
  simpa [List.map_reverse] using this

theorem bothAfter_cur (m : Mode) (v : View) (wf : v.WF) (fshape : List Nat) (fp : Array Bool)
    (hlen : v.shape.length = fshape.length) (ha : ∀ a ∈ v.shape, 1 ≤ a) (hf : ∀ f ∈ fshape, 1 ≤ f)
    (i : Nat) (hi : i ≤ shapeSize v.shape) :
    (bothAfter (FilterIter.mkFIter m v.shape fshape fp) v i).cur =
      (FilterIter.stateAfter (FilterIter.mkFIter m v.shape fshape fp) v.shape i).cur := by
  induction i with
  | zero => rfl
  | succ k ih =>
    have hk : k < shapeSize v.shape := by omega
    simp only [bothAfter, iterateBothV, FilterIter.stateAfter, FilterIter.step]
    rw [ih (by omega), bothAfter_it, posRev_eq_iter_pos m v wf fshape fp hlen ha hf k hk, incrN_eq v wf.len k hk]

/-! ### majority_filter: pointwise form -/

/-- a loop that only ever stores `some true`: a cell is `some true` afterwards iff it was before or some iteration whose
condition holds stored there -/
theorem foldl_mark {α : Type} (l : List α) (idx : α → Nat) (cond : α → Prop) [DecidablePred cond]
    (init : Array (Option Bool)) (i : Nat) :
    (l.foldl (fun res a => if cond a then res.setIfInBounds (idx a) (some true) else res) init).getD i none =
      if i < init.size ∧ l.any (fun a => decide (cond a) && idx a == i) = true then some true else init.getD i none := by
  induction l generalizing init with
  | nil => simp
  | cons a t ih =>
    simp only [List.foldl_cons, List.any_cons]
    rw [ih]
    by_cases hc : cond a
    · simp only [hc, if_true, decide_true, Bool.true_and, Array.size_setIfInBounds]
      by_cases he : idx a = i
      · by_cases hi : i < init.size
        · simp [he, hi, Array.getD_eq_getD_getElem?, Array.getElem?_setIfInBounds]
        · simp [he, hi, Array.getD_eq_getD_getElem?, Array.getElem?_setIfInBounds]
      · have hne : (idx a == i) = false := by simp [he]
        simp only [hne, Bool.false_or]
        have : (init.setIfInBounds (idx a) (some true)).getD i none = init.getD i none := by
          simp [Array.getD_eq_getD_getElem?, Array.getElem?_setIfInBounds, he]
        rw [this]
    · simp only [hc, if_false, decide_false, Bool.false_and, Bool.false_or]

/-- **pointwise form of `py_majority_filter`**: cell `i` of the output is `true` iff some visited window `(y, x)`
(`y < rows−N`, `x < cols−N`) whose count reaches `N*N/2` has its output position `(y+N/2)*cols + N/2 + x` equal to `i`;
every other cell is `false` (the zero fill) -/
theorem majorityLoops_spec (rows cols n : Nat) (px : Nat → Nat → Bool) (hr : n ≤ rows) (hc : n ≤ cols) (i : Nat)
    (hi : i < rows * cols) :
    (majorityLoops rows cols n px).getD i none =
      some ((List.range (rows - n)).any fun y => (List.range (cols - n)).any fun x =>
        decide (majorityCount n px y x ≥ n * n / 2) && ((y + n / 2) * cols + n / 2 + x == i)) := by
  unfold majorityLoops
  have hb : (decide (rows < n) || decide (cols < n)) = false := by simp; omega
  simp only [hb, Bool.false_eq_true, if_false]
  -- flatten the two loops into one loop over the windows in visiting order
  have hflat : ∀ init : Array (Option Bool),
      (List.range (rows - n)).foldl (fun res y =>
        (List.range (cols - n)).foldl (fun res x =>
          if majorityCount n px y x ≥ n * n / 2 then res.setIfInBounds ((y + n / 2) * cols + n / 2 + x) (some true)
          else res) res) init =
      (((List.range (rows - n)).flatMap fun y => (List.range (cols - n)).map fun x => (y, x))).foldl
        (fun res (a : Nat × Nat) =>
          if majorityCount n px a.1 a.2 ≥ n * n / 2 then res.setIfInBounds ((a.1 + n / 2) * cols + n / 2 + a.2) (some true)
          else res) init := by
    intro init
    rw [List.foldl_flatMap]
    congr 1
    funext res y
    rw [List.foldl_map]
  rw [hflat, foldl_mark _ (fun a : Nat × Nat => (a.1 + n / 2) * cols + n / 2 + a.2)
    (fun a : Nat × Nat => majorityCount n px a.1 a.2 ≥ n * n / 2)]
  have hsz : i < (Array.replicate (rows * cols) (some false) : Array (Option Bool)).size := by simpa using hi
  have hget : (Array.replicate (rows * cols) (some false) : Array (Option Bool)).getD i none = some false := by
    simp [Array.getD_eq_getD_getElem?, hi]
  rw [hget]
  simp only [hsz, true_and, List.any_flatMap, List.any_map, Function.comp_def]
  split <;> rename_i h <;> simp_all

end Mahotas.C08
