/-
C08 (round 4) — the in-place row kernels over views (`Model/C08ViewsB.lean`): for every injective view (any strides) the
logical content after the call is the owner's row transform (`C17.rowsPass` / `colsPass`) of the logical content before, and
no address outside the view changes.
-/
import Mahotas.Model.C08ViewsB
import Mathlib.Tactic.Ring
import Mathlib.Tactic.Linarith
set_option linter.unusedSectionVars false
set_option linter.unusedVariables false
namespace Mahotas.C08
open Mahotas

theorem wr_same {α : Type} (m : Mem α) (a : Int) (x : α) : (wr m a x).rd a = x := by simp [wr]
theorem wr_other {α : Type} (m : Mem α) (a : Int) (x : α) (b : Int) (h : b ≠ a) : (wr m a x).rd b = m.rd b := by
  simp [wr, h]

/-- a store loop over distinct addresses: every address receives its value, every other address keeps its content -/
theorem foldl_wr {α : Type} (A : Nat → Int) (V : Nat → α) (n : Nat) (m : Mem α)
    (hinj : ∀ x x', x < n → x' < n → A x = A x' → x = x') :
    (∀ x, x < n → ((List.range n).foldl (fun m' x => wr m' (A x) (V x)) m).rd (A x) = V x) ∧
    (∀ a, (∀ x, x < n → a ≠ A x) → ((List.range n).foldl (fun m' x => wr m' (A x) (V x)) m).rd a = m.rd a) := by
  induction n with
  | zero => exact ⟨fun x hx => absurd hx (Nat.not_lt_zero _), fun a _ => rfl⟩
  | succ k ih =>
    have ih' := ih (fun x x' hx hx' => hinj x x' (by omega) (by omega))
    rw [List.range_succ, List.foldl_append]
    simp only [List.foldl_cons, List.foldl_nil]
    constructor
    · intro x hx
      by_cases hxk : x = k
      · subst hxk; exact wr_same _ _ _
      · rw [wr_other _ _ _ _ (fun h => hxk (hinj x k hx (by omega) h))]
        exact ih'.1 x (by omega)
    · intro a ha
      rw [wr_other _ _ _ _ (ha k (by omega))]
      exact ih'.2 a (fun x hx => ha x (by omega))

theorem rowInPlace_spec {α : Type} (T : Nat → (Nat → α) → Nat → α) (N1 : Nat) (step data : Int) (m : Mem α)
    (hinj : ∀ x x' : Nat, x < N1 → x' < N1 → data + step * (x : Int) = data + step * (x' : Int) → x = x') :
    (∀ x : Nat, x < N1 →
      (rowInPlace T N1 step data m).rd (data + step * (x : Int)) = T N1 (fun p => m.rd (data + (p : Int) * step)) x) ∧
    (∀ a, (∀ x : Nat, x < N1 → a ≠ data + step * (x : Int)) → (rowInPlace T N1 step data m).rd a = m.rd a) := by
  unfold rowInPlace
  exact foldl_wr (fun x => data + step * (x : Int)) (fun x => T N1 (fun p => m.rd (data + (p : Int) * step)) x) N1 m hinj

/-- the view addresses distinct positions at distinct addresses (no overlapping / zero strides): what a kernel that WRITES
through the view needs -/
def Inj2 (b s0 s1 : Int) (N0 N1 : Nat) : Prop :=
  ∀ y y' x x' : Nat, y < N0 → y' < N0 → x < N1 → x' < N1 →
    b + (y : Int) * s0 + (x : Int) * s1 = b + (y' : Int) * s0 + (x' : Int) * s1 → y = y' ∧ x = x'

/-- the row transform looks at its row only inside `[0, N)` -/
def Local {α : Type} (T : Nat → (Nat → α) → Nat → α) : Prop :=
  ∀ N f g, (∀ p, p < N → f p = g p) → ∀ x, T N f x = T N g x

theorem rowsFold_spec {α : Type} (T : Nat → (Nat → α) → Nat → α) (hT : Local T) (b s0 s1 : Int) (N0 N1 : Nat)
    (hinj : Inj2 b s0 s1 N0 N1) (m : Mem α) (k : Nat) (hk : k ≤ N0) :
    (∀ y x : Nat, y < k → x < N1 →
      ((List.range k).foldl (fun m (y : Nat) => rowInPlace T N1 s1 (b + (y : Int) * s0) m) m).rd
          (b + (y : Int) * s0 + (x : Int) * s1) = T N1 (fun p => m.rd (b + (y : Int) * s0 + (p : Int) * s1)) x) ∧
    (∀ a, (∀ y x : Nat, y < k → x < N1 → a ≠ b + (y : Int) * s0 + (x : Int) * s1) →
      ((List.range k).foldl (fun m (y : Nat) => rowInPlace T N1 s1 (b + (y : Int) * s0) m) m).rd a = m.rd a) := by
  induction k with
  | zero => exact ⟨fun y x hy => absurd hy (Nat.not_lt_zero _), fun a _ => rfl⟩
  | succ k ih =>
    have ih' := ih (by omega)
    rw [List.range_succ, List.foldl_append]
    simp only [List.foldl_cons, List.foldl_nil]
    generalize hm' : (List.range k).foldl (fun m (y : Nat) => rowInPlace T N1 s1 (b + (y : Int) * s0) m) m = m' at ih' ⊢
    have rinj : ∀ x x' : Nat, x < N1 → x' < N1 →
        b + (k : Int) * s0 + s1 * (x : Int) = b + (k : Int) * s0 + s1 * (x' : Int) → x = x' := by
      intro x x' hx hx' h
      exact (hinj k k x x' (by omega) (by omega) hx hx' (by rw [Int.mul_comm (x : Int), Int.mul_comm (x' : Int)]; exact h)).2
    have rs := rowInPlace_spec T N1 s1 (b + (k : Int) * s0) m' rinj
    constructor
    · intro y x hy hx
      by_cases hyk : y = k
      · subst hyk
        have := rs.1 x hx
        rw [Int.mul_comm s1 (x : Int)] at this
        rw [this]
        apply hT
        intro p hp
        apply ih'.2
        intro y' x' hy' hx' h
        have := (hinj y y' p x' (by omega) (by omega) hp hx' h).1
        omega
      · have hne : ∀ x' : Nat, x' < N1 → b + (y : Int) * s0 + (x : Int) * s1 ≠ b + (k : Int) * s0 + s1 * (x' : Int) := by
          intro x' hx' h
          rw [Int.mul_comm s1 (x' : Int)] at h
          exact hyk (hinj y k x x' (by omega) (by omega) hx hx' h).1
        rw [rs.2 _ hne]
        exact ih'.1 y x (by omega) hx
    · intro a ha
      have hne : ∀ x' : Nat, x' < N1 → a ≠ b + (k : Int) * s0 + s1 * (x' : Int) := by
        intro x' hx'
        rw [Int.mul_comm s1 (x' : Int)]
        exact ha k x' (by omega) hx'
      rw [rs.2 _ hne]
      exact ih'.2 a (fun y x hy hx => ha y x (by omega) hx)

theorem toIm_eq {α : Type} (m : Mem α) (v : View) (s0 s1 : Int) (hs : v.strides = [s0, s1]) (y x : Nat) :
    toIm m v y x = m.rd (v.base + (y : Int) * s0 + (x : Int) * s1) := by
  simp [toIm, hs]

/-- **one native call** (`_convolve.haar(f)` etc.) on an injective 2-D view of any strides -/
theorem rowsInPlaceView_spec {α : Type} (T : Nat → (Nat → α) → Nat → α) (hT : Local T) (m : Mem α) (v : View)
    (N0 N1 : Nat) (s0 s1 : Int) (hsh : v.shape = [N0, N1]) (hst : v.strides = [s0, s1])
    (hinj : Inj2 v.base s0 s1 N0 N1) :
    (∀ y x, y < N0 → x < N1 → toIm (rowsInPlaceView T m v) v y x = C17.rowsPass T N1 (toIm m v) y x) ∧
    (∀ a, (∀ y x : Nat, y < N0 → x < N1 → a ≠ v.base + (y : Int) * s0 + (x : Int) * s1) →
      (rowsInPlaceView T m v).rd a = m.rd a) := by
  have h := rowsFold_spec T hT v.base s0 s1 N0 N1 hinj m N0 (Nat.le_refl _)
  have hr : rowsInPlaceView T m v =
      (List.range N0).foldl (fun m (y : Nat) => rowInPlace T N1 s1 (v.base + (y : Int) * s0) m) m := by
    unfold rowsInPlaceView; rw [hsh, hst]
  constructor
  · intro y x hy hx
    rw [toIm_eq _ v s0 s1 hst, hr, h.1 y x hy hx]
    unfold C17.rowsPass
    congr 1
    funext p
    rw [toIm_eq _ v s0 s1 hst]
  · intro a ha
    rw [hr]; exact h.2 a ha

theorem transposeView_shape (v : View) (N0 N1 : Nat) (s0 s1 : Int) (hsh : v.shape = [N0, N1]) (hst : v.strides = [s0, s1]) :
    (transposeView v).shape = [N1, N0] ∧ (transposeView v).strides = [s1, s0] ∧ (transposeView v).base = v.base := by
  unfold transposeView; rw [hsh, hst]; exact ⟨rfl, rfl, rfl⟩

theorem Inj2.swap {b s0 s1 : Int} {N0 N1 : Nat} (h : Inj2 b s0 s1 N0 N1) : Inj2 b s1 s0 N1 N0 := by
  intro y y' x x' hy hy' hx hx' e
  have := h x x' y y' hx hx' hy hy' (by linarith)
  exact ⟨this.2, this.1⟩

theorem toIm_transpose {α : Type} (m : Mem α) (v : View) (N0 N1 : Nat) (s0 s1 : Int)
    (hsh : v.shape = [N0, N1]) (hst : v.strides = [s0, s1]) (y x : Nat) :
    toIm m (transposeView v) y x = toIm m v x y := by
  obtain ⟨_, h2, h3⟩ := transposeView_shape v N0 N1 s0 s1 hsh hst
  rw [toIm_eq _ _ s1 s0 h2, toIm_eq _ v s0 s1 hst, h3]
  congr 1; ring

/-- `K(f); K(f.T)`: rows, then columns -/
theorem rowsThenCols_spec {α : Type} (T : Nat → (Nat → α) → Nat → α) (hT : Local T) (m : Mem α) (v : View)
    (N0 N1 : Nat) (s0 s1 : Int) (hsh : v.shape = [N0, N1]) (hst : v.strides = [s0, s1])
    (hinj : Inj2 v.base s0 s1 N0 N1) :
    (∀ y x, y < N0 → x < N1 →
      toIm (rowsThenCols T m v) v y x = C17.colsPass T N0 (C17.rowsPass T N1 (toIm m v)) y x) ∧
    (∀ a, (∀ y x : Nat, y < N0 → x < N1 → a ≠ v.base + (y : Int) * s0 + (x : Int) * s1) →
      (rowsThenCols T m v).rd a = m.rd a) := by
  obtain ⟨t1, t2, t3⟩ := transposeView_shape v N0 N1 s0 s1 hsh hst
  have p1 := rowsInPlaceView_spec T hT m v N0 N1 s0 s1 hsh hst hinj
  have p2 := rowsInPlaceView_spec T hT (rowsInPlaceView T m v) (transposeView v) N1 N0 s1 s0 t1 t2 (t3 ▸ hinj.swap)
  unfold rowsThenCols
  constructor
  · intro y x hy hx
    rw [← toIm_transpose _ v N0 N1 s0 s1 hsh hst, p2.1 x y hx hy]
    unfold C17.colsPass C17.rowsPass
    apply hT
    intro p hp
    rw [toIm_transpose _ v N0 N1 s0 s1 hsh hst, p1.1 p x hp hx]
    rfl
  · intro a ha
    rw [p2.2 a (fun y x hy hx => by rw [t3]; have := ha x y hx hy; intro e; apply this; rw [e]; ring)]
    exact p1.2 a ha

/-- `K(f.T); K(f)`: columns, then rows (`idaubechies`) -/
theorem colsThenRows_spec {α : Type} (T : Nat → (Nat → α) → Nat → α) (hT : Local T) (m : Mem α) (v : View)
    (N0 N1 : Nat) (s0 s1 : Int) (hsh : v.shape = [N0, N1]) (hst : v.strides = [s0, s1])
    (hinj : Inj2 v.base s0 s1 N0 N1) :
    (∀ y x, y < N0 → x < N1 →
      toIm (colsThenRows T m v) v y x = C17.rowsPass T N1 (C17.colsPass T N0 (toIm m v)) y x) ∧
    (∀ a, (∀ y x : Nat, y < N0 → x < N1 → a ≠ v.base + (y : Int) * s0 + (x : Int) * s1) →
      (colsThenRows T m v).rd a = m.rd a) := by
  obtain ⟨t1, t2, t3⟩ := transposeView_shape v N0 N1 s0 s1 hsh hst
  have p1 := rowsInPlaceView_spec T hT m (transposeView v) N1 N0 s1 s0 t1 t2 (t3 ▸ hinj.swap)
  have p2 := rowsInPlaceView_spec T hT (rowsInPlaceView T m (transposeView v)) v N0 N1 s0 s1 hsh hst hinj
  unfold colsThenRows
  constructor
  · intro y x hy hx
    rw [p2.1 y x hy hx]
    unfold C17.colsPass C17.rowsPass
    apply hT
    intro p hp
    rw [← toIm_transpose _ v N0 N1 s0 s1 hsh hst, p1.1 p y hp hy]
    unfold C17.rowsPass
    congr 1
    funext k
    exact toIm_transpose _ v N0 N1 s0 s1 hsh hst p k
  · intro a ha
    rw [p2.2 a ha]
    exact p1.2 a (fun y x hy hx => by rw [t3]; have := ha x y hx hy; intro e; apply this; rw [e]; ring)

/-- the two passes look at the image only inside `[0,N0) × [0,N1)` -/
theorem passes_congr {α : Type} (T : Nat → (Nat → α) → Nat → α) (hT : Local T) (N0 N1 : Nat) (g g' : C17.Im α)
    (h : ∀ y x, y < N0 → x < N1 → g y x = g' y x) (y x : Nat) (hx : x < N1) :
    C17.colsPass T N0 (C17.rowsPass T N1 g) y x = C17.colsPass T N0 (C17.rowsPass T N1 g') y x := by
  unfold C17.colsPass C17.rowsPass
  apply hT
  intro k hk
  apply hT
  intro p hp
  exact h k p hk hp

/-! ### the four row transforms of `Model/C17.lean` are local -/

section
variable {α : Type} [Add α] [Sub α] [Mul α] [Div α] [Neg α] [NatCast α] [IntCast α]

theorem haarRow_local : Local (C17.haarRow (α := α)) := by
  intro N f g h x
  unfold C17.haarRow
  by_cases h1 : x < N / 2
  · simp only [h1, if_true]
    rw [h (2 * x) (by omega), h (2 * x + 1) (by omega)]
  · simp only [h1, if_false]
    by_cases h2 : x < 2 * (N / 2)
    · simp only [h2, if_true]
      rw [h (2 * (x - N / 2) + 1) (by omega), h (2 * (x - N / 2)) (by omega)]
    · simp only [h2, if_false]

theorem ihaarRow_local : Local (C17.ihaarRow (α := α)) := by
  intro N g g' h k
  unfold C17.ihaarRow
  by_cases h1 : k < 2 * (N / 2)
  · simp only [h1, if_true]
    rw [h (k / 2) (by omega), h (N / 2 + k / 2) (by omega)]
  · simp only [h1, if_false]

theorem access_congr (N : Nat) (f g : Nat → α) (h : ∀ p, p < N → f p = g p) (p : Int) :
    C17.access N f p = C17.access N g p := by
  unfold C17.access
  by_cases hp : 0 ≤ p ∧ p < (N : Int)
  · simp only [hp, and_self, if_true]
    exact h _ (by omega)
  · simp only [hp, if_false]

theorem waveletRow_local (cs : List α) : Local (C17.waveletRow cs) := by
  intro N f g h x
  unfold C17.waveletRow
  simp only [access_congr N f g h]

theorem iwaveletRow_local (cs : List α) : Local (C17.iwaveletRow cs) := by
  intro N f g h x
  unfold C17.iwaveletRow
  have e1 : ∀ p, C17.access (N / 2) f p = C17.access (N / 2) g p :=
    access_congr (N / 2) f g (fun p hp => h p (by omega))
  have e2 : ∀ p, C17.access (N / 2) (fun k => f (N / 2 + k)) p = C17.access (N / 2) (fun k => g (N / 2 + k)) p :=
    access_congr (N / 2) _ _ (fun p hp => h _ (by omega))
  simp only [e1, e2]
end

end Mahotas.C08
