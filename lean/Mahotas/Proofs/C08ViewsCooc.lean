/-
C08 (round 4) — `cooccurence` over views = `C19.coocModel` of the logical image, any strides of image and direction array.
-/
import Mahotas.Proofs.C08ViewsA
import Mahotas.Proofs.C12Kernels2
namespace Mahotas.C08
open Mahotas

theorem coocView_eq_C19 (mm : Nat) (mA : Int → Int) (vA : View) (mB : Int → Int) (vB : View)
    (h : FilterArgs vA vB true) (kk0 : Nat) (rest : List Nat)
    (hfp : (List.range (shapeSize vB.shape)).filter (fun kk => (logical mB vB).getD kk 0 != 0) = kk0 :: rest) :
    coocView mm mA vA mB vB =
      C19.coocModel mm (toImg mA vA) (subPos (unravelI vB.shape kk0) (centreOf vB.shape)) := by
  unfold coocView C19.coocModel
  have hsh : (toImg mA vA).shape = vA.shape := rfl
  rw [C12.boxPos_eq_allPos, hsh]
  unfold allPos
  rw [List.foldl_map]
  apply foldl_congr_mem
  intro acc i hi
  have hi' : i < shapeSize vA.shape := List.mem_range.mp hi
  rw [neigh_logical (fun x => x != 0) mA vA mB vB h.wfA h.wfF h.posA h.posF h.rank .ignore true h.raw 0 i hi']
  unfold logicalNeigh
  simp only [if_true, hfp, List.map_cons, List.head?_cons]
  have hlen : (addPos (unravelI vA.shape i) (subPos (unravelI vB.shape kk0) (centreOf vB.shape))).length =
      vA.shape.length := by
    rw [C01.addPos_length, C01.subPos_length]
    · simp [Mahotas.unravelI_length, centreOf, h.rank]
  have hfix := fun q' => (C12.fixPos_ignore_eq_constant vA.shape
      (addPos (unravelI vA.shape i) (subPos (unravelI vB.shape kk0) (centreOf vB.shape)))) ▸
    C03.fixPos_constant_inside vA.shape _ hlen q'
  by_cases hin : inside vA.shape (addPos (unravelI vA.shape i) (subPos (unravelI vB.shape kk0) (centreOf vB.shape))) = true
  · have := (hfix _).2 ⟨hin, rfl⟩
    simp only [hsh, this, Option.map_some, hin, if_true]
    rw [readIter_logical mA vA h.wfA i hi' 0]
  · have hnone : fixPos .ignore vA.shape
        (addPos (unravelI vA.shape i) (subPos (unravelI vB.shape kk0) (centreOf vB.shape))) = none := by
      cases hq : fixPos .ignore vA.shape
        (addPos (unravelI vA.shape i) (subPos (unravelI vB.shape kk0) (centreOf vB.shape))) with
      | none => rfl
      | some q' => exact absurd ((hfix q').1 hq).1 hin
    simp only [hsh, hnone, Option.map_none, hin]
    rfl

end Mahotas.C08
