/-
C09 — helper definitions and lemmas for the out= convention theorems.
-/
import Mahotas.Model.C09
import Mathlib.Tactic.SplitIfs
namespace Mahotas.C09
open Mahotas

/-- the dtype `_get_output` expects: the `dtype` argument, by default the array's -/
def expectedDtype (a : Desc) (dt : Option Nat) : Nat :=
  match dt with
  | none => a.dtype
  | some d => d

/-- **the convention's notion of a valid buffer**: documented dtype, the array's shape, C-contiguous -/
def Acceptable (a o : Desc) (dt : Option Nat) : Prop :=
  o.dtype = expectedDtype a dt ∧ o.shape = a.shape ∧ o.ccontig = true

instance (a o : Desc) (dt : Option Nat) : Decidable (Acceptable a o dt) := by
  unfold Acceptable; infer_instance

theorem getOutput_useOut_iff (a o : Desc) (dt : Option Nat) :
    getOutput a (some o) dt = .useOut ↔ Acceptable a o dt := by
  unfold getOutput Acceptable expectedDtype
  cases dt <;> simp <;> split_ifs <;> simp_all

theorem getOutput_reject_of_not (a o : Desc) (dt : Option Nat) (h : ¬ Acceptable a o dt) :
    ∃ r, getOutput a (some o) dt = .reject r := by
  unfold getOutput
  unfold Acceptable expectedDtype at h
  cases dt <;> simp at h ⊢ <;> split_ifs <;> simp_all

/-- the reason reported is the first failing test in source order: dtype, then shape, then contiguity -/
theorem getOutput_reason (a o : Desc) (dt : Option Nat) :
    getOutput a (some o) dt =
      (if o.dtype ≠ expectedDtype a dt then .reject .dtype
       else if o.shape ≠ a.shape then .reject .shape
       else if o.ccontig = false then .reject .contig
       else .useOut) := by
  unfold getOutput expectedDtype
  cases dt <;> simp

/-- `_get_output` never looks at the contiguity of `array` -/
theorem getOutput_array_contig (a : Desc) (c : Bool) (out : Option Desc) (dt : Option Nat) :
    getOutput { dtype := a.dtype, shape := a.shape, ccontig := c } out dt = getOutput a out dt := by
  unfold getOutput
  cases out <;> cases dt <;> rfl

/-- the buffer a run returned (`none` when it raised) -/
def R.ret : R Nat → Option Nat
  | .ok b _ => some b
  | .raise _ _ => none

/-- the exception a run raised (`none` when it returned) -/
def R.exc {α} : R α → Option Reject
  | .ok _ _ => none
  | .raise r _ => some r

/-- the heap a run left behind -/
def R.st {α} : R α → St
  | .ok _ s => s
  | .raise _ s => s

/-- the symbolic content of the returned buffer -/
def R.retVal (r : R Nat) : Option Val := r.ret.map r.st.val

/-- the input buffers `0 … k-1` still hold their call-time content -/
def intact (s : St) : Nat → Prop
  | 0 => True
  | k + 1 => s.val k = .inp k ∧ intact s k

/-- what "the wrapper honours the convention" means for a buffer-flow program `P` over the inputs
`inputs` (buffers `0 … k-1`), whose `_get_output` call sees an array of descriptor `arr` and the
dtype argument `dt`, and whose result has the symbolic content `V`:

* without `out`: `P` returns a buffer holding `V`, inputs untouched;
* with an acceptable `out` (buffer `k`): `P` returns **buffer `k` itself**, which then holds `V`
  (the complete result, equal to the result without `out`), and no input was modified;
* with any other `out`: `P` raises the exception `_get_output` raises for it, and neither `out`
  (still `old`) nor any input was written before the raise. -/
def Honours (inputs : List Desc) (arr : Desc) (dt : Option Nat) (P : Option Nat → St → R Nat) (V : Val) : Prop :=
  let k := inputs.length
  ((P none (initSt inputs none)).retVal = some V ∧ intact (P none (initSt inputs none)).st k) ∧
  ∀ o : Desc,
    (Acceptable arr o dt →
      (P (some k) (initSt inputs (some o))).ret = some k ∧
      (P (some k) (initSt inputs (some o))).st.val k = V ∧
      intact (P (some k) (initSt inputs (some o))).st k) ∧
    (¬ Acceptable arr o dt →
      (P (some k) (initSt inputs (some o))).exc.map Decision.reject = some (getOutput arr (some o) dt) ∧
      (P (some k) (initSt inputs (some o))).st.val k = .old ∧
      intact (P (some k) (initSt inputs (some o))).st k)

end Mahotas.C09

namespace Mahotas.C09
open Mahotas

/-- evaluation of a buffer-flow program on a concrete heap by `simp` -/
macro "flow_eval" extra:(Lean.Parser.Tactic.simpLemma),* : tactic => `(tactic|
  simp [openP, closeP, cerodeP, submP, tophatOpenP, tophatCloseP, erodeP, dilateP, kernel1, getOut, initSt,
    gaussPinnedP, gaussPinnedLoop, gauss1dPinnedP, gaussRepairedP, gaussLoop, gauss1dP,
    St.desc, St.val, R.bind, alloc, write, List.zipIdx, R.ret, R.retVal, R.st, R.exc, intact, expectedDtype,
    getOutput_array_contig, $extra,*])

/-- the three cases of `Honours` for a program whose `_get_output` call sees `arr` with dtype argument `dt` -/
macro "honours_tac" arr:term "," dt:term : tactic => `(tactic|
  (refine ⟨?_, fun o => ⟨fun h => ?_, fun h => ?_⟩⟩
   · flow_eval getOutput
   · obtain ⟨h1, h2, h3⟩ := h
     simp only [expectedDtype] at h1
     flow_eval getOutput, h1, h2, h3
   · obtain ⟨r, hr⟩ := getOutput_reject_of_not $arr o $dt h
     flow_eval hr))


/-! ### the Gaussian ping-pong for any number of axes -/

/-! heap lemmas -/
theorem desc_write (b : Nat) (v : Val) (s : St) (i : Nat) : (write b v s).desc i = s.desc i := by
  simp only [write, St.desc, List.getElem?_modify]
  cases h : s.heap[i]? <;> simp
  split <;> rfl

theorem val_write_ne (b : Nat) (v : Val) (s : St) (i : Nat) (h : i ≠ b) : (write b v s).val i = s.val i := by
  simp only [write, St.val, List.getElem?_modify]
  cases h2 : s.heap[i]? <;> simp
  have : ¬ b = i := fun e => h e.symm
  simp [this]

theorem val_write_self (b : Nat) (v : Val) (s : St) (h : b < s.heap.length) : (write b v s).val b = v := by
  simp only [write, St.val, List.getElem?_modify]
  have : s.heap[b]? = some s.heap[b] := List.getElem?_eq_getElem h
  simp [this]

theorem length_write (b : Nat) (v : Val) (s : St) : (write b v s).heap.length = s.heap.length := by
  simp [write, List.length_modify]

/-- `n` Gaussian passes applied to a symbolic content -/
def gaussIter (b : Val) : Nat → Val → Val
  | 0, v => v
  | n + 1, v => gaussIter b n (.ap .gauss1d v b)

/-- two buffers can serve as each other's `out` -/
def Compatible (d e : Desc) : Prop := d.dtype = e.dtype ∧ d.shape = e.shape ∧ d.ccontig = true ∧ e.ccontig = true

theorem getOutput_compatible (d e : Desc) (h : Compatible d e) : getOutput d (some e) none = .useOut := by
  obtain ⟨h1, h2, _, h4⟩ := h
  simp [getOutput, h1, h2, h4]

/-- the alternating part of the ping-pong: `n` passes starting from `x`, writing alternately to `y` and `x` -/
theorem gaussLoop_two (bc : Nat) (n : Nat) : ∀ (x y : Nat) (s : St),
    x < s.heap.length → y < s.heap.length → x ≠ y → bc ≠ x → bc ≠ y → Compatible (s.desc x) (s.desc y) →
    ∃ s', gaussLoop bc n x (some y) s = .ok (if n % 2 = 0 then x else y) s' ∧
      s'.val (if n % 2 = 0 then x else y) = gaussIter (s.val bc) n (s.val x) ∧
      (∀ i, i ≠ x → i ≠ y → s'.val i = s.val i) ∧ (∀ i, s'.desc i = s.desc i) ∧
      s'.heap.length = s.heap.length := by
  induction n with
  | zero =>
    intro x y s _ _ _ _ _ _
    exact ⟨s, by simp [gaussLoop, gaussIter]⟩
  | succ n ih =>
    intro x y s hx hy hxy hbx hby hc
    have hg := getOutput_compatible _ _ hc
    let s1 := write y (.ap .gauss1d (s.val x) (s.val bc)) s
    have hstep : gauss1dP x bc (some y) s = .ok y s1 := by
      simp [gauss1dP, kernel1, getOut, hg, R.bind, s1]
    have hc' : Compatible (s1.desc y) (s1.desc x) := by
      simp only [s1, desc_write]
      obtain ⟨h1, h2, h3, h4⟩ := hc
      exact ⟨h1.symm, h2.symm, h4, h3⟩
    obtain ⟨s', h1, h2, h3, h4, h5⟩ := ih y x s1 (by simpa [s1, length_write] using hy)
      (by simpa [s1, length_write] using hx) (Ne.symm hxy) hby hbx hc'
    have e : (if (n + 1) % 2 = 0 then x else y) = (if n % 2 = 0 then y else x) := by
      rcases Nat.mod_two_eq_zero_or_one n with h | h
      · have : (n + 1) % 2 = 1 := by omega
        simp [h, this]
      · have : (n + 1) % 2 = 0 := by omega
        simp [h, this]
    refine ⟨s', ?_, ?_, ?_, ?_, ?_⟩
    · simp only [gaussLoop, hstep, R.bind, h1, e]
    · rw [e, h2]
      simp only [s1, val_write_ne _ _ _ _ hby, val_write_self _ _ _ hy, gaussIter]
    · intro i hix hiy
      rw [h3 i hiy hix]
      exact val_write_ne _ _ _ _ hiy
    · intro i; rw [h4 i]; exact desc_write _ _ _ _
    · rw [h5]; exact length_write _ _ _

/-! allocation lemmas -/
def allocSt (d : Desc) (v : Val) (s : St) : St :=
  { heap := s.heap ++ [{ desc := { d with ccontig := true }, val := v }] }

theorem alloc_eq (d : Desc) (v : Val) (s : St) : alloc d v s = .ok s.heap.length (allocSt d v s) := rfl

theorem length_allocSt (d : Desc) (v : Val) (s : St) : (allocSt d v s).heap.length = s.heap.length + 1 := by
  simp [allocSt]

theorem val_allocSt_old (d : Desc) (v : Val) (s : St) (i : Nat) (h : i < s.heap.length) :
    (allocSt d v s).val i = s.val i := by
  simp [allocSt, St.val, List.getElem?_append_left h]

theorem desc_allocSt_old (d : Desc) (v : Val) (s : St) (i : Nat) (h : i < s.heap.length) :
    (allocSt d v s).desc i = s.desc i := by
  simp [allocSt, St.desc, List.getElem?_append_left h]

theorem val_allocSt_new (d : Desc) (v : Val) (s : St) : (allocSt d v s).val s.heap.length = v := by
  simp [allocSt, St.val]

theorem desc_allocSt_new (d : Desc) (v : Val) (s : St) :
    (allocSt d v s).desc s.heap.length = { d with ccontig := true } := by
  simp [allocSt, St.desc]

/-- the whole ping-pong after `out` has been resolved to buffer `o` holding the input: `n` passes, the
first into a fresh scratch buffer, then alternating, then the copy back -/
theorem gaussRun (bc n o : Nat) (s : St) (ho : o < s.heap.length) (hb : bc < s.heap.length) (hbo : bc ≠ o)
    (hc : (s.desc o).ccontig = true) :
    ∃ s', ((gaussLoop bc n o none s).bind fun r s => if r ≠ o then .ok o (write o (s.val r) s) else .ok o s) = .ok o s' ∧
      s'.val o = gaussIter (s.val bc) n (s.val o) ∧
      (∀ i, i < s.heap.length → i ≠ o → s'.val i = s.val i) := by
  cases n with
  | zero => exact ⟨s, by simp [gaussLoop, R.bind, gaussIter]⟩
  | succ m =>
    let B := s.heap.length
    let sA := allocSt (s.desc o) .undef s
    let s1 := write B (.ap .gauss1d (sA.val o) (sA.val bc)) sA
    have hBo : B ≠ o := by simp only [B]; omega
    have hBb : bc ≠ B := by simp only [B]; omega
    have hstep : gauss1dP o bc none s = .ok B s1 := by
      simp [gauss1dP, kernel1, getOut, getOutput, R.bind, alloc_eq, s1, sA, B, allocSt]
    have hlen1 : s1.heap.length = s.heap.length + 1 := by simp [s1, length_write, sA, length_allocSt]
    have hcomp : Compatible (s1.desc B) (s1.desc o) := by
      simp only [s1, desc_write, sA, B, desc_allocSt_new, desc_allocSt_old _ _ _ _ ho]
      exact ⟨rfl, rfl, rfl, hc⟩
    obtain ⟨s', h1, h2, h3, _, h5⟩ := gaussLoop_two bc m B o s1 (by rw [hlen1]; simp only [B]; omega) (by rw [hlen1]; omega) hBo hBb hbo hcomp
    have hvB : s1.val B = .ap .gauss1d (s.val o) (s.val bc) := by
      simp only [s1, sA, B]
      rw [val_write_self _ _ _ (by simp [length_allocSt]), val_allocSt_old _ _ _ _ ho, val_allocSt_old _ _ _ _ hb]
    have hvb : s1.val bc = s.val bc := by
      simp only [s1, sA]
      rw [val_write_ne _ _ _ _ hBb, val_allocSt_old _ _ _ _ hb]
    have hold : ∀ i, i < s.heap.length → i ≠ o → s'.val i = s.val i := by
      intro i hi hio
      have hiB : i ≠ B := by simp only [B]; omega
      rw [h3 i hiB hio]
      simp only [s1, sA]
      rw [val_write_ne _ _ _ _ hiB, val_allocSt_old _ _ _ _ hi]
    rcases Nat.mod_two_eq_zero_or_one m with hm | hm
    · -- the last pass landed in the scratch buffer: copy back
      simp only [hm, if_true] at h1 h2
      refine ⟨write o (s'.val B) s', ?_, ?_, ?_⟩
      · simp [gaussLoop, hstep, R.bind, h1, hBo]
      · rw [val_write_self _ _ _ (by rw [h5, hlen1]; omega), h2, hvb, hvB]; rfl
      · intro i hi hio
        rw [val_write_ne _ _ _ _ hio]; exact hold i hi hio
    · simp only [hm] at h1 h2
      refine ⟨s', ?_, ?_, hold⟩
      · simp [gaussLoop, hstep, R.bind, h1]
      · simp only [Nat.one_ne_zero, if_false] at h2
        rw [h2, hvb, hvB]; rfl

/-- the copy-back continuation of `gaussRepairedP` -/
def copyBack (o : Nat) : Nat → St → R Nat :=
  fun r s => if r ≠ o then .ok o (write o (s.val r) s) else .ok o s

theorem flow_gaussian_all (a bc : Desc) (n : Nat) :
    Honours [a, bc] a none (fun out => gaussRepairedP 0 1 out n) (gaussIter (.inp 1) n (.inp 0)) := by
  refine ⟨?_, fun o => ⟨fun h => ?_, fun h => ?_⟩⟩
  · -- without out
    let s0 := initSt [a, bc] none
    let sW := write 2 (.inp 0) (allocSt { dtype := a.dtype, shape := a.shape, ccontig := true } .undef s0)
    have key : gaussRepairedP 0 1 none n s0 = (gaussLoop 1 n 2 none sW).bind (copyBack 2) := rfl
    obtain ⟨s', h1, h2, h3⟩ := gaussRun 1 n 2 sW (by have : sW.heap.length = 3 := rfl; omega) (by have : sW.heap.length = 3 := rfl; omega) (by decide) rfl
    have hv1 : sW.val 1 = .inp 1 := rfl
    have hv2 : sW.val 2 = .inp 0 := rfl
    have hv0 : sW.val 0 = .inp 0 := rfl
    have hl : sW.heap.length = 3 := rfl
    show ((gaussRepairedP 0 1 none n s0).retVal = some _ ∧ intact (gaussRepairedP 0 1 none n s0).st 2)
    rw [key]
    unfold copyBack
    rw [h1]
    refine ⟨?_, ?_⟩
    · simp only [R.retVal, R.ret, R.st, Option.map_some, h2, hv1, hv2]
    · simp only [intact, R.st]
      exact ⟨by rw [h3 1 (by rw [hl]; omega) (by omega), hv1], by rw [h3 0 (by rw [hl]; omega) (by omega), hv0], trivial⟩
  · -- acceptable out: buffer 2
    have hg := (getOutput_useOut_iff a o none).2 h
    let s0 := initSt [a, bc] (some o)
    let sW := write 2 (.inp 0) s0
    have key : gaussRepairedP 0 1 (some 2) n s0 = (gaussLoop 1 n 2 none sW).bind (copyBack 2) := by
      have hd0 : s0.desc 0 = a := rfl
      have hd2 : s0.desc 2 = o := rfl
      unfold gaussRepairedP getOut
      simp only [Option.map_some, hd0, hd2, hg, R.bind]
      rfl
    obtain ⟨s', h1, h2, h3⟩ := gaussRun 1 n 2 sW (by have : sW.heap.length = 3 := rfl; omega) (by have : sW.heap.length = 3 := rfl; omega) (by decide) (by exact h.2.2)
    have hv1 : sW.val 1 = .inp 1 := rfl
    have hv2 : sW.val 2 = .inp 0 := rfl
    have hv0 : sW.val 0 = .inp 0 := rfl
    have hl : sW.heap.length = 3 := rfl
    show ((gaussRepairedP 0 1 (some 2) n s0).ret = some 2 ∧ (gaussRepairedP 0 1 (some 2) n s0).st.val 2 = _ ∧
      intact (gaussRepairedP 0 1 (some 2) n s0).st 2)
    rw [key]
    unfold copyBack
    rw [h1]
    refine ⟨rfl, ?_, ?_⟩
    · simp only [R.st, h2, hv1, hv2]
    · simp only [intact, R.st]
      exact ⟨by rw [h3 1 (by rw [hl]; omega) (by omega), hv1], by rw [h3 0 (by rw [hl]; omega) (by omega), hv0], trivial⟩
  · obtain ⟨r, hr⟩ := getOutput_reject_of_not a o none h
    flow_eval hr

end Mahotas.C09

namespace Mahotas.C09
open Mahotas

/-- every input buffer `< k` except `i` still holds its call-time content -/
def intactBut (s : St) (i : Nat) : Nat → Prop
  | 0 => True
  | k + 1 => (k ≠ i → s.val k = .inp k) ∧ intactBut s i k

/-- **"`out` may be input buffer `i` itself"** for a buffer-flow program `P` over `inputs` whose result without `out`
has the symbolic content `V`: called with `out` = buffer `i` (no separate out buffer on the heap), `P` returns **that
buffer**, it then holds `V` — exactly what the call without `out` returns, computed from the call-time contents of all
inputs, nothing read after it was overwritten (no `undef` inside) — and every other input is intact. -/
def AliasSafe (inputs : List Desc) (i : Nat) (P : Option Nat → St → R Nat) (V : Val) : Prop :=
  (P none (initSt inputs none)).retVal = some V ∧
  (P (some i) (initSt inputs none)).ret = some i ∧
  (P (some i) (initSt inputs none)).st.val i = V ∧
  intactBut (P (some i) (initSt inputs none)).st i inputs.length

/-- evaluation of the round-4 (guarded) programs -/
macro "flowG_eval" extra:(Lean.Parser.Tactic.simpLemma),* : tactic => `(tactic|
  simp [kernel1G, unalias, unaliasOpt, kernelWrite, readWhile, openGP, closeGP, cerodeGP, submGP, tophatCloseGP, tophatOpenGP, inplaceP,
    getOut, initSt, St.desc, St.val, R.bind, alloc, write, List.zipIdx, R.ret, R.retVal, R.st, R.exc, intact, expectedDtype,
    getOutput_array_contig, AliasSafe, intactBut, $extra,*])

macro "honoursG_tac" arr:term "," dt:term : tactic => `(tactic|
  (refine ⟨?_, fun o => ⟨fun h => ?_, fun h => ?_⟩⟩
   · flowG_eval getOutput
   · obtain ⟨h1, h2, h3⟩ := h
     simp only [expectedDtype] at h1
     flowG_eval getOutput, h1, h2, h3
   · obtain ⟨r, hr⟩ := getOutput_reject_of_not $arr o $dt h
     flowG_eval hr))

end Mahotas.C09
