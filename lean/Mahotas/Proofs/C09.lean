/-
C09 — helper definitions and lemmas for the out= convention theorems.
-/
import Mahotas.Model.C09
import Mathlib.Tactic.SplitIfs
namespace Mahotas.C09
open Mahotas

/-- the dtype `_get_output` expects: the `dtype` argument, by default the array's -/
def expectedDtype (a : Desc) (dt : Option Nat) : Nat :=
  match dt with
  | none => a.dtype
  | some d => d

/-- **the convention's notion of a valid buffer**: documented dtype, the array's shape, C-contiguous -/
def Acceptable (a o : Desc) (dt : Option Nat) : Prop :=
  o.dtype = expectedDtype a dt ∧ o.shape = a.shape ∧ o.ccontig = true

instance (a o : Desc) (dt : Option Nat) : Decidable (Acceptable a o dt) := by
  unfold Acceptable; infer_instance

theorem getOutput_useOut_iff (a o : Desc) (dt : Option Nat) :
    getOutput a (some o) dt = .useOut ↔ Acceptable a o dt := by
  unfold getOutput Acceptable expectedDtype
  cases dt <;> simp <;> split_ifs <;> simp_all

theorem getOutput_reject_of_not (a o : Desc) (dt : Option Nat) (h : ¬ Acceptable a o dt) :
    ∃ r, getOutput a (some o) dt = .reject r := by
  unfold getOutput
  unfold Acceptable expectedDtype at h
  cases dt <;> simp at h ⊢ <;> split_ifs <;> simp_all

/-- the reason reported is the first failing test in source order: dtype, then shape, then contiguity -/
theorem getOutput_reason (a o : Desc) (dt : Option Nat) :
    getOutput a (some o) dt =
      (if o.dtype ≠ expectedDtype a dt then .reject .dtype
       else if o.shape ≠ a.shape then .reject .shape
       else if o.ccontig = false then .reject .contig
       else .useOut) := by
  unfold getOutput expectedDtype
  cases dt <;> simp

/-- `_get_output` never looks at the contiguity of `array` -/
theorem getOutput_array_contig (a : Desc) (c : Bool) (out : Option Desc) (dt : Option Nat) :
    getOutput { dtype := a.dtype, shape := a.shape, ccontig := c } out dt = getOutput a out dt := by
  unfold getOutput
  cases out <;> cases dt <;> rfl

/-- the buffer a run returned (`none` when it raised) -/
def R.ret : R Nat → Option Nat
  | .ok b _ => some b
  | .raise _ _ => none

/-- the exception a run raised (`none` when it returned) -/
def R.exc {α} : R α → Option Reject
  | .ok _ _ => none
  | .raise r _ => some r

/-- the heap a run left behind -/
def R.st {α} : R α → St
  | .ok _ s => s
  | .raise _ s => s

/-- the symbolic content of the returned buffer -/
def R.retVal (r : R Nat) : Option Val := r.ret.map r.st.val

/-- the input buffers `0 … k-1` still hold their call-time content -/
def intact (s : St) : Nat → Prop
  | 0 => True
  | k + 1 => s.val k = .inp k ∧ intact s k

/-- what "the wrapper honours the convention" means for a buffer-flow program `P` over the inputs
`inputs` (buffers `0 … k-1`), whose `_get_output` call sees an array of descriptor `arr` and the
dtype argument `dt`, and whose result has the symbolic content `V`:

* without `out`: `P` returns a buffer holding `V`, inputs untouched;
* with an acceptable `out` (buffer `k`): `P` returns **buffer `k` itself**, which then holds `V`
  (the complete result, equal to the result without `out`), and no input was modified;
* with any other `out`: `P` raises the exception `_get_output` raises for it, and neither `out`
  (still `old`) nor any input was written before the raise. -/
def Honours (inputs : List Desc) (arr : Desc) (dt : Option Nat) (P : Option Nat → St → R Nat) (V : Val) : Prop :=
  let k := inputs.length
  ((P none (initSt inputs none)).retVal = some V ∧ intact (P none (initSt inputs none)).st k) ∧
  ∀ o : Desc,
    (Acceptable arr o dt →
      (P (some k) (initSt inputs (some o))).ret = some k ∧
      (P (some k) (initSt inputs (some o))).st.val k = V ∧
      intact (P (some k) (initSt inputs (some o))).st k) ∧
    (¬ Acceptable arr o dt →
      (P (some k) (initSt inputs (some o))).exc.map Decision.reject = some (getOutput arr (some o) dt) ∧
      (P (some k) (initSt inputs (some o))).st.val k = .old ∧
      intact (P (some k) (initSt inputs (some o))).st k)

end Mahotas.C09

namespace Mahotas.C09
open Mahotas

/-- evaluation of a buffer-flow program on a concrete heap by `simp` -/
macro "flow_eval" extra:(Lean.Parser.Tactic.simpLemma),* : tactic => `(tactic|
  simp [openP, closeP, cerodeP, submP, tophatOpenP, tophatCloseP, erodeP, dilateP, kernel1, getOut, initSt,
    gaussPinnedP, gaussPinnedLoop, gauss1dPinnedP, gaussRepairedP, gaussLoop, gauss1dP,
    St.desc, St.val, R.bind, alloc, write, List.zipIdx, R.ret, R.retVal, R.st, R.exc, intact, expectedDtype,
    getOutput_array_contig, $extra,*])

/-- the three cases of `Honours` for a program whose `_get_output` call sees `arr` with dtype argument `dt` -/
macro "honours_tac" arr:term "," dt:term : tactic => `(tactic|
  (refine ⟨?_, fun o => ⟨fun h => ?_, fun h => ?_⟩⟩
   · flow_eval getOutput
   · obtain ⟨h1, h2, h3⟩ := h
     simp only [expectedDtype] at h1
     flow_eval getOutput, h1, h2, h3
   · obtain ⟨r, hr⟩ := getOutput_reject_of_not $arr o $dt h
     flow_eval hr))

end Mahotas.C09
