/-
C10 — helper lemmas: general index arithmetic (ravel/unravel), the `!=` loops, and B1 (filter iterator).
-/
import Mahotas.Model.C10
import Mahotas.Proofs.Border
import Mathlib.Tactic.Ring
import Mathlib.Tactic.Linarith
namespace Mahotas.C10
open Mahotas

/-! ## general index arithmetic -/

theorem shapeSize_pos (s : List Nat) (h : ∀ d ∈ s, 0 < d) : 0 < shapeSize s := by
  induction s with
  | nil => simp [shapeSize]
  | cons d ds ih =>
    simp only [shapeSize]
    exact Nat.mul_pos (h d (by simp)) (ih (fun x hx => h x (by simp [hx])))

theorem inside_length (s : List Nat) (p : List Int) (h : inside s p = true) : p.length = s.length := by
  induction s generalizing p with
  | nil => cases p <;> simp_all [inside]
  | cons d ds ih =>
    cases p with
    | nil => simp [inside] at h
    | cons x xs =>
      simp only [inside, Bool.and_eq_true] at h
      simp [ih xs h.2]

/-- the C-order flat index of a position inside the box is a valid flat index -/
theorem ravelI_lt (s : List Nat) (p : List Int) (h : inside s p = true) :
    ravelI s p < shapeSize s := by
  induction s generalizing p with
  | nil => cases p <;> simp_all [inside, ravelI, shapeSize]
  | cons d ds ih =>
    cases p with
    | nil => simp [inside] at h
    | cons x xs =>
      simp only [inside, Bool.and_eq_true, decide_eq_true_eq] at h
      obtain ⟨⟨h0, h1⟩, h2⟩ := h
      have h3 := ih xs h2
      simp only [ravelI, shapeSize]
      have hx : x.toNat + 1 ≤ d := by omega
      have h4 := Nat.mul_le_mul_right (shapeSize ds) hx
      rw [Nat.add_mul] at h4
      omega

theorem ravelZ_eq (s : List Nat) (p : List Int) (h : inside s p = true) :
    ravelZ s p = (ravelI s p : Int) := by
  induction s generalizing p with
  | nil => cases p <;> simp_all [inside, ravelI, ravelZ]
  | cons d ds ih =>
    cases p with
    | nil => simp [inside] at h
    | cons x xs =>
      simp only [inside, Bool.and_eq_true, decide_eq_true_eq] at h
      obtain ⟨⟨h0, h1⟩, h2⟩ := h
      simp only [ravelI, ravelZ, ih xs h2, Int.natCast_add, Int.natCast_mul]
      rw [Int.toNat_of_nonneg h0]

theorem ravelZ_range (s : List Nat) (p : List Int) (h : inside s p = true) :
    0 ≤ ravelZ s p ∧ ravelZ s p < (shapeSize s : Int) := by
  rw [ravelZ_eq s p h]
  have := ravelI_lt s p h
  omega

theorem unravelI_cons (d : Nat) (ds : List Nat) (i : Nat) :
    unravelI (d :: ds) i = Int.ofNat (i / shapeSize ds) :: unravelI ds (i % shapeSize ds) := by
  simp [unravelI, unravel]

theorem unravelI_length (s : List Nat) (i : Nat) : (unravelI s i).length = s.length := by
  induction s generalizing i with
  | nil => simp [unravelI, unravel]
  | cons d ds ih => rw [unravelI_cons]; simp [ih]

/-- the C-order position of a valid flat index lies inside the box -/
theorem unravelI_inside (s : List Nat) (i : Nat) (h : i < shapeSize s) :
    inside s (unravelI s i) = true := by
  induction s generalizing i with
  | nil => simp [unravelI, unravel, inside]
  | cons d ds ih =>
    rw [unravelI_cons]
    simp only [shapeSize] at h
    have hS : 0 < shapeSize ds := by
      rcases Nat.eq_zero_or_pos (shapeSize ds) with h0 | h0
      · rw [h0] at h; simp at h
      · exact h0
    have h1 : i / shapeSize ds < d := Nat.div_lt_of_lt_mul (by rw [Nat.mul_comm]; exact h)
    have h2 := ih (i % shapeSize ds) (Nat.mod_lt _ hS)
    simp only [inside, Bool.and_eq_true, decide_eq_true_eq]
    refine ⟨⟨?_, ?_⟩, h2⟩
    · exact Int.natCast_nonneg _
    · exact Int.ofNat_lt.mpr h1

theorem mem_allPos (s : List Nat) (p : List Int) (h : p ∈ allPos s) :
    inside s p = true ∧ p.length = s.length := by
  simp only [allPos, List.mem_map, List.mem_range] at h
  obtain ⟨i, hi, rfl⟩ := h
  exact ⟨unravelI_inside s i hi, unravelI_length s i⟩

/-- any strides: the strided address of an inside position is the address of an element
    (trivially itself) — and for a C-contiguous buffer it is a valid flat index. -/
theorem inside_pos_of_dims (s : List Nat) (p : List Int) (h : inside s p = true) :
    ∀ d ∈ s, 0 < d := by
  induction s generalizing p with
  | nil => simp
  | cons d ds ih =>
    cases p with
    | nil => simp [inside] at h
    | cons x xs =>
      simp only [inside, Bool.and_eq_true, decide_eq_true_eq] at h
      intro e he
      simp only [List.mem_cons] at he
      rcases he with rfl | he
      · omega
      · exact ih xs h.2 e he

/-! ## loops -/

theorem mem_rangeI (n v : Int) : v ∈ rangeI n ↔ 0 ≤ v ∧ v < n := by
  simp only [rangeI, List.mem_map, List.mem_range]
  constructor
  · rintro ⟨a, ha, rfl⟩
    simp only [Int.ofNat_eq_natCast]
    omega
  · rintro ⟨h0, h1⟩
    exact ⟨v.toNat, by omega, by simp only [Int.ofNat_eq_natCast]; omega⟩

theorem mem_iterNe (x stop : Int) (f : Nat) (h : x ≤ stop) (v : Int) (hv : v ∈ iterNe x stop f) :
    x ≤ v ∧ v < stop := by
  induction f generalizing x with
  | zero => simp [iterNe] at hv
  | succ f ih =>
    simp only [iterNe] at hv
    split at hv
    · simp at hv
    · simp only [List.mem_cons] at hv
      rcases hv with rfl | hv
      · omega
      · have := ih (x + 1) (by omega) hv
        omega

theorem iterNeDone_of_le (x stop : Int) (f : Nat) (h : x ≤ stop) (hf : stop - x ≤ f) :
    iterNeDone x stop f = true := by
  induction f generalizing x with
  | zero => simp only [iterNeDone, decide_eq_true_eq]; omega
  | succ f ih =>
    simp only [iterNeDone]
    split
    · rfl
    · exact ih (x + 1) (by omega) (by omega)

theorem allOk_iff (l : List Acc) : allOk l = true ↔ ∀ a ∈ l, 0 ≤ a.i ∧ a.i < a.size := by
  simp [allOk, Acc.ok, List.all_eq_true]

/-! ## B1 — filter iterator -/

theorem neighbourIndex_inside (m : Mode) (as fs : List Nat) (p k q : List Int)
    (hpos : ∀ d ∈ as, 0 < d) (hf : fs.length = as.length) (hp : p.length = as.length)
    (hk : k.length = as.length) (h : neighbourIndex m as fs p k = some q) :
    inside as q = true := by
  induction as generalizing fs p k q with
  | nil =>
    cases fs <;> cases p <;> cases k <;> simp_all [neighbourIndex, inside]
  | cons a as ih =>
    cases fs with
    | nil => simp at hf
    | cons f fs =>
    cases p with
    | nil => simp at hp
    | cons x xs =>
    cases k with
    | nil => simp at hk
    | cons y ys =>
      rw [neighbourIndex] at h
      cases h1 : fixOffset m (y - origin f + x) a with
      | none => simp [h1] at h
      | some c =>
        cases h2 : neighbourIndex m as fs xs ys with
        | none => simp [h1, h2] at h
        | some cs =>
          simp only [h1, h2, Option.some.injEq] at h
          subst h
          have ha : 0 < (a : Int) := by
            have := hpos a (by simp); omega
          obtain ⟨r0, r1⟩ := fixOffset_range m _ (a : Int) ha c h1
          have := ih fs xs ys cs (fun d hd => hpos d (by simp [hd])) (by simpa using hf)
            (by simpa using hp) (by simpa using hk) h2
          simp [inside, r0, r1, this]

/-- closed form of the table entry: the flag exactly when some axis is flagged, otherwise the
    difference of the strided addresses of the neighbour and of the position. -/
theorem tableOffset_eq (m : Mode) (as : List Nat) (ss : List Int) (fs : List Nat) (p k : List Int)
    (hs : ss.length = as.length) (hf : fs.length = as.length) (hp : p.length = as.length)
    (hk : k.length = as.length) :
    tableOffset m as ss fs p k = (neighbourIndex m as fs p k).map (fun q => dot ss q - dot ss p) := by
  induction as generalizing ss fs p k with
  | nil =>
    cases ss <;> cases fs <;> cases p <;> cases k <;> simp_all [neighbourIndex, tableOffset, dot]
  | cons a as ih =>
    cases ss with
    | nil => simp at hs
    | cons s ss =>
    cases fs with
    | nil => simp at hf
    | cons f fs =>
    cases p with
    | nil => simp at hp
    | cons x xs =>
    cases k with
    | nil => simp at hk
    | cons y ys =>
      have := ih ss fs xs ys (by simpa using hs) (by simpa using hf) (by simpa using hp)
        (by simpa using hk)
      simp only [neighbourIndex, tableOffset, this]
      cases h1 : fixOffset m (y - origin f + x) a with
      | none => simp
      | some c =>
        cases h2 : neighbourIndex m as fs xs ys with
        | none => simp
        | some cs =>
          simp only [Option.map_some, dot, Option.some.injEq]
          ring

theorem filterReads_inside (m : Mode) (shape fshape : List Nat) (hpos : ∀ d ∈ shape, 0 < d)
    (hf : fshape.length = shape.length) (q : List Int)
    (h : some q ∈ filterReads m shape fshape) : inside shape q = true := by
  simp only [filterReads, List.mem_flatMap, List.mem_map] at h
  obtain ⟨p, hp, k, hk, e⟩ := h
  exact neighbourIndex_inside m shape fshape p k q hpos hf (mem_allPos _ _ hp).2
    (by rw [(mem_allPos _ _ hk).2, hf]) e

end Mahotas.C10
