/-
C10 (round 4) — helper lemmas for `Model/C10Alloc.lean`.
-/
import Mahotas.Model.C10Alloc
namespace Mahotas.C10Alloc
open Mahotas

end Mahotas.C10Alloc
