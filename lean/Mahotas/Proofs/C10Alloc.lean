/-
C10 (round 4) — helper lemmas for `Model/C10Alloc.lean`: membership characterisations of the write lists.
-/
import Mahotas.Model.C10Alloc
import Mahotas.Generated.Guards
import Mathlib.Tactic.Linarith
import Mathlib.Tactic.Ring
namespace Mahotas.C10Alloc
open Mahotas

theorem within_iff (n : Nat) (ws : List Int) : within n ws = true ↔ ∀ i ∈ ws, 0 ≤ i ∧ i < (n : Int) := by
  simp [within]

theorem covers_iff (n : Nat) (ws : List Int) : covers n ws = true ↔ ∀ i : Nat, i < n → (i : Int) ∈ ws := by
  simp [covers]

theorem readsDefined_iff (ws rs : List Int) : readsDefined ws rs = true ↔ ∀ i ∈ rs, i ∈ ws := by
  simp [readsDefined]

theorem mem_fillWrites (n : Nat) (i : Int) : i ∈ fillWrites n ↔ 0 ≤ i ∧ i < (n : Int) := by
  simp only [fillWrites, List.mem_map, List.mem_range, Int.ofNat_eq_natCast]
  constructor
  · rintro ⟨a, ha, rfl⟩; omega
  · rintro ⟨h0, h1⟩; exact ⟨i.toNat, by omega, by omega⟩

theorem mem_pixelGo (k : Nat) (r i : Int) : i ∈ pixelGo k r ↔ r ≤ i ∧ i < r + k := by
  induction k generalizing r with
  | zero => simp [pixelGo]
  | succ k ih =>
    simp only [pixelGo, List.mem_cons, ih]
    push_cast; omega

theorem mem_pixelWrites (n : Nat) (i : Int) : i ∈ pixelWrites n ↔ 0 ≤ i ∧ i < (n : Int) := by
  simp [pixelWrites, mem_pixelGo]

theorem mem_pairsGo (k : Nat) (o i : Int) : i ∈ pairsGo k o ↔ o ≤ i ∧ i < o + 2 * k := by
  induction k generalizing o with
  | zero => simp [pairsGo]
  | succ k ih =>
    simp only [pairsGo, List.mem_cons, ih]
    push_cast; omega

theorem mem_grid (n0 n1 : Nat) (i : Int) :
    (i ∈ (List.range n0).flatMap fun y => (List.range n1).map fun x => Int.ofNat y * Int.ofNat n1 + Int.ofNat x) ↔
      ∃ y x : Nat, y < n0 ∧ x < n1 ∧ i = (y : Int) * n1 + x := by
  simp only [List.mem_flatMap, List.mem_map, List.mem_range, Int.ofNat_eq_natCast]
  constructor
  · rintro ⟨y, hy, x, hx, rfl⟩; exact ⟨y, x, hy, hx, rfl⟩
  · rintro ⟨y, x, hy, hx, rfl⟩; exact ⟨y, hy, x, hx, rfl⟩

theorem grid_lt (n0 n1 y x : Nat) (hy : y < n0) (hx : x < n1) : (y : Int) * n1 + x < ((n0 * n1 : Nat) : Int) := by
  have h : (y + 1) * n1 ≤ n0 * n1 := Nat.mul_le_mul_right n1 hy
  have h2 : y * n1 + x < n0 * n1 := by
    calc y * n1 + x < y * n1 + n1 := by omega
      _ = (y + 1) * n1 := by ring
      _ ≤ n0 * n1 := h
  exact_mod_cast h2

theorem grid_within (n0 n1 : Nat) :
    ∀ i ∈ ((List.range n0).flatMap fun y => (List.range n1).map fun x => Int.ofNat y * Int.ofNat n1 + Int.ofNat x),
      0 ≤ i ∧ i < ((n0 * n1 : Nat) : Int) := by
  intro i hi
  obtain ⟨y, x, hy, hx, rfl⟩ := (mem_grid n0 n1 i).mp hi
  exact ⟨by positivity, grid_lt n0 n1 y x hy hx⟩

theorem grid_covers (n0 n1 : Nat) (i : Nat) (h : i < n0 * n1) :
    (i : Int) ∈ ((List.range n0).flatMap fun y => (List.range n1).map fun x => Int.ofNat y * Int.ofNat n1 + Int.ofNat x) := by
  rw [mem_grid]
  have h1 : 0 < n1 := by
    rcases Nat.eq_zero_or_pos n1 with h0 | h0
    · subst h0; simp at h
    · exact h0
  refine ⟨i / n1, i % n1, ?_, Nat.mod_lt _ h1, ?_⟩
  · exact (Nat.div_lt_iff_lt_mul h1).mpr h
  · have := Nat.div_add_mod i n1
    have h2 : i = (i / n1) * n1 + i % n1 := by rw [Nat.mul_comm]; omega
    exact_mod_cast h2

theorem mem_bboxInit (nd : Nat) (i : Int) :
    i ∈ bboxInitWrites nd ↔ ∃ j : Nat, j < nd ∧ (i = 2 * (j : Int) ∨ i = 2 * (j : Int) + 1) := by
  simp [bboxInitWrites]

theorem mem_complexHalves (n : Nat) (i : Int) :
    i ∈ complexHalvesWrites n ↔ ∃ j : Nat, j < n ∧ (i = 2 * (j : Int) ∨ i = 2 * (j : Int) + 1) := by
  simp only [complexHalvesWrites, List.mem_append, List.mem_map, List.mem_range, Int.ofNat_eq_natCast]
  constructor
  · rintro (⟨j, hj, rfl⟩ | ⟨j, hj, rfl⟩)
    · exact ⟨j, hj, Or.inl rfl⟩
    · exact ⟨j, hj, Or.inr rfl⟩
  · rintro ⟨j, hj, rfl | rfl⟩
    · exact Or.inl ⟨j, hj, rfl⟩
    · exact Or.inr ⟨j, hj, rfl⟩

theorem mem_compressGo (mask : List Bool) (j i : Int) :
    i ∈ compressGo mask j ↔ j ≤ i ∧ i < j + (mask.filter id).length := by
  induction mask generalizing j with
  | nil => simp [compressGo]
  | cons b ms ih =>
    cases b
    · simp [compressGo, ih]
    · simp only [compressGo, List.mem_cons, ih, List.filter_cons_of_pos, id_eq, List.length_cons]
      push_cast; omega

theorem mem_gmIndices (n l i : Int) : i ∈ gmIndices n l ↔ 0 ≤ i ∧ i < gmSize n l := by
  simp only [gmIndices, gmSize, List.mem_map, List.mem_range, Int.ofNat_eq_natCast]
  constructor
  · rintro ⟨a, ha, rfl⟩; omega
  · rintro ⟨h0, h1⟩; exact ⟨i.toNat, by omega, by omega⟩

end Mahotas.C10Alloc
