/-
C10 (round 4) — helper lemmas for `Model/C10Alloc.lean`: membership characterisations of the write lists.
-/
import Mahotas.Model.C10Alloc
import Mahotas.Generated.Guards
import Mathlib.Tactic.Linarith
import Mathlib.Tactic.Ring
namespace Mahotas.C10Alloc
open Mahotas

theorem within_iff (n : Nat) (ws : List Int) : within n ws = true ↔ ∀ i ∈ ws, 0 ≤ i ∧ i < (n : Int) := by
  simp [within]

theorem covers_iff (n : Nat) (ws : List Int) : covers n ws = true ↔ ∀ i : Nat, i < n → (i : Int) ∈ ws := by
  simp [covers]

theorem readsDefined_iff (ws rs : List Int) : readsDefined ws rs = true ↔ ∀ i ∈ rs, i ∈ ws := by
  simp [readsDefined]

theorem mem_fillWrites (n : Nat) (i : Int) : i ∈ fillWrites n ↔ 0 ≤ i ∧ i < (n : Int) := by
  simp only [fillWrites, List.mem_map, List.mem_range, Int.ofNat_eq_natCast]
  constructor
  · rintro ⟨a, ha, rfl⟩; omega
  · rintro ⟨h0, h1⟩; exact ⟨i.toNat, by omega, by omega⟩

theorem mem_pixelGo (k : Nat) (r i : Int) : i ∈ pixelGo k r ↔ r ≤ i ∧ i < r + k := by
  induction k generalizing r with
  | zero => simp [pixelGo]
  | succ k ih =>
    simp only [pixelGo, List.mem_cons, ih]
    push_cast; omega

theorem mem_pixelWrites (n : Nat) (i : Int) : i ∈ pixelWrites n ↔ 0 ≤ i ∧ i < (n : Int) := by
  simp [pixelWrites, mem_pixelGo]

theorem mem_pairsGo (k : Nat) (o i : Int) : i ∈ pairsGo k o ↔ o ≤ i ∧ i < o + 2 * k := by
  induction k generalizing o with
  | zero => simp [pairsGo]
  | succ k ih =>
    simp only [pairsGo, List.mem_cons, ih]
    push_cast; omega

theorem mem_grid (n0 n1 : Nat) (i : Int) :
    (i ∈ (List.range n0).flatMap fun y => (List.range n1).map fun x => Int.ofNat y * Int.ofNat n1 + Int.ofNat x) ↔
      ∃ y x : Nat, y < n0 ∧ x < n1 ∧ i = (y : Int) * n1 + x := by
  simp only [List.mem_flatMap, List.mem_map, List.mem_range, Int.ofNat_eq_natCast]
  constructor
  · rintro ⟨y, hy, x, hx, rfl⟩; exact ⟨y, x, hy, hx, rfl⟩
  · rintro ⟨y, x, hy, hx, rfl⟩; exact ⟨y, hy, x, hx, rfl⟩

theorem grid_lt (n0 n1 y x : Nat) (hy : y < n0) (hx : x < n1) : (y : Int) * n1 + x < ((n0 * n1 : Nat) : Int) := by
  have h : (y + 1) * n1 ≤ n0 * n1 := Nat.mul_le_mul_right n1 hy
  have h2 : y * n1 + x < n0 * n1 := by
    calc y * n1 + x < y * n1 + n1 := by omega
      _ = (y + 1) * n1 := by ring
      _ ≤ n0 * n1 := h
  exact_mod_cast h2

theorem grid_within (n0 n1 : Nat) :
    ∀ i ∈ ((List.range n0).flatMap fun y => (List.range n1).map fun x => Int.ofNat y * Int.ofNat n1 + Int.ofNat x),
      0 ≤ i ∧ i < ((n0 * n1 : Nat) : Int) := by
  intro i hi
  obtain ⟨y, x, hy, hx, rfl⟩ := (mem_grid n0 n1 i).mp hi
  exact ⟨by positivity, grid_lt n0 n1 y x hy hx⟩

theorem grid_covers (n0 n1 : Nat) (i : Nat) (h : i < n0 * n1) :
    (i : Int) ∈ ((List.range n0).flatMap fun y => (List.range n1).map fun x => Int.ofNat y * Int.ofNat n1 + Int.ofNat x) := by
  rw [mem_grid]
  have h1 : 0 < n1 := by
    rcases Nat.eq_zero_or_pos n1 with h0 | h0
    · subst h0; simp at h
    · exact h0
  refine ⟨i / n1, i % n1, ?_, Nat.mod_lt _ h1, ?_⟩
  · exact (Nat.div_lt_iff_lt_mul h1).mpr h
  · have := Nat.div_add_mod i n1
    have h2 : i = (i / n1) * n1 + i % n1 := by rw [Nat.mul_comm]; omega
    exact_mod_cast h2

theorem mem_bboxInit (nd : Nat) (i : Int) :
    i ∈ bboxInitWrites nd ↔ ∃ j : Nat, j < nd ∧ (i = 2 * (j : Int) ∨ i = 2 * (j : Int) + 1) := by
  simp [bboxInitWrites]

theorem mem_complexHalves (n : Nat) (i : Int) :
    i ∈ complexHalvesWrites n ↔ ∃ j : Nat, j < n ∧ (i = 2 * (j : Int) ∨ i = 2 * (j : Int) + 1) := by
  simp only [complexHalvesWrites, List.mem_append, List.mem_map, List.mem_range, Int.ofNat_eq_natCast]
  constructor
  · rintro (⟨j, hj, rfl⟩ | ⟨j, hj, rfl⟩)
    · exact ⟨j, hj, Or.inl rfl⟩
    · exact ⟨j, hj, Or.inr rfl⟩
  · rintro ⟨j, hj, rfl | rfl⟩
    · exact Or.inl ⟨j, hj, rfl⟩
    · exact Or.inr ⟨j, hj, rfl⟩

theorem mem_compressGo (mask : List Bool) (j i : Int) :
    i ∈ compressGo mask j ↔ j ≤ i ∧ i < j + (mask.filter id).length := by
  induction mask generalizing j with
  | nil => simp [compressGo]
  | cons b ms ih =>
    cases b
    · simp [compressGo, ih]
    · simp only [compressGo, List.mem_cons, ih, List.filter_cons_of_pos, id_eq, List.length_cons]
      push_cast; omega

theorem mem_gmIndices (n l i : Int) : i ∈ gmIndices n l ↔ 0 ≤ i ∧ i < gmSize n l := by
  simp only [gmIndices, gmSize, List.mem_map, List.mem_range, Int.ofNat_eq_natCast]
  constructor
  · rintro ⟨a, ha, rfl⟩; omega
  · rintro ⟨h0, h1⟩; exact ⟨i.toNat, by omega, by omega⟩

/-! ## `dist_transform`: every read of the scratch arrays `v`, `z` hits a stored cell -/

def DOk (l : List DRead) : Prop := ∀ r ∈ l, r.idx < r.stored

theorem dOk_iff (l : List DRead) : l.all DRead.ok = true ↔ DOk l := by
  simp [DOk, DRead.ok]

theorem DOk.append {a b : List DRead} (ha : DOk a) (hb : DOk b) : DOk (a ++ b) := by
  intro r hr
  rcases List.mem_append.mp hr with h | h
  · exact ha r h
  · exact hb r h

theorem dtPopD_ok (cmp : Nat → Nat → Bool) (q W : Nat) (hcmp : cmp q 0 = true) : ∀ k, k < W →
    DOk (dtPopD cmp q W k).1 ∧ ∃ kb, (dtPopD cmp q W k).2 = some kb ∧ kb ≤ k := by
  intro k
  induction k with
  | zero =>
    intro hk
    simp only [dtPopD, hcmp, if_true]
    refine ⟨?_, 0, rfl, Nat.le_refl _⟩
    intro r hr
    simp only [List.mem_cons, List.mem_nil_iff, or_false] at hr
    rcases hr with rfl | rfl <;> simp only <;> omega
  | succ k ih =>
    intro hk
    simp only [dtPopD]
    split
    · refine ⟨?_, k + 1, rfl, Nat.le_refl _⟩
      intro r hr
      simp only [List.mem_cons, List.mem_nil_iff, or_false] at hr
      rcases hr with rfl | rfl <;> simp only <;> omega
    · obtain ⟨h1, kb, h2, h3⟩ := ih (by omega)
      refine ⟨?_, kb, h2, by omega⟩
      intro r hr
      simp only [List.mem_cons] at hr
      rcases hr with rfl | rfl | hr
      · simp only; omega
      · simp only; omega
      · exact h1 r hr

theorem dtFirstD_ok (cmp : Nat → Nat → Bool) (hcmp : ∀ q, cmp q 0 = true) : ∀ (c q k W : Nat), k < W →
    DOk (dtFirstD cmp c q k W).1 ∧ ∃ k' W', (dtFirstD cmp c q k W).2 = some (k', W') ∧ k' < W' := by
  intro c
  induction c with
  | zero => intro q k W h; exact ⟨by intro r hr; simp [dtFirstD] at hr, k, W, rfl, h⟩
  | succ c ih =>
    intro q k W h
    obtain ⟨h1, kb, h2, h3⟩ := dtPopD_ok cmp q W (hcmp q) k h
    simp only [dtFirstD]
    have e : dtPopD cmp q W k = ((dtPopD cmp q W k).1, some kb) := by rw [← h2]
    rw [e]
    simp only
    obtain ⟨g1, k', W', g2, g3⟩ := ih (q + 1) (kb + 1) (max W (kb + 2)) (by omega)
    exact ⟨h1.append g1, k', W', g2, g3⟩

theorem dtAdvanceD_ok (lt2 : Nat → Nat → Bool) (q W kfin : Nat) (hW : kfin < W) (hlt : lt2 q kfin = false) :
    ∀ (f k : Nat), k ≤ kfin → DOk (dtAdvanceD lt2 q W f k).1 ∧ (dtAdvanceD lt2 q W f k).2 ≤ kfin := by
  intro f
  induction f with
  | zero => intro k hk; exact ⟨by intro r hr; simp [dtAdvanceD] at hr, hk⟩
  | succ f ih =>
    intro k hk
    simp only [dtAdvanceD]
    split
    · rename_i hl
      have hne : k ≠ kfin := by intro e; rw [e, hlt] at hl; cases hl
      obtain ⟨h1, h2⟩ := ih (k + 1) (by omega)
      refine ⟨?_, h2⟩
      intro r hr
      simp only [List.mem_cons] at hr
      rcases hr with rfl | hr
      · simp only; omega
      · exact h1 r hr
    · refine ⟨?_, hk⟩
      intro r hr
      simp only [List.mem_cons, List.mem_nil_iff, or_false] at hr
      rcases hr with rfl | rfl <;> simp only <;> omega

theorem dtSecondD_ok (lt2 : Nat → Nat → Bool) (n W kfin : Nat) (hW : kfin < W) (hlt : ∀ q, lt2 q kfin = false) :
    ∀ (c q k : Nat), k ≤ kfin → DOk (dtSecondD lt2 n W c q k) := by
  intro c
  induction c with
  | zero => intro q k _ r hr; simp [dtSecondD] at hr
  | succ c ih =>
    intro q k hk
    simp only [dtSecondD]
    obtain ⟨h1, h2⟩ := dtAdvanceD_ok lt2 q W kfin hW (hlt q) (n + 2) k hk
    exact h1.append (ih (q + 1) _ h2)

/-- the `k` the first loop ends with (`z[k+1] = inf` is the sentinel of the second loop) -/
def dtKfin (cmp : Nat → Nat → Bool) (n : Nat) : Nat :=
  match (dtFirstD cmp (n - 1) 1 0 1).2 with
  | some (k, _) => k
  | none => 0

theorem dtScratchReads_ok (cmp lt2 : Nat → Nat → Bool) (n : Nat) (hcmp : ∀ q, cmp q 0 = true)
    (hlt : ∀ q, lt2 q (dtKfin cmp n) = false) :
    DOk (dtScratchReads cmp lt2 n).1 ∧ (dtScratchReads cmp lt2 n).2.isSome = true := by
  obtain ⟨h1, k', W', h2, h3⟩ := dtFirstD_ok cmp hcmp (n - 1) 1 0 1 (by omega)
  have hk : dtKfin cmp n = k' := by simp only [dtKfin, h2]
  rw [hk] at hlt
  have e : dtFirstD cmp (n - 1) 1 0 1 = ((dtFirstD cmp (n - 1) 1 0 1).1, some (k', W')) := by rw [← h2]
  simp only [dtScratchReads]
  rw [e]
  simp only
  exact ⟨h1.append (dtSecondD_ok lt2 n W' k' h3 hlt n 0 0 (Nat.zero_le _)), rfl⟩

end Mahotas.C10Alloc
