/-
C10 (round 4) — helper lemmas for `Model/C10Conv.lean`.
-/
import Mahotas.Model.C10Conv
namespace Mahotas.C10Conv
open Mahotas

end Mahotas.C10Conv
