/-
C10 (round 4) — helper lemmas for `Model/C10Conv.lean`.
-/
import Mahotas.Model.C10Conv
import Mathlib.Tactic.Linarith
namespace Mahotas.C10Conv
open Mahotas

theorem allOk_iff (l : List CAcc) : allOk l = true ↔ ∀ a ∈ l, 0 ≤ a.i ∧ a.i < a.size := by
  simp [allOk, CAcc.ok]

/-- the stores of one pixel are `n, n+1, …, final-1`; at most one per neighbour; exactly one per neighbour in constant mode -/
theorem rankStores_spec (c : Bool) (rs : List Bool) (n : Int) :
    n ≤ (rankStores c rs n).2 ∧ (rankStores c rs n).2 ≤ n + rs.length ∧
      (∀ i ∈ (rankStores c rs n).1, n ≤ i ∧ i < (rankStores c rs n).2) ∧
      (c = true → (rankStores c rs n).2 = n + rs.length) := by
  induction rs generalizing n with
  | nil => simp [rankStores]
  | cons r rs ih =>
    simp only [rankStores]
    split
    · obtain ⟨h1, h2, h3, h4⟩ := ih (n + 1)
      simp only [List.length_cons, List.mem_cons]
      refine ⟨by omega, by push_cast; omega, ?_, fun hc => by push_cast; have := h4 hc; omega⟩
      rintro i (rfl | hi)
      · omega
      · have := h3 i hi; omega
    · rename_i hr
      obtain ⟨h1, h2, h3, h4⟩ := ih n
      simp only [List.length_cons]
      refine ⟨h1, by push_cast; omega, h3, fun hc => ?_⟩
      simp [hc] at hr

theorem curRank_spec (n2 n rank : Int) (hr0 : 0 ≤ rank) (hr : rank < n2) (hn0 : 0 ≤ n) (hn : n ≤ n2) :
    0 ≤ curRank n2 n rank ∧ curRank n2 n rank ≤ n ∧ curRank n2 n rank < n2 ∧ (0 < n → curRank n2 n rank < n) := by
  unfold curRank
  split
  · rename_i hne
    have hpos : 0 < n2 := by omega
    have hnn : 0 ≤ n * rank := Int.mul_nonneg hn0 hr0
    rw [Int.tdiv_eq_ediv_of_nonneg hnn]
    have h1 : 0 ≤ n * rank / n2 := Int.ediv_nonneg hnn (by omega)
    have h2 : n * rank / n2 ≤ n := by
      apply Int.ediv_le_of_le_mul hpos
      nlinarith
    refine ⟨h1, h2, by omega, fun hp => ?_⟩
    apply Int.ediv_lt_of_lt_mul hpos
    nlinarith
  · rename_i he
    have he : n = n2 := by omega
    subst he
    exact ⟨hr0, by omega, hr, fun _ => hr⟩

end Mahotas.C10Conv
