/-
C10 — B4, `cwatershed`: every neighbour access that passes the margin test is inside the image
(from the margin / flat-delta theorems of `Properties/C04.lean`).
-/
import Mahotas.Properties.C04
import Mahotas.Proofs.C10Tables
namespace Mahotas.C10
open Mahotas

theorem cw_npos_range (s : List Nat) (i : Nat) (m : Int) (o : List Int) (nm m' : Int)
    (hi : i < shapeSize s) (ho : o.length = s.length) (hm : m ≤ C04.marginOf s (unravelI s i))
    (h : C04.nbCheck s i m ⟨C04.posToFlat s o, C04.chebStep o, o⟩ = some (nm, m')) :
    (0 ≤ (i : Int) + C04.posToFlat s o ∧ (i : Int) + C04.posToFlat s o < (shapeSize s : Int)) ∧
    nm ≤ C04.marginOf s (addPos (unravelI s i) o) ∧ m ≤ m' ∧ m' ≤ C04.marginOf s (unravelI s i) := by
  have hs := C04_margin_check_sound s i m o (C04.posToFlat s o) hi ho hm
  rw [h] at hs
  obtain ⟨hin, h1, h2, h3⟩ := hs
  obtain ⟨hp, hr⟩ := C04.unravelI_inside s i hi
  have hd := (C04_delta_sound s (unravelI s i) o hp hin).1
  rw [hr] at hd
  have hlt := C04.ravelI_lt s _ hin
  refine ⟨?_, h1, h2, h3⟩
  omega

theorem cwAccesses_ok (shape : List Nat) (offs : List (List Int))
    (ho : ∀ o ∈ offs, o.length = shape.length) : ∀ a ∈ cwAccesses shape offs, AccOk a := by
  intro a ha
  unfold AccOk
  simp only [cwAccesses, List.mem_flatMap, List.mem_range] at ha
  obtain ⟨i, hi, o, hoo, hm⟩ := ha
  cases hc : C04.nbCheck shape i (C04.marginOf shape (unravelI shape i))
      ⟨C04.posToFlat shape o, C04.chebStep o, o⟩ with
  | none => simp [hc] at hm
  | some r =>
    simp only [hc, List.mem_cons, List.not_mem_nil, or_false] at hm
    subst hm
    exact (cw_npos_range shape i _ o r.1 r.2 hi (ho o hoo) (Int.le_refl _) hc).1

end Mahotas.C10
