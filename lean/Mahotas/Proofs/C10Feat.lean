/-
C10 (round 4) — helper lemmas for `Model/C10Feat.lean`.
-/
import Mahotas.Model.C10Feat
import Mathlib.Tactic.Linarith
import Mathlib.Tactic.Ring
namespace Mahotas.C10Feat
open Mahotas

def FOk (a : FAcc) : Prop := 0 ≤ a.i ∧ a.i < a.size

theorem allOk_iff (l : List FAcc) : allOk l = true ↔ ∀ a ∈ l, FOk a := by
  simp [allOk, FAcc.ok, FOk]

theorem allOk_append (l₁ l₂ : List FAcc) : allOk (l₁ ++ l₂) = true ↔ allOk l₁ = true ∧ allOk l₂ = true := by
  simp [allOk, List.all_append]

theorem allOk_cons (a : FAcc) (l : List FAcc) : allOk (a :: l) = true ↔ FOk a ∧ allOk l = true := by
  simp [allOk, FAcc.ok, FOk]

/-! ## otsu -/

theorem otsuLoop_ok (n : Int) (nbz noz better : Nat → Bool) (k t best : Nat)
    (ht : 1 ≤ t) (hk : (t : Int) + k = n) (hb : (best : Int) < n) :
    allOk (otsuLoop n nbz noz better k t best).1 = true ∧ ((otsuLoop n nbz noz better k t best).2 : Int) < n := by
  induction k generalizing t best with
  | zero => simp [otsuLoop, allOk, hb]
  | succ k ih =>
    have hT : (0 : Int) ≤ (t : Int) - 1 ∧ (t : Int) < n := by omega
    simp only [otsuLoop, Int.ofNat_eq_natCast]
    split
    · obtain ⟨h1, h2⟩ := ih (t + 1) best (by omega) (by push_cast; omega) hb
      exact ⟨(allOk_cons _ _).mpr ⟨⟨by simp only; omega, by simp only; omega⟩, h1⟩, h2⟩
    · split
      · refine ⟨?_, hb⟩
        rw [allOk_iff]; intro a ha
        simp only [List.mem_cons, List.mem_nil_iff, or_false] at ha
        rcases ha with rfl | rfl <;> exact ⟨by simp only; omega, by simp only; omega⟩
      · have hb' : (((if better t then t else best : Nat)) : Int) < n := by split <;> omega
        obtain ⟨h1, h2⟩ := ih (t + 1) (if better t then t else best) (by omega) (by push_cast; omega) hb'
        refine ⟨?_, h2⟩
        rw [allOk_append]
        refine ⟨?_, h1⟩
        rw [allOk_iff]; intro a ha
        simp only [List.mem_cons, List.mem_nil_iff, or_false] at ha
        rcases ha with rfl | rfl | rfl | rfl | rfl | rfl | rfl | rfl | rfl | rfl <;>
          exact ⟨by simp only; omega, by simp only; omega⟩

theorem otsuRun_ok (n : Int) (hz : Bool) (nbz noz better : Nat → Bool) :
    allOk (otsuRun n hz nbz noz better).1 = true ∧
      (n ≤ 1 → (otsuRun n hz nbz noz better).2 = 0) ∧ (2 ≤ n → ((otsuRun n hz nbz noz better).2 : Int) < n) := by
  unfold otsuRun
  split
  · rename_i hn
    exact ⟨by simp [allOk], fun _ => rfl, fun h => by omega⟩
  · rename_i hn
    have hn : 2 ≤ n := by omega
    have haccum : allOk ((List.range (n - 1).toNat).map fun i => FAcc.mk (Int.ofNat i + 1) n) = true := by
      rw [allOk_iff]; intro a ha
      simp only [List.mem_map, List.mem_range, Int.ofNat_eq_natCast] at ha
      obtain ⟨i, hi, rfl⟩ := ha
      exact ⟨by simp only; omega, by simp only; omega⟩
    split
    · exact ⟨haccum, fun _ => rfl, fun _ => by simp only; omega⟩
    · obtain ⟨h1, h2⟩ := otsuLoop_ok n nbz noz better (n - 1).toNat 1 0 (by omega) (by push_cast; omega) (by omega)
      dsimp only
      refine ⟨?_, fun h => by omega, fun _ => h2⟩
      simp only [allOk_append]
      refine ⟨⟨⟨⟨⟨haccum, ?_, ?_⟩, ?_⟩, haccum⟩, ?_⟩, h1⟩
      · rw [allOk_iff]; intro a ha
        simp only [List.mem_cons, List.mem_nil_iff, or_false] at ha
        rcases ha with rfl | rfl <;> exact ⟨by simp only; omega, by simp only; omega⟩
      · rw [allOk_iff]; intro a ha
        simp only [List.mem_cons, List.mem_nil_iff, or_false, List.mem_flatMap, List.mem_range,
          Int.ofNat_eq_natCast] at ha
        obtain ⟨i, hi, rfl | rfl | rfl⟩ := ha <;> exact ⟨by simp only; omega, by simp only; omega⟩
      · rw [allOk_iff]; intro a ha
        simp only [List.mem_cons, List.mem_nil_iff, or_false, List.mem_flatMap, List.mem_range,
          Int.ofNat_eq_natCast] at ha
        obtain ⟨i, hi, rfl | rfl | rfl⟩ := ha <;> exact ⟨by simp only; omega, by simp only; omega⟩
      · rw [allOk_iff]; intro a ha
        simp only [List.mem_cons, List.mem_nil_iff, or_false] at ha
        rcases ha with rfl | rfl <;> exact ⟨by simp only; omega, by simp only; omega⟩

/-! ## fact / znl -/

theorem factRun_nonneg (fuel : Nat) (k : Int) (h0 : 0 ≤ k) (hf : k < fuel) :
    ∃ r, factRun fuel k = some r ∧ FOk r.1 ∧ (r.2 : Int) = max 0 (k - (factTableLen - 1)) := by
  have hlen : factTableLen = 13 := by decide
  induction fuel generalizing k with
  | zero => omega
  | succ f ih =>
    simp only [factRun]
    split
    · rename_i hk
      exact ⟨_, rfl, ⟨by simp only; omega, by simp only; omega⟩, by simp only; omega⟩
    · rename_i hk
      have hk13 : 13 ≤ k := by omega
      obtain ⟨r, hr, hok, hd⟩ := ih (k - 1) (by omega) (by push_cast at hf; omega)
      exact ⟨(r.1, r.2 + 1), by simp [hr], hok, by simp only; push_cast; omega⟩

/-- a negative argument never reaches the table: no fuel suffices (in C: recursion until the stack is exhausted) -/
theorem factRun_neg (fuel : Nat) (k : Int) (hk : k < 0) : factRun fuel k = none := by
  induction fuel generalizing k with
  | zero => rfl
  | succ f ih =>
    simp only [factRun]
    rw [if_neg (by omega), ih (k - 1) (by omega)]
    rfl

theorem znlFactArgs_nonneg (n l m : Int) (hl0 : 0 ≤ l) (hln : l ≤ n) (hm0 : 0 ≤ m) (hm : m ≤ Int.tdiv (n - l) 2) :
    ∀ x ∈ znlFactArgs n l m, 0 ≤ x ∧ x ≤ n := by
  intro x hx
  simp only [znlFactArgs, List.mem_cons, List.mem_nil_iff, or_false] at hx
  rw [Int.tdiv_eq_ediv_of_nonneg (by omega)] at hm
  have h2 : 2 * m ≤ n - l := by omega
  rcases hx with rfl | rfl | rfl | rfl
  · omega
  · omega
  · rw [Int.tdiv_eq_ediv_of_nonneg (by omega)]; omega
  · rw [Int.tdiv_eq_ediv_of_nonneg (by omega)]; omega

theorem znlRun_ok (fuel : Nat) (n l : Int) (nd na np : Nat) (hl0 : 0 ≤ l) (hln : l ≤ n) (hn : n < fuel)
    (ha : nd ≤ na) (hp : nd ≤ np) :
    allOk (znlRun fuel n l nd na np).1 = true ∧ (znlRun fuel n l nd na np).2 = true := by
  simp only [znlRun]
  have hms : ∀ m ∈ (List.range (Int.tdiv (n - l) 2 + 1).toNat).map Int.ofNat, 0 ≤ m ∧ m < Int.tdiv (n - l) 2 + 1 := by
    intro m hm
    simp only [List.mem_map, List.mem_range, Int.ofNat_eq_natCast] at hm
    obtain ⟨i, hi, rfl⟩ := hm
    omega
  have hfacts : ∀ r ∈ ((List.range (Int.tdiv (n - l) 2 + 1).toNat).map Int.ofNat).flatMap
      (fun m => (znlFactArgs n l m).map (factRun fuel)), ∃ q, r = some q ∧ FOk q.1 := by
    intro r hr
    simp only [List.mem_flatMap, List.mem_map] at hr
    obtain ⟨m, hm, x, hx, rfl⟩ := hr
    obtain ⟨hm0, hm1⟩ := hms m (by simpa using hm)
    obtain ⟨hx0, hx1⟩ := znlFactArgs_nonneg n l m hl0 hln hm0 (by omega) x hx
    obtain ⟨q, hq, hok, _⟩ := factRun_nonneg fuel x hx0 (by omega)
    exact ⟨q, hq, hok⟩
  refine ⟨?_, ?_⟩
  · simp only [allOk_append]
    refine ⟨⟨?_, ?_⟩, ?_⟩
    · rw [allOk_iff]; intro a ha'
      simp only [List.mem_filterMap] at ha'
      obtain ⟨r, hr, hra⟩ := ha'
      obtain ⟨q, rfl, hok⟩ := hfacts r hr
      simp at hra; subst hra; exact hok
    · rw [allOk_iff]; intro a ha'
      simp only [List.mem_map] at ha'
      obtain ⟨m, hm, rfl⟩ := ha'
      exact hms m (by simpa using hm)
    · rw [allOk_iff]; intro a ha'
      simp only [List.mem_flatMap, List.mem_range, List.mem_append, List.mem_cons, List.mem_nil_iff, or_false,
        Int.ofNat_eq_natCast] at ha'
      obtain ⟨i, hi, (rfl | rfl | rfl) | hm⟩ := ha'
      · exact ⟨by simp only; omega, by simp only; omega⟩
      · exact ⟨by simp only; omega, by simp only; omega⟩
      · exact ⟨by simp only; omega, by simp only; omega⟩
      · simp only [List.mem_map] at hm
        obtain ⟨m, hm, rfl⟩ := hm
        exact hms m (by simpa using hm)
  · rw [List.all_eq_true]
    intro r hr
    obtain ⟨q, rfl, _⟩ := hfacts r hr
    rfl

/-! ## paired scans -/

theorem pairScan_ok_iff (na nb : Nat) : allOk (pairScan na nb none) = true ↔ na ≤ nb := by
  rw [allOk_iff]
  simp only [pairScan, List.mem_flatMap, List.mem_range, List.mem_cons, List.mem_nil_iff, or_false, Int.ofNat_eq_natCast]
  constructor
  · intro h
    by_contra hlt
    have hpos : nb < na := by omega
    have := h ⟨(nb : Int), (nb : Int)⟩ ⟨nb, hpos, Or.inr rfl⟩
    simp [FOk] at this
  · rintro h a ⟨p, hp, rfl | rfl⟩
    · exact ⟨by simp only; omega, by simp only; omega⟩
    · exact ⟨by simp only; omega, by simp only; omega⟩

theorem pairScan_ok (na nb : Nat) (stop : Option Nat) (h : na ≤ nb) : allOk (pairScan na nb stop) = true := by
  rw [allOk_iff]
  simp only [pairScan, List.mem_flatMap, List.mem_range, List.mem_cons, List.mem_nil_iff, or_false, Int.ofNat_eq_natCast]
  rintro a ⟨p, hp, rfl | rfl⟩
  · have : p < na := by cases stop <;> simp at hp <;> omega
    exact ⟨by simp only; omega, by simp only; omega⟩
  · have : p < na := by cases stop <;> simp at hp <;> omega
    exact ⟨by simp only; omega, by simp only; omega⟩

/-! ## disk_2d -/

theorem diskStores_ok (n0 n1 : Nat) (radius : Int) : allOk (diskStores n0 n1 radius) = true := by
  rw [allOk_iff]
  intro a ha
  simp only [diskStores, List.mem_flatMap, List.mem_range, List.mem_filterMap, Int.ofNat_eq_natCast] at ha
  obtain ⟨x0, h0, x1, h1, hx⟩ := ha
  split at hx
  · simp only [Option.some.injEq] at hx
    subst hx
    have h : (x0 + 1) * n1 ≤ n0 * n1 := Nat.mul_le_mul_right n1 h0
    have h2 : x0 * n1 + x1 < n0 * n1 := by
      calc x0 * n1 + x1 < x0 * n1 + n1 := by omega
        _ = (x0 + 1) * n1 := by ring
        _ ≤ n0 * n1 := h
    refine ⟨by simp only; positivity, ?_⟩
    simp only
    exact_mod_cast h2
  · simp at hx

/-! ## compute_dominant_angle -/

theorem angleFirst_ok (ns : Nat) (btw : Nat → Nat → Bool) (hns : 1 ≤ ns) (k j : Nat) (hj : j ≤ ns) :
    allOk (angleFirst ns btw k j).1 = true ∧ j ≤ (angleFirst ns btw k j).2 ∧ (angleFirst ns btw k j).2 ≤ ns := by
  induction k generalizing j with
  | zero => simp [angleFirst, allOk, hj]
  | succ k ih =>
    simp only [angleFirst]
    split
    · simp [allOk, hj]
    · rename_i hne
      have hlt : j < ns := by omega
      split
      · obtain ⟨h1, h2, h3⟩ := ih (j + 1) (by omega)
        refine ⟨?_, by omega, h3⟩
        rw [allOk_append]; refine ⟨?_, h1⟩
        rw [allOk_iff]; intro a ha
        simp only [List.mem_cons, List.mem_nil_iff, or_false] at ha
        rcases ha with rfl | rfl | rfl <;> exact ⟨by simp only; omega, by simp only; omega⟩
      · refine ⟨?_, le_refl _, hj⟩
        rw [allOk_iff]; intro a ha
        simp only [List.mem_cons, List.mem_nil_iff, or_false] at ha
        rcases ha with rfl | rfl <;> exact ⟨by simp only; omega, by simp only; omega⟩

/-- circular distance from `j` forward to `i` -/
def fwd (ns i j : Nat) : Nat := if j ≤ i then i - j else ns - j + i

theorem angleWhile_ok (ns i : Nat) (btw : Nat → Nat → Bool) (hi : i < ns) (f j : Nat) (hj : j < ns)
    (hf : fwd ns i j < f) :
    allOk (angleWhile ns i btw f j).1 = true ∧ (angleWhile ns i btw f j).2.1 < ns ∧
      (angleWhile ns i btw f j).2.2 = true := by
  induction f generalizing j with
  | zero => omega
  | succ f ih =>
    simp only [angleWhile]
    split
    · simp [allOk, hj]
    · rename_i hne
      split
      · have hj1 : (if j + 1 = ns then 0 else j + 1) < ns := by split <;> omega
        have hd : fwd ns i (if j + 1 = ns then 0 else j + 1) < f := by
          unfold fwd at hf ⊢
          split <;> split <;> split at hf <;> omega
        obtain ⟨h1, h2, h3⟩ := ih _ hj1 hd
        refine ⟨?_, h2, h3⟩
        rw [allOk_append]; refine ⟨?_, h1⟩
        rw [allOk_iff]; intro a ha
        simp only [List.mem_cons, List.mem_nil_iff, or_false] at ha
        rcases ha with rfl | rfl | rfl <;> exact ⟨by simp only; omega, by simp only; omega⟩
      · refine ⟨?_, hj, rfl⟩
        rw [allOk_iff]; intro a ha
        simp only [List.mem_cons, List.mem_nil_iff, or_false] at ha
        rcases ha with rfl | rfl <;> exact ⟨by simp only; omega, by simp only; omega⟩

theorem angleOuter_ok (ns : Nat) (btw : Nat → Nat → Bool) (k i j : Nat) (hik : i + k = ns) (hj : j < ns) :
    allOk (angleOuter ns btw k i j).1 = true ∧ (angleOuter ns btw k i j).2.1 < ns ∧
      (angleOuter ns btw k i j).2.2 = true := by
  induction k generalizing i j with
  | zero => simp [angleOuter, allOk, hj]
  | succ k ih =>
    simp only [angleOuter]
    have hi : i < ns := by omega
    have hfw : fwd ns i j < ns := by unfold fwd; split <;> omega
    obtain ⟨w1, w2, w3⟩ := angleWhile_ok ns i btw hi ns j hj hfw
    obtain ⟨r1, r2, r3⟩ := ih (i + 1) (angleWhile ns i btw ns j).2.1 (by omega) w2
    refine ⟨?_, r2, by simp [w3, r3]⟩
    rw [allOk_append, allOk_cons]
    exact ⟨⟨⟨by simp only; omega, by simp only; omega⟩, w1⟩, r1⟩

theorem angleRun_ok (ns : Nat) (btw : Nat → Nat → Bool) (hns : 1 ≤ ns) :
    allOk (angleRun ns btw).1 = true ∧ (angleRun ns btw).2.2.2 = true ∧
      ((angleRun ns btw).2.1 = false → (angleRun ns btw).2.2.1 < ns) := by
  obtain ⟨f1, f2, f3⟩ := angleFirst_ok ns btw hns ns 1 hns
  simp only [angleRun]
  split
  · refine ⟨?_, rfl, by simp⟩
    rw [allOk_cons]; exact ⟨⟨by simp only; omega, by simp only; omega⟩, f1⟩
  · rename_i hne
    obtain ⟨o1, o2, o3⟩ := angleOuter_ok ns btw (ns - 1) 1 (angleFirst ns btw ns 1).2 (by omega) (by omega)
    refine ⟨?_, o3, fun _ => o2⟩
    dsimp only
    rw [allOk_append, allOk_cons]
    exact ⟨⟨⟨by simp only; omega, by simp only; omega⟩, f1⟩, o1⟩

/-! ## interpolate: poles and spline coefficients -/

theorem polesAccesses_ok (order : Int) : ∀ l, polesAccesses order = some l → allOk l = true := by
  intro l h
  unfold polesAccesses at h
  split_ifs at h with h1 h2
  · simp only [Option.map_some, Option.some.injEq] at h; subst h; decide
  · simp only [Option.map_some, Option.some.injEq] at h; subst h; decide
  · simp at h

theorem splineCoeffStores_ok (order : Int) : allOk (splineCoeffStores order) = true := by
  rw [allOk_iff]; intro a ha
  simp only [splineCoeffStores, List.mem_map, List.mem_range, Int.ofNat_eq_natCast] at ha
  obtain ⟨hh, h, rfl⟩ := ha
  exact ⟨by simp only; omega, by simp only; omega⟩

end Mahotas.C10Feat
