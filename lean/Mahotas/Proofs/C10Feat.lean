/-
C10 (round 4) — helper lemmas for `Model/C10Feat.lean`.
-/
import Mahotas.Model.C10Feat
namespace Mahotas.C10Feat
open Mahotas

end Mahotas.C10Feat
