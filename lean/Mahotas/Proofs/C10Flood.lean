/-
C10 (round 4) — helper lemmas for `Model/C10Flood.lean`: the containers, the seeding odometer of `close_holes` for
rank 1 and 2, accesses and termination of the stack flood.
-/
import Mahotas.Model.C10Flood
import Mathlib.Tactic.Linarith
import Mathlib.Tactic.Ring
namespace Mahotas.C10Flood
open Mahotas

theorem vAllOk_iff (l : List VAcc) : vAllOk l = true ↔ ∀ a ∈ l, 0 ≤ a.i ∧ a.i < a.size := by
  simp [vAllOk, VAcc.ok]

theorem vAllOk_append (l₁ l₂ : List VAcc) : vAllOk (l₁ ++ l₂) = true ↔ vAllOk l₁ = true ∧ vAllOk l₂ = true := by
  simp [vAllOk, List.all_append]

theorem pAllOk_iff (l : List PAcc) : pAllOk l = true ↔ ∀ a ∈ l, inside a.shape a.pos = true := by
  simp [pAllOk, PAcc.ok]

theorem pAllOk_append (l₁ l₂ : List PAcc) : pAllOk (l₁ ++ l₂) = true ↔ pAllOk l₁ = true ∧ pAllOk l₂ = true := by
  simp [pAllOk, List.all_append]

/-! ## position_queue -/

/-- the representation invariant: `store_` holds a whole number `m` of positions, `next_ ≤ m` -/
def QInv (sz : Nat) (s : QState) : Prop := ∃ m : Nat, s.len = m * sz ∧ s.next ≤ m

theorem qEmpty_false (sz : Nat) (hsz : 0 < sz) (s : QState) (m : Nat) (hl : s.len = m * sz) (hn : s.next ≤ m)
    (he : qEmpty sz s = false) : s.next < m := by
  simp only [qEmpty, decide_eq_false_iff_not] at he
  have hq : ((m * sz : Nat) : Int) / (sz : Int) = m := by
    rw [Nat.cast_mul]; exact Int.mul_ediv_cancel _ (by omega)
  rw [hl, hq] at he
  omega

theorem qTopPop_ok (limit sz : Nat) (hsz : 0 < sz) (s : QState) (m : Nat) (hl : s.len = m * sz) (hn : s.next < m) :
    vAllOk (qTopPop limit sz s).1 = true ∧ QInv sz (qTopPop limit sz s).2 := by
  have hle : (s.next + 1) * sz ≤ m * sz := Nat.mul_le_mul_right sz hn
  have hreads : vAllOk ((List.range sz).map fun d => VAcc.mk (Int.ofNat (s.next * sz + d)) (Int.ofNat s.len)) = true := by
    rw [vAllOk_iff]; intro a ha
    simp only [List.mem_map, List.mem_range] at ha
    obtain ⟨d, hd, rfl⟩ := ha
    have : s.next * sz + d < m * sz := by
      calc s.next * sz + d < s.next * sz + sz := by omega
        _ = (s.next + 1) * sz := by ring
        _ ≤ m * sz := hle
    simp only [Int.ofNat_eq_natCast]
    constructor
    · positivity
    · rw [hl]; exact_mod_cast this
  unfold qTopPop
  simp only
  split
  · refine ⟨?_, m - (s.next + 1), ?_, Nat.zero_le _⟩
    · rw [vAllOk_append]; refine ⟨hreads, ?_⟩
      split
      · simp [vAllOk]
      · rename_i hne
        rw [vAllOk_iff]; intro a ha
        simp only [List.mem_singleton] at ha; subst ha
        simp only [Int.ofNat_eq_natCast]
        have h0 : 0 < (s.next + 1) * sz := Nat.pos_of_ne_zero hne
        constructor
        · have : (1 : Int) ≤ ((s.next + 1) * sz : Nat) := by exact_mod_cast h0
          omega
        · rw [hl]
          have : (((s.next + 1) * sz : Nat) : Int) ≤ ((m * sz : Nat) : Int) := by exact_mod_cast hle
          omega
    · simp only
      rw [hl, Nat.sub_mul]
  · exact ⟨hreads, m, hl, hn⟩

theorem qRun_ok (limit sz : Nat) (hsz : 0 < sz) (ops : List Bool) (s : QState) (h : QInv sz s) :
    vAllOk (qRun limit sz ops s).1 = true ∧ QInv sz (qRun limit sz ops s).2.1 := by
  induction ops generalizing s with
  | nil => exact ⟨by simp [qRun, vAllOk], h⟩
  | cons o ops ih =>
    cases o
    · simp only [qRun]
      split
      · exact ih s h
      · rename_i he
        obtain ⟨m, hl, hn⟩ := h
        have hlt := qEmpty_false sz hsz s m hl hn (by simpa using he)
        obtain ⟨h1, h2⟩ := qTopPop_ok limit sz hsz s m hl hlt
        obtain ⟨h3, h4⟩ := ih _ h2
        exact ⟨(vAllOk_append _ _).mpr ⟨h1, h3⟩, h4⟩
    · simp only [qRun]
      apply ih
      obtain ⟨m, hl, hn⟩ := h
      exact ⟨m + 1, by simp only [qPush]; rw [hl]; ring, by simp only [qPush]; omega⟩

/-! ## position_stack -/

theorem sRun_ok (sz : Nat) (hsz : 0 < sz) (ops : List Bool) (len : Nat) (h : ∃ m : Nat, len = m * sz) :
    vAllOk (sRun sz ops len).1 = true ∧ ∃ m : Nat, (sRun sz ops len).2.1 = m * sz := by
  induction ops generalizing len with
  | nil => exact ⟨by simp [sRun, vAllOk], h⟩
  | cons o ops ih =>
    cases o
    · simp only [sRun]
      split
      · exact ih len h
      · rename_i hne
        obtain ⟨m, hl⟩ := h
        have hm : 1 ≤ m := by
          rcases Nat.eq_zero_or_pos m with h0 | h0
          · subst h0; simp at hl; omega
          · exact h0
        have hle : sz ≤ len := by rw [hl]; exact Nat.le_mul_of_pos_left sz hm
        obtain ⟨h3, h4⟩ := ih (len - sz) ⟨m - 1, by rw [hl, Nat.sub_mul]; simp⟩
        refine ⟨?_, h4⟩
        simp only [sTopPop]
        rw [vAllOk_append]; refine ⟨?_, h3⟩
        rw [vAllOk_iff]; intro a ha
        simp only [List.mem_map, List.mem_range, Int.ofNat_eq_natCast] at ha
        obtain ⟨d, hd, rfl⟩ := ha
        simp only
        omega
    · simp only [sRun]
      apply ih
      obtain ⟨m, hl⟩ := h
      exact ⟨m + 1, by rw [hl]; ring⟩

/-! ## close_holes seeding: rank 1 and rank 2 -/

theorem chSeed_rank1 (n : Nat) : pAllOk (chSeedAccesses [n]) = true := by
  have hr : List.range (0 + 1) = [0] := by decide
  simp only [chSeedAccesses, List.length_cons, List.length_nil, hr, List.flatMap_cons, List.flatMap_nil,
    List.append_nil, List.getD_cons_zero]
  split
  · simp [pAllOk]
  · rename_i hn
    have hpos : 0 < n := Nat.pos_of_ne_zero hn
    have h1 : shapeSize [n] / n = 1 := by simp [shapeSize, Nat.div_self hpos]
    rw [h1]
    simp only [chSeedAxis, List.map_cons, List.map_nil, setAt, List.set_cons_zero, List.getD_cons_zero, List.append_nil]
    rw [pAllOk_iff]; intro a ha
    simp only [List.mem_cons, List.mem_nil_iff, or_false] at ha
    rcases ha with rfl | rfl <;> simp [inside] <;> omega

theorem chAxis0 (n0 n1 : Nat) (hn0 : 0 < n0) (k : Nat) (y : Int) (x : Nat) (hx : x + k ≤ n1) :
    pAllOk (chSeedAxis [n0, n1] 0 k [y, (x : Int)]) = true := by
  induction k generalizing y x with
  | zero => simp [chSeedAxis, pAllOk]
  | succ k ih =>
    have hxl : x < n1 := by omega
    have hadv : chAdvance [n0, n1] 0 3 0 [(n0 : Int) - 1, (x : Int)] = [(n0 : Int) - 1, ((x + 1 : Nat) : Int)] := by
      simp only [chAdvance, List.length_cons, List.length_nil]
      norm_num [setAt]
      intro h; omega
    simp only [chSeedAxis, setAt, List.set_cons_zero, List.getD_cons_zero, Int.ofNat_eq_natCast, List.length_cons,
      List.length_nil]
    rw [pAllOk_append]
    refine ⟨?_, ?_⟩
    · rw [pAllOk_iff]; intro a ha
      simp only [List.mem_cons, List.mem_nil_iff, or_false] at ha
      rcases ha with rfl | rfl <;> simp [inside] <;> omega
    · have := ih ((n0 : Int) - 1) (x + 1) (by omega)
      simp only [Nat.reduceAdd, Nat.zero_add] at hadv ⊢
      rw [hadv]; exact this

theorem chAxis1 (n0 n1 : Nat) (hn1 : 0 < n1) (k : Nat) (y : Int) (x : Nat) (hx : x + k ≤ n0) :
    pAllOk (chSeedAxis [n0, n1] 1 k [(x : Int), y]) = true := by
  induction k generalizing y x with
  | zero => simp [chSeedAxis, pAllOk]
  | succ k ih =>
    have hxl : x < n0 := by omega
    have hadv : chAdvance [n0, n1] 1 3 0 [(x : Int), (n1 : Int) - 1] = [((x + 1 : Nat) : Int), (n1 : Int) - 1] := by
      simp only [chAdvance, List.length_cons, List.length_nil]
      norm_num [setAt]
      intro h; omega
    simp only [chSeedAxis, setAt, List.set_cons_succ, List.set_cons_zero, List.getD_cons_succ, List.getD_cons_zero,
      Int.ofNat_eq_natCast, List.length_cons, List.length_nil]
    rw [pAllOk_append]
    refine ⟨?_, ?_⟩
    · rw [pAllOk_iff]; intro a ha
      simp only [List.mem_cons, List.mem_nil_iff, or_false] at ha
      rcases ha with rfl | rfl <;> simp [inside] <;> omega
    · have := ih ((n1 : Int) - 1) (x + 1) (by omega)
      simp only [Nat.reduceAdd, Nat.zero_add] at hadv ⊢
      rw [hadv]; exact this

theorem chSeed_rank2 (n0 n1 : Nat) : pAllOk (chSeedAccesses [n0, n1]) = true := by
  have hr : List.range 2 = [0, 1] := by decide
  simp only [chSeedAccesses, List.length_cons, List.length_nil, Nat.reduceAdd, hr, List.flatMap_cons, List.flatMap_nil,
    List.append_nil, List.getD_cons_zero, List.getD_cons_succ, List.map_cons, List.map_nil]
  rw [pAllOk_append]
  constructor
  · split
    · simp [pAllOk]
    · rename_i h0
      have hpos : 0 < n0 := Nat.pos_of_ne_zero h0
      have hq : shapeSize [n0, n1] / n0 = n1 := by
        simp only [shapeSize, Nat.mul_one]; exact Nat.mul_div_cancel_left n1 hpos
      rw [hq]
      exact chAxis0 n0 n1 hpos n1 0 0 (by omega)
  · split
    · simp [pAllOk]
    · rename_i h1
      have hpos : 0 < n1 := Nat.pos_of_ne_zero h1
      have hq : shapeSize [n0, n1] / n1 = n0 := by
        simp only [shapeSize, Nat.mul_one]; exact Nat.mul_div_cancel n0 hpos
      rw [hq]
      exact chAxis1 n0 n1 hpos n0 0 0 (by omega)

/-! ## the flood -/

theorem visitAccesses_ok (shape : List Nat) (nb : List (List Int)) (p : List Int) :
    pAllOk (visitAccesses shape nb p) = true := by
  rw [pAllOk_iff]; intro a ha
  simp only [visitAccesses, List.mem_filterMap] at ha
  obtain ⟨q, _, hq⟩ := ha
  split at hq
  · simp only [Option.some.injEq] at hq; subst hq; assumption
  · simp at hq

/-- clearing a set flag lowers the count by one (as `C14.cnt_take`; repeated here to keep the C14 proof files out of C10) -/
theorem cntTrue_take (av : Array Bool) (i : Nat) (h : av.getD i false = true) :
    cntTrue (av.setIfInBounds i false) + 1 = cntTrue av := by
  have hi : i < av.size := by
    by_cases hi : i < av.size
    · exact hi
    · simp [Array.getD_eq_getD_getElem?, Array.getElem?_eq_none (Nat.le_of_not_lt hi)] at h
  have hv : av[i] = true := by
    simpa [Array.getD_eq_getD_getElem?, Array.getElem?_eq_getElem hi] using h
  unfold cntTrue
  rw [Array.toList_setIfInBounds, List.countP_set (by simpa using hi)]
  have hpos : 0 < List.countP id av.toList := by
    rw [List.countP_pos_iff]
    exact ⟨true, by rw [← hv]; simp, rfl⟩
  have : av.toList[i]'(by simpa using hi) = true := by simpa using hv
  rw [this]
  simp only [id_eq, if_true, Bool.false_eq_true, if_false, Nat.add_zero]
  omega

/-- one visit conserves `stack length + number of available pixels`: a pixel is pushed exactly when its flag is cleared -/
theorem floodVisit_measure (shape : List Nat) (nb : List (List Int)) (p : List Int) (av : Array Bool) (st : List (List Int)) :
    (C14.floodVisit shape nb p (av, st)).2.length + cntTrue (C14.floodVisit shape nb p (av, st)).1 =
      st.length + cntTrue av := by
  unfold C14.floodVisit
  induction nb generalizing av st with
  | nil => rfl
  | cons k ks ih =>
    simp only [List.foldl_cons]
    split
    · rename_i hc
      simp only [Bool.and_eq_true] at hc
      rw [ih]
      have := cntTrue_take av _ hc.2
      simp only [List.length_cons]
      omega
    · exact ih av st

theorem floodRun_ok (shape : List Nat) (nb : List (List Int)) (fuel : Nat) (av : Array Bool) (st : List (List Int))
    (hf : st.length + cntTrue av ≤ fuel) :
    pAllOk (floodRun shape nb fuel av st).1 = true ∧ (floodRun shape nb fuel av st).2.1 = true ∧
      (floodRun shape nb fuel av st).2.2.1 ≤ st.length + cntTrue av ∧
      (floodRun shape nb fuel av st).2.2.2.1 ≤ st.length + cntTrue av := by
  induction fuel generalizing av st with
  | zero =>
    have : st = [] := by
      cases st with
      | nil => rfl
      | cons _ _ => simp at hf
    subst this
    simp [floodRun, pAllOk]
  | succ n ih =>
    cases st with
    | nil => simp [floodRun, pAllOk]
    | cons p s =>
      simp only [floodRun]
      have hm := floodVisit_measure shape nb p av s
      obtain ⟨h1, h2, h3, h4⟩ := ih (C14.floodVisit shape nb p (av, s)).1 (C14.floodVisit shape nb p (av, s)).2
        (by simp only [List.length_cons] at hf; omega)
      refine ⟨(pAllOk_append _ _).mpr ⟨visitAccesses_ok shape nb p, h1⟩, h2, ?_, ?_⟩
      · simp only [List.length_cons]; omega
      · simp only [List.length_cons]; omega

theorem regScan_ok (shape : List Nat) (nb : List (List Int)) (witness : List Int → Array Bool → Bool) :
    ∀ (ps : List (List Int)) (av : Array Bool), (∀ p ∈ ps, inside shape p = true) →
      pAllOk (regScan shape nb witness ps av).1 = true ∧ (regScan shape nb witness ps av).2.1 = true := by
  intro ps
  induction ps with
  | nil => intro av _; simp [regScan, pAllOk]
  | cons p ps ih =>
    intro av hin
    have hp : inside shape p = true := hin p List.mem_cons_self
    have hps : ∀ q ∈ ps, inside shape q = true := fun q hq => hin q (List.mem_cons_of_mem _ hq)
    have hprobe : pAllOk (PAcc.mk p shape :: visitAccesses shape nb p) = true := by
      rw [pAllOk_iff]
      intro a ha
      rcases List.mem_cons.mp ha with rfl | ha
      · exact hp
      · exact (pAllOk_iff _).mp (visitAccesses_ok shape nb p) a ha
    simp only [regScan]
    split
    · split
      · obtain ⟨f1, f2, -, -⟩ := floodRun_ok shape nb (1 + cntTrue (av.setIfInBounds (ravelI shape p) false))
          (av.setIfInBounds (ravelI shape p) false) [p] (by simp)
        obtain ⟨t1, t2⟩ := ih (floodRun shape nb (1 + cntTrue (av.setIfInBounds (ravelI shape p) false))
          (av.setIfInBounds (ravelI shape p) false) [p]).2.2.2.2 hps
        refine ⟨?_, by simp only [f2, t2]; rfl⟩
        rw [pAllOk_append, pAllOk_append]
        exact ⟨⟨hprobe, f1⟩, t1⟩
      · obtain ⟨t1, t2⟩ := ih av hps
        exact ⟨(pAllOk_append _ _).mpr ⟨hprobe, t1⟩, t2⟩
    · exact ih av hps

end Mahotas.C10Flood
