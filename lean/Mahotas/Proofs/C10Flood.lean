/-
C10 (round 4) — helper lemmas for `Model/C10Flood.lean`.
-/
import Mahotas.Model.C10Flood
namespace Mahotas.C10Flood
open Mahotas

end Mahotas.C10Flood
