/-
C10 — helper lemmas for B8: the indices of the in-place Graham scan (`_convex.cpp`).
-/
import Mahotas.Proofs.C10Tables
namespace Mahotas.C10
open Mahotas

theorem ghPop_spec (cmp : Nat → Nat → Bool) (base size : Int) (i : Nat) (hb : 0 ≤ base)
    (hi : base + (i : Int) < size) :
    ∀ h : Nat, h ≤ i → (∀ a ∈ (ghPop cmp base size i h).1, AccOk a) ∧
      (ghPop cmp base size i h).2 ≤ h ∧ (1 ≤ h → 1 ≤ (ghPop cmp base size i h).2)
  | 0, _ => by simp [ghPop]
  | 1, _ => by simp [ghPop]
  | h + 2, hh => by
    have ih := ghPop_spec cmp base size i hb hi (h + 1) (by omega)
    have hhere : ∀ a ∈ [Acc.mk (base + (h : Nat)) size, Acc.mk (base + ((h + 1 : Nat) : Int)) size,
        Acc.mk (base + (i : Int)) size], AccOk a := by
      intro a ha
      simp only [List.mem_cons, List.not_mem_nil, or_false] at ha
      unfold AccOk
      rcases ha with rfl | rfl | rfl <;> simp only <;> omega
    simp only [ghPop]
    split
    · refine ⟨?_, by have := ih.2.1; simp only; omega, fun _ => by simpa using ih.2.2 (by omega)⟩
      intro a ha
      rcases List.mem_append.mp ha with ha | ha
      · exact hhere a ha
      · exact ih.1 a ha
    · exact ⟨hhere, Nat.le_refl _, fun _ => by simp⟩

theorem ghScan_spec (cmp : Nat → Nat → Bool) (base size : Int) (hb : 0 ≤ base) :
    ∀ (c i h : Nat), 1 ≤ h → h ≤ i → base + (i : Int) + (c : Int) ≤ size →
      (∀ a ∈ (ghScan cmp base size c i h).1, AccOk a) ∧ 1 ≤ (ghScan cmp base size c i h).2 ∧
      (1 ≤ c → 2 ≤ (ghScan cmp base size c i h).2) ∧ (ghScan cmp base size c i h).2 ≤ i + c
  | 0, i, h, h1, hi, _ => by simp [ghScan]; omega
  | c + 1, i, h, h1, hi, hN => by
    have hp := ghPop_spec cmp base size i hb (by omega) h hi
    have hr1 := hp.2.2 h1
    have ih := ghScan_spec cmp base size hb c (i + 1) ((ghPop cmp base size i h).2 + 1) (by omega)
      (by have := hp.2.1; omega) (by push_cast; omega)
    simp only [ghScan]
    refine ⟨?_, ih.2.1, fun _ => ?_, by have := ih.2.2.2; omega⟩
    · intro a ha
      simp only [List.mem_append, List.mem_cons, List.not_mem_nil, or_false] at ha
      rcases ha with (ha | rfl | rfl) | ha
      · exact hp.1 a ha
      · unfold AccOk; simp only; have := hp.2.1; omega
      · unfold AccOk; simp only; omega
      · exact ih.1 a ha
    · cases c with
      | zero => simp only [ghScan]; omega
      | succ c' => exact ih.2.2.1 (by omega)

theorem grahamRun_ok (cmp1 cmp2 : Nat → Nat → Bool) (n : Nat) :
    (∀ a ∈ (grahamRun cmp1 cmp2 n).1, AccOk a) ∧ 0 ≤ (grahamRun cmp1 cmp2 n).2.1 ∧
    (grahamRun cmp1 cmp2 n).2.1 ≤ n ∧ (grahamRun cmp1 cmp2 n).2.2 = true := by
  unfold grahamRun
  split
  · refine ⟨?_, by simp, by simp, rfl⟩
    intro a ha
    simp only [List.mem_map, mem_rangeI] at ha
    obtain ⟨i, hi, rfl⟩ := ha
    unfold AccOk; simp only; omega
  · rename_i hn
    dsimp only
    have s1 := ghScan_spec cmp1 0 n (by omega) (n - 1) 1 1 (by omega) (by omega) (by omega)
    generalize ghScan cmp1 0 n (n - 1) 1 1 = r1 at s1 ⊢
    obtain ⟨s1a, s1b, s1c, s1d⟩ := s1
    have hh2 : 2 ≤ r1.2 := s1c (by omega)
    have s2 := ghScan_spec cmp2 ((r1.2 : Int) - 2) n (by omega)
      (((n : Int) - (r1.2 : Int) + 2).toNat - 1) 1 1 (by omega) (by omega) (by omega)
    generalize ghScan cmp2 ((r1.2 : Int) - 2) n (((n : Int) - (r1.2 : Int) + 2).toNat - 1) 1 1 = r2 at s2 ⊢
    obtain ⟨s2a, s2b, s2c, s2d⟩ := s2
    have hr2 : 2 ≤ r2.2 := s2c (by omega)
    refine ⟨?_, by omega, by omega, iterNeDone_of_le _ _ _ (by omega) (by omega)⟩
    intro a ha
    simp only [List.mem_append, List.mem_flatMap, List.mem_cons, List.not_mem_nil, or_false,
      List.mem_map, mem_rangeI] at ha
    rcases ha with ((ha | ⟨i, hi, hm⟩) | ha) | ⟨i, hi, rfl⟩
    · exact s1a a ha
    · have := mem_iterNe 0 _ _ (by omega) i hi
      unfold AccOk
      rcases hm with rfl | rfl <;> simp only <;> omega
    · exact s2a a ha
    · unfold AccOk; simp only; omega

end Mahotas.C10
