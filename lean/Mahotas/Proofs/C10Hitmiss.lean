/-
C10 — helper lemmas for B4 (`hitmiss`): neighbour arithmetic and the `slack` loop invariant.
-/
import Mahotas.Proofs.C10Tables
namespace Mahotas.C10
open Mahotas

/-! ## static facts -/

theorem origin_spec (b : Nat) : 0 ≤ origin b ∧ 2 * origin b ≤ (b : Int) ∧ (b : Int) ≤ 2 * origin b + 1 := by
  unfold origin; simp only [Int.ofNat_eq_natCast]; omega

theorem shapeSize_append (s : List Nat) (W : Nat) : shapeSize (s ++ [W]) = shapeSize s * W := by
  induction s with
  | nil => simp [shapeSize]
  | cons d ds ih => simp only [List.cons_append, shapeSize, ih, Nat.mul_assoc]

theorem unravel_append (pre : List Nat) (W i : Nat) (h : i < shapeSize (pre ++ [W])) :
    unravel (pre ++ [W]) i = unravel pre (i / W) ++ [i % W] := by
  induction pre generalizing i with
  | nil =>
    simp only [List.nil_append, shapeSize, Nat.mul_one] at h
    simp [unravel, shapeSize, Nat.mod_eq_of_lt h]
  | cons d ds ih =>
    simp only [List.cons_append, shapeSize, shapeSize_append] at h
    have hS : 0 < shapeSize ds * W := by
      rcases Nat.eq_zero_or_pos (shapeSize ds * W) with h0 | h0
      · rw [h0] at h; simp at h
      · exact h0
    simp only [List.cons_append, unravel, shapeSize_append]
    rw [ih (i % (shapeSize ds * W)) (by rw [shapeSize_append]; exact Nat.mod_lt _ hS)]
    rw [Nat.mod_mul_left_div_self, Nat.mod_mul_left_mod, Nat.div_div_eq_div_mul, Nat.mul_comm W]

theorem unravelI_append (pre : List Nat) (W i : Nat) (h : i < shapeSize (pre ++ [W])) :
    unravelI (pre ++ [W]) i = unravelI pre (i / W) ++ [((i % W : Nat) : Int)] := by
  simp [unravelI, unravel_append pre W i h]

theorem ravelZ_unravelI (s : List Nat) (i : Nat) (h : i < shapeSize s) :
    ravelZ s (unravelI s i) = (i : Int) := by
  induction s generalizing i with
  | nil => simp only [shapeSize] at h; simp [ravelZ]; omega
  | cons d ds ih =>
    simp only [shapeSize] at h
    have hS : 0 < shapeSize ds := by
      rcases Nat.eq_zero_or_pos (shapeSize ds) with h0 | h0
      · rw [h0] at h; simp at h
      · exact h0
    rw [unravelI_cons]
    simp only [ravelZ, ih (i % shapeSize ds) (Nat.mod_lt _ hS), Int.ofNat_eq_natCast]
    have := Nat.div_add_mod' i (shapeSize ds)
    exact_mod_cast this

/-- the structuring element placed with its centre at `cur` lies inside the image -/
def Fits : List Nat → List Nat → List Int → Prop
  | a :: as, b :: bs, c :: cs =>
    origin b ≤ c ∧ c + ((b : Int) - 1 - origin b) ≤ (a : Int) - 1 ∧ Fits as bs cs
  | [], [], [] => True
  | _, _, _ => False

theorem firstFail_none_fits (as bs : List Nat) (cs : List Int) (h1 : bs.length = as.length)
    (h2 : cs.length = as.length) (h : hmFirstFail as bs cs = none) : Fits as bs cs := by
  induction as generalizing bs cs with
  | nil => cases bs <;> cases cs <;> simp_all [Fits]
  | cons a as ih =>
    cases bs with
    | nil => simp at h1
    | cons b bs =>
    cases cs with
    | nil => simp at h2
    | cons c cs =>
      simp only [hmFirstFail] at h
      split at h
      · simp at h
      · rename_i hc
        have := origin_spec b
        refine ⟨by omega, by omega, ih bs cs (by simpa using h1) (by simpa using h2) h⟩

theorem firstFail_pos (as bs : List Nat) (cs : List Int) (hpos : ∀ d ∈ as, 0 < d) (sz : Nat)
    (h : hmFirstFail as bs cs = some sz) : 0 < sz := by
  induction as generalizing bs cs with
  | nil => simp [hmFirstFail] at h
  | cons a as ih =>
    cases bs with
    | nil => simp [hmFirstFail] at h
    | cons b bs =>
    cases cs with
    | nil => simp [hmFirstFail] at h
    | cons c cs =>
      simp only [hmFirstFail] at h
      split at h
      · simp only [Option.some.injEq] at h
        subst h
        exact shapeSize_pos as (fun d hd => hpos d (by simp [hd]))
      · exact ih bs cs (fun d hd => hpos d (by simp [hd])) h

theorem Fits_append (as bs : List Nat) (cs : List Int) (W bw : Nat) (x : Int) (h : Fits as bs cs)
    (hx0 : origin bw ≤ x) (hx1 : x + ((bw : Int) - 1 - origin bw) ≤ (W : Int) - 1) :
    Fits (as ++ [W]) (bs ++ [bw]) (cs ++ [x]) := by
  induction as generalizing bs cs with
  | nil =>
    cases bs <;> cases cs <;> simp_all [Fits]
  | cons a as ih =>
    cases bs with
    | nil => simp [Fits] at h
    | cons b bs =>
    cases cs with
    | nil => simp [Fits] at h
    | cons c cs =>
      obtain ⟨h1, h2, h3⟩ := h
      exact ⟨h1, h2, ih bs cs h3⟩

theorem hmFirstFail_append (as bs : List Nat) (cs : List Int) (W bw : Nat) (x : Int)
    (h1 : bs.length = as.length) (h2 : cs.length = as.length) :
    hmFirstFail (as ++ [W]) (bs ++ [bw]) (cs ++ [x]) =
      match hmFirstFail as bs cs with
      | some sz => some (sz * W)
      | none => if min x ((W : Int) - x - 1) < origin bw then some 1 else none := by
  induction as generalizing bs cs with
  | nil =>
    cases bs <;> cases cs <;> simp_all [hmFirstFail, shapeSize]
  | cons a as ih =>
    cases bs with
    | nil => simp at h1
    | cons b bs =>
    cases cs with
    | nil => simp at h2
    | cons c cs =>
      simp only [List.cons_append, hmFirstFail]
      by_cases hc : min c ((a : Int) - c - 1) < origin b
      · simp [hc, shapeSize_append]
      · simp only [hc, if_false]
        exact ih bs cs (by simpa using h1) (by simpa using h2)

theorem Fits_neighbour (as bs : List Nat) (cur k : List Int) (h : Fits as bs cur)
    (hk : inside bs k = true) :
    inside as (addPos cur (subPos k (bs.map origin))) = true ∧
    ravelZ as (addPos cur (subPos k (bs.map origin))) =
      ravelZ as cur + ravelZ as (subPos k (bs.map origin)) := by
  induction as generalizing bs cur k with
  | nil =>
    cases bs <;> cases cur <;> simp_all [Fits]
    cases k <;> simp_all [inside, addPos, ravelZ]
  | cons a as ih =>
    cases bs with
    | nil => simp [Fits] at h
    | cons b bs =>
    cases cur with
    | nil => simp [Fits] at h
    | cons c cs =>
    cases k with
    | nil => simp [inside] at hk
    | cons y ys =>
      obtain ⟨h1, h2, h3⟩ := h
      simp only [inside, Bool.and_eq_true, decide_eq_true_eq] at hk
      obtain ⟨⟨k0, k1⟩, k2⟩ := hk
      obtain ⟨i1, i2⟩ := ih bs cs ys h3 k2
      simp only [List.map_cons, subPos, addPos, inside, ravelZ, i1, i2, Bool.and_eq_true,
        decide_eq_true_eq, and_true]
      refine ⟨⟨by omega, by omega⟩, by ring⟩

/-- every neighbour of a pixel at which the element fits is a valid flat index -/
theorem hm_neighbour_ok (shape bshape : List Nat) (i : Nat) (hi : i < shapeSize shape)
    (hf : Fits shape bshape (unravelI shape i)) :
    ∀ δ ∈ hmDeltas shape bshape, 0 ≤ (i : Int) + δ ∧ (i : Int) + δ < (shapeSize shape : Int) := by
  intro δ hδ
  simp only [hmDeltas, List.mem_map] at hδ
  obtain ⟨k, hk, rfl⟩ := hδ
  obtain ⟨h1, h2⟩ := Fits_neighbour shape bshape _ k hf (mem_allPos _ _ hk).1
  have := ravelZ_range shape _ h1
  rw [h2, ravelZ_unravelI shape i hi] at this
  exact this

theorem div_mod_succ (i W : Nat) (h : i % W + 1 < W) :
    (i + 1) / W = i / W ∧ (i + 1) % W = i % W + 1 := by
  have hW : 0 < W := by omega
  have e : i + 1 = W * (i / W) + (i % W + 1) := by
    have := Nat.div_add_mod i W; omega
  rw [e, Nat.mul_add_div hW, Nat.mul_add_mod, Nat.div_eq_of_lt h, Nat.mod_eq_of_lt h]
  simp

theorem mod_succ_wrap (i W : Nat) (h : i % W + 1 = W) : (i + 1) % W = 0 := by
  have e : i + 1 = W * (i / W + 1) := by
    have := Nat.div_add_mod i W
    rw [Nat.mul_add, Nat.mul_one]; omega
  rw [e, Nat.mul_mod_right]

/-! ## the loop -/

/-- invariant of `(i, slack)`; `x = i % W` is the column, `c = Bc.dim(last)/2`:
    with `slack = 0` the column is at most `c` or beyond the last fitting column `W - bw + c`
    (so the margin test can only pass at column exactly `c`); with `slack > 0` the row prefix
    passed the test and exactly the columns `x … x+slack-1 = W - bw + c` remain. -/
def HmInv (pre bpre : List Nat) (W bw : Nat) (i : Nat) (slack : Int) : Prop :=
  0 ≤ slack ∧
  (slack = 0 → ((i % W : Nat) : Int) ≤ origin bw ∨ (W : Int) - bw + origin bw < ((i % W : Nat) : Int)) ∧
  (0 < slack → hmFirstFail pre bpre (unravelI pre (i / W)) = none ∧
      origin bw ≤ ((i % W : Nat) : Int) ∧
      ((i % W : Nat) : Int) + slack = (W : Int) - bw + origin bw + 1)

theorem hmLoop_ok (pre bpre : List Nat) (W bw : Nat) (hlen : bpre.length = pre.length)
    (hpre : ∀ d ∈ pre, 0 < d) (hW : 0 < W) (hbw : 0 < bw) :
    ∀ (f i : Nat) (slack : Int), i ≤ shapeSize (pre ++ [W]) →
      (i < shapeSize (pre ++ [W]) → HmInv pre bpre W bw i slack) →
      2 * (shapeSize (pre ++ [W]) - i) + (if slack = 0 then 1 else 0) ≤ f →
      (∀ a ∈ (hmLoop (pre ++ [W]) (bpre ++ [bw]) (hmDeltas (pre ++ [W]) (bpre ++ [bw])) true
          (shapeSize (pre ++ [W])) ((W : Int) - bw + 1) f i slack).1, AccOk a) ∧
      (hmLoop (pre ++ [W]) (bpre ++ [bw]) (hmDeltas (pre ++ [W]) (bpre ++ [bw])) true
          (shapeSize (pre ++ [W])) ((W : Int) - bw + 1) f i slack).2 = true := by
  intro f
  induction f with
  | zero =>
    intro i slack hi _ hf
    have : i = shapeSize (pre ++ [W]) := by omega
    simp [hmLoop, this]
  | succ f ih =>
    intro i slack hi hinv hf
    by_cases hiN : i = shapeSize (pre ++ [W])
    · simp [hmLoop, hiN]
    · have hlt : i < shapeSize (pre ++ [W]) := by omega
      obtain ⟨hs0, hinv0, hinv1⟩ := hinv hlt
      have ho := origin_spec bw
      have hx := Nat.mod_lt i hW
      by_cases hs : slack = 0
      · -- the `while (!slack)` body
        subst hs
        have hcur := unravelI_append pre W i hlt
        have hff := hmFirstFail_append pre bpre (unravelI pre (i / W)) W bw ((i % W : Nat) : Int)
          hlen (unravelI_length pre (i / W))
        rw [← hcur] at hff
        cases hrow : hmFirstFail pre bpre (unravelI pre (i / W)) with
        | some sz =>
          rw [hrow] at hff
          have hsz := firstFail_pos pre bpre _ hpre sz hrow
          have hszW : 0 < sz * W := Nat.mul_pos hsz hW
          simp only [hmLoop, hiN, if_false, if_true, hff]
          have hstep := ih (i + min (sz * W) (shapeSize (pre ++ [W]) - i)) 0 (by omega)
            (by
              intro hlt2
              have hc : min (sz * W) (shapeSize (pre ++ [W]) - i) = sz * W := by omega
              unfold HmInv
              rw [hc, Nat.add_mul_mod_self_right]
              exact ⟨Int.le_refl _, fun _ => hinv0 rfl, fun h => absurd h (by omega)⟩)
            (by simp only [if_true] at hf ⊢; omega)
          refine ⟨?_, hstep.2⟩
          intro a ha
          simp only [List.mem_append, List.mem_map, List.mem_range] at ha
          rcases ha with ⟨j, hj, rfl⟩ | ha
          · simp only [AccOk]; omega
          · exact hstep.1 a ha
        | none =>
          rw [hrow] at hff
          by_cases hfail : min ((i % W : Nat) : Int) ((W : Int) - ((i % W : Nat) : Int) - 1) < origin bw
          · -- the last axis fails: skip one element
            simp only [hfail, if_true] at hff
            simp only [hmLoop, hiN, if_false, if_true, hff]
            have hc : min 1 (shapeSize (pre ++ [W]) - i) = 1 := by omega
            rw [hc]
            have hstep := ih (i + 1) 0 (by omega)
              (by
                intro _
                unfold HmInv
                refine ⟨Int.le_refl _, fun _ => ?_, fun h => absurd h (by omega)⟩
                by_cases hw : i % W + 1 < W
                · rw [(div_mod_succ i W hw).2]; omega
                · rw [mod_succ_wrap i W (by omega)]; left; simpa using ho.1)
              (by simp only [if_true] at hf ⊢; omega)
            refine ⟨?_, hstep.2⟩
            intro a ha
            simp only [List.mem_append, List.mem_map, List.mem_range] at ha
            rcases ha with ⟨j, hj, rfl⟩ | ha
            · simp only [AccOk]; omega
            · exact hstep.1 a ha
          · -- the test passes: slack := dim(last) - Bc.dim(last) + 1
            simp only [hfail, if_false] at hff
            simp only [hmLoop, hiN, if_false, if_true, hff]
            have h0 := hinv0 rfl
            have hs0' : ¬ ((W : Int) - bw + 1 = 0) := by omega
            exact ih i ((W : Int) - bw + 1) hi
              (by
                intro _
                exact ⟨by omega, fun h => absurd h hs0', fun _ => ⟨hrow, by omega, by omega⟩⟩)
              (by simp only [hs0', if_false]; simp only [if_true] at hf; omega)
      · -- a processed pixel
        have hpos : 0 < slack := by omega
        obtain ⟨hrow, hc0, hc1⟩ := hinv1 hpos
        simp only [hmLoop, hiN, hs, if_false]
        have hfits : Fits (pre ++ [W]) (bpre ++ [bw]) (unravelI (pre ++ [W]) i) := by
          rw [unravelI_append pre W i hlt]
          exact Fits_append pre bpre _ W bw _
            (firstFail_none_fits pre bpre _ hlen (unravelI_length pre (i / W)) hrow) hc0 (by omega)
        have hnb := hm_neighbour_ok (pre ++ [W]) (bpre ++ [bw]) i hlt hfits
        have hstep := ih (i + 1) (slack - 1) (by omega)
          (by
            intro _
            unfold HmInv
            refine ⟨by omega, fun h1 => ?_, fun h1 => ?_⟩
            · by_cases hw : i % W + 1 < W
              · rw [(div_mod_succ i W hw).2]; right; omega
              · rw [mod_succ_wrap i W (by omega)]; left; simpa using ho.1
            · have hw : i % W + 1 < W := by omega
              rw [(div_mod_succ i W hw).1, (div_mod_succ i W hw).2]
              exact ⟨hrow, by omega, by omega⟩)
          (by
            simp only [hs, if_false] at hf
            split <;> omega)
        refine ⟨?_, hstep.2⟩
        intro a ha
        simp only [List.mem_append, List.mem_map, List.mem_cons, List.not_mem_nil, or_false] at ha
        rcases ha with (⟨δ, hδ, rfl⟩ | rfl) | ha
        · exact hnb δ hδ
        · simp only [AccOk]; omega
        · exact hstep.1 a ha

theorem hmRun_ok (pre bpre : List Nat) (W bw : Nat) (hlen : bpre.length = pre.length)
    (hpre : ∀ d ∈ pre, 0 < d) (hW : 0 < W) (hbw : 0 < bw) :
    (∀ a ∈ (hmRun (pre ++ [W]) (bpre ++ [bw]) true).1, AccOk a) ∧
    (hmRun (pre ++ [W]) (bpre ++ [bw]) true).2 = true := by
  have h := hmLoop_ok pre bpre W bw hlen hpre hW hbw (2 * shapeSize (pre ++ [W]) + 2) 0 0
    (Nat.zero_le _)
    (by
      intro _
      have ho := origin_spec bw
      unfold HmInv
      refine ⟨Int.le_refl _, fun _ => ?_, fun h => absurd h (by omega)⟩
      left; simpa using ho.1)
    (by simp)
  simpa [hmRun] using h

end Mahotas.C10
