/-
C10 — helper lemmas for B8: the inverse transforms `iwavelet`, `ihaar` (element offsets inside the row extent).
-/
import Mahotas.Proofs.C10Wavelet
import Mathlib.Tactic.Linarith
namespace Mahotas.C10
open Mahotas

/-- offsets `x*step` and `step*N1/2 + x*step` for `x < N1/2` lie inside the extent of a row of `N1`
    columns `step ≥ 1` elements apart -/
theorem rowExtent (n1 step x : Int) (hs : 1 ≤ step) (hx0 : 0 ≤ x) (hx : 2 * x + 2 ≤ n1) :
    (0 ≤ x * step ∧ x * step < (n1 - 1) * step + 1) ∧
    (0 ≤ (step * n1).tdiv 2 + x * step ∧ (step * n1).tdiv 2 + x * step < (n1 - 1) * step + 1) := by
  have hsn : 0 ≤ step * n1 := by nlinarith
  rw [Int.tdiv_eq_ediv_of_nonneg hsn]
  have hq1 : 2 * ((step * n1) / 2) ≤ step * n1 := by omega
  have hq0 : 0 ≤ (step * n1) / 2 := by omega
  have hxs : 0 ≤ x * step := by nlinarith
  have h2 : 2 * (x * step) + 2 * step ≤ n1 * step := by nlinarith
  refine ⟨⟨hxs, by nlinarith⟩, by omega, by nlinarith⟩

theorem colExtent (n1 step x : Int) (hs : 1 ≤ step) (hx0 : 0 ≤ x) (hx : x < n1) :
    0 ≤ step * x ∧ step * x < (n1 - 1) * step + 1 := by
  constructor <;> nlinarith

theorem ihaarAccesses_ok (n1 step : Int) (h : 0 ≤ n1) (hs : 1 ≤ step) :
    ∀ a ∈ ihaarAccesses n1 step, AccOk a := by
  intro a ha
  unfold AccOk
  simp only [ihaarAccesses, List.mem_append, List.mem_flatMap, List.mem_cons, List.not_mem_nil,
    or_false] at ha
  rcases ha with ⟨x, hx, hm⟩ | ⟨x, hx, hm⟩
  · have hx' := mem_iterNe 0 (n1 / 2) _ (by omega) x hx
    have he := rowExtent n1 step x hs (by omega) (by omega)
    rcases hm with rfl | rfl | rfl | rfl
    · exact he.2
    · exact he.1
    · simp only; omega
    · simp only; omega
  · have hx' := mem_iterNe 0 n1 _ h x hx
    rcases hm with rfl | rfl
    · exact colExtent n1 step x hs (by omega) (by omega)
    · simp only; omega

theorem iwaveletAccesses_ok (n1 nc step : Int) (h : 0 ≤ n1) (hc : 0 ≤ nc) (hs : 1 ≤ step) :
    ∀ a ∈ iwaveletAccesses n1 nc step, AccOk a := by
  intro a ha
  unfold AccOk
  simp only [iwaveletAccesses, List.mem_append, List.mem_flatMap, List.mem_cons, List.not_mem_nil,
    or_false, mem_rangeI] at ha
  rcases ha with ⟨x, hx, hm⟩ | ⟨x, hx, hm⟩
  · rcases hm with ⟨ci, hci, hm⟩ | rfl
    · have := mem_iterNe 0 nc _ hc ci hci
      split at hm
      · simp at hm
      · simp only [List.mem_append, List.mem_cons, List.not_mem_nil, or_false, List.mem_map] at hm
        rcases hm with ((rfl | rfl) | ⟨b, hb, rfl⟩) | ⟨b, hb, rfl⟩
        · simp only; omega
        · simp only; omega
        · obtain ⟨_, hb0, hb1, _⟩ := guardedAccess_ok _ _ b hb
          exact (rowExtent n1 step b.i hs hb0 (by omega)).1
        · obtain ⟨_, hb0, hb1, _⟩ := guardedAccess_ok _ _ b hb
          exact (rowExtent n1 step b.i hs hb0 (by omega)).2
    · simp only; omega
  · have hx' := mem_iterNe 0 n1 _ h x hx
    rcases hm with rfl | rfl
    · exact colExtent n1 step x hs (by omega) (by omega)
    · simp only; omega

end Mahotas.C10
