/-
C10 — helper lemmas for B8: `zoom_shift` (edge folding, odometer of the filter offsets, address identity).
-/
import Mahotas.Proofs.C10Tables
import Mathlib.Tactic.Ring
namespace Mahotas.C10
open Mahotas

/-- the edge folding of `zoom_shift` is the `mirror` rule of `fix_offset` -/
theorem zsFold_eq_mirror (len idx : Int) (h : 0 < len) :
    fixOffset .mirror idx len = some (zsFold len idx) := by
  unfold fixOffset zsFold
  by_cases h1 : len ≤ 1
  · have : len = 1 := by omega
    subst this
    by_cases h2 : idx < 0
    · simp [h2]
    · by_cases h3 : idx ≥ 1
      · simp [h2, h3]
      · have : idx = 0 := by omega
        subst this
        simp
  · simp only [h1, if_false]
    by_cases h2 : idx < 0
    · simp only [h2, if_true]
    · simp only [h2, if_false]
      by_cases h3 : idx ≥ len
      · simp only [h3, if_true]
      · simp only [h3, if_false]

theorem zsFold_range (len idx : Int) (h : 0 < len) : 0 ≤ zsFold len idx ∧ zsFold len idx < len :=
  fixOffset_range .mirror idx len h _ (zsFold_eq_mirror len idx h)

theorem zsCoord_range (len : Int) (order : Nat) (start f : Int) (h : 0 < len) (hf0 : 0 ≤ f)
    (hf1 : f ≤ order) : 0 ≤ zsCoord len order start f ∧ zsCoord len order start f < len := by
  unfold zsCoord
  split
  · exact zsFold_range len _ h
  · rename_i he
    simp only [zsEdge, decide_eq_true_eq] at he
    omega

theorem zsCoords_inside (order : Nat) : ∀ (shape : List Nat) (starts ff : List Int),
    (∀ d ∈ shape, 0 < d) → starts.length = shape.length → ff.length = shape.length →
    (∀ f ∈ ff, 0 ≤ f ∧ f ≤ (order : Int)) → inside shape (zsCoords shape order starts ff) = true
  | [], [], [], _, _, _, _ => rfl
  | [], _ :: _, _, _, h, _, _ => by simp at h
  | [], [], _ :: _, _, _, h, _ => by simp at h
  | a :: as, [], _, _, h, _, _ => by simp at h
  | a :: as, _ :: _, [], _, _, h, _ => by simp at h
  | a :: as, st :: sts, f :: fs, hpos, hs, hf, hr => by
    have ha : 0 < (a : Int) := by have := hpos a (by simp); omega
    have hc := zsCoord_range a order st f ha (hr f (by simp)).1 (hr f (by simp)).2
    have ih := zsCoords_inside order as sts fs (fun d hd => hpos d (by simp [hd])) (by simpa using hs)
      (by simpa using hf) (fun g hg => hr g (by simp [hg]))
    simp only [zsCoords, inside, Bool.and_eq_true, decide_eq_true_eq]
    exact ⟨⟨hc.1, hc.2⟩, ih⟩

/-- the `on_edge` sum plus `oo` is the address of the folded coordinates -/
theorem zsEdgeSum_eq (order : Nat) : ∀ (shape : List Nat) (ss starts ff : List Int),
    ss.length = shape.length → starts.length = shape.length → ff.length = shape.length →
    zsEdgeSum shape ss order starts ff + dot ss starts = dot ss (zsCoords shape order starts ff)
  | [], ss, _, _, h, _, _ => by
    have : ss = [] := List.length_eq_zero_iff.mp h
    subst this; simp [zsEdgeSum, dot]
  | a :: as, [], _, _, h, _, _ => by simp at h
  | a :: as, _ :: _, [], _, _, h, _ => by simp at h
  | a :: as, _ :: _, _ :: _, [], _, _, h => by simp at h
  | a :: as, s :: ss, st :: sts, f :: fs, h1, h2, h3 => by
    have ih := zsEdgeSum_eq order as ss sts fs (by simpa using h1) (by simpa using h2) (by simpa using h3)
    simp only [zsEdgeSum, zsCoords, dot, zsCoord]
    rw [← ih]
    split <;> ring

/-- without any edge axis: `oo + foffsets[fi]` is the address of `start + ff` -/
theorem zsNormal_eq (order : Nat) : ∀ (shape : List Nat) (ss starts ff : List Int),
    ss.length = shape.length → starts.length = shape.length → ff.length = shape.length →
    zsAnyEdge shape order starts = false →
    dot ss starts + dot ss ff = dot ss (zsCoords shape order starts ff)
  | [], ss, _, _, h, _, _, _ => by
    have : ss = [] := List.length_eq_zero_iff.mp h
    subst this; simp [dot]
  | a :: as, [], _, _, h, _, _, _ => by simp at h
  | a :: as, _ :: _, [], _, _, h, _, _ => by simp at h
  | a :: as, _ :: _, _ :: _, [], _, _, h, _ => by simp at h
  | a :: as, s :: ss, st :: sts, f :: fs, h1, h2, h3, he => by
    simp only [zsAnyEdge, Bool.or_eq_false_iff] at he
    have ih := zsNormal_eq order as ss sts fs (by simpa using h1) (by simpa using h2) (by simpa using h3) he.2
    simp only [zsCoords, dot, zsCoord, he.1]
    rw [← ih]
    simp only [Bool.false_eq_true, if_false]
    ring

/-- one odometer step keeps the coordinates in `[0, order]` and `off` in step with them -/
theorem zsOdoStep_spec (order : Int) (ho : 0 ≤ order) : ∀ (ss ff : List Int),
    ff.length = ss.length → (∀ f ∈ ff, 0 ≤ f ∧ f ≤ order) →
    (zsOdoStep order ss ff).1.length = ss.length ∧
    (∀ f ∈ (zsOdoStep order ss ff).1, 0 ≤ f ∧ f ≤ order) ∧
    dot ss (zsOdoStep order ss ff).1 = dot ss ff + (zsOdoStep order ss ff).2.1
  | [], [], _, _ => by simp [zsOdoStep, dot]
  | [], _ :: _, h, _ => by simp at h
  | _ :: _, [], h, _ => by simp at h
  | s :: ss, f :: fs, hl, hr => by
    have ih := zsOdoStep_spec order ho ss fs (by simpa using hl) (fun g hg => hr g (by simp [hg]))
    have hf := hr f (by simp)
    simp only [zsOdoStep]
    split
    · refine ⟨by simp [ih.1], ?_, ?_⟩
      · intro g hg
        rcases List.mem_cons.mp hg with rfl | hg
        · exact hf
        · exact ih.2.1 g hg
      · simp only [dot]; rw [ih.2.2]; ring
    · split
      · refine ⟨by simp [ih.1], ?_, ?_⟩
        · intro g hg
          rcases List.mem_cons.mp hg with rfl | hg
          · omega
          · exact ih.2.1 g hg
        · simp only [dot]; rw [ih.2.2]; ring
      · have hfo : f = order := by omega
        refine ⟨by simp [ih.1], ?_, ?_⟩
        · intro g hg
          rcases List.mem_cons.mp hg with rfl | hg
          · omega
          · exact ih.2.1 g hg
        · simp only [dot]; rw [ih.2.2, hfo]; ring

theorem dot_zeros (ss : List Int) : dot ss (ss.map fun _ => 0) = 0 := by
  induction ss with
  | nil => rfl
  | cons s ss ih => simp [dot, ih]

theorem zsOdo_spec (order : Int) (ho : 0 ≤ order) (ss : List Int) : ∀ n : Nat,
    (zsOdo order ss n).1.length = ss.length ∧ (∀ f ∈ (zsOdo order ss n).1, 0 ≤ f ∧ f ≤ order) ∧
    (zsOdo order ss n).2 = dot ss (zsOdo order ss n).1
  | 0 => by
    refine ⟨by simp [zsOdo], ?_, by simp [zsOdo, dot_zeros]⟩
    intro f hf
    simp only [zsOdo, List.mem_map] at hf
    obtain ⟨_, _, rfl⟩ := hf
    omega
  | n + 1 => by
    have ih := zsOdo_spec order ho ss n
    have st := zsOdoStep_spec order ho ss (zsOdo order ss n).1 ih.1 ih.2.1
    simp only [zsOdo]
    refine ⟨st.1, st.2.1, ?_⟩
    rw [st.2.2, ih.2.2]

theorem dot_cStrides : ∀ (shape : List Nat) (q : List Int), dot (cStrides shape) q = ravelZ shape q
  | [], _ => by simp [cStrides, dot, ravelZ]
  | _ :: _, [] => by simp [cStrides, dot, ravelZ]
  | d :: ds, p :: ps => by
    simp only [cStrides, dot, ravelZ, dot_cStrides ds ps]
    ring

theorem cStrides_length : ∀ shape : List Nat, (cStrides shape).length = shape.length
  | [] => rfl
  | _ :: ds => by simp [cStrides, cStrides_length ds]

/-- every `idxs[fi]` is the address `Σ stride·q` of a position `q` inside the array -/
theorem zsAccesses_address (shape : List Nat) (strides : List Int) (order : Nat) (starts : List Int)
    (hpos : ∀ d ∈ shape, 0 < d) (hs : strides.length = shape.length)
    (hst : starts.length = shape.length) :
    ∀ idx ∈ zsAccesses shape strides order starts,
      ∃ q, inside shape q = true ∧ idx = dot strides q := by
  intro idx hidx
  simp only [zsAccesses, List.mem_map] at hidx
  obtain ⟨fi, _, rfl⟩ := hidx
  obtain ⟨h1, h2, h3⟩ := zsOdo_spec order (by omega) strides fi
  refine ⟨zsCoords shape order starts (zsOdo order strides fi).1,
    zsCoords_inside order shape starts _ hpos hst (by omega) h2, ?_⟩
  simp only [zsIdx]
  split
  · exact zsEdgeSum_eq order shape strides starts _ hs hst (by omega)
  · rename_i he
    rw [h3]
    exact zsNormal_eq order shape strides starts _ hs hst (by omega) (by simpa using he)

theorem zsBase_range (m : Mode) (len c b : Int) (h : 0 < len) (hb : zsBase m len c = some b) :
    0 ≤ b ∧ b < len := by
  unfold zsBase at hb
  split at hb
  · exact fixOffset_range m c len h b hb
  · simp only [Option.some.injEq] at hb
    omega

theorem zsStarts_length (m : Mode) (order : Nat) : ∀ (shape : List Nat) (coord starts : List Int),
    coord.length = shape.length → zsStarts m order shape coord = some starts →
    starts.length = shape.length
  | [], [], starts, _, h => by simp [zsStarts] at h; simp [← h]
  | [], _ :: _, _, h, _ => by simp at h
  | _ :: _, [], _, h, _ => by simp at h
  | a :: as, c :: cs, starts, hl, h => by
    simp only [zsStarts] at h
    cases hb : zsBase m a c with
    | none => simp [hb] at h
    | some b =>
      cases hr : zsStarts m order as cs with
      | none => simp [hb, hr] at h
      | some r =>
        simp only [hb, hr, Option.some.injEq] at h
        subst h
        simp [zsStarts_length m order as cs r (by simpa using hl) hr]

end Mahotas.C10
