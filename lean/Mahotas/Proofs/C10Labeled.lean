/-
C10 (round 4) — helper lemmas for `Model/C10Labeled.lean`.
-/
import Mahotas.Model.C10Labeled
namespace Mahotas.C10Labeled
open Mahotas

end Mahotas.C10Labeled
