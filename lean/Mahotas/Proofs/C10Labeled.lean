/-
C10 (round 4) — helper lemmas for `Model/C10Labeled.lean`: with the union–find invariant of C03 (`C03.Inv`: every foreground
cell has a root chain `RootN` inside the array) every index `find`/`join`/`compress` dereference is in range and no recursion
is deeper than the array is long.
-/
import Mahotas.Model.C10Labeled
import Mahotas.Proofs.C03Label
namespace Mahotas.C10Labeled
open Mahotas Mahotas.C03

/-- "every index of the trace is a cell of an array of `n` cells" -/
def InR (n : Nat) (l : List Int) : Prop := ∀ x ∈ l, 0 ≤ x ∧ x < (n : Int)

theorem inRange_iff (n : Nat) (l : List Int) : inRange n l = true ↔ InR n l := by
  simp [inRange, InR]

theorem InR.append {n : Nat} {a b : List Int} (ha : InR n a) (hb : InR n b) : InR n (a ++ b) := by
  intro x hx
  rcases List.mem_append.mp hx with h | h
  · exact ha x h
  · exact hb x h

/-- one `find` from a cell with a root chain of depth `d < fuel`: the recursion ends, every index is in range -/
theorem findAcc_ok : ∀ (fuel : Nat) (par : Array Int) (i r d : Nat), RootN par i r d → d < fuel →
    (findAcc fuel par (i : Int)).2 = true ∧ InR par.size (findAcc fuel par (i : Int)).1 := by
  intro fuel
  induction fuel with
  | zero => intro par i r d _ hd; omega
  | succ f ih =>
    intro par i r d h hd
    have hi : i < par.size := h.lt
    have hin : InR par.size [(i : Int)] := by
      intro x hx; simp only [List.mem_singleton] at hx; subst hx; omega
    simp only [findAcc]
    rw [if_neg (by omega), Int.toNat_natCast]
    cases h with
    | base _ hb =>
      rw [if_pos hb]
      exact ⟨rfl, hin⟩
    | @step _ p _ d' _ hp hne hrest =>
      rw [hp, if_neg (by intro e; exact hne (by exact_mod_cast e))]
      obtain ⟨h1, h2⟩ := ih par p r d' hrest (by omega)
      refine ⟨h1, ?_⟩
      intro x hx
      simp only [List.cons_append, List.mem_cons, List.mem_append, List.mem_nil_iff, or_false] at hx
      rcases hx with rfl | hx | rfl
      · omega
      · exact h2 x hx
      · omega

/-- "some edge relation makes `par` satisfy the C03 invariant" -/
def HasInv (data : List Int) (par : Array Int) : Prop := ∃ E, Inv data par E

theorem joinAcc_ok {data : List Int} {par : Array Int} {E : Nat → Nat → Prop} (h : Inv data par E)
    {i nb p : Nat} (hfi : Fg data i) (hfn : Fg data nb) (hp : par.getD nb (-1) = (p : Int)) :
    (joinAcc (data.length + 1) par (i : Int) (p : Int)).2 = true ∧
      InR data.length (joinAcc (data.length + 1) par (i : Int) (p : Int)).1 := by
  obtain ⟨ri, di, hi⟩ := h.fg i hfi
  obtain ⟨rn, dn, hn⟩ := h.fg nb hfn
  have hpr : ∃ dp, RootN par p rn dp := by
    cases hn with
    | base _ hb =>
      rw [hb] at hp
      have := Int.ofNat.inj hp
      subst this
      exact ⟨0, RootN.base (by assumption) hb⟩
    | step _ hp' _ hrest =>
      rw [hp'] at hp
      have := Int.ofNat.inj hp
      subst this
      exact ⟨_, hrest⟩
  obtain ⟨dp, hpn⟩ := hpr
  have hdi : di < data.length + 1 := by have := hi.depth_lt; rw [h.size] at this; omega
  have hdp : dp < data.length + 1 := by have := hpn.depth_lt; rw [h.size] at this; omega
  obtain ⟨a1, a2, a3⟩ := find_spec (data.length + 1) par i ri di hi (by omega)
  obtain ⟨dp1, hdp1, hp1⟩ := a3 p rn dp hpn
  obtain ⟨f1, f2⟩ := findAcc_ok (data.length + 1) par i ri di hi hdi
  obtain ⟨g1, g2⟩ := findAcc_ok (data.length + 1) (find (data.length + 1) par i).1 p rn dp1 hp1 (by omega)
  rw [a2] at g2
  rw [h.size] at f2 g2
  simp only [joinAcc, Int.toNat_natCast]
  refine ⟨by rw [f1, g1]; rfl, (f2.append g2).append ?_⟩
  intro x hx
  simp only [List.mem_singleton] at hx
  subst hx
  rw [a1]
  have := hi.isRoot.1
  rw [h.size] at this
  omega

/-- the trace invariant: the array satisfies the C03 invariant, all indices so far are in range, every recursion ended -/
def Good (data : List Int) (st : Trace) : Prop := HasInv data st.1 ∧ InR data.length st.2.1 ∧ st.2.2 = true

theorem inner_fst (fuel i : Nat) : ∀ (nbs : List Nat) (st : Trace),
    (nbs.foldl (innerAcc fuel i) st).1 = nbs.foldl (fun par nb =>
        let v := par.getD nb (-1)
        if v = -1 then par else C03.join fuel par i v.toNat) st.1 := by
  intro nbs
  induction nbs with
  | nil => intro st; rfl
  | cons nb nbs ih =>
    intro st
    simp only [List.foldl_cons]
    rw [ih]
    congr 1
    simp only [innerAcc]
    split <;> rfl

theorem inner_good (data : List Int) (i : Nat) (hfi : Fg data i) : ∀ (nbs : List Nat) (st : Trace),
    Good data st → Good data (nbs.foldl (innerAcc (data.length + 1) i) st) := by
  intro nbs
  induction nbs with
  | nil => intro st h; exact h
  | cons nb nbs ih =>
    intro st h
    simp only [List.foldl_cons]
    apply ih
    obtain ⟨⟨E, hE⟩, hr, ht⟩ := h
    simp only [innerAcc]
    by_cases hv : st.1.getD nb (-1) = -1
    · rw [if_pos hv]; exact ⟨⟨E, hE⟩, hr, ht⟩
    · rw [if_neg hv]
      have hnb : Fg data nb := by
        by_contra hc
        exact hv (hE.bg nb hc)
      obtain ⟨p, hp⟩ := hE.fg_value hnb
      have hj := join_inv hE hfi hnb hp
      obtain ⟨j1, j2⟩ := joinAcc_ok hE hfi hnb hp
      rw [hp, Int.toNat_natCast]
      exact ⟨⟨_, hj⟩, hr.append j2, by simp only [ht, j1]; rfl⟩

theorem scanPixel_good (m : Mode) (shape : List Nat) (offs : List (List Int)) (data : List Int) (st : Trace) (i : Nat)
    (h : Good data st) : Good data (scanPixelAcc m shape offs (data.length + 1) st i) := by
  unfold scanPixelAcc
  by_cases hv : st.1.getD i (-1) = -1
  · rw [if_pos hv]; exact h
  · rw [if_neg hv]
    have hh := h
    obtain ⟨⟨E, hE⟩, _, _⟩ := hh
    have hfi : Fg data i := by
      by_contra hc
      exact hv (hE.bg i hc)
    exact inner_good data i hfi _ st h

theorem compress_good (data : List Int) (st : Trace) (i : Nat) (h : Good data st) :
    Good data (compressAcc (data.length + 1) st i) := by
  unfold compressAcc
  by_cases hv : st.1.getD i (-1) = -1
  · rw [if_pos hv]; exact h
  · rw [if_neg hv]
    obtain ⟨⟨E, hE⟩, hr, ht⟩ := h
    have hfi : Fg data i := by
      by_contra hc
      exact hv (hE.bg i hc)
    obtain ⟨r, d, hroot⟩ := hE.fg i hfi
    have hd : d < data.length + 1 := by have := hroot.depth_lt; rw [hE.size] at this; omega
    obtain ⟨f1, f2⟩ := findAcc_ok (data.length + 1) st.1 i r d hroot hd
    rw [hE.size] at f2
    exact ⟨⟨E, find_inv hE hroot⟩, hr.append f2, by simp only [ht, f1]; rfl⟩

theorem foldl_good {α : Type} (P : Trace → Prop) (f : Trace → α → Trace) (hf : ∀ st a, P st → P (f st a)) :
    ∀ (l : List α) (st : Trace), P st → P (l.foldl f st) := by
  intro l
  induction l with
  | nil => intro st h; exact h
  | cons a l ih => intro st h; exact ih _ (hf st a h)

theorem labelUF_good (m : Mode) (shape : List Nat) (data : List Int) (offs : List (List Int)) :
    Good data (labelUF m shape data offs (data.length + 1)) := by
  simp only [labelUF]
  refine foldl_good (Good data) _ (fun st i hst => compress_good data st i hst) _ _ ?_
  refine foldl_good (Good data) _ (fun st i hst => scanPixel_good m shape offs data st i hst) _ _ ?_
  exact ⟨⟨_, init_inv data⟩, by intro x hx; simp at hx, rfl⟩

/-- the array the trace carries is the array `C03.parents` computes -/
theorem labelUF_parents (m : Mode) (shape : List Nat) (data : List Int) (offs : List (List Int)) :
    (labelUF m shape data offs (data.length + 1)).1 = C03.parents m shape data offs := by
  have hscan : ∀ (l : List Nat) (st : Trace),
      (l.foldl (scanPixelAcc m shape offs (data.length + 1)) st).1 =
        l.foldl (C03.scanPixel m shape offs (data.length + 1)) st.1 := by
    intro l
    induction l with
    | nil => intro st; rfl
    | cons i l ih =>
      intro st
      simp only [List.foldl_cons]
      rw [ih]
      congr 1
      unfold scanPixelAcc C03.scanPixel
      split
      · rfl
      · exact inner_fst _ _ _ _
  have hcomp : ∀ (l : List Nat) (st : Trace),
      (l.foldl (compressAcc (data.length + 1)) st).1 =
        l.foldl (fun par i => if par.getD i (-1) = -1 then par else C03.compress (data.length + 1) par i) st.1 := by
    intro l
    induction l with
    | nil => intro st; rfl
    | cons i l ih =>
      intro st
      simp only [List.foldl_cons]
      rw [ih]
      congr 1
      unfold compressAcc
      split <;> rfl
  unfold labelUF C03.parents
  rw [hcomp, hscan]

/-- under the invariant every cell holds the background mark `-1` or the index of a cell -/
theorem inv_entries {data : List Int} {par : Array Int} {E : Nat → Nat → Prop} (h : Inv data par E) (i : Nat) :
    par.getD i (-1) = -1 ∨ (0 ≤ par.getD i (-1) ∧ par.getD i (-1) < (data.length : Int)) := by
  by_cases hf : Fg data i
  · right
    obtain ⟨r, d, hr⟩ := h.fg i hf
    cases hr with
    | base hlt hb => rw [hb]; rw [h.size] at hlt; omega
    | @step _ p _ d' _ hp _ hrest =>
      rw [hp]
      have := hrest.lt
      rw [h.size] at this
      omega
  · exact Or.inl (h.bg i hf)

end Mahotas.C10Labeled
