/-
C10 — a line of an n-D array: `line = &array[p]` with `p[axis] = 0`, `line[stride(axis)·ll]` is the element
at `p` with the axis coordinate replaced by `ll` (used by `spline_filter1d`, and with `axis = 1` by the rows
of `haar` / `wavelet`).
-/
import Mahotas.Proofs.C10Tables
import Mathlib.Tactic.Ring
namespace Mahotas.C10
open Mahotas

theorem line_address : ∀ (shape : List Nat) (strides p : List Int) (axis : Nat) (ll : Int),
    inside shape p = true → strides.length = shape.length → axis < shape.length →
    p.getD axis 0 = 0 → 0 ≤ ll → ll < ((shape.getD axis 0 : Nat) : Int) →
    inside shape (p.set axis ll) = true ∧
    dot strides p + strides.getD axis 0 * ll = dot strides (p.set axis ll)
  | [], _, _, _, _, _, _, h, _, _, _ => by simp at h
  | _ :: _, _, [], _, _, h, _, _, _, _, _ => by simp [inside] at h
  | _ :: _, [], _ :: _, _, _, _, h, _, _, _, _ => by simp at h
  | d :: ds, s :: ss, c :: cs, 0, ll, hin, _, _, h0, hl0, hl1 => by
    simp only [inside, Bool.and_eq_true, decide_eq_true_eq] at hin
    simp only [List.getD_cons_zero] at h0 hl1
    subst h0
    simp only [List.set_cons_zero, inside, Bool.and_eq_true, decide_eq_true_eq, dot, List.getD_cons_zero]
    exact ⟨⟨⟨hl0, hl1⟩, hin.2⟩, by ring⟩
  | d :: ds, s :: ss, c :: cs, axis + 1, ll, hin, hs, ha, h0, hl0, hl1 => by
    simp only [inside, Bool.and_eq_true, decide_eq_true_eq] at hin
    simp only [List.getD_cons_succ] at h0 hl1
    have ih := line_address ds ss cs axis ll hin.2 (by simpa using hs) (by simpa using ha) h0 hl0 hl1
    simp only [List.set_cons_succ, inside, Bool.and_eq_true, decide_eq_true_eq, dot, List.getD_cons_succ]
    exact ⟨⟨hin.1, ih.1⟩, by rw [← ih.2]; ring⟩

end Mahotas.C10
