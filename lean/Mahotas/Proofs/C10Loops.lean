/-
C10 — helper lemmas for B2 (`fast_binary_dilate_erode_2d`) and B3 (`convolve1d`, `find2d`, `majority_filter`).
-/
import Mahotas.Proofs.C10
namespace Mahotas.C10
open Mahotas

/-! ## B2 -/

theorem fbClampDx_range (nx dx : Int) (h : 0 ≤ nx) :
    -nx ≤ fbClampDx nx dx ∧ fbClampDx nx dx ≤ nx := by
  unfold fbClampDx; simp only; split <;> split <;> omega

theorem fbRowDy_range (ny y dy : Int) (h0 : 0 ≤ y) (h1 : y < ny) :
    0 ≤ y + fbRowDy ny y dy ∧ y + fbRowDy ny y dy < ny := by
  unfold fbRowDy; simp only; split <;> split <;> omega

theorem fbAccesses_ok (ny nx y dy0 dx : Int) (er : Bool) (hnx : 0 < nx) (h0 : 0 ≤ y) (h1 : y < ny)
    (hdx0 : -nx ≤ dx) (hdx1 : dx ≤ nx) :
    ∀ a ∈ fbAccesses ny nx y dy0 dx er, 0 ≤ a.i ∧ a.i < a.size := by
  intro a ha
  have hr := fbRowDy_range ny y dy0 h0 h1
  simp only [fbAccesses, List.mem_append, List.mem_cons, List.mem_flatMap, List.not_mem_nil,
    or_false] at ha
  rcases ha with ((rfl | rfl) | hb) | ⟨i, hi, hm⟩
  · exact ⟨h0, h1⟩
  · exact hr
  · split at hb
    · obtain ⟨i, hi, hm⟩ := List.mem_flatMap.mp hb
      have := mem_iterNe 0 dx _ (by omega) i hi
      cases er <;> simp at hm <;> rcases hm with rfl | rfl <;> simp <;> omega
    · split at hb
      · obtain ⟨i, hi, hm⟩ := List.mem_flatMap.mp hb
        have := mem_iterNe 0 (-dx) _ (by omega) i hi
        cases er <;> simp at hm <;> rcases hm with rfl | rfl <;> simp <;> omega
      · simp at hb
  · have := mem_iterNe 0 _ _ (by omega) i hi
    cases er <;> simp at hm <;> rcases hm with rfl | rfl <;> simp <;> split <;> omega

theorem fbDone_ok (nx dx : Int) (hnx : 0 < nx) (hdx0 : -nx ≤ dx) (hdx1 : dx ≤ nx) :
    fbDone nx dx = true := by
  simp only [fbDone, Bool.and_eq_true]
  refine ⟨?_, iterNeDone_of_le _ _ _ (by omega) (by omega)⟩
  split
  · exact iterNeDone_of_le _ _ _ (by omega) (by omega)
  · split
    · exact iterNeDone_of_le _ _ _ (by omega) (by omega)
    · rfl

/-! ## B3 -/

theorem conv1dAccesses_ok (m : Mode) (n1 nf : Int) (h1 : 0 < n1) (hf : 0 ≤ nf)
    (hg : 2 * (nf / 2) ≤ n1) :
    ∀ a ∈ conv1dAccesses m n1 nf, 0 ≤ a.i ∧ a.i < a.size := by
  intro a ha
  simp only [conv1dAccesses, List.mem_append] at ha
  rcases ha with ha | ha
  · split at ha
    · simp at ha
    · obtain ⟨x, hx, hm⟩ := List.mem_flatMap.mp ha
      have hx' := mem_iterNe _ _ _ (by omega) x hx
      simp only [List.mem_append, List.mem_map, List.mem_cons, List.not_mem_nil, or_false] at hm
      rcases hm with ⟨j, hj, rfl⟩ | rfl
      · rw [mem_rangeI] at hj
        simp only
        omega
      · simp only
        omega
  · obtain ⟨x_, hx, hm⟩ := List.mem_flatMap.mp ha
    rw [mem_rangeI] at hx
    simp only [List.mem_append, List.mem_filterMap, List.mem_cons, List.not_mem_nil, or_false] at hm
    rcases hm with ⟨j, _, hj⟩ | rfl
    · cases ho : fixOffset m ((if x_ < nf / 2 then x_ else n1 - 1 - (x_ - nf / 2)) + (j - nf / 2)) n1 with
      | none => simp [ho] at hj
      | some o =>
        simp only [ho, Option.map_some, Option.some.injEq] at hj
        subst hj
        exact fixOffset_range m _ n1 h1 o ho
    · simp only
      split <;> omega

theorem conv1dDone_ok (n1 nf : Int) (hf : 0 ≤ nf) (hg : 2 * (nf / 2) ≤ n1) : conv1dDone n1 nf = true := by
  simp only [conv1dDone]
  split
  · rfl
  · exact iterNeDone_of_le _ _ _ (by omega) (by omega)

theorem find2dAccesses_ok (n0 n1 t0 t1 : Int) (incl : Bool) (ht0 : 1 ≤ t0) (ht1 : 1 ≤ t1) :
    ∀ a ∈ find2dAccesses n0 n1 t0 t1 incl, 0 ≤ a.i ∧ a.i < a.size := by
  intro a ha
  simp only [find2dAccesses, List.mem_flatMap, List.mem_append, List.mem_cons, List.not_mem_nil,
    or_false, mem_rangeI] at ha
  obtain ⟨y, hy, x, hx, hm⟩ := ha
  have he : (if incl = true then (1 : Int) else 0) ≤ 1 := by split <;> omega
  rcases hm with ⟨sy, hsy, sx, hsx, rfl | rfl | rfl | rfl⟩ | rfl | rfl <;> simp only <;> omega

theorem flat2_range (r c R C : Int) (hr0 : 0 ≤ r) (hr1 : r < R) (hc0 : 0 ≤ c) (hc1 : c < C) :
    0 ≤ r * C + c ∧ r * C + c < R * C := by
  constructor
  · have : 0 ≤ r * C := Int.mul_nonneg hr0 (by omega)
    omega
  · have h : (r + 1) * C ≤ R * C := Int.mul_le_mul_of_nonneg_right (by omega) (by omega)
    rw [Int.add_mul] at h
    omega

theorem majorityAccesses_ok (rows cols n : Int) (hn : 0 ≤ n) :
    ∀ a ∈ majorityAccesses rows cols n, 0 ≤ a.i ∧ a.i < a.size := by
  intro a ha
  simp only [majorityAccesses] at ha
  split at ha
  · simp at ha
  · rename_i hg
    simp only [List.mem_flatMap, List.mem_append, List.mem_cons, List.not_mem_nil, or_false] at ha
    obtain ⟨y, hy, x, hx, hm⟩ := ha
    have hy' := mem_iterNe _ _ _ (by omega) y hy
    have hx' := mem_iterNe _ _ _ (by omega) x hx
    rcases hm with ⟨dy, hdy, dx, hdx, rfl | rfl⟩ | rfl
    · have := mem_iterNe _ _ _ hn dy hdy
      simp only; omega
    · have := mem_iterNe _ _ _ hn dx hdx
      simp only; omega
    · simp only
      have := flat2_range (y + n / 2) (n / 2 + x) rows cols (by omega) (by omega) (by omega) (by omega)
      omega

theorem majorityDone_ok (rows cols n : Int) (hn : 0 ≤ n) : majorityDone rows cols n = true := by
  simp only [majorityDone]
  split
  · rfl
  · simp only [Bool.and_eq_true]
    refine ⟨⟨⟨?_, ?_⟩, ?_⟩, ?_⟩ <;> exact iterNeDone_of_le _ _ _ (by omega) (by omega)

end Mahotas.C10
