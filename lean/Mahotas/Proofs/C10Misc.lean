/-
C10 (round 3) — helper lemmas: `histogram`, `bbox` (fast path with skip-ahead, generic path),
`remove_regions` (`std::lower_bound` / `std::binary_search`), `relabel`.
-/
import Mahotas.Model.C10Misc
import Mathlib.Tactic.Linarith
import Mathlib.Tactic.Ring
namespace Mahotas.C10Misc
open Mahotas

def MOk (a : MAcc) : Prop := 0 ≤ a.i ∧ a.i < a.size

theorem mem_rangeI (n v : Int) : v ∈ rangeI n ↔ 0 ≤ v ∧ v < n := by
  simp only [rangeI, List.mem_map, List.mem_range]
  constructor
  · rintro ⟨a, ha, rfl⟩
    simp only [Int.ofNat_eq_natCast]
    omega
  · rintro ⟨h0, h1⟩
    exact ⟨v.toNat, by omega, by simp only [Int.ofNat_eq_natCast]; omega⟩

theorem allOk_iff (l : List MAcc) : allOk l = true ↔ ∀ a ∈ l, MOk a := by
  simp [allOk, MAcc.ok, MOk]

theorem mem_zipIdx_lt {α : Type} (l : List α) (x : α) (i : Nat) (h : (x, i) ∈ l.zipIdx) :
    i < l.length ∧ x ∈ l := by
  have hb := List.mem_zipIdx_iff_getElem?.mp h
  simp only at hb
  obtain ⟨hi, rfl⟩ := List.getElem?_eq_some_iff.mp hb
  exact ⟨hi, List.getElem_mem hi⟩

/-! ## histogram -/

theorem histTypeRange_lo (ty : Nat) (lo hi : Int) (h : histTypeRange ty = some (lo, hi)) : lo = 0 := by
  unfold histTypeRange at h
  split at h <;> simp at h <;> omega

theorem le_foldl_max (vs : List Int) (v0 : Int) : v0 ≤ vs.foldl max v0 ∧ ∀ v ∈ vs, v ≤ vs.foldl max v0 := by
  induction vs generalizing v0 with
  | nil => simp
  | cons w ws ih =>
    simp only [List.foldl_cons, List.mem_cons]
    have h := ih (max v0 w)
    refine ⟨by have := h.1; omega, ?_⟩
    rintro v (rfl | hv)
    · have := h.1; omega
    · exact h.2 v hv

theorem histWrapperSize_gt (vals : List Int) (s : Int) (h : histWrapperSize vals = some s) :
    ∀ v ∈ vals, v < s := by
  cases vals with
  | nil => simp [histWrapperSize] at h
  | cons v0 vs =>
    simp only [histWrapperSize, Option.some.injEq] at h
    have hm := le_foldl_max vs v0
    intro v hv
    rcases List.mem_cons.mp hv with rfl | hv
    · have := hm.1; omega
    · have := hm.2 v hv; omega

theorem histAccesses_ok (vals : List Int) (s : Int) (h0 : ∀ v ∈ vals, 0 ≤ v) (h1 : ∀ v ∈ vals, v < s) :
    ∀ a ∈ histAccesses vals s, MOk a := by
  intro a ha
  simp only [histAccesses, List.mem_flatMap, List.mem_cons, List.not_mem_nil, or_false] at ha
  obtain ⟨⟨v, i⟩, hvi, hm⟩ := ha
  obtain ⟨hi, hv⟩ := mem_zipIdx_lt vals v i hvi
  unfold MOk
  rcases hm with rfl | rfl
  · simp only; omega
  · simp only; exact ⟨h0 v hv, h1 v hv⟩

theorem histAccesses_bad (vals : List Int) (s : Int) (v : Int) (hv : v ∈ vals) (hbad : v < 0 ∨ s ≤ v) :
    ¬ ∀ a ∈ histAccesses vals s, MOk a := by
  intro h
  obtain ⟨i, hi, rfl⟩ := List.getElem_of_mem hv
  have hmem : (vals[i], i) ∈ vals.zipIdx :=
    List.mem_zipIdx_iff_getElem?.mpr (by simp [List.getElem?_eq_getElem hi])
  have := h (MAcc.mk vals[i] s) (by
    simp only [histAccesses, List.mem_flatMap, List.mem_cons, List.not_mem_nil, or_false]
    exact ⟨(vals[i], i), hmem, Or.inr rfl⟩)
  unfold MOk at this
  simp only at this
  omega

/-! ## bbox: the 2-D fast path -/

/-- one row: the pointer is `base + x`, the row occupies `[base, base + n1)` inside the buffer; `extrema[3]` is in
    `[0, n1]`. Then every access is in range, the row ends with the pointer at `base + n1` (the start of the
    next row) and the invariants on the extrema are kept. -/
theorem bfRow_spec (px : Int → Bool) (size n0 n1 y base : Int) (hy0 : 0 ≤ y) (hy1 : y < n0)
    (hb0 : 0 ≤ base) (hb1 : base + n1 ≤ size) :
    ∀ (f : Nat) (x ptr : Int) (e : Ext4), 0 ≤ x → x ≤ n1 → ptr = base + x → n1 - x ≤ f →
      0 ≤ e.e3 → e.e3 ≤ n1 → 0 ≤ e.e0 → e.e0 ≤ n0 → 0 ≤ e.e1 → e.e1 ≤ n0 → 0 ≤ e.e2 → e.e2 ≤ n1 →
      (∀ a ∈ (bfRow px size n1 y f x ptr e).1, MOk a) ∧
      (bfRow px size n1 y f x ptr e).2.1 = base + n1 ∧
      (bfRow px size n1 y f x ptr e).2.2.2 = true ∧
      (0 ≤ (bfRow px size n1 y f x ptr e).2.2.1.e3 ∧ (bfRow px size n1 y f x ptr e).2.2.1.e3 ≤ n1 ∧
       0 ≤ (bfRow px size n1 y f x ptr e).2.2.1.e0 ∧ (bfRow px size n1 y f x ptr e).2.2.1.e0 ≤ n0 ∧
       0 ≤ (bfRow px size n1 y f x ptr e).2.2.1.e1 ∧ (bfRow px size n1 y f x ptr e).2.2.1.e1 ≤ n0 ∧
       0 ≤ (bfRow px size n1 y f x ptr e).2.2.1.e2 ∧ (bfRow px size n1 y f x ptr e).2.2.1.e2 ≤ n1)
  | 0, x, ptr, e, hx0, hx1, hp, hf, h30, h31, h00, h01, h10, h11, h20, h21 => by
    have : x = n1 := by omega
    subst this
    simp only [bfRow]
    refine ⟨by simp, hp, by simp, h30, h31, h00, h01, h10, h11, h20, h21⟩
  | f + 1, x, ptr, e, hx0, hx1, hp, hf, h30, h31, h00, h01, h10, h11, h20, h21 => by
    simp only [bfRow]
    by_cases hx : x < n1
    · simp only [hx, if_true]
      have hhere : ∀ a ∈ [MAcc.mk ptr size, MAcc.mk x n1], MOk a := by
        intro a ha
        simp only [List.mem_cons, List.not_mem_nil, or_false] at ha
        unfold MOk
        rcases ha with rfl | rfl <;> simp only <;> omega
      have hex : ∀ a ∈ [MAcc.mk 0 4, MAcc.mk 1 4, MAcc.mk 2 4, MAcc.mk 3 4], MOk a := by
        intro a ha
        simp only [List.mem_cons, List.not_mem_nil, or_false] at ha
        unfold MOk
        rcases ha with rfl | rfl | rfl | rfl <;> simp only <;> omega
      by_cases hpx : px ptr = true
      · simp only [hpx, if_true]
        by_cases hs : x + 1 < e.e3
        · simp only [hs, if_true]
          have ih := bfRow_spec px size n0 n1 y base hy0 hy1 hb0 hb1 f (x + (e.e3 - x - 1) + 1)
            (ptr + (e.e3 - x - 1) + 1) ⟨min e.e0 y, max e.e1 (y + 1), min e.e2 x, e.e3⟩
            (by omega) (by omega) (by omega) (by push_cast at hf; omega) h30 h31
            (by simp only; omega) (by simp only; omega) (by simp only; omega) (by simp only; omega)
            (by simp only; omega) (by simp only; omega)
          refine ⟨?_, ih.2.1, ih.2.2.1, ih.2.2.2⟩
          intro a ha
          rcases List.mem_append.mp ha with ha | ha
          · rcases List.mem_append.mp ha with ha | ha
            · exact hhere a ha
            · exact hex a ha
          · exact ih.1 a ha
        · simp only [hs, if_false]
          have ih := bfRow_spec px size n0 n1 y base hy0 hy1 hb0 hb1 f (x + 1) (ptr + 1)
            ⟨min e.e0 y, max e.e1 (y + 1), min e.e2 x, x + 1⟩
            (by omega) (by omega) (by omega) (by push_cast at hf; omega) (by simp only; omega)
            (by simp only; omega)
            (by simp only; omega) (by simp only; omega) (by simp only; omega) (by simp only; omega)
            (by simp only; omega) (by simp only; omega)
          refine ⟨?_, ih.2.1, ih.2.2.1, ih.2.2.2⟩
          intro a ha
          rcases List.mem_append.mp ha with ha | ha
          · rcases List.mem_append.mp ha with ha | ha
            · exact hhere a ha
            · exact hex a ha
          · exact ih.1 a ha
      · simp only [hpx, Bool.false_eq_true, if_false]
        have ih := bfRow_spec px size n0 n1 y base hy0 hy1 hb0 hb1 f (x + 1) (ptr + 1) e
          (by omega) (by omega) (by omega) (by push_cast at hf; omega) h30 h31 h00 h01 h10 h11 h20 h21
        refine ⟨?_, ih.2.1, ih.2.2.1, ih.2.2.2⟩
        intro a ha
        rcases List.mem_append.mp ha with ha | ha
        · exact hhere a ha
        · exact ih.1 a ha
    · have : x = n1 := by omega
      subst this
      simp only [hx, if_false]
      refine ⟨by simp, hp, trivial, h30, h31, h00, h01, h10, h11, h20, h21⟩

theorem bfRows_spec (px : Int → Bool) (n0 n1 : Int) (hn1 : 0 ≤ n1) :
    ∀ (c : Nat) (y ptr : Int) (e : Ext4), 0 ≤ y → y + c = n0 → ptr = y * n1 →
      0 ≤ e.e3 → e.e3 ≤ n1 → 0 ≤ e.e0 → e.e0 ≤ n0 → 0 ≤ e.e1 → e.e1 ≤ n0 → 0 ≤ e.e2 → e.e2 ≤ n1 →
      (∀ a ∈ (bfRows px (n0 * n1) n1 c y ptr e).1, MOk a) ∧
      (bfRows px (n0 * n1) n1 c y ptr e).2.2 = true ∧
      (0 ≤ (bfRows px (n0 * n1) n1 c y ptr e).2.1.e3 ∧ (bfRows px (n0 * n1) n1 c y ptr e).2.1.e3 ≤ n1 ∧
       0 ≤ (bfRows px (n0 * n1) n1 c y ptr e).2.1.e0 ∧ (bfRows px (n0 * n1) n1 c y ptr e).2.1.e0 ≤ n0 ∧
       0 ≤ (bfRows px (n0 * n1) n1 c y ptr e).2.1.e1 ∧ (bfRows px (n0 * n1) n1 c y ptr e).2.1.e1 ≤ n0 ∧
       0 ≤ (bfRows px (n0 * n1) n1 c y ptr e).2.1.e2 ∧ (bfRows px (n0 * n1) n1 c y ptr e).2.1.e2 ≤ n1)
  | 0, y, ptr, e, _, _, _, h30, h31, h00, h01, h10, h11, h20, h21 => by
    simp only [bfRows]
    exact ⟨by simp, trivial, h30, h31, h00, h01, h10, h11, h20, h21⟩
  | c + 1, y, ptr, e, hy0, hyc, hp, h30, h31, h00, h01, h10, h11, h20, h21 => by
    have hy1 : y < n0 := by push_cast at hyc; omega
    have hb0 : 0 ≤ y * n1 := Int.mul_nonneg hy0 hn1
    have hb1 : y * n1 + n1 ≤ n0 * n1 := by
      have : (y + 1) * n1 ≤ n0 * n1 := Int.mul_le_mul_of_nonneg_right (by omega) hn1
      linarith
    have hr := bfRow_spec px (n0 * n1) n0 n1 y (y * n1) hy0 hy1 hb0 hb1 (n1.toNat + 1) 0 ptr e
      (by omega) hn1 (by omega) (by push_cast; omega) h30 h31 h00 h01 h10 h11 h20 h21
    simp only [bfRows]
    generalize bfRow px (n0 * n1) n1 y (n1.toNat + 1) 0 ptr e = r at hr ⊢
    obtain ⟨hra, hrp, hrd, hre⟩ := hr
    have ih := bfRows_spec px n0 n1 hn1 c (y + 1) r.2.1 r.2.2.1 (by omega) (by push_cast at hyc ⊢; omega)
      (by rw [hrp]; ring) hre.1 hre.2.1 hre.2.2.1 hre.2.2.2.1 hre.2.2.2.2.1 hre.2.2.2.2.2.1
      hre.2.2.2.2.2.2.1 hre.2.2.2.2.2.2.2
    refine ⟨?_, by simp only [hrd, ih.2.1, Bool.and_self], ih.2.2⟩
    intro a ha
    rcases List.mem_append.mp ha with ha | ha
    · exact hra a ha
    · exact ih.1 a ha

theorem bboxFast_ok (px : Int → Bool) (n0 n1 : Nat) :
    (∀ a ∈ (bboxFast px n0 n1).1, MOk a) ∧ (bboxFast px n0 n1).2.2 = true ∧
    (0 ≤ (bboxFast px n0 n1).2.1.e0 ∧ (bboxFast px n0 n1).2.1.e0 ≤ n0 ∧
     0 ≤ (bboxFast px n0 n1).2.1.e1 ∧ (bboxFast px n0 n1).2.1.e1 ≤ n0 ∧
     0 ≤ (bboxFast px n0 n1).2.1.e2 ∧ (bboxFast px n0 n1).2.1.e2 ≤ n1 ∧
     0 ≤ (bboxFast px n0 n1).2.1.e3 ∧ (bboxFast px n0 n1).2.1.e3 ≤ n1) := by
  have h := bfRows_spec px n0 n1 (by omega) n0 0 0 ⟨n0, 0, n1, 0⟩ (by omega) (by omega) (by ring)
    (by simp) (by simp) (by simp) (by simp) (by simp) (by simp) (by simp) (by simp)
  unfold bboxFast
  dsimp only
  generalize bfRows px ((n0 : Int) * (n1 : Int)) (n1 : Int) n0 0 0 ⟨n0, 0, n1, 0⟩ = r at h ⊢
  obtain ⟨ha, hd, h30, h31, h00, h01, h10, h11, h20, h21⟩ := h
  refine ⟨ha, hd, ?_⟩
  split
  · simp
  · exact ⟨h00, h01, h10, h11, h20, h21, h30, h31⟩

/-! ## bbox: the generic path -/

theorem bboxGenAt_ok (nd : Int) : ∀ a ∈ bboxGenAt nd, MOk a := by
  intro a ha
  simp only [bboxGenAt, List.mem_flatMap, mem_rangeI, List.mem_cons, List.not_mem_nil, or_false] at ha
  obtain ⟨j, hj, hm⟩ := ha
  unfold MOk
  rcases hm with rfl | rfl | rfl <;> simp only <;> omega

theorem bboxGen_ok (shape : List Nat) (img : List Bool) : ∀ a ∈ (bboxGen shape img).1, MOk a := by
  intro a ha
  simp only [bboxGen, List.mem_append, List.mem_flatMap] at ha
  rcases ha with ha | ⟨bi, _, hm⟩
  · exact bboxGenAt_ok _ a ha
  · split at hm
    · exact bboxGenAt_ok _ a hm
    · simp at hm

/-! ## remove_regions: `std::lower_bound`, `std::binary_search` -/

/-- for ANY comparison results: the window `[first, first+len)` stays inside `[0, size)`, every `*middle` is inside
    the window, the loop ends, and the returned index is in `[first, first+len]`. -/
theorem lowerBound_spec (lt : Int → Bool) (size : Int) :
    ∀ (f : Nat) (first len : Int), 0 ≤ first → 0 ≤ len → first + len ≤ size → len < f →
      (∀ a ∈ (lowerBound lt size f first len).1, MOk a) ∧
      first ≤ (lowerBound lt size f first len).2.1 ∧ (lowerBound lt size f first len).2.1 ≤ first + len ∧
      (lowerBound lt size f first len).2.2 = true
  | 0, first, len, _, h1, _, hf => by omega
  | f + 1, first, len, h0, h1, h2, hf => by
    simp only [lowerBound]
    by_cases hl : len > 0
    · simp only [hl, if_true]
      have hm : MOk (MAcc.mk (first + len / 2) size) := by unfold MOk; simp only; omega
      by_cases hc : lt (first + len / 2) = true
      · simp only [hc, if_true]
        have ih := lowerBound_spec lt size f (first + len / 2 + 1) (len - len / 2 - 1) (by omega) (by omega)
          (by omega) (by push_cast at hf; omega)
        refine ⟨?_, by have := ih.2.1; omega, by have := ih.2.2.1; omega, ih.2.2.2⟩
        intro a ha
        rcases List.mem_cons.mp ha with rfl | ha
        · exact hm
        · exact ih.1 a ha
      · simp only [hc, Bool.false_eq_true, if_false]
        have ih := lowerBound_spec lt size f first (len / 2) h0 (by omega) (by omega)
          (by push_cast at hf; omega)
        refine ⟨?_, ih.2.1, by have := ih.2.2.1; omega, ih.2.2.2⟩
        intro a ha
        rcases List.mem_cons.mp ha with rfl | ha
        · exact hm
        · exact ih.1 a ha
    · simp only [hl, if_false]
      exact ⟨by simp, by omega, by omega, trivial⟩

theorem binarySearch_ok (regions : List Int) (val : Int) :
    (∀ a ∈ (binarySearch regions val).1, MOk a) ∧ (binarySearch regions val).2.2 = true := by
  have h := lowerBound_spec (fun m => decide (regions.getD m.toNat 0 < val)) regions.length
    (regions.length + 1) 0 regions.length (by omega) (by omega) (by omega) (by push_cast; omega)
  unfold binarySearch
  dsimp only
  generalize lowerBound (fun m => decide (regions.getD m.toNat 0 < val)) (regions.length : Int)
    (regions.length + 1) 0 (regions.length : Int) = r at h ⊢
  obtain ⟨ha, h1, h2, hd⟩ := h
  split
  · rename_i hne
    refine ⟨?_, hd⟩
    intro a hm
    rcases List.mem_append.mp hm with hm | hm
    · exact ha a hm
    · simp only [List.mem_cons, List.not_mem_nil, or_false] at hm
      subst hm
      unfold MOk; simp only; omega
  · exact ⟨ha, hd⟩

theorem removeRegions_ok (regions labeled : List Int) :
    (∀ a ∈ (removeRegions regions labeled).1, MOk a) ∧ (removeRegions regions labeled).2.2 = true ∧
    (removeRegions regions labeled).2.1.length = labeled.length := by
  unfold removeRegions
  dsimp only
  refine ⟨?_, ?_, by simp⟩
  · intro a ha
    simp only [List.mem_flatMap, List.mem_map] at ha
    obtain ⟨t, ⟨⟨v, i⟩, hvi, rfl⟩, hm⟩ := ha
    obtain ⟨hi, _⟩ := mem_zipIdx_lt labeled v i hvi
    have hself : MOk (MAcc.mk (i : Int) (labeled.length : Int)) := by unfold MOk; simp only; omega
    split at hm
    · simp only [List.mem_append, List.mem_cons, List.not_mem_nil, or_false] at hm
      rcases hm with (rfl | hm) | hm
      · exact hself
      · exact (binarySearch_ok regions v).1 a hm
      · split at hm
        · simp only [List.mem_cons, List.not_mem_nil, or_false] at hm
          subst hm; exact hself
        · simp at hm
    · simp only [List.mem_cons, List.not_mem_nil, or_false] at hm
      subst hm; exact hself
  · simp only [List.all_eq_true, List.mem_map]
    rintro t ⟨⟨v, i⟩, _, rfl⟩
    split
    · exact (binarySearch_ok regions v).2
    · rfl

/-! ### what the search decides on a sorted array -/

/-- invariant of `lower_bound` on a sorted array (`rd` non-decreasing on `[0, size)`): everything before the
    returned index is `< val`, everything from it on is `≥ val`. -/
theorem lowerBound_sorted (rd : Int → Int) (val size : Int)
    (hs : ∀ i j : Int, 0 ≤ i → i ≤ j → j < size → rd i ≤ rd j) :
    ∀ (f : Nat) (first len : Int), 0 ≤ first → 0 ≤ len → first + len ≤ size → len < f →
      (∀ i, 0 ≤ i → i < first → rd i < val) → (∀ i, first + len ≤ i → i < size → val ≤ rd i) →
      (∀ i, 0 ≤ i → i < (lowerBound (fun m => decide (rd m < val)) size f first len).2.1 → rd i < val) ∧
      (∀ i, (lowerBound (fun m => decide (rd m < val)) size f first len).2.1 ≤ i → i < size → val ≤ rd i)
  | 0, first, len, _, h1, _, hf, _, _ => by omega
  | f + 1, first, len, h0, h1, h2, hf, hlo, hhi => by
    simp only [lowerBound]
    by_cases hl : len > 0
    · simp only [hl, if_true]
      by_cases hc : rd (first + len / 2) < val
      · simp only [hc, decide_true, if_true]
        exact lowerBound_sorted rd val size hs f (first + len / 2 + 1) (len - len / 2 - 1) (by omega) (by omega)
          (by omega) (by push_cast at hf; omega)
          (fun i hi0 hi1 => by
            have := hs i (first + len / 2) hi0 (by omega) (by omega)
            omega)
          (fun i hi0 hi1 => hhi i (by omega) hi1)
      · simp only [hc, decide_false, Bool.false_eq_true, if_false]
        exact lowerBound_sorted rd val size hs f first (len / 2) h0 (by omega) (by omega)
          (by push_cast at hf; omega) hlo
          (fun i hi0 hi1 => by
            by_cases h : first + len ≤ i
            · exact hhi i h hi1
            · have := hs (first + len / 2) i (by omega) (by omega) hi1
              omega)
    · simp only [hl, if_false]
      have : len = 0 := by omega
      subst this
      exact ⟨fun i hi0 hi1 => hlo i hi0 hi1, fun i hi0 hi1 => hhi i (by omega) hi1⟩

theorem getD_eq (l : List Int) (k : Nat) (h : k < l.length) : l.getD k 0 = l[k] := by
  simp [List.getD_eq_getElem?_getD, h]

/-- on a sorted `regions` array `std::binary_search` answers membership -/
theorem binarySearch_sorted (regions : List Int) (val : Int)
    (hs : ∀ i j : Nat, i ≤ j → j < regions.length → regions.getD i 0 ≤ regions.getD j 0) :
    (binarySearch regions val).2.1 = true ↔ val ∈ regions := by
  have hs' : ∀ i j : Int, 0 ≤ i → i ≤ j → j < (regions.length : Int) →
      regions.getD i.toNat 0 ≤ regions.getD j.toNat 0 :=
    fun i j hi hij hj => hs i.toNat j.toNat (by omega) (by omega)
  have hb := lowerBound_spec (fun m => decide (regions.getD m.toNat 0 < val)) regions.length
    (regions.length + 1) 0 regions.length (by omega) (by omega) (by omega) (by push_cast; omega)
  have h := lowerBound_sorted (fun m => regions.getD m.toNat 0) val regions.length hs'
    (regions.length + 1) 0 regions.length (by omega) (by omega) (by omega) (by push_cast; omega)
    (fun i hi0 hi1 => by omega) (fun i hi0 hi1 => by omega)
  unfold binarySearch
  dsimp only at h ⊢
  generalize lowerBound (fun m => decide (regions.getD m.toNat 0 < val)) (regions.length : Int)
    (regions.length + 1) 0 (regions.length : Int) = r at h hb ⊢
  obtain ⟨hlo, hhi⟩ := h
  obtain ⟨_, hb1, hb2, _⟩ := hb
  split
  · rename_i hne
    simp only [Bool.not_eq_true', decide_eq_false_iff_not, Int.not_lt]
    have hge := hhi r.2.1 (Int.le_refl _) (by omega)
    constructor
    · intro hle
      have heq : regions.getD r.2.1.toNat 0 = val := by omega
      rw [← heq, getD_eq _ _ (by omega : r.2.1.toNat < regions.length)]
      exact List.getElem_mem _
    · intro hmem
      obtain ⟨k, hk, rfl⟩ := List.getElem_of_mem hmem
      by_cases hkr : (k : Int) < r.2.1
      · have := hlo k (by omega) hkr
        simp only [Int.toNat_natCast, getD_eq _ _ hk] at this
        omega
      · have := hs r.2.1.toNat k (by omega) hk
        rw [getD_eq _ _ hk] at this
        exact this
  · rename_i heq
    simp only [Bool.false_eq_true, false_iff]
    intro hmem
    obtain ⟨k, hk, rfl⟩ := List.getElem_of_mem hmem
    have hr : r.2.1 = regions.length := by
      by_contra hne; exact heq hne
    have := hlo k (by omega) (by omega)
    simp only [Int.toNat_natCast, getD_eq _ _ hk] at this
    omega

/-! ## relabel -/

theorem seenFind_mem (v w : Int) (seen : List (Int × Int)) (h : seenFind v seen = some w) :
    ∃ k, (k, w) ∈ seen := by
  induction seen with
  | nil => simp [seenFind] at h
  | cons kw t ih =>
    simp only [seenFind] at h
    split at h
    · simp only [Option.some.injEq] at h
      exact ⟨kw.1, by rw [← h]; simp⟩
    · obtain ⟨k, hk⟩ := ih h
      exact ⟨k, List.mem_cons_of_mem _ hk⟩

theorem relabelLoop_spec : ∀ (data : List Int) (seen : List (Int × Int)) (next : Int), 1 ≤ next →
    (∀ kw ∈ seen, 0 ≤ kw.2 ∧ kw.2 < next) →
    (relabelLoop data seen next).1.length = data.length ∧
    next ≤ (relabelLoop data seen next).2 ∧ (relabelLoop data seen next).2 ≤ next + data.length ∧
    ∀ w ∈ (relabelLoop data seen next).1, 0 ≤ w ∧ w < (relabelLoop data seen next).2
  | [], seen, next, _, _ => by simp [relabelLoop]
  | v :: rest, seen, next, hn, hinv => by
    simp only [relabelLoop]
    split
    · rename_i w hw
      obtain ⟨k, hk⟩ := seenFind_mem v w seen hw
      have hwb := hinv (k, w) hk
      have ih := relabelLoop_spec rest seen next hn hinv
      refine ⟨by simp [ih.1], ih.2.1, by simp only [List.length_cons]; push_cast; have := ih.2.2.1; omega, ?_⟩
      intro x hx
      rcases List.mem_cons.mp hx with rfl | hx
      · simp only at hwb; have := ih.2.1; omega
      · exact ih.2.2.2 x hx
    · have ih := relabelLoop_spec rest ((v, next) :: seen) (next + 1) (by omega) (by
        intro kw hkw
        rcases List.mem_cons.mp hkw with rfl | hkw
        · simp only; omega
        · have := hinv kw hkw; omega)
      refine ⟨by simp [ih.1], by have := ih.2.1; omega,
        by simp only [List.length_cons]; push_cast; have := ih.2.2.1; omega, ?_⟩
      intro x hx
      rcases List.mem_cons.mp hx with rfl | hx
      · have := ih.2.1; omega
      · exact ih.2.2.2 x hx

theorem relabel_ok (labeled : List Int) :
    (∀ a ∈ (relabel labeled).1, MOk a) ∧ (relabel labeled).2.1.length = labeled.length ∧
    0 ≤ (relabel labeled).2.2 ∧ (relabel labeled).2.2 ≤ labeled.length ∧
    ∀ w ∈ (relabel labeled).2.1, 0 ≤ w ∧ w ≤ (relabel labeled).2.2 := by
  have h := relabelLoop_spec labeled [(0, 0)] 1 (by omega) (by simp)
  unfold relabel
  dsimp only
  generalize relabelLoop labeled [(0, 0)] 1 = r at h ⊢
  obtain ⟨h1, h2, h3, h4⟩ := h
  refine ⟨?_, h1, by omega, by omega, fun w hw => by have := h4 w hw; omega⟩
  intro a ha
  simp only [List.mem_flatMap, mem_rangeI, List.mem_cons, List.not_mem_nil, or_false] at ha
  obtain ⟨i, hi, hm⟩ := ha
  unfold MOk
  rcases hm with rfl | rfl <;> simp only <;> omega

end Mahotas.C10Misc
