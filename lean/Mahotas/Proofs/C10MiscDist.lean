/-
C10 (round 3) — `distance_multi`: every dereferenced position is inside the array, for every shape, every list of
deltas (whatever `neighbours_delta` produced, whatever rank), every content of `res`, every step budget.
-/
import Mahotas.Proofs.C10Misc
import Mahotas.Proofs.C10
namespace Mahotas.C10Misc
open Mahotas

def POk (a : PAcc) : Prop := inside a.shape a.pos = true

theorem validLoop_inside : ∀ (shape : List Nat) (pos : List Int), shape.length = pos.length →
    validLoop shape pos = true → inside shape pos = true
  | [], [], _, _ => rfl
  | [], _ :: _, hl, _ => by simp at hl
  | _ :: _, [], hl, _ => by simp at hl
  | d :: ds, p :: ps, hl, hv => by
    simp only [validLoop] at hv
    split at hv
    · simp at hv
    · rename_i hc
      simp only [inside, Bool.and_eq_true, decide_eq_true_eq]
      exact ⟨⟨by omega, by omega⟩, validLoop_inside ds ps (by simpa using hl) hv⟩

theorem validPosition_inside (shape : List Nat) (pos : List Int) (h : validPosition shape pos = true) :
    inside shape pos = true := by
  unfold validPosition at h
  split at h
  · simp at h
  · rename_i hl
    exact validLoop_inside shape pos (by simpa using hl) h

theorem inside_validPosition : ∀ (shape : List Nat) (pos : List Int), inside shape pos = true →
    validPosition shape pos = true := by
  intro shape pos h
  have hl := Mahotas.C10.inside_length shape pos h
  unfold validPosition
  simp only [hl.symm, ne_eq, not_true_eq_false, if_false]
  induction shape generalizing pos with
  | nil => cases pos <;> simp [validLoop]
  | cons d ds ih =>
    cases pos with
    | nil => simp [inside] at h
    | cons p ps =>
      simp only [inside, Bool.and_eq_true, decide_eq_true_eq] at h
      simp only [validLoop]
      have : ¬ (p < 0 ∨ p ≥ (d : Int)) := by omega
      simp only [this, if_false]
      exact ih ps h.2 (by simpa using hl)

/-- the neighbour loop with the guard in place: every dereferenced position and every pushed position is inside -/
theorem dmScan_spec (first : Bool) (shape : List Nat) (img : List Bool) (orig : List Int) :
    ∀ (ds : List (List Int)) (nxt res : List Int),
      (∀ a ∈ (dmScan true first shape img orig ds nxt res).1, POk a) ∧
      (∀ e ∈ (dmScan true first shape img orig ds nxt res).2.2, inside shape e.1 = true)
  | [], nxt, res => by simp [dmScan]
  | d :: ds, nxt, res => by
    simp only [dmScan, Bool.not_true, Bool.false_or]
    by_cases hv : validPosition shape (posAdd nxt d) = true
    · simp only [hv, if_true]
      have hin := validPosition_inside _ _ hv
      have hp : POk (PAcc.mk (posAdd nxt d) shape) := hin
      have ha1 : ∀ a ∈ (if first = true then [PAcc.mk (posAdd nxt d) shape] else []), POk a := by
        intro a ha
        split at ha
        · simp only [List.mem_cons, List.not_mem_nil, or_false] at ha
          subst ha; exact hp
        · simp at ha
      by_cases hc : (!first || img.getD (ravelI shape (posAdd nxt d)) false) = true
      · simp only [hc, if_true]
        by_cases hg : res.getD (ravelI shape (posAdd nxt d)) 0 > euc2 (posAdd nxt d) orig
        · simp only [hg, if_true]
          have ih := dmScan_spec first shape img orig ds (posAdd nxt d)
            (res.set (ravelI shape (posAdd nxt d)) (euc2 (posAdd nxt d) orig))
          refine ⟨?_, ?_⟩
          · intro a ha
            simp only [List.mem_append, List.mem_cons, List.not_mem_nil, or_false] at ha
            rcases ha with (ha | rfl | rfl) | ha
            · exact ha1 a ha
            · exact hp
            · exact hp
            · exact ih.1 a ha
          · intro e he
            rcases List.mem_cons.mp he with rfl | he
            · exact hin
            · exact ih.2 e he
        · simp only [hg, if_false]
          have ih := dmScan_spec first shape img orig ds (posAdd nxt d) res
          refine ⟨?_, ih.2⟩
          intro a ha
          simp only [List.mem_append, List.mem_cons, List.not_mem_nil, or_false] at ha
          rcases ha with (ha | rfl) | ha
          · exact ha1 a ha
          · exact hp
          · exact ih.1 a ha
      · simp only [hc, Bool.false_eq_true, if_false]
        have ih := dmScan_spec first shape img orig ds (posAdd nxt d) res
        refine ⟨?_, ih.2⟩
        intro a ha
        rcases List.mem_append.mp ha with ha | ha
        · exact ha1 a ha
        · exact ih.1 a ha
    · simp only [hv, Bool.false_eq_true, if_false]
      exact dmScan_spec first shape img orig ds (posAdd nxt d) res

theorem dmFirst_spec (shape : List Nat) (img : List Bool) (deltas : List (List Int)) :
    ∀ (is : List Nat) (res : List Int), (∀ i ∈ is, i < shapeSize shape) →
      (∀ a ∈ (dmFirst true shape img deltas is res).1, POk a) ∧
      (∀ e ∈ (dmFirst true shape img deltas is res).2.2, inside shape e.1 = true)
  | [], res, _ => by simp [dmFirst]
  | i :: is, res, hi => by
    have hp : POk (PAcc.mk (unravelI shape i) shape) :=
      Mahotas.C10.unravelI_inside shape i (hi i (by simp))
    simp only [dmFirst]
    split
    · have hs := dmScan_spec true shape img (unravelI shape i) deltas (unravelI shape i) (res.set i 0)
      have ih := dmFirst_spec shape img deltas is
        (dmScan true true shape img (unravelI shape i) deltas (unravelI shape i) (res.set i 0)).2.1
        (fun j hj => hi j (List.mem_cons_of_mem _ hj))
      refine ⟨?_, ?_⟩
      · intro a ha
        simp only [List.mem_cons, List.mem_append] at ha
        rcases ha with (rfl | rfl | ha) | ha
        · exact hp
        · exact hp
        · exact hs.1 a ha
        · exact ih.1 a ha
      · intro e he
        rcases List.mem_append.mp he with he | he
        · exact hs.2 e he
        · exact ih.2 e he
    · have ih := dmFirst_spec shape img deltas is res (fun j hj => hi j (List.mem_cons_of_mem _ hj))
      refine ⟨?_, ih.2⟩
      intro a ha
      rcases List.mem_cons.mp ha with rfl | ha
      · exact hp
      · exact ih.1 a ha

theorem dmSecond_spec (shape : List Nat) (img : List Bool) (deltas : List (List Int)) :
    ∀ (f : Nat) (q : List DmEntry) (res : List Int), (∀ e ∈ q, inside shape e.1 = true) →
      ∀ a ∈ (dmSecond true shape img deltas f q res).1, POk a
  | 0, q, res, _ => by simp [dmSecond]
  | f + 1, [], res, _ => by simp [dmSecond]
  | f + 1, (cur, orig, dist) :: q, res, hq => by
    have hc : POk (PAcc.mk cur shape) := hq (cur, orig, dist) (by simp)
    have hq' : ∀ e ∈ q, inside shape e.1 = true := fun e he => hq e (List.mem_cons_of_mem _ he)
    simp only [dmSecond]
    split
    · intro a ha
      rcases List.mem_cons.mp ha with rfl | ha
      · exact hc
      · exact dmSecond_spec shape img deltas f q res hq' a ha
    · have hs := dmScan_spec false shape img orig deltas cur res
      intro a ha
      simp only [List.mem_cons, List.mem_append] at ha
      rcases ha with (rfl | ha) | ha
      · exact hc
      · exact hs.1 a ha
      · refine dmSecond_spec shape img deltas f _ _ ?_ a ha
        intro e he
        rcases List.mem_append.mp he with he | he
        · exact hq' e he
        · exact hs.2 e he

theorem dmRun_ok (shape : List Nat) (img : List Bool) (res : List Int) (deltas : List (List Int)) (fuel : Nat) :
    ∀ a ∈ (dmRun true shape img res deltas fuel).1, POk a := by
  have h1 := dmFirst_spec shape img deltas (List.range (shapeSize shape)) res
    (fun i hi => List.mem_range.mp hi)
  intro a ha
  simp only [dmRun, List.mem_append] at ha
  rcases ha with ha | ha
  · exact h1.1 a ha
  · exact dmSecond_spec shape img deltas fuel _ _ h1.2 a ha

/-- `neighbours_delta`: its vector accesses are in range exactly when there is at least one neighbour -/
theorem neighboursDelta_ok_iff (rs : List (List Int)) :
    (∀ a ∈ (neighboursDelta rs).1, MOk a) ↔ rs ≠ [] := by
  constructor
  · intro h hrs
    subst hrs
    have := h (MAcc.mk 0 0) (by simp [neighboursDelta])
    unfold MOk at this
    simp at this
  · intro hne a ha
    have hl : 0 < rs.length := List.length_pos_iff.mpr hne
    simp only [neighboursDelta, List.mem_cons, List.mem_map, mem_rangeI] at ha
    unfold MOk
    rcases ha with rfl | ⟨i, hi, rfl⟩
    · simp only; omega
    · simp only; omega

end Mahotas.C10Misc
