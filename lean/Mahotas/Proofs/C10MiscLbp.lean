/-
C10 (round 3) — `_lbp.map` in `npy_uint32` arithmetic: for `1 ≤ points ≤ 32` and a `points`-bit code nothing is
truncated, so the machine loop is the unbounded model of C19 (`lbpMap`), whose result is `< 2^points`.
-/
import Mahotas.Proofs.C10Misc
import Mahotas.Proofs.C19Lbp
namespace Mahotas.C10Misc
open Mahotas

theorem two_pow_le_u32 (P : Nat) (hP : P ≤ 32) : 2 ^ P ≤ 4294967296 := by
  have : 2 ^ P ≤ 2 ^ 32 := Nat.pow_le_pow_right (by decide) hP
  simpa using this

theorem rollRight32_eq (P v : Nat) (h1 : 1 ≤ P) (h32 : P ≤ 32) (hv : v < 2 ^ P) :
    rollRight32 (P : Int) v = C19.rollRight P v := by
  have hs : (((P : Int) - 1) % 32).toNat = P - 1 := by omega
  have hlt := C19.rollRight_lt P v h1 hv
  have hb := two_pow_le_u32 P h32
  have hin : (v &&& 1) <<< (P - 1) < 4294967296 := by
    rw [Nat.shiftLeft_eq]
    have ha : v &&& 1 ≤ 1 := Nat.and_le_right
    have hp : 2 ^ (P - 1) ≤ 2 ^ 31 := Nat.pow_le_pow_right (by decide) (by omega)
    have : (v &&& 1) * 2 ^ (P - 1) ≤ 1 * 2 ^ 31 := Nat.mul_le_mul ha hp
    omega
  unfold rollRight32 u32
  rw [hs, Nat.mod_eq_of_lt hin]
  unfold C19.rollRight at hlt ⊢
  exact Nat.mod_eq_of_lt (by omega)

theorem lbpMapLoop_eq (P : Nat) (h1 : 1 ≤ P) (h32 : P ≤ 32) :
    ∀ (f v mn : Nat), v < 2 ^ P →
      lbpMapLoop (P : Int) f v mn = (C19.iter (C19.mapStep P) f (v, mn)).2
  | 0, v, mn, _ => rfl
  | f + 1, v, mn, hv => by
    simp only [lbpMapLoop]
    rw [rollRight32_eq P v h1 h32 hv]
    exact lbpMapLoop_eq P h1 h32 f _ _ (C19.rollRight_lt P v h1 hv)

theorem lbpMap32_eq (P v : Nat) (h1 : 1 ≤ P) (h32 : P ≤ 32) (hv : v < 2 ^ P) :
    lbpMap32 (P : Int) v = C19.lbpMap P v := by
  unfold lbpMap32 C19.lbpMap
  simpa using lbpMapLoop_eq P h1 h32 P v v hv

theorem lbpMap32_lt (P v : Nat) (h32 : P ≤ 32) (hv : v < 2 ^ P) : lbpMap32 (P : Int) v < 2 ^ P := by
  by_cases h1 : 1 ≤ P
  · rw [lbpMap32_eq P v h1 h32 hv]
    exact C19.lbpMap_lt P v h1 hv
  · have : P = 0 := by omega
    subst this
    simpa [lbpMap32, lbpMapLoop] using hv

theorem lbpAccesses_ok (P : Nat) (h32 : P ≤ 32) (codes : List Nat) (hc : ∀ v ∈ codes, v < 2 ^ P) :
    ∀ a ∈ lbpAccesses (P : Int) codes, MOk a := by
  intro a ha
  simp only [lbpAccesses, List.mem_flatMap, List.mem_append, List.mem_cons, List.not_mem_nil, or_false,
    List.mem_map, mem_rangeI] at ha
  obtain ⟨⟨v, i⟩, hvi, hm⟩ := ha
  obtain ⟨hi, hv⟩ := mem_zipIdx_lt codes v i hvi
  unfold MOk
  rcases hm with (rfl | ⟨j, hj, rfl⟩) | rfl | rfl
  · simp only; omega
  · simp only; omega
  · simp only; omega
  · simp only [Int.toNat_natCast]
    have := lbpMap32_lt P v h32 (hc v hv)
    exact ⟨by omega, by exact_mod_cast this⟩

end Mahotas.C10Misc
