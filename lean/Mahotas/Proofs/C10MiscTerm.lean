/-
C10 (round 4) — TERMINATION of the queue loop of `distance_multi` (`Model/C10Misc.lean: dmSecond`): every push goes with a store
that strictly lowers a cell of `res` to a non-negative integer (`*rpos > next_dist` ⇒ `*rpos = next_dist`, `next_dist` a squared
distance), so `Σ max(res[p], 0)` drops by at least one per push; the loop ends within `queue length + Σ max(res[p], 0)` pops.
-/
import Mahotas.Model.C10Misc
import Mahotas.Proofs.C10MiscDist
import Mathlib.Tactic.Linarith
namespace Mahotas.C10Misc
open Mahotas

/-- the measure: `Σ max(res[p], 0)` -/
def resMass (res : List Int) : Nat := (res.map Int.toNat).sum

theorem euc2_nonneg : ∀ (a b : List Int), 0 ≤ euc2 a b
  | [], _ => by simp [euc2]
  | _ :: _, [] => by simp [euc2]
  | a :: as, b :: bs => by
    simp only [euc2]
    have := euc2_nonneg as bs
    nlinarith [mul_self_nonneg (a - b)]

theorem resMass_set (res : List Int) (k : Nat) (v : Int) (hk : k < res.length) (h0 : 0 ≤ v) (hlt : v < res.getD k 0) :
    resMass (res.set k v) + 1 ≤ resMass res := by
  induction res generalizing k with
  | nil => simp at hk
  | cons x xs ih =>
    cases k with
    | zero =>
      simp only [List.getD_cons_zero] at hlt
      simp only [resMass, List.set_cons_zero, List.map_cons, List.sum_cons]
      omega
    | succ k =>
      simp only [List.getD_cons_succ] at hlt
      simp only [List.length_cons] at hk
      have := ih k (by omega) hlt
      simp only [resMass, List.set_cons_succ, List.map_cons, List.sum_cons] at this ⊢
      omega

theorem length_set' (res : List Int) (k : Nat) (v : Int) : (res.set k v).length = res.length := by simp

/-- one neighbour loop: the pushes are paid for by the mass -/
theorem dmScan_mass (first : Bool) (shape : List Nat) (img : List Bool) (orig : List Int) :
    ∀ (ds : List (List Int)) (nxt : List Int) (res : List Int), res.length = shapeSize shape →
      (dmScan true first shape img orig ds nxt res).2.2.length + resMass (dmScan true first shape img orig ds nxt res).2.1
        ≤ resMass res ∧ (dmScan true first shape img orig ds nxt res).2.1.length = shapeSize shape := by
  intro ds
  induction ds with
  | nil => intro nxt res h; simp [dmScan, h]
  | cons d ds ih =>
    intro nxt res hlen
    simp only [dmScan, Bool.not_true, Bool.false_or]
    split
    · rename_i hv
      have hin := validPosition_inside shape _ hv
      have hk : ravelI shape (posAdd nxt d) < res.length := by rw [hlen]; exact Mahotas.C10.ravelI_lt shape _ hin
      split
      · split
        · rename_i hgt
          have hgt' : euc2 (posAdd nxt d) orig < res.getD (ravelI shape (posAdd nxt d)) 0 := by simpa using hgt
          have hm := resMass_set res _ _ hk (euc2_nonneg _ _) hgt'
          obtain ⟨h1, h2⟩ := ih (posAdd nxt d) (res.set (ravelI shape (posAdd nxt d)) (euc2 (posAdd nxt d) orig))
            (by rw [length_set', hlen])
          simp only [List.length_cons]
          exact ⟨by omega, h2⟩
        · exact ih _ res hlen
      · exact ih _ res hlen
    · exact ih _ res hlen

/-- the queue loop drains within `queue length + Σ max(res[p], 0)` pops -/
theorem dmSecond_terminates (shape : List Nat) (img : List Bool) (deltas : List (List Int)) :
    ∀ (fuel : Nat) (q : List DmEntry) (res : List Int), res.length = shapeSize shape → q.length + resMass res ≤ fuel →
      (dmSecond true shape img deltas fuel q res).2.2 = true := by
  intro fuel
  induction fuel with
  | zero =>
    intro q res _ h
    have : q = [] := by
      cases q with
      | nil => rfl
      | cons _ _ => simp at h
    subst this
    simp [dmSecond]
  | succ f ih =>
    intro q res hlen h
    cases q with
    | nil => simp [dmSecond]
    | cons e q =>
      obtain ⟨cur, orig, dist⟩ := e
      simp only [dmSecond]
      split
      · exact ih q res hlen (by simp only [List.length_cons] at h; omega)
      · obtain ⟨h1, h2⟩ := dmScan_mass false shape img orig deltas cur res hlen
        apply ih _ _ h2
        simp only [List.length_append, List.length_cons] at h ⊢
        omega

theorem dmFirst_len (shape : List Nat) (img : List Bool) (deltas : List (List Int)) :
    ∀ (is : List Nat) (res : List Int), res.length = shapeSize shape →
      (dmFirst true shape img deltas is res).2.1.length = shapeSize shape := by
  intro is
  induction is with
  | nil => intro res h; simpa [dmFirst] using h
  | cons i is ih =>
    intro res h
    simp only [dmFirst]
    split
    · exact ih _ (dmScan_mass true shape img _ deltas _ _ (by rw [length_set', h])).2
    · exact ih res h

/-- `distance_multi` as a whole: the budget `pushes of the first phase + Σ max(res[p], 0) after it` drains the queue -/
theorem dmRun_terminates (shape : List Nat) (img : List Bool) (res : List Int) (deltas : List (List Int))
    (hlen : res.length = shapeSize shape) (fuel : Nat)
    (hf : (dmFirst true shape img deltas (List.range (shapeSize shape)) res).2.2.length +
      resMass (dmFirst true shape img deltas (List.range (shapeSize shape)) res).2.1 ≤ fuel) :
    (dmRun true shape img res deltas fuel).2.2 = true := by
  simp only [dmRun]
  exact dmSecond_terminates shape img deltas fuel _ _ (dmFirst_len shape img deltas _ res hlen) hf

end Mahotas.C10Misc
