/-
C10 — B1, odometers: the pointer arithmetic of `iterate_both` keeps the row pointer of the filter
iterator at `tableRow p`, and the position odometer of `init_filter_offsets` computes row
`ravel r` at the representative positions `regionPos r_d`.
-/
import Mahotas.Proofs.C10Regions
namespace Mahotas.C10
open Mahotas

/-- signed row index (linear in the region indices) -/
def rowZ (as fs : List Nat) (p : List Int) : Int := ravelZ (minShape as fs) (regionIdxPos as fs p)

theorem rowZ_cons (a : Nat) (as : List Nat) (f : Nat) (fs : List Nat) (p : Int) (ps : List Int) :
    rowZ (a :: as) (f :: fs) (p :: ps) =
      (regionIndex a f p.toNat : Int) * (shapeSize (minShape as fs) : Int) + rowZ as fs ps := by
  simp [rowZ, minShape, regionIdxPos, ravelZ]

theorem rowZ_zeros (as fs : List Nat) (ps : List Int) : rowZ as fs (ps.map (fun _ => 0)) = 0 := by
  induction as generalizing fs ps with
  | nil => cases fs <;> cases ps <;> simp [rowZ, minShape, regionIdxPos, ravelZ]
  | cons a as ih =>
    cases fs with
    | nil => cases ps <;> simp [rowZ, minShape, regionIdxPos, ravelZ]
    | cons f fs =>
      cases ps with
      | nil => simp [rowZ, regionIdxPos, ravelZ]
      | cons x xs =>
        rw [List.map_cons, rowZ_cons, ih]
        simp [regionIndex]

theorem inside_zeros (as : List Nat) (ps : List Int) (hpos : ∀ d ∈ as, 0 < d)
    (hl : ps.length = as.length) : inside as (ps.map (fun _ => 0)) = true := by
  induction as generalizing ps with
  | nil => cases ps <;> simp_all [inside]
  | cons a as ih =>
    cases ps with
    | nil => simp at hl
    | cons x xs =>
      have := hpos a (by simp)
      simp only [List.map_cons, inside, ih xs (fun d hd => hpos d (by simp [hd])) (by simpa using hl),
        Bool.and_eq_true, decide_eq_true_eq, and_true]
      omega

theorem regionIndex_succ_int (a f : Nat) (p : Int) (hp : 0 ≤ p) :
    (regionIndex a f (p + 1).toNat : Int) =
      regionIndex a f p.toNat + (if p < origin f ∨ p ≥ (a : Int) - f + origin f then 1 else 0) := by
  have e : (p + 1).toNat = p.toNat + 1 := by omega
  have e2 : ((p.toNat : Nat) : Int) = p := Int.toNat_of_nonneg hp
  rw [e]
  simp only [regionIndex, e2]
  split <;> simp

/-- one `iterate_both`: the row pointer follows the array iterator. -/
theorem iterateBoth_step (as fs : List Nat) (p : List Int) (hf : ∀ f ∈ fs, 0 < f)
    (hlen : fs.length = as.length) (hp : inside as p = true) :
    match succPos as p with
    | some p' => (iterateBothDelta as fs p).2 = false ∧ inside as p' = true ∧
        rowZ as fs p' = rowZ as fs p + (iterateBothDelta as fs p).1
    | none => (iterateBothDelta as fs p).2 = true ∧ rowZ as fs p + (iterateBothDelta as fs p).1 = 0 := by
  induction as generalizing fs p with
  | nil =>
    cases p with
    | nil => cases fs <;> simp [succPos, iterateBothDelta, rowZ, minShape, regionIdxPos, ravelZ]
    | cons x xs => simp [inside] at hp
  | cons a as ih =>
    cases fs with
    | nil => simp at hlen
    | cons f fs =>
    cases p with
    | nil => simp [inside] at hp
    | cons x xs =>
      have hdims := inside_pos_of_dims _ _ hp
      simp only [inside, Bool.and_eq_true, decide_eq_true_eq] at hp
      obtain ⟨⟨p0, p1⟩, p2⟩ := hp
      have hxl := inside_length as xs p2
      have hrec := ih fs xs (fun g hg => hf g (by simp [hg])) (by simpa using hlen) p2
      have hf0 := hf f (by simp)
      have ha0 := hdims a (by simp)
      cases hs : succPos as xs with
      | some xs' =>
        rw [hs] at hrec
        obtain ⟨h1, h2, h3⟩ := hrec
        simp only [succPos, hs, iterateBothDelta, h1, rowZ_cons, h3, inside, h2]
        simp only [Bool.not_false, if_true, Bool.and_eq_true, decide_eq_true_eq, and_true, true_and]
        refine ⟨⟨p0, p1⟩, by ring⟩
      | none =>
        rw [hs] at hrec
        obtain ⟨h1, h2⟩ := hrec
        by_cases hx : x < (a : Int) - 1
        · simp only [succPos, hs, iterateBothDelta, h1, hx, if_true, Bool.not_true, Bool.false_eq_true,
            if_false, rowZ_cons, rowZ_zeros, inside,
            inside_zeros as xs (fun d hd => hdims d (by simp [hd])) hxl,
            Bool.and_eq_true, decide_eq_true_eq, and_true, true_and]
          refine ⟨⟨by omega, by omega⟩, ?_⟩
          rw [regionIndex_succ_int a f x p0]
          split
          · linarith
          · linarith
        · have hxa : x = (a : Int) - 1 := by omega
          simp only [succPos, hs, iterateBothDelta, h1, hx, if_false, Bool.not_true, Bool.false_eq_true,
            rowZ_cons, true_and]
          have hl := regionIndex_last a f hf0 ha0
          have hx2 : x.toNat = a - 1 := by omega
          rw [hx2, hl]
          have hm : 1 ≤ min a f := by omega
          have e : (((min a f - 1 : Nat)) : Int) = ((min a f : Nat) : Int) - 1 := by omega
          rw [e]
          linarith

theorem succPos_none_iff_delta (as fs : List Nat) (p : List Int) (hf : ∀ f ∈ fs, 0 < f)
    (hlen : fs.length = as.length) (hp : inside as p = true) :
    succPos as p = none ↔ (iterateBothDelta as fs p).2 = true := by
  have h := iterateBoth_step as fs p hf hlen hp
  cases hs : succPos as p with
  | some p' => rw [hs] at h; simp [h.1]
  | none => rw [hs] at h; simp [h.1]

/-- along the whole scan the row pointer is `tableRow` of the position of the array iterator -/
theorem scanState_spec (as fs : List Nat) (hpos : ∀ d ∈ as, 0 < d) (hf : ∀ f ∈ fs, 0 < f)
    (hlen : fs.length = as.length) :
    ∀ (n : Nat) (p : List Int) (row : Int), scanState as fs n = some (p, row) →
      inside as p = true ∧ row = (tableRow as fs p : Int) := by
  intro n
  induction n with
  | zero =>
    intro p row h
    simp only [scanState, Option.some.injEq, Prod.mk.injEq] at h
    obtain ⟨rfl, rfl⟩ := h
    have hz : (as.map Int.ofNat).map (fun _ => (0 : Int)) = as.map (fun _ => (0 : Int)) := by
      simp [List.map_map, Function.comp_def]
    have hin : inside as (as.map (fun _ => (0 : Int))) = true := by
      have := inside_zeros as (as.map Int.ofNat) hpos (by simp)
      rwa [hz] at this
    refine ⟨hin, ?_⟩
    have h0 := rowZ_zeros as fs (as.map Int.ofNat)
    rw [hz] at h0
    rw [tableRow, ← ravelZ_eq _ _ (regionIdxPos_inside as fs _ hf hlen hin)]
    exact h0.symm
  | succ n ih =>
    intro p row h
    simp only [scanState] at h
    cases hs : scanState as fs n with
    | none => simp [hs] at h
    | some st =>
      obtain ⟨q, rq⟩ := st
      obtain ⟨hq, hrq⟩ := ih q rq hs
      have hstep := iterateBoth_step as fs q hf hlen hq
      cases hsp : succPos as q with
      | none => simp [hs, hsp] at h
      | some q' =>
        rw [hsp] at hstep
        obtain ⟨_, h2, h3⟩ := hstep
        simp only [hs, hsp, Option.some.injEq, Prod.mk.injEq] at h
        obtain ⟨rfl, rfl⟩ := h
        refine ⟨h2, ?_⟩
        rw [tableRow, ← ravelZ_eq _ _ (regionIdxPos_inside as fs _ hf hlen h2)]
        rw [tableRow, ← ravelZ_eq _ _ (regionIdxPos_inside as fs _ hf hlen hq)] at hrq
        unfold rowZ at h3
        rw [h3, hrq]

end Mahotas.C10
