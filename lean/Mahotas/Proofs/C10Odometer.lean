/-
C10 — B1, odometers: the pointer arithmetic of `iterate_both` keeps the row pointer of the filter
iterator at `tableRow p`, and the position odometer of `init_filter_offsets` computes row
`ravel r` at the representative positions `regionPos r_d`.
-/
import Mahotas.Proofs.C10Regions
namespace Mahotas.C10
open Mahotas

/-- signed row index (linear in the region indices) -/
def rowZ (as fs : List Nat) (p : List Int) : Int := ravelZ (minShape as fs) (regionIdxPos as fs p)

theorem rowZ_cons (a : Nat) (as : List Nat) (f : Nat) (fs : List Nat) (p : Int) (ps : List Int) :
    rowZ (a :: as) (f :: fs) (p :: ps) =
      (regionIndex a f p.toNat : Int) * (shapeSize (minShape as fs) : Int) + rowZ as fs ps := by
  simp [rowZ, minShape, regionIdxPos, ravelZ]

theorem rowZ_zeros (as fs : List Nat) (ps : List Int) : rowZ as fs (ps.map (fun _ => 0)) = 0 := by
  induction as generalizing fs ps with
  | nil => cases fs <;> cases ps <;> simp [rowZ, minShape, regionIdxPos, ravelZ]
  | cons a as ih =>
    cases fs with
    | nil => cases ps <;> simp [rowZ, minShape, regionIdxPos, ravelZ]
    | cons f fs =>
      cases ps with
      | nil => simp [rowZ, regionIdxPos, ravelZ]
      | cons x xs =>
        rw [List.map_cons, rowZ_cons, ih]
        simp [regionIndex]

theorem inside_zeros (as : List Nat) (ps : List Int) (hpos : ∀ d ∈ as, 0 < d)
    (hl : ps.length = as.length) : inside as (ps.map (fun _ => 0)) = true := by
  induction as generalizing ps with
  | nil => cases ps <;> simp_all [inside]
  | cons a as ih =>
    cases ps with
    | nil => simp at hl
    | cons x xs =>
      have := hpos a (by simp)
      simp only [List.map_cons, inside, ih xs (fun d hd => hpos d (by simp [hd])) (by simpa using hl),
        Bool.and_eq_true, decide_eq_true_eq, and_true]
      omega

theorem regionIndex_succ_int (a f : Nat) (p : Int) (hp : 0 ≤ p) :
    (regionIndex a f (p + 1).toNat : Int) =
      regionIndex a f p.toNat + (if p < origin f ∨ p ≥ (a : Int) - f + origin f then 1 else 0) := by
  have e : (p + 1).toNat = p.toNat + 1 := by omega
  have e2 : ((p.toNat : Nat) : Int) = p := Int.toNat_of_nonneg hp
  rw [e]
  simp only [regionIndex, e2]
  split <;> simp

/-- one `iterate_both`: the row pointer follows the array iterator. -/
theorem iterateBoth_step (as fs : List Nat) (p : List Int) (hf : ∀ f ∈ fs, 0 < f)
    (hlen : fs.length = as.length) (hp : inside as p = true) :
    match succPos as p with
    | some p' => (iterateBothDelta as fs p).2 = false ∧ inside as p' = true ∧
        rowZ as fs p' = rowZ as fs p + (iterateBothDelta as fs p).1
    | none => (iterateBothDelta as fs p).2 = true ∧ rowZ as fs p + (iterateBothDelta as fs p).1 = 0 := by
  induction as generalizing fs p with
  | nil =>
    cases p with
    | nil => cases fs <;> simp [succPos, iterateBothDelta, rowZ, minShape, regionIdxPos, ravelZ]
    | cons x xs => simp [inside] at hp
  | cons a as ih =>
    cases fs with
    | nil => simp at hlen
    | cons f fs =>
    cases p with
    | nil => simp [inside] at hp
    | cons x xs =>
      have hdims := inside_pos_of_dims _ _ hp
      simp only [inside, Bool.and_eq_true, decide_eq_true_eq] at hp
      obtain ⟨⟨p0, p1⟩, p2⟩ := hp
      have hxl := inside_length as xs p2
      have hrec := ih fs xs (fun g hg => hf g (by simp [hg])) (by simpa using hlen) p2
      have hf0 := hf f (by simp)
      have ha0 := hdims a (by simp)
      cases hs : succPos as xs with
      | some xs' =>
        rw [hs] at hrec
        obtain ⟨h1, h2, h3⟩ := hrec
        simp only [succPos, hs, iterateBothDelta, h1, rowZ_cons, h3, inside, h2]
        simp only [Bool.not_false, if_true, Bool.and_eq_true, decide_eq_true_eq, and_true, true_and]
        refine ⟨⟨p0, p1⟩, by ring⟩
      | none =>
        rw [hs] at hrec
        obtain ⟨h1, h2⟩ := hrec
        by_cases hx : x < (a : Int) - 1
        · simp only [succPos, hs, iterateBothDelta, h1, hx, if_true, Bool.not_true, Bool.false_eq_true,
            if_false, rowZ_cons, rowZ_zeros, inside,
            inside_zeros as xs (fun d hd => hdims d (by simp [hd])) hxl,
            Bool.and_eq_true, decide_eq_true_eq, and_true, true_and]
          refine ⟨⟨by omega, by omega⟩, ?_⟩
          rw [regionIndex_succ_int a f x p0]
          split
          · linarith
          · linarith
        · have hxa : x = (a : Int) - 1 := by omega
          simp only [succPos, hs, iterateBothDelta, h1, hx, if_false, Bool.not_true, Bool.false_eq_true,
            rowZ_cons, true_and]
          have hl := regionIndex_last a f hf0 ha0
          have hx2 : x.toNat = a - 1 := by omega
          rw [hx2, hl]
          have hm : 1 ≤ min a f := by omega
          have e : (((min a f - 1 : Nat)) : Int) = ((min a f : Nat) : Int) - 1 := by omega
          rw [e]
          linarith

theorem succPos_none_iff_delta (as fs : List Nat) (p : List Int) (hf : ∀ f ∈ fs, 0 < f)
    (hlen : fs.length = as.length) (hp : inside as p = true) :
    succPos as p = none ↔ (iterateBothDelta as fs p).2 = true := by
  have h := iterateBoth_step as fs p hf hlen hp
  cases hs : succPos as p with
  | some p' => rw [hs] at h; simp [h.1]
  | none => rw [hs] at h; simp [h.1]

/-- along the whole scan the row pointer is `tableRow` of the position of the array iterator -/
theorem scanState_spec (as fs : List Nat) (hpos : ∀ d ∈ as, 0 < d) (hf : ∀ f ∈ fs, 0 < f)
    (hlen : fs.length = as.length) :
    ∀ (n : Nat) (p : List Int) (row : Int), scanState as fs n = some (p, row) →
      inside as p = true ∧ row = (tableRow as fs p : Int) := by
  intro n
  induction n with
  | zero =>
    intro p row h
    simp only [scanState, Option.some.injEq, Prod.mk.injEq] at h
    obtain ⟨rfl, rfl⟩ := h
    have hz : (as.map Int.ofNat).map (fun _ => (0 : Int)) = as.map (fun _ => (0 : Int)) := by
      simp [List.map_map, Function.comp_def]
    have hin : inside as (as.map (fun _ => (0 : Int))) = true := by
      have := inside_zeros as (as.map Int.ofNat) hpos (by simp)
      rwa [hz] at this
    refine ⟨hin, ?_⟩
    have h0 := rowZ_zeros as fs (as.map Int.ofNat)
    rw [hz] at h0
    rw [tableRow, ← ravelZ_eq _ _ (regionIdxPos_inside as fs _ hf hlen hin)]
    exact h0.symm
  | succ n ih =>
    intro p row h
    simp only [scanState] at h
    cases hs : scanState as fs n with
    | none => simp [hs] at h
    | some st =>
      obtain ⟨q, rq⟩ := st
      obtain ⟨hq, hrq⟩ := ih q rq hs
      have hstep := iterateBoth_step as fs q hf hlen hq
      cases hsp : succPos as q with
      | none => simp [hs, hsp] at h
      | some q' =>
        rw [hsp] at hstep
        obtain ⟨_, h2, h3⟩ := hstep
        simp only [hs, hsp, Option.some.injEq, Prod.mk.injEq] at h
        obtain ⟨rfl, rfl⟩ := h
        refine ⟨h2, ?_⟩
        rw [tableRow, ← ravelZ_eq _ _ (regionIdxPos_inside as fs _ hf hlen h2)]
        rw [tableRow, ← ravelZ_eq _ _ (regionIdxPos_inside as fs _ hf hlen hq)] at hrq
        unfold rowZ at h3
        rw [h3, hrq]

/-! ### the position odometer of `init_filter_offsets` -/

/-- representative positions of a tuple of region indices -/
def regionPosTuple : List Nat → List Nat → List Int → List Int
  | a :: as, f :: fs, r :: rs => regionPos a f r.toNat :: regionPosTuple as fs rs
  | _, _, _ => []

theorem regionPos_closed (a f r : Nat) :
    regionPos a f r =
      if (r : Int) ≤ origin f then (r : Int) else (r : Int) + max ((a : Int) - f) 0 := by
  have ho := origin_spec f
  induction r with
  | zero => simp only [regionPos]; split <;> omega
  | succ r ih =>
    simp only [regionPos, ih, nextRegionPos]
    push_cast
    split <;> split <;> (try split) <;> (try split) <;> omega

theorem regionPos_next_lt (a f r : Nat) (_hf : 0 < f) (h : r + 1 < min a f) :
    nextRegionPos a f (regionPos a f r) < (a : Int) := by
  have ho := origin_spec f
  have h1 := regionPos_closed a f (r + 1)
  rw [regionPos_succ] at h1
  rw [h1]; push_cast
  split <;> omega

theorem regionPos_next_ge (a f r : Nat) (_hf : 0 < f) (h : r + 1 = min a f) :
    ¬ nextRegionPos a f (regionPos a f r) < (a : Int) := by
  have ho := origin_spec f
  have h1 := regionPos_closed a f (r + 1)
  rw [regionPos_succ] at h1
  rw [h1]; push_cast
  split <;> omega

theorem regionPosTuple_zeros (as fs : List Nat) (xs : List Int) :
    (regionPosTuple as fs xs).map (fun _ => (0 : Int)) =
      regionPosTuple as fs (xs.map (fun _ => (0 : Int))) := by
  induction as generalizing fs xs with
  | nil => cases fs <;> cases xs <;> simp [regionPosTuple]
  | cons a as ih =>
    cases fs with
    | nil => cases xs <;> simp [regionPosTuple]
    | cons f fs =>
      cases xs with
      | nil => simp [regionPosTuple]
      | cons x xs => simp [regionPosTuple, regionPos, ih]

/-- one step of the position odometer = C-order successor of the region-index tuple -/
theorem nextRegionPositions_step (as fs : List Nat) (r : List Int) (hf : ∀ f ∈ fs, 0 < f)
    (hlen : fs.length = as.length) (hr : inside (minShape as fs) r = true) :
    nextRegionPositions as fs (regionPosTuple as fs r) =
      (succPos (minShape as fs) r).map (regionPosTuple as fs) := by
  induction as generalizing fs r with
  | nil =>
    cases fs <;> cases r <;> simp_all [minShape, inside, nextRegionPositions, regionPosTuple, succPos]
  | cons a as ih =>
    cases fs with
    | nil => simp at hlen
    | cons f fs =>
    cases r with
    | nil => simp [minShape, inside] at hr
    | cons x xs =>
      simp only [minShape, inside, Bool.and_eq_true, decide_eq_true_eq] at hr
      obtain ⟨⟨r0, r1⟩, r2⟩ := hr
      have hrec := ih fs xs (fun g hg => hf g (by simp [hg])) (by simpa using hlen) r2
      have hf0 := hf f (by simp)
      simp only [regionPosTuple, nextRegionPositions, hrec, minShape, succPos]
      cases hs : succPos (minShape as fs) xs with
      | some xs' => simp [regionPosTuple]
      | none =>
        simp only [Option.map_none]
        by_cases hx : x < ((min a f : Nat) : Int) - 1
        · have hlt := regionPos_next_lt a f x.toNat hf0 (by omega)
          have e : (x + 1).toNat = x.toNat + 1 := by omega
          simp only [hx, if_true, hlt, Option.map_some, regionPosTuple, e, regionPos_succ,
            regionPosTuple_zeros]
        · have hge := regionPos_next_ge a f x.toNat hf0 (by omega)
          simp only [hx, if_false, hge, Option.map_none]

theorem ravelZ_zeros (s : List Nat) (xs : List Int) : ravelZ s (xs.map (fun _ => (0 : Int))) = 0 := by
  induction s generalizing xs with
  | nil => cases xs <;> simp [ravelZ]
  | cons d ds ih => cases xs <;> simp [ravelZ, ih]

/-- the C-order successor of an inside position is inside and has the next flat index;
    there is none only at the last flat index. -/
theorem succPos_ravel (s : List Nat) (r : List Int) (hr : inside s r = true) :
    match succPos s r with
    | some r' => inside s r' = true ∧ ravelZ s r' = ravelZ s r + 1
    | none => ravelZ s r = (shapeSize s : Int) - 1 := by
  induction s generalizing r with
  | nil => cases r <;> simp_all [inside, succPos, ravelZ, shapeSize]
  | cons d ds ih =>
    cases r with
    | nil => simp [inside] at hr
    | cons x xs =>
      have hdims := inside_pos_of_dims _ _ hr
      simp only [inside, Bool.and_eq_true, decide_eq_true_eq] at hr
      obtain ⟨⟨r0, r1⟩, r2⟩ := hr
      have hrec := ih xs r2
      cases hs : succPos ds xs with
      | some xs' =>
        rw [hs] at hrec
        simp only [succPos, hs, inside, ravelZ, hrec.1, hrec.2, Bool.and_eq_true, decide_eq_true_eq,
          and_true]
        exact ⟨⟨r0, r1⟩, by ring⟩
      | none =>
        rw [hs] at hrec
        simp only at hrec
        by_cases hx : x < (d : Int) - 1
        · simp only [succPos, hs, hx, if_true, inside, ravelZ, ravelZ_zeros,
            inside_zeros ds xs (fun e he => hdims e (by simp [he])) (inside_length ds xs r2),
            Bool.and_eq_true, decide_eq_true_eq, and_true, hrec]
          exact ⟨⟨by omega, by omega⟩, by ring⟩
        · have hxd : x = (d : Int) - 1 := by omega
          simp only [succPos, hs, hx, if_false, ravelZ, hrec, shapeSize]
          push_cast
          rw [hxd]
          ring

theorem ravelZ_inj (s : List Nat) (r r' : List Int) (h : inside s r = true) (h' : inside s r' = true)
    (he : ravelZ s r = ravelZ s r') : r = r' := by
  induction s generalizing r r' with
  | nil => cases r <;> cases r' <;> simp_all [inside]
  | cons d ds ih =>
    cases r with
    | nil => simp [inside] at h
    | cons x xs =>
    cases r' with
    | nil => simp [inside] at h'
    | cons y ys =>
      simp only [inside, Bool.and_eq_true, decide_eq_true_eq] at h h'
      obtain ⟨⟨a0, a1⟩, a2⟩ := h
      obtain ⟨⟨b0, b1⟩, b2⟩ := h'
      have t1 := ravelZ_range ds xs a2
      have t2 := ravelZ_range ds ys b2
      simp only [ravelZ] at he
      have hxy : x = y := by
        rcases Int.lt_trichotomy x y with hlt | heq | hgt
        · exfalso
          have : (x + 1) * (shapeSize ds : Int) ≤ y * (shapeSize ds : Int) :=
            Int.mul_le_mul_of_nonneg_right (by omega) (by omega)
          rw [Int.add_mul] at this
          omega
        · exact heq
        · exfalso
          have : (y + 1) * (shapeSize ds : Int) ≤ x * (shapeSize ds : Int) :=
            Int.mul_le_mul_of_nonneg_right (by omega) (by omega)
          rw [Int.add_mul] at this
          omega
      subst hxy
      have : ravelZ ds xs = ravelZ ds ys := by omega
      rw [ih xs ys a2 b2 this]

theorem minShape_length (as fs : List Nat) (hlen : fs.length = as.length) :
    (minShape as fs).length = as.length := by
  induction as generalizing fs with
  | nil => simp [minShape]
  | cons a as ih =>
    cases fs with
    | nil => simp at hlen
    | cons f fs =>
      have := ih fs (by simpa using hlen)
      simp [minShape, this]

theorem minShape_pos (as fs : List Nat) (hpos : ∀ d ∈ as, 0 < d) (hf : ∀ f ∈ fs, 0 < f) :
    ∀ d ∈ minShape as fs, 0 < d := by
  induction as generalizing fs with
  | nil => simp [minShape]
  | cons a as ih =>
    cases fs with
    | nil => simp [minShape]
    | cons f fs =>
      intro d hd
      simp only [minShape, List.mem_cons] at hd
      rcases hd with rfl | hd
      · have := hpos a (by simp); have := hf f (by simp); omega
      · exact ih fs (fun e he => hpos e (by simp [he])) (fun g hg => hf g (by simp [hg])) d hd

theorem regionPosTuple_zeros_as (as fs : List Nat) (hlen : fs.length = as.length) :
    regionPosTuple as fs (as.map (fun _ => (0 : Int))) = as.map (fun _ => (0 : Int)) := by
  induction as generalizing fs with
  | nil => simp [regionPosTuple]
  | cons a as ih =>
    cases fs with
    | nil => simp at hlen
    | cons f fs =>
      have := ih fs (by simpa using hlen)
      simp [regionPosTuple, regionPos, this]

/-- every row `n` of the table is filled at the representatives of the tuple with flat index `n` -/
theorem fillPos_spec (as fs : List Nat) (hpos : ∀ d ∈ as, 0 < d) (hf : ∀ f ∈ fs, 0 < f)
    (hlen : fs.length = as.length) :
    ∀ n, n < shapeSize (minShape as fs) →
      ∃ r, inside (minShape as fs) r = true ∧ ravelZ (minShape as fs) r = (n : Int) ∧
        fillPos as fs n = some (regionPosTuple as fs r) := by
  intro n
  induction n with
  | zero =>
    intro _
    have hz : (as.map Int.ofNat).map (fun _ => (0 : Int)) = as.map (fun _ => (0 : Int)) := by
      simp [List.map_map, Function.comp_def]
    have hl := minShape_length as fs hlen
    have hmpos := minShape_pos as fs hpos hf
    refine ⟨as.map (fun _ => (0 : Int)), ?_, ?_, ?_⟩
    · have := inside_zeros (minShape as fs) (as.map Int.ofNat) hmpos (by simp [hl])
      rwa [hz] at this
    · have := ravelZ_zeros (minShape as fs) (as.map Int.ofNat)
      rw [hz] at this; simpa using this
    · simp only [fillPos, regionPosTuple_zeros_as as fs hlen]
  | succ n ih =>
    intro hn
    obtain ⟨r, hr, hrn, hfill⟩ := ih (by omega)
    have hs := succPos_ravel (minShape as fs) r hr
    cases hsp : succPos (minShape as fs) r with
    | none => rw [hsp] at hs; simp only at hs; omega
    | some r' =>
      rw [hsp] at hs
      refine ⟨r', hs.1, by rw [hs.2, hrn]; push_cast; ring, ?_⟩
      simp only [fillPos, hfill, Option.bind_some, nextRegionPositions_step as fs r hf hlen hr, hsp,
        Option.map_some]

theorem regionPosTuple_idx (as fs : List Nat) (p : List Int) :
    regionPosTuple as fs (regionIdxPos as fs p) = repPos as fs p := by
  induction as generalizing fs p with
  | nil => cases fs <;> cases p <;> simp [regionPosTuple, repPos]
  | cons a as ih =>
    cases fs with
    | nil => cases p <;> simp [regionPosTuple, repPos]
    | cons f fs =>
      cases p with
      | nil => simp [regionPosTuple, regionIdxPos, repPos]
      | cons x xs => simp [regionPosTuple, regionIdxPos, repPos, ih]

/-- the row in use at `p` was filled at `repPos p` -/
theorem fillPos_tableRow (as fs : List Nat) (p : List Int) (hf : ∀ f ∈ fs, 0 < f)
    (hlen : fs.length = as.length) (hp : inside as p = true) :
    fillPos as fs (tableRow as fs p) = some (repPos as fs p) := by
  have hin := regionIdxPos_inside as fs p hf hlen hp
  have hlt := ravelI_lt _ _ hin
  obtain ⟨r, hr, hrn, hfill⟩ :=
    fillPos_spec as fs (inside_pos_of_dims as p hp) hf hlen (tableRow as fs p) hlt
  have : r = regionIdxPos as fs p :=
    ravelZ_inj _ _ _ hr hin (by rw [hrn, ravelZ_eq _ _ hin]; rfl)
  rw [hfill, this, regionPosTuple_idx]

end Mahotas.C10
