/-
C10 — B1, regions: the offsets stored for a border region (computed at the region's representative
position) are the offsets of the closed form at every position that uses that region.
-/
import Mahotas.Proofs.C10Hitmiss
namespace Mahotas.C10
open Mahotas

theorem fixOffset_id (m : Mode) (cc len : Int) (h0 : 0 ≤ cc) (h1 : cc < len) :
    fixOffset m cc len = some cc := by
  have a1 : ¬ cc < 0 := by omega
  have a2 : ¬ cc ≥ len := by omega
  cases m <;> simp [fixOffset, a1, a2]

theorem regionPos_succ (a f r : Nat) : regionPos a f (r + 1) = nextRegionPos a f (regionPos a f r) := rfl

/-- closed form of the representative: the interior `[orgn, ashape - fshape + orgn]` shares the
    region whose `position` is `orgn`; every other coordinate has a region of its own. -/
theorem regionRep_eq (a f p : Nat) :
    regionPos a f (regionIndex a f p) =
      if origin f ≤ (p : Int) ∧ (p : Int) ≤ (a : Int) - f + origin f then origin f else (p : Int) := by
  have ho := origin_spec f
  induction p with
  | zero =>
    simp only [regionIndex, regionPos]
    split <;> omega
  | succ p ih =>
    simp only [regionIndex]
    by_cases hc : (p : Int) < origin f ∨ (p : Int) ≥ (a : Int) - f + origin f
    · simp only [hc, if_true, regionPos_succ, ih, nextRegionPos]
      push_cast
      split <;> split <;> (try split) <;> (try split) <;> omega
    · simp only [hc, if_false, Nat.add_zero, ih]
      push_cast
      split <;> split <;> omega

/-- per axis: either the representative is the position itself, or both lie in the interior, where
    `fix_offset` is the identity and the stored relative offset `cc - position` is the same. -/
theorem axis_rep (m : Mode) (a f p : Nat) (k : Int) (hk0 : 0 ≤ k) (hk1 : k < f) :
    regionPos a f (regionIndex a f p) = (p : Int) ∨
    ∃ c1 c2, fixOffset m (k - origin f + regionPos a f (regionIndex a f p)) a = some c1 ∧
      fixOffset m (k - origin f + p) a = some c2 ∧
      c1 - regionPos a f (regionIndex a f p) = c2 - p := by
  rw [regionRep_eq]
  split
  · right
    rename_i h
    refine ⟨k, k - origin f + p, ?_, ?_, by omega⟩
    · have e : k - origin f + origin f = k := by omega
      rw [e]; exact fixOffset_id m k a hk0 (by omega)
    · exact fixOffset_id m _ a (by omega) (by omega)
  · left; rfl

theorem tableOffset_rep (m : Mode) (as : List Nat) (ss : List Int) (fs : List Nat) (p k : List Int)
    (hp : inside as p = true) (hk : inside fs k = true) :
    tableOffset m as ss fs (repPos as fs p) k = tableOffset m as ss fs p k := by
  induction as generalizing ss fs p k with
  | nil => cases p <;> simp_all [inside, tableOffset]
  | cons a as ih =>
    cases p with
    | nil => simp [inside] at hp
    | cons x xs =>
    cases fs with
    | nil => cases k <;> simp [tableOffset]
    | cons f fs =>
    cases k with
    | nil => simp [inside] at hk
    | cons y ys =>
    cases ss with
    | nil => simp [tableOffset]
    | cons s ss =>
      simp only [inside, Bool.and_eq_true, decide_eq_true_eq] at hp hk
      obtain ⟨⟨p0, p1⟩, p2⟩ := hp
      obtain ⟨⟨k0, k1⟩, k2⟩ := hk
      have hx : ((x.toNat : Nat) : Int) = x := Int.toNat_of_nonneg p0
      have hax := axis_rep m a f x.toNat y k0 k1
      rw [hx] at hax
      simp only [repPos, tableOffset, ih ss fs xs ys p2 k2]
      rcases hax with h | ⟨c1, c2, h1, h2, h3⟩
      · rw [h]
      · rw [h1, h2]
        simp only [h3]

/-! ### the offsets table itself is read in range -/

theorem regionIndex_closed (a f p : Nat) :
    (regionIndex a f p : Int) =
      min (p : Int) (origin f) + max 0 ((p : Int) - max (origin f) ((a : Int) - f + origin f)) := by
  induction p with
  | zero =>
    have ho := origin_spec f
    simp only [regionIndex]
    push_cast
    omega
  | succ p ih =>
    simp only [regionIndex]
    push_cast
    rw [ih]
    split <;> omega

theorem regionIndex_lt (a f p : Nat) (hf : 0 < f) (hp : p < a) : regionIndex a f p < min a f := by
  have ho := origin_spec f
  have h := regionIndex_closed a f p
  omega

/-- the last coordinate of an axis uses the last region: the carry `cur_offsets_idx_ -= backstrides[d]`
    (`backstrides = (step-1)*strides`) of `iterate_both` returns exactly to region 0. -/
theorem regionIndex_last (a f : Nat) (hf : 0 < f) (ha : 0 < a) :
    regionIndex a f (a - 1) = min a f - 1 := by
  have ho := origin_spec f
  have h := regionIndex_closed a f (a - 1)
  omega

theorem regionIdxPos_inside (as fs : List Nat) (p : List Int) (hf : ∀ f ∈ fs, 0 < f)
    (hlen : fs.length = as.length) (hp : inside as p = true) :
    inside (minShape as fs) (regionIdxPos as fs p) = true := by
  induction as generalizing fs p with
  | nil => cases fs <;> cases p <;> simp_all [inside, minShape, regionIdxPos]
  | cons a as ih =>
    cases fs with
    | nil => simp at hlen
    | cons f fs =>
    cases p with
    | nil => simp [inside] at hp
    | cons x xs =>
      simp only [inside, Bool.and_eq_true, decide_eq_true_eq] at hp
      obtain ⟨⟨p0, p1⟩, p2⟩ := hp
      have h1 := regionIndex_lt a f x.toNat (hf f (by simp)) (by omega)
      have h2 := ih fs xs (fun g hg => hf g (by simp [hg])) (by simpa using hlen) p2
      simp only [minShape, regionIdxPos, inside, h2, Bool.and_eq_true, decide_eq_true_eq, and_true]
      omega

end Mahotas.C10
