/-
C10 (round 4) — helper lemmas for `Model/C10Slic.lean`.
-/
import Mahotas.Model.C10Slic
import Mathlib.Tactic.Linarith
import Mathlib.Tactic.Ring
namespace Mahotas.C10Slic
open Mahotas

theorem inN_iff (n : Int) (l : List Int) : inN n l = true ↔ ∀ p ∈ l, 0 ≤ p ∧ p < n := by
  simp [inN]

theorem mem_neRange (lo hi : Int) (l : List Int) (h : neRange lo hi = some l) (v : Int) : v ∈ l ↔ lo ≤ v ∧ v < hi := by
  unfold neRange at h
  split at h
  · simp only [Option.some.injEq] at h
    subst h
    simp only [List.mem_map, List.mem_range, Int.ofNat_eq_natCast]
    constructor
    · rintro ⟨k, hk, rfl⟩; omega
    · rintro ⟨h1, h2⟩; exact ⟨(v - lo).toNat, by omega, by omega⟩
  · simp at h

theorem window_ok (ny nx S cy cx : Int) (hS : 1 ≤ S) (hy0 : 0 ≤ cy) (hy : cy < ny) (hx0 : 0 ≤ cx) (hx : cx < nx) :
    ∃ l, windowPositions ny nx S cy cx = some l ∧ (∀ p ∈ l, 0 ≤ p ∧ p < ny * nx) ∧
      winLo cy S < winHi ny cy S ∧ winLo cx S < winHi nx cx S := by
  have hly : winLo cy S < winHi ny cy S := by simp only [winLo, winHi]; omega
  have hlx : winLo cx S < winHi nx cx S := by simp only [winLo, winHi]; omega
  have ey : neRange (winLo cy S) (winHi ny cy S) = some ((List.range (winHi ny cy S - winLo cy S).toNat).map fun k => winLo cy S + Int.ofNat k) := by
    unfold neRange; rw [if_pos (by omega)]
  have ex : neRange (winLo cx S) (winHi nx cx S) = some ((List.range (winHi nx cx S - winLo cx S).toNat).map fun k => winLo cx S + Int.ofNat k) := by
    unfold neRange; rw [if_pos (by omega)]
  have hw : windowPositions ny nx S cy cx = some
      (((List.range (winHi ny cy S - winLo cy S).toNat).map fun k => winLo cy S + Int.ofNat k).flatMap fun y =>
        ((List.range (winHi nx cx S - winLo cx S).toNat).map fun k => winLo cx S + Int.ofNat k).map fun x => y * nx + x) := by
    simp only [windowPositions, ey, ex]
  refine ⟨_, hw, ?_, hly, hlx⟩
  intro p hp
  simp only [List.mem_flatMap, List.mem_map] at hp
  obtain ⟨y, hyy, x, hxx, rfl⟩ := hp
  have h1 := (mem_neRange _ _ _ ey y).mp (List.mem_map.mpr hyy)
  have h2 := (mem_neRange _ _ _ ex x).mp (List.mem_map.mpr hxx)
  have hy1 : 0 ≤ y ∧ y < ny := by simp only [winLo, winHi] at h1; omega
  have hx1 : 0 ≤ x ∧ x < nx := by simp only [winLo, winHi] at h2; omega
  constructor
  · nlinarith
  · nlinarith

theorem mem_seedLoop (S N : Nat) : ∀ (fuel y0 k : Nat), k < fuel → y0 + k * S < N → y0 + k * S ∈ C11.seedLoop S N fuel y0 := by
  intro fuel
  induction fuel with
  | zero => intro y0 k hk; omega
  | succ f ih =>
    intro y0 k hk hlt
    have h0 : y0 < N := by
      have : y0 ≤ y0 + k * S := Nat.le_add_right _ _
      omega
    simp only [C11.seedLoop, if_pos h0]
    cases k with
    | zero => simp
    | succ k =>
      have e : y0 + (k + 1) * S = (y0 + S) + k * S := by ring
      rw [e]
      exact List.mem_cons_of_mem _ (ih (y0 + S) k (by omega) (by rw [← e]; exact hlt))

/-- one axis: every coordinate `y < N` lies in the window of some seed -/
theorem axis_covered (S N : Nat) (hS : 1 ≤ S) (hN : S / 2 < N) (y : Nat) (hy : y < N) :
    ∃ s ∈ C11.seeds S N, winLo (s : Int) S ≤ (y : Int) ∧ (y : Int) < winHi N s S := by
  by_cases hlow : y < S / 2
  · refine ⟨S / 2, ?_, ?_, ?_⟩
    · have := mem_seedLoop S N N (S / 2) 0 (by omega) (by simpa using hN)
      simpa [C11.seeds] using this
    · simp only [winLo]; omega
    · simp only [winHi]; omega
  · let k := (y - S / 2) / S
    have hdm := Nat.div_add_mod (y - S / 2) S
    have hmod := Nat.mod_lt (y - S / 2) (show 0 < S by omega)
    have hk : k * S = S * ((y - S / 2) / S) := Nat.mul_comm _ _
    have hs1 : S / 2 + k * S ≤ y := by omega
    have hs2 : y < S / 2 + k * S + S := by omega
    have hkN : k < N := by
      have : k ≤ k * S := Nat.le_mul_of_pos_right k (by omega)
      omega
    refine ⟨S / 2 + k * S, ?_, ?_, ?_⟩
    · have := mem_seedLoop S N N (S / 2) k hkN (by omega)
      simpa [C11.seeds] using this
    · simp only [winLo]; push_cast; omega
    · simp only [winHi]; push_cast; omega

theorem covered_ok (S ny nx : Nat) (hS : 1 ≤ S) (hy : S / 2 < ny) (hx : S / 2 < nx) : covered S ny nx = true := by
  simp only [covered, List.all_eq_true, List.mem_range, List.any_eq_true]
  intro y hyy x hxx
  obtain ⟨sy, hsy, a1, a2⟩ := axis_covered S ny hS hy y hyy
  obtain ⟨sx, hsx, b1, b2⟩ := axis_covered S nx hS hx x hxx
  refine ⟨(sy, sx), ?_, ?_⟩
  · simp only [seedCentroids, List.mem_flatMap, List.mem_map]
    exact ⟨sy, hsy, sx, hsx, rfl⟩
  · simp only [inWindow, Bool.and_eq_true, decide_eq_true_eq]
    exact ⟨⟨⟨a1, a2⟩, b1⟩, b2⟩

end Mahotas.C10Slic
