/-
C10 / B9 — helper lemmas for the SURF index models of `Model/C10Surf.lean`.
-/
import Mahotas.Model.C10Surf
import Mathlib.Tactic.Linarith
namespace Mahotas.C10Surf
open Mahotas

/-- the access is inside its axis -/
def SOk (a : SAcc) : Prop := 0 ≤ a.i ∧ a.i < a.size

theorem sAllOk_iff (l : List SAcc) : sAllOk l = true ↔ ∀ a ∈ l, SOk a := by
  simp [sAllOk, SAcc.ok, SOk, List.all_eq_true]

/-! ## loops -/

theorem mem_sRangeI (n x : Int) : x ∈ sRangeI n ↔ 0 ≤ x ∧ x < n := by
  simp only [sRangeI, List.mem_map, List.mem_range]
  constructor
  · rintro ⟨k, hk, rfl⟩
    simp only [Int.ofNat_eq_natCast]
    omega
  · rintro ⟨h0, h1⟩
    exact ⟨x.toNat, by omega, by simp only [Int.ofNat_eq_natCast]; omega⟩

/-- every value of `for (v = lo; v < hi; v += step)` lies in `[lo, hi)`, is `lo` plus a multiple of the step, and the step is positive -/
theorem mem_sRangeStep (lo hi step x : Int) (h : x ∈ sRangeStep lo hi step) :
    0 < step ∧ lo ≤ x ∧ x < hi ∧ ∃ k : Int, 0 ≤ k ∧ x = lo + step * k := by
  unfold sRangeStep at h
  split at h
  · simp at h
  · rename_i hs
    have hs' : 0 < step := by omega
    simp only [List.mem_map, List.mem_range] at h
    rcases h with ⟨k, hk, rfl⟩
    have hk0 : (0 : Int) ≤ (k : Int) := Int.natCast_nonneg k
    have hk' : (k : Int) < (hi - lo + step - 1) / step := by omega
    have h1 : ((k : Int) + 1) * step ≤ hi - lo + step - 1 := by
      have := Int.mul_le_of_le_ediv hs' (show (k : Int) + 1 ≤ (hi - lo + step - 1) / step by omega)
      linarith
    refine ⟨hs', ?_, ?_, k, hk0, rfl⟩
    · nlinarith
    · nlinarith

theorem mem_sRangeStep_one (lo hi x : Int) : x ∈ sRangeStep lo hi 1 ↔ lo ≤ x ∧ x < hi := by
  constructor
  · intro h
    have := mem_sRangeStep lo hi 1 x h
    omega
  · rintro ⟨h0, h1⟩
    unfold sRangeStep
    simp only [show ¬ ((1 : Int) ≤ 0) by omega, if_false, List.mem_map, List.mem_range]
    exact ⟨(x - lo).toNat, by simp only [Int.ediv_one]; omega, by omega⟩

/-! ## sum_rect -/

/-- **repaired `sum_rect` (6faa5ae)**: all four corners are clamped into the image and an empty image is not read:
    for ALL integers the reads are inside the `n0 x n1` integral image. -/
theorem sumRect_ok (n0 n1 y0 x0 y1 x1 : Int) : ∀ a ∈ sumRectAccesses n0 n1 y0 x0 y1 x1, SOk a := by
  unfold sumRectAccesses
  split
  · simp
  · simp only [at2, SOk, List.cons_append, List.nil_append, List.mem_cons,
      List.not_mem_nil, or_false, forall_eq_or_imp, forall_eq]
    omega

/-- an empty image performs no access; a non-empty one exactly the four reads (8 coordinates) -/
theorem sumRect_length (n0 n1 y0 x0 y1 x1 : Int) :
    (sumRectAccesses n0 n1 y0 x0 y1 x1).length = if n0 ≤ 0 ∨ n1 ≤ 0 then 0 else 8 := by
  unfold sumRectAccesses
  split <;> simp [at2]

theorem sumRectEntry_ok (n0 n1 y0 x0 y1 x1 : Int) : ∀ a ∈ sumRectEntry n0 n1 y0 x0 y1 x1, SOk a := by
  unfold sumRectEntry
  split
  · simp
  · simp only [at2, SOk, List.cons_append, List.nil_append, List.mem_cons,
      List.not_mem_nil, or_false, forall_eq_or_imp, forall_eq]
    generalize wrap32 (y0 - 1) = a
    generalize wrap32 (x0 - 1) = b
    generalize wrap32 (y1 - 1) = c
    generalize wrap32 (x1 - 1) = d
    omega

/-- the clamps of the PINNED tree: exact characterisation (one-sided clamps) -/
theorem sumRectPinned_ok_iff (n0 n1 y0 x0 y1 x1 : Int) :
    (∀ a ∈ sumRectPinnedAccesses n0 n1 y0 x0 y1 x1, SOk a) ↔
      1 ≤ n0 ∧ 1 ≤ n1 ∧ y0 ≤ n0 ∧ x0 ≤ n1 ∧ 1 ≤ y1 ∧ 1 ≤ x1 := by
  simp only [sumRectPinnedAccesses, at2, SOk, List.cons_append, List.nil_append, List.mem_cons,
    List.not_mem_nil, or_false, forall_eq_or_imp, forall_eq]
  omega

theorem csumRect_ok (n0 n1 y x dy dx h w : Int) : ∀ a ∈ csumRectAccesses n0 n1 y x dy dx h w, SOk a := by
  simp only [csumRectAccesses]
  exact sumRect_ok _ _ _ _ _ _

/-- `haar_x` followed by `haar_y` at `(y, x, w)`: in bounds for all integers -/
theorem haar_ok (n0 n1 y x w : Int) : ∀ a ∈ haarAccesses n0 n1 y x w, SOk a := by
  intro a ha
  simp only [haarAccesses, haarXAccesses, haarYAccesses, List.mem_append] at ha
  rcases ha with (ha | ha) | (ha | ha) <;> exact sumRect_ok _ _ _ _ _ _ a ha

theorem descWindow_ok (n0 n1 : Int) (pts : List (Int × Int)) (w : Int) :
    ∀ a ∈ descWindowAccesses n0 n1 pts w, SOk a := by
  intro a ha
  simp only [descWindowAccesses, List.mem_flatMap] at ha
  rcases ha with ⟨p, _, ha⟩
  exact haar_ok n0 n1 p.1 p.2 w a ha

/-! ## build_pyramid -/

theorem pow2_pos (k : Nat) : 1 ≤ pow2 k := by
  unfold pow2
  have : (0 : Int) < 2 ^ k := by positivity
  omega

theorem pow2_succ (k : Nat) : pow2 (k + 1) = 2 * pow2 k := by
  unfold pow2
  rw [pow_succ, Int.mul_comm]

theorem pow2_mono {a b : Nat} (h : a ≤ b) : pow2 a ≤ pow2 b := by
  induction h with
  | refl => exact le_refl _
  | step _ ih => rw [pow2_succ]; have := pow2_pos a; omega

/-- the eight windows of one sample: inside for every position and lobe size (the repaired clamps of `sum_rect`) -/
theorem pyramidSampleReads_ok (n0 n1 y x l : Int) :
    ∀ a ∈ pyramidSampleReads n0 n1 y x l, SOk a := by
  intro a ha
  simp only [pyramidSampleReads, List.mem_append] at ha
  rcases ha with ((((((ha | ha) | ha) | ha) | ha) | ha) | ha) | ha <;> exact csumRect_ok _ _ _ _ _ _ _ _ a ha

theorem tdiv_step_range (n y step border : Int) (hs : 1 ≤ step) (hb : step ≤ border)
    (hy : border ≤ y ∧ y < n - border) :
    0 ≤ Int.tdiv y step ∧ Int.tdiv y step < Int.tdiv n step := by
  rw [Int.tdiv_eq_ediv_of_nonneg (by omega), Int.tdiv_eq_ediv_of_nonneg (by omega)]
  have hs' : 0 < step := by omega
  constructor
  · exact Int.ediv_nonneg (by omega) (by omega)
  · have h1 : (y + step) / step = y / step + 1 := by
      rw [Int.add_ediv_of_dvd_right (dvd_refl step), Int.ediv_self (by omega)]
    have h2 : (y + step) / step ≤ n / step := Int.ediv_le_ediv hs' (by omega)
    omega

theorem borderSize_ge (o : Nat) (nint : Int) (hn : 1 ≤ nint) : 8 ≤ borderSize o nint := by
  unfold borderSize
  have h1 : 2 ≤ pow2 (o + 1) := by rw [pow2_succ]; have := pow2_pos o; omega
  have h2 : 4 ≤ pow2 (o + 1) * (nint + 1) := by nlinarith
  omega

theorem lobeSize_ge (o : Nat) (i : Int) (hi : 0 ≤ i) : 1 ≤ lobeSize o i := by
  unfold lobeSize
  have h1 := pow2_pos (o + 1)
  have : 0 ≤ pow2 (o + 1) * (i + 1) := by nlinarith
  omega

theorem pyramidOctave_ok (n0 n1 nint init : Int) (o : Nat) (hi : 1 ≤ init) :
    ∀ a ∈ pyramidOctave n0 n1 nint init o, SOk a := by
  intro a ha
  simp only [pyramidOctave, List.mem_flatMap, mem_sRangeI, List.mem_append] at ha
  rcases ha with ⟨i, hir, y, hy, x, hx, ha⟩
  have hstep : 1 ≤ stepSize init o := by
    unfold stepSize; have := pow2_pos o; nlinarith
  have hbs := borderSize_ge o nint (by omega)
  have hborder : stepSize init o ≤ borderSize o nint * stepSize init o ∧ 8 ≤ borderSize o nint * stepSize init o := by
    constructor <;> nlinarith
  have hy' := mem_sRangeStep _ _ _ _ hy
  have hx' := mem_sRangeStep _ _ _ _ hx
  rcases ha with ha | ha
  · exact pyramidSampleReads_ok n0 n1 y x _ a ha
  · have ry := tdiv_step_range n0 y _ _ hstep hborder.1 ⟨hy'.2.1, hy'.2.2.1⟩
    have rx := tdiv_step_range n1 x _ _ hstep hborder.1 ⟨hx'.2.1, hx'.2.2.1⟩
    simp only [pyramidWrite, pyramidDims, at3, List.mem_cons, List.not_mem_nil, or_false] at ha
    rcases ha with rfl | rfl | rfl <;> (unfold SOk; simp only; omega)

theorem pyramidAccesses_ok (n0 n1 noct nint init : Int) (hi : 1 ≤ init) :
    ∀ a ∈ pyramidAccesses n0 n1 noct nint init, SOk a := by
  intro a ha
  simp only [pyramidAccesses, List.mem_flatMap, List.mem_range, List.mem_cons] at ha
  rcases ha with ⟨o, ho, rfl | ha⟩
  · unfold SOk; simp only; omega
  · exact pyramidOctave_ok n0 n1 nint init o hi a ha

theorem pyramidDone_ok (noct init : Int) (hi : 1 ≤ init) : pyramidDone noct init = true := by
  simp only [pyramidDone, List.all_eq_true, List.mem_range, decide_eq_true_eq]
  intro o _
  unfold stepSize; have := pow2_pos o; nlinarith


/-- **no `int` overflow before the image is looked at.** Under `check_pyramid_parameters` every `int` that
    `build_pyramid` computes from the parameters alone lies in `[1, INT_MAX]`. -/
theorem pyramidInts_range (noct nint init : Int) (o : Nat) (i : Int)
    (hg : checkPyramidParameters noct nint init = true) (ho : (o : Int) < noct) (hi : 0 ≤ i ∧ i < nint) :
    ∀ v ∈ pyramidInts nint init o i, 1 ≤ v ∧ v ≤ 2147483647 := by
  simp only [checkPyramidParameters, Bool.and_eq_true, decide_eq_true_eq] at hg
  obtain ⟨⟨⟨⟨h0, _⟩, hn⟩, hin⟩, hG⟩ := hg
  have hk : noct.toNat = (noct.toNat - 1) + 1 := by omega
  have hQ : pow2 noct.toNat = 2 * pow2 (noct.toNat - 1) := by rw [hk, pow2_succ]; simp
  have hAP : pow2 o ≤ pow2 (noct.toNat - 1) := pow2_mono (by omega)
  have hA1 := pow2_pos o
  have hB : pow2 (o + 1) = 2 * pow2 o := pow2_succ o
  rw [hQ] at hG
  intro v hv
  simp only [pyramidInts, stepSize, lobeSize, List.mem_cons, List.not_mem_nil, or_false, hB] at hv
  have hbs2 : 2 * borderSize o nint ≤ 3 * (2 * pow2 o * (nint + 1) + 1) + 1 ∧ 8 ≤ borderSize o nint := by
    unfold borderSize
    rw [hB]
    have e : 2 * pow2 o * (nint + 1) = 2 * (pow2 o * (nint + 1)) := by rw [Int.mul_assoc]
    rw [e]
    have : 2 ≤ pow2 o * (nint + 1) := by nlinarith
    generalize pow2 o * (nint + 1) = u at *
    omega
  generalize borderSize o nint = bs at *
  generalize pow2 (noct.toNat - 1) = P at *
  generalize pow2 o = A at *
  have hIA : init * A ≤ init * P := mul_le_mul_of_nonneg_left hAP (by omega)
  have hIA1 : 1 ≤ init * A := by nlinarith
  have hu : A * (nint + 1) ≤ P * (nint + 1) := mul_le_mul_of_nonneg_right hAP (by omega)
  have hu2 : 2 ≤ A * (nint + 1) := by nlinarith
  have hl : A * (i + 1) ≤ A * (nint + 1) := mul_le_mul_of_nonneg_left (by omega) (by omega)
  have hl1 : 1 ≤ A * (i + 1) := by nlinarith
  -- T = 3*(2*P*(nint+1)+1)+2
  have hT : init * P * 17 ≤ init * P * (3 * (2 * P * (nint + 1) + 1) + 2) :=
    mul_le_mul_of_nonneg_left (by nlinarith) (by nlinarith)
  have hborder : 2 * (bs * (init * A)) ≤ (3 * (2 * P * (nint + 1) + 1) + 1) * (init * P) := by
    have h1 : 2 * bs ≤ 3 * (2 * P * (nint + 1) + 1) + 1 := by nlinarith
    have := mul_le_mul h1 hIA (by omega) (by nlinarith)
    linarith
  rcases hv with rfl | rfl | rfl | rfl | rfl
  · constructor <;> nlinarith
  · constructor
    · omega
    · nlinarith
  · constructor <;> nlinarith
  · constructor <;> nlinarith
  · have e : Int.tdiv (2 * A * (i + 1) + 1) 2 = (2 * A * (i + 1) + 1) / 2 :=
      Int.tdiv_eq_ediv_of_nonneg (by nlinarith)
    rw [e]
    have e2 : 2 * A * (i + 1) = 2 * (A * (i + 1)) := by rw [Int.mul_assoc]
    rw [e2]
    have : A * (i + 1) ≤ 2147483640 := by nlinarith
    generalize A * (i + 1) = u at *
    omega

/-! ## get_interest_points -/

theorem ipInterpOffsets_range : ∀ d ∈ ipInterpOffsets,
    (-1 ≤ d.1 ∧ d.1 ≤ 1) ∧ (-1 ≤ d.2.1 ∧ d.2.1 ≤ 1) ∧ (-1 ≤ d.2.2 ∧ d.2.2 ≤ 1) := by decide

theorem ipCandidate_ok (nint nr nc i r c : Int) (hr : 1 ≤ r ∧ r + 1 < nr) (hc : 1 ≤ c ∧ c + 1 < nc) :
    ∀ a ∈ ipCandidate nint nr nc i r c, SOk a := by
  intro a ha
  unfold ipCandidate at ha
  split at ha
  · simp at ha
  · rename_i hg
    simp only [List.mem_append, List.mem_flatMap, mem_sRangeStep_one] at ha
    rcases ha with (ha | ⟨ii, hii, rr, hrr, cc, hcc, ha⟩) | ⟨d, hd, ha⟩
    · simp only [at3, List.mem_cons, List.not_mem_nil, or_false] at ha
      rcases ha with rfl | rfl | rfl <;> (unfold SOk; simp only; omega)
    · simp only [at3, List.mem_cons, List.not_mem_nil, or_false] at ha
      rcases ha with rfl | rfl | rfl <;> (unfold SOk; simp only; omega)
    · have hd' := ipInterpOffsets_range d hd
      simp only [at3, List.mem_cons, List.not_mem_nil, or_false] at ha
      rcases ha with rfl | rfl | rfl <;> (unfold SOk; simp only; omega)

theorem ipBlock_ok (nint nr nc bs i r c : Int) (hbs : 0 ≤ bs) (hi : 1 ≤ i ∧ i < nint - 1)
    (hr : bs + 1 ≤ r ∧ r < nr - bs - 1) (hc : bs + 1 ≤ c ∧ c < nc - bs - 1) :
    ∀ a ∈ ipBlock nint nr nc bs i r c, SOk a := by
  intro a ha
  simp only [ipBlock, List.mem_append, List.mem_flatMap, mem_sRangeStep_one] at ha
  rcases ha with ha | ⟨ii, hii, rr, hrr, cc, hcc, ha | ha⟩
  · simp only [at3, List.mem_cons, List.not_mem_nil, or_false] at ha
    rcases ha with rfl | rfl | rfl <;> (unfold SOk; simp only; omega)
  · simp only [at3, List.mem_cons, List.not_mem_nil, or_false] at ha
    rcases ha with rfl | rfl | rfl <;> (unfold SOk; simp only; omega)
  · exact ipCandidate_ok nint nr nc ii rr cc (by omega) (by omega) a ha

theorem ipScan_ok (nint nr nc bs : Int) (hbs : 0 ≤ bs) : ∀ a ∈ ipScanAccesses nint nr nc bs, SOk a := by
  intro a ha
  simp only [ipScanAccesses, List.mem_flatMap] at ha
  rcases ha with ⟨i, hi, r, hr, c, hc, ha⟩
  have hi' := mem_sRangeStep _ _ _ _ hi
  have hr' := mem_sRangeStep _ _ _ _ hr
  have hc' := mem_sRangeStep _ _ _ _ hc
  exact ipBlock_ok nint nr nc bs i r c hbs ⟨hi'.2.1, hi'.2.2.1⟩ ⟨hr'.2.1, hr'.2.2.1⟩ ⟨hc'.2.1, hc'.2.2.1⟩ a ha

end Mahotas.C10Surf
