/-
C10 — helper lemmas for B6 (`dist_transform`) and B7 (label-indexed tables).
-/
import Mahotas.Proofs.C10Loops
namespace Mahotas.C10
open Mahotas

/-! ## B6 -/

def AccOk (a : Acc) : Prop := 0 ≤ a.i ∧ a.i < a.size

theorem headD_mem_bound (vs : List Int) (q : Int) (hne : vs ≠ []) (h : ∀ v ∈ vs, 0 ≤ v ∧ v < q) :
    0 ≤ vs.headD 0 ∧ vs.headD 0 < q := by
  cases vs with
  | nil => exact absurd rfl hne
  | cons v vt => simpa using h v (by simp)

theorem dtPop_spec (cmp : Nat → Nat → Bool) (n q : Nat) (hq : q < n) (h0 : cmp q 0 = true) :
    ∀ (k : Nat) (vs : List Int), vs.length = k + 1 → (∀ v ∈ vs, 0 ≤ v ∧ v < (q : Int)) → k < n →
    (∀ a ∈ (dtPop cmp n q k vs).1, AccOk a) ∧
    ∃ kb vs', (dtPop cmp n q k vs).2 = some (kb, vs') ∧ kb ≤ k ∧ vs'.length = kb + 1 ∧
      ∀ v ∈ vs', 0 ≤ v ∧ v < (q : Int) := by
  intro k
  induction k with
  | zero =>
    intro vs hl hv _
    have hne : vs ≠ [] := by intro e; simp [e] at hl
    have hh := headD_mem_bound vs q hne hv
    simp only [dtPop, h0, if_true]
    refine ⟨?_, 0, vs, rfl, Nat.le_refl _, hl, hv⟩
    intro a ha
    simp only [List.mem_cons, List.not_mem_nil, or_false] at ha
    rcases ha with rfl | rfl | rfl | rfl <;> simp only [AccOk] <;> omega
  | succ k ih =>
    intro vs hl hv hk
    have hne : vs ≠ [] := by intro e; simp [e] at hl
    have hh := headD_mem_bound vs q hne hv
    have hhere : ∀ a ∈ [Acc.mk (k + 1 : Nat) n, Acc.mk (k + 1 : Nat) (n + 1), Acc.mk q n,
        Acc.mk (vs.headD 0) n], AccOk a := by
      intro a ha
      simp only [List.mem_cons, List.not_mem_nil, or_false] at ha
      rcases ha with rfl | rfl | rfl | rfl <;> simp only [AccOk] <;> omega
    by_cases hc : cmp q (k + 1) = true
    · simp only [dtPop, hc, if_true]
      exact ⟨hhere, k + 1, vs, rfl, Nat.le_refl _, hl, hv⟩
    · simp only [dtPop, hc]
      have hl' : vs.tail.length = k + 1 := by simp [hl]
      have hv' : ∀ v ∈ vs.tail, 0 ≤ v ∧ v < (q : Int) := fun v h => hv v (List.mem_of_mem_tail h)
      obtain ⟨hacc, kb, vs', he, hkb, hlen, hmem⟩ := ih vs.tail hl' hv' (by omega)
      refine ⟨?_, kb, vs', he, by omega, hlen, hmem⟩
      intro a ha
      simp only [Bool.false_eq_true, if_false, List.mem_append] at ha
      rcases ha with ha | ha
      · exact hhere a ha
      · exact hacc a ha

theorem dtFirst_spec (cmp : Nat → Nat → Bool) (n : Nat) (hcmp : ∀ q, cmp q 0 = true) :
    ∀ (c q k : Nat) (vs : List Int), q + c = n → k < q → vs.length = k + 1 →
      (∀ v ∈ vs, 0 ≤ v ∧ v < (q : Int)) →
    (∀ a ∈ (dtFirst cmp n c q k vs).1, AccOk a) ∧
    ∃ kf vsf, (dtFirst cmp n c q k vs).2 = some (kf, vsf) ∧ kf < n ∧ vsf.length = kf + 1 ∧
      ∀ v ∈ vsf, 0 ≤ v ∧ v < (n : Int) := by
  intro c
  induction c with
  | zero =>
    intro q k vs hq hk hl hv
    simp only [dtFirst]
    refine ⟨by simp, k, vs, rfl, by omega, hl, ?_⟩
    intro v h
    have := hv v h
    omega
  | succ c ih =>
    intro q k vs hq hk hl hv
    obtain ⟨hacc, kb, vs', he, hkb, hlen, hmem⟩ :=
      dtPop_spec cmp n q (by omega) (hcmp q) k vs hl hv (by omega)
    rcases hp : dtPop cmp n q k vs with ⟨a, r⟩
    rw [hp] at he hacc
    simp only at he hacc
    subst he
    simp only [dtFirst, hp]
    obtain ⟨hacc2, kf, vsf, he2, hkf, hlen2, hmem2⟩ :=
      ih (q + 1) (kb + 1) ((q : Int) :: vs') (by omega) (by omega) (by simp [hlen])
        (by
          intro v h
          simp only [List.mem_cons] at h
          rcases h with rfl | h
          · omega
          · have := hmem v h
            omega)
    refine ⟨?_, kf, vsf, he2, hkf, hlen2, hmem2⟩
    intro x hx
    simp only [List.mem_append, List.mem_cons, List.not_mem_nil, or_false] at hx
    rcases hx with (hx | rfl | rfl | rfl) | hx
    · exact hacc x hx
    · simp only [AccOk]; omega
    · simp only [AccOk]; omega
    · simp only [AccOk]; omega
    · exact hacc2 x hx

theorem dtAdvance_spec (lt2 : Nat → Nat → Bool) (n q kmax : Nat) (hkm : kmax < n)
    (hlt : lt2 q kmax = false) :
    ∀ (f k : Nat), k ≤ kmax → kmax - k < f →
    (∀ a ∈ (dtAdvance lt2 n q f k).1, AccOk a) ∧ k ≤ (dtAdvance lt2 n q f k).2 ∧
      (dtAdvance lt2 n q f k).2 ≤ kmax := by
  intro f
  induction f with
  | zero => intro k _ h; omega
  | succ f ih =>
    intro k hk hf
    by_cases hc : lt2 q k = true
    · have hne : k ≠ kmax := by
        intro e; rw [e, hlt] at hc; exact absurd hc (by simp)
      obtain ⟨h1, h2, h3⟩ := ih (k + 1) (by omega) (by omega)
      simp only [dtAdvance, hc, if_true]
      refine ⟨?_, by omega, h3⟩
      intro a ha
      simp only [List.mem_cons] at ha
      rcases ha with rfl | ha
      · simp only [AccOk]; omega
      · exact h1 a ha
    · simp only [dtAdvance, hc]
      refine ⟨?_, Nat.le_refl _, hk⟩
      intro a ha
      simp only [Bool.false_eq_true, if_false, List.mem_cons, List.not_mem_nil, or_false] at ha
      subst ha
      simp only [AccOk]; omega

theorem dtSecond_spec (lt2 : Nat → Nat → Bool) (n kmax : Nat) (v : List Int) (hkm : kmax < n)
    (hlt : ∀ q, lt2 q kmax = false) (hvl : v.length = kmax + 1)
    (hv : ∀ x ∈ v, 0 ≤ x ∧ x < (n : Int)) :
    ∀ (c q k : Nat), q + c = n → k ≤ kmax → ∀ a ∈ dtSecond lt2 n v c q k, AccOk a := by
  intro c
  induction c with
  | zero => intro q k _ _ a ha; simp [dtSecond] at ha
  | succ c ih =>
    intro q k hq hk a ha
    obtain ⟨h1, h2, h3⟩ := dtAdvance_spec lt2 n q kmax hkm (hlt q) (n + 2) k hk (by omega)
    simp only [dtSecond, List.mem_append, List.mem_cons, List.not_mem_nil, or_false] at ha
    rcases ha with (ha | rfl | rfl | rfl) | ha
    · exact h1 a ha
    · simp only [AccOk]; omega
    · simp only [AccOk]; omega
    · have hlt' : (dtAdvance lt2 n q (n + 2) k).2 < v.length := by omega
      have hm : v.getD (dtAdvance lt2 n q (n + 2) k).2 0 ∈ v := by
        simp [List.getD_eq_getElem?_getD, List.getElem?_eq_getElem hlt']
      exact hv _ hm
    · exact ih (q + 1) _ (by omega) h3 a ha

theorem dtAccesses_ok (cmp lt2 : Nat → Nat → Bool) (n : Nat) (hn : 0 < n)
    (hcmp : ∀ q, cmp q 0 = true) (hlt : ∀ q, lt2 q (dtKmax cmp n) = false) :
    (∀ a ∈ dtAccesses cmp lt2 n, AccOk a) ∧ (dtFirst cmp n (n - 1) 1 0 [0]).2.isSome = true := by
  obtain ⟨hacc, kf, vsf, he, hkf, hlen, hmem⟩ :=
    dtFirst_spec cmp n hcmp (n - 1) 1 0 [0] (by omega) (by omega) (by simp)
      (by intro v h; simp only [List.mem_cons, List.not_mem_nil, or_false] at h; subst h; omega)
  have hk : dtKmax cmp n = kf := by simp [dtKmax, he]
  rw [hk] at hlt
  refine ⟨?_, by simp [he]⟩
  intro a ha
  simp only [dtAccesses, he, List.mem_append, List.mem_cons, List.not_mem_nil, or_false] at ha
  rcases ha with ((rfl | rfl | rfl) | ha) | ha
  · simp only [AccOk]; omega
  · simp only [AccOk]; omega
  · simp only [AccOk]; omega
  · exact hacc a ha
  · exact dtSecond_spec lt2 n kf vsf.reverse hkf hlt (by simp [hlen])
      (by intro x hx; exact hmem x (List.mem_reverse.mp hx)) n 0 0 (by omega) (by omega) a ha

/-! ## B7 -/

theorem bboxAccesses_ok (nd maxlabel label : Int) (h0 : 0 ≤ label) (h1 : label ≤ maxlabel) :
    ∀ a ∈ bboxAccesses nd maxlabel label, AccOk a := by
  intro a ha
  simp only [bboxAccesses, List.mem_flatMap, mem_rangeI, List.mem_cons, List.not_mem_nil,
    or_false] at ha
  obtain ⟨j, ⟨hj0, hj1⟩, hm⟩ := ha
  have e1 : label * 2 * nd = label * (nd * 2) := by ring
  have e2 : nd * 2 * (maxlabel + 1) = (maxlabel + 1) * (nd * 2) := by ring
  rcases hm with rfl | rfl
  · have := flat2_range label (2 * j) (maxlabel + 1) (nd * 2) h0 (by omega) (by omega) (by omega)
    simp only [AccOk, e1, e2]; omega
  · have := flat2_range label (2 * j + 1) (maxlabel + 1) (nd * 2) h0 (by omega) (by omega) (by omega)
    simp only [AccOk, e1, e2]; omega

/-- converse: with at least one axis, a label outside `[0, maxlabel]` leaves the table. -/
theorem bboxAccesses_bad (nd maxlabel label : Int) (hnd : 1 ≤ nd)
    (h : ∀ a ∈ bboxAccesses nd maxlabel label, AccOk a) : 0 ≤ label ∧ label ≤ maxlabel := by
  have hm : Acc.mk (label * 2 * nd + 2 * 0) (nd * 2 * (maxlabel + 1)) ∈ bboxAccesses nd maxlabel label := by
    simp only [bboxAccesses, List.mem_flatMap, mem_rangeI]
    exact ⟨0, ⟨by omega, by omega⟩, by simp⟩
  have := h _ hm
  simp only [AccOk] at this
  obtain ⟨a0, a1⟩ := this
  constructor
  · by_contra hneg
    have : label * 2 * nd ≤ (-1) * 2 * nd := by
      have : label * 2 ≤ (-1) * 2 := by omega
      exact Int.mul_le_mul_of_nonneg_right this (by omega)
    omega
  · by_contra hbig
    have h2 : (maxlabel + 1) * 2 * nd ≤ label * 2 * nd := by
      have : (maxlabel + 1) * 2 ≤ label * 2 := by omega
      exact Int.mul_le_mul_of_nonneg_right this (by omega)
    have e2 : nd * 2 * (maxlabel + 1) = (maxlabel + 1) * 2 * nd := by ring
    omega

theorem foldlAccesses_ok (maxi label : Int) : ∀ a ∈ foldlAccesses maxi label, AccOk a := by
  intro a ha
  simp only [foldlAccesses] at ha
  split at ha
  · simp only [List.mem_cons, List.not_mem_nil, or_false] at ha
    subst ha
    simp only [AccOk]; omega
  · simp at ha

theorem comAccesses_ok (nd maxlabel label size lsize : Int) (h0 : 0 ≤ label) (h1 : label ≤ maxlabel)
    (hs : size ≤ lsize) : ∀ a ∈ comAccesses nd maxlabel label size lsize, AccOk a := by
  intro a ha
  simp only [comAccesses, comAccessesAt, List.mem_flatMap, mem_rangeI, List.mem_append,
    List.mem_cons, List.not_mem_nil, or_false, List.mem_map] at ha
  obtain ⟨i, ⟨hi0, hi1⟩, hm⟩ := ha
  rcases hm with (rfl | rfl) | ⟨j, ⟨hj0, hj1⟩, rfl⟩
  · simp only [AccOk]; omega
  · simp only [AccOk]; omega
  · have := flat2_range label j (maxlabel + 1) nd h0 (by omega) hj0 hj1
    have e2 : nd * (maxlabel + 1) = (maxlabel + 1) * nd := by ring
    simp only [AccOk, e2]; omega

theorem coocAccesses_ok (m0 m1 maxv v v2 : Int) (hv : v ≤ maxv) (hv2 : v2 ≤ maxv)
    (hm0 : maxv < m0) (hm1 : maxv < m1) : ∀ a ∈ coocAccesses m0 m1 v v2, AccOk a := by
  intro a ha
  simp only [coocAccesses] at ha
  split at ha
  · simp at ha
  · simp only [List.mem_cons, List.not_mem_nil, or_false] at ha
    rcases ha with rfl | rfl <;> simp only [AccOk] <;> omega

theorem plusMinusAccesses_ok (n plus minus : Int) (hp : 2 * n - 1 ≤ plus) (hm : n ≤ minus) :
    ∀ a ∈ plusMinusAccesses n plus minus, AccOk a := by
  intro a ha
  simp only [plusMinusAccesses, List.mem_flatMap, mem_rangeI, List.mem_cons, List.not_mem_nil,
    or_false] at ha
  obtain ⟨i, hi, j, hj, hm⟩ := ha
  rcases hm with rfl | rfl | rfl | rfl <;> simp only [AccOk] <;> omega

end Mahotas.C10
