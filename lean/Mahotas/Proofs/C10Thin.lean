/-
C10 — helper lemmas for B5: `thin` dereferences neighbours only of set pixels, which never lie on the
zero frame added by `thin.py`; the update only clears pixels, so the frame stays clear.
-/
import Mahotas.Proofs.C10Tables
import Mathlib.Tactic.Linarith
namespace Mahotas.C10
open Mahotas

theorem thinElems_range : ∀ e ∈ Generated.thinElems, ∀ t ∈ e,
    -1 ≤ t.1 ∧ t.1 ≤ 1 ∧ -1 ≤ t.2.1 ∧ t.2.1 ≤ 1 := by decide

theorem thinOffsets_form (cols : Int) : ∀ d ∈ thinOffsets cols,
    ∃ d0 d1 : Int, -1 ≤ d0 ∧ d0 ≤ 1 ∧ -1 ≤ d1 ∧ d1 ≤ 1 ∧ d = d0 * cols + d1 := by
  intro d hd
  simp only [thinOffsets, List.mem_flatMap, List.mem_map] at hd
  obtain ⟨e, he, t, ht, rfl⟩ := hd
  obtain ⟨h1, h2, h3, h4⟩ := thinElems_range e he t ht
  exact ⟨t.1, t.2.1, h1, h2, h3, h4, rfl⟩

/-- a flat index off the frame is an interior pixel: all nine positions around it are flat indices of the image -/
theorem thin_interior (rows cols i d0 d1 : Int) (hc : 0 < cols) (hi0 : 0 ≤ i) (hi1 : i < rows * cols)
    (hf : thinOnFrame rows cols i = false) (h1 : -1 ≤ d0) (h2 : d0 ≤ 1) (h3 : -1 ≤ d1) (h4 : d1 ≤ 1) :
    0 ≤ i + (d0 * cols + d1) ∧ i + (d0 * cols + d1) < rows * cols := by
  simp only [thinOnFrame, Bool.or_eq_false_iff, decide_eq_false_iff_not] at hf
  obtain ⟨⟨⟨hy0, hy1⟩, hx0⟩, hx1⟩ := hf
  have hdecomp := Int.mul_ediv_add_emod i cols
  have hxn := Int.emod_nonneg i (show cols ≠ 0 by omega)
  have hxl := Int.emod_lt_of_pos i hc
  have hyn : 0 ≤ i / cols := Int.ediv_nonneg hi0 (by omega)
  have hyl : i / cols < rows := Int.ediv_lt_of_lt_mul hc hi1
  generalize i / cols = y at *
  generalize i % cols = x at *
  have := flat2_range (y + d0) (x + d1) rows cols (by omega) (by omega) (by omega) (by omega)
  have e : (y + d0) * cols + (x + d1) = i + (d0 * cols + d1) := by rw [← hdecomp]; ring
  rw [e] at this
  exact this

theorem frameClear_iff (rows cols : Int) (img : List Bool) :
    thinFrameClear rows cols img = true ↔
      ∀ (i : Nat), img[i]? = some true → thinOnFrame rows cols (i : Int) = false := by
  simp only [thinFrameClear, List.all_eq_true]
  constructor
  · intro h i hi
    have := h (true, i) (List.mem_zipIdx_iff_getElem?.mpr hi)
    simpa using this
  · intro h bi hbi
    have hb := List.mem_zipIdx_iff_getElem?.mp hbi
    cases hv : bi.1 with
    | false => simp
    | true =>
      rw [hv] at hb
      simp [h bi.2 hb]

theorem thinSweep_ok (rows cols : Int) (img : List Bool) (hc : 0 < cols)
    (hlen : (img.length : Int) = rows * cols) (hf : thinFrameClear rows cols img = true) :
    ∀ a ∈ thinSweep rows cols img, AccOk a := by
  intro a ha
  unfold AccOk
  simp only [thinSweep, List.mem_flatMap] at ha
  obtain ⟨bi, hbi, hm⟩ := ha
  have hb := List.mem_zipIdx_iff_getElem?.mp hbi
  have hil : bi.2 < img.length := by
    by_contra hcon
    rw [List.getElem?_eq_none (by omega)] at hb
    exact absurd hb (by simp)
  simp only [thinAccessesAt, List.mem_cons] at hm
  rcases hm with rfl | hm
  · simp only; omega
  · split at hm
    · rename_i hset
      rw [hset] at hb
      have hnf := (frameClear_iff rows cols img).mp hf bi.2 hb
      simp only [List.mem_map] at hm
      obtain ⟨d, hd, rfl⟩ := hm
      obtain ⟨d0, d1, h1, h2, h3, h4, rfl⟩ := thinOffsets_form cols d hd
      exact thin_interior rows cols bi.2 d0 d1 hc (by omega) (by omega) hnf h1 h2 h3 h4
    · simp at hm

theorem thinUpdate_frameClear (rows cols : Int) (img buf : List Bool)
    (hf : thinFrameClear rows cols img = true) : thinFrameClear rows cols (thinUpdate img buf) = true := by
  rw [frameClear_iff] at hf ⊢
  intro i hi
  apply hf i
  simp only [thinUpdate, List.getElem?_zipWith] at hi
  cases ha : img[i]? with
  | none => simp [ha] at hi
  | some a =>
    cases hb : buf[i]? with
    | none => simp [ha, hb] at hi
    | some b =>
      simp only [ha, hb, Option.some.injEq, Bool.and_eq_true] at hi
      rw [hi.1]

theorem thinUpdate_length (img buf : List Bool) (h : buf.length = img.length) :
    (thinUpdate img buf).length = img.length := by
  simp [thinUpdate, h]

end Mahotas.C10
