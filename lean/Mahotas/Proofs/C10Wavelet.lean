/-
C10 — helper lemmas for B8: `spline_filter1d`, `haar`, `wavelet`, `iwavelet`, `ihaar`, `integral`.
-/
import Mahotas.Proofs.C10Tables
namespace Mahotas.C10
open Mahotas

/-! ## spline_filter1d -/

theorem splineAccesses_ok (len : Int) (mxs : List Int) : ∀ a ∈ splineAccesses len mxs, AccOk a := by
  intro a ha
  unfold AccOk
  simp only [splineAccesses] at ha
  split at ha
  · simp at ha
  · rename_i hl
    simp only [List.mem_append, List.mem_map, List.mem_flatMap, mem_rangeI, List.mem_cons,
      List.not_mem_nil, or_false] at ha
    rcases ha with ⟨ll, hll, rfl⟩ | ⟨mx, _, hm⟩
    · simp only; omega
    · rcases hm with (((hm | rfl) | ⟨j, hj, rfl | rfl⟩) | rfl | rfl | rfl) | ⟨j, hj, rfl | rfl | rfl⟩
      · split at hm
        · simp only [List.mem_cons, List.mem_map, mem_rangeI] at hm
          rcases hm with rfl | ⟨j, hj, rfl⟩ <;> simp only <;> omega
        · simp only [List.mem_append, List.mem_cons, List.not_mem_nil, or_false, List.mem_map,
            mem_rangeI] at hm
          rcases hm with (rfl | rfl) | ⟨j, hj, rfl⟩ <;> simp only <;> omega
      all_goals (simp only; omega)

/-! ## haar / wavelet -/

theorem haarAccesses_ok (n1 : Int) (h : 0 ≤ n1) : ∀ a ∈ haarAccesses n1, AccOk a := by
  intro a ha
  unfold AccOk
  simp only [haarAccesses, List.mem_append, List.mem_flatMap, List.mem_cons, List.not_mem_nil,
    or_false] at ha
  rcases ha with ⟨x, hx, hm⟩ | ⟨x, hx, hm⟩
  · have := mem_iterNe 0 (n1 / 2) _ (by omega) x hx
    rcases hm with rfl | rfl | rfl | rfl <;> simp only <;> omega
  · have := mem_iterNe 0 n1 _ h x hx
    rcases hm with rfl | rfl <;> simp only <;> omega

theorem haarDone_ok (n1 : Int) (h : 0 ≤ n1) : haarDone n1 = true := by
  simp only [haarDone, Bool.and_eq_true]
  exact ⟨iterNeDone_of_le _ _ _ (by omega) (by omega), iterNeDone_of_le _ _ _ (by omega) (by omega)⟩

theorem guardedAccess_ok (n p : Int) : ∀ a ∈ guardedAccess n p, a.size = n ∧ 0 ≤ a.i ∧ a.i < n ∧ a.i = p := by
  intro a ha
  unfold guardedAccess at ha
  split at ha
  · simp at ha
  · split at ha
    · simp at ha
    · simp only [List.mem_cons, List.not_mem_nil, or_false] at ha
      subst ha
      exact ⟨rfl, by show 0 ≤ p; omega, by show p < n; omega, rfl⟩

theorem waveletAccesses_ok (n1 nc : Int) (h : 0 ≤ n1) (hc : 0 ≤ nc) :
    ∀ a ∈ waveletAccesses n1 nc, AccOk a := by
  intro a ha
  unfold AccOk
  simp only [waveletAccesses, List.mem_append, List.mem_flatMap, List.mem_cons, List.not_mem_nil,
    or_false, mem_rangeI] at ha
  rcases ha with ⟨x, hx, hm⟩ | ⟨x, hx, hm⟩
  · rcases hm with ⟨ci, hci, hm⟩ | rfl | rfl
    · have := mem_iterNe 0 nc _ hc ci hci
      rcases hm with hm | rfl | rfl
      · obtain ⟨h1, h2, h3, _⟩ := guardedAccess_ok _ _ a hm
        omega
      · simp only; omega
      · simp only; omega
    · simp only; omega
    · simp only; omega
  · have := mem_iterNe 0 n1 _ h x hx
    rcases hm with rfl | rfl <;> simp only <;> omega

theorem waveletDone_ok (n1 nc : Int) (h : 0 ≤ n1) (hc : 0 ≤ nc) : waveletDone n1 nc = true := by
  simp only [waveletDone, Bool.and_eq_true]
  exact ⟨iterNeDone_of_le _ _ _ (by omega) (by omega), iterNeDone_of_le _ _ _ (by omega) (by omega)⟩

/-! ## integral -/

theorem integralAccesses_ok (n0 n1 : Int) (h0 : 0 ≤ n0) (h1 : 0 ≤ n1) :
    ∀ a ∈ integralAccesses n0 n1, AccOk a := by
  intro a ha
  unfold AccOk
  simp only [integralAccesses] at ha
  split at ha
  · simp at ha
  · rename_i hz
    simp only [List.mem_append, List.mem_flatMap, List.mem_cons, List.not_mem_nil, or_false] at ha
    rcases ha with ⟨j, hj, hm⟩ | ⟨i, hi, hm⟩
    · have := mem_iterNe 1 n1 _ (by omega) j hj
      rcases hm with (rfl | rfl) | rfl | rfl <;> simp only <;> omega
    · have := mem_iterNe 1 n0 _ (by omega) i hi
      rcases hm with ((rfl | rfl) | rfl | rfl) | ⟨j, hj, hm⟩
      · simp only; omega
      · simp only; omega
      · simp only; omega
      · simp only; omega
      · have := mem_iterNe 1 n1 _ (by omega) j hj
        rcases hm with (((rfl | rfl) | rfl | rfl) | rfl | rfl) | rfl | rfl <;> simp only <;> omega

theorem integralDone_ok (n0 n1 : Int) (h0 : 0 ≤ n0) (h1 : 0 ≤ n1) : integralDone n0 n1 = true := by
  simp only [integralDone]
  split
  · rfl
  · simp only [Bool.and_eq_true]
    exact ⟨iterNeDone_of_le _ _ _ (by omega) (by omega), iterNeDone_of_le _ _ _ (by omega) (by omega)⟩

end Mahotas.C10
