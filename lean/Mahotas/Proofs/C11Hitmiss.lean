/-
C11 — hitmiss with zero-length axes (no guard excludes them): the C10 loop model stays in bounds and terminates.
Three cases beyond `hmRun_ok`: an image without elements (no iteration), a structuring element whose LAST axis is empty
(no neighbour; `slack0 = W + 1 > 0`), and — already covered by `hmRun_ok`, which never uses positivity of the leading
axes of `Bc` — an empty leading axis of `Bc`.
-/
import Mahotas.Proofs.C10Hitmiss
import Mahotas.Proofs.C11Shapes
namespace Mahotas.C10
open Mahotas

theorem shapeSize_zero_of_mem : ∀ (l : List Nat), 0 ∈ l → shapeSize l = 0
  | [], h => by simp at h
  | d :: ds, h => by
    rcases List.mem_cons.mp h with h | h
    · simp [shapeSize, ← h]
    · simp [shapeSize, shapeSize_zero_of_mem ds h]

/-- without neighbours (`deltas = []`) and with a positive `slack0` the loop only touches `res.at_flat(i)`, `i < N`, and
    ends through `i == N` within `2 (N - i) + [slack = 0]` steps -/
theorem hmLoop_nodeltas (shape bshape : List Nat) (hpos : ∀ d ∈ shape, 0 < d) (N : Nat) (slack0 : Int) (hs0 : 0 < slack0) :
    ∀ (fuel i : Nat) (slack : Int), i ≤ N → 0 ≤ slack →
      2 * (N - i) + (if slack = 0 then 1 else 0) ≤ fuel →
      (∀ a ∈ (hmLoop shape bshape [] true N slack0 fuel i slack).1, AccOk a) ∧
      (hmLoop shape bshape [] true N slack0 fuel i slack).2 = true := by
  intro fuel
  induction fuel with
  | zero =>
    intro i slack hi _ hf
    have : i = N := by split at hf <;> omega
    simp [hmLoop, this]
  | succ f ih =>
    intro i slack hi hsl hf
    simp only [hmLoop]
    by_cases hiN : i = N
    · simp [hiN]
    · simp only [hiN, if_false]
      by_cases hz : slack = 0
      · simp only [hz, if_true]
        cases hff : hmFirstFail shape bshape (unravelI shape i) with
        | none =>
          simp only
          exact ih i slack0 hi (by omega) (by
            have : ¬ slack0 = 0 := by omega
            simp only [this, if_false]; simp only [hz, if_true] at hf; omega)
        | some size =>
          simp only
          have hsz := firstFail_pos shape bshape _ hpos size hff
          have hrec := ih (i + min size (N - i)) 0 (by omega) (by omega) (by
            simp only [if_true]; simp only [hz, if_true] at hf; omega)
          refine ⟨?_, hrec.2⟩
          intro a ha
          rcases List.mem_append.mp ha with ha | ha
          · simp only [List.mem_map, List.mem_range] at ha
            obtain ⟨j, hj, rfl⟩ := ha
            unfold AccOk; simp only; omega
          · exact hrec.1 a ha
      · simp only [hz, if_false]
        have hrec := ih (i + 1) (slack - 1) (by omega) (by omega) (by
          simp only [hz, if_false] at hf
          split <;> omega)
        refine ⟨?_, hrec.2⟩
        intro a ha
        simp only [List.map_nil, List.nil_append, List.cons_append, List.mem_cons] at ha
        rcases ha with rfl | ha
        · unfold AccOk; simp only; omega
        · exact hrec.1 a ha

/-- `hitmiss` for EVERY pair of shapes of equal rank ≥ 1 — zero-length axes of the image or of `Bc` included -/
theorem hmRun_ok_all (shape bshape : List Nat) (hne : shape ≠ []) (hlen : bshape.length = shape.length) :
    (∀ a ∈ (hmRun shape bshape true).1, AccOk a) ∧ (hmRun shape bshape true).2 = true := by
  by_cases h0 : 0 ∈ shape
  · -- an image without elements: the loop `i != N` does not run
    have hN := shapeSize_zero_of_mem shape h0
    simp [hmRun, hN, hmLoop]
  · have hpos : ∀ d ∈ shape, 0 < d := by
      intro d hd
      rcases Nat.eq_zero_or_pos d with rfl | h
      · exact absurd hd h0
      · exact h
    have hbne : bshape ≠ [] := by
      intro e; rw [e] at hlen; exact hne (List.length_eq_zero_iff.mp hlen.symm)
    obtain ⟨pre, W, rfl⟩ : ∃ pre W, shape = pre ++ [W] :=
      ⟨shape.dropLast, shape.getLast hne, (List.dropLast_concat_getLast hne).symm⟩
    obtain ⟨bpre, bw, rfl⟩ : ∃ bpre bw, bshape = bpre ++ [bw] :=
      ⟨bshape.dropLast, bshape.getLast hbne, (List.dropLast_concat_getLast hbne).symm⟩
    rcases Nat.eq_zero_or_pos bw with rfl | hbw
    · -- the last axis of `Bc` is empty: no neighbours, `slack0 = W + 1`
      have hd : hmDeltas (pre ++ [W]) (bpre ++ [0]) = [] := by
        simp [hmDeltas, allPos, shapeSize_append]
      have := hmLoop_nodeltas (pre ++ [W]) (bpre ++ [0]) hpos (shapeSize (pre ++ [W])) ((W : Int) - 0 + 1) (by omega)
        (2 * shapeSize (pre ++ [W]) + 2) 0 0 (Nat.zero_le _) (Int.le_refl _) (by simp)
      simpa [hmRun, hd] using this
    · exact hmRun_ok pre bpre W bw (by simpa using hlen) (fun d hd => hpos d (by simp [hd])) (hpos W (by simp)) hbw

end Mahotas.C10
