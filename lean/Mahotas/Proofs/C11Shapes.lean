/-
C11 — helper lemmas about shapes of descriptors (used by Properties/C11.lean).
-/
import Mahotas.Model.C11
namespace Mahotas.C11
open Mahotas

theorem shape_of_len_two (l : List Nat) (h : l.length = 2) : ∃ a b, l = [a, b] := by
  match l, h with
  | [a, b], _ => exact ⟨a, b, rfl⟩

theorem shapeSize_pair (a b : Nat) : shapeSize [a, b] = a * b := by simp [shapeSize]

theorem shapeSize_pos_of_all_pos : ∀ (l : List Nat), (∀ d ∈ l, 0 < d) → 0 < shapeSize l
  | [], _ => by simp [shapeSize]
  | d :: ds, h => by
    have h1 : 0 < d := h d (by simp)
    have h2 := shapeSize_pos_of_all_pos ds (fun x hx => h x (by simp [hx]))
    simpa [shapeSize] using Nat.mul_pos h1 h2

theorem all_pos_of_shapeSize_ne_zero : ∀ (l : List Nat), shapeSize l ≠ 0 → ∀ d ∈ l, 0 < d
  | [], _ => by simp
  | d :: ds, h => by
    simp only [shapeSize, ne_eq, Nat.mul_eq_zero, not_or] at h
    intro x hx
    rcases List.mem_cons.mp hx with rfl | hx
    · omega
    · exact all_pos_of_shapeSize_ne_zero ds h.2 x hx

end Mahotas.C11
