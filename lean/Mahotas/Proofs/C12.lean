/-
C12 — helper lemmas: frame / determinacy of confined steps, interleaving independence,
checker soundness for the lock discipline.
-/
import Mahotas.Model.C12
namespace Mahotas.C12
open Mahotas

/-! ## Part 1 — interleavings -/

/-- what thread `t` can see and what determines its future: its program counter, its private
memory and the shared read-only memory -/
def View (t : Nat) (s s' : State) : Prop :=
  s.pc t = s'.pc t ∧ ∀ l : Loc, (l.region = .priv t ∨ l.region = .sharedRO) → s.mem l = s'.mem l

theorem View.refl (t : Nat) (s : State) : View t s s := ⟨rfl, fun _ _ => rfl⟩

theorem View.symm {t : Nat} {s s' : State} (h : View t s s') : View t s' s :=
  ⟨h.1.symm, fun l hl => (h.2 l hl).symm⟩

theorem View.trans {t : Nat} {a b c : State} (h1 : View t a b) (h2 : View t b c) : View t a c :=
  ⟨h1.1.trans h2.1, fun l hl => (h1.2 l hl).trans (h2.2 l hl)⟩

theorem set_other (m : Mem) (l x : Loc) (v : Val) (h : x ≠ l) : m.set l v x = m x := by
  simp [Mem.set_apply, h]

theorem set_same (m : Mem) (l : Loc) (v : Val) : m.set l v l = v := by
  simp [Mem.set_apply]

/-- a step changes nothing but its destination -/
theorem exec_frame (st : Step) (m : Mem) (x : Loc) (h : x ≠ st.dst) : st.exec m x = m x := by
  simp [Step.exec, Mem.set_apply, h]

/-- a step's result depends on the memory only through its sources -/
theorem exec_congr (st : Step) (m m' : Mem) (h : ∀ l ∈ st.srcs, m l = m' l) :
    st.exec m st.dst = st.exec m' st.dst := by
  have : st.srcs.map m.get = st.srcs.map m'.get := List.map_congr_left h
  simp [Step.exec, Mem.set_apply, this]

theorem mem_of_getElem? {α : Type} {l : List α} {i : Nat} {a : α} (h : l[i]? = some a) : a ∈ l :=
  List.mem_of_getElem? h

/-- frame: a confined step of another thread `u ≠ t` is invisible to `t` -/
theorem view_step_other (progs : Progs) (hc : Confined progs) {t u : Nat} (hne : u ≠ t) (s : State) :
    View t (stepThread progs u s) s := by
  unfold stepThread
  cases hg : (progs u)[s.pc u]? with
  | none => exact View.refl t s
  | some st =>
    have hmem : st ∈ progs u := mem_of_getElem? hg
    have hconf := hc u st hmem
    refine ⟨?_, ?_⟩
    · simp [Ne.symm hne]
    · intro l hl
      apply exec_frame
      intro heq
      have hd := hconf.1
      rw [← heq] at hd
      rcases hl with h | h
      · rw [h] at hd; injection hd with hd; exact hne hd.symm
      · rw [h] at hd; cases hd

/-- determinacy: from states that look the same to `t`, a step of `t` leads to states that look the
same to `t` -/
theorem view_step_self (progs : Progs) (hc : Confined progs) {t : Nat} {s s' : State}
    (h : View t s s') : View t (stepThread progs t s) (stepThread progs t s') := by
  unfold stepThread
  rw [← h.1]
  cases hg : (progs t)[s.pc t]? with
  | none => exact h
  | some st =>
    have hconf := hc t st (mem_of_getElem? hg)
    refine ⟨by simp [h.1], ?_⟩
    intro l hl
    by_cases hd : l = st.dst
    · subst hd
      exact exec_congr st s.mem s'.mem (fun x hx => h.2 x (hconf.2 x hx))
    · show st.exec s.mem l = st.exec s'.mem l
      rw [exec_frame st _ l hd, exec_frame st _ l hd]
      exact h.2 l hl

theorem view_run_self (progs : Progs) (hc : Confined progs) {t : Nat} (k : Nat) :
    ∀ {s s' : State}, View t s s' →
      View t (run progs (List.replicate k t) s) (run progs (List.replicate k t) s') := by
  induction k with
  | zero => intro s s' h; simpa [run] using h
  | succ k ih =>
    intro s s' h
    simp only [List.replicate_succ, run]
    exact ih (view_step_self progs hc h)

/-- **main lemma** (any start state, any schedule): to thread `t`, the interleaved run looks like
its own run with the same number of turns -/
theorem view_run (progs : Progs) (hc : Confined progs) (t : Nat) :
    ∀ (sched : List Nat) (s : State),
      View t (run progs sched s) (run progs (List.replicate (sched.count t) t) s) := by
  intro sched
  induction sched with
  | nil => intro s; simpa [run] using View.refl t s
  | cons u rest ih =>
    intro s
    by_cases hu : u = t
    · subst hu
      simp only [List.count_cons_self, List.replicate_succ, run]
      exact ih _
    · have hcount : (u :: rest).count t = rest.count t := by
        simp [hu]
      rw [hcount]
      simp only [run]
      exact (ih (stepThread progs u s)).trans
        (view_run_self progs hc _ (view_step_other progs hc hu s))

/-- memory outside every private region is never written -/
theorem run_nonpriv (progs : Progs) (hc : Confined progs) :
    ∀ (sched : List Nat) (s : State) (l : Loc), (∀ t, l.region ≠ .priv t) →
      (run progs sched s).mem l = s.mem l := by
  intro sched
  induction sched with
  | nil => intro s l _; rfl
  | cons u rest ih =>
    intro s l hl
    simp only [run]
    rw [ih _ l hl]
    unfold stepThread
    cases hg : (progs u)[s.pc u]? with
    | none => rfl
    | some st =>
      have hconf := hc u st (mem_of_getElem? hg)
      apply exec_frame
      intro heq
      apply hl u
      rw [heq]; exact hconf.1

theorem stepThread_done (progs : Progs) (t : Nat) (s : State) (h : (progs t).length ≤ s.pc t) :
    stepThread progs t s = s := by
  unfold stepThread
  have : (progs t)[s.pc t]? = none := List.getElem?_eq_none h
  rw [this]

theorem run_replicate_done (progs : Progs) (t : Nat) (j : Nat) :
    ∀ s : State, (progs t).length ≤ s.pc t → run progs (List.replicate j t) s = s := by
  induction j with
  | zero => intro s _; rfl
  | succ j ih =>
    intro s h
    simp only [List.replicate_succ, run]
    rw [stepThread_done progs t s h]
    exact ih s h

theorem pc_stepThread (progs : Progs) (t : Nat) (s : State) (h : s.pc t < (progs t).length) :
    (stepThread progs t s).pc t = s.pc t + 1 := by
  unfold stepThread
  have : (progs t)[s.pc t]? = some ((progs t)[s.pc t]) := List.getElem?_eq_getElem h
  rw [this]
  simp

theorem pc_run_replicate (progs : Progs) (t : Nat) (k : Nat) :
    ∀ s : State, s.pc t + k ≤ (progs t).length →
      (run progs (List.replicate k t) s).pc t = s.pc t + k := by
  induction k with
  | zero => intro s _; rfl
  | succ k ih =>
    intro s h
    simp only [List.replicate_succ, run]
    have hlt : s.pc t < (progs t).length := by omega
    have hp := pc_stepThread progs t s hlt
    rw [ih _ (by omega), hp]
    omega

theorem run_append (progs : Progs) (a b : List Nat) (s : State) :
    run progs (a ++ b) s = run progs b (run progs a s) := by
  induction a generalizing s with
  | nil => rfl
  | cons x xs ih => simp only [List.cons_append, run]; exact ih _

/-- more turns than steps change nothing: the solo run to completion -/
theorem soloSteps_ge (progs : Progs) (t k : Nat) (m : Mem) (h : (progs t).length ≤ k) :
    soloSteps progs t k m = soloSteps progs t (progs t).length m := by
  unfold soloSteps
  obtain ⟨j, rfl⟩ : ∃ j, k = (progs t).length + j := ⟨k - (progs t).length, by omega⟩
  rw [← List.replicate_append_replicate, run_append]
  apply run_replicate_done
  have := pc_run_replicate progs t (progs t).length (init m) (by simp [init])
  rw [this]; simp [init]

theorem confinedB_iff (t : Nat) (s : Step) : s.confinedB t = true ↔ s.Confined t := by
  simp [Step.confinedB, Step.Confined]

/-! ## Part 2 — lock discipline -/

theorem heldAfter_append (h : Bool) (a b : List Ev) :
    heldAfter h (a ++ b) = heldAfter (heldAfter h a) b := by
  induction a generalizing h with
  | nil => rfl
  | cons e r ih => cases e <;> simp [heldAfter, ih]

/-- kernel steps neither need nor change the lock -/
theorem disciplined_steps (h : Bool) (k : Nat) (rest : List Ev) (hr : rest ≠ []) :
    disciplined h (steps k ++ rest) = disciplined h rest := by
  induction k with
  | zero => simp [steps]
  | succ k ih =>
    have : steps (k + 1) ++ rest = .kernelStep :: (steps k ++ rest) := by
      simp [steps, List.replicate_succ]
    rw [this]
    have hne : steps k ++ rest ≠ [] := by simp [hr]
    rw [← ih]
    cases hx : steps k ++ rest with
    | nil => exact absurd hx hne
    | cons _ _ => simp [disciplined]

/-- **soundness of the checker** (the declarative meaning of `disciplined`): in a trace accepted
from lock state `h`, before every `release`, `validate`, `interpAccess` and `ret` the lock is held,
before every `acquire` it is not held; the trace is non-empty, its last event is `ret`, nothing
follows a `ret`, and the lock is held at the end. -/
theorem disciplined_sound : ∀ (tr : List Ev) (h : Bool), disciplined h tr = true →
    (∀ (i : Nat) (e : Ev), tr[i]? = some e →
        ((e = .release ∨ e = .validate ∨ e = .interpAccess ∨ e = .ret) → heldAfter h (tr.take i) = true) ∧
        (e = .acquire → heldAfter h (tr.take i) = false) ∧
        (e = .ret → i + 1 = tr.length)) ∧
    tr.getLast? = some .ret ∧ heldAfter h tr = true := by
  intro tr
  induction tr with
  | nil => intro h hd; simp [disciplined] at hd
  | cons e r ih =>
    intro h hd
    -- split on the head event; obtain the lock state `h'` after it and the fact for the tail
    have key : (r = [] ∧ e = .ret ∧ h = true) ∨
        (r ≠ [] ∧ e ≠ .ret ∧ disciplined (heldAfter h [e]) r = true ∧
          ((e = .release ∨ e = .validate ∨ e = .interpAccess) → h = true) ∧ (e = .acquire → h = false)) := by
      cases e with
      | ret =>
        cases r with
        | nil => left; simpa [disciplined] using hd
        | cons _ _ => simp [disciplined] at hd
      | release =>
        right
        cases r with
        | nil => simp [disciplined] at hd
        | cons x xs => simp [disciplined] at hd; simp [heldAfter, hd]
      | acquire =>
        right
        cases r with
        | nil => simp [disciplined] at hd
        | cons x xs => simp [disciplined] at hd; simp [heldAfter, hd]
      | validate =>
        right
        cases r with
        | nil => simp [disciplined] at hd
        | cons x xs =>
          simp [disciplined] at hd
          obtain ⟨h1, h2⟩ := hd
          subst h1
          simp [heldAfter, h2]
      | interpAccess =>
        right
        cases r with
        | nil => simp [disciplined] at hd
        | cons x xs =>
          simp [disciplined] at hd
          obtain ⟨h1, h2⟩ := hd
          subst h1
          simp [heldAfter, h2]
      | kernelStep =>
        right
        cases r with
        | nil => simp [disciplined] at hd
        | cons x xs => simp [disciplined] at hd; simp [heldAfter, hd]
      | throw =>
        right
        cases r with
        | nil => simp [disciplined] at hd
        | cons x xs => simp [disciplined] at hd; simp [heldAfter, hd]
    rcases key with ⟨hr, he, hh⟩ | ⟨hr, he, hd', hneed, hacq⟩
    · subst hr; subst he; subst hh
      refine ⟨?_, by simp, by simp [heldAfter]⟩
      intro i e' hi
      cases i with
      | zero => simp at hi; subst hi; simp [heldAfter]
      | succ i => simp at hi
    · obtain ⟨ih1, ih2, ih3⟩ := ih _ hd'
      have hstep : ∀ l : List Ev, heldAfter h (e :: l) = heldAfter (heldAfter h [e]) l := by
        intro l; cases e <;> simp [heldAfter]
      refine ⟨?_, ?_, ?_⟩
      · intro i e' hi
        cases i with
        | zero =>
          simp at hi; subst hi
          refine ⟨?_, ?_, ?_⟩
          · intro hx
            simp only [List.take_zero, heldAfter]
            rcases hx with hx | hx | hx | hx
            · exact hneed (Or.inl hx)
            · exact hneed (Or.inr (Or.inl hx))
            · exact hneed (Or.inr (Or.inr hx))
            · exact absurd hx he
          · intro hx; simp only [List.take_zero, heldAfter]; exact hacq hx
          · intro hx; exact absurd hx he
        | succ i =>
          have hi' : r[i]? = some e' := by simpa using hi
          obtain ⟨a1, a2, a3⟩ := ih1 i e' hi'
          refine ⟨?_, ?_, ?_⟩
          · intro hx; rw [List.take_succ_cons, hstep]; exact a1 hx
          · intro hx; rw [List.take_succ_cons, hstep]; exact a2 hx
          · intro hx; have := a3 hx; simp; omega
      · cases r with
        | nil => exact absurd rfl hr
        | cons x xs => rw [List.getLast?_cons_cons]; exact ih2
      · rw [hstep]; exact ih3

end Mahotas.C12
