/-
C12 (T4, round 3) — value tie of the `cwatershed` access program: the solo run of the compiled program
leaves the `res`, `status` and `lines` arrays of `C04.cwatershedModel` in the call's own arrays.

Every value the program stores into these three arrays is either a constant the C++ stores as a constant
(`status[..] = grey / black`, `lines[..] = true`) or a copy of a value read (`res[npos] = res[next.position]`,
`res[mpos] = *miter`); the ADDRESSES are generated along the run of the model (they depend on the order in
which the priority queue delivers the pixels).  The proof is a simulation with the memory presenting the
model state; that every address is inside the buffers comes from the simulation relation `C04.Rel` between
model and specification (`C04.visit_rel`, `C04.rel_pop`, `C04.nbCheck_sound`).
-/
import Mahotas.Proofs.C12Label
import Mahotas.Proofs.C04Sim
namespace Mahotas.C12
open Mahotas

section cw
variable (calls : List Call) (aS aM aBc aRes aSt aQ aLn aT aR : Nat)

/-- the footprint of a `cwatershed` call: arguments surface, markers, Bc; owned `res`, `status`, queue,
`lines`, neighbour table, register -/
abbrev ccall : Call := ⟨[aS, aM, aBc], [aRes, aSt, aQ, aLn, aT, aR]⟩

/-- the array ids that must differ -/
structure CDist : Prop where
  rs : aRes ≠ aSt
  rl : aRes ≠ aLn
  sl : aSt ≠ aLn
  q : aQ ≠ aRes ∧ aQ ≠ aSt ∧ aQ ≠ aLn
  t : aT ≠ aRes ∧ aT ≠ aSt ∧ aT ≠ aLn
  r : aR ≠ aRes ∧ aR ≠ aSt ∧ aR ≠ aLn
  m : aM ≠ aRes ∧ aM ≠ aSt ∧ aM ≠ aQ ∧ aM ≠ aT ∧ aM ≠ aR

/-- the memory presents `res`, `status` (0 white, 1 grey, 2 black) and `lines` (0 / 1) of the model state -/
structure CInv (n : Nat) (M : Mem) (st : C04.MSt) : Prop where
  res : ∀ j, j < n → M (L calls aRes (j : Int)) = st.res.getD j 0
  status : ∀ j, j < n → M (L calls aSt (j : Int)) = ((st.status.getD j 0 : Nat) : Int)
  lines : ∀ j, j < n → M (L calls aLn (j : Int)) = if st.lines.getD j false = true then 1 else 0
  rsize : st.res.size = n
  ssize : st.status.size = n
  lsize : st.lines.size = n

theorem CInv.congr {n : Nat} {M : Mem} {st st' : C04.MSt} (h : CInv calls aRes aSt aLn n M st)
    (h1 : st'.res = st.res) (h2 : st'.status = st.status) (h3 : st'.lines = st.lines) :
    CInv calls aRes aSt aLn n M st' :=
  ⟨by rw [h1]; exact h.res, by rw [h2]; exact h.status, by rw [h3]; exact h.lines,
   by rw [h1]; exact h.rsize, by rw [h2]; exact h.ssize, by rw [h3]; exact h.lsize⟩

theorem CInv_other {n : Nat} {M : Mem} {st : C04.MSt} (h : CInv calls aRes aSt aLn n M st) (a : Nat) (off : Int)
    (v : Int) (h1 : a ≠ aRes) (h2 : a ≠ aSt) (h3 : a ≠ aLn) :
    CInv calls aRes aSt aLn n (M.set (L calls a off) v) st := by
  refine ⟨?_, ?_, ?_, h.rsize, h.ssize, h.lsize⟩
  · intro j hj
    rw [set_other _ _ _ _ (L_ne_arr calls _ _ _ _ (Ne.symm h1))]; exact h.res j hj
  · intro j hj
    rw [set_other _ _ _ _ (L_ne_arr calls _ _ _ _ (Ne.symm h2))]; exact h.status j hj
  · intro j hj
    rw [set_other _ _ _ _ (L_ne_arr calls _ _ _ _ (Ne.symm h3))]; exact h.lines j hj

theorem CInv_res {n : Nat} {M : Mem} {st : C04.MSt} (hd : CDist aM aRes aSt aQ aLn aT aR)
    (h : CInv calls aRes aSt aLn n M st) (i : Nat) (hi : i < n) (v : Int) :
    CInv calls aRes aSt aLn n (M.set (L calls aRes (i : Int)) v) { st with res := st.res.setIfInBounds i v } := by
  refine ⟨?_, ?_, ?_, by simp [h.rsize], h.ssize, h.lsize⟩
  · intro j hj
    by_cases hji : j = i
    · subst hji
      rw [set_same, C04.getD_set_eq _ _ _ _ (by rw [h.rsize]; exact hj)]
    · rw [set_other _ _ _ _ (L_ne_off calls _ _ _ _ (by omega)), C04.getD_set_ne _ _ _ _ _ (Ne.symm hji)]
      exact h.res j hj
  · intro j hj
    rw [set_other _ _ _ _ (L_ne_arr calls _ _ _ _ (Ne.symm hd.rs))]; exact h.status j hj
  · intro j hj
    rw [set_other _ _ _ _ (L_ne_arr calls _ _ _ _ (Ne.symm hd.rl))]; exact h.lines j hj

theorem CInv_status {n : Nat} {M : Mem} {st : C04.MSt} (hd : CDist aM aRes aSt aQ aLn aT aR)
    (h : CInv calls aRes aSt aLn n M st) (i : Nat) (hi : i < n) (v : Nat) :
    CInv calls aRes aSt aLn n (M.set (L calls aSt (i : Int)) (v : Int))
      { st with status := st.status.setIfInBounds i v } := by
  refine ⟨?_, ?_, ?_, h.rsize, by simp [h.ssize], h.lsize⟩
  · intro j hj
    rw [set_other _ _ _ _ (L_ne_arr calls _ _ _ _ hd.rs)]; exact h.res j hj
  · intro j hj
    by_cases hji : j = i
    · subst hji
      rw [set_same, C04.getD_set_eq _ _ _ _ (by rw [h.ssize]; exact hj)]
    · rw [set_other _ _ _ _ (L_ne_off calls _ _ _ _ (by omega)), C04.getD_set_ne _ _ _ _ _ (Ne.symm hji)]
      exact h.status j hj
  · intro j hj
    rw [set_other _ _ _ _ (L_ne_arr calls _ _ _ _ (Ne.symm hd.sl))]; exact h.lines j hj

theorem CInv_lines {n : Nat} {M : Mem} {st : C04.MSt} (hd : CDist aM aRes aSt aQ aLn aT aR)
    (h : CInv calls aRes aSt aLn n M st) (i : Nat) (hi : i < n) :
    CInv calls aRes aSt aLn n (M.set (L calls aLn (i : Int)) 1)
      { st with lines := st.lines.setIfInBounds i true } := by
  refine ⟨?_, ?_, ?_, h.rsize, h.ssize, by simp [h.lsize]⟩
  · intro j hj
    rw [set_other _ _ _ _ (L_ne_arr calls _ _ _ _ hd.rl)]; exact h.res j hj
  · intro j hj
    rw [set_other _ _ _ _ (L_ne_arr calls _ _ _ _ hd.sl)]; exact h.status j hj
  · intro j hj
    by_cases hji : j = i
    · subst hji
      rw [set_same, C04.getD_set_eq _ _ _ _ (by rw [h.lsize]; exact hj)]
      rfl
    · rw [set_other _ _ _ _ (L_ne_off calls _ _ _ _ (by omega)), C04.getD_set_ne _ _ _ _ _ (Ne.symm hji)]
      exact h.lines j hj

/-- a step that writes one of the call's other arrays (queue, table, register) keeps the invariant -/
theorem CInv_exec_other {n : Nat} {M : Mem} {st : C04.MSt} (h : CInv calls aRes aSt aLn n M st) (r : RStep)
    (a : Nat) (ha : (ccall aS aM aBc aRes aSt aQ aLn aT aR).arrOf (.own r.dst) = a)
    (h1 : a ≠ aRes) (h2 : a ≠ aSt) (h3 : a ≠ aLn) :
    CInv calls aRes aSt aLn n (((mkStep (ccall aS aM aBc aRes aSt aQ aLn aT aR) r).compile calls).exec M) st := by
  rw [exec_mkStep, ha]
  exact CInv_other calls aRes aSt aLn h a _ _ h1 h2 h3

theorem CInv_runR_other {n : Nat} {st : C04.MSt} (steps : List RStep)
    (hs : ∀ r ∈ steps, ∃ a, (ccall aS aM aBc aRes aSt aQ aLn aT aR).arrOf (.own r.dst) = a ∧
      a ≠ aRes ∧ a ≠ aSt ∧ a ≠ aLn) :
    ∀ M : Mem, CInv calls aRes aSt aLn n M st →
      CInv calls aRes aSt aLn n (runR calls (ccall aS aM aBc aRes aSt aQ aLn aT aR) steps M) st := by
  induction steps with
  | nil => intro M h; exact h
  | cons r rs ih =>
    intro M h
    rw [runR_cons]
    obtain ⟨a, ha, h1, h2, h3⟩ := hs r (by simp)
    exact ih (fun r' hr' => hs r' (by simp [hr'])) _
      (CInv_exec_other calls aS aM aBc aRes aSt aQ aLn aT aR h r a ha h1 h2 h3)

/-! ### the marker scan -/

/-- the markers are still where the program will read them -/
def MInv (n : Nat) (vM : C08.View) (markers : Img Int) (M : Mem) : Prop :=
  ∀ i : Nat, i < n → M (L calls aM (iterAddr vM i)) = markers.data.getD i 0

theorem MInv_other {n : Nat} {vM : C08.View} {markers : Img Int} {M : Mem} (h : MInv calls aM n vM markers M)
    (a : Nat) (off : Int) (v : Int) (ha : aM ≠ a) : MInv calls aM n vM markers (M.set (L calls a off) v) := by
  intro i hi
  rw [set_other _ _ _ _ (L_ne_arr calls _ _ _ _ ha)]
  exact h i hi

theorem init_step_sim (hd : CDist aM aRes aSt aQ aLn aT aR) (n : Nat) (vS vM : C08.View) (surf markers : Img Int)
    (M : Mem) (st : C04.MSt) (i : Nat) (hi : i < n)
    (h : CInv calls aRes aSt aLn n M st ∧ MInv calls aM n vM markers M) :
    CInv calls aRes aSt aLn n
        (runR calls (ccall aS aM aBc aRes aSt aQ aLn aT aR) (wsInitLog vS vM markers st i) M)
        (wsInitStep surf markers st i) ∧
      MInv calls aM n vM markers
        (runR calls (ccall aS aM aBc aRes aSt aQ aLn aT aR) (wsInitLog vS vM markers st i) M) := by
  obtain ⟨hc, hm⟩ := h
  unfold wsInitLog wsInitStep
  rw [runR_cons]
  have e1 : ∀ M' : Mem, ((mkStep (ccall aS aM aBc aRes aSt aQ aLn aT aR)
      (⟨5, 0, [⟨.inp 1, iterAddr vM i⟩], fun vs => vs.headD 0⟩ : RStep)).compile calls).exec M' =
      M'.set (L calls aR 0) (M' (L calls aM (iterAddr vM i))) := fun _ => rfl
  rw [e1]
  have hc1 := CInv_other calls aRes aSt aLn hc aR 0 (M (L calls aM (iterAddr vM i))) hd.r.1 hd.r.2.1 hd.r.2.2
  have hm1 := MInv_other calls aM hm aR 0 (M (L calls aM (iterAddr vM i))) hd.m.2.2.2.2
  by_cases hz : (markers.data.getD i 0 == 0) = true
  · simp only [hz, if_true, runR_nil]
    exact ⟨hc1, hm1⟩
  · simp only [hz, Bool.false_eq_true, if_false, runR_cons, runR_nil]
    have e2 : ∀ M' : Mem, ((mkStep (ccall aS aM aBc aRes aSt aQ aLn aT aR)
        (⟨2, (st.idx : Int), [⟨.inp 0, vS.addr (unravel vS.shape i)⟩], fun vs => vs.headD 0⟩ : RStep)).compile
          calls).exec M' =
        M'.set (L calls aQ (st.idx : Int)) (M' (L calls aS (vS.addr (unravel vS.shape i)))) := fun _ => rfl
    have e3 : ∀ M' : Mem, ((mkStep (ccall aS aM aBc aRes aSt aQ aLn aT aR)
        (⟨0, (i : Int), [⟨.inp 1, iterAddr vM i⟩], fun vs => vs.headD 0⟩ : RStep)).compile calls).exec M' =
        M'.set (L calls aRes (i : Int)) (M' (L calls aM (iterAddr vM i))) := fun _ => rfl
    have e4 : ∀ M' : Mem, ((mkStep (ccall aS aM aBc aRes aSt aQ aLn aT aR) (wrS 1 (i : Int) 1 [])).compile
        calls).exec M' = M'.set (L calls aSt (i : Int)) ((1 : Nat) : Int) := fun _ => rfl
    rw [e2, e3, e4]
    have hc2 := CInv_other calls aRes aSt aLn hc1 aQ (st.idx : Int)
      ((M.set (L calls aR 0) (M (L calls aM (iterAddr vM i)))) (L calls aS (vS.addr (unravel vS.shape i))))
      hd.q.1 hd.q.2.1 hd.q.2.2
    have hm2 := MInv_other calls aM hm1 aQ (st.idx : Int)
      ((M.set (L calls aR 0) (M (L calls aM (iterAddr vM i)))) (L calls aS (vS.addr (unravel vS.shape i))))
      hd.m.2.2.1
    rw [hm2 i hi]
    have hc3 := CInv_res calls aM aRes aSt aQ aLn aT aR hd hc2 i hi (markers.data.getD i 0)
    have hm3 := MInv_other calls aM hm2 aRes (i : Int) (markers.data.getD i 0) hd.m.1
    have hc4 := CInv_status calls aM aRes aSt aQ aLn aT aR hd hc3 i hi 1
    have hm4 := MInv_other calls aM hm3 aSt (i : Int) ((1 : Nat) : Int) hd.m.2.1
    exact ⟨hc4.congr calls aRes aSt aLn rfl rfl rfl, hm4⟩

/-! ### one neighbour visit -/

/-- the invariant of the inner loop over the neighbour table while pixel `e` is being finalised -/
def VInv (n : Nat) (shape : List Nat) (e : C04.QE) (M : Mem) (acc : C04.MSt × Int) : Prop :=
  CInv calls aRes aSt aLn n M acc.1 ∧ (∃ ss, C04.Rel shape acc.1 ss) ∧
    acc.2 ≤ C04.marginOf shape (unravelI shape e.pos) ∧ acc.1.res.getD e.pos 0 ≠ 0

theorem visit_sim (hd : CDist aM aRes aSt aQ aLn aT aR) (vS : C08.View) (surf : Img Int) (e : C04.QE)
    (he : e.pos < shapeSize surf.shape) (M : Mem) (acc : C04.MSt × Int) (o : List Int)
    (ho : o.length = surf.shape.length)
    (h : VInv calls aRes aSt aLn (shapeSize surf.shape) surf.shape e M acc) :
    VInv calls aRes aSt aLn (shapeSize surf.shape) surf.shape e
      (runR calls (ccall aS aM aBc aRes aSt aQ aLn aT aR)
        (wsVisitLog vS surf e acc ⟨C04.posToFlat surf.shape o, C04.chebStep o, o⟩) M)
      (C04.modelVisit surf e acc ⟨C04.posToFlat surf.shape o, C04.chebStep o, o⟩) := by
  obtain ⟨ms, margin⟩ := acc
  obtain ⟨hc, ⟨ss, hrel⟩, hmar, hres⟩ := h
  obtain ⟨r1, r2, r3⟩ := C04.visit_rel surf e ms ss margin o he hrel hmar hres ho
  refine ⟨?_, ⟨_, r1⟩, r2, r3⟩
  have hsound := C04.nbCheck_sound surf.shape e.pos margin o (C04.posToFlat surf.shape o) he ho hmar
  unfold wsVisitLog C04.modelVisit
  simp only
  cases hcheck : C04.nbCheck surf.shape e.pos margin ⟨C04.posToFlat surf.shape o, C04.chebStep o, o⟩ with
  | none => simp only [runR_nil]; exact hc
  | some pr =>
    obtain ⟨nm, m'⟩ := pr
    rw [hcheck] at hsound
    have hin := hsound.1
    have hnpos : ((e.pos : Int) + C04.posToFlat surf.shape o).toNat < shapeSize surf.shape := by
      rw [C04.npos_eq surf.shape e.pos o he hin]
      exact C04.ravelI_lt surf.shape _ hin
    simp only [runR_cons]
    generalize hnp : ((e.pos : Int) + C04.posToFlat surf.shape o).toNat = npos at hnpos ⊢
    have e1 : ∀ M' : Mem, ((mkStep (ccall aS aM aBc aRes aSt aQ aLn aT aR) (rdS 5 1 (npos : Int))).compile
        calls).exec M' = M'.set (L calls aR 0) (M' (L calls aSt (npos : Int))) := fun _ => rfl
    rw [e1]
    have hc1 := CInv_other calls aRes aSt aLn hc aR 0 (M (L calls aSt (npos : Int))) hd.r.1 hd.r.2.1 hd.r.2.2
    generalize M.set (L calls aR 0) (M (L calls aSt (npos : Int))) = M1 at hc1 ⊢
    by_cases h0 : (ms.status.getD npos 0 == 0) = true
    · simp only [h0, if_true, runR_cons, runR_nil]
      have e2 : ∀ M' : Mem, ((mkStep (ccall aS aM aBc aRes aSt aQ aLn aT aR)
          (⟨2, (ms.idx : Int), [⟨.inp 0, vS.atFlat npos⟩], fun vs => vs.headD 0⟩ : RStep)).compile calls).exec M' =
          M'.set (L calls aQ (ms.idx : Int)) (M' (L calls aS (vS.atFlat npos))) := fun _ => rfl
      have e3 : ∀ M' : Mem, ((mkStep (ccall aS aM aBc aRes aSt aQ aLn aT aR)
          (⟨0, (npos : Int), [⟨.own 0, (e.pos : Int)⟩], fun vs => vs.headD 0⟩ : RStep)).compile calls).exec M' =
          M'.set (L calls aRes (npos : Int)) (M' (L calls aRes (e.pos : Int))) := fun _ => rfl
      have e4 : ∀ M' : Mem, ((mkStep (ccall aS aM aBc aRes aSt aQ aLn aT aR) (wrS 1 (npos : Int) 1 [])).compile
          calls).exec M' = M'.set (L calls aSt (npos : Int)) ((1 : Nat) : Int) := fun _ => rfl
      rw [e2, e3, e4]
      have hc2 := CInv_other calls aRes aSt aLn hc1 aQ (ms.idx : Int) (M1 (L calls aS (vS.atFlat npos)))
        hd.q.1 hd.q.2.1 hd.q.2.2
      rw [hc2.res e.pos he]
      have hc3 := CInv_res calls aM aRes aSt aQ aLn aT aR hd hc2 npos hnpos (ms.res.getD e.pos 0)
      have hc4 := CInv_status calls aM aRes aSt aQ aLn aT aR hd hc3 npos hnpos 1
      exact hc4.congr calls aRes aSt aLn rfl rfl rfl
    · simp only [h0, Bool.false_eq_true, if_false]
      by_cases h1 : (ms.status.getD npos 0 == 1) = true
      · simp only [h1, if_true]
        by_cases h2 : (ms.res.getD e.pos 0 != ms.res.getD npos 0) = true
        · simp only [h2, if_true, runR_cons, runR_nil]
          have e5 : ∀ M' : Mem, ((mkStep (ccall aS aM aBc aRes aSt aQ aLn aT aR)
              (wrS 3 (npos : Int) 1 [⟨.own 0, (e.pos : Int)⟩, ⟨.own 0, (npos : Int)⟩])).compile calls).exec M' =
              M'.set (L calls aLn (npos : Int)) 1 := fun _ => rfl
          rw [e5]
          exact CInv_lines calls aM aRes aSt aQ aLn aT aR hd hc1 npos hnpos
        · simp only [h2, Bool.false_eq_true, if_false, runR_cons, runR_nil]
          exact CInv_exec_other calls aS aM aBc aRes aSt aQ aLn aT aR hc1 _ aR rfl hd.r.1 hd.r.2.1 hd.r.2.2
      · simp only [h1, Bool.false_eq_true, if_false, runR_nil]
        exact hc1

/-! ### the flooding loop -/

theorem nbs_form (shape : List Nat) (offs : List (List Int)) (hoffs : ∀ o ∈ offs, o.length = shape.length) :
    ∀ nb ∈ C04.neighbours shape offs, ∃ o : List Int, o.length = shape.length ∧
      nb = ⟨C04.posToFlat shape o, C04.chebStep o, o⟩ := by
  intro nb hnb
  simp only [C04.neighbours, List.mem_filterMap] at hnb
  obtain ⟨o, ho, hnbo⟩ := hnb
  refine ⟨o, hoffs o ho, ?_⟩
  unfold C04.nbOf at hnbo
  by_cases hz : (C04.posToFlat shape o == 0) = true
  · simp [hz] at hnbo
  · simp only [hz] at hnbo
    exact (Option.some.inj hnbo).symm

theorem run_sim (hd : CDist aM aRes aSt aQ aLn aT aR) (vS : C08.View) (surf : Img Int) (offs : List (List Int))
    (hoffs : ∀ o ∈ offs, o.length = surf.shape.length) :
    ∀ (fuel : Nat) (st : C04.MSt) (M : Mem),
      CInv calls aRes aSt aLn (shapeSize surf.shape) M st → (∃ ss, C04.Rel surf.shape st ss) →
      CInv calls aRes aSt aLn (shapeSize surf.shape)
        (runR calls (ccall aS aM aBc aRes aSt aQ aLn aT aR)
          (wsRunLog vS surf (C04.neighbours surf.shape offs) fuel st) M)
        (C04.modelRun surf (C04.neighbours surf.shape offs) fuel st) := by
  intro fuel
  induction fuel with
  | zero => intro st M hc _; exact hc
  | succ fuel ih =>
    intro st M hc hrel
    obtain ⟨ss, hrel⟩ := hrel
    unfold wsRunLog C04.modelRun
    cases hx : C04.extractMin C04.QE.key st.queue with
    | none =>
      have hstep : C04.modelStep surf (C04.neighbours surf.shape offs) st = none := by
        simp [C04.modelStep, hx]
      simp only [hstep, runR_nil]
      exact hc
    | some er =>
      obtain ⟨e, rest⟩ := er
      obtain ⟨hmem, hrest⟩ := C04.extractMin_some C04.QE.key st.queue e rest hx
      obtain ⟨heN, hmar, _⟩ := hrel.qpos e hmem
      obtain ⟨hpop, hres⟩ := C04.rel_pop surf.shape st ss hrel e hmem
      have hstep : C04.modelStep surf (C04.neighbours surf.shape offs) st =
          some ((C04.neighbours surf.shape offs).foldl (C04.modelVisit surf e)
            ({ st with queue := rest, status := st.status.setIfInBounds e.pos 2 }, e.margin)).1 := by
        simp [C04.modelStep, hx]
      simp only [hstep, runR_append]
      -- the pop: queue cells and the table are touched, `status[next.position] = black`
      have hA : CInv calls aRes aSt aLn (shapeSize surf.shape)
          (runR calls (ccall aS aM aBc aRes aSt aQ aLn aT aR) (st.queue.map fun q => rdS 5 2 q.idx) M) st := by
        apply CInv_runR_other calls aS aM aBc aRes aSt aQ aLn aT aR _ _ M hc
        intro r hr
        obtain ⟨q, _, rfl⟩ := List.mem_map.1 hr
        exact ⟨aR, rfl, hd.r.1, hd.r.2.1, hd.r.2.2⟩
      generalize runR calls (ccall aS aM aBc aRes aSt aQ aLn aT aR) (st.queue.map fun q => rdS 5 2 q.idx) M = MA at hA
      have hB : CInv calls aRes aSt aLn (shapeSize surf.shape)
          (runR calls (ccall aS aM aBc aRes aSt aQ aLn aT aR) [wrS 2 e.idx 0 [], wrS 1 e.pos 2 []] MA)
          { st with queue := rest, status := st.status.setIfInBounds e.pos 2 } := by
        simp only [runR_cons, runR_nil]
        have e1 : ∀ M' : Mem, ((mkStep (ccall aS aM aBc aRes aSt aQ aLn aT aR) (wrS 2 (e.idx : Int) 0 [])).compile
            calls).exec M' = M'.set (L calls aQ (e.idx : Int)) 0 := fun _ => rfl
        have e2 : ∀ M' : Mem, ((mkStep (ccall aS aM aBc aRes aSt aQ aLn aT aR) (wrS 1 (e.pos : Int) 2 [])).compile
            calls).exec M' = M'.set (L calls aSt (e.pos : Int)) ((2 : Nat) : Int) := fun _ => rfl
        rw [e1, e2]
        have h1 := CInv_other calls aRes aSt aLn hA aQ (e.idx : Int) 0 hd.q.1 hd.q.2.1 hd.q.2.2
        exact (CInv_status calls aM aRes aSt aQ aLn aT aR hd h1 e.pos heN 2).congr calls aRes aSt aLn rfl rfl rfl
      generalize runR calls (ccall aS aM aBc aRes aSt aQ aLn aT aR) [wrS 2 e.idx 0 [], wrS 1 e.pos 2 []] MA = MB at hB
      have hC : CInv calls aRes aSt aLn (shapeSize surf.shape)
          (runR calls (ccall aS aM aBc aRes aSt aQ aLn aT aR)
            ((List.range (C04.neighbours surf.shape offs).length).map fun (j : Nat) => rdS 5 4 (j : Int)) MB)
          { st with queue := rest, status := st.status.setIfInBounds e.pos 2 } := by
        apply CInv_runR_other calls aS aM aBc aRes aSt aQ aLn aT aR _ _ MB hB
        intro r hr
        obtain ⟨q, _, rfl⟩ := List.mem_map.1 hr
        exact ⟨aR, rfl, hd.r.1, hd.r.2.1, hd.r.2.2⟩
      generalize runR calls (ccall aS aM aBc aRes aSt aQ aLn aT aR)
        ((List.range (C04.neighbours surf.shape offs).length).map fun (j : Nat) => rdS 5 4 (j : Int)) MB = MC at hC
      -- the neighbour loop
      have hV := logFold_sim calls (ccall aS aM aBc aRes aSt aQ aLn aT aR)
        (VInv calls aRes aSt aLn (shapeSize surf.shape) surf.shape e)
        (C04.modelVisit surf e) (wsVisitLog vS surf e)
        (fun nb => ∃ o : List Int, o.length = surf.shape.length ∧
          nb = ⟨C04.posToFlat surf.shape o, C04.chebStep o, o⟩)
        (by
          intro M' acc nb hnb hinv
          obtain ⟨o, ho, rfl⟩ := hnb
          exact visit_sim calls aS aM aBc aRes aSt aQ aLn aT aR hd vS surf e heN M' acc o ho hinv)
        (C04.neighbours surf.shape offs) MC
        ({ st with queue := rest, status := st.status.setIfInBounds e.pos 2 }, e.margin)
        (nbs_form surf.shape offs hoffs)
        ⟨hC, ⟨_, by rw [hrest]; exact hpop⟩, hmar, hres⟩
      obtain ⟨hD, hrelD, _, _⟩ := hV
      exact ih _ _ hD hrelD

/-! ### the whole program -/

theorem fill_status (k : Nat) (M : Mem) :
    ∀ j, j < k → runR calls (ccall aS aM aBc aRes aSt aQ aLn aT aR)
      ((List.range k).map fun (i : Nat) => wrS 1 (i : Int) 0 []) M (L calls aSt (j : Int)) = 0 := by
  induction k with
  | zero => intro j hj; omega
  | succ k ih =>
    intro j hj
    rw [List.range_succ, List.map_append, runR_append]
    simp only [List.map_cons, List.map_nil, runR_cons, runR_nil]
    have e1 : ∀ M' : Mem, ((mkStep (ccall aS aM aBc aRes aSt aQ aLn aT aR) (wrS 1 (k : Int) 0 [])).compile
        calls).exec M' = M'.set (L calls aSt (k : Int)) 0 := fun _ => rfl
    rw [e1]
    by_cases hjk : j = k
    · subst hjk; exact set_same _ _ _
    · rw [set_other _ _ _ _ (L_ne_off calls _ _ _ _ (by omega))]
      exact ih j (by omega)

/-- **the cwatershed program computes `C04.cwatershedModel`** (stated on `runR`) -/
theorem cwatershed_runR (hd : CDist aM aRes aSt aQ aLn aT aR) (vS vM vBc : C08.View) (surf markers : Img Int)
    (bc : Array Int) (hms : markers.shape = surf.shape) (hb : vBc.shape.length = surf.shape.length) (M : Mem)
    (hres : ∀ j, j < shapeSize surf.shape → M (L calls aRes (j : Int)) = 0)
    (hln : ∀ j, j < shapeSize surf.shape → M (L calls aLn (j : Int)) = 0)
    (hmk : ∀ i, i < shapeSize surf.shape → M (L calls aM (iterAddr vM i)) = markers.data.getD i 0) :
    CInv calls aRes aSt aLn (shapeSize surf.shape)
      (runR calls (ccall aS aM aBc aRes aSt aQ aLn aT aR) (cwatershedRaw vS vM vBc surf markers bc) M)
      (C04.cwatershedModel surf markers vBc.shape bc) := by
  let c := ccall aS aM aBc aRes aSt aQ aLn aT aR
  let n := shapeSize surf.shape
  let offs := C04.offsets vBc.shape bc
  let st0 : C04.MSt := { queue := [], idx := 0, status := Array.replicate n 0,
                          res := Array.replicate n 0, lines := Array.replicate n false }
  let tbl : List RStep := (List.range (shapeSize vBc.shape)).map (fun (j : Nat) =>
    (⟨4, (j : Int), [⟨.inp 2, iterAddr vBc j⟩], fun vs => vs.headD 0⟩ : RStep))
  let fill : List RStep := (List.range n).map fun (i : Nat) => wrS 1 (i : Int) 0 []
  have htbl : ∀ r ∈ tbl, c.arrOf (.own r.dst) = aT := by
    intro r hr
    obtain ⟨j, _, rfl⟩ := List.mem_map.1 hr
    rfl
  have hfill : ∀ r ∈ fill, c.arrOf (.own r.dst) = aSt := by
    intro r hr
    obtain ⟨j, _, rfl⟩ := List.mem_map.1 hr
    rfl
  let M2 := runR calls c fill (runR calls c tbl M)
  have hframe : ∀ (a : Nat) (off : Int), a ≠ aT → a ≠ aSt → M2 (L calls a off) = M (L calls a off) := by
    intro a off h1 h2
    show runR calls c fill (runR calls c tbl M) (L calls a off) = _
    rw [runR_frame calls c fill _ a off (fun r hr => by rw [hfill r hr]; exact Ne.symm h2),
      runR_frame calls c tbl _ a off (fun r hr => by rw [htbl r hr]; exact Ne.symm h1)]
  have h2 : CInv calls aRes aSt aLn n M2 st0 ∧ MInv calls aM n vM markers M2 := by
    refine ⟨⟨?_, ?_, ?_, by simp [st0], by simp [st0], by simp [st0]⟩, ?_⟩
    · intro j hj
      rw [hframe aRes _ (Ne.symm hd.t.1) hd.rs, hres j hj]
      simp [st0, Array.getD_eq_getD_getElem?, hj]
    · intro j hj
      rw [fill_status calls aS aM aBc aRes aSt aQ aLn aT aR n _ j hj]
      simp [st0, Array.getD_eq_getD_getElem?, hj]
    · intro j hj
      rw [hframe aLn _ (Ne.symm hd.t.2.2) (Ne.symm hd.sl), hln j hj]
      simp [st0, Array.getD_eq_getD_getElem?, hj]
    · intro i hi
      rw [hframe aM _ hd.m.2.2.2.1 hd.m.2.1]
      exact hmk i hi
  -- the marker scan
  have h3 := logFold_sim calls c
    (fun M st => CInv calls aRes aSt aLn n M st ∧ MInv calls aM n vM markers M)
    (wsInitStep surf markers) (wsInitLog vS vM markers) (fun i => i < n)
    (fun M' st i hi hinv => init_step_sim calls aS aM aBc aRes aSt aQ aLn aT aR hd n vS vM surf markers M' st i hi hinv)
    (List.range n) M2 st0 (fun x hx => List.mem_range.1 hx) h2
  have hinit : (List.range n).foldl (wsInitStep surf markers) st0 = C04.modelInit surf markers := rfl
  rw [hinit] at h3
  -- the flooding
  have hoffs : ∀ o ∈ offs, o.length = surf.shape.length := by
    intro o ho
    rw [C04.offsets_length vBc.shape bc o ho, hb]
  have h4 := run_sim calls aS aM aBc aRes aSt aQ aLn aT aR hd vS surf offs hoffs (C04.fuelOf surf.shape)
    (C04.modelInit surf markers) _ h3.1 ⟨_, C04.init_rel surf markers hms⟩
  have hprog : runR calls c (cwatershedRaw vS vM vBc surf markers bc) M =
      runR calls c (wsRunLog vS surf (C04.neighbours surf.shape offs) (C04.fuelOf surf.shape)
        (C04.modelInit surf markers))
        (runR calls c (logFold (wsInitStep surf markers) (wsInitLog vS vM markers) st0 (List.range n)) M2) := by
    simp only [cwatershedRaw, runR_append]
    rfl
  rw [hprog]
  exact h4

end cw

/-- **solo run of the compiled cwatershed call** -/
theorem cwatershed_solo_value (kcs : List KCall) (t : Nat) (vS vM vBc : C08.View) (surf markers : Img Int)
    (bc : Array Int) (aS aM aBc aRes aSt aQ aLn aT aR : Nat)
    (hk : kcs[t]? = some ((Kernel.cwatershed vS vM vBc surf markers bc).call
      ⟨[aS, aM, aBc], [aRes, aSt, aQ, aLn, aT, aR]⟩))
    (hd : CDist aM aRes aSt aQ aLn aT aR)
    (hms : markers.shape = surf.shape) (hb : vBc.shape.length = surf.shape.length) (M : Mem)
    (hres : ∀ j, j < shapeSize surf.shape → M ((KLoc.mk aRes (j : Int)).toLoc (kcs.map (·.call))) = 0)
    (hln : ∀ j, j < shapeSize surf.shape → M ((KLoc.mk aLn (j : Int)).toLoc (kcs.map (·.call))) = 0)
    (hmk : ∀ i, i < shapeSize surf.shape →
      M ((KLoc.mk aM (iterAddr vM i)).toLoc (kcs.map (·.call))) = markers.data.getD i 0)
    (j : Nat) (hj : j < shapeSize surf.shape) :
    solo (compile kcs) t M ((KLoc.mk aRes (j : Int)).toLoc (kcs.map (·.call))) =
      (C04.cwatershedModel surf markers vBc.shape bc).res.getD j 0 ∧
    solo (compile kcs) t M ((KLoc.mk aSt (j : Int)).toLoc (kcs.map (·.call))) =
      (((C04.cwatershedModel surf markers vBc.shape bc).status.getD j 0 : Nat) : Int) ∧
    solo (compile kcs) t M ((KLoc.mk aLn (j : Int)).toLoc (kcs.map (·.call))) =
      (if (C04.cwatershedModel surf markers vBc.shape bc).lines.getD j false = true then 1 else 0) := by
  have hprog : compile kcs t = (cwatershedRaw vS vM vBc surf markers bc).map
      (fun r => (mkStep ⟨[aS, aM, aBc], [aRes, aSt, aQ, aLn, aT, aR]⟩ r).compile (kcs.map (·.call))) := by
    unfold compile
    rw [hk]
    simp [KCall.prog, Kernel.call, Kernel.raw, List.map_map, Function.comp_def]
  rw [solo_eq_execAll, hprog]
  have h := cwatershed_runR (kcs.map (fun (x : KCall) => x.call)) aS aM aBc aRes aSt aQ aLn aT aR hd vS vM vBc
    surf markers bc hms hb M hres hln hmk
  exact ⟨h.res j hj, h.status j hj, h.lines j hj⟩

end Mahotas.C12
