/-
C12 (round 3) — exception paths: composition of the control skeletons (Part 2 of `Model/C12.lean`) with the
confinement of the access programs (`Proofs/C12Kernels.lean`).

A call whose kernel is left after `k` steps (a C++ exception in idioms (a)/(c), an in-place error in idiom
(b)) has executed the first `k` steps of its access program: `KCall.truncate`.  The skeleton of that path
contains exactly that many `kernelStep` events, all of them between the `release` and the first event of
the exit sequence, and none afterwards.  The truncated program is again a role-level program of the same
call, so everything proved for arbitrary role-level programs applies to it.
-/
import Mahotas.Proofs.C12Kernels
namespace Mahotas.C12
open Mahotas

/-- the part of the access program that has run when the kernel is left with outcome `o` -/
def KCall.truncate (kc : KCall) : Outcome → KCall
  | .finish => kc
  | .throwAt k => ⟨kc.call, kc.raw.take k⟩
  | .errorAt k => ⟨kc.call, kc.raw.take k⟩

/-- number of steps executed under outcome `o` by a kernel of `n` steps -/
def Outcome.ran (n : Nat) : Outcome → Nat
  | .finish => n
  | .throwAt k => min k n
  | .errorAt k => min k n

theorem truncate_call (kc : KCall) (o : Outcome) : (kc.truncate o).call = kc.call := by
  cases o <;> rfl

theorem truncate_length (kc : KCall) (o : Outcome) :
    (kc.truncate o).raw.length = o.ran kc.raw.length := by
  cases o <;> simp [KCall.truncate, Outcome.ran]

theorem truncate_raw (kc : KCall) (o : Outcome) :
    (kc.truncate o).raw = kc.raw.take (o.ran kc.raw.length) := by
  cases o with
  | finish => simp [KCall.truncate, Outcome.ran]
  | throwAt k =>
    simp only [KCall.truncate, Outcome.ran]
    rw [List.take_eq_take_min]
  | errorAt k =>
    simp only [KCall.truncate, Outcome.ran]
    rw [List.take_eq_take_min]

/-! ## shape of the skeleton on every possible path -/

/-- the events after the last kernel step: (a)/(c) exception: `throw`, destructor re-acquires, handler sets
the error, `return NULL`; (b) in-place error: `restore()`, `PyErr_*`, `return NULL`; normal completion:
destructor re-acquires, the result is built, `return` -/
def exitSeq : Outcome → List Ev
  | .finish => [.acquire, .interpAccess, .ret]
  | .throwAt _ => [.throw, .acquire, .interpAccess, .ret]
  | .errorAt _ => [.acquire, .interpAccess, .ret]

/-- **shape**: on every path an idiom can take, the trace is `validate, release`, then exactly as many
kernel steps as the truncated program has, then the exit sequence — which contains no kernel step and no
second release -/
theorem skeleton_shape (i : Idiom) (n : Nat) (o : Outcome) (hp : Outcome.possible i o = true) :
    skeleton i n false o = [.validate, .release] ++ steps (o.ran n) ++ exitSeq o := by
  cases i <;> cases o <;> simp [Outcome.possible] at hp <;>
    simp [skeleton, gilScope, kernelBody, tryCatchRegion, andThen, Outcome.ran, exitSeq, List.append_assoc]

theorem exitSeq_no_kernelStep (o : Outcome) : Ev.kernelStep ∉ exitSeq o ∧ Ev.release ∉ exitSeq o := by
  cases o <;> simp [exitSeq]

theorem count_steps (k : Nat) : (steps k).count .kernelStep = k := by
  simp [steps]

theorem skeleton_kernelSteps (i : Idiom) (n : Nat) (o : Outcome) (hp : Outcome.possible i o = true) :
    (skeleton i n false o).count .kernelStep = o.ran n := by
  rw [skeleton_shape i n o hp]
  simp only [List.count_append, count_steps]
  cases o <;> simp [exitSeq]

/-- every kernel step of the trace happens while the lock is released, strictly between the `release`
and the exit sequence -/
theorem skeleton_kernelStep_pos (i : Idiom) (n : Nat) (o : Outcome) (hp : Outcome.possible i o = true)
    (j : Nat) (h : (skeleton i n false o)[j]? = some .kernelStep) : 2 ≤ j ∧ j < 2 + o.ran n := by
  rw [skeleton_shape i n o hp] at h
  by_cases h2 : j < 2
  · have : j = 0 ∨ j = 1 := by omega
    rcases this with rfl | rfl <;> simp at h
  · refine ⟨by omega, ?_⟩
    by_cases h3 : j < 2 + o.ran n
    · exact h3
    · exfalso
      rw [List.append_assoc] at h
      rw [List.getElem?_append_right (by simp; omega)] at h
      rw [List.getElem?_append_right (by simp [steps]; omega)] at h
      have hm := List.mem_of_getElem? h
      exact (exitSeq_no_kernelStep o).1 hm

/-! ## the memory side -/

theorem set_map_call (kcs : List KCall) (t : Nat) (kc x : KCall) (ht : kcs[t]? = some kc)
    (hx : x.call = kc.call) : (kcs.set t x).map (·.call) = kcs.map (·.call) := by
  apply List.ext_getElem?
  intro i
  simp only [List.getElem?_map, List.getElem?_set]
  by_cases hi : t = i
  · subst hi
    obtain ⟨hlt, hget⟩ := List.getElem?_eq_some_iff.1 ht
    simp [hlt, hx, hget]
  · simp [hi]

theorem compile_set_other (kcs : List KCall) (t u : Nat) (kc x : KCall) (ht : kcs[t]? = some kc)
    (hx : x.call = kc.call) (hu : u ≠ t) : compile (kcs.set t x) u = compile kcs u := by
  unfold compile
  rw [set_map_call kcs t kc x ht hx]
  rw [List.getElem?_set_ne (Ne.symm hu)]

theorem compile_set_self (kcs : List KCall) (t : Nat) (kc x : KCall) (ht : kcs[t]? = some kc)
    (hx : x.call = kc.call) :
    compile (kcs.set t x) t = x.prog.map (KStep.compile (kcs.map (·.call))) := by
  unfold compile
  rw [set_map_call kcs t kc x ht hx]
  have hlt : t < kcs.length := (List.getElem?_eq_some_iff.1 ht).1
  simp [hlt]

/-- the compiled program of the truncated call is the prefix of the compiled program -/
theorem compile_truncate (kcs : List KCall) (t : Nat) (kc : KCall) (ht : kcs[t]? = some kc) (o : Outcome) :
    compile (kcs.set t (kc.truncate o)) t = (compile kcs t).take (o.ran kc.raw.length) := by
  rw [compile_set_self kcs t kc _ ht (truncate_call kc o)]
  have h2 : compile kcs t = kc.prog.map (KStep.compile (kcs.map (·.call))) := by
    unfold compile; rw [ht]
  rw [h2]
  simp only [KCall.prog, truncate_call, truncate_raw, List.map_take]

theorem stepThread_congr (progs progs' : Progs) (t : Nat) (h : progs t = progs' t) (s : State) :
    stepThread progs t s = stepThread progs' t s := by
  unfold stepThread
  rw [h]

theorem run_replicate_congr (progs progs' : Progs) (t : Nat) (h : progs t = progs' t) (k : Nat) :
    ∀ s : State, run progs (List.replicate k t) s = run progs' (List.replicate k t) s := by
  induction k with
  | zero => intro s; rfl
  | succ k ih =>
    intro s
    simp only [List.replicate_succ, run]
    rw [stepThread_congr progs progs' t h s]
    exact ih _

theorem soloSteps_congr (progs progs' : Progs) (t : Nat) (h : progs t = progs' t) (k : Nat) (m : Mem) :
    soloSteps progs t k m = soloSteps progs' t k m :=
  run_replicate_congr progs progs' t h k (init m)

/-- the steps of call `t` — however many of them run — leave every array the call does not own untouched -/
theorem execAll_prog_frame (calls : List Call) (c : Call) (hne : c.outputs ≠ []) (raw : List RStep) (m : Mem)
    (l : KLoc) (hl : l.arr ∉ c.outputs) :
    execAll (raw.map fun r => (mkStep c r).compile calls) m (l.toLoc calls) = m (l.toLoc calls) := by
  apply execAll_frame
  intro s hs
  obtain ⟨r, _, rfl⟩ := List.mem_map.1 hs
  exact compiled_dst_ne calls c hne r l hl

theorem solo_frame (kcs : List KCall) (t : Nat) (kc : KCall) (ht : kcs[t]? = some kc)
    (hne : kc.call.outputs ≠ []) (m : Mem) (l : KLoc) (hl : l.arr ∉ kc.call.outputs) :
    solo (compile kcs) t m (l.toLoc (kcs.map (·.call))) = m (l.toLoc (kcs.map (·.call))) := by
  rw [solo_eq_execAll]
  have h2 : compile kcs t = kc.raw.map (fun r => (mkStep kc.call r).compile (kcs.map (·.call))) := by
    unfold compile; rw [ht]; simp [KCall.prog, List.map_map, Function.comp_def]
  rw [h2]
  exact execAll_prog_frame _ kc.call hne kc.raw m l hl

/-- region of a location whose array is owned by nobody -/
theorem region_unowned (calls : List Call) (a : Nat) (h : ∀ c ∈ calls, a ∉ c.outputs) :
    regionOfArr calls a = .sharedRO := by
  unfold regionOfArr
  cases ho : ownerFrom calls 0 a with
  | none => rfl
  | some u =>
    obtain ⟨i, ci, h1, _, h3⟩ := ownerFrom_some calls 0 a u ho
    exact absurd h3 (h ci (List.mem_of_getElem? h1))

/-- classification of an array: owned by exactly call `u`, or by nobody -/
theorem owner_cases (calls : List Call) (a : Nat) :
    (∃ (u : Nat) (c : Call), calls[u]? = some c ∧ a ∈ c.outputs) ∨ (∀ c ∈ calls, a ∉ c.outputs) := by
  by_cases h : ∃ c : Call, c ∈ calls ∧ a ∈ c.outputs
  · left
    obtain ⟨c, hc, ha⟩ := h
    obtain ⟨u, hu⟩ := List.getElem?_of_mem hc
    exact ⟨u, c, hu, ha⟩
  · right
    intro c hc ha
    exact h ⟨c, hc, ha⟩

end Mahotas.C12
