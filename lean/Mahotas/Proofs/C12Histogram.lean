/-
C12 (round 4) — `compute_histogram` (`_histogram.cpp`: `for (i = 0; i != N; ++i) { ++histogram[*data]; ++data; }`) is the
labeled fold `result[label] = f(value, result[label])` with the image as its own label array and `f _ r = r + 1`:
its access program is `Kernel.fold` on the footprint `[aA, aA] → [aRes, aReg]`, and the value the fold model computes is
`C13.histogram`.
-/
import Mahotas.Model.C08Base
import Mahotas.Model.C13
namespace Mahotas.C12
open Mahotas

theorem modify_map_ofNat (a : Array Nat) (i : Nat) :
    (a.modify i (· + 1)).map (fun (c : Nat) => (c : Int)) = (a.map (fun (c : Nat) => (c : Int))).modify i (fun r => r + 1) := by
  apply Array.ext
  · simp
  · intro j h1 h2
    simp only [Array.getElem_map, Array.getElem_modify]
    split <;> simp

theorem modify_ge {α : Type} (a : Array α) (i : Nat) (f : α → α) (h : a.size ≤ i) : a.modify i f = a := by
  apply Array.ext
  · simp
  · intro j h1 h2
    simp only [Array.getElem_modify]
    have : i ≠ j := by simp at h1; omega
    simp [this]

theorem hist_fold_go (n : Nat) (vals : List Int) (h : ∀ v ∈ vals, 0 ≤ v) (accN : Array Nat) (hs : accN.size = n) :
    (vals.zip vals).foldl
      (fun (res : Array Int) (p : Int × Int) =>
        if 0 ≤ p.2 ∧ p.2 < (n : Int) then res.modify p.2.toNat (fun r => (fun (_ r : Int) => r + 1) p.1 r) else res)
      (accN.map (fun (c : Nat) => (c : Int))) =
    (vals.foldl (fun h v => h.modify v.toNat (· + 1)) accN).map (fun (c : Nat) => (c : Int)) := by
  induction vals generalizing accN with
  | nil => rfl
  | cons v t ih =>
    simp only [List.zip_cons_cons, List.foldl_cons]
    have hv : 0 ≤ v := h v (by simp)
    have ht : ∀ w ∈ t, 0 ≤ w := fun w hw => h w (by simp [hw])
    by_cases hlt : v < (n : Int)
    · simp only [hv, hlt, and_self, if_true]
      rw [← modify_map_ofNat]
      exact ih ht _ (by simp [hs])
    · simp only [hv, hlt, and_false, if_false]
      have : accN.modify v.toNat (· + 1) = accN := modify_ge _ _ _ (by omega)
      rw [this]
      exact ih ht accN hs

/-- the labeled fold with the values as their own labels and `f _ r = r + 1` is the histogram -/
theorem hist_fold_eq (n : Nat) (vals : List Int) (h : ∀ v ∈ vals, 0 ≤ v) :
    C08.labeledFoldList (fun (_ r : Int) => r + 1) 0 n vals vals =
      (C13.histogram n vals).map (fun (c : Nat) => (c : Int)) := by
  unfold C08.labeledFoldList C13.histogram
  have := hist_fold_go n vals h (Array.replicate n 0) (by simp)
  simpa using this

end Mahotas.C12
