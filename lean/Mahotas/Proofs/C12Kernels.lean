/-
C12 (T4) — helper lemmas: role-level programs stay inside the call's footprint, the compilation of
calls with disjoint outputs is confined, the location encoding is injective, the solo run of a
program is the left fold of its steps, and the value ties of the erode / convolve / labeled-fold
step programs to `C01.erodeModel`, `C06.convAcc`, `C08.labeledFoldView`.
-/
import Mahotas.Proofs.C12
import Mahotas.Model.C12Kernels
import Mahotas.Proofs.C01
import Mathlib.Data.Nat.Pairing
namespace Mahotas.C12
open Mahotas

/-! ## footprint of role-level programs -/

theorem getD_mem_or {α : Type} (l : List α) (i : Nat) (d : α) : l.getD i d ∈ l ∨ l.getD i d = d := by
  rw [List.getD_eq_getElem?_getD]
  cases h : l[i]? with
  | none => right; rfl
  | some x => left; exact List.mem_of_getElem? h

theorem headD_mem {α : Type} (l : List α) (h : l ≠ []) (d : α) : l.headD d ∈ l := by
  cases l with
  | nil => exact absurd rfl h
  | cons x xs => simp

theorem arrOf_own_mem (c : Call) (h : c.outputs ≠ []) (i : Nat) : c.arrOf (.own i) ∈ c.outputs := by
  show c.outputs.getD i (c.outputs.headD 0) ∈ c.outputs
  rcases getD_mem_or c.outputs i (c.outputs.headD 0) with h1 | h1
  · exact h1
  · rw [h1]; exact headD_mem _ h 0

theorem arrOf_mem (c : Call) (h : c.outputs ≠ []) (r : Role) :
    c.arrOf r ∈ c.inputs ∨ c.arrOf r ∈ c.outputs := by
  cases r with
  | own i => exact Or.inr (arrOf_own_mem c h i)
  | inp i =>
    show c.inputs.getD i (c.outputs.headD 0) ∈ c.inputs ∨ c.inputs.getD i (c.outputs.headD 0) ∈ c.outputs
    rcases getD_mem_or c.inputs i (c.outputs.headD 0) with h1 | h1
    · exact Or.inl h1
    · rw [h1]; exact Or.inr (headD_mem _ h 0)

/-- **generic lemma**: a step built by `mkStep call` from a role-level step writes an owned array of
the call and reads only argument or owned arrays — whatever the role-level step is -/
theorem mkStep_within (c : Call) (h : c.outputs ≠ []) (r : RStep) : (mkStep c r).Within c := by
  refine ⟨arrOf_own_mem c h r.dst, ?_⟩
  intro l hl
  simp only [mkStep, List.mem_map] at hl
  obtain ⟨x, _, rfl⟩ := hl
  exact arrOf_mem c h x.role

theorem prog_within (kc : KCall) (h : kc.call.outputs ≠ []) : ∀ s ∈ kc.prog, s.Within kc.call := by
  intro s hs
  simp only [KCall.prog, List.mem_map] at hs
  obtain ⟨r, _, rfl⟩ := hs
  exact mkStep_within kc.call h r

theorem withinB_iff (c : Call) (s : KStep) : s.withinB c = true ↔ s.Within c := by
  simp [KStep.withinB, KStep.Within]

/-- with roles inside the arity, the resolved arrays are exactly the named ones -/
theorem arrOf_inp (c : Call) (i : Nat) (h : i < c.inputs.length) : c.arrOf (.inp i) = c.inputs[i] := by
  simp [Call.arrOf, List.getD_eq_getElem?_getD, h]

theorem arrOf_own (c : Call) (i : Nat) (h : i < c.outputs.length) : c.arrOf (.own i) = c.outputs[i] := by
  simp [Call.arrOf, List.getD_eq_getElem?_getD, h]

/-! ## ownership and regions -/

theorem ownerFrom_some (cs : List Call) (t0 a u : Nat) (h : ownerFrom cs t0 a = some u) :
    ∃ i c, cs[i]? = some c ∧ u = t0 + i ∧ a ∈ c.outputs := by
  induction cs generalizing t0 with
  | nil => simp [ownerFrom] at h
  | cons c cs ih =>
    unfold ownerFrom at h
    by_cases ha : a ∈ c.outputs
    · rw [if_pos ha] at h
      injection h with h
      exact ⟨0, c, by simp, by omega, ha⟩
    · rw [if_neg ha] at h
      obtain ⟨i, ci, h1, h2, h3⟩ := ih (t0 + 1) h
      exact ⟨i + 1, ci, by simpa using h1, by omega, h3⟩

theorem ownerFrom_of_mem (cs : List Call) (t0 a i : Nat) (c : Call) (hc : cs[i]? = some c)
    (ha : a ∈ c.outputs) :
    ∃ j cj, cs[j]? = some cj ∧ a ∈ cj.outputs ∧ ownerFrom cs t0 a = some (t0 + j) := by
  induction cs generalizing t0 i with
  | nil => simp at hc
  | cons c0 cs ih =>
    unfold ownerFrom
    by_cases h0 : a ∈ c0.outputs
    · exact ⟨0, c0, by simp, h0, by rw [if_pos h0]; rfl⟩
    · rw [if_neg h0]
      cases i with
      | zero =>
        simp at hc; subst hc; exact absurd ha h0
      | succ i =>
        obtain ⟨j, cj, h1, h2, h3⟩ := ih (t0 + 1) i (by simpa using hc)
        exact ⟨j + 1, cj, by simpa using h1, h2, by rw [h3]; congr 1; omega⟩

theorem region_of_output (calls : List Call) (hd : DisjointOutputs calls) (t : Nat) (c : Call)
    (hc : calls[t]? = some c) (a : Nat) (ha : a ∈ c.outputs) : regionOfArr calls a = .priv t := by
  obtain ⟨j, cj, h1, h2, h3⟩ := ownerFrom_of_mem calls 0 a t c hc ha
  have : j = t := hd j t cj c h1 hc a h2 (Or.inl ha)
  subst this
  simp [regionOfArr, h3]

theorem region_of_input (calls : List Call) (hd : DisjointOutputs calls) (t : Nat) (c : Call)
    (hc : calls[t]? = some c) (a : Nat) (ha : a ∈ c.inputs) :
    regionOfArr calls a = .priv t ∨ regionOfArr calls a = .sharedRO := by
  unfold regionOfArr
  cases h : ownerFrom calls 0 a with
  | none => right; rfl
  | some u =>
    left
    obtain ⟨i, ci, h1, h2, h3⟩ := ownerFrom_some calls 0 a u h
    have : i = t := hd i t ci c h1 hc a h3 (Or.inr ha)
    subst this
    simp [h2]

theorem compile_step_confined (calls : List Call) (hd : DisjointOutputs calls) (t : Nat) (c : Call)
    (hc : calls[t]? = some c) (s : KStep) (hw : s.Within c) : (s.compile calls).Confined t := by
  refine ⟨region_of_output calls hd t c hc _ hw.1, ?_⟩
  intro l hl
  simp only [KStep.compile, List.mem_map] at hl
  obtain ⟨x, hx, rfl⟩ := hl
  rcases hw.2 x hx with h | h
  · exact region_of_input calls hd t c hc _ h
  · exact Or.inl (region_of_output calls hd t c hc _ h)

/-- **compilation is confined**: calls with non-empty, pairwise disjoint footprints of owned arrays
(no owned array is another call's argument) compile to a confined family of thread programs -/
theorem compile_confined (kcs : List KCall) (hne : ∀ kc ∈ kcs, kc.call.outputs ≠ [])
    (hd : DisjointOutputs (kcs.map (·.call))) : Confined (compile kcs) := by
  intro t s hs
  unfold compile at hs
  cases hk : kcs[t]? with
  | none => rw [hk] at hs; simp at hs
  | some kc =>
    rw [hk] at hs
    simp only [List.mem_map] at hs
    obtain ⟨ks, hks, rfl⟩ := hs
    have hc : (kcs.map (·.call))[t]? = some kc.call := by simp [hk]
    exact compile_step_confined _ hd t kc.call hc ks
      (prog_within kc (hne kc (List.mem_of_getElem? hk)) ks hks)

/-! ## the location encoding is injective -/

theorem encInt_inj (a b : Int) (h : encInt a = encInt b) : a = b := by
  cases a <;> cases b <;> simp only [encInt] at h <;> first | omega | (congr 1; omega)

theorem pairNat_eq (a b : Nat) : pairNat a b = Nat.pair a b := by
  simp [pairNat, Nat.pair]

theorem pairNat_inj (a b c d : Nat) (h : pairNat a b = pairNat c d) : a = c ∧ b = d := by
  rw [pairNat_eq, pairNat_eq] at h
  exact Nat.pair_eq_pair.1 h

theorem KLoc.idx_inj (l l' : KLoc) (h : l.idx = l'.idx) : l = l' := by
  obtain ⟨a, o⟩ := l
  obtain ⟨a', o'⟩ := l'
  obtain ⟨h1, h2⟩ := pairNat_inj _ _ _ _ h
  simp only at h1 h2
  rw [h1, encInt_inj _ _ h2]

/-- distinct (array, offset) pairs are distinct memory locations -/
theorem KLoc.toLoc_inj (calls : List Call) (l l' : KLoc) (h : l.toLoc calls = l'.toLoc calls) : l = l' := by
  apply KLoc.idx_inj
  have := congrArg Loc.idx h
  simpa [KLoc.toLoc] using this

/-! ## the solo run is the left fold of the steps -/

def execAll (steps : List Step) (m : Mem) : Mem := steps.foldl (fun m s => s.exec m) m

theorem execAll_append (a b : List Step) (m : Mem) : execAll (a ++ b) m = execAll b (execAll a m) := by
  simp [execAll, List.foldl_append]

theorem run_replicate_mem (progs : Progs) (t : Nat) : ∀ (j : Nat) (s : State),
    s.pc t + j ≤ (progs t).length →
    (run progs (List.replicate j t) s).mem = execAll (((progs t).drop (s.pc t)).take j) s.mem := by
  intro j
  induction j with
  | zero => intro s _; simp [run, execAll]
  | succ j ih =>
    intro s h
    have hlt : s.pc t < (progs t).length := by omega
    simp only [List.replicate_succ, run]
    have hst : stepThread progs t s =
        ⟨fun u => if u = t then s.pc t + 1 else s.pc u, ((progs t)[s.pc t]).exec s.mem⟩ := by
      unfold stepThread; rw [List.getElem?_eq_getElem hlt]
    rw [hst]
    rw [ih _ (by simp; omega)]
    simp only [if_true]
    rw [List.drop_eq_getElem_cons hlt, List.take_succ_cons]
    simp [execAll]

theorem solo_eq_execAll (progs : Progs) (t : Nat) (m : Mem) : solo progs t m = execAll (progs t) m := by
  unfold solo soloSteps
  rw [run_replicate_mem progs t _ (init m) (by simp [init])]
  simp [init]

theorem execAll_frame (steps : List Step) (m : Mem) (l : Loc) (h : ∀ s ∈ steps, s.dst ≠ l) :
    execAll steps m l = m l := by
  induction steps generalizing m with
  | nil => rfl
  | cons s rest ih =>
    simp only [execAll, List.foldl_cons]
    have := ih (s.exec m) (fun s' hs' => h s' (by simp [hs']))
    simp only [execAll] at this
    rw [this]
    exact exec_frame s m l (fun heq => h s (by simp) heq.symm)

/-- **gather programs**: a prefix `F` followed by steps `G 0 … G (n-1)` with pairwise distinct
destinations; after the run, the destination of `G k` holds `G k`'s operation applied to the values its
sources had when it ran -/
theorem gather_solo (F : List Step) (G : Nat → Step) (n : Nat)
    (hinj : ∀ k k', k < n → k' < n → (G k).dst = (G k').dst → k = k') (m : Mem) (k : Nat) (hk : k < n) :
    execAll (F ++ (List.range n).map G) m (G k).dst =
      (G k).op ((G k).srcs.map (execAll (F ++ (List.range k).map G) m).get) := by
  induction n with
  | zero => omega
  | succ n ih =>
    rw [List.range_succ, List.map_append, ← List.append_assoc, execAll_append]
    simp only [List.map_cons, List.map_nil, execAll, List.foldl_cons, List.foldl_nil]
    by_cases hkn : k = n
    · subst hkn
      simp [Step.exec, Mem.set_apply]
    · have hk' : k < n := by omega
      rw [exec_frame _ _ _ (fun heq => hkn (hinj k n hk (by omega) heq))]
      exact ih (fun a b ha hb => hinj a b (by omega) (by omega)) hk'

/-! ## value tie: erode -/

theorem erodeVals_eq (dt : DT) (A : Img Int) (p : List Int) (sup : List (List Int × Int))
    (extra : List Val) (acc : Int) :
    erodeVals dt (sup.map (·.2)) (sup.map (fun kh => C01.readNearest A (addPos p kh.1)) ++ extra) acc =
      C01.erodeAtExit.go dt A p sup acc := by
  induction sup generalizing acc with
  | nil => cases extra <;> simp [erodeVals, C01.erodeAtExit.go]
  | cons kh rest ih =>
    simp only [List.map_cons, List.cons_append, erodeVals, C01.erodeAtExit.go]
    split
    · rfl
    · exact ih _

/-- the compiled program of a two-input / two-output gather kernel: filter copy, then one step per pixel -/
theorem compile_gather (kcs : List KCall) (t : Nat) (c : Call) (F : List RStep) (g : Nat → RStep) (n : Nat)
    (hk : kcs[t]? = some ⟨c, F ++ (List.range n).map g⟩) :
    compile kcs t = F.map (fun r => (mkStep c r).compile (kcs.map (·.call))) ++
      (List.range n).map (fun k => (mkStep c (g k)).compile (kcs.map (·.call))) := by
  unfold compile
  rw [hk]
  simp [KCall.prog, List.map_append, List.map_map, Function.comp_def]

theorem toLoc_ne_of_arr (calls : List Call) (l l' : KLoc) (h : l.arr ≠ l'.arr) :
    l.toLoc calls ≠ l'.toLoc calls := fun heq => h (congrArg KLoc.arr (KLoc.toLoc_inj calls l l' heq))

/-- a compiled step of a call never writes an array the call does not own -/
theorem compiled_dst_ne (calls : List Call) (c : Call) (hne : c.outputs ≠ []) (r : RStep) (l : KLoc)
    (hl : l.arr ∉ c.outputs) : ((mkStep c r).compile calls).dst ≠ l.toLoc calls := by
  apply toLoc_ne_of_arr
  intro heq
  exact hl (heq ▸ (mkStep_within c hne r).1)

theorem erode_solo_value (kcs : List KCall) (t : Nat) (dt : DT) (vA vOut vBc : C08.View) (bc : Array Int)
    (aA aBc aOut aTmp : Nat)
    (hk : kcs[t]? = some ((Kernel.erode dt vA vOut vBc bc).call ⟨[aA, aBc], [aOut, aTmp]⟩))
    (hne1 : aA ≠ aOut) (hne2 : aA ≠ aTmp)
    (A : Img Int) (hshape : A.shape = vA.shape) (hpos : ∀ d ∈ vA.shape, 0 < d) (m : Mem)
    (hA : ∀ q q', fixPos .nearest vA.shape q = some q' →
        m ((KLoc.mk aA (vA.addr (q'.map Int.toNat))).toLoc (kcs.map (·.call))) = A.getD q' 0)
    (hinj : ∀ k k', k < shapeSize vA.shape → k' < shapeSize vA.shape →
        iterAddr vOut k = iterAddr vOut k' → k = k')
    (k : Nat) (hkn : k < shapeSize vA.shape) :
    solo (compile kcs) t m ((KLoc.mk aOut (iterAddr vOut k)).toLoc (kcs.map (·.call))) =
      (C01.erodeModel dt A (C01.support vBc.shape bc dt.isBool)).getD k 0 := by
  let c : Call := ⟨[aA, aBc], [aOut, aTmp]⟩
  have hcne : c.outputs ≠ [] := by simp [c]
  let calls := kcs.map (·.call)
  let sup := C01.support vBc.shape bc dt.isBool
  let G : Nat → Step := fun k => (mkStep c (erodePixel dt vA vOut sup k)).compile calls
  have hprog := compile_gather kcs t c (filterCopyRaw 1 vBc) (erodePixel dt vA vOut sup)
    (shapeSize vA.shape) hk
  have hdst : ∀ k, (G k).dst = (KLoc.mk aOut (iterAddr vOut k)).toLoc calls := fun k => rfl
  rw [solo_eq_execAll, hprog, ← hdst k]
  rw [gather_solo _ G _ (fun a b ha hb hab => by
      rw [hdst a, hdst b] at hab
      have := KLoc.toLoc_inj calls _ _ hab
      exact hinj a b ha hb (by simpa using this)) m k hkn]
  -- the values read: the array locations still hold the initial memory
  have hread : ∀ l : KLoc, l.arr = aA →
      (execAll ((filterCopyRaw 1 vBc).map (fun r => (mkStep c r).compile calls) ++
        (List.range k).map G) m) (l.toLoc calls) = m (l.toLoc calls) := by
    intro l hl
    apply execAll_frame
    intro s hs
    have hout : l.arr ∉ c.outputs := by simp [c, hl, hne1, hne2]
    rcases List.mem_append.1 hs with h | h
    · obtain ⟨r, _, rfl⟩ := List.mem_map.1 h
      exact compiled_dst_ne calls c hcne r l hout
    · obtain ⟨j, _, rfl⟩ := List.mem_map.1 h
      exact compiled_dst_ne calls c hcne _ l hout
  obtain ⟨M, hM⟩ : ∃ M, M = execAll ((filterCopyRaw 1 vBc).map (fun r => (mkStep c r).compile calls) ++
        (List.range k).map G) m := ⟨_, rfl⟩
  rw [← hM] at hread ⊢
  have hsrcs : (G k).srcs.map M.get =
      sup.map (fun kh => C01.readNearest A (addPos (unravelI vA.shape k) kh.1)) ++
        ((List.range sup.length).map (fun (j : Nat) => (⟨c.arrOf (.own 1), (j : Int)⟩ : KLoc).toLoc calls)).map
          M.get := by
    simp only [G, KStep.compile, mkStep, erodePixel, List.map_append, List.map_map]
    congr 1
    apply List.map_congr_left
    intro kh _
    simp only [Function.comp]
    have hfix := C01.fixPos_nearest vA.shape (addPos (unravelI vA.shape k) kh.1) hpos
    rw [show (c.arrOf (.inp 0)) = aA from rfl]
    rw [hread _ rfl]
    simp only [nbrAddr, hfix, Option.map_some, Option.getD_some]
    rw [hA _ _ hfix]
    unfold C01.readNearest
    rw [hshape, hfix]
  rw [hsrcs]
  show erodeVals dt (sup.map (·.2)) _ dt.hi = _
  rw [erodeVals_eq]
  simp only [C01.erodeModel, allPos, hshape, List.map_map]
  simp [Array.getD, hkn, C01.erodeAtExit, sup]

/-! ## value tie: convolve (the polymorphic `C06.convAcc` at `Int`) -/

theorem convVals_eq (md : Mode) (vA : C08.View) (f : Img Int) (hshape : f.shape = vA.shape) (val : Int → Val)
    (hval : ∀ q q', fixPos md vA.shape q = some q' → val (vA.addr (q'.map Int.toNat)) = f.getD q' 0)
    (p : List Int) (sup : List (List Int × Int)) (extra : List Val) (cur : Int) :
    convVals ((convLive md vA sup p).map (·.2)) ((convLive md vA sup p).map (fun aw => val aw.1) ++ extra) cur =
      sup.foldl (fun cur kw => match C06.sample md f (addPos p kw.1) with
        | some v => cur + v * kw.2
        | none => cur) cur := by
  induction sup generalizing cur with
  | nil => cases extra <;> simp [convLive, convVals]
  | cons kw rest ih =>
    simp only [List.foldl_cons]
    cases hfix : fixPos md vA.shape (addPos p kw.1) with
    | none =>
      have h1 : convLive md vA (kw :: rest) p = convLive md vA rest p := by
        simp [convLive, nbrAddr, hfix]
      have h2 : C06.sample md f (addPos p kw.1) = none := by simp [C06.sample, hshape, hfix]
      rw [h1, h2]
      exact ih cur
    | some q' =>
      have h1 : convLive md vA (kw :: rest) p =
          (vA.addr (q'.map Int.toNat), kw.2) :: convLive md vA rest p := by
        simp [convLive, nbrAddr, hfix]
      have h2 : C06.sample md f (addPos p kw.1) = some (f.getD q' 0) := by
        simp [C06.sample, hshape, hfix]
      rw [h1, h2]
      simp only [List.map_cons, List.cons_append, convVals]
      rw [hval _ _ hfix]
      exact ih _

theorem convolve_solo_value (kcs : List KCall) (t : Nat) (md : Mode) (vA vOut vW : C08.View) (w : Array Int)
    (aA aW aOut aTmp : Nat)
    (hk : kcs[t]? = some ((Kernel.convolve md vA vOut vW w).call ⟨[aA, aW], [aOut, aTmp]⟩))
    (hne1 : aA ≠ aOut) (hne2 : aA ≠ aTmp)
    (f : Img Int) (hshape : f.shape = vA.shape) (m : Mem)
    (hA : ∀ q q', fixPos md vA.shape q = some q' →
        m ((KLoc.mk aA (vA.addr (q'.map Int.toNat))).toLoc (kcs.map (·.call))) = f.getD q' 0)
    (hinj : ∀ k k', k < shapeSize vA.shape → k' < shapeSize vA.shape →
        iterAddr vOut k = iterAddr vOut k' → k = k')
    (k : Nat) (hkn : k < shapeSize vA.shape) :
    solo (compile kcs) t m ((KLoc.mk aOut (iterAddr vOut k)).toLoc (kcs.map (·.call))) =
      C06.convAcc md f (C06.support (fun (x : Int) => x == 0) vW.shape w) (unravelI vA.shape k) := by
  let c : Call := ⟨[aA, aW], [aOut, aTmp]⟩
  have hcne : c.outputs ≠ [] := by simp [c]
  let calls := kcs.map (·.call)
  let sup := C06.support (fun (x : Int) => x == 0) vW.shape w
  let G : Nat → Step := fun k => (mkStep c (convPixel md vA vOut sup k)).compile calls
  have hprog := compile_gather kcs t c (filterCopyRaw 1 vW) (convPixel md vA vOut sup)
    (shapeSize vA.shape) hk
  have hdst : ∀ k, (G k).dst = (KLoc.mk aOut (iterAddr vOut k)).toLoc calls := fun k => rfl
  rw [solo_eq_execAll, hprog, ← hdst k]
  rw [gather_solo _ G _ (fun a b ha hb hab => by
      rw [hdst a, hdst b] at hab
      have := KLoc.toLoc_inj calls _ _ hab
      exact hinj a b ha hb (by simpa using this)) m k hkn]
  have hread : ∀ l : KLoc, l.arr = aA →
      (execAll ((filterCopyRaw 1 vW).map (fun r => (mkStep c r).compile calls) ++
        (List.range k).map G) m) (l.toLoc calls) = m (l.toLoc calls) := by
    intro l hl
    apply execAll_frame
    intro s hs
    have hout : l.arr ∉ c.outputs := by simp [c, hl, hne1, hne2]
    rcases List.mem_append.1 hs with h | h
    · obtain ⟨r, _, rfl⟩ := List.mem_map.1 h
      exact compiled_dst_ne calls c hcne r l hout
    · obtain ⟨j, _, rfl⟩ := List.mem_map.1 h
      exact compiled_dst_ne calls c hcne _ l hout
  obtain ⟨M, hM⟩ : ∃ M, M = execAll ((filterCopyRaw 1 vW).map (fun r => (mkStep c r).compile calls) ++
        (List.range k).map G) m := ⟨_, rfl⟩
  rw [← hM] at hread ⊢
  let p := unravelI vA.shape k
  have hsrcs : (G k).srcs.map M.get =
      (convLive md vA sup p).map (fun aw => M ((KLoc.mk aA aw.1).toLoc calls)) ++
        ((List.range sup.length).map (fun (j : Nat) => (⟨c.arrOf (.own 1), (j : Int)⟩ : KLoc).toLoc calls)).map
          M.get := by
    simp only [G, KStep.compile, mkStep, convPixel, List.map_append, List.map_map]
    rfl
  rw [hsrcs]
  show convVals ((convLive md vA sup p).map (·.2)) _ 0 = _
  rw [convVals_eq md vA f hshape (fun a => M ((KLoc.mk aA a).toLoc calls))
    (fun q q' hq => by rw [hread _ rfl]; exact hA q q' hq)]
  unfold C06.convAcc
  first
    | rfl
    | (congr 1; first | rfl | (funext cur kw; cases C06.sample md f (addPos p kw.1) <;> rfl))

/-! ## value tie: labeled fold (`C08.labeledFoldView` at `Int`) -/

section fold
variable (calls : List Call) (aA aL aRes aReg : Nat) (maxlabel : Nat) (mA mL : Int → Int)

/-- the memory presents the arrays `mA`, `mL` and the result table `res` -/
def FoldInv (M : Mem) (res : Array Val) : Prop :=
  (∀ j, j < maxlabel → res[j]? = some (M ((KLoc.mk aRes (j : Int)).toLoc calls))) ∧
  (∀ a, M ((KLoc.mk aA a).toLoc calls) = mA a) ∧ (∀ a, M ((KLoc.mk aL a).toLoc calls) = mL a)

/-- the loop body of `C08.labeledFoldList` on element number `k` -/
def foldBody (f : Val → Val → Val) (vA vL : C08.View) (res : Array Val) (k : Nat) : Array Val :=
  if 0 ≤ C08.readIter mL vL k ∧ C08.readIter mL vL k < (maxlabel : Int) then
    res.modify (C08.readIter mL vL k).toNat (fun r => f (C08.readIter mA vA k) r) else res

theorem fold_step_inv (f : Val → Val → Val) (vA vL : C08.View)
    (h1 : aA ≠ aRes) (h2 : aA ≠ aReg) (h3 : aL ≠ aRes) (h4 : aL ≠ aReg) (h5 : aRes ≠ aReg)
    (M : Mem) (res : Array Val) (k : Nat)
    (hinv : FoldInv calls aA aL aRes maxlabel mA mL M res) :
    FoldInv calls aA aL aRes maxlabel mA mL
      (((mkStep ⟨[aA, aL], [aRes, aReg]⟩ (foldStep f maxlabel vA vL mL k)).compile calls).exec M)
      (foldBody maxlabel mA mL f vA vL res k) := by
  obtain ⟨hr, ha, hl⟩ := hinv
  unfold foldStep foldBody
  by_cases hin : 0 ≤ C08.readIter mL vL k ∧ C08.readIter mL vL k < (maxlabel : Int)
  · simp only [hin, and_self, if_true]
    obtain ⟨l, hl0⟩ : ∃ l : Nat, C08.readIter mL vL k = (l : Int) := ⟨_, (Int.toNat_of_nonneg hin.1).symm⟩
    have hlt : l < maxlabel := by omega
    rw [hl0]
    simp only [Int.toNat_natCast]
    refine ⟨?_, ?_, ?_⟩
    · intro j hj
      rw [Array.getElem?_modify]
      by_cases hjl : l = j
      · subst hjl
        simp only [if_true, hr l hj, Option.map_some]
        simp [Step.exec, Mem.set_apply, KStep.compile, mkStep, Call.arrOf, ha, C08.readIter, iterAddr]
      · rw [if_neg hjl, hr j hj]
        congr 1
        symm
        apply exec_frame
        intro heq
        have := KLoc.toLoc_inj calls _ _ heq
        simp [mkStep, Call.arrOf] at this
        omega
    · intro a
      rw [← ha a]
      apply exec_frame
      exact (toLoc_ne_of_arr calls _ _ (by simp [mkStep, Call.arrOf, h1]))
    · intro a
      rw [← hl a]
      apply exec_frame
      exact (toLoc_ne_of_arr calls _ _ (by simp [mkStep, Call.arrOf, h3]))
  · simp only [hin, if_false]
    refine ⟨?_, ?_, ?_⟩
    · intro j hj
      rw [hr j hj]
      congr 1
      symm
      apply exec_frame
      exact (toLoc_ne_of_arr calls _ _ (by simp [mkStep, Call.arrOf, h5]))
    · intro a
      rw [← ha a]
      apply exec_frame
      exact (toLoc_ne_of_arr calls _ _ (by simp [mkStep, Call.arrOf, h2]))
    · intro a
      rw [← hl a]
      apply exec_frame
      exact (toLoc_ne_of_arr calls _ _ (by simp [mkStep, Call.arrOf, h4]))

theorem fold_steps_inv (f : Val → Val → Val) (vA vL : C08.View)
    (h1 : aA ≠ aRes) (h2 : aA ≠ aReg) (h3 : aL ≠ aRes) (h4 : aL ≠ aReg) (h5 : aRes ≠ aReg)
    (ks : List Nat) (M : Mem) (res : Array Val)
    (hinv : FoldInv calls aA aL aRes maxlabel mA mL M res) :
    FoldInv calls aA aL aRes maxlabel mA mL
      (execAll (ks.map fun k => (mkStep ⟨[aA, aL], [aRes, aReg]⟩ (foldStep f maxlabel vA vL mL k)).compile calls) M)
      (ks.foldl (foldBody maxlabel mA mL f vA vL) res) := by
  induction ks generalizing M res with
  | nil => exact hinv
  | cons k rest ih =>
    simp only [List.map_cons, execAll, List.foldl_cons]
    exact ih _ _ (fold_step_inv calls aA aL aRes aReg maxlabel mA mL f vA vL h1 h2 h3 h4 h5 M res k hinv)

theorem fold_init_inv (start : Val) (h1 : aA ≠ aRes) (h3 : aL ≠ aRes) (m : Mem)
    (hA : ∀ a, m ((KLoc.mk aA a).toLoc calls) = mA a) (hL : ∀ a, m ((KLoc.mk aL a).toLoc calls) = mL a) :
    FoldInv calls aA aL aRes maxlabel mA mL
      (execAll ((List.range maxlabel).map fun (j : Nat) =>
        (mkStep ⟨[aA, aL], [aRes, aReg]⟩ (⟨0, (j : Int), [], fun _ => start⟩ : RStep)).compile calls) m)
      (Array.replicate maxlabel start) := by
  let G : Nat → Step := fun (j : Nat) =>
    (mkStep ⟨[aA, aL], [aRes, aReg]⟩ (⟨0, (j : Int), [], fun _ => start⟩ : RStep)).compile calls
  refine ⟨?_, ?_, ?_⟩
  · intro j hj
    rw [Array.getElem?_replicate, if_pos hj]
    have := gather_solo [] G maxlabel (fun a b _ _ hab => by
      have := KLoc.toLoc_inj calls _ _ hab
      simp [mkStep] at this
      exact_mod_cast this) m j hj
    simp only [List.nil_append] at this
    have hd : (G j).dst = (KLoc.mk aRes (j : Int)).toLoc calls := rfl
    rw [hd] at this
    rw [this]
    rfl
  · intro a
    rw [← hA a]
    apply execAll_frame
    intro s hs
    obtain ⟨j, _, rfl⟩ := List.mem_map.1 hs
    exact (toLoc_ne_of_arr calls _ _ (by simp [mkStep, Call.arrOf]; exact fun h => h1 h.symm))
  · intro a
    rw [← hL a]
    apply execAll_frame
    intro s hs
    obtain ⟨j, _, rfl⟩ := List.mem_map.1 hs
    exact (toLoc_ne_of_arr calls _ _ (by simp [mkStep, Call.arrOf]; exact fun h => h3 h.symm))

end fold

theorem fold_solo_value (kcs : List KCall) (t : Nat) (f : Val → Val → Val) (start : Val) (maxlabel : Nat)
    (vA vL : C08.View) (mA mL : Int → Int) (aA aL aRes aReg : Nat)
    (hk : kcs[t]? = some ((Kernel.fold f start maxlabel vA vL mL).call ⟨[aA, aL], [aRes, aReg]⟩))
    (h1 : aA ≠ aRes) (h2 : aA ≠ aReg) (h3 : aL ≠ aRes) (h4 : aL ≠ aReg) (h5 : aRes ≠ aReg) (m : Mem)
    (hA : ∀ a, m ((KLoc.mk aA a).toLoc (kcs.map (·.call))) = mA a)
    (hL : ∀ a, m ((KLoc.mk aL a).toLoc (kcs.map (·.call))) = mL a)
    (j : Nat) (hj : j < maxlabel) :
    (C08.labeledFoldView f start maxlabel mA vA mL vL)[j]? =
      some (solo (compile kcs) t m ((KLoc.mk aRes (j : Int)).toLoc (kcs.map (·.call)))) := by
  have hprog : compile kcs t =
      ((List.range maxlabel).map fun (j : Nat) =>
        (mkStep ⟨[aA, aL], [aRes, aReg]⟩ (⟨0, (j : Int), [], fun _ => start⟩ : RStep)).compile (kcs.map (·.call))) ++
      ((List.range (shapeSize vA.shape)).map fun k =>
        (mkStep ⟨[aA, aL], [aRes, aReg]⟩ (foldStep f maxlabel vA vL mL k)).compile (kcs.map (·.call))) := by
    unfold compile
    rw [hk]
    simp [KCall.prog, Kernel.call, Kernel.raw, foldRaw, List.map_append, List.map_map, Function.comp_def]
  rw [solo_eq_execAll, hprog, execAll_append]
  have hinv := fold_steps_inv (kcs.map (·.call)) aA aL aRes aReg maxlabel mA mL f vA vL h1 h2 h3 h4 h5
    (List.range (shapeSize vA.shape)) _ _
    (fold_init_inv (kcs.map (·.call)) aA aL aRes aReg maxlabel mA mL start h1 h3 m hA hL)
  have hview : C08.labeledFoldView f start maxlabel mA vA mL vL =
      (List.range (shapeSize vA.shape)).foldl (foldBody maxlabel mA mL f vA vL)
        (Array.replicate maxlabel start) := by
    unfold C08.labeledFoldView C08.labeledFoldList
    simp only [List.zip_map', List.foldl_map]
    rfl
  rw [hview]
  exact hinv.1 j hj

end Mahotas.C12
