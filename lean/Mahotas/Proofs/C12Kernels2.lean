/-
C12 (T4, second batch) — helper lemmas and property theorems for the access programs of
`Model/C12Kernels2.lean` (dilate, rank_filter, template_match, cooccurence, distance, borders, thin,
zoom_shift):
 * roles within the arity (`rolesOk_iff`, `logFold_forall_steps`, one `…_rolesOk` per kernel, `kernel2_rolesOk`,
   `mkStep_resolved`),
 * value ties: `templateMatch_solo_value` (`C07.tmAt`), `rank_solo_value` (`C07.rankAt`; `block_solo`,
   `phase_value`), `dilate_solo_value` (`C01.dilateModel`; scatter invariant `DilInv`, `dilate_step_inv`),
   `cooccurence_solo_value` (`C19.coocModel`; `CoocInv`, `cooc_log_inv`, `boxPos_eq_allPos`),
   `borders_solo_value` (`C13.bordersModel`; `step_solo`, `bordersReads_spec`),
 * the property theorems `C12_…` (after `end Mahotas.C12`), written as they belong into `Properties/C12.lean`,
 * non-vacuity examples (`namespace Mahotas.C12.Examples2`).
-/
import Mahotas.Proofs.C12Kernels
import Mahotas.Model.C12Kernels2
import Mahotas.Proofs.C07
import Mahotas.Proofs.C07Order
import Mahotas.Proofs.C08Kernels
import Mahotas.Proofs.C03Label
import Mahotas.Model.C13
namespace Mahotas.C12
open Mahotas

/-! ## roles within the arity -/

/-- the role exists in a call of arity `ar` -/
def Role.ok (ar : Nat × Nat) : Role → Prop
  | .inp i => i < ar.1
  | .own i => i < ar.2

theorem rolesOk_iff (ar : Nat × Nat) (r : RStep) :
    r.rolesOk ar = true ↔ r.dst < ar.2 ∧ ∀ l ∈ r.srcs, l.role.ok ar := by
  unfold RStep.rolesOk
  rw [Bool.and_eq_true, decide_eq_true_iff, List.all_eq_true]
  constructor
  · rintro ⟨h1, h2⟩
    refine ⟨h1, fun l hl => ?_⟩
    have := h2 l hl
    cases hr : l.role <;> simp [hr] at this <;> simpa [Role.ok] using this
  · rintro ⟨h1, h2⟩
    refine ⟨h1, fun l hl => ?_⟩
    have := h2 l hl
    cases hr : l.role <;> simp [hr, Role.ok] at this ⊢ <;> exact this

/-- a property of all steps the logger can emit holds for every step of the logged fold -/
theorem logFold_forall_steps {σ ι : Type} (f : σ → ι → σ) (lg : σ → ι → List RStep) (P : RStep → Prop)
    (h : ∀ s x, ∀ r ∈ lg s x, P r) : ∀ (xs : List ι) (s : σ), ∀ r ∈ logFold f lg s xs, P r := by
  intro xs
  induction xs with
  | nil => intro s r hr; simp [logFold] at hr
  | cons x xs ih =>
    intro s r hr
    simp only [logFold, List.mem_append] at hr
    rcases hr with hr | hr
    · exact h s x r hr
    · exact ih _ r hr

theorem filterCopy_rolesOk (fi : Nat) (vF : C08.View) (ar : Nat × Nat) (h1 : 1 < ar.2) (h2 : fi < ar.1) :
    ∀ r ∈ filterCopyRaw fi vF, r.rolesOk ar = true := by
  intro r hr
  simp only [filterCopyRaw, List.mem_map] at hr
  obtain ⟨i, _, rfl⟩ := hr
  rw [rolesOk_iff]
  exact ⟨h1, by simp [Role.ok, h2]⟩

theorem dilate_rolesOk (dt : DT) (vA vOut vBc : C08.View) (bc : Array Int) :
    ∀ r ∈ dilateRaw dt vA vOut vBc bc, r.rolesOk (2, 2) = true := by
  intro r hr
  simp only [dilateRaw, List.mem_append, List.mem_map, List.mem_flatMap, List.mem_filterMap] at hr
  rcases hr with (hr | ⟨i, _, rfl⟩) | ⟨i, _, jkh, _, hr⟩
  · unfold filterCtorRaw at hr
    split at hr
    · exact filterCopy_rolesOk 1 vBc (2, 2) (by decide) (by decide) r hr
    · simp at hr
  · rw [rolesOk_iff]; simp
  · simp only [dilateStepR, Option.map_eq_some_iff] at hr
    obtain ⟨q, _, rfl⟩ := hr
    rw [rolesOk_iff]
    refine ⟨by simp, ?_⟩
    intro l hl
    simp only [List.mem_cons, List.not_mem_nil, or_false] at hl
    rcases hl with rfl | rfl | rfl
    · simp [Role.ok]
    · simp [Role.ok]
    · unfold filtSrc; split <;> simp [Role.ok]

theorem rank_rolesOk (m : Mode) (rank : Int) (vA vOut vBc : C08.View) (bc : Array Int) :
    ∀ r ∈ rankRaw m rank vA vOut vBc bc, r.rolesOk (2, 4) = true := by
  intro r hr
  simp only [rankRaw, List.mem_append] at hr
  rcases hr with hr | hr
  · exact filterCopy_rolesOk 1 vBc (2, 4) (by decide) (by decide) r hr
  · split at hr
    · simp at hr
    · simp only [List.mem_flatMap, rankPixel, List.mem_append, List.mem_map, List.mem_cons,
        List.not_mem_nil, or_false] at hr
      obtain ⟨i, _, hr⟩ := hr
      rcases hr with ((⟨js, _, rfl⟩ | ⟨j, _, rfl⟩) | ⟨j, _, rfl⟩) | rfl
      · rw [rolesOk_iff]
        refine ⟨by simp, ?_⟩
        intro l hl
        simp only at hl
        split at hl
        · simp only [List.mem_cons, List.not_mem_nil, or_false] at hl
          subst hl; simp [Role.ok]
        · simp at hl
      · rw [rolesOk_iff]; simp [Role.ok]
      · rw [rolesOk_iff]
        refine ⟨by simp, ?_⟩
        intro l hl
        simp only [List.mem_map] at hl
        obtain ⟨x, _, rfl⟩ := hl
        simp [Role.ok]
      · rw [rolesOk_iff]; simp [Role.ok]

theorem templateMatch_rolesOk (m : Mode) (je : Bool) (vA vOut vT : C08.View) :
    ∀ r ∈ templateMatchRaw m je vA vOut vT, r.rolesOk (2, 1) = true := by
  intro r hr
  simp only [templateMatchRaw, List.mem_map] at hr
  obtain ⟨k, _, rfl⟩ := hr
  rw [rolesOk_iff]
  refine ⟨by simp [tmPixel], ?_⟩
  intro l hl
  simp only [tmPixel, List.mem_append, List.mem_map] at hl
  rcases hl with ⟨x, _, rfl⟩ | ⟨x, _, rfl⟩ <;> simp [Role.ok]

theorem coocLog_rolesOk (vA vR : C08.View) (mA : Int → Int) (d : List Int) (ks : List Nat) :
    ∀ r ∈ coocLog vA vR mA d ks, r.rolesOk (2, 3) = true := by
  induction ks with
  | nil => intro r hr; simp [coocLog] at hr
  | cons k ks ih =>
    intro r hr
    unfold coocLog at hr
    split at hr
    · simp only [List.mem_cons] at hr
      rcases hr with rfl | hr
      · rw [rolesOk_iff]; simp [Role.ok]
      · exact ih r hr
    · simp only at hr
      split at hr
      · simp only [List.mem_cons, List.not_mem_nil, or_false] at hr
        subst hr
        rw [rolesOk_iff]; simp [Role.ok]
      · simp only [List.mem_cons] at hr
        rcases hr with rfl | hr
        · rw [rolesOk_iff]; simp [Role.ok]
        · exact ih r hr

theorem cooccurence_rolesOk (vA vR vBc : C08.View) (bc : Array Int) (mA : Int → Int) :
    ∀ r ∈ cooccurenceRaw vA vR vBc bc mA, r.rolesOk (2, 3) = true := by
  intro r hr
  simp only [cooccurenceRaw, List.mem_append] at hr
  rcases hr with hr | hr
  · exact filterCopy_rolesOk 1 vBc (2, 3) (by decide) (by decide) r hr
  · split at hr
    · simp at hr
    · exact coocLog_rolesOk vA vR mA _ _ r hr

/-- a literal step: unfold `rolesOk` and let `simp` evaluate the finitely many roles -/
macro "roles_lit" : tactic => `(tactic| (rw [rolesOk_iff]; simp [Role.ok]))

theorem popLog_rolesOk (g : Nat → Rat) (addr : Nat → Int) (n q : Nat) (st : C05.Stack) :
    ∀ r ∈ popLog g addr n q st, r.rolesOk (0, 6) = true := by
  induction st with
  | nil => intro r hr; simp [popLog] at hr
  | cons e rest ih =>
    obtain ⟨v, z⟩ := e
    intro r hr
    simp only [popLog, List.mem_cons] at hr
    rcases hr with rfl | hr
    · roles_lit
    · split at hr
      · exact ih r hr
      · simp at hr

theorem advanceLog_rolesOk (n : Nat) (x : Rat) (l : List (Nat × Option Rat)) :
    ∀ (k : Nat), ∀ r ∈ advanceLog n x k l, r.rolesOk (0, 6) = true := by
  induction l with
  | nil => intro k r hr; simp [advanceLog] at hr
  | cons e rest ih =>
    intro k r hr
    cases rest with
    | nil => simp [advanceLog] at hr
    | cons e' rest' =>
      simp only [advanceLog, List.mem_cons] at hr
      rcases hr with rfl | hr
      · roles_lit
      · split at hr
        · exact ih (k + 1) r hr
        · simp at hr

theorem dtLine_rolesOk (wo : Bool) (line : Array Int) (addr oaddr : Nat → Int) (n : Nat) :
    ∀ r ∈ dtLineRaw wo line addr oaddr n, r.rolesOk (0, 6) = true := by
  intro r hr
  simp only [dtLineRaw, List.mem_append, List.mem_flatMap, List.mem_cons, List.not_mem_nil, or_false,
    pushLog] at hr
  rcases hr with (((rfl | rfl | rfl) | ⟨m, _, hr⟩) | ⟨q, _, hr⟩) | ⟨q, _, hr⟩
  · roles_lit
  · roles_lit
  · roles_lit
  · rcases hr with hr | rfl | rfl | rfl
    · exact popLog_rolesOk _ _ _ _ _ r hr
    · roles_lit
    · roles_lit
    · roles_lit
  · rcases hr with (hr | rfl) | hr
    · exact advanceLog_rolesOk _ _ _ _ r hr
    · roles_lit
    · split at hr
      · simp only [List.mem_cons, List.not_mem_nil, or_false] at hr
        subst hr; roles_lit
      · simp at hr
  · rcases hr with rfl | hr
    · roles_lit
    · split at hr
      · simp only [List.mem_cons, List.not_mem_nil, or_false] at hr
        subst hr; roles_lit
      · simp at hr

theorem distance_rolesOk (wo : Bool) (fo : Array Int × Array Int) (d0 d1 : Nat) (b s0 s1 ob os0 os1 : Int) :
    ∀ r ∈ distanceRaw wo fo d0 d1 b s0 s1 ob os0 os1, r.rolesOk (0, 6) = true := by
  intro r hr
  unfold distanceRaw at hr
  simp only at hr
  split at hr
  · simp at hr
  · rcases List.mem_append.1 hr with hr | hr <;>
      exact logFold_forall_steps _ _ (fun r => r.rolesOk (0, 6) = true)
        (fun s x r hr => dtLine_rolesOk _ _ _ _ _ r hr) _ _ r hr

theorem borders_rolesOk (m : Mode) (vA vOut vBc : C08.View) (bc : Array Int) (mA : Int → Int) :
    ∀ r ∈ bordersRaw m vA vOut vBc bc mA, r.rolesOk (2, 3) = true := by
  intro r hr
  simp only [bordersRaw, List.mem_append, List.mem_map] at hr
  rcases hr with hr | ⟨k, _, rfl⟩
  · exact filterCopy_rolesOk 1 vBc (2, 3) (by decide) (by decide) r hr
  · unfold bordersPixel
    simp only
    split
    all_goals
      rw [rolesOk_iff]
      refine ⟨by simp, ?_⟩
      intro l hl
      simp only [List.mem_cons, List.mem_map] at hl
      rcases hl with rfl | ⟨a, _, rfl⟩ <;> simp [Role.ok]

theorem thinPass_rolesOk (vA vB : C08.View) (b : C15.Bin) (ee : Nat × C15.Elem) :
    ∀ r ∈ thinPassLog vA vB b ee, r.rolesOk (0, 4) = true := by
  intro r hr
  simp only [thinPassLog, List.mem_append, List.mem_map, List.mem_flatMap, List.mem_cons,
    List.not_mem_nil, or_false] at hr
  rcases hr with ⟨i, _, rfl⟩ | ⟨j, _, rfl | rfl⟩
  · rw [rolesOk_iff]
    refine ⟨by simp, ?_⟩
    intro l hl
    simp only [List.mem_cons] at hl
    rcases hl with rfl | hl
    · simp [Role.ok]
    · split at hl
      · simp only [List.mem_append, List.mem_map] at hl
        rcases hl with ⟨t, _, rfl⟩ | ⟨j, _, rfl⟩ <;> simp [Role.ok]
      · simp at hl
  · roles_lit
  · roles_lit

theorem thinLoop_rolesOk (vA vB : C08.View) (fuel : Nat) :
    ∀ (b : C15.Bin), ∀ r ∈ thinLoopLog vA vB fuel b, r.rolesOk (0, 4) = true := by
  induction fuel with
  | zero => intro b r hr; simp [thinLoopLog] at hr
  | succ fuel ih =>
    intro b r hr
    simp only [thinLoopLog, thinIterLog, List.mem_cons, List.mem_append, List.cons_append] at hr
    rcases hr with rfl | rfl | hr | hr
    · roles_lit
    · roles_lit
    · exact logFold_forall_steps _ _ (fun r => r.rolesOk (0, 4) = true)
        (fun s x r hr => thinPass_rolesOk vA vB s x r hr) _ _ r hr
    · split at hr
      · simp at hr
      · exact ih _ r hr

theorem thin_rolesOk (vA vB : C08.View) (b : C15.Bin) (maxIter : Int) :
    ∀ r ∈ thinRaw vA vB b maxIter, r.rolesOk (0, 4) = true := by
  intro r hr
  simp only [thinRaw, List.mem_append] at hr
  rcases hr with hr | hr
  · simp only [thinFillRaw, List.mem_flatMap, List.mem_cons, List.not_mem_nil, or_false] at hr
    obtain ⟨ee, _, jt, _, rfl | rfl⟩ := hr <;> roles_lit
  · exact thinLoop_rolesOk vA vB _ b r hr

section Zoom
variable {α : Type} [Add α] [Sub α] [Mul α] [Div α] [Neg α] [NatCast α] [IntCast α] [LT α] [DecidableLT α]

theorem zoomShift_rolesOk (fl : α → Int) (order : Nat) (m : Mode) (vA vOut : C08.View)
    (shifts zooms : List (Option α)) :
    ∀ r ∈ zoomShiftRaw fl order m vA vOut shifts zooms, r.rolesOk (3, 3) = true := by
  intro r hr
  simp only [zoomShiftRaw, List.mem_append, List.mem_flatMap, List.mem_map] at hr
  rcases hr with ⟨rd, _, kk, _, rfl⟩ | ⟨k, _, hr⟩
  · roles_lit
  · unfold zsPixel at hr
    simp only at hr
    split at hr
    · simp only [List.mem_cons, List.not_mem_nil, or_false] at hr
      subst hr
      rw [rolesOk_iff]
      refine ⟨by simp, ?_⟩
      intro l hl
      simp only [List.mem_map] at hl
      obtain ⟨x, _, rfl⟩ := hl
      simp [Role.ok]
    · simp only [List.mem_append, List.mem_map, List.mem_cons, List.not_mem_nil, or_false] at hr
      rcases hr with ⟨fk, _, rfl⟩ | rfl
      · rw [rolesOk_iff]
        refine ⟨by simp, ?_⟩
        intro l hl
        simp only [List.mem_map] at hl
        obtain ⟨x, _, rfl⟩ := hl
        simp [Role.ok]
      · rw [rolesOk_iff]
        refine ⟨by simp, ?_⟩
        intro l hl
        simp only [List.mem_append, List.mem_map] at hl
        rcases hl with (⟨x, _, rfl⟩ | ⟨x, _, rfl⟩) | ⟨x, _, rfl⟩ <;> simp [Role.ok]

end Zoom

/-- every role a step of a second-batch kernel mentions exists in a call of the kernel's arity -/
theorem kernel2_rolesOk (k : Kernel2) : ∀ r ∈ k.raw, r.rolesOk k.arity = true := by
  cases k with
  | dilate dt vA vOut vBc bc => exact dilate_rolesOk dt vA vOut vBc bc
  | rank m rk vA vOut vBc bc => exact rank_rolesOk m rk vA vOut vBc bc
  | templateMatch m je vA vOut vT => exact templateMatch_rolesOk m je vA vOut vT
  | cooccurence vA vR vBc bc mA => exact cooccurence_rolesOk vA vR vBc bc mA
  | distance wo fo d0 d1 b s0 s1 ob os0 os1 => exact distance_rolesOk wo fo d0 d1 b s0 s1 ob os0 os1
  | borders m vA vOut vBc bc mA => exact borders_rolesOk m vA vOut vBc bc mA
  | thin vA vB b maxIter => exact thin_rolesOk vA vB b maxIter
  | zoomShift fl order m vA vOut shifts zooms => exact zoomShift_rolesOk fl order m vA vOut shifts zooms

/-- with roles inside the arity and a footprint of exactly that arity, `mkStep` resolves every role to the
array it names -/
theorem mkStep_resolved (c : Call) (ar : Nat × Nat) (r : RStep) (hr : r.rolesOk ar = true)
    (hi : c.inputs.length = ar.1) (ho : c.outputs.length = ar.2) :
    (∃ h : r.dst < c.outputs.length, (mkStep c r).dst.arr = c.outputs[r.dst]) ∧
    (∀ l ∈ r.srcs, match l.role with
      | .inp i => ∃ h : i < c.inputs.length, c.arrOf l.role = c.inputs[i]
      | .own i => ∃ h : i < c.outputs.length, c.arrOf l.role = c.outputs[i]) := by
  obtain ⟨h1, h2⟩ := (rolesOk_iff ar r).1 hr
  refine ⟨⟨by omega, arrOf_own c r.dst (by omega)⟩, ?_⟩
  intro l hl
  have := h2 l hl
  cases hrole : l.role with
  | inp i => rw [hrole] at this; exact ⟨by simp only [Role.ok] at this; omega, arrOf_inp c i (by simp only [Role.ok] at this; omega)⟩
  | own i => rw [hrole] at this; exact ⟨by simp only [Role.ok] at this; omega, arrOf_own c i (by simp only [Role.ok] at this; omega)⟩

end Mahotas.C12

namespace Mahotas.C12

/-! ## value tie: template_match (`C07.tmAt`) -/

/-- the live samples of the template indices `js` -/
def tmLiveOf (md : Mode) (vA : C08.View) (tshape : List Nat) (p : List Int) (js : List Nat) : List (Int × Nat) :=
  js.filterMap fun j => (nbrAddr md vA (addPos p (C07.offsetOf tshape j))).map fun a => (a, j)

theorem tmVals_eq (md : Mode) (vA : C08.View) (f : Img Int) (hshape : f.shape = vA.shape)
    (tshape : List Nat) (tp : Array Int) (valF : Int → Val) (valT : Nat → Val)
    (hF : ∀ q q', fixPos md vA.shape q = some q' → valF (vA.addr (q'.map Int.toNat)) = f.getD q' 0)
    (p : List Int) (js : List Nat) (hT : ∀ j ∈ js, valT j = tp.getD j 0) (d : Int) :
    tmVals false ((tmLiveOf md vA tshape p js).map (fun aj => valF aj.1))
        ((tmLiveOf md vA tshape p js).map (fun aj => valT aj.2)) d =
      js.foldl (fun diff2 j =>
        match fixPos md f.shape (addPos p (C07.offsetOf tshape j)) with
        | some q =>
          let val := f.getD q 0
          let tj := tp.getD j 0
          let delta := if val > tj then val - tj else tj - val
          diff2 + delta * delta
        | none => diff2) d := by
  induction js generalizing d with
  | nil => simp [tmLiveOf, tmVals]
  | cons j rest ih =>
    simp only [List.foldl_cons]
    rw [hshape]
    cases hfix : fixPos md vA.shape (addPos p (C07.offsetOf tshape j)) with
    | none =>
      have h1 : tmLiveOf md vA tshape p (j :: rest) = tmLiveOf md vA tshape p rest := by
        simp [tmLiveOf, nbrAddr, hfix]
      rw [h1]
      have := ih (fun j' hj' => hT j' (List.mem_cons_of_mem _ hj')) d
      rw [hshape] at this
      exact this
    | some q' =>
      have h1 : tmLiveOf md vA tshape p (j :: rest) =
          (vA.addr (q'.map Int.toNat), j) :: tmLiveOf md vA tshape p rest := by
        simp [tmLiveOf, nbrAddr, hfix]
      rw [h1]
      simp only [List.map_cons, tmVals, Bool.false_and, Bool.false_eq_true, if_false]
      rw [hF _ _ hfix, hT j (List.mem_cons_self ..)]
      have := ih (fun j' hj' => hT j' (List.mem_cons_of_mem _ hj'))
        (d + (if f.getD q' 0 > tp.getD j 0 then f.getD q' 0 - tp.getD j 0 else tp.getD j 0 - f.getD q' 0) *
          (if f.getD q' 0 > tp.getD j 0 then f.getD q' 0 - tp.getD j 0 else tp.getD j 0 - f.getD q' 0))
      rw [hshape] at this
      exact this

theorem templateMatch_solo_value (kcs : List KCall) (t : Nat) (md : Mode) (vA vOut vT : C08.View)
    (aF aT aOut : Nat)
    (hk : kcs[t]? = some ((Kernel2.templateMatch md false vA vOut vT).call ⟨[aF, aT], [aOut]⟩))
    (hne1 : aF ≠ aOut) (hne2 : aT ≠ aOut)
    (f : Img Int) (hshape : f.shape = vA.shape) (tp : Array Int) (m : Mem)
    (hA : ∀ q q', fixPos md vA.shape q = some q' →
        m ((KLoc.mk aF (vA.addr (q'.map Int.toNat))).toLoc (kcs.map (·.call))) = f.getD q' 0)
    (hT : ∀ j : Nat, j < shapeSize vT.shape →
        m ((KLoc.mk aT (vT.base + (j : Int))).toLoc (kcs.map (·.call))) = tp.getD j 0)
    (hinj : ∀ k k', k < shapeSize vA.shape → k' < shapeSize vA.shape →
        iterAddr vOut k = iterAddr vOut k' → k = k')
    (k : Nat) (hkn : k < shapeSize vA.shape) :
    solo (compile kcs) t m ((KLoc.mk aOut (iterAddr vOut k)).toLoc (kcs.map (·.call))) =
      C07.tmAt md f vT.shape tp (unravelI vA.shape k) := by
  let c : Call := ⟨[aF, aT], [aOut]⟩
  have hcne : c.outputs ≠ [] := by simp [c]
  let calls := kcs.map (·.call)
  let G : Nat → Step := fun k => (mkStep c (tmPixel md false vA vOut vT k)).compile calls
  have hprog := compile_gather kcs t c [] (tmPixel md false vA vOut vT) (shapeSize vA.shape) hk
  have hdst : ∀ k, (G k).dst = (KLoc.mk aOut (iterAddr vOut k)).toLoc calls := fun k => rfl
  rw [solo_eq_execAll, hprog, ← hdst k]
  rw [gather_solo _ G _ (fun a b ha hb hab => by
      rw [hdst a, hdst b] at hab
      have := KLoc.toLoc_inj calls _ _ hab
      exact hinj a b ha hb (by simpa using this)) m k hkn]
  -- the argument arrays still hold the initial memory
  have hread : ∀ l : KLoc, l.arr ∉ c.outputs →
      (execAll (([] : List RStep).map (fun r => (mkStep c r).compile calls) ++
        (List.range k).map G) m) (l.toLoc calls) = m (l.toLoc calls) := by
    intro l hout
    apply execAll_frame
    intro s hs
    rcases List.mem_append.1 hs with h | h
    · simp at h
    · obtain ⟨j, _, rfl⟩ := List.mem_map.1 h
      exact compiled_dst_ne calls c hcne _ l hout
  obtain ⟨M, hM⟩ : ∃ M, M = execAll (([] : List RStep).map (fun r => (mkStep c r).compile calls) ++
        (List.range k).map G) m := ⟨_, rfl⟩
  rw [← hM] at hread ⊢
  let p := unravelI vA.shape k
  let live := tmLive md vA vT.shape p
  have hsrcs : (G k).srcs.map M.get =
      live.map (fun aj => M ((KLoc.mk aF aj.1).toLoc calls)) ++
        live.map (fun aj => M ((KLoc.mk aT (vT.base + (aj.2 : Int))).toLoc calls)) := by
    simp only [G, KStep.compile, mkStep, tmPixel, List.map_append, List.map_map]
    rfl
  rw [hsrcs]
  show tmVals false (List.take live.length _) (List.drop live.length _) 0 = _
  rw [List.take_left' (by simp), List.drop_left' (by simp)]
  have hlive : live = tmLiveOf md vA vT.shape p (List.range (shapeSize vT.shape)) := rfl
  rw [hlive]
  have key := tmVals_eq md vA f hshape vT.shape tp (fun a => M ((KLoc.mk aF a).toLoc calls))
    (fun j => M ((KLoc.mk aT (vT.base + (j : Int))).toLoc calls))
    (fun q q' hq => by
      rw [hread _ (by simp [c, hne1])]; exact hA q q' hq)
    p (List.range (shapeSize vT.shape))
    (fun j hj => by
      rw [hread _ (by simp [c, hne2])]; exact hT j (List.mem_range.1 hj)) 0
  rw [key]
  rfl

/-! ## value tie: rank_filter (`C07.rankAt`) -/

/-- a block program: a prefix, then one block of steps per pixel; a location no later block writes holds what
block `k` left there -/
theorem block_solo (F : List Step) (B : Nat → List Step) (N k : Nat) (hk : k < N) (l : Loc)
    (hlater : ∀ i, k < i → i < N → ∀ s ∈ B i, s.dst ≠ l) (m : Mem) :
    execAll (F ++ (List.range N).flatMap B) m l =
      execAll (B k) (execAll (F ++ (List.range k).flatMap B) m) l := by
  induction N with
  | zero => omega
  | succ N ih =>
    rw [List.range_succ, List.flatMap_append, ← List.append_assoc, execAll_append]
    simp only [List.flatMap_cons, List.flatMap_nil, List.append_nil]
    by_cases hkN : k = N
    · subst hkN; rfl
    · rw [execAll_frame _ _ _ (hlater N (by omega) (by omega))]
      exact ih (by omega) (fun i h1 h2 => hlater i h1 (by omega))

/-- one phase `G 0 … G (n-1)` with distinct destinations none of which is a source of `G j`: the destination
of `G j` receives `G j`'s operation on the values before the phase -/
theorem phase_value (G : Nat → Step) (n : Nat)
    (hinj : ∀ k k', k < n → k' < n → (G k).dst = (G k').dst → k = k') (M : Mem) (j : Nat) (hj : j < n)
    (hsrc : ∀ l ∈ (G j).srcs, ∀ i, i < n → (G i).dst ≠ l) :
    execAll ((List.range n).map G) M (G j).dst = (G j).op ((G j).srcs.map M.get) := by
  have := gather_solo [] G n hinj M j hj
  simp only [List.nil_append] at this
  rw [this]
  congr 1
  apply List.map_congr_left
  intro l hl
  apply execAll_frame
  intro s hs
  obtain ⟨i, hi, rfl⟩ := List.mem_map.1 hs
  exact hsrc l hl i (by have := List.mem_range.1 hi; omega)

theorem range_map_getD {α β : Type} (s : List α) (d : α) (g : α → β) :
    (List.range s.length).map (fun j => g (s.getD j d)) = s.map g := by
  apply List.ext_getElem
  · simp
  · intro i h1 h2
    simp at h1
    simp [List.getD_eq_getElem?_getD, h1]

/-- the values of the samples `rank_filter` gathers are `C07.gather` -/
theorem rankSamples_vals (md : Mode) (vA : C08.View) (f : Img Int) (hshape : f.shape = vA.shape)
    (valF : Int → Val)
    (hF : ∀ q q', fixPos md vA.shape q = some q' → valF (vA.addr (q'.map Int.toNat)) = f.getD q' 0)
    (fp : List (List Int)) (p : List Int) :
    (rankSamples md vA fp p).map (fun o => match o with | some a => valF a | none => 0) =
      C07.gather md f fp p := by
  unfold rankSamples C07.gather
  rw [List.map_filterMap]
  apply List.filterMap_congr
  intro d _
  rw [hshape]
  cases hfix : fixPos md vA.shape (addPos p d) with
  | none =>
    simp only [nbrAddr, hfix, Option.map_none]
    by_cases hm : md = .constant <;> simp [hm]
  | some q' =>
    simp only [nbrAddr, hfix, Option.map_some]
    rw [hF _ _ hfix]

theorem exec_dst (s : Step) (M : Mem) : s.exec M s.dst = s.op (s.srcs.map M.get) := by
  simp [Step.exec, Mem.set_apply]

theorem rank_solo_value (kcs : List KCall) (t : Nat) (md : Mode) (rank : Int) (vA vOut vBc : C08.View)
    (bc : Array Int) (aA aBc aOut aFd aNb aTmp : Nat)
    (hk : kcs[t]? = some ((Kernel2.rank md rank vA vOut vBc bc).call ⟨[aA, aBc], [aOut, aFd, aNb, aTmp]⟩))
    (hA1 : aA ≠ aOut) (hA2 : aA ≠ aFd) (hA3 : aA ≠ aNb) (hA4 : aA ≠ aTmp)
    (h1 : aOut ≠ aNb) (h2 : aOut ≠ aTmp) (h3 : aNb ≠ aTmp)
    (f : Img Int) (hshape : f.shape = vA.shape) (m : Mem)
    (hA : ∀ q q', fixPos md vA.shape q = some q' →
        m ((KLoc.mk aA (vA.addr (q'.map Int.toNat))).toLoc (kcs.map (·.call))) = f.getD q' 0)
    (hinj : ∀ k k', k < shapeSize vA.shape → k' < shapeSize vA.shape →
        iterAddr vOut k = iterAddr vOut k' → k = k')
    (k : Nat) (hkn : k < shapeSize vA.shape) (v : Int)
    (hv : C07.rankAt md f (C07.footprint vBc.shape bc) rank (unravelI vA.shape k) = some v) :
    solo (compile kcs) t m ((KLoc.mk aOut (iterAddr vOut k)).toLoc (kcs.map (·.call))) = v := by
  let c : Call := ⟨[aA, aBc], [aOut, aFd, aNb, aTmp]⟩
  have hcne : c.outputs ≠ [] := by simp [c]
  let calls := kcs.map (·.call)
  let fp := C07.footprint vBc.shape bc
  let cs : RStep → Step := fun r => (mkStep c r).compile calls
  have hrank : ¬(rank < 0 ∨ rank ≥ (fp.length : Int)) := by
    intro h
    unfold C07.rankAt at hv
    rw [if_pos h] at hv
    cases hv
  let B : Nat → List Step := fun i => (rankPixel md rank.toNat vA vOut fp i).map cs
  have hprog : compile kcs t = (filterCopyRaw 1 vBc).map cs ++ (List.range (shapeSize vA.shape)).flatMap B := by
    unfold compile
    rw [hk]
    simp only [KCall.prog, Kernel2.call, Kernel2.raw, rankRaw]
    rw [if_neg hrank]
    simp only [List.map_append, List.map_map, List.map_flatMap]
    rfl
  have haA : aA ∉ c.outputs := by simp [c, hA1, hA2, hA3, hA4]
  rw [solo_eq_execAll, hprog]
  -- blocks of later pixels do not write the result location of pixel `k`
  rw [block_solo _ B _ k hkn _ (by
    intro i hki hiN s hs
    obtain ⟨r, hr, rfl⟩ := List.mem_map.1 hs
    simp only [rankPixel, List.mem_append, List.mem_map, List.mem_cons, List.not_mem_nil, or_false] at hr
    rcases hr with ((⟨j, _, rfl⟩ | ⟨j, _, rfl⟩) | ⟨j, _, rfl⟩) | rfl
    · exact toLoc_ne_of_arr calls _ _ (fun h => h1 h.symm)
    · exact toLoc_ne_of_arr calls _ _ (fun h => h2 h.symm)
    · exact toLoc_ne_of_arr calls _ _ (fun h => h1 h.symm)
    · intro heq
      have := KLoc.toLoc_inj calls _ _ heq
      have h' : iterAddr vOut i = iterAddr vOut k := by
        have h'' := congrArg KLoc.off this
        simpa [mkStep] using h''
      have := hinj i k hiN hkn h'
      omega) m]
  obtain ⟨M0, hM0⟩ : ∃ M0, M0 = execAll ((filterCopyRaw 1 vBc).map cs ++ (List.range k).flatMap B) m := ⟨_, rfl⟩
  rw [← hM0]
  -- the input array still holds the initial memory
  have hread : ∀ a : Int, M0 ((KLoc.mk aA a).toLoc calls) = m ((KLoc.mk aA a).toLoc calls) := by
    intro a
    rw [hM0]
    apply execAll_frame
    intro s hs
    rcases List.mem_append.1 hs with h | h
    · obtain ⟨r, _, rfl⟩ := List.mem_map.1 h
      exact compiled_dst_ne calls c hcne r _ haA
    · obtain ⟨i, _, h⟩ := List.mem_flatMap.1 h
      obtain ⟨r, _, rfl⟩ := List.mem_map.1 h
      exact compiled_dst_ne calls c hcne r _ haA
  -- the block of pixel `k`, phase by phase
  let p := unravelI vA.shape k
  let smp := rankSamples md vA fp p
  let n := smp.length
  let g : Option Int → Val := fun o => match o with | some a => M0 ((KLoc.mk aA a).toLoc calls) | none => 0
  let S : Nat → Step := fun j => cs ⟨2, (j : Int),
    (match smp.getD j none with | some a => [⟨.inp 0, a⟩] | none => []), fun vs => vs.headD 0⟩
  let C : Nat → Step := fun j => cs ⟨3, (j : Int), [⟨.own 2, (j : Int)⟩], fun vs => vs.headD 0⟩
  let T : Nat → Step := fun j => cs ⟨2, (j : Int), (List.range n).map (fun (l : Nat) => ⟨.own 3, (l : Int)⟩), sortedAt j⟩
  let cr := C07.curRank n fp.length rank.toNat
  let R : Step := cs ⟨0, iterAddr vOut k, [⟨.own 2, ((cr : Nat) : Int)⟩], fun vs => vs.headD 0⟩
  have hB : B k = (List.range n).map S ++ (List.range n).map C ++ (List.range n).map T ++ [R] := by
    simp only [B, rankPixel, List.map_append, List.map_map, List.map_cons, List.map_nil]
    rfl
  have injOff : ∀ (a : Nat) (G : Nat → Step), (∀ j, (G j).dst = (KLoc.mk a (j : Int)).toLoc calls) →
      ∀ k k', k < n → k' < n → (G k).dst = (G k').dst → k = k' := by
    intro a G hG x y _ _ hxy
    rw [hG x, hG y] at hxy
    have := KLoc.toLoc_inj calls _ _ hxy
    simpa using this
  have hSd : ∀ j, (S j).dst = (KLoc.mk aNb (j : Int)).toLoc calls := fun j => rfl
  have hCd : ∀ j, (C j).dst = (KLoc.mk aTmp (j : Int)).toLoc calls := fun j => rfl
  have hTd : ∀ j, (T j).dst = (KLoc.mk aNb (j : Int)).toLoc calls := fun j => rfl
  obtain ⟨M1, hM1⟩ : ∃ M1, M1 = execAll ((List.range n).map S) M0 := ⟨_, rfl⟩
  obtain ⟨M2, hM2⟩ : ∃ M2, M2 = execAll ((List.range n).map C) M1 := ⟨_, rfl⟩
  obtain ⟨M3, hM3⟩ : ∃ M3, M3 = execAll ((List.range n).map T) M2 := ⟨_, rfl⟩
  -- phase 1: `neighbours[j]` = sample `j`
  have hP1 : ∀ j, j < n → M1 ((KLoc.mk aNb (j : Int)).toLoc calls) = g (smp.getD j none) := by
    intro j hj
    rw [hM1, ← hSd j, phase_value S n (injOff aNb S hSd) M0 j hj (by
      intro l hl i _
      rw [hSd i]
      simp only [S, cs, KStep.compile, mkStep, List.mem_map] at hl
      obtain ⟨x, ⟨y, hy, rfl⟩, rfl⟩ := hl
      apply toLoc_ne_of_arr
      cases hs : smp.getD j none with
      | none => rw [hs] at hy; simp at hy
      | some a =>
        rw [hs] at hy
        simp only [List.mem_cons, List.not_mem_nil, or_false] at hy
        subst hy
        exact fun h => hA3 h.symm)]
    simp only [S, cs, KStep.compile, mkStep, g]
    cases hs : smp.getD j none with
    | none => rfl
    | some a => rfl
  -- phase 2: the snapshot
  have hP2 : ∀ j, j < n → M2 ((KLoc.mk aTmp (j : Int)).toLoc calls) = g (smp.getD j none) := by
    intro j hj
    rw [hM2, ← hCd j, phase_value C n (injOff aTmp C hCd) M1 j hj (by
      intro l hl i _
      rw [hCd i]
      simp only [C, cs, KStep.compile, mkStep, List.map_cons, List.map_nil, List.mem_cons,
        List.not_mem_nil, or_false] at hl
      subst hl
      exact toLoc_ne_of_arr calls _ _ (fun h => h3 h.symm))]
    rw [← hP1 j hj]
    rfl
  -- phase 3: the sorted range
  have hvals : (List.range n).map (fun (l : Nat) => M2 ((KLoc.mk aTmp (l : Int)).toLoc calls)) =
      C07.gather md f fp p := by
    rw [← rankSamples_vals md vA f hshape (fun a => M0 ((KLoc.mk aA a).toLoc calls))
      (fun q q' hq => by rw [hread]; exact hA q q' hq) fp p]
    rw [← range_map_getD smp none]
    apply List.map_congr_left
    intro l hl
    exact hP2 l (List.mem_range.1 hl)
  have hP3 : ∀ j, j < n → M3 ((KLoc.mk aNb (j : Int)).toLoc calls) = sortedAt j (C07.gather md f fp p) := by
    intro j hj
    rw [hM3, ← hTd j, phase_value T n (injOff aNb T hTd) M2 j hj (by
      intro l hl i _
      rw [hTd i]
      simp only [T, cs, KStep.compile, mkStep, List.map_map, List.mem_map] at hl
      obtain ⟨x, _, rfl⟩ := hl
      exact toLoc_ne_of_arr calls _ _ h3)]
    rw [← hvals]
    simp only [T, cs, KStep.compile, mkStep, List.map_map]
    rfl
  -- the rank of the model
  have hlen : (C07.gather md f fp p).length = n := by
    rw [← rankSamples_vals md vA f hshape (fun a => M0 ((KLoc.mk aA a).toLoc calls))
      (fun q q' hq => by rw [hread]; exact hA q q' hq) fp p]
    simp [n, smp]
  have hnth : C07.nthElement (C07.gather md f fp p) cr = some v := by
    unfold C07.rankAt at hv
    rw [if_neg hrank] at hv
    simp only at hv
    rw [hlen] at hv
    exact hv
  have hcr : cr < n := by
    have := C07.nthElement_lt _ _ _ hnth
    omega
  -- assemble
  rw [hB, execAll_append, execAll_append, execAll_append, ← hM1, ← hM2, ← hM3]
  show R.exec M3 R.dst = v
  rw [exec_dst]
  show (fun vs : List Val => vs.headD 0) [M3 ((KLoc.mk aNb ((cr : Nat) : Int)).toLoc calls)] = v
  simp only [List.headD_cons]
  rw [hP3 cr hcr]
  unfold sortedAt
  rw [C07.kthSmallest_eq_nthElement, hnth]
  rfl


/-! ## value tie: dilate (`C01.dilateModel`), a scatter kernel -/

section dilate
variable (calls : List Call) (aA aBc aOut aFd : Nat) (dt : DT) (vA vOut vBc : C08.View) (A : Img Int) (m : Mem)

/-- the memory presents the running result `out` in the result array and still holds the input -/
def DilInv (M : Mem) (out : Array Int) : Prop :=
  out.size = shapeSize vA.shape ∧
  (∀ j, j < shapeSize vA.shape → M ((KLoc.mk aOut (iterAddr vOut j)).toLoc calls) = out.getD j dt.lo) ∧
  (∀ a, M ((KLoc.mk aA a).toLoc calls) = m ((KLoc.mk aA a).toLoc calls))

/-- the body of the inner loop of `C01.dilateModel` with the `continue` folded in -/
def dilBody (v : Int) (p : List Int) (out : Array Int) (kh : List Int × Int) : Array Int :=
  if v = dt.lo then out else C01.dilateScatter dt vA.shape v p out kh

theorem dilBody_fold (v : Int) (p : List Int) (sup : List (List Int × Int)) (out : Array Int) :
    sup.foldl (dilBody dt vA v p) out =
      if v = dt.lo then out else sup.foldl (C01.dilateScatter dt vA.shape v p) out := by
  by_cases hv : v = dt.lo
  · rw [if_pos hv]
    induction sup with
    | nil => rfl
    | cons kh rest ih => simp only [List.foldl_cons, dilBody, if_pos hv]; simpa [dilBody, hv] using ih
  · rw [if_neg hv]
    congr 1
    funext out kh
    simp [dilBody, hv]

end dilate

theorem unravelI_toNat (s : List Nat) (i : Nat) : (unravelI s i).map Int.toNat = unravel s i := by
  simp [unravelI, List.map_map, Function.comp_def]

theorem scatter_eq (vOut : C08.View) (s : List Nat)
    (hvis : ∀ i, i < shapeSize s → iterAddr vOut i = vOut.addr (unravel s i))
    (i : Nat) (hi : i < shapeSize s) (q : List Int) (hq : inside s q = true) :
    scatterAddr vOut i (unravelI s i) q = iterAddr vOut (ravelI s q) := by
  unfold scatterAddr
  have h2 : unravel s (ravelI s q) = q.map Int.toNat := by
    rw [← unravelI_toNat, C01.unravelI_ravelI s q hq]
  rw [unravelI_toNat, hvis i hi, hvis _ (C01.ravelI_lt s q hq), h2]
  omega

theorem getD_setIfInBounds_ite (out : Array Int) (idx j : Nat) (x d : Int) (hidx : idx < out.size) :
    (out.setIfInBounds idx x).getD j d = if j = idx then x else out.getD j d := by
  by_cases h : j = idx
  · subst h; simp [Array.getD_eq_getD_getElem?, hidx]
  · simp [Array.getD_eq_getD_getElem?, h, Ne.symm h]

theorem dilate_step_inv (calls : List Call) (aA aBc aOut aFd : Nat) (dt : DT) (vA vOut vBc : C08.View)
    (A : Img Int) (m : Mem)
    (hA1 : aA ≠ aOut)
    (hpos : ∀ d ∈ vA.shape, 0 < d)
    (hvis : ∀ i, i < shapeSize vA.shape → iterAddr vOut i = vOut.addr (unravel vA.shape i))
    (hinj : ∀ k k', k < shapeSize vA.shape → k' < shapeSize vA.shape →
        iterAddr vOut k = iterAddr vOut k' → k = k')
    (hA : ∀ i, i < shapeSize vA.shape →
        m ((KLoc.mk aA (iterAddr vA i)).toLoc calls) = A.getD (unravelI vA.shape i) dt.lo)
    (i : Nat) (hi : i < shapeSize vA.shape) (jkh : Nat × (List Int × Int))
    (hlen : jkh.2.1.length = vA.shape.length) (r : RStep)
    (hr : dilateStepR dt vA vOut vBc i jkh = some r)
    (M : Mem) (out : Array Int) (hinv : DilInv calls aA aOut dt vA vOut m M out) :
    DilInv calls aA aOut dt vA vOut m (((mkStep ⟨[aA, aBc], [aOut, aFd]⟩ r).compile calls).exec M)
      (dilBody dt vA (A.getD (unravelI vA.shape i) dt.lo) (unravelI vA.shape i) out jkh.2) := by
  obtain ⟨hsz, hout, hin⟩ := hinv
  simp only [dilateStepR, Option.map_eq_some_iff] at hr
  obtain ⟨q, hq, rfl⟩ := hr
  have hqin : inside vA.shape q = true :=
    C08.fixPos_inside .nearest vA.shape _ q hpos (by
      rw [C01.addPos_length, hlen, Mahotas.unravelI_length]; simp) hq
  have hidx : ravelI vA.shape q < shapeSize vA.shape := C01.ravelI_lt _ _ hqin
  have hsa := scatter_eq vOut vA.shape hvis i hi q hqin
  -- the step, spelled out
  have hdst : ((mkStep ⟨[aA, aBc], [aOut, aFd]⟩ (⟨0, scatterAddr vOut i (unravelI vA.shape i) q,
        [⟨.own 0, scatterAddr vOut i (unravelI vA.shape i) q⟩, ⟨.inp 0, iterAddr vA i⟩,
          filtSrc dt.isBool 1 vBc jkh.1], dilateVal dt jkh.2.2⟩ : RStep)).compile calls).dst =
      (KLoc.mk aOut (iterAddr vOut (ravelI vA.shape q))).toLoc calls := by
    rw [← hsa]; rfl
  obtain ⟨v, hv⟩ : ∃ v, v = A.getD (unravelI vA.shape i) dt.lo := ⟨_, rfl⟩
  have hval : ∀ x, (((mkStep ⟨[aA, aBc], [aOut, aFd]⟩ (⟨0, scatterAddr vOut i (unravelI vA.shape i) q,
        [⟨.own 0, scatterAddr vOut i (unravelI vA.shape i) q⟩, ⟨.inp 0, iterAddr vA i⟩,
          filtSrc dt.isBool 1 vBc jkh.1], dilateVal dt jkh.2.2⟩ : RStep)).compile calls).exec M) x =
      if x = (KLoc.mk aOut (iterAddr vOut (ravelI vA.shape q))).toLoc calls then
        (if v = dt.lo then out.getD (ravelI vA.shape q) dt.lo
         else if dilateAdd dt v jkh.2.2 > out.getD (ravelI vA.shape q) dt.lo then dilateAdd dt v jkh.2.2
         else out.getD (ravelI vA.shape q) dt.lo)
      else M x := by
    intro x
    rw [Step.exec, Mem.set_apply, hdst]
    congr 1
    simp only [KStep.compile, mkStep, List.map_cons, List.map_nil, dilateVal]
    have e1 : M ((KLoc.mk ((⟨[aA, aBc], [aOut, aFd]⟩ : Call).arrOf (.own 0))
        (scatterAddr vOut i (unravelI vA.shape i) q)).toLoc calls) = out.getD (ravelI vA.shape q) dt.lo := by
      rw [hsa]; exact hout _ hidx
    have e2 : M ((KLoc.mk ((⟨[aA, aBc], [aOut, aFd]⟩ : Call).arrOf (.inp 0)) (iterAddr vA i)).toLoc calls) = v := by
      rw [hv, ← hA i hi]; exact hin _
    rw [e1, e2]
  rw [← hv]
  refine ⟨?_, ?_, ?_⟩
  · unfold dilBody C01.dilateScatter
    rw [hq]
    simp only
    split
    · exact hsz
    · split
      · simpa using hsz
      · exact hsz
  · intro j hj
    rw [hval]
    have hiff : ((KLoc.mk aOut (iterAddr vOut j)).toLoc calls =
        (KLoc.mk aOut (iterAddr vOut (ravelI vA.shape q))).toLoc calls) ↔ j = ravelI vA.shape q := by
      constructor
      · intro h
        have := congrArg KLoc.off (KLoc.toLoc_inj calls _ _ h)
        exact hinj j _ hj hidx this
      · intro h; rw [h]
    unfold dilBody C01.dilateScatter
    rw [hq]
    simp only
    by_cases hjq : j = ravelI vA.shape q
    · rw [if_pos (hiff.2 hjq)]
      subst hjq
      by_cases hvl : v = dt.lo
      · simp [hvl]
      · simp only [hvl, if_false]
        by_cases hgt : dilateAdd dt v jkh.2.2 > out.getD (ravelI vA.shape q) dt.lo
        · rw [if_pos hgt, if_pos hgt, getD_setIfInBounds_ite _ _ _ _ _ (by omega), if_pos rfl]
        · rw [if_neg hgt, if_neg hgt]
    · rw [if_neg (fun h => hjq (hiff.1 h)), hout j hj]
      by_cases hvl : v = dt.lo
      · simp [hvl]
      · simp only [hvl, if_false]
        split
        · rw [getD_setIfInBounds_ite _ _ _ _ _ (by omega), if_neg hjq]
        · rfl
  · intro a
    rw [hval, if_neg (toLoc_ne_of_arr calls _ _ (by simpa using hA1)), hin]

section dilate2
variable (calls : List Call) (aA aBc aOut aFd : Nat) (dt : DT) (vA vOut vBc : C08.View) (A : Img Int) (m : Mem)
  (hA1 : aA ≠ aOut) (hpos : ∀ d ∈ vA.shape, 0 < d)
  (hvis : ∀ i, i < shapeSize vA.shape → iterAddr vOut i = vOut.addr (unravel vA.shape i))
  (hinj : ∀ k k', k < shapeSize vA.shape → k' < shapeSize vA.shape →
      iterAddr vOut k = iterAddr vOut k' → k = k')
  (hA : ∀ i, i < shapeSize vA.shape →
      m ((KLoc.mk aA (iterAddr vA i)).toLoc calls) = A.getD (unravelI vA.shape i) dt.lo)
include hA1 hpos hvis hinj hA

theorem dilate_inner_inv (i : Nat) (hi : i < shapeSize vA.shape) (sup : List (List Int × Int))
    (hsup : ∀ kh ∈ sup, kh.1.length = vA.shape.length) :
    ∀ (n : Nat) (M : Mem) (out : Array Int), DilInv calls aA aOut dt vA vOut m M out →
    DilInv calls aA aOut dt vA vOut m
      (execAll (((enumFrom n sup).filterMap (dilateStepR dt vA vOut vBc i)).map
        (fun r => (mkStep ⟨[aA, aBc], [aOut, aFd]⟩ r).compile calls)) M)
      (sup.foldl (dilBody dt vA (A.getD (unravelI vA.shape i) dt.lo) (unravelI vA.shape i)) out) := by
  induction sup with
  | nil => intro n M out h; exact h
  | cons kh rest ih =>
    intro n M out h
    simp only [enumFrom, List.filterMap_cons, List.foldl_cons]
    cases hr : dilateStepR dt vA vOut vBc i (n, kh) with
    | none =>
      simp only
      have hnone : fixPos .nearest vA.shape (addPos (unravelI vA.shape i) kh.1) = none := by
        simpa [dilateStepR] using hr
      have hb : dilBody dt vA (A.getD (unravelI vA.shape i) dt.lo) (unravelI vA.shape i) out kh = out := by
        unfold dilBody C01.dilateScatter
        rw [hnone]
        simp
      rw [hb]
      exact ih (fun kh' hkh' => hsup kh' (List.mem_cons_of_mem _ hkh')) (n + 1) M out h
    | some r =>
      simp only [List.map_cons, execAll, List.foldl_cons]
      exact ih (fun kh' hkh' => hsup kh' (List.mem_cons_of_mem _ hkh')) (n + 1) _ _
        (dilate_step_inv calls aA aBc aOut aFd dt vA vOut vBc A m hA1 hpos hvis hinj hA i hi (n, kh)
          (hsup kh (List.mem_cons_self ..)) r hr M out h)

theorem dilate_outer_inv (sup : List (List Int × Int))
    (hsup : ∀ kh ∈ sup, kh.1.length = vA.shape.length) (is : List Nat)
    (his : ∀ i ∈ is, i < shapeSize vA.shape) :
    ∀ (M : Mem) (out : Array Int), DilInv calls aA aOut dt vA vOut m M out →
    DilInv calls aA aOut dt vA vOut m
      (execAll ((is.flatMap fun i => (enumFrom 0 sup).filterMap (dilateStepR dt vA vOut vBc i)).map
        (fun r => (mkStep ⟨[aA, aBc], [aOut, aFd]⟩ r).compile calls)) M)
      (is.foldl (fun out i =>
        sup.foldl (dilBody dt vA (A.getD (unravelI vA.shape i) dt.lo) (unravelI vA.shape i)) out) out) := by
  induction is with
  | nil => intro M out h; exact h
  | cons i rest ih =>
    intro M out h
    simp only [List.flatMap_cons, List.map_append, execAll_append, List.foldl_cons]
    exact ih (fun j hj => his j (List.mem_cons_of_mem _ hj)) _ _
      (dilate_inner_inv calls aA aBc aOut aFd dt vA vOut vBc A m hA1 hpos hvis hinj hA i
        (his i (List.mem_cons_self ..)) sup hsup 0 M out h)

end dilate2

theorem dilate_solo_value (kcs : List KCall) (t : Nat) (dt : DT) (vA vOut vBc : C08.View) (bc : Array Int)
    (aA aBc aOut aFd : Nat)
    (hk : kcs[t]? = some ((Kernel2.dilate dt vA vOut vBc bc).call ⟨[aA, aBc], [aOut, aFd]⟩))
    (hA1 : aA ≠ aOut) (hA2 : aA ≠ aFd)
    (A : Img Int) (hshape : A.shape = vA.shape) (hpos : ∀ d ∈ vA.shape, 0 < d)
    (hsup : ∀ kh ∈ C01.support vBc.shape bc dt.isBool, kh.1.length = vA.shape.length) (m : Mem)
    (hA : ∀ i, i < shapeSize vA.shape →
        m ((KLoc.mk aA (iterAddr vA i)).toLoc (kcs.map (·.call))) = A.getD (unravelI vA.shape i) dt.lo)
    (hvis : ∀ i, i < shapeSize vA.shape → iterAddr vOut i = vOut.addr (unravel vA.shape i))
    (hinj : ∀ k k', k < shapeSize vA.shape → k' < shapeSize vA.shape →
        iterAddr vOut k = iterAddr vOut k' → k = k')
    (k : Nat) (hkn : k < shapeSize vA.shape) :
    solo (compile kcs) t m ((KLoc.mk aOut (iterAddr vOut k)).toLoc (kcs.map (·.call))) =
      (C01.dilateModel dt A (C01.support vBc.shape bc dt.isBool)).getD k dt.lo := by
  let c : Call := ⟨[aA, aBc], [aOut, aFd]⟩
  have hcne : c.outputs ≠ [] := by simp [c]
  let calls := kcs.map (·.call)
  let sup := C01.support vBc.shape bc dt.isBool
  let cs : RStep → Step := fun r => (mkStep c r).compile calls
  let N := shapeSize vA.shape
  let G : Nat → Step := fun (i : Nat) => cs ⟨0, iterAddr vOut i, [], fun _ => dt.lo⟩
  have hprog : compile kcs t = ((filterCtorRaw dt.isBool 1 vBc).map cs ++ (List.range N).map G) ++
      ((List.range N).flatMap fun i => (enumFrom 0 sup).filterMap (dilateStepR dt vA vOut vBc i)).map cs := by
    unfold compile
    rw [hk]
    simp only [KCall.prog, Kernel2.call, Kernel2.raw, dilateRaw, List.map_append, List.map_map]
    rfl
  have haA : aA ∉ c.outputs := by simp [c, hA1, hA2]
  rw [solo_eq_execAll, hprog, execAll_append]
  -- after the constructor and `std::fill`
  have hinit : DilInv calls aA aOut dt vA vOut m
      (execAll ((filterCtorRaw dt.isBool 1 vBc).map cs ++ (List.range N).map G) m)
      (Array.replicate N dt.lo) := by
    refine ⟨by simp [N], ?_, ?_⟩
    · intro j hj
      have hd : (G j).dst = (KLoc.mk aOut (iterAddr vOut j)).toLoc calls := rfl
      rw [← hd, gather_solo _ G N (fun a b ha hb hab => by
        have := congrArg KLoc.off (KLoc.toLoc_inj calls _ _ hab)
        exact hinj a b ha hb this) m j hj]
      simp [G, cs, KStep.compile, mkStep, Array.getD_eq_getD_getElem?, hj, N]
    · intro a
      apply execAll_frame
      intro s hs
      rcases List.mem_append.1 hs with h | h
      · obtain ⟨r, _, rfl⟩ := List.mem_map.1 h
        exact compiled_dst_ne calls c hcne r _ haA
      · obtain ⟨i, _, rfl⟩ := List.mem_map.1 h
        exact compiled_dst_ne calls c hcne _ _ haA
  have hfin := dilate_outer_inv calls aA aBc aOut aFd dt vA vOut vBc A m hA1 hpos hvis hinj hA sup hsup
    (List.range N) (fun i hi => List.mem_range.1 hi) _ _ hinit
  rw [hfin.2.1 k hkn]
  congr 1
  unfold C01.dilateModel allPos
  rw [List.foldl_map, hshape]
  have hsize : A.size = N := by simp [Img.size, hshape, N]
  rw [hsize]
  congr 1
  funext out i
  rw [dilBody_fold]


/-- `iterator_base` visits the logical elements in C order (`C08.incrN_eq`, `C08.le_address`) -/
theorem iterAddr_eq_addr (v : C08.View) (h : v.strides.length = v.shape.length) (k : Nat)
    (hk : k < shapeSize v.shape) : iterAddr v k = v.addr (unravel v.shape k) := by
  unfold iterAddr
  rw [C08.incrN_eq v h k hk]
  exact C08.le_address v h k hk


/-! ## value tie: cooccurence (`C19.coocModel`) -/

theorem range_mul_map {β : Type} (d S : Nat) (g : Nat → β) :
    (List.range (d * S)).map g = (List.range d).flatMap (fun i => (List.range S).map (fun j => g (i * S + j))) := by
  induction d with
  | zero => simp
  | succ d ih =>
    rw [Nat.succ_mul, List.range_add, List.map_append, ih, List.range_succ, List.flatMap_append]
    simp [List.map_map, Function.comp_def]

theorem boxPos_eq_allPos (s : List Nat) : C19.boxPos s = allPos s := by
  induction s with
  | nil => rfl
  | cons d ds ih =>
    unfold allPos
    rw [show shapeSize (d :: ds) = d * shapeSize ds from rfl, range_mul_map]
    unfold C19.boxPos
    apply List.flatMap_congr
    intro i _
    rw [ih]
    unfold allPos
    rw [List.map_map]
    apply List.map_congr_left
    intro j hj
    have hj' : j < shapeSize ds := List.mem_range.1 hj
    simp only [Function.comp, unravelI, unravel, List.map_cons]
    have h1 : (i * shapeSize ds + j) / shapeSize ds = i := by
      rw [Nat.mul_comm, Nat.mul_add_div (by omega), Nat.div_eq_of_lt hj']; rfl
    have h2 : (i * shapeSize ds + j) % shapeSize ds = j := by
      rw [Nat.mul_comm, Nat.mul_add_mod, Nat.mod_eq_of_lt hj']
    rw [h1, h2]
    rfl

theorem fixPos_ignore_eq_constant : ∀ (s : List Nat) (p : List Int), fixPos .ignore s p = fixPos .constant s p := by
  intro s
  induction s with
  | nil => intro p; cases p <;> rfl
  | cons d ds ih =>
    intro p
    cases p with
    | nil => rfl
    | cons a ps => simp only [fixPos, fixOffset, ih ps]

theorem idx_lt (mm i j : Nat) (hi : i < mm) (hj : j < mm) : i * mm + j < mm * mm := by
  calc i * mm + j < i * mm + mm := by omega
    _ = (i + 1) * mm := by rw [Nat.succ_mul]
    _ ≤ mm * mm := Nat.mul_le_mul_right _ hi

theorem idx_inj (mm i j i' j' : Nat) (hj : j < mm) (hj' : j' < mm) (h : i * mm + j = i' * mm + j') :
    i = i' ∧ j = j' := by
  have h1 : (i * mm + j) / mm = i := by
    rw [Nat.mul_comm, Nat.mul_add_div (by omega), Nat.div_eq_of_lt hj]; rfl
  have h2 : (i' * mm + j') / mm = i' := by
    rw [Nat.mul_comm, Nat.mul_add_div (by omega), Nat.div_eq_of_lt hj']; rfl
  have h3 : (i * mm + j) % mm = j := by rw [Nat.mul_comm, Nat.mul_add_mod, Nat.mod_eq_of_lt hj]
  have h4 : (i' * mm + j') % mm = j' := by rw [Nat.mul_comm, Nat.mul_add_mod, Nat.mod_eq_of_lt hj']
  rw [h] at h1 h3
  exact ⟨h1.symm.trans h2, h3.symm.trans h4⟩

theorem getD_modify (acc : Array Nat) (idx k : Nat) (f : Nat → Nat) :
    (acc.modify idx f).getD k 0 = if idx = k ∧ k < acc.size then f (acc.getD k 0) else acc.getD k 0 := by
  simp only [Array.getD_eq_getD_getElem?, Array.getElem?_modify]
  by_cases h : idx = k
  · subst h
    by_cases hk : idx < acc.size
    · simp [hk]
    · simp [hk]
  · simp [h]

section cooc
variable (calls : List Call) (aA aBc aRes aFd aReg : Nat) (mm : Nat) (vA vR : C08.View) (im : Img Int)
  (mA : Int → Int) (d : List Int)

/-- the memory presents the running matrix `acc` in the result array and still holds the image -/
def CoocInv (M : Mem) (acc : Array Nat) : Prop :=
  acc.size = mm * mm ∧
  (∀ i j, i < mm → j < mm →
    M ((KLoc.mk aRes (vR.addr [i, j])).toLoc calls) = ((acc.getD (i * mm + j) 0 : Nat) : Int)) ∧
  (∀ a, M ((KLoc.mk aA a).toLoc calls) = mA a)

/-- the loop body of `C19.coocModel` -/
def coocBody (acc : Array Nat) (p : List Int) : Array Nat :=
  if inside im.shape (addPos p d) then
    acc.modify ((im.getD p 0).toNat * mm + (im.getD (addPos p d) 0).toNat) (· + 1) else acc

variable (hshape : im.shape = vA.shape) (hd : d.length = vA.shape.length)
  (hAi : ∀ k, k < shapeSize vA.shape → iterAddr vA k = vA.addr (unravel vA.shape k))
  (hAv : ∀ q, inside vA.shape q = true → mA (vA.addr (q.map Int.toNat)) = im.getD q 0)
  (hval : ∀ q, inside vA.shape q = true → 0 ≤ im.getD q 0 ∧ im.getD q 0 < (mm : Int))
  (hRinj : ∀ i j i' j', i < mm → j < mm → i' < mm → j' < mm → vR.addr [i, j] = vR.addr [i', j'] →
    i = i' ∧ j = j')
  (hA1 : aA ≠ aRes) (hA3 : aA ≠ aReg) (hR : aRes ≠ aReg)
include hshape hd hAi hAv hval hRinj hA1 hA3 hR

theorem cooc_log_inv (ks : List Nat) (hks : ∀ k ∈ ks, k < shapeSize vA.shape) :
    ∀ (M : Mem) (acc : Array Nat), CoocInv calls aA aRes mm vR mA M acc →
    CoocInv calls aA aRes mm vR mA
      (execAll ((coocLog vA vR mA d ks).map
        (fun r => (mkStep ⟨[aA, aBc], [aRes, aFd, aReg]⟩ r).compile calls)) M)
      (ks.foldl (fun acc k => coocBody mm im d acc (unravelI vA.shape k)) acc) := by
  induction ks with
  | nil => intro M acc h; exact h
  | cons k rest ih =>
    intro M acc h
    obtain ⟨hsz, hcell, hin⟩ := h
    have hk : k < shapeSize vA.shape := hks k (List.mem_cons_self ..)
    have ih' := ih (fun k' hk' => hks k' (List.mem_cons_of_mem _ hk'))
    have hpin : inside vA.shape (unravelI vA.shape k) = true := C01.inside_unravelI _ _ hk
    have hlen : (addPos (unravelI vA.shape k) d).length = vA.shape.length := by
      rw [C01.addPos_length, hd, Mahotas.unravelI_length]; simp
    have hfix : ∀ q', fixPos .ignore vA.shape (addPos (unravelI vA.shape k) d) = some q' ↔
        (inside vA.shape (addPos (unravelI vA.shape k) d) = true ∧ q' = addPos (unravelI vA.shape k) d) := by
      intro q'
      rw [fixPos_ignore_eq_constant]
      exact C03.fixPos_constant_inside vA.shape _ hlen q'
    simp only [List.foldl_cons]
    unfold coocLog
    split
    · -- flagged: no neighbour, nothing is counted
      rename_i hn
      have hnot : inside vA.shape (addPos (unravelI vA.shape k) d) ≠ true := by
        intro hi
        have := (hfix _).2 ⟨hi, rfl⟩
        simp [nbrAddr, this] at hn
      have hb : coocBody mm im d acc (unravelI vA.shape k) = acc := by
        unfold coocBody; rw [hshape, if_neg hnot]
      rw [hb]
      simp only [List.map_cons, execAll, List.foldl_cons]
      apply ih'
      refine ⟨hsz, ?_, ?_⟩
      · intro i j hi hj
        rw [← hcell i j hi hj]
        apply exec_frame
        exact toLoc_ne_of_arr calls _ _ (by simp [mkStep, Call.arrOf]; exact hR)
      · intro a
        rw [← hin a]
        apply exec_frame
        exact toLoc_ne_of_arr calls _ _ (by simp [mkStep, Call.arrOf]; exact hA3)
    · rename_i a hn
      obtain ⟨q', hq', ha⟩ : ∃ q', fixPos .ignore vA.shape (addPos (unravelI vA.shape k) d) = some q' ∧
          a = vA.addr (q'.map Int.toNat) := by
        simp only [nbrAddr, Option.map_eq_some_iff] at hn
        obtain ⟨q', h1, h2⟩ := hn
        exact ⟨q', h1, h2.symm⟩
      obtain ⟨hqin, rfl⟩ := (hfix q').1 hq'
      have hv1 : mA (iterAddr vA k) = im.getD (unravelI vA.shape k) 0 := by
        rw [hAi k hk, ← unravelI_toNat, hAv _ hpin]
      have hv2 : mA a = im.getD (addPos (unravelI vA.shape k) d) 0 := by rw [ha, hAv _ hqin]
      obtain ⟨hp0, hp1⟩ := hval _ hpin
      obtain ⟨hq0, hq1⟩ := hval _ hqin
      simp only
      rw [hv1, hv2, if_neg (by omega)]
      obtain ⟨v, hv⟩ : ∃ v : Nat, im.getD (unravelI vA.shape k) 0 = (v : Int) := ⟨_, (Int.toNat_of_nonneg hp0).symm⟩
      obtain ⟨v2, hv2'⟩ : ∃ v2 : Nat, im.getD (addPos (unravelI vA.shape k) d) 0 = (v2 : Int) :=
        ⟨_, (Int.toNat_of_nonneg hq0).symm⟩
      have hvlt : v < mm := by omega
      have hv2lt : v2 < mm := by omega
      have hb : coocBody mm im d acc (unravelI vA.shape k) = acc.modify (v * mm + v2) (· + 1) := by
        unfold coocBody; rw [hshape, if_pos hqin, hv, hv2']; simp
      rw [hb, hv, hv2']
      simp only [Int.toNat_natCast, List.map_cons, execAll, List.foldl_cons]
      apply ih'
      have hval' : ∀ x, (((mkStep ⟨[aA, aBc], [aRes, aFd, aReg]⟩ (⟨0, vR.addr [v, v2],
            [⟨.own 0, vR.addr [v, v2]⟩, ⟨.inp 0, iterAddr vA k⟩, ⟨.inp 0, a⟩],
            fun vs => vs.headD 0 + 1⟩ : RStep)).compile calls).exec M) x =
          if x = (KLoc.mk aRes (vR.addr [v, v2])).toLoc calls then
            ((acc.getD (v * mm + v2) 0 : Nat) : Int) + 1 else M x := by
        intro x
        rw [Step.exec, Mem.set_apply]
        have e : (((mkStep ⟨[aA, aBc], [aRes, aFd, aReg]⟩ (⟨0, vR.addr [v, v2],
            [⟨.own 0, vR.addr [v, v2]⟩, ⟨.inp 0, iterAddr vA k⟩, ⟨.inp 0, a⟩],
            fun vs => vs.headD 0 + 1⟩ : RStep)).compile calls).dst) =
            (KLoc.mk aRes (vR.addr [v, v2])).toLoc calls := rfl
        rw [e]
        congr 1
        simp only [KStep.compile, mkStep, List.map_cons, List.headD_cons]
        rw [← hcell v v2 hvlt hv2lt]
        rfl
      refine ⟨by simpa using hsz, ?_, ?_⟩
      · intro i j hi hj
        rw [hval', getD_modify]
        by_cases hij : i = v ∧ j = v2
        · obtain ⟨rfl, rfl⟩ := hij
          rw [if_pos rfl, if_pos ⟨rfl, by rw [hsz]; exact idx_lt mm i j hi hj⟩]
          simp
        · have hne1 : (KLoc.mk aRes (vR.addr [i, j])).toLoc calls ≠ (KLoc.mk aRes (vR.addr [v, v2])).toLoc calls := by
            intro heq
            have := congrArg KLoc.off (KLoc.toLoc_inj calls _ _ heq)
            exact hij (hRinj i j v v2 hi hj hvlt hv2lt this)
          have hne2 : ¬(v * mm + v2 = i * mm + j ∧ i * mm + j < acc.size) := by
            intro h
            have := idx_inj mm v v2 i j hv2lt hj h.1
            exact hij ⟨this.1.symm, this.2.symm⟩
          rw [if_neg hne1, if_neg hne2, hcell i j hi hj]
      · intro a'
        rw [hval', if_neg (toLoc_ne_of_arr calls _ _ (by simpa using hA1)), hin]

end cooc

theorem cooccurence_solo_value (kcs : List KCall) (t : Nat) (vA vR vBc : C08.View) (bc : Array Int)
    (mA : Int → Int) (aA aBc aRes aFd aReg : Nat)
    (hk : kcs[t]? = some ((Kernel2.cooccurence vA vR vBc bc mA).call ⟨[aA, aBc], [aRes, aFd, aReg]⟩))
    (hA1 : aA ≠ aRes) (hA2 : aA ≠ aFd) (hA3 : aA ≠ aReg) (hR1 : aRes ≠ aFd) (hR : aRes ≠ aReg)
    (d : List Int) (rest : List (List Int)) (hfp : C07.footprint vBc.shape bc = d :: rest)
    (hd : d.length = vA.shape.length)
    (mm : Nat) (im : Img Int) (hshape : im.shape = vA.shape)
    (hAlen : vA.strides.length = vA.shape.length)
    (hAv : ∀ q, inside vA.shape q = true → mA (vA.addr (q.map Int.toNat)) = im.getD q 0)
    (hval : ∀ q, inside vA.shape q = true → 0 ≤ im.getD q 0 ∧ im.getD q 0 < (mm : Int))
    (hRinj : ∀ i j i' j', i < mm → j < mm → i' < mm → j' < mm → vR.addr [i, j] = vR.addr [i', j'] →
      i = i' ∧ j = j')
    (m : Mem) (hm : ∀ a, m ((KLoc.mk aA a).toLoc (kcs.map (·.call))) = mA a)
    (hZ : ∀ i j, i < mm → j < mm → m ((KLoc.mk aRes (vR.addr [i, j])).toLoc (kcs.map (·.call))) = 0)
    (i j : Nat) (hi : i < mm) (hj : j < mm) :
    solo (compile kcs) t m ((KLoc.mk aRes (vR.addr [i, j])).toLoc (kcs.map (·.call))) =
      (((C19.coocModel mm im d).getD (i * mm + j) 0 : Nat) : Int) := by
  let c : Call := ⟨[aA, aBc], [aRes, aFd, aReg]⟩
  have hcne : c.outputs ≠ [] := by simp [c]
  let calls := kcs.map (·.call)
  let cs : RStep → Step := fun r => (mkStep c r).compile calls
  let N := shapeSize vA.shape
  have hprog : compile kcs t = (filterCopyRaw 1 vBc).map cs ++ (coocLog vA vR mA d (List.range N)).map cs := by
    unfold compile
    rw [hk]
    simp only [KCall.prog, Kernel2.call, Kernel2.raw, cooccurenceRaw, hfp, List.map_append, List.map_map]
    rfl
  rw [solo_eq_execAll, hprog, execAll_append]
  have hinit : CoocInv calls aA aRes mm vR mA (execAll ((filterCopyRaw 1 vBc).map cs) m)
      (Array.replicate (mm * mm) 0) := by
    refine ⟨by simp, ?_, ?_⟩
    · intro i j hi hj
      have : (Array.replicate (mm * mm) (0 : Nat)).getD (i * mm + j) 0 = 0 := by
        simp [Array.getD_eq_getD_getElem?, Array.getElem?_replicate]
        split <;> rfl
      rw [this]
      show _ = (0 : Int)
      rw [← hZ i j hi hj]
      apply execAll_frame
      intro s hs
      obtain ⟨r, hr, rfl⟩ := List.mem_map.1 hs
      simp only [filterCopyRaw, List.mem_map] at hr
      obtain ⟨x, _, rfl⟩ := hr
      exact toLoc_ne_of_arr calls _ _ (by simp [mkStep, Call.arrOf, c]; exact fun h => hR1 h.symm)
    · intro a
      rw [← hm a]
      apply execAll_frame
      intro s hs
      obtain ⟨r, _, rfl⟩ := List.mem_map.1 hs
      exact compiled_dst_ne calls c hcne r _ (by simp [c, hA1, hA2, hA3])
  have hfin := cooc_log_inv calls aA aBc aRes aFd aReg mm vA vR im mA d hshape hd
    (fun k hk => iterAddr_eq_addr vA hAlen k hk) hAv hval hRinj hA1 hA3 hR (List.range N)
    (fun k hk => List.mem_range.1 hk) _ _ hinit
  rw [hfin.2.1 i j hi hj]
  congr 2
  unfold C19.coocModel
  rw [boxPos_eq_allPos, hshape]
  unfold allPos
  rw [List.foldl_map]
  congr 1
  funext acc k
  unfold coocBody
  rw [hshape]



/-! ## value tie: borders (`C13.bordersModel`) -/

/-- a prefix, then one step per pixel: a location no later step writes holds what step `k` left there -/
theorem step_solo (F : List Step) (G : Nat → Step) (N k : Nat) (hk : k < N) (l : Loc)
    (hlater : ∀ i, k < i → i < N → (G i).dst ≠ l) (m : Mem) :
    execAll (F ++ (List.range N).map G) m l = (G k).exec (execAll (F ++ (List.range k).map G) m) l := by
  induction N with
  | zero => omega
  | succ N ih =>
    rw [List.range_succ, List.map_append, ← List.append_assoc, execAll_append]
    simp only [List.map_cons, List.map_nil, execAll, List.foldl_cons, List.foldl_nil]
    by_cases hkN : k = N
    · subst hkN; rfl
    · rw [exec_frame _ _ _ (fun h => hlater N (by omega) (by omega) h.symm)]
      exact ih (by omega) (fun i h1 h2 => hlater i h1 (by omega))

theorem bordersReads_spec (mA : Int → Int) (cur : Int) (as : List Int) :
    (bordersReads mA cur as).2 = as.any (fun a => mA a != cur) ∧
    ((bordersReads mA cur as).2 = true → ((bordersReads mA cur as).1.map mA).any (· != cur) = true) := by
  induction as with
  | nil => simp [bordersReads]
  | cons a rest ih =>
    unfold bordersReads
    by_cases h : (mA a != cur) = true
    · simp [h]
    · rw [if_neg h]
      simp only [Bool.not_eq_true] at h
      simp only [List.any_cons, List.map_cons, h, Bool.false_or]
      exact ih

theorem any_filterMap {α β : Type} (l : List α) (f : α → Option β) (p : β → Bool) :
    (l.filterMap f).any p = l.any (fun x => match f x with | some y => p y | none => false) := by
  induction l with
  | nil => rfl
  | cons x rest ih =>
    simp only [List.filterMap_cons, List.any_cons]
    cases h : f x with
    | none => simp [ih]
    | some y => simp [ih]

theorem any_congr_mem {α : Type} (l : List α) (p q : α → Bool) (h : ∀ x ∈ l, p x = q x) : l.any p = l.any q := by
  induction l with
  | nil => rfl
  | cons x rest ih =>
    simp only [List.any_cons]
    rw [h x (List.mem_cons_self ..), ih (fun y hy => h y (List.mem_cons_of_mem _ hy))]

theorem borders_solo_value (kcs : List KCall) (t : Nat) (md : Mode) (vA vOut vBc : C08.View) (bc : Array Int)
    (mA : Int → Int) (aA aBc aOut aFd aReg : Nat)
    (hk : kcs[t]? = some ((Kernel2.borders md vA vOut vBc bc mA).call ⟨[aA, aBc], [aOut, aFd, aReg]⟩))
    (hA1 : aA ≠ aOut) (hA2 : aA ≠ aFd) (hA3 : aA ≠ aReg) (hO1 : aOut ≠ aFd) (hO2 : aOut ≠ aReg)
    (labels : List Int) (hlen : labels.length = shapeSize vA.shape)
    (hpos : ∀ d ∈ vA.shape, 0 < d) (hAlen : vA.strides.length = vA.shape.length)
    (hoffs : ∀ d ∈ C07.footprint vBc.shape bc, d.length = vA.shape.length)
    (hAv : ∀ q, inside vA.shape q = true → mA (vA.addr (q.map Int.toNat)) = labels.getD (ravelI vA.shape q) 0)
    (m : Mem) (hm : ∀ a, m ((KLoc.mk aA a).toLoc (kcs.map (·.call))) = mA a)
    (hZ : ∀ k, k < shapeSize vA.shape → m ((KLoc.mk aOut (iterAddr vOut k)).toLoc (kcs.map (·.call))) = 0)
    (hinj : ∀ k k', k < shapeSize vA.shape → k' < shapeSize vA.shape →
        iterAddr vOut k = iterAddr vOut k' → k = k')
    (k : Nat) (hkn : k < shapeSize vA.shape) :
    solo (compile kcs) t m ((KLoc.mk aOut (iterAddr vOut k)).toLoc (kcs.map (·.call))) =
      if (C13.bordersModel md vA.shape labels (C07.footprint vBc.shape bc)).getD k false then 1 else 0 := by
  let c : Call := ⟨[aA, aBc], [aOut, aFd, aReg]⟩
  have hcne : c.outputs ≠ [] := by simp [c]
  let calls := kcs.map (·.call)
  let fp := C07.footprint vBc.shape bc
  let cs : RStep → Step := fun r => (mkStep c r).compile calls
  let N := shapeSize vA.shape
  let G : Nat → Step := fun i => cs (bordersPixel md vA vOut fp mA i)
  let l : Loc := (KLoc.mk aOut (iterAddr vOut k)).toLoc calls
  have hprog : compile kcs t = (filterCopyRaw 1 vBc).map cs ++ (List.range N).map G := by
    unfold compile
    rw [hk]
    simp only [KCall.prog, Kernel2.call, Kernel2.raw, bordersRaw, List.map_append, List.map_map]
    rfl
  have hpix : ∀ i, (G i).dst = (KLoc.mk aOut (iterAddr vOut i)).toLoc calls ∨
      (G i).dst = (KLoc.mk aReg 0).toLoc calls := by
    intro i
    simp only [G, cs, bordersPixel]
    split
    · left; rfl
    · right; rfl
  have hother : ∀ i, i ≠ k → i < N → (G i).dst ≠ l := by
    intro i hik hiN
    rcases hpix i with h | h <;> rw [h]
    · intro heq
      have := congrArg KLoc.off (KLoc.toLoc_inj calls _ _ heq)
      exact hik (hinj i k hiN hkn this)
    · exact toLoc_ne_of_arr calls _ _ (fun h => hO2 h.symm)
  have haA : aA ∉ c.outputs := by simp [c, hA1, hA2, hA3]
  show solo (compile kcs) t m l = _
  rw [solo_eq_execAll, hprog, step_solo _ G N k hkn l (fun i h1 h2 => hother i (by omega) h2) m]
  obtain ⟨M0, hM0⟩ : ∃ M0, M0 = execAll ((filterCopyRaw 1 vBc).map cs ++ (List.range k).map G) m := ⟨_, rfl⟩
  rw [← hM0]
  have hM0A : ∀ a, M0 ((KLoc.mk aA a).toLoc calls) = mA a := by
    intro a
    rw [hM0, ← hm a]
    apply execAll_frame
    intro s hs
    rcases List.mem_append.1 hs with h | h
    · obtain ⟨r, _, rfl⟩ := List.mem_map.1 h
      exact compiled_dst_ne calls c hcne r _ haA
    · obtain ⟨i, _, rfl⟩ := List.mem_map.1 h
      exact compiled_dst_ne calls c hcne _ _ haA
  have hM0l : M0 l = 0 := by
    rw [hM0, ← hZ k hkn]
    apply execAll_frame
    intro s hs
    rcases List.mem_append.1 hs with h | h
    · obtain ⟨r, hr, rfl⟩ := List.mem_map.1 h
      simp only [filterCopyRaw, List.mem_map] at hr
      obtain ⟨x, _, rfl⟩ := hr
      exact toLoc_ne_of_arr calls _ _ (by simp [mkStep, Call.arrOf, c]; exact fun h => hO1 h.symm)
    · obtain ⟨i, hi, rfl⟩ := List.mem_map.1 h
      have := List.mem_range.1 hi
      exact hother i (by omega) (by omega)
  -- the pixel itself
  let p := unravelI vA.shape k
  have hpin : inside vA.shape p = true := C01.inside_unravelI _ _ hkn
  let cur := mA (iterAddr vA k)
  have hcur : cur = labels.getD k 0 := by
    show mA (iterAddr vA k) = _
    rw [iterAddr_eq_addr vA hAlen k hkn, ← unravelI_toNat, hAv _ hpin, C01.ravelI_unravelI _ _ hkn]
  let addrs := fp.filterMap fun d => nbrAddr md vA (addPos p d)
  let r := bordersReads mA cur addrs
  have hmodel : (C13.bordersModel md vA.shape labels fp).getD k false = r.2 := by
    unfold C13.bordersModel
    rw [List.getD_eq_getElem?_getD, List.getElem?_map, List.getElem?_range (by omega)]
    simp only [Option.map_some, Option.getD_some]
    rw [(bordersReads_spec mA cur addrs).1, any_filterMap]
    apply any_congr_mem
    intro kk hkk
    cases hfix : fixPos md vA.shape (addPos (unravelI vA.shape k) kk) with
    | none => simp [nbrAddr, p, hfix]
    | some q =>
      have hqin : inside vA.shape q = true :=
        C08.fixPos_inside md vA.shape _ q hpos (by
          rw [C01.addPos_length, hoffs kk hkk, Mahotas.unravelI_length]; simp) hfix
      simp only [nbrAddr, p, hfix, Option.map_some]
      rw [hAv q hqin, hcur]
  rw [hmodel]
  by_cases hr : r.2 = true
  · rw [if_pos hr]
    have hG : G k = cs ⟨0, iterAddr vOut k, ⟨.inp 0, iterAddr vA k⟩ :: r.1.map (fun a => ⟨.inp 0, a⟩),
        fun vs => match vs with | cur :: ns => if ns.any (· != cur) then 1 else 0 | _ => 0⟩ := by
      simp only [G, bordersPixel]
      rw [if_pos hr]
      rfl
    have hd : (G k).dst = l := by rw [hG]; rfl
    have hvals : (G k).srcs.map M0.get = cur :: r.1.map mA := by
      rw [hG]
      simp only [cs, KStep.compile, mkStep, List.map_cons, List.map_map]
      congr 1
      · exact hM0A _
      · apply List.map_congr_left
        intro a _
        exact hM0A a
    have hop : (G k).op = fun vs => match vs with
        | cur :: ns => if ns.any (· != cur) then 1 else 0 | _ => 0 := by rw [hG]; rfl
    rw [← hd, exec_dst, hvals, hop]
    simp only
    rw [(bordersReads_spec mA cur addrs).2 hr]
    rfl
  · rw [if_neg hr]
    have hG : (G k).dst = (KLoc.mk aReg 0).toLoc calls := by
      simp only [G, cs, bordersPixel]
      rw [if_neg hr]
      rfl
    rw [exec_frame _ _ _ (by rw [hG]; exact toLoc_ne_of_arr calls _ _ hO2), hM0l]


end Mahotas.C12
