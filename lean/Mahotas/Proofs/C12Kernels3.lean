/-
C12 (round 4) — the majority_filter access program (`Model/C12Kernels3.lean`): roles inside the arity, and the value tie:
the solo run leaves in the output cell of every window `1` iff `count >= N*N/2`, with `count` the very
`C08.majorityCount` the C08 view model of the kernel uses.
-/
import Mahotas.Model.C12Kernels3
import Mahotas.Model.C08ViewsA
import Mahotas.Proofs.C12Kernels2
import Mahotas.Proofs.C08Kernels
namespace Mahotas.C12
open Mahotas

theorem majPixel_rolesOk (n cols : Nat) (vA vOut : C08.View) (k : Nat) :
    (majPixel n cols vA vOut k).rolesOk (1, 1) = true := by
  rw [rolesOk_iff]
  refine ⟨by simp [majPixel], ?_⟩
  intro l hl
  simp only [majPixel, List.mem_cons, List.mem_map] at hl
  rcases hl with rfl | ⟨a, _, rfl⟩ <;> simp [Role.ok]

theorem locPixel_rolesOk (isMin : Bool) (vA vOut : C08.View) (nb : List (List Int)) (k : Nat) :
    (locPixel isMin vA vOut nb k).rolesOk (2, 2) = true := by
  rw [rolesOk_iff]
  refine ⟨by simp [locPixel], ?_⟩
  intro l hl
  simp only [locPixel, List.mem_cons, List.mem_map] at hl
  rcases hl with rfl | rfl | ⟨a, _, rfl⟩ <;> simp [Role.ok]

theorem hmPixel_dst (vA vOut : C08.View) (tab : List (Int × Int)) (bshape : List Nat) (i : Nat) :
    (hmPixel vA vOut tab bshape i).dst = 0 ∧ (hmPixel vA vOut tab bshape i).doff = iterAddr vOut i := by
  unfold hmPixel; split <;> exact ⟨rfl, rfl⟩

theorem hmPixel_rolesOk (vA vOut : C08.View) (tab : List (Int × Int)) (bshape : List Nat) (i : Nat) :
    (hmPixel vA vOut tab bshape i).rolesOk (2, 1) = true := by
  rw [rolesOk_iff]
  unfold hmPixel
  split
  · refine ⟨by simp, ?_⟩
    intro l hl
    simp only [List.mem_map] at hl
    obtain ⟨e, _, rfl⟩ := hl
    simp [Role.ok]
  · exact ⟨by simp, fun l hl => by simp at hl⟩

theorem kernel3_rolesOk (k : Kernel3) : ∀ r ∈ k.raw, r.rolesOk k.arity = true := by
  cases k with
  | locminmax isMin vA vOut vBc bc =>
    intro r hr
    simp only [Kernel3.raw, locminmaxRaw, List.mem_append, List.mem_map] at hr
    rcases hr with h | ⟨k, _, rfl⟩
    · exact filterCopy_rolesOk 1 vBc (2, 2) (by simp) (by simp) r h
    · exact locPixel_rolesOk _ _ _ _ _
  | hitmiss vA vOut tab bshape =>
    intro r hr
    simp only [Kernel3.raw, hitmissRaw, List.mem_map] at hr
    obtain ⟨i, _, rfl⟩ := hr
    exact hmPixel_rolesOk _ _ _ _ _
  | majority n vA vOut =>
    intro r hr
    simp only [Kernel3.raw, majorityRaw] at hr
    split at hr
    · split at hr
      · simp at hr
      · obtain ⟨k, _, rfl⟩ := List.mem_map.1 hr
        exact majPixel_rolesOk _ _ _ _ _
    · simp at hr

theorem majIdx_inj (n cols w : Nat) (hw : w = cols - n) (hn : n ≤ cols) (k k' N : Nat) (hk : k < N * w) (hk' : k' < N * w)
    (h : majIdx n cols (k / w) (k % w) = majIdx n cols (k' / w) (k' % w)) : k = k' := by
  have hwpos : 0 < w := by
    rcases Nat.eq_zero_or_pos w with h0 | h0
    · rw [h0] at hk; simp at hk
    · exact h0
  have hx : k % w < w := Nat.mod_lt _ hwpos
  have hx' : k' % w < w := Nat.mod_lt _ hwpos
  unfold majIdx at h
  have h1 : (k / w + n / 2) * cols + (n / 2 + k % w) = (k' / w + n / 2) * cols + (n / 2 + k' % w) := by omega
  have := idx_inj cols (k / w + n / 2) (n / 2 + k % w) (k' / w + n / 2) (n / 2 + k' % w) (by omega) (by omega) h1
  have hd : k / w = k' / w := by omega
  have hm : k % w = k' % w := by omega
  rw [← Nat.div_add_mod k w, ← Nat.div_add_mod k' w, hd, hm]

theorem countP_map_ne (l : List Int) (f : Int → Val) :
    (l.map f).countP (fun v => v != 0) = (l.map fun a => f a != 0).countP id := by
  induction l with
  | nil => rfl
  | cons a t ih => simp only [List.map_cons, List.countP_cons, ih]; rfl

/-- **value tie**: after the solo run of the compiled majority program the output cell of window `k` holds `1` when at
least `n*n/2` of the window's pixels are non-zero and `0` otherwise (the output starts zero-filled) -/
theorem majority_solo_value (kcs : List KCall) (t : Nat) (n rows cols : Nat) (vA vOut : C08.View) (aA aOut : Nat)
    (hsh : vA.shape = [rows, cols]) (hr : n ≤ rows) (hc : n ≤ cols)
    (hk : kcs[t]? = some ((Kernel3.majority n vA vOut).call ⟨[aA], [aOut]⟩))
    (hne : aA ≠ aOut) (mA : Int → Int) (m : Mem)
    (hA : ∀ a, m ((KLoc.mk aA a).toLoc (kcs.map (·.call))) = mA a)
    (hZ : ∀ a, m ((KLoc.mk aOut a).toLoc (kcs.map (·.call))) = 0)
    (k : Nat) (hkn : k < (rows - n) * (cols - n)) :
    solo (compile kcs) t m
        ((KLoc.mk aOut (vOut.base + ((majIdx n cols (k / (cols - n)) (k % (cols - n)) : Nat) : Int))).toLoc
          (kcs.map (·.call))) =
      if C08.majorityCount n (fun y x => mA (vA.at [y, x]) != 0) (k / (cols - n)) (k % (cols - n)) ≥ n * n / 2
      then 1 else 0 := by
  let c : Call := ⟨[aA], [aOut]⟩
  have hcne : c.outputs ≠ [] := by simp [c]
  let calls := kcs.map (·.call)
  let G : Nat → Step := fun k => (mkStep c (majPixel n cols vA vOut k)).compile calls
  have hraw : (Kernel3.majority n vA vOut).call c =
      ⟨c, [] ++ (List.range ((rows - n) * (cols - n))).map (majPixel n cols vA vOut)⟩ := by
    simp only [Kernel3.call, Kernel3.raw, majorityRaw, hsh, List.nil_append]
    have : ¬ ((rows < n || cols < n) = true) := by simp; omega
    simp only [this, if_false]
    rfl
  have hprog := compile_gather kcs t c [] (majPixel n cols vA vOut) ((rows - n) * (cols - n)) (hraw ▸ hk)
  have hdst : ∀ k, (G k).dst =
      (KLoc.mk aOut (vOut.base + ((majIdx n cols (k / (cols - n)) (k % (cols - n)) : Nat) : Int))).toLoc calls :=
    fun k => rfl
  rw [solo_eq_execAll, hprog, ← hdst k]
  rw [gather_solo _ G _ (fun a b ha hb hab => by
      rw [hdst a, hdst b] at hab
      have := KLoc.toLoc_inj calls _ _ hab
      have h2 : majIdx n cols (a / (cols - n)) (a % (cols - n)) = majIdx n cols (b / (cols - n)) (b % (cols - n)) := by
        have := congrArg KLoc.off this
        simp only at this
        omega
      exact majIdx_inj n cols (cols - n) rfl hc a b (rows - n) ha hb h2) m k hkn]
  -- memory before step `k`: the input array is untouched, and so is the output cell of window `k`
  obtain ⟨M, hM⟩ : ∃ M, M = execAll (([] : List RStep).map (fun r => (mkStep c r).compile calls) ++
        (List.range k).map G) m := ⟨_, rfl⟩
  have hreadA : ∀ a, M ((KLoc.mk aA a).toLoc calls) = mA a := by
    intro a
    rw [hM, execAll_frame, hA a]
    intro s hs
    rcases List.mem_append.1 hs with h | h
    · simp at h
    · obtain ⟨j, _, rfl⟩ := List.mem_map.1 h
      exact compiled_dst_ne calls c hcne _ ⟨aA, a⟩ (by simp [c, hne])
  have hreadO : M ((G k).dst) = 0 := by
    rw [hM, execAll_frame, hdst k, hZ]
    intro s hs
    rcases List.mem_append.1 hs with h | h
    · simp at h
    · obtain ⟨j, hj, rfl⟩ := List.mem_map.1 h
      intro heq
      have hj' : j < k := List.mem_range.1 hj
      rw [hdst j, hdst k] at heq
      have := KLoc.toLoc_inj calls _ _ heq
      have h2 : majIdx n cols (j / (cols - n)) (j % (cols - n)) = majIdx n cols (k / (cols - n)) (k % (cols - n)) := by
        have := congrArg KLoc.off this
        simp only at this
        omega
      have := majIdx_inj n cols (cols - n) rfl hc j k (rows - n) (by omega) hkn h2
      omega
  rw [← hM]
  have hsrcs : (G k).srcs.map M.get =
      M ((G k).dst) :: (majWindow n vA (k / (cols - n)) (k % (cols - n))).map
        (fun a => M ((KLoc.mk aA a).toLoc calls)) := by
    simp only [G, KStep.compile, mkStep, majPixel, List.map_cons, List.map_map]
    rfl
  rw [hsrcs, hreadO]
  show majVal n (0 :: _) = _
  simp only [majVal]
  have hcount : ((majWindow n vA (k / (cols - n)) (k % (cols - n))).map
        (fun a => M ((KLoc.mk aA a).toLoc calls))).countP (fun v => v != 0) =
      C08.majorityCount n (fun y x => mA (vA.at [y, x]) != 0) (k / (cols - n)) (k % (cols - n)) := by
    rw [countP_map_ne]
    unfold C08.majorityCount majWindow
    congr 1
    simp only [List.map_flatMap, List.map_map, Function.comp_def, hreadA]
  rw [hcount]

/-- **value tie: locmin_max** — the solo run leaves `1` in the result cell of pixel `k` iff `C14.locAt` holds there -/
theorem locminmax_solo_value (kcs : List KCall) (t : Nat) (isMin : Bool) (vA vOut vBc : C08.View) (bc : Array Int)
    (aA aBc aOut aFd : Nat)
    (hk : kcs[t]? = some ((Kernel3.locminmax isMin vA vOut vBc bc).call ⟨[aA, aBc], [aOut, aFd]⟩))
    (hne1 : aA ≠ aOut) (hne2 : aA ≠ aFd) (hne3 : aOut ≠ aFd)
    (A : Img Int) (hshape : A.shape = vA.shape) (hpos : ∀ d ∈ vA.shape, 0 < d) (m : Mem)
    (hA : ∀ q q', fixPos .nearest vA.shape q = some q' →
        m ((KLoc.mk aA (vA.addr (q'.map Int.toNat))).toLoc (kcs.map (·.call))) = A.getD q' 0)
    (hC : ∀ k, k < shapeSize vA.shape →
        m ((KLoc.mk aA (iterAddr vA k)).toLoc (kcs.map (·.call))) = A.getD (unravelI vA.shape k) 0)
    (hZ : ∀ a, m ((KLoc.mk aOut a).toLoc (kcs.map (·.call))) = 0)
    (hinj : ∀ k k', k < shapeSize vA.shape → k' < shapeSize vA.shape →
        iterAddr vOut k = iterAddr vOut k' → k = k')
    (k : Nat) (hkn : k < shapeSize vA.shape) :
    solo (compile kcs) t m ((KLoc.mk aOut (iterAddr vOut k)).toLoc (kcs.map (·.call))) =
      if C14.locAt isMin A (C14.neighbours vBc.shape bc) (unravelI vA.shape k) then 1 else 0 := by
  let c : Call := ⟨[aA, aBc], [aOut, aFd]⟩
  have hcne : c.outputs ≠ [] := by simp [c]
  let calls := kcs.map (·.call)
  let nb := C14.neighbours vBc.shape bc
  let G : Nat → Step := fun k => (mkStep c (locPixel isMin vA vOut nb k)).compile calls
  have hprog := compile_gather kcs t c (filterCopyRaw 1 vBc) (locPixel isMin vA vOut nb) (shapeSize vA.shape) hk
  have hdst : ∀ k, (G k).dst = (KLoc.mk aOut (iterAddr vOut k)).toLoc calls := fun k => rfl
  have hGinj : ∀ a b, a < shapeSize vA.shape → b < shapeSize vA.shape → (G a).dst = (G b).dst → a = b := by
    intro a b ha hb hab
    rw [hdst a, hdst b] at hab
    have := KLoc.toLoc_inj calls _ _ hab
    exact hinj a b ha hb (by simpa using this)
  rw [solo_eq_execAll, hprog, ← hdst k]
  rw [gather_solo _ G _ hGinj m k hkn]
  obtain ⟨M, hM⟩ : ∃ M, M = execAll ((filterCopyRaw 1 vBc).map (fun r => (mkStep c r).compile calls) ++
        (List.range k).map G) m := ⟨_, rfl⟩
  -- the input array still holds the initial memory
  have hread : ∀ l : KLoc, l.arr = aA → M (l.toLoc calls) = m (l.toLoc calls) := by
    intro l hl
    rw [hM]
    apply execAll_frame
    intro s hs
    have hout : l.arr ∉ c.outputs := by simp [c, hl, hne1, hne2]
    rcases List.mem_append.1 hs with h | h
    · obtain ⟨r, _, rfl⟩ := List.mem_map.1 h
      exact compiled_dst_ne calls c hcne r l hout
    · obtain ⟨j, _, rfl⟩ := List.mem_map.1 h
      exact compiled_dst_ne calls c hcne _ l hout
  -- the result cell of pixel `k` has not been written yet: the filter copy writes `own 1`, earlier pixels other cells
  have hreadO : M ((G k).dst) = 0 := by
    rw [hM, execAll_frame, hdst k, hZ]
    intro s hs
    rcases List.mem_append.1 hs with h | h
    · obtain ⟨r, hr, rfl⟩ := List.mem_map.1 h
      have hro := filterCopy_rolesOk 1 vBc (2, 2) (by simp) (by simp) r hr
      intro heq
      rw [hdst k] at heq
      have := congrArg KLoc.arr (KLoc.toLoc_inj calls _ _ heq)
      simp only [filterCopyRaw, List.mem_map] at hr
      obtain ⟨j, _, rfl⟩ := hr
      simp [mkStep, Call.arrOf, c] at this
      exact hne3 this.symm
    · obtain ⟨j, hj, rfl⟩ := List.mem_map.1 h
      intro heq
      have hj' : j < k := List.mem_range.1 hj
      have := hGinj j k (by omega) hkn heq
      omega
  rw [← hM]
  have hsrcs : (G k).srcs.map M.get =
      M ((G k).dst) :: A.getD (unravelI vA.shape k) 0 ::
        nb.map (fun d => C01.readNearest A (addPos (unravelI vA.shape k) d)) := by
    simp only [G, KStep.compile, mkStep, locPixel, List.map_cons, List.map_map]
    congr 1
    congr 1
    · rw [show (c.arrOf (.inp 0)) = aA from rfl, hread ⟨aA, _⟩ rfl]
      exact hC k hkn
    · apply List.map_congr_left
      intro d _
      simp only [Function.comp]
      have hfix := C01.fixPos_nearest vA.shape (addPos (unravelI vA.shape k) d) hpos
      rw [show (c.arrOf (.inp 0)) = aA from rfl, hread ⟨aA, _⟩ rfl]
      simp only [nbrAddr, hfix, Option.map_some, Option.getD_some]
      rw [hA _ _ hfix]
      unfold C01.readNearest
      rw [hshape, hfix]
  rw [hsrcs, hreadO]
  have hop : (G k).op = locVal isMin := rfl
  rw [hop]
  simp only [locVal, C14.locAt, List.all_map, Function.comp_def]
  rfl

theorem all_zip_map (tab : List (Int × Int)) (f : Int → Int) :
    ((tab.map (·.2)).zip (tab.map fun e => f e.1)).all (fun p => p.2 == p.1) = tab.all (fun e => f e.1 == e.2) := by
  induction tab with
  | nil => rfl
  | cons e t ih => simp only [List.map_cons, List.zip_cons_cons, List.all_cons, ih]

theorem hitmiss_solo_value (kcs : List KCall) (t : Nat) (vA vOut : C08.View) (tab : List (Int × Int)) (bshape : List Nat)
    (aA aBc aOut : Nat)
    (hk : kcs[t]? = some ((Kernel3.hitmiss vA vOut tab bshape).call ⟨[aA, aBc], [aOut]⟩))
    (hne : aA ≠ aOut) (mA : Int → Int) (m : Mem)
    (hA : ∀ a, m ((KLoc.mk aA a).toLoc (kcs.map (·.call))) = mA a)
    (hinj : ∀ k k', k < shapeSize vA.shape → k' < shapeSize vA.shape →
        iterAddr vOut k = iterAddr vOut k' → k = k')
    (k : Nat) (hkn : k < shapeSize vA.shape) :
    solo (compile kcs) t m ((KLoc.mk aOut (iterAddr vOut k)).toLoc (kcs.map (·.call))) =
      if C14.hmEvaluated vA.shape bshape (vA.flatToPos (k : Int)) then
        (if tab.all (fun e => C08.readAtFlat mA vA ((k : Int) + e.1).toNat == e.2) then 1 else 0)
      else 0 := by
  let c : Call := ⟨[aA, aBc], [aOut]⟩
  have hcne : c.outputs ≠ [] := by simp [c]
  let calls := kcs.map (·.call)
  let G : Nat → Step := fun k => (mkStep c (hmPixel vA vOut tab bshape k)).compile calls
  have hprog := compile_gather kcs t c [] (hmPixel vA vOut tab bshape) (shapeSize vA.shape)
    (by rw [hk]; simp [Kernel3.call, Kernel3.raw, hitmissRaw, c])
  have hdst : ∀ k, (G k).dst = (KLoc.mk aOut (iterAddr vOut k)).toLoc calls := by
    intro k
    have := hmPixel_dst vA vOut tab bshape k
    simp only [G, KStep.compile, mkStep, this.1, this.2]
    rfl
  rw [solo_eq_execAll, hprog, ← hdst k]
  rw [gather_solo _ G _ (fun a b ha hb hab => by
      rw [hdst a, hdst b] at hab
      have := KLoc.toLoc_inj calls _ _ hab
      exact hinj a b ha hb (by simpa using this)) m k hkn]
  obtain ⟨M, hM⟩ : ∃ M, M = execAll (([] : List RStep).map (fun r => (mkStep c r).compile calls) ++
        (List.range k).map G) m := ⟨_, rfl⟩
  have hreadA : ∀ a, M ((KLoc.mk aA a).toLoc calls) = mA a := by
    intro a
    rw [hM, execAll_frame, hA a]
    intro s hs
    rcases List.mem_append.1 hs with h | h
    · simp at h
    · obtain ⟨j, _, rfl⟩ := List.mem_map.1 h
      exact compiled_dst_ne calls c hcne _ ⟨aA, a⟩ (by simp [c, hne])
  rw [← hM]
  by_cases hev : C14.hmEvaluated vA.shape bshape (vA.flatToPos (k : Int)) = true
  · have hG : (G k).op = hmVal (tab.map (·.2)) ∧ (G k).srcs.map M.get =
        tab.map (fun e => M ((KLoc.mk aA (vA.atFlat ((k : Int) + e.1).toNat)).toLoc calls)) := by
      constructor
      · simp only [G, KStep.compile, mkStep, hmPixel, hev, if_true]
      · simp only [G, KStep.compile, mkStep, hmPixel, hev, if_true, List.map_map]
        rfl
    rw [hG.1, hG.2]
    simp only [hev, if_true, hmVal, hreadA]
    rw [all_zip_map tab (fun d => mA (vA.atFlat ((k : Int) + d).toNat))]
    rfl
  · have hG : (G k).op = (fun _ => 0) := by
      simp only [G, KStep.compile, mkStep, hmPixel, hev]
      rfl
    rw [hG]
    simp [hev]


end Mahotas.C12
