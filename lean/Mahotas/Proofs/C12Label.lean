/-
C12 (T4, round 3) — value tie of the `label` step program: the solo run of the compiled program leaves
`C03.labelModel` in the call's `labeled` buffer.

The program (`labelRaw`) is generated along the run of the union-find model (the addresses are data
dependent), but every value stored is computed by the step from the values it reads.  The proof is a
simulation: the memory of array `own 0` *presents* the model's parent array after every block of steps
(`find`, `join`, one neighbour, one pixel, the compression loop), the register holds `find`'s return value,
and the renumbering loop is simulated against `C03.renumGo` with the `seen` map presented by array `own 3`.
-/
import Mahotas.Proofs.C12Kernels
namespace Mahotas.C12
open Mahotas

/-! ## running role-level steps -/

/-- location of element `off` of array `a` -/
def L (calls : List Call) (a : Nat) (off : Int) : Loc := (KLoc.mk a off).toLoc calls

theorem L_inj (calls : List Call) (a a' : Nat) (o o' : Int) (h : L calls a o = L calls a' o') :
    a = a' ∧ o = o' := by
  have := KLoc.toLoc_inj calls _ _ h
  simpa using this

theorem L_ne_arr (calls : List Call) (a a' : Nat) (o o' : Int) (h : a ≠ a') : L calls a o ≠ L calls a' o' :=
  fun heq => h (L_inj calls a a' o o' heq).1

theorem L_ne_off (calls : List Call) (a a' : Nat) (o o' : Int) (h : o ≠ o') : L calls a o ≠ L calls a' o' :=
  fun heq => h (L_inj calls a a' o o' heq).2

/-- run the compiled form of a list of role-level steps of call `c` -/
def runR (calls : List Call) (c : Call) (steps : List RStep) (M : Mem) : Mem :=
  execAll (steps.map fun r => (mkStep c r).compile calls) M

theorem runR_nil (calls : List Call) (c : Call) (M : Mem) : runR calls c [] M = M := rfl

theorem runR_cons (calls : List Call) (c : Call) (r : RStep) (rs : List RStep) (M : Mem) :
    runR calls c (r :: rs) M = runR calls c rs (((mkStep c r).compile calls).exec M) := rfl

theorem runR_append (calls : List Call) (c : Call) (a b : List RStep) (M : Mem) :
    runR calls c (a ++ b) M = runR calls c b (runR calls c a M) := by
  simp [runR, List.map_append, execAll_append]

/-- executing one compiled role-level step -/
theorem exec_mkStep (calls : List Call) (c : Call) (r : RStep) (M : Mem) :
    ((mkStep c r).compile calls).exec M =
      M.set (L calls (c.arrOf (.own r.dst)) r.doff)
        (r.op (r.srcs.map fun l => M (L calls (c.arrOf l.role) l.off))) := by
  simp [Step.exec, KStep.compile, mkStep, L, List.map_map, Function.comp_def]

/-- steps that never write array `a` leave it unchanged -/
theorem runR_frame (calls : List Call) (c : Call) (steps : List RStep) (M : Mem) (a : Nat) (off : Int)
    (h : ∀ r ∈ steps, c.arrOf (.own r.dst) ≠ a) : runR calls c steps M (L calls a off) = M (L calls a off) := by
  apply execAll_frame
  intro s hs
  obtain ⟨r, hr, rfl⟩ := List.mem_map.1 hs
  exact L_ne_arr calls _ _ _ _ (h r hr)

/-- simulation along `logFold`: an invariant between memory and model state kept by every block is kept
by the whole log, and the model state is the fold -/
theorem logFold_sim {σ ι : Type} (calls : List Call) (c : Call) (Inv : Mem → σ → Prop) (f : σ → ι → σ)
    (lg : σ → ι → List RStep) (P : ι → Prop)
    (h : ∀ M s x, P x → Inv M s → Inv (runR calls c (lg s x) M) (f s x)) :
    ∀ (xs : List ι) (M : Mem) (s : σ), (∀ x ∈ xs, P x) → Inv M s →
      Inv (runR calls c (logFold f lg s xs) M) (xs.foldl f s) := by
  intro xs
  induction xs with
  | nil => intro M s _ hi; exact hi
  | cons x xs ih =>
    intro M s hP hi
    simp only [logFold, runR_append, List.foldl_cons]
    exact ih _ _ (fun y hy => hP y (by simp [hy])) (h M s x (hP x (by simp)) hi)

/-! ## arrays -/

theorem getD_setIfInBounds (par : Array Int) (i j : Nat) (v d : Int) :
    (par.setIfInBounds i v).getD j d = if j = i ∧ i < par.size then v else par.getD j d := by
  simp only [Array.getD_eq_getD_getElem?, Array.getElem?_setIfInBounds]
  by_cases h : i = j
  · subst h
    by_cases h2 : i < par.size
    · simp [h2]
    · simp [h2]
  · have h' : ¬ j = i := fun e => h e.symm
    simp [h, h']

section label
variable (calls : List Call) (aBc aL aF aReg aSeen : Nat)

/-- the footprint of a `label` call: argument `Bc`; owned `labeled`, filter copy, registers, `seen` -/
abbrev lcall : Call := ⟨[aBc], [aL, aF, aReg, aSeen]⟩

/-- array `aL` holds the parent array -/
def Presents (n : Nat) (M : Mem) (par : Array Int) : Prop :=
  ∀ j, j < n → M (L calls aL (j : Int)) = par.getD j (-1)

/-- every entry is `-1` or an index below `n` -/
def WF (n : Nat) (par : Array Int) : Prop :=
  par.size = n ∧ ∀ j, j < n → par.getD j (-1) = -1 ∨ (0 ≤ par.getD j (-1) ∧ par.getD j (-1) < (n : Int))

theorem WF_set (n : Nat) (par : Array Int) (i r : Nat) (h : WF n par) (hr : r < n) :
    WF n (par.setIfInBounds i (r : Int)) := by
  refine ⟨by simp [h.1], ?_⟩
  intro j hj
  rw [getD_setIfInBounds]
  by_cases hc : j = i ∧ i < par.size
  · rw [if_pos hc]; right; omega
  · rw [if_neg hc]; exact h.2 j hj

theorem Presents_set (n : Nat) (M : Mem) (par : Array Int) (i : Nat) (v : Int) (hw : par.size = n) (hi : i < n)
    (h : Presents calls aL n M par) :
    Presents calls aL n (M.set (L calls aL (i : Int)) v) (par.setIfInBounds i v) := by
  intro j hj
  rw [getD_setIfInBounds, Mem.set_apply]
  by_cases hji : j = i
  · subst hji
    simp [hw, hj]
  · have hne : L calls aL (j : Int) ≠ L calls aL (i : Int) :=
      L_ne_off calls _ _ _ _ (by omega)
    rw [if_neg hne, if_neg (fun hc => hji hc.1)]
    exact h j hj

theorem Presents_other (n : Nat) (M : Mem) (par : Array Int) (a : Nat) (off : Int) (v : Int) (ha : a ≠ aL)
    (h : Presents calls aL n M par) : Presents calls aL n (M.set (L calls a off) v) par := by
  intro j hj
  rw [Mem.set_apply, if_neg (L_ne_arr calls _ _ _ _ (Ne.symm ha))]
  exact h j hj

/-! ### single steps of the label program -/

theorem exec_rdS (M : Mem) (i : Int) :
    ((mkStep (lcall aBc aL aF aReg aSeen) (rdS 2 0 i)).compile calls).exec M =
      M.set (L calls aReg 0) (M (L calls aL i)) := rfl

theorem exec_stS (M : Mem) (i : Int) :
    ((mkStep (lcall aBc aL aF aReg aSeen) (stS 0 i)).compile calls).exec M =
      M.set (L calls aL i) (M (L calls aReg 0)) := rfl

/-! ### `find` -/

/-- **simulation of `find`**: from a memory presenting `par`, the steps of `findLog fuel par i` lead to a
memory presenting `(C03.find fuel par i).1` with the root in the register -/
theorem find_sim (hLR : aL ≠ aReg) (n : Nat) : ∀ (fuel : Nat) (par : Array Int) (i : Nat) (M : Mem),
    WF n par → i < n → Presents calls aL n M par →
    Presents calls aL n (runR calls (lcall aBc aL aF aReg aSeen) (findLog fuel par i) M) (C03.find fuel par i).1 ∧
    runR calls (lcall aBc aL aF aReg aSeen) (findLog fuel par i) M (L calls aReg 0) = ((C03.find fuel par i).2 : Int) ∧
    WF n (C03.find fuel par i).1 ∧ (C03.find fuel par i).2 < n := by
  intro fuel
  induction fuel with
  | zero =>
    intro par i M hw hi hp
    simp only [findLog, C03.find, runR_cons, runR_nil, exec_mkStep]
    refine ⟨Presents_other calls aL n M par _ _ _ (Ne.symm hLR) hp, ?_, hw, hi⟩
    simp [Mem.set_apply, Call.arrOf]
  | succ fuel ih =>
    intro par i M hw hi hp
    unfold findLog C03.find
    by_cases hpi : par.getD i (-1) = (i : Int)
    · simp only [hpi, if_true, runR_cons, runR_nil, exec_rdS]
      refine ⟨Presents_other calls aL n M par _ _ _ (Ne.symm hLR) hp, ?_, hw, hi⟩
      rw [set_same, hp i hi, hpi]
    · simp only [hpi, if_false, runR_cons, runR_append, runR_nil, exec_rdS, exec_stS]
      have hpn : (par.getD i (-1)).toNat < n := by
        rcases hw.2 i hi with h | h
        · rw [h]; simp; omega
        · omega
      have hp1 : Presents calls aL n (M.set (L calls aReg 0) (M (L calls aL (i : Int)))) par :=
        Presents_other calls aL n M par _ _ _ (Ne.symm hLR) hp
      obtain ⟨h1, h2, h3, h4⟩ := ih par (par.getD i (-1)).toNat _ hw hpn hp1
      rw [h2]
      refine ⟨Presents_set calls aL n _ _ i _ h3.1 hi h1, ?_, WF_set n _ i _ h3 h4, h4⟩
      rw [set_other _ _ _ _ (L_ne_arr calls _ _ _ _ (Ne.symm hLR))]
      exact h2

/-! ### `join`, one neighbour, one pixel, the compression loop -/

/-- the invariant between the memory and the model's parent array -/
def PInv (n : Nat) (M : Mem) (par : Array Int) : Prop := Presents calls aL n M par ∧ WF n par

theorem join_sim (hLR : aL ≠ aReg) (n fuel : Nat) (par : Array Int) (i j : Nat) (M : Mem)
    (hi : i < n) (hj : j < n) (h : PInv calls aL n M par) :
    PInv calls aL n (runR calls (lcall aBc aL aF aReg aSeen) (joinLog fuel par i j) M) (C03.join fuel par i j) := by
  obtain ⟨hp, hw⟩ := h
  simp only [joinLog, C03.join, runR_append, runR_cons, runR_nil, exec_stS]
  obtain ⟨a1, _, a3, a4⟩ := find_sim calls aBc aL aF aReg aSeen hLR n fuel par i M hw hi hp
  obtain ⟨b1, b2, b3, b4⟩ := find_sim calls aBc aL aF aReg aSeen hLR n fuel _ j _ a3 hj a1
  rw [b2]
  exact ⟨Presents_set calls aL n _ _ _ _ b3.1 a4 b1, WF_set n _ _ _ b3 b4⟩

theorem rd_inv (hLR : aL ≠ aReg) (n : Nat) (par : Array Int) (M : Mem) (x : Int)
    (h : PInv calls aL n M par) :
    PInv calls aL n (((mkStep (lcall aBc aL aF aReg aSeen) (rdS 2 0 x)).compile calls).exec M) par := by
  rw [exec_rdS]
  exact ⟨Presents_other calls aL n M par _ _ _ (Ne.symm hLR) h.1, h.2⟩

theorem getD_toNat_lt (n : Nat) (par : Array Int) (hw : WF n par) (nb : Nat)
    (hv : par.getD nb (-1) ≠ -1) : (par.getD nb (-1)).toNat < n := by
  by_cases hnb : nb < n
  · rcases hw.2 nb hnb with h | h
    · exact absurd h hv
    · omega
  · exfalso
    apply hv
    simp [Array.getD_eq_getD_getElem?, hw.1, Nat.le_of_not_lt hnb]

theorem scanPixel_sim (hLR : aL ≠ aReg) (n fuel : Nat) (m : Mode) (shape : List Nat) (offs : List (List Int))
    (M : Mem) (par : Array Int) (i : Nat) (hi : i < n) (h : PInv calls aL n M par) :
    PInv calls aL n (runR calls (lcall aBc aL aF aReg aSeen) (scanPixelLog m shape offs fuel par i) M)
      (C03.scanPixel m shape offs fuel par i) := by
  unfold scanPixelLog C03.scanPixel
  rw [runR_cons]
  have h1 := rd_inv calls aBc aL aF aReg aSeen hLR n par M (i : Int) h
  by_cases hbg : par.getD i (-1) = -1
  · simp only [hbg, if_true, runR_nil]
    exact h1
  · simp only [hbg, if_false]
    have key := logFold_sim calls (lcall aBc aL aF aReg aSeen) (PInv calls aL n) (scanNbStep fuel i)
      (fun par nb => rdS 2 0 nb ::
        (let v := par.getD nb (-1); if v = -1 then [] else joinLog fuel par i v.toNat))
      (fun _ => True) (by
        intro M' s nb _ hinv
        rw [runR_cons]
        have h2 := rd_inv calls aBc aL aF aReg aSeen hLR n s M' (nb : Int) hinv
        unfold scanNbStep
        by_cases hv : s.getD nb (-1) = -1
        · simp only [hv, if_true, runR_nil]
          exact h2
        · simp only [hv, if_false]
          exact join_sim calls aBc aL aF aReg aSeen hLR n fuel s i _ _ hi
            (getD_toNat_lt n s hinv.2 nb hv) h2)
      (C03.neighbours m shape offs (unravelI shape i)) _ par (fun _ _ => trivial) h1
    exact key

theorem compress_sim (hLR : aL ≠ aReg) (n fuel : Nat) (M : Mem) (par : Array Int) (i : Nat) (hi : i < n)
    (h : PInv calls aL n M par) :
    PInv calls aL n (runR calls (lcall aBc aL aF aReg aSeen) (compressLog fuel par i) M) (compressStep fuel par i) := by
  unfold compressLog compressStep
  rw [runR_cons]
  have h1 := rd_inv calls aBc aL aF aReg aSeen hLR n par M (i : Int) h
  by_cases hbg : par.getD i (-1) = -1
  · simp only [hbg, if_true, runR_nil]
    exact h1
  · simp only [hbg, if_false, C03.compress]
    obtain ⟨a1, _, a3, _⟩ := find_sim calls aBc aL aF aReg aSeen hLR n fuel par i _ h1.2 hi h1.1
    exact ⟨a1, a3⟩

/-! ### initialisation `data[i] = (data[i] ? i : -1)` -/

theorem initParents_getD (data : List Int) (j : Nat) (hj : j < data.length) :
    (C03.initParents data).getD j (-1) = if data.getD j 0 ≠ 0 then (j : Int) else -1 := by
  simp [C03.initParents, Array.getD_eq_getD_getElem?, hj]

theorem initParents_WF (data : List Int) : WF data.length (C03.initParents data) := by
  refine ⟨by simp [C03.initParents], ?_⟩
  intro j hj
  rw [initParents_getD data j hj]
  by_cases h : data.getD j 0 ≠ 0
  · rw [if_pos h]; right; omega
  · rw [if_neg h]; left; rfl

def initStep (i : Nat) : RStep :=
  ⟨0, (i : Int), [⟨.own 0, (i : Int)⟩], fun vs => if vs.headD 0 ≠ 0 then (i : Int) else -1⟩

theorem init_sim (data : List Int) (M : Mem)
    (hM : ∀ j, j < data.length → M (L calls aL (j : Int)) = data.getD j 0) :
    ∀ k, k ≤ data.length →
      (∀ j, j < k → runR calls (lcall aBc aL aF aReg aSeen) ((List.range k).map initStep) M (L calls aL (j : Int)) =
        (C03.initParents data).getD j (-1)) ∧
      (∀ j, k ≤ j → runR calls (lcall aBc aL aF aReg aSeen) ((List.range k).map initStep) M (L calls aL (j : Int)) =
        M (L calls aL (j : Int))) := by
  intro k
  induction k with
  | zero => intro _; exact ⟨fun j hj => absurd hj (Nat.not_lt_zero j), fun j _ => rfl⟩
  | succ k ih =>
    intro hk
    obtain ⟨ih1, ih2⟩ := ih (by omega)
    rw [List.range_succ, List.map_append, runR_append]
    simp only [List.map_cons, List.map_nil, runR_cons, runR_nil]
    have hex : ∀ M' : Mem, ((mkStep (lcall aBc aL aF aReg aSeen) (initStep k)).compile calls).exec M' =
        M'.set (L calls aL (k : Int)) (if M' (L calls aL (k : Int)) ≠ 0 then (k : Int) else -1) := fun _ => rfl
    rw [hex]
    refine ⟨?_, ?_⟩
    · intro j hj
      by_cases hjk : j = k
      · subst hjk
        rw [set_same, ih2 j (Nat.le_refl j), hM j (by omega), initParents_getD data j (by omega)]
      · rw [set_other _ _ _ _ (L_ne_off calls _ _ _ _ (by omega))]
        exact ih1 j (by omega)
    · intro j hj
      rw [set_other _ _ _ _ (L_ne_off calls _ _ _ _ (by omega))]
      exact ih2 j (by omega)

/-! ### the renumbering loop -/

/-- **simulation of `renumGo`** from position `i` on: array `aL` holds the values still to be renumbered,
array `aSeen` presents the association list, register 1 holds `next` -/
theorem renum_sim (hLR : aL ≠ aReg) (hLS : aL ≠ aSeen) (hRS : aReg ≠ aSeen) :
    ∀ (vs : List Int) (seen : List (Int × Int)) (next : Int) (i : Nat) (M : Mem),
    (∀ j, j < vs.length → M (L calls aL ((i + j : Nat) : Int)) = vs.getD j 0) →
    (∀ k l, seen.lookup k = some l → M (L calls aSeen k) = l) →
    M (L calls aReg 1) = next →
    let M' := runR calls (lcall aBc aL aF aReg aSeen) (renumLog seen next i vs) M
    (∀ j, j < vs.length → M' (L calls aL ((i + j : Nat) : Int)) = (C03.renumGo seen next vs).1.getD j 0) ∧
    (∀ j, j < i → M' (L calls aL (j : Int)) = M (L calls aL (j : Int))) ∧
    M' (L calls aReg 1) = (C03.renumGo seen next vs).2 + 1 := by
  intro vs
  induction vs with
  | nil =>
    intro seen next i M _ _ h3
    intro M'
    refine ⟨fun j hj => absurd hj (Nat.not_lt_zero j), fun _ _ => rfl, ?_⟩
    show M (L calls aReg 1) = (next - 1) + 1
    rw [h3]; exact (Int.sub_add_cancel next 1).symm
  | cons v vs ih =>
    intro seen next i M h1 h2 h3
    have hv : M (L calls aL (i : Int)) = v := by
      have := h1 0 (by simp)
      simpa using this
    simp only [renumLog, runR_cons, exec_rdS]
    -- the load only changes register 0
    have hM1 : ∀ (a : Nat) (off : Int), (a ≠ aReg ∨ off ≠ 0) →
        (M.set (L calls aReg 0) (M (L calls aL (i : Int)))) (L calls a off) = M (L calls a off) := by
      intro a off h
      apply set_other
      rcases h with h | h
      · exact L_ne_arr calls _ _ _ _ h
      · exact L_ne_off calls _ _ _ _ h
    generalize hM1def : M.set (L calls aReg 0) (M (L calls aL (i : Int))) = M1 at hM1
    cases hl : seen.lookup v with
    | some l =>
      simp only [runR_cons]
      have hex : ((mkStep (lcall aBc aL aF aReg aSeen)
          (⟨0, (i : Int), [⟨.own 3, v⟩], fun xs => xs.headD 0⟩ : RStep)).compile calls).exec M1 =
          M1.set (L calls aL (i : Int)) (M1 (L calls aSeen v)) := rfl
      rw [hex, hM1 aSeen v (Or.inl (Ne.symm hRS)), h2 v l hl]
      obtain ⟨c1, c2, c3⟩ := ih seen next (i + 1) (M1.set (L calls aL (i : Int)) l)
        (by
          intro j hj
          rw [set_other _ _ _ _ (L_ne_off calls _ _ _ _ (by omega)), hM1 aL _ (Or.inl hLR)]
          have := h1 (j + 1) (by simp; omega)
          rw [show i + (j + 1) = i + 1 + j by omega] at this
          simpa using this)
        (by
          intro k l' hk
          rw [set_other _ _ _ _ (L_ne_arr calls _ _ _ _ (Ne.symm hLS)), hM1 aSeen k (Or.inl (Ne.symm hRS))]
          exact h2 k l' hk)
        (by
          rw [set_other _ _ _ _ (L_ne_arr calls _ _ _ _ (Ne.symm hLR)), hM1 aReg 1 (Or.inr (by decide))]
          exact h3)
      simp only [C03.renumGo, hl]
      refine ⟨?_, ?_, c3⟩
      · intro j hj
        cases j with
        | zero =>
          simp only [Nat.add_zero]
          rw [c2 i (by omega), set_same]
          rfl
        | succ j =>
          have := c1 j (by simp at hj; omega)
          rw [show i + 1 + j = i + (j + 1) by omega] at this
          rw [this]
          simp
      · intro j hj
        rw [c2 j (by omega), set_other _ _ _ _ (L_ne_off calls _ _ _ _ (by omega)), hM1 aL _ (Or.inl hLR)]
    | none =>
      simp only [List.cons_append, List.nil_append, runR_cons]
      have hex1 : ∀ M' : Mem, ((mkStep (lcall aBc aL aF aReg aSeen)
          (⟨0, (i : Int), [⟨.own 2, 1⟩], fun xs => xs.headD 0⟩ : RStep)).compile calls).exec M' =
          M'.set (L calls aL (i : Int)) (M' (L calls aReg 1)) := fun _ => rfl
      have hex2 : ∀ M' : Mem, ((mkStep (lcall aBc aL aF aReg aSeen)
          (⟨3, v, [⟨.own 2, 1⟩], fun xs => xs.headD 0⟩ : RStep)).compile calls).exec M' =
          M'.set (L calls aSeen v) (M' (L calls aReg 1)) := fun _ => rfl
      have hex3 : ∀ M' : Mem, ((mkStep (lcall aBc aL aF aReg aSeen)
          (⟨2, 1, [⟨.own 2, 1⟩], fun xs => xs.headD 0 + 1⟩ : RStep)).compile calls).exec M' =
          M'.set (L calls aReg 1) (M' (L calls aReg 1) + 1) := fun _ => rfl
      rw [hex1, hex2, hex3]
      have hn1 : M1 (L calls aReg 1) = next := by rw [hM1 aReg 1 (Or.inr (by decide))]; exact h3
      have e1 : (M1.set (L calls aL (i : Int)) (M1 (L calls aReg 1))) (L calls aReg 1) = next := by
        rw [set_other _ _ _ _ (L_ne_arr calls _ _ _ _ (Ne.symm hLR))]; exact hn1
      have e2 : ((M1.set (L calls aL (i : Int)) (M1 (L calls aReg 1))).set (L calls aSeen v)
          ((M1.set (L calls aL (i : Int)) (M1 (L calls aReg 1))) (L calls aReg 1))) (L calls aReg 1) = next := by
        rw [set_other _ _ _ _ (L_ne_arr calls _ _ _ _ hRS)]; exact e1
      rw [e2, e1, hn1]
      obtain ⟨c1, c2, c3⟩ := ih ((v, next) :: seen) (next + 1) (i + 1)
        (((M1.set (L calls aL (i : Int)) next).set (L calls aSeen v) next).set (L calls aReg 1) (next + 1))
        (by
          intro j hj
          rw [set_other _ _ _ _ (L_ne_arr calls _ _ _ _ hLR), set_other _ _ _ _ (L_ne_arr calls _ _ _ _ hLS),
            set_other _ _ _ _ (L_ne_off calls _ _ _ _ (by omega)), hM1 aL _ (Or.inl hLR)]
          have := h1 (j + 1) (by simp; omega)
          rw [show i + (j + 1) = i + 1 + j by omega] at this
          simpa using this)
        (by
          intro k l' hk
          rw [set_other _ _ _ _ (L_ne_arr calls _ _ _ _ (Ne.symm hRS))]
          rw [List.lookup_cons] at hk
          by_cases hkv : k = v
          · subst hkv
            simp only [beq_self_eq_true] at hk
            rw [set_same]
            exact Option.some.inj hk
          · have : (k == v) = false := by simpa using hkv
            rw [this] at hk
            rw [set_other _ _ _ _ (L_ne_off calls _ _ _ _ hkv),
              set_other _ _ _ _ (L_ne_arr calls _ _ _ _ (Ne.symm hLS)), hM1 aSeen k (Or.inl (Ne.symm hRS))]
            exact h2 k l' hk)
        (by rw [set_same])
      simp only [C03.renumGo, hl]
      refine ⟨?_, ?_, c3⟩
      · intro j hj
        cases j with
        | zero =>
          simp only [Nat.add_zero]
          rw [c2 i (by omega), set_other _ _ _ _ (L_ne_arr calls _ _ _ _ hLR),
            set_other _ _ _ _ (L_ne_arr calls _ _ _ _ hLS), set_same]
          rfl
        | succ j =>
          have := c1 j (by simp at hj; omega)
          rw [show i + 1 + j = i + (j + 1) by omega] at this
          rw [this]
          simp
      · intro j hj
        rw [c2 j (by omega), set_other _ _ _ _ (L_ne_arr calls _ _ _ _ hLR),
          set_other _ _ _ _ (L_ne_arr calls _ _ _ _ hLS),
          set_other _ _ _ _ (L_ne_off calls _ _ _ _ (by omega)), hM1 aL _ (Or.inl hLR)]

/-! ### the whole program -/

theorem toList_getD (par : Array Int) (j : Nat) (hj : j < par.size) : par.toList.getD j 0 = par.getD j (-1) := by
  simp [Array.getD_eq_getD_getElem?, List.getD_eq_getElem?_getD, hj]

/-- **the label program computes `C03.labelModel`** (stated on `runR`): from a memory holding `data` in the
call's `labeled` buffer, the steps of `labelRaw` leave the model's labels there and `count + 1` in the
`next` register -/
theorem label_runR (hLF : aL ≠ aF) (hLR : aL ≠ aReg) (hLS : aL ≠ aSeen) (hRS : aReg ≠ aSeen)
    (m : Mode) (shape : List Nat) (data : List Int) (vBc : C08.View) (bc : Array Int) (M : Mem)
    (hM : ∀ j, j < data.length → M (L calls aL (j : Int)) = data.getD j 0) :
    let M' := runR calls (lcall aBc aL aF aReg aSeen) (labelRaw m shape data vBc bc) M
    (∀ j, j < data.length →
      M' (L calls aL (j : Int)) = (C03.labelModel m shape data vBc.shape bc).1.getD j 0) ∧
    M' (L calls aReg 1) = (C03.labelModel m shape data vBc.shape bc).2 + 1 := by
  intro M'
  let c := lcall aBc aL aF aReg aSeen
  let n := data.length
  let fuel := n + 1
  let offs := C03.offsets vBc.shape bc
  let par0 := C03.initParents data
  let par1 := (List.range n).foldl (C03.scanPixel m shape offs fuel) par0
  let par2 := (List.range n).foldl (compressStep fuel) par1
  -- phase 1: initialisation
  let M1 := runR calls c ((List.range n).map initStep) M
  have h1 : PInv calls aL n M1 par0 :=
    ⟨fun j hj => (init_sim calls aBc aL aF aReg aSeen data M hM n (Nat.le_refl n)).1 j hj, initParents_WF data⟩
  -- phase 2: the filter copy writes `own 1` only
  let M2 := runR calls c (filterCopyRaw 0 vBc) M1
  have h2 : PInv calls aL n M2 par0 := by
    refine ⟨fun j hj => ?_, h1.2⟩
    rw [← h1.1 j hj]
    apply runR_frame
    intro r hr
    simp only [filterCopyRaw, List.mem_map] at hr
    obtain ⟨i, _, rfl⟩ := hr
    exact Ne.symm hLF
  -- phase 3: the scan
  let M3 := runR calls c (logFold (C03.scanPixel m shape offs fuel) (scanPixelLog m shape offs fuel) par0
    (List.range n)) M2
  have h3 : PInv calls aL n M3 par1 :=
    logFold_sim calls c (PInv calls aL n) _ _ (fun i => i < n)
      (fun M' s x hx hinv => scanPixel_sim calls aBc aL aF aReg aSeen hLR n fuel m shape offs M' s x hx hinv)
      (List.range n) M2 par0 (fun x hx => List.mem_range.1 hx) h2
  -- phase 4: the compression loop
  let M4 := runR calls c (logFold (compressStep fuel) (compressLog fuel) par1 (List.range n)) M3
  have h4 : PInv calls aL n M4 par2 :=
    logFold_sim calls c (PInv calls aL n) _ _ (fun i => i < n)
      (fun M' s x hx hinv => compress_sim calls aBc aL aF aReg aSeen hLR n fuel M' s x hx hinv)
      (List.range n) M3 par1 (fun x hx => List.mem_range.1 hx) h3
  -- phase 5: `next = 1; seen[-1] = 0`
  let M5 := (M4.set (L calls aReg 1) 1).set (L calls aSeen (-1)) 0
  have h5 : runR calls c [ (⟨2, 1, [], fun _ => 1⟩ : RStep), ⟨3, -1, [], fun _ => 0⟩ ] M4 = M5 := rfl
  -- phase 6: renumbering
  have hsize : par2.toList.length = n := by simp [h4.2.1]
  have h6 := renum_sim calls aBc aL aF aReg aSeen hLR hLS hRS par2.toList [(-1, 0)] 1 0 M5
    (by
      intro j hj
      rw [hsize] at hj
      show M5 (L calls aL ((0 + j : Nat) : Int)) = _
      rw [Nat.zero_add, set_other _ _ _ _ (L_ne_arr calls _ _ _ _ hLS),
        set_other _ _ _ _ (L_ne_arr calls _ _ _ _ hLR), h4.1 j hj,
        toList_getD par2 j (by rw [h4.2.1]; exact hj)])
    (by
      intro k l hk
      simp only [List.lookup_cons, List.lookup_nil] at hk
      by_cases hk1 : k = -1
      · subst hk1
        simp at hk
        subst hk
        exact set_same _ _ _
      · have : (k == -1) = false := by simpa using hk1
        rw [this] at hk
        cases hk)
    (by
      show M5 (L calls aReg 1) = 1
      rw [set_other _ _ _ _ (L_ne_arr calls _ _ _ _ hRS), set_same])
  have hprog : M' = runR calls c (renumLog [(-1, 0)] 1 0 par2.toList) M5 := by
    show runR calls c (labelRaw m shape data vBc bc) M = _
    rw [← h5]
    simp only [labelRaw, runR_append]
    rfl
  have hmodel : C03.labelModel m shape data vBc.shape bc = C03.renumGo [(-1, 0)] 1 par2.toList := rfl
  rw [hprog, hmodel]
  refine ⟨?_, h6.2.2⟩
  intro j hj
  have := h6.1 j (by rw [hsize]; exact hj)
  rw [Nat.zero_add] at this
  exact this

end label

/-- **solo run of the compiled label call** -/
theorem label_solo_value (kcs : List KCall) (t : Nat) (m : Mode) (shape : List Nat) (data : List Int)
    (vBc : C08.View) (bc : Array Int) (aBc aL aF aReg aSeen : Nat)
    (hk : kcs[t]? = some ((Kernel.label m shape data vBc bc).call ⟨[aBc], [aL, aF, aReg, aSeen]⟩))
    (hLF : aL ≠ aF) (hLR : aL ≠ aReg) (hLS : aL ≠ aSeen) (hRS : aReg ≠ aSeen) (M : Mem)
    (hM : ∀ j, j < data.length → M ((KLoc.mk aL (j : Int)).toLoc (kcs.map (·.call))) = data.getD j 0) :
    (∀ j, j < data.length →
      solo (compile kcs) t M ((KLoc.mk aL (j : Int)).toLoc (kcs.map (·.call))) =
        (C03.labelModel m shape data vBc.shape bc).1.getD j 0) ∧
    solo (compile kcs) t M ((KLoc.mk aReg 1).toLoc (kcs.map (·.call))) =
      (C03.labelModel m shape data vBc.shape bc).2 + 1 := by
  have hprog : compile kcs t = (labelRaw m shape data vBc bc).map
      (fun r => (mkStep ⟨[aBc], [aL, aF, aReg, aSeen]⟩ r).compile (kcs.map (·.call))) := by
    unfold compile
    rw [hk]
    simp [KCall.prog, Kernel.call, Kernel.raw, List.map_map, Function.comp_def]
  rw [solo_eq_execAll, hprog]
  exact label_runR (kcs.map (fun (x : KCall) => x.call)) aBc aL aF aReg aSeen hLF hLR hLS hRS m shape data vBc bc M hM

end Mahotas.C12
