/-
C12 (T4, round 3) — well-formedness of the role-level programs: every role index a step of the five
kernel access programs mentions lies inside `Kernel.arity`, hence for a footprint of (at least) that
arity the resolution `Call.arrOf` never uses its fall-back (the first owned array): the destination
is *the named* owned array and every source is *the named* argument / owned array.  This is stated
through a strict resolution `Call.arrOf?` / `mkStep?` that fails instead of falling back.
-/
import Mahotas.Proofs.C12Kernels
namespace Mahotas.C12
open Mahotas

/-! ## strict resolution (no fall-back) -/

/-- resolve a role, failing when the index does not exist -/
def Call.arrOf? (c : Call) : Role → Option Nat
  | .own i => c.outputs[i]?
  | .inp i => c.inputs[i]?

/-- resolve all sources, failing as soon as one role does not exist -/
def resolveSrcs (c : Call) : List RLoc → Option (List KLoc)
  | [] => some []
  | l :: ls =>
    match c.arrOf? l.role, resolveSrcs c ls with
    | some a, some r => some (⟨a, l.off⟩ :: r)
    | _, _ => none

/-- `mkStep` without the fall-back: `none` when some role of the step does not exist in the call -/
def mkStep? (c : Call) (r : RStep) : Option KStep :=
  match c.outputs[r.dst]?, resolveSrcs c r.srcs with
  | some d, some ss => some ⟨⟨d, r.doff⟩, ss, r.op⟩
  | _, _ => none

/-- a call has at least the arrays an arity asks for -/
def Call.HasArity (c : Call) (ar : Nat × Nat) : Prop := ar.1 ≤ c.inputs.length ∧ ar.2 ≤ c.outputs.length

theorem arrOf?_of_ok (c : Call) (ar : Nat × Nat) (hc : c.HasArity ar) (ro : Role)
    (h : (match ro with | .inp i => decide (i < ar.1) | .own i => decide (i < ar.2)) = true) :
    c.arrOf? ro = some (c.arrOf ro) := by
  cases ro with
  | inp i =>
    have hi : i < c.inputs.length := by
      have : i < ar.1 := by simpa using h
      exact Nat.lt_of_lt_of_le this hc.1
    simp [Call.arrOf?, Call.arrOf, List.getD_eq_getElem?_getD, hi]
  | own i =>
    have hi : i < c.outputs.length := by
      have : i < ar.2 := by simpa using h
      exact Nat.lt_of_lt_of_le this hc.2
    simp [Call.arrOf?, Call.arrOf, List.getD_eq_getElem?_getD, hi]

theorem resolveSrcs_of_ok (c : Call) (ar : Nat × Nat) (hc : c.HasArity ar) (ls : List RLoc)
    (h : (ls.all fun l => match l.role with
        | .inp i => decide (i < ar.1)
        | .own i => decide (i < ar.2)) = true) :
    resolveSrcs c ls = some (ls.map fun l => ⟨c.arrOf l.role, l.off⟩) := by
  induction ls with
  | nil => rfl
  | cons l ls ih =>
    simp only [List.all_cons, Bool.and_eq_true] at h
    simp only [resolveSrcs, arrOf?_of_ok c ar hc l.role h.1, ih h.2, List.map_cons]

/-- **no fall-back**: a step whose roles are inside the arity, resolved in a call that has that arity,
is resolved strictly — `mkStep` returns the named arrays -/
theorem mkStep?_of_rolesOk (c : Call) (ar : Nat × Nat) (hc : c.HasArity ar) (r : RStep)
    (h : r.rolesOk ar = true) : mkStep? c r = some (mkStep c r) := by
  simp only [RStep.rolesOk, Bool.and_eq_true, decide_eq_true_eq] at h
  have hd : r.dst < c.outputs.length := Nat.lt_of_lt_of_le h.1 hc.2
  have h1 : c.outputs[r.dst]? = some (c.arrOf (.own r.dst)) := by
    simp [Call.arrOf, List.getD_eq_getElem?_getD, hd]
  simp only [mkStep?, h1, resolveSrcs_of_ok c ar hc r.srcs h.2, mkStep]

/-- the destination of a well-formed step is the owned array with the step's index -/
theorem mkStep_dst_of_rolesOk (c : Call) (ar : Nat × Nat) (hc : c.HasArity ar) (r : RStep)
    (h : r.rolesOk ar = true) : c.outputs[r.dst]? = some (mkStep c r).dst.arr := by
  simp only [RStep.rolesOk, Bool.and_eq_true, decide_eq_true_eq] at h
  have hd : r.dst < c.outputs.length := Nat.lt_of_lt_of_le h.1 hc.2
  simp [mkStep, Call.arrOf, List.getD_eq_getElem?_getD, hd]

/-! ## generic closure lemmas -/

theorem logFold_forall {σ ι : Type} (P : RStep → Prop) (f : σ → ι → σ) (lg : σ → ι → List RStep)
    (h : ∀ s x, ∀ r ∈ lg s x, P r) : ∀ (xs : List ι) (s : σ), ∀ r ∈ logFold f lg s xs, P r := by
  intro xs
  induction xs with
  | nil => intro s r hr; simp [logFold] at hr
  | cons x xs ih =>
    intro s r hr
    simp only [logFold, List.mem_append] at hr
    rcases hr with hr | hr
    · exact h s x r hr
    · exact ih _ r hr

/-- a role-level step given by its fields is well formed when its indices are -/
theorem rolesOk_mk (ar : Nat × Nat) (d : Nat) (doff : Int) (srcs : List RLoc) (op : List Val → Val)
    (hd : d < ar.2)
    (hs : ∀ l ∈ srcs, match l.role with | .inp i => i < ar.1 | .own i => i < ar.2) :
    RStep.rolesOk ar ⟨d, doff, srcs, op⟩ = true := by
  simp only [RStep.rolesOk, Bool.and_eq_true, decide_eq_true_eq, List.all_eq_true]
  refine ⟨hd, ?_⟩
  intro l hl
  have := hs l hl
  cases hr : l.role with
  | inp i => rw [hr] at this; simpa using this
  | own i => rw [hr] at this; simpa using this

theorem rdS_ok (ar : Nat × Nat) (reg a : Nat) (i : Int) (h1 : reg < ar.2) (h2 : a < ar.2) :
    (rdS reg a i).rolesOk ar = true := by
  apply rolesOk_mk _ _ _ _ _ h1
  intro l hl
  simp only [List.mem_singleton] at hl
  subst hl
  exact h2

theorem wrS_ok (ar : Nat × Nat) (a : Nat) (i : Int) (v : Val) (srcs : List RLoc) (h1 : a < ar.2)
    (hs : ∀ l ∈ srcs, match l.role with | .inp i => i < ar.1 | .own i => i < ar.2) :
    (wrS a i v srcs).rolesOk ar = true :=
  rolesOk_mk _ _ _ _ _ h1 hs

theorem filterCopy_ok (ar : Nat × Nat) (fi : Nat) (vF : C08.View) (h1 : 1 < ar.2) (h2 : fi < ar.1) :
    ∀ r ∈ filterCopyRaw fi vF, r.rolesOk ar = true := by
  intro r hr
  simp only [filterCopyRaw, List.mem_map] at hr
  obtain ⟨i, _, rfl⟩ := hr
  apply rolesOk_mk _ _ _ _ _ h1
  intro l hl
  simp only [List.mem_singleton] at hl
  subst hl
  exact h2

/-! ## the five kernels -/

theorem erode_rolesOk (dt : DT) (vA vOut vBc : C08.View) (bc : Array Int) :
    ∀ r ∈ erodeRaw dt vA vOut vBc bc, r.rolesOk (2, 2) = true := by
  intro r hr
  simp only [erodeRaw, List.mem_append, List.mem_map] at hr
  rcases hr with hr | ⟨k, _, rfl⟩
  · exact filterCopy_ok (2, 2) 1 vBc (by decide) (by decide) r hr
  · apply rolesOk_mk
    · decide
    · intro l hl
      simp only [List.mem_append, List.mem_map] at hl
      rcases hl with ⟨kh, _, rfl⟩ | ⟨j, _, rfl⟩
      · show 0 < 2; decide
      · show 1 < 2; decide

theorem convolve_rolesOk (m : Mode) (vA vOut vW : C08.View) (w : Array Int) :
    ∀ r ∈ convolveRaw m vA vOut vW w, r.rolesOk (2, 2) = true := by
  intro r hr
  simp only [convolveRaw, List.mem_append, List.mem_map] at hr
  rcases hr with hr | ⟨k, _, rfl⟩
  · exact filterCopy_ok (2, 2) 1 vW (by decide) (by decide) r hr
  · apply rolesOk_mk
    · decide
    · intro l hl
      simp only [List.mem_append, List.mem_map] at hl
      rcases hl with ⟨kh, _, rfl⟩ | ⟨j, _, rfl⟩
      · show 0 < 2; decide
      · show 1 < 2; decide

theorem fold_rolesOk (f : Val → Val → Val) (start : Val) (maxlabel : Nat) (vA vL : C08.View)
    (mL : Int → Int) : ∀ r ∈ foldRaw f start maxlabel vA vL mL, r.rolesOk (2, 2) = true := by
  intro r hr
  simp only [foldRaw, List.mem_append, List.mem_map] at hr
  rcases hr with ⟨j, _, rfl⟩ | ⟨k, _, rfl⟩
  · exact rolesOk_mk _ _ _ _ _ (by decide) (by intro l hl; simp at hl)
  · unfold foldStep
    by_cases h : 0 ≤ C08.readIter mL vL k ∧ C08.readIter mL vL k < (maxlabel : Int)
    · simp only [h, and_self, if_true]
      apply rolesOk_mk _ _ _ _ _ (by decide)
      intro l hl
      simp only [List.mem_cons, List.mem_nil_iff, or_false] at hl
      rcases hl with rfl | rfl | rfl
      · show 0 < 2; decide
      · show 0 < 2; decide
      · show 1 < 2; decide
    · simp only [h, if_false]
      apply rolesOk_mk _ _ _ _ _ (by decide)
      intro l hl
      simp only [List.mem_singleton] at hl
      subst hl
      show 1 < 2; decide

theorem stS_ok (ar : Nat × Nat) (a : Nat) (i : Int) (h1 : a < ar.2) (h2 : 2 < ar.2) :
    (stS a i).rolesOk ar = true := by
  apply rolesOk_mk _ _ _ _ _ h1
  intro l hl
  simp only [List.mem_singleton] at hl
  subst hl
  exact h2

theorem findLog_ok : ∀ (fuel : Nat) (par : Array Int) (i : Nat),
    ∀ r ∈ findLog fuel par i, r.rolesOk (1, 4) = true := by
  intro fuel
  induction fuel with
  | zero =>
    intro par i r hr
    simp only [findLog, List.mem_singleton] at hr
    subst hr
    exact rolesOk_mk _ _ _ _ _ (by decide) (by intro l hl; simp at hl)
  | succ fuel ih =>
    intro par i r hr
    unfold findLog at hr
    by_cases hp : par.getD i (-1) = (i : Int)
    · simp only [hp, if_true, List.mem_singleton] at hr
      subst hr
      exact rdS_ok _ _ _ _ (by decide) (by decide)
    · simp only [hp, if_false, List.mem_cons, List.mem_append, List.mem_nil_iff, or_false] at hr
      rcases hr with (rfl | hr) | rfl
      · exact rdS_ok _ _ _ _ (by decide) (by decide)
      · exact ih _ _ r hr
      · exact stS_ok _ _ _ (by decide) (by decide)

theorem joinLog_ok (fuel : Nat) (par : Array Int) (i j : Nat) :
    ∀ r ∈ joinLog fuel par i j, r.rolesOk (1, 4) = true := by
  intro r hr
  simp only [joinLog, List.mem_append, List.mem_singleton] at hr
  rcases hr with (hr | hr) | rfl
  · exact findLog_ok _ _ _ r hr
  · exact findLog_ok _ _ _ r hr
  · exact stS_ok _ _ _ (by decide) (by decide)

theorem renumLog_ok : ∀ (vs : List Int) (seen : List (Int × Int)) (next : Int) (i : Nat),
    ∀ r ∈ renumLog seen next i vs, r.rolesOk (1, 4) = true := by
  intro vs
  induction vs with
  | nil => intro seen next i r hr; simp [renumLog] at hr
  | cons v vs ih =>
    intro seen next i r hr
    simp only [renumLog, List.mem_cons] at hr
    rcases hr with rfl | hr
    · exact rdS_ok _ _ _ _ (by decide) (by decide)
    · have hown : ∀ (d : Nat) (doff : Int) (a : Nat) (off : Int) (op : List Val → Val), d < 4 → a < 4 →
          RStep.rolesOk (1, 4) ⟨d, doff, [⟨.own a, off⟩], op⟩ = true := by
        intro d doff a off op hd ha
        apply rolesOk_mk _ _ _ _ _ hd
        intro l hl
        simp only [List.mem_singleton] at hl
        subst hl
        exact ha
      cases hl : seen.lookup v with
      | some l =>
        simp only [hl, List.mem_cons] at hr
        rcases hr with rfl | hr
        · exact hown _ _ _ _ _ (by decide) (by decide)
        · exact ih _ _ _ r hr
      | none =>
        simp only [hl, List.mem_append, List.mem_cons, List.mem_nil_iff, or_false] at hr
        rcases hr with (rfl | rfl | rfl) | hr
        · exact hown _ _ _ _ _ (by decide) (by decide)
        · exact hown _ _ _ _ _ (by decide) (by decide)
        · exact hown _ _ _ _ _ (by decide) (by decide)
        · exact ih _ _ _ r hr

theorem scanPixelLog_ok (m : Mode) (shape : List Nat) (offs : List (List Int)) (fuel : Nat)
    (par : Array Int) (i : Nat) : ∀ r ∈ scanPixelLog m shape offs fuel par i, r.rolesOk (1, 4) = true := by
  intro r hr
  simp only [scanPixelLog, List.mem_cons] at hr
  rcases hr with rfl | hr
  · exact rdS_ok _ _ _ _ (by decide) (by decide)
  · by_cases h : par.getD i (-1) = -1
    · simp [h] at hr
    · simp only [h, if_false] at hr
      refine logFold_forall (fun r => r.rolesOk (1, 4) = true) _ _ ?_ _ _ r hr
      intro s x r' hr'
      simp only [List.mem_cons] at hr'
      rcases hr' with rfl | hr'
      · exact rdS_ok _ _ _ _ (by decide) (by decide)
      · by_cases h2 : s.getD x (-1) = -1
        · simp [h2] at hr'
        · simp only [h2, if_false] at hr'
          exact joinLog_ok _ _ _ _ r' hr'

theorem label_rolesOk (m : Mode) (shape : List Nat) (data : List Int) (vBc : C08.View) (bc : Array Int) :
    ∀ r ∈ labelRaw m shape data vBc bc, r.rolesOk (1, 4) = true := by
  intro r hr
  simp only [labelRaw, List.mem_append, List.mem_map] at hr
  rcases hr with ((((⟨i, _, rfl⟩ | hr) | hr) | hr) | hr) | hr
  · apply rolesOk_mk _ _ _ _ _ (by decide)
    intro l hl
    simp only [List.mem_singleton] at hl
    subst hl
    show 0 < 4; decide
  · exact filterCopy_ok (1, 4) 0 vBc (by decide) (by decide) r hr
  · refine logFold_forall (fun r => r.rolesOk (1, 4) = true) _ _ ?_ _ _ r hr
    intro s x r' hr'
    exact scanPixelLog_ok _ _ _ _ _ _ r' hr'
  · refine logFold_forall (fun r => r.rolesOk (1, 4) = true) _ _ ?_ _ _ r hr
    intro s x r' hr'
    simp only [compressLog, List.mem_cons] at hr'
    rcases hr' with rfl | hr'
    · exact rdS_ok _ _ _ _ (by decide) (by decide)
    · by_cases h2 : s.getD x (-1) = -1
      · simp [h2] at hr'
      · simp only [h2, if_false] at hr'
        exact findLog_ok _ _ _ r' hr'
  · simp only [List.mem_cons, List.mem_nil_iff, or_false] at hr
    rcases hr with rfl | rfl
    · exact rolesOk_mk _ _ _ _ _ (by decide) (by intro l hl; simp at hl)
    · exact rolesOk_mk _ _ _ _ _ (by decide) (by intro l hl; simp at hl)
  · exact renumLog_ok _ _ _ _ r hr

theorem wsInitLog_ok (vS vM : C08.View) (markers : Img Int) (st : C04.MSt) (i : Nat) :
    ∀ r ∈ wsInitLog vS vM markers st i, r.rolesOk (3, 6) = true := by
  intro r hr
  simp only [wsInitLog, List.mem_cons] at hr
  rcases hr with rfl | hr
  · apply rolesOk_mk _ _ _ _ _ (by decide)
    intro l hl
    simp only [List.mem_singleton] at hl
    subst hl
    show 1 < 3; decide
  · split at hr
    · simp at hr
    · simp only [List.mem_cons, List.mem_nil_iff, or_false] at hr
      rcases hr with rfl | rfl | rfl
      · apply rolesOk_mk _ _ _ _ _ (by decide)
        intro l hl
        simp only [List.mem_singleton] at hl
        subst hl
        show 0 < 3; decide
      · apply rolesOk_mk _ _ _ _ _ (by decide)
        intro l hl
        simp only [List.mem_singleton] at hl
        subst hl
        show 1 < 3; decide
      · exact wrS_ok _ _ _ _ _ (by decide) (by intro l hl; simp at hl)

theorem wsVisitLog_ok (vS : C08.View) (surf : Img Int) (next : C04.QE) (acc : C04.MSt × Int) (nb : C04.Nb) :
    ∀ r ∈ wsVisitLog vS surf next acc nb, r.rolesOk (3, 6) = true := by
  intro r hr
  obtain ⟨st, margin⟩ := acc
  simp only [wsVisitLog] at hr
  cases hc : C04.nbCheck surf.shape next.pos margin nb with
  | none => simp [hc] at hr
  | some pr =>
    simp only [hc, List.mem_cons] at hr
    rcases hr with rfl | hr
    · exact rdS_ok _ _ _ _ (by decide) (by decide)
    · split at hr
      · simp only [List.mem_cons, List.mem_nil_iff, or_false] at hr
        rcases hr with rfl | rfl | rfl
        · apply rolesOk_mk _ _ _ _ _ (by decide)
          intro l hl
          simp only [List.mem_singleton] at hl
          subst hl
          show 0 < 3; decide
        · apply rolesOk_mk _ _ _ _ _ (by decide)
          intro l hl
          simp only [List.mem_singleton] at hl
          subst hl
          show 0 < 6; decide
        · exact wrS_ok _ _ _ _ _ (by decide) (by intro l hl; simp at hl)
      · split at hr
        · split at hr
          · simp only [List.mem_singleton] at hr
            subst hr
            apply wrS_ok _ _ _ _ _ (by decide)
            intro l hl
            simp only [List.mem_cons, List.mem_nil_iff, or_false] at hl
            rcases hl with rfl | rfl
            · show 0 < 6; decide
            · show 0 < 6; decide
          · simp only [List.mem_singleton] at hr
            subst hr
            apply rolesOk_mk _ _ _ _ _ (by decide)
            intro l hl
            simp only [List.mem_cons, List.mem_nil_iff, or_false] at hl
            rcases hl with rfl | rfl
            · show 0 < 6; decide
            · show 0 < 6; decide
        · simp at hr

theorem wsRunLog_ok (vS : C08.View) (surf : Img Int) (nbs : List C04.Nb) :
    ∀ (n : Nat) (st : C04.MSt), ∀ r ∈ wsRunLog vS surf nbs n st, r.rolesOk (3, 6) = true := by
  intro n
  induction n with
  | zero => intro st r hr; simp [wsRunLog] at hr
  | succ n ih =>
    intro st r hr
    unfold wsRunLog at hr
    cases he : C04.extractMin C04.QE.key st.queue with
    | none => simp [he] at hr
    | some er =>
      obtain ⟨e, rest⟩ := er
      simp only [he, List.mem_append, List.mem_map, List.mem_cons, List.mem_nil_iff, or_false] at hr
      rcases hr with (((⟨q, _, rfl⟩ | rfl | rfl) | ⟨j, _, rfl⟩) | hr) | hr
      · exact rdS_ok _ _ _ _ (by decide) (by decide)
      · exact wrS_ok _ _ _ _ _ (by decide) (by intro l hl; simp at hl)
      · exact wrS_ok _ _ _ _ _ (by decide) (by intro l hl; simp at hl)
      · exact rdS_ok _ _ _ _ (by decide) (by decide)
      · refine logFold_forall (fun r => r.rolesOk (3, 6) = true) _ _ ?_ _ _ r hr
        intro s x r' hr'
        exact wsVisitLog_ok _ _ _ _ _ r' hr'
      · cases hs : C04.modelStep surf nbs st with
        | none => simp [hs] at hr
        | some st' =>
          simp only [hs] at hr
          exact ih st' r hr

theorem cwatershed_rolesOk (vS vM vBc : C08.View) (surf markers : Img Int) (bc : Array Int) :
    ∀ r ∈ cwatershedRaw vS vM vBc surf markers bc, r.rolesOk (3, 6) = true := by
  intro r hr
  simp only [cwatershedRaw, List.mem_append, List.mem_map] at hr
  rcases hr with ((⟨j, _, rfl⟩ | ⟨i, _, rfl⟩) | hr) | hr
  · apply rolesOk_mk _ _ _ _ _ (by decide)
    intro l hl
    simp only [List.mem_singleton] at hl
    subst hl
    show 2 < 3; decide
  · exact wrS_ok _ _ _ _ _ (by decide) (by intro l hl; simp at hl)
  · refine logFold_forall (fun r => r.rolesOk (3, 6) = true) _ _ ?_ _ _ r hr
    intro s x r' hr'
    exact wsInitLog_ok _ _ _ _ _ r' hr'
  · exact wsRunLog_ok _ _ _ _ _ r hr

/-- every role of every step of every kernel access program lies inside `Kernel.arity` -/
theorem kernel_rolesOk (k : Kernel) : ∀ r ∈ k.raw, r.rolesOk k.arity = true := by
  cases k with
  | erode dt vA vOut vBc bc => exact erode_rolesOk dt vA vOut vBc bc
  | convolve m vA vOut vW w => exact convolve_rolesOk m vA vOut vW w
  | label m shape data vBc bc => exact label_rolesOk m shape data vBc bc
  | cwatershed vS vM vBc surf markers bc => exact cwatershed_rolesOk vS vM vBc surf markers bc
  | fold f start maxlabel vA vL mL => exact fold_rolesOk f start maxlabel vA vL mL

end Mahotas.C12
