/-
C13 — per-label folds (`labeled_foldl` and its instances), histogram / sizes.
-/
import Mahotas.Model.C13
import Mahotas.Proofs.DType
import Mathlib.Order.Basic
import Mathlib.Order.Lattice
import Mathlib.Algebra.Order.Group.Int
import Mathlib.Tactic.Linarith
import Mathlib.Algebra.BigOperators.Group.List.Basic
namespace Mahotas.C13
open Mahotas

/-! ### the generic fold -/

theorem valuesOf_cons {α : Type} (x : α × Int) (xs : List (α × Int)) (l : Int) :
    valuesOf (x :: xs) l = if x.2 = l then x.1 :: valuesOf xs l else valuesOf xs l := by
  unfold valuesOf
  by_cases h : x.2 = l
  · simp [h]
  · simp [h]

/-- folding the pixels into any array: slot `l` ends up as the fold of the values carrying label `l`,
    started from what the slot held -/
theorem foldl_slot {α : Type} (f : α → α → α) (n : Nat) (l : Nat) (hl : l < n) :
    ∀ (px : List (α × Int)) (res : Array α),
    (px.foldl (fun res x => if 0 ≤ x.2 ∧ x.2 < (n : Int) then res.modify x.2.toNat (f x.1) else res) res)[l]? =
      (res[l]?).map (fun v => (valuesOf px (l : Int)).foldl (fun r a => f a r) v) := by
  intro px
  induction px with
  | nil => intro res; simp [valuesOf]
  | cons x xs ih =>
    intro res
    simp only [List.foldl_cons]
    rw [ih, valuesOf_cons]
    by_cases hg : 0 ≤ x.2 ∧ x.2 < (n : Int)
    · simp only [hg, and_self, if_true]
      rw [Array.getElem?_modify]
      by_cases he : x.2 = (l : Int)
      · have : x.2.toNat = l := by omega
        simp only [this, he, if_true]
        cases res[l]? <;> simp
      · have : ¬ x.2.toNat = l := by omega
        simp only [this, he, if_false]
    · simp only [hg, if_false]
      have he : ¬ x.2 = (l : Int) := by omega
      simp only [he, if_false]

/-- **fold_eq, generic.** For every operation `f`, start value, label count and pixel list, slot `l`
    of `labeled_foldl` is the fold of `f` over exactly the values of the pixels labelled `l`, in scan order. -/
theorem labeledFold_slot {α : Type} (f : α → α → α) (start : α) (n : Nat) (px : List (α × Int)) (l : Nat)
    (hl : l < n) :
    (labeledFold f start n px)[l]? = some ((valuesOf px (l : Int)).foldl (fun r a => f a r) start) := by
  unfold labeledFold
  rw [foldl_slot f n l hl]
  simp [hl]

theorem labeledFold_size {α : Type} (f : α → α → α) (start : α) (n : Nat) (px : List (α × Int)) :
    (labeledFold f start n px).size = n := by
  unfold labeledFold
  have : ∀ (px : List (α × Int)) (res : Array α),
      (px.foldl (fun res x => if 0 ≤ x.2 ∧ x.2 < (n : Int) then res.modify x.2.toNat (f x.1) else res) res).size
        = res.size := by
    intro px
    induction px with
    | nil => intro res; rfl
    | cons x xs ih =>
      intro res
      simp only [List.foldl_cons]
      rw [ih]
      by_cases hg : 0 ≤ x.2 ∧ x.2 < (n : Int)
      · simp [hg]
      · simp [hg]
  rw [this]; simp

/-! ### sums -/

theorem foldl_add_eq_sum (vs : List Int) (s : Int) : vs.foldl (fun r a => a + r) s = s + vs.sum := by
  induction vs generalizing s with
  | nil => simp
  | cons v vs ih => simp only [List.foldl_cons, List.sum_cons]; rw [ih]; omega

theorem wrap_add_wrap (dt : DT) (a r : Int) : dt.wrap (a + dt.wrap r) = dt.wrap (a + r) := by
  unfold DT.wrap
  have : (a + ((r - dt.lo) % dt.card + dt.lo) - dt.lo) % dt.card = (a + r - dt.lo) % dt.card := by
    have e1 : a + ((r - dt.lo) % dt.card + dt.lo) - dt.lo = a + (r - dt.lo) % dt.card := by omega
    have e2 : a + r - dt.lo = a + (r - dt.lo) := by omega
    rw [e1, e2, Int.add_emod, Int.emod_emod_of_dvd _ (dvd_refl _), ← Int.add_emod]
  rw [this]

theorem foldl_wrap_add (dt : DT) (vs : List Int) (s : Int) :
    vs.foldl (fun r a => dt.wrap (a + r)) (dt.wrap s) = dt.wrap (s + vs.sum) := by
  induction vs generalizing s with
  | nil => simp
  | cons v vs ih =>
    simp only [List.foldl_cons, List.sum_cons]
    rw [wrap_add_wrap, ih]
    congr 1; omega

theorem foldl_add_comm_sum {α : Type} [AddCommMonoid α] (vs : List α) (s : α) :
    vs.foldl (fun r a => a + r) s = s + vs.sum := by
  induction vs generalizing s with
  | nil => simp
  | cons v vs ih =>
    simp only [List.foldl_cons, List.sum_cons]
    rw [ih, add_comm v s, add_assoc]

theorem foldl_or_any (vs : List Int) (s : Int) (hs : s = 0 ∨ s = 1) :
    vs.foldl (fun r a => if a ≠ 0 ∨ r ≠ 0 then (1 : Int) else 0) s =
      if s ≠ 0 ∨ vs.any (· ≠ 0) then 1 else 0 := by
  induction vs generalizing s with
  | nil => rcases hs with h | h <;> simp [h]
  | cons v vs ih =>
    simp only [List.foldl_cons, List.any_cons]
    by_cases hv : v ≠ 0
    · rw [ih _ (by simp [hv])]
      simp [hv]
    · have hv' : v = 0 := by simpa using hv
      subst hv'
      rcases hs with h | h
      · subst h
        rw [ih _ (by simp)]
        simp
      · subst h
        rw [ih _ (by simp)]
        simp

/-! ### maxima and minima over a linear order -/

theorem stdMax_eq_max {α : Type} [LinearOrder α] (a b : α) : stdMax a b = max a b := by
  unfold stdMax
  by_cases h : a < b
  · simp [h, max_eq_right (le_of_lt h)]
  · simp [h, max_eq_left (not_lt.mp h)]

theorem stdMin_eq_min {α : Type} [LinearOrder α] (a b : α) : stdMin a b = min a b := by
  unfold stdMin
  by_cases h : b < a
  · simp [h, min_eq_right (le_of_lt h)]
  · simp [h, min_eq_left (not_lt.mp h)]

/-- the running maximum dominates the start and every value and is one of them -/
theorem foldl_max_spec {α : Type} [LinearOrder α] (vs : List α) (s : α) :
    s ≤ vs.foldl (fun r a => stdMax a r) s ∧ (∀ v ∈ vs, v ≤ vs.foldl (fun r a => stdMax a r) s) ∧
    (vs.foldl (fun r a => stdMax a r) s = s ∨ vs.foldl (fun r a => stdMax a r) s ∈ vs) := by
  induction vs generalizing s with
  | nil => simp
  | cons v vs ih =>
    simp only [List.foldl_cons]
    obtain ⟨h1, h2, h3⟩ := ih (stdMax v s)
    rw [stdMax_eq_max] at h1 h2 h3 ⊢
    refine ⟨le_trans (le_max_right v s) h1, ?_, ?_⟩
    · intro w hw
      rcases List.mem_cons.mp hw with e | hw
      · subst e; exact le_trans (le_max_left _ _) h1
      · exact h2 w hw
    · rcases h3 with h3 | h3
      · rw [h3]
        rcases max_choice v s with e | e
        · right; rw [e]; exact List.mem_cons_self
        · left; exact e
      · right; exact List.mem_cons_of_mem _ h3

theorem foldl_min_spec {α : Type} [LinearOrder α] (vs : List α) (s : α) :
    vs.foldl (fun r a => stdMin a r) s ≤ s ∧ (∀ v ∈ vs, vs.foldl (fun r a => stdMin a r) s ≤ v) ∧
    (vs.foldl (fun r a => stdMin a r) s = s ∨ vs.foldl (fun r a => stdMin a r) s ∈ vs) := by
  induction vs generalizing s with
  | nil => simp
  | cons v vs ih =>
    simp only [List.foldl_cons]
    obtain ⟨h1, h2, h3⟩ := ih (stdMin v s)
    rw [stdMin_eq_min] at h1 h2 h3 ⊢
    refine ⟨le_trans h1 (min_le_right v s), ?_, ?_⟩
    · intro w hw
      rcases List.mem_cons.mp hw with e | hw
      · subst e; exact le_trans h1 (min_le_left _ _)
      · exact h2 w hw
    · rcases h3 with h3 | h3
      · rw [h3]
        rcases min_choice v s with e | e
        · right; rw [e]; exact List.mem_cons_self
        · left; exact e
      · right; exact List.mem_cons_of_mem _ h3

/-! ### histogram -/

theorem histogram_slot (n : Nat) (l : Nat) (hl : l < n) : ∀ (vals : List Int) (h : Array Nat),
    (∀ v ∈ vals, 0 ≤ v) →
    (vals.foldl (fun h v => h.modify v.toNat (· + 1)) h)[l]? =
      (h[l]?).map (fun c => c + (vals.filter (· == (l : Int))).length) := by
  intro vals
  induction vals with
  | nil => intro h _; simp
  | cons v vs ih =>
    intro h hv
    simp only [List.foldl_cons]
    rw [ih _ (fun w hw => hv w (List.mem_cons_of_mem _ hw)), Array.getElem?_modify]
    have hv0 := hv v List.mem_cons_self
    by_cases he : v = (l : Int)
    · have : v.toNat = l := by omega
      simp only [this, if_true, he]
      cases h[l]? <;> simp <;> omega
    · have : ¬ v.toNat = l := by omega
      simp only [this, if_false]
      have hb : (v == (l : Int)) = false := by simp [he]
      simp [List.filter_cons, hb]

end Mahotas.C13
