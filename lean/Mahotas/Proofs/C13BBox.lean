/-
C13 — the C-contiguous 2-D skip-ahead path of `bbox` (`carray2_bbox`) computes the same box as the generic
loop; the final emptiness test of `py_bbox`.
-/
import Mahotas.Proofs.C13Regions
import Mahotas.Proofs.C13Com
namespace Mahotas.C13
open Mahotas

abbrev E4 := Int × Int × Int × Int

/-- every non-zero pixel of the region `S` lies in the box `e` -/
def Box (nz : Nat → Nat → Prop) (S : Nat → Nat → Prop) (e : E4) : Prop :=
  ∀ y x, S y x → nz y x → e.1 ≤ (y : Int) ∧ (y : Int) + 1 ≤ e.2.1 ∧ e.2.2.1 ≤ (x : Int) ∧ (x : Int) + 1 ≤ e.2.2.2

/-- every bound of `e` is the initial one or attained by a non-zero pixel of `S` -/
def Att (nz : Nat → Nat → Prop) (S : Nat → Nat → Prop) (i e : E4) : Prop :=
  (e.1 = i.1 ∨ ∃ y x, S y x ∧ nz y x ∧ e.1 = (y : Int)) ∧
  (e.2.1 = i.2.1 ∨ ∃ y x, S y x ∧ nz y x ∧ e.2.1 = (y : Int) + 1) ∧
  (e.2.2.1 = i.2.2.1 ∨ ∃ y x, S y x ∧ nz y x ∧ e.2.2.1 = (x : Int)) ∧
  (e.2.2.2 = i.2.2.2 ∨ ∃ y x, S y x ∧ nz y x ∧ e.2.2.2 = (x : Int) + 1)

def Seen (N1 : Nat) (y x : Nat) (y' x' : Nat) : Prop := x' < N1 ∧ (y' < y ∨ (y' = y ∧ x' < x))

theorem Att.mono {nz : Nat → Nat → Prop} {S S' : Nat → Nat → Prop} {i e : E4} (h : Att nz S i e)
    (hs : ∀ y x, S y x → S' y x) : Att nz S' i e := by
  obtain ⟨a, b, c, d⟩ := h
  refine ⟨?_, ?_, ?_, ?_⟩
  · rcases a with a | ⟨y, x, h1, h2, h3⟩
    · exact Or.inl a
    · exact Or.inr ⟨y, x, hs y x h1, h2, h3⟩
  · rcases b with a | ⟨y, x, h1, h2, h3⟩
    · exact Or.inl a
    · exact Or.inr ⟨y, x, hs y x h1, h2, h3⟩
  · rcases c with a | ⟨y, x, h1, h2, h3⟩
    · exact Or.inl a
    · exact Or.inr ⟨y, x, hs y x h1, h2, h3⟩
  · rcases d with a | ⟨y, x, h1, h2, h3⟩
    · exact Or.inl a
    · exact Or.inr ⟨y, x, hs y x h1, h2, h3⟩

theorem bboxRow_inv (N1 : Nat) (row : Nat → Int) (yy : Nat) (nz : Nat → Nat → Prop) (i : E4)
    (hnz : ∀ x, nz yy x ↔ row x ≠ 0) :
    ∀ (fuel x : Nat) (e : E4), N1 ≤ x + fuel → Box nz (Seen N1 yy x) e → Att nz (Seen N1 yy x) i e →
      Box nz (Seen N1 (yy + 1) 0) (bboxRow N1 row (yy : Int) fuel x e) ∧
      Att nz (Seen N1 (yy + 1) 0) i (bboxRow N1 row (yy : Int) fuel x e) := by
  intro fuel
  induction fuel with
  | zero =>
    intro x e hx hb ha
    have hsub : ∀ y' x', Seen N1 (yy + 1) 0 y' x' ↔ Seen N1 yy x y' x' := by
      intro y' x'
      unfold Seen
      constructor
      · rintro ⟨h1, h2⟩; refine ⟨h1, ?_⟩; omega
      · rintro ⟨h1, h2⟩; refine ⟨h1, ?_⟩; omega
    simp only [bboxRow]
    exact ⟨fun y' x' hs => hb y' x' ((hsub y' x').mp hs), ha.mono (fun y' x' hs => (hsub y' x').mpr hs)⟩
  | succ fuel ih =>
    intro x e hx hb ha
    by_cases hge : x ≥ N1
    · have hsub : ∀ y' x', Seen N1 (yy + 1) 0 y' x' ↔ Seen N1 yy x y' x' := by
        intro y' x'
        unfold Seen
        constructor
        · rintro ⟨h1, h2⟩; refine ⟨h1, ?_⟩; omega
        · rintro ⟨h1, h2⟩; refine ⟨h1, ?_⟩; omega
      have : bboxRow N1 row (yy : Int) (fuel + 1) x e = e := by simp [bboxRow, hge]
      rw [this]
      exact ⟨fun y' x' hs => hb y' x' ((hsub y' x').mp hs), ha.mono (fun y' x' hs => (hsub y' x').mpr hs)⟩
    · have hxl : x < N1 := by omega
      by_cases hz : row x ≠ 0
      · have hnzx : nz yy x := (hnz x).mpr hz
        have hseen : Seen N1 yy (x + 1) yy x := ⟨hxl, Or.inr ⟨rfl, by omega⟩⟩
        by_cases hskip : ((x : Int) + 1) < e.2.2.2
        · -- skip ahead to the known right edge
          have hnext : (e.2.2.2 - (x : Int) - 1).toNat + x + 1 > x := by omega
          have hcast : (((e.2.2.2 - (x : Int) - 1).toNat + x + 1 : Nat) : Int) = e.2.2.2 := by omega
          have hstep : bboxRow N1 row (yy : Int) (fuel + 1) x e =
              bboxRow N1 row (yy : Int) fuel ((e.2.2.2 - (x : Int) - 1).toNat + x + 1)
                (min e.1 (yy : Int), max e.2.1 ((yy : Int) + 1), min e.2.2.1 (x : Int), e.2.2.2) := by
            simp [bboxRow, hge, hz, hskip]
          rw [hstep]
          apply ih _ _ (by omega)
          · intro y' x' hs hn
            unfold Seen at hs
            by_cases hold : Seen N1 yy x y' x'
            · obtain ⟨a, b, c, d⟩ := hb y' x' hold hn
              simp only
              refine ⟨le_trans (min_le_left _ _) a, le_trans b (le_max_left _ _), le_trans (min_le_left _ _) c, d⟩
            · have hy : y' = yy := by unfold Seen at hold; omega
              have hx' : x ≤ x' := by unfold Seen at hold; omega
              have hx2 : (x' : Int) < e.2.2.2 := by omega
              subst hy
              simp only
              refine ⟨min_le_right _ _, le_max_right _ _, le_trans (min_le_right _ _) (by omega), by omega⟩
          · have ha' := ha.mono (S' := Seen N1 yy ((e.2.2.2 - (x : Int) - 1).toNat + x + 1))
              (by intro y' x' hs; unfold Seen at hs ⊢; omega)
            have hs2 : Seen N1 yy ((e.2.2.2 - (x : Int) - 1).toNat + x + 1) yy x := ⟨hxl, Or.inr ⟨rfl, by omega⟩⟩
            obtain ⟨a, b, c, d⟩ := ha'
            refine ⟨?_, ?_, ?_, d⟩
            · rcases min_choice e.1 (yy : Int) with h | h
              · simp only [h]; exact a
              · simp only [h]; exact Or.inr ⟨yy, x, hs2, hnzx, rfl⟩
            · rcases max_choice e.2.1 ((yy : Int) + 1) with h | h
              · simp only [h]; exact b
              · simp only [h]; exact Or.inr ⟨yy, x, hs2, hnzx, rfl⟩
            · rcases min_choice e.2.2.1 (x : Int) with h | h
              · simp only [h]; exact c
              · simp only [h]; exact Or.inr ⟨yy, x, hs2, hnzx, rfl⟩
        · have hstep : bboxRow N1 row (yy : Int) (fuel + 1) x e =
              bboxRow N1 row (yy : Int) fuel (x + 1)
                (min e.1 (yy : Int), max e.2.1 ((yy : Int) + 1), min e.2.2.1 (x : Int), (x : Int) + 1) := by
            simp [bboxRow, hge, hz, hskip]
          rw [hstep]
          apply ih _ _ (by omega)
          · intro y' x' hs hn
            by_cases hold : Seen N1 yy x y' x'
            · obtain ⟨a, b, c, d⟩ := hb y' x' hold hn
              simp only
              refine ⟨le_trans (min_le_left _ _) a, le_trans b (le_max_left _ _), le_trans (min_le_left _ _) c, by omega⟩
            · have hy : y' = yy := by unfold Seen at hold hs; omega
              have hx' : x' = x := by unfold Seen at hold hs; omega
              subst hy; subst hx'
              simp only
              refine ⟨min_le_right _ _, le_max_right _ _, min_le_right _ _, le_refl _⟩
          · have ha' := ha.mono (S' := Seen N1 yy (x + 1))
              (by intro y' x' hs; unfold Seen at hs ⊢; omega)
            obtain ⟨a, b, c, d⟩ := ha'
            refine ⟨?_, ?_, ?_, Or.inr ⟨yy, x, hseen, hnzx, rfl⟩⟩
            · rcases min_choice e.1 (yy : Int) with h | h
              · simp only [h]; exact a
              · simp only [h]; exact Or.inr ⟨yy, x, hseen, hnzx, rfl⟩
            · rcases max_choice e.2.1 ((yy : Int) + 1) with h | h
              · simp only [h]; exact b
              · simp only [h]; exact Or.inr ⟨yy, x, hseen, hnzx, rfl⟩
            · rcases min_choice e.2.2.1 (x : Int) with h | h
              · simp only [h]; exact c
              · simp only [h]; exact Or.inr ⟨yy, x, hseen, hnzx, rfl⟩
      · have hstep : bboxRow N1 row (yy : Int) (fuel + 1) x e = bboxRow N1 row (yy : Int) fuel (x + 1) e := by
          simp [bboxRow, hge, hz]
        rw [hstep]
        apply ih _ _ (by omega)
        · intro y' x' hs hn
          by_cases hold : Seen N1 yy x y' x'
          · exact hb y' x' hold hn
          · have hy : y' = yy := by unfold Seen at hold hs; omega
            have hx' : x' = x := by unfold Seen at hold hs; omega
            subst hy; subst hx'
            exact absurd ((hnz _).mp hn) hz
        · exact ha.mono (by intro y' x' hs; unfold Seen at hs ⊢; omega)

/-- raw facts about the generic loop on axis `j` -/
theorem bbox_facts (shape : List Nat) (data : List Int) (hlen : data.length = shapeSize shape) (j : Nat)
    (hj : j < shape.length) :
    let ps := ((List.range data.length).filter fun i => data.getD i 0 ≠ 0).map (unravelI shape)
    let ext := (List.range data.length).foldl (fun ext i =>
      if data.getD i 0 ≠ 0 then bboxUpdate ext (unravelI shape i) else ext) (bboxInit shape)
    ext.length = (bboxInit shape).length ∧
    (∀ p ∈ ps, ext.getD (2 * j) 0 ≤ p.getD j 0 ∧ p.getD j 0 + 1 ≤ ext.getD (2 * j + 1) 0) ∧
    (ext.getD (2 * j) 0 = ((shape.getD j 0 : Nat) : Int) ∨ ∃ p ∈ ps, p.getD j 0 = ext.getD (2 * j) 0) ∧
    (ext.getD (2 * j + 1) 0 = 0 ∨ ∃ p ∈ ps, p.getD j 0 + 1 = ext.getD (2 * j + 1) 0) := by
  intro ps ext
  have hext : ext = ps.foldl bboxUpdate (bboxInit shape) := by
    show (List.range data.length).foldl (fun ext i =>
      if data.getD i 0 ≠ 0 then bboxUpdate ext (unravelI shape i) else ext) (bboxInit shape) = _
    have := foldl_filter_map (fun i => decide (data.getD i 0 ≠ 0)) (unravelI shape) bboxUpdate
      (List.range data.length) (bboxInit shape)
    simp only [decide_eq_true_eq] at this
    rw [this]
  have hlen' : ∀ (qs : List (List Int)) (e : List Int), (qs.foldl bboxUpdate e).length = e.length := by
    intro qs
    induction qs with
    | nil => intro e; rfl
    | cons q qs ih => intro e; simp only [List.foldl_cons]; rw [ih, bboxUpdate_length]
  obtain ⟨i0, i1, i2⟩ := bboxInit_getD shape j hj
  have hpl : ∀ p ∈ ps, j < p.length := by
    intro p hp
    obtain ⟨i, _, rfl⟩ := List.mem_map.mp hp
    rw [C03.unravelI_length]; exact hj
  obtain ⟨f1, f2⟩ := bboxFold_getD j ps (bboxInit shape) hpl i2
  rw [← hext, i0] at f1
  rw [← hext, i1] at f2
  obtain ⟨a1, _, a3⟩ := foldl_min_facts j ps ((shape.getD j 0 : Nat) : Int)
  obtain ⟨b1, _, b3⟩ := foldl_max_facts j ps 0
  rw [← f1] at a1 a3
  rw [← f2] at b1 b3
  exact ⟨by rw [hext, hlen'], fun p hp => ⟨a1 p hp, b1 p hp⟩, a3, b3⟩

theorem unravelI_2d (N0 N1 i : Nat) : unravelI [N0, N1] i = [((i / N1 : Nat) : Int), ((i % N1 : Nat) : Int)] := by
  simp [unravelI, unravel, shapeSize]

/-- the outer loop of `carray2_bbox` -/
theorem bboxFast_inv (N1 : Nat) (data : List Int) : ∀ (N0 : Nat),
    let nz := fun (y x : Nat) => data.getD (y * N1 + x) 0 ≠ 0
    let i : E4 := ((N0 : Int), 0, (N1 : Int), 0)
    ∀ (n : Nat),
    Box nz (Seen N1 n 0) ((List.range n).foldl (fun e y =>
        bboxRow N1 (fun x => data.getD (y * N1 + x) 0) y (N1 + 1) 0 e) i) ∧
    Att nz (Seen N1 n 0) i ((List.range n).foldl (fun e y =>
        bboxRow N1 (fun x => data.getD (y * N1 + x) 0) y (N1 + 1) 0 e) i) := by
  intro N0 nz i n
  induction n with
  | zero =>
    refine ⟨?_, Or.inl rfl, Or.inl rfl, Or.inl rfl, Or.inl rfl⟩
    intro y x hs
    unfold Seen at hs; omega
  | succ n ih =>
    rw [List.range_succ, List.foldl_append]
    simp only [List.foldl_cons, List.foldl_nil]
    exact bboxRow_inv N1 (fun x => data.getD (n * N1 + x) 0) n nz i (fun x => Iff.rfl) (N1 + 1) 0 _
      (by omega) ih.1 ih.2

/-- **the C-contiguous 2-D skip-ahead path computes the same box as the generic loop** -/
theorem bboxFast_eq_generic (N0 N1 : Nat) (data : List Int) (hlen : data.length = N0 * N1) :
    bboxFast N0 N1 data = bboxGeneric [N0, N1] data := by
  have hlen2 : data.length = shapeSize [N0, N1] := by simp [shapeSize, hlen]
  obtain ⟨hb, ha⟩ := bboxFast_inv N1 data N0 N0
  obtain ⟨gl, g0, g0a, g0b⟩ := bbox_facts [N0, N1] data hlen2 0 (by simp)
  obtain ⟨_, g1, g1a, g1b⟩ := bbox_facts [N0, N1] data hlen2 1 (by simp)
  unfold bboxFast bboxGeneric
  congr 1
  -- abbreviations
  generalize hE : (List.range N0).foldl (fun e y =>
      bboxRow N1 (fun x => data.getD (y * N1 + x) 0) y (N1 + 1) 0 e) ((N0 : Int), (0 : Int), (N1 : Int), (0 : Int)) = e
    at hb ha ⊢
  generalize hG : (List.range data.length).foldl (fun ext i =>
      if data.getD i 0 ≠ 0 then bboxUpdate ext (unravelI [N0, N1] i) else ext) (bboxInit [N0, N1]) = G
    at gl g0 g0a g0b g1 g1a g1b ⊢
  -- pixels: list positions ↔ (y, x)
  have toPix : ∀ p ∈ ((List.range data.length).filter fun i => data.getD i 0 ≠ 0).map (unravelI [N0, N1]),
      ∃ y x : Nat, Seen N1 N0 0 y x ∧ data.getD (y * N1 + x) 0 ≠ 0 ∧ p.getD 0 0 = (y : Int) ∧ p.getD 1 0 = (x : Int) := by
    intro p hp
    obtain ⟨i, hi, rfl⟩ := List.mem_map.mp hp
    obtain ⟨hi1, hi2⟩ := List.mem_filter.mp hi
    have hil : i < N0 * N1 := by rw [← hlen]; exact List.mem_range.mp hi1
    have hN1 : 0 < N1 := by
      by_contra hc
      have : N1 = 0 := by omega
      rw [this] at hil; simp at hil
    refine ⟨i / N1, i % N1, ⟨Nat.mod_lt _ hN1, Or.inl ?_⟩, ?_, ?_, ?_⟩
    · exact (Nat.div_lt_iff_lt_mul hN1).mpr hil
    · have : i / N1 * N1 + i % N1 = i := by rw [Nat.mul_comm]; exact Nat.div_add_mod i N1
      rw [this]; simpa using hi2
    · rw [unravelI_2d]; rfl
    · rw [unravelI_2d]; rfl
  have ofPix : ∀ y x : Nat, Seen N1 N0 0 y x → data.getD (y * N1 + x) 0 ≠ 0 →
      ∃ p ∈ ((List.range data.length).filter fun i => data.getD i 0 ≠ 0).map (unravelI [N0, N1]),
        p.getD 0 0 = (y : Int) ∧ p.getD 1 0 = (x : Int) := by
    intro y x hs hn
    have hx : x < N1 := hs.1
    have hy : y < N0 := by unfold Seen at hs; omega
    have hil : y * N1 + x < N0 * N1 := by
      have : (y + 1) * N1 ≤ N0 * N1 := Nat.mul_le_mul_right _ (by omega)
      have h2 : (y + 1) * N1 = y * N1 + N1 := by rw [Nat.add_mul]; simp
      omega
    refine ⟨unravelI [N0, N1] (y * N1 + x), List.mem_map.mpr ⟨y * N1 + x, List.mem_filter.mpr
      ⟨List.mem_range.mpr (by rw [hlen]; exact hil), by simpa using hn⟩, rfl⟩, ?_, ?_⟩
    · rw [unravelI_2d]
      have : (y * N1 + x) / N1 = y := by
        rw [Nat.mul_comm, Nat.mul_add_div (by omega), Nat.div_eq_of_lt hx]; simp
      simp [this]
    · rw [unravelI_2d]
      have : (y * N1 + x) % N1 = x := by
        rw [Nat.mul_comm, Nat.mul_add_mod, Nat.mod_eq_of_lt hx]
      simp [this]
  -- G is a list of four entries
  have hG4 : G.length = 4 := by rw [gl]; simp [bboxInit]
  match G, hG4 with
  | [G0, G1, G2, G3], _ =>
    simp only [List.getD_cons_zero, List.getD_cons_succ, Nat.mul_zero, Nat.mul_one, Nat.zero_add,
      List.getD_cons_zero] at g0 g0a g0b g1 g1a g1b
    obtain ⟨a0, a1, a2, a3⟩ := ha
    have e0 : e.1 = G0 := by
      rcases a0 with h | ⟨y, x, hs, hn, h⟩
      · rcases g0a with g | ⟨p, hp, g⟩
        · simp only at h; rw [h, g]
        · obtain ⟨y, x, hs, hn, py, _⟩ := toPix p hp
          have := (hb y x hs hn).1
          have hy : y < N0 := by unfold Seen at hs; omega
          simp only at h
          omega
      · obtain ⟨p, hp, py, _⟩ := ofPix y x hs hn
        have l1 := (g0 p hp).1
        rcases g0a with g | ⟨q, hq, g⟩
        · have hy : y < N0 := by unfold Seen at hs; omega
          omega
        · obtain ⟨y', x', hs', hn', qy, _⟩ := toPix q hq
          have := (hb y' x' hs' hn').1
          omega
    have e1 : e.2.1 = G1 := by
      rcases a1 with h | ⟨y, x, hs, hn, h⟩
      · rcases g0b with g | ⟨p, hp, g⟩
        · simp only at h; rw [h, g]
        · obtain ⟨y, x, hs, hn, py, _⟩ := toPix p hp
          have := (hb y x hs hn).2.1
          simp only at h
          omega
      · obtain ⟨p, hp, py, _⟩ := ofPix y x hs hn
        have l1 := (g0 p hp).2
        rcases g0b with g | ⟨q, hq, g⟩
        · omega
        · obtain ⟨y', x', hs', hn', qy, _⟩ := toPix q hq
          have := (hb y' x' hs' hn').2.1
          omega
    have e2 : e.2.2.1 = G2 := by
      rcases a2 with h | ⟨y, x, hs, hn, h⟩
      · rcases g1a with g | ⟨p, hp, g⟩
        · simp only at h; rw [h, g]
        · obtain ⟨y, x, hs, hn, _, px⟩ := toPix p hp
          have := (hb y x hs hn).2.2.1
          have hx : x < N1 := hs.1
          simp only at h
          omega
      · obtain ⟨p, hp, _, px⟩ := ofPix y x hs hn
        have l1 := (g1 p hp).1
        rcases g1a with g | ⟨q, hq, g⟩
        · have hx : x < N1 := hs.1
          omega
        · obtain ⟨y', x', hs', hn', _, qx⟩ := toPix q hq
          have := (hb y' x' hs' hn').2.2.1
          omega
    have e3 : e.2.2.2 = G3 := by
      rcases a3 with h | ⟨y, x, hs, hn, h⟩
      · rcases g1b with g | ⟨p, hp, g⟩
        · simp only at h; rw [h, g]
        · obtain ⟨y, x, hs, hn, _, px⟩ := toPix p hp
          have := (hb y x hs hn).2.2.2
          simp only at h
          omega
      · obtain ⟨p, hp, _, px⟩ := ofPix y x hs hn
        have l1 := (g1 p hp).2
        rcases g1b with g | ⟨q, hq, g⟩
        · omega
        · obtain ⟨y', x', hs', hn', _, qx⟩ := toPix q hq
          have := (hb y' x' hs' hn').2.2.2
          omega
    show bboxFinish [e.1, e.2.1, e.2.2.1, e.2.2.2] = bboxFinish [G0, G1, G2, G3]
    rw [e0, e1, e2, e3]


/-- `py_bbox`'s final test: an image without non-zero pixel gives all zeros, otherwise the loop's box is returned -/
theorem bboxGeneric_cases (shape : List Nat) (data : List Int) (hlen : data.length = shapeSize shape)
    (hnd : 0 < shape.length) :
    let ps := ((List.range data.length).filter fun i => data.getD i 0 ≠ 0).map (unravelI shape)
    let ext := (List.range data.length).foldl (fun ext i =>
      if data.getD i 0 ≠ 0 then bboxUpdate ext (unravelI shape i) else ext) (bboxInit shape)
    (ps = [] → bboxGeneric shape data = (bboxInit shape).map (fun _ => 0)) ∧
    (ps ≠ [] → bboxGeneric shape data = ext) := by
  intro ps ext
  obtain ⟨_, g0, _, g0b⟩ := bbox_facts shape data hlen 0 hnd
  have hext : ext = ps.foldl bboxUpdate (bboxInit shape) := by
    show (List.range data.length).foldl (fun ext i =>
      if data.getD i 0 ≠ 0 then bboxUpdate ext (unravelI shape i) else ext) (bboxInit shape) = _
    have := foldl_filter_map (fun i => decide (data.getD i 0 ≠ 0)) (unravelI shape) bboxUpdate
      (List.range data.length) (bboxInit shape)
    simp only [decide_eq_true_eq] at this
    rw [this]
  constructor
  · intro hps
    have he : ext = bboxInit shape := by rw [hext, hps]; rfl
    show bboxFinish ext = _
    rw [he]
    unfold bboxFinish
    have := (bboxInit_getD shape 0 hnd).2.1
    simp only [Nat.mul_zero, Nat.zero_add] at this
    rw [if_pos (by rw [this]; rfl)]
  · intro hps
    obtain ⟨p0, hp0⟩ := List.exists_mem_of_ne_nil _ hps
    have h1 := (g0 p0 hp0).2
    have h0 : 0 ≤ p0.getD 0 0 := by
      obtain ⟨i, _, rfl⟩ := List.mem_map.mp hp0
      rw [unravelI_getD]; omega
    simp only [Nat.mul_zero, Nat.zero_add] at h1
    show bboxFinish ext = ext
    unfold bboxFinish
    have h1' : p0.getD 0 0 + 1 ≤ ext.getD 1 0 := h1
    have hb : (ext.getD 1 0 == 0) = false := by
      rw [beq_eq_false_iff_ne]
      intro h; omega
    rw [hb]
    rfl

/-- the indicator image of label `l` -/
def indicator (labels : List Int) (l : Nat) : List Int := labels.map fun v => if v.toNat = l then 1 else 0

theorem bboxLabeled_eq (shape : List Nat) (labels : List Int) (n : Nat) :
    bboxLabeled shape labels n =
      (List.range (n + 1)).flatMap fun l => bboxGeneric shape (indicator labels l) := by
  unfold bboxLabeled
  simp only
  apply List.flatMap_congr
  intro l hl
  have hl' : l < n + 1 := List.mem_range.mp hl
  have hr := modify_fold_slot (fun i (r : List Int) => bboxUpdate r (unravelI shape i))
    (fun i => (labels.getD i 0).toNat) l (List.range labels.length) (Array.replicate (n + 1) (bboxInit shape))
  simp only [Array.getElem?_replicate, hl', if_true, Option.map_some] at hr
  unfold bboxGeneric
  congr 1
  rw [Array.getD_eq_getD_getElem?, hr, Option.getD_some]
  have hlen : (indicator labels l).length = labels.length := by simp [indicator]
  rw [hlen]
  have := foldl_filter_map (fun i => decide ((indicator labels l).getD i 0 ≠ 0)) (unravelI shape) bboxUpdate
    (List.range labels.length) (bboxInit shape)
  simp only [decide_eq_true_eq] at this
  rw [this, List.foldl_map]
  congr 1
  apply List.filter_congr
  intro i hi
  have hi' : i < labels.length := List.mem_range.mp hi
  have : (indicator labels l).getD i 0 = if (labels.getD i 0).toNat = l then 1 else 0 := by
    unfold indicator
    simp [List.getD_eq_getElem?_getD, List.getElem?_map, hi']
  rw [this]
  by_cases h : (labels.getD i 0).toNat = l
  · simp [h]
  · simp [h]

end Mahotas.C13
