/-
C13 — centre of mass: the model of `center_of_mass<T>` (run at `Float`) equals `Σ v·coord / Σ v`
per label over any field.
-/
import Mahotas.Model.C13
import Mathlib.Algebra.Field.Defs
import Mathlib.Algebra.BigOperators.Group.List.Basic
import Mathlib.Tactic.Ring
namespace Mahotas.C13
open Mahotas

/-- the field operations as a `NumOps` -/
def fieldOps (α : Type) [Field α] : NumOps α :=
  { zero := 0, add := (· + ·), mul := (· * ·), div := (· / ·), ofNat := fun n => (n : α) }

/-- folding `modify (key i) (g i)` over a list of indices: slot `s` sees exactly the indices with key `s` -/
theorem modify_fold_slot {β : Type} (g : Nat → β → β) (key : Nat → Nat) (s : Nat) :
    ∀ (is : List Nat) (arr : Array β),
    (is.foldl (fun a i => a.modify (key i) (g i)) arr)[s]? =
      (arr[s]?).map (fun v => (is.filter (fun i => key i = s)).foldl (fun v i => g i v) v) := by
  intro is
  induction is with
  | nil => intro arr; simp
  | cons i is ih =>
    intro arr
    simp only [List.foldl_cons]
    rw [ih, Array.getElem?_modify]
    by_cases h : key i = s
    · simp only [h, if_true, List.filter_cons, decide_true]
      cases arr[s]? <;> simp
    · simp only [h, if_false, List.filter_cons, decide_false]
      simp

theorem comFold_fst {α : Type} (ops : NumOps α) (shape : List Nat) (vals : List α) (labels : List Int) :
    ∀ (is : List Nat) (st : Array α × Array (List α)),
    (is.foldl (comStep ops shape vals labels) st).1 =
      is.foldl (fun a i => a.modify (labels.getD i 0).toNat (fun t => ops.add t (vals.getD i ops.zero))) st.1 := by
  intro is
  induction is with
  | nil => intro st; rfl
  | cons i is ih => intro st; simp only [List.foldl_cons]; rw [ih]; rfl

theorem comFold_snd {α : Type} (ops : NumOps α) (shape : List Nat) (vals : List α) (labels : List Int) :
    ∀ (is : List Nat) (st : Array α × Array (List α)),
    (is.foldl (comStep ops shape vals labels) st).2 =
      is.foldl (fun a i => a.modify (labels.getD i 0).toNat
        (rowAdd ops shape.length (vals.getD i ops.zero) (unravel shape i))) st.2 := by
  intro is
  induction is with
  | nil => intro st; rfl
  | cons i is ih => intro st; simp only [List.foldl_cons]; rw [ih]; rfl

theorem rowAdd_getD {α : Type} [Field α] (nd : Nat) (val : α) (pos : List Nat) (row : List α) (j : Nat)
    (hj : j < nd) :
    (rowAdd (fieldOps α) nd val pos row).getD j 0 = row.getD j 0 + val * ((pos.getD (nd - 1 - j) 0 : Nat) : α) := by
  unfold rowAdd fieldOps
  simp [List.getD_eq_getElem?_getD, List.getElem?_map, List.getElem?_range, hj]

/-- the running total of a label -/
theorem total_fold {α : Type} [Field α] (vals : List α) : ∀ (is : List Nat) (t : α),
    is.foldl (fun v i => v + vals.getD i 0) t = t + (is.map fun i => vals.getD i 0).sum := by
  intro is
  induction is with
  | nil => intro t; simp
  | cons i is ih => intro t; simp only [List.foldl_cons, List.map_cons, List.sum_cons]; rw [ih]; ring

/-- the running row of a label -/
theorem row_fold {α : Type} [Field α] (shape : List Nat) (vals : List α) (j : Nat) (hj : j < shape.length) :
    ∀ (is : List Nat) (row : List α),
    (is.foldl (fun r i => rowAdd (fieldOps α) shape.length (vals.getD i 0) (unravel shape i) r) row).getD j 0 =
      row.getD j 0 +
        (is.map fun i => vals.getD i 0 * (((unravel shape i).getD (shape.length - 1 - j) 0 : Nat) : α)).sum := by
  intro is
  induction is with
  | nil => intro row; simp
  | cons i is ih =>
    intro row
    simp only [List.foldl_cons, List.map_cons, List.sum_cons]
    rw [ih, rowAdd_getD _ _ _ _ _ hj]
    ring

theorem reverse_map_range {β : Type} (f : Nat → β) (n : Nat) :
    ((List.range n).map f).reverse = (List.range n).map fun j => f (n - 1 - j) := by
  apply List.ext_getElem
  · simp
  · intro k h1 h2
    simp only [List.length_reverse, List.length_map, List.length_range] at h1
    simp [List.getElem_reverse]

/-- **com_eq.** Over any field, the model of `center_of_mass` returns, for every label `l ≤ max label` and
    axis `j`, `Σ v·coord_j / Σ v` over the pixels carrying label `l` (coordinates in the documented order). -/
theorem comModelG_eq {α : Type} [Field α] (shape : List Nat) (vals : List α) (labels : List Int) :
    comModelG (fieldOps α) shape vals labels =
      (List.range ((maxOf labels).toNat + 1)).flatMap fun l =>
        (List.range shape.length).map fun j =>
          (((List.range vals.length).filter fun i => (labels.getD i 0).toNat = l).map fun i =>
              vals.getD i 0 * (((unravel shape i).getD j 0 : Nat) : α)).sum /
          (((List.range vals.length).filter fun i => (labels.getD i 0).toNat = l).map fun i => vals.getD i 0).sum := by
  unfold comModelG
  simp only
  rw [comFold_fst, comFold_snd]
  apply List.flatMap_congr
  intro l hl
  have hl' : l < (maxOf labels).toNat + 1 := List.mem_range.mp hl
  rw [reverse_map_range]
  apply List.map_congr_left
  intro j hj
  have hj' : j < shape.length := List.mem_range.mp hj
  have hz : (fieldOps α).zero = (0 : α) := rfl
  -- totals
  have ht := modify_fold_slot (fun i (t : α) => (fieldOps α).add t (vals.getD i (fieldOps α).zero))
    (fun i => (labels.getD i 0).toNat) l (List.range vals.length)
    (Array.replicate ((maxOf labels).toNat + 1) (fieldOps α).zero)
  have hr := modify_fold_slot (fun i =>
      rowAdd (fieldOps α) shape.length (vals.getD i (fieldOps α).zero) (unravel shape i))
    (fun i => (labels.getD i 0).toNat) l (List.range vals.length)
    (Array.replicate ((maxOf labels).toNat + 1) (List.replicate shape.length (fieldOps α).zero))
  simp only [Array.getElem?_replicate, hl', if_true, Option.map_some, hz] at ht hr
  simp only [hz, Array.getD_eq_getD_getElem?]
  rw [ht, hr]
  simp only [Option.getD_some]
  have e1 := total_fold vals ((List.range vals.length).filter fun i => (labels.getD i 0).toNat = l) 0
  have e2 := row_fold shape vals (shape.length - 1 - j) (by omega)
    ((List.range vals.length).filter fun i => (labels.getD i 0).toNat = l) (List.replicate shape.length 0)
  have hsub : shape.length - 1 - (shape.length - 1 - j) = j := by omega
  rw [hsub] at e2
  have hzero : (List.replicate shape.length (0 : α)).getD (shape.length - 1 - j) 0 = 0 := by
    have : shape.length - 1 - j < shape.length := by omega
    simp [List.getD_eq_getElem?_getD, List.getElem?_replicate, this]
  rw [hzero, zero_add] at e2
  rw [zero_add] at e1
  have e1' : List.foldl (fun v i => (fieldOps α).add v (vals.getD i 0)) 0
      ((List.range vals.length).filter fun i => (labels.getD i 0).toNat = l) =
      (((List.range vals.length).filter fun i => (labels.getD i 0).toNat = l).map fun i => vals.getD i 0).sum := e1
  rw [e1', e2]
  rfl

end Mahotas.C13
