/-
C13 — filter_labeled: the composition remove_bordering → relabel → labeled_size → remove_regions → relabel
zeroes exactly the selected regions and renumbers; relabel is canonical under injective renaming.
-/
import Mahotas.Proofs.C13
import Mahotas.Proofs.C13Regions
namespace Mahotas.C13
open Mahotas

/-- **relabel is canonical**: renaming the labels by a function that is injective on them gives the same
    renumbering (the loop only ever compares labels for equality) -/
theorem renumGo_map_inj (f : Int → Int) (D : Int → Prop)
    (hinj : ∀ a b, D a → D b → f a = f b → a = b) :
    ∀ (vals : List Int) (seen seen' : List (Int × Int)) (next : Int), (∀ v ∈ vals, D v) →
      (∀ u, D u → seen.lookup (f u) = seen'.lookup u) →
      C03.renumGo seen next (vals.map f) = C03.renumGo seen' next vals := by
  intro vals
  induction vals with
  | nil => intro seen seen' next _ _; simp [C03.renumGo]
  | cons v vs ih =>
    intro seen seen' next hD hl
    have hv : D v := hD v List.mem_cons_self
    have hvs : ∀ u ∈ vs, D u := fun u hu => hD u (List.mem_cons_of_mem _ hu)
    rw [List.map_cons]
    cases h' : seen'.lookup v with
    | some l =>
      have h : seen.lookup (f v) = some l := by rw [hl v hv]; exact h'
      rw [C03.renumGo_cons_some h, C03.renumGo_cons_some h', ih seen seen' next hvs hl]
    | none =>
      have h : seen.lookup (f v) = none := by rw [hl v hv]; exact h'
      rw [C03.renumGo_cons_none h, C03.renumGo_cons_none h']
      have hl2 : ∀ u, D u → ((f v, next) :: seen).lookup (f u) = ((v, next) :: seen').lookup u := by
        intro u hu
        by_cases e : u = v
        · subst e; rw [C03.lookup_cons_self, C03.lookup_cons_self]
        · have e2 : f u ≠ f v := fun c => e (hinj u v hu hv c)
          rw [C03.lookup_cons_ne _ _ _ _ e2, C03.lookup_cons_ne _ _ _ _ e]
          exact hl u hu
      rw [ih _ _ (next + 1) hvs hl2]

theorem relabel_map_inj (f : Int → Int) (vals : List Int) (hf0 : f 0 = 0)
    (hinj : ∀ a b, (a ∈ vals ∨ a = 0) → (b ∈ vals ∨ b = 0) → f a = f b → a = b) :
    relabel (vals.map f) = relabel vals := by
  unfold relabel C03.renumber
  apply renumGo_map_inj f (fun a => a ∈ vals ∨ a = 0) hinj vals _ _ 1 (fun v hv => Or.inl hv)
  intro u hu
  by_cases e : u = 0
  · subst e; rw [hf0]
  · have e2 : f u ≠ 0 := by
      intro c
      rw [← hf0] at c
      exact e (hinj u 0 hu (Or.inr rfl) c)
    rw [C03.lookup_cons_ne _ _ _ _ e2, C03.lookup_cons_ne _ _ _ _ e]
    rfl

theorem maxOf_ge : ∀ (vals : List Int) (m : Int), m ≤ vals.foldl max m ∧ ∀ v ∈ vals, v ≤ vals.foldl max m := by
  intro vals
  induction vals with
  | nil => intro m; simp
  | cons x xs ih =>
    intro m
    simp only [List.foldl_cons]
    obtain ⟨a, b⟩ := ih (max m x)
    refine ⟨le_trans (le_max_left _ _) a, ?_⟩
    intro v hv
    rcases List.mem_cons.mp hv with e | hv
    · subst e; exact le_trans (le_max_right _ _) a
    · exact b v hv

/-- the size table the wrapper computes: bin `l` of the histogram = number of pixels labelled `l` -/
theorem sizes_getD (n : Nat) (vals : List Int) (hv : ∀ v ∈ vals, 0 ≤ v) (l : Nat) (hl : l < n) :
    (histogram n vals).getD l 0 = (vals.filter (· == (l : Int))).length := by
  unfold histogram
  rw [Array.getD_eq_getD_getElem?, histogram_slot n l hl vals _ hv]
  simp [hl]


/-- removing the labels whose histogram bin fails the size test = zeroing the regions whose size fails it -/
theorem removeBySize (L : List Int) (nr minSize maxSize : Nat) (hnn : ∀ v ∈ L, 0 ≤ v)
    (hle : ∀ v ∈ L, v ≤ (nr : Int)) :
    removeRegions L (((List.range (nr + 1)).filter fun l =>
        l ≠ 0 && badSize minSize maxSize ((histogram (nr + 1) L).getD l 0)).map fun (l : Nat) => (l : Int)) =
      L.map fun w => if w ≠ 0 && badSize minSize maxSize (L.filter (· == w)).length then 0 else w := by
  rw [removeRegions_eq_spec]
  unfold removeRegionsSpec
  apply List.map_congr_left
  intro w hw
  have h0 := hnn w hw
  have h1 := hle w hw
  have hsz : (histogram (nr + 1) L).getD w.toNat 0 = (L.filter (· == w)).length := by
    rw [sizes_getD (nr + 1) L hnn w.toNat (by omega)]
    have : ((w.toNat : Nat) : Int) = w := by omega
    rw [this]
  have hc : (((List.range (nr + 1)).filter fun l =>
        l ≠ 0 && badSize minSize maxSize ((histogram (nr + 1) L).getD l 0)).map fun (l : Nat) => (l : Int)).contains w =
      (w ≠ 0 && badSize minSize maxSize (L.filter (· == w)).length) := by
    rw [Bool.eq_iff_iff, ← hsz]
    simp only [List.contains_iff_mem, List.mem_map, List.mem_filter, List.mem_range]
    constructor
    · rintro ⟨l, ⟨hl, hb⟩, rfl⟩
      have : ((l : Nat) : Int).toNat = l := by omega
      rw [this]
      simp only [Bool.and_eq_true, decide_eq_true_eq] at hb ⊢
      exact ⟨by omega, hb.2⟩
    · intro hb
      simp only [Bool.and_eq_true, decide_eq_true_eq] at hb
      refine ⟨w.toNat, ⟨by omega, ?_⟩, by omega⟩
      simp only [Bool.and_eq_true, decide_eq_true_eq]
      exact ⟨by omega, hb.2⟩
  rw [hc]

theorem count_map_inj (f : Int → Int) (L : List Int) (v : Int) (hv : v ∈ L)
    (hinj : ∀ a b, a ∈ L → b ∈ L → f a = f b → a = b) :
    ((L.map f).filter (· == f v)).length = (L.filter (· == v)).length := by
  rw [List.filter_map, List.length_map]
  congr 1
  apply List.filter_congr
  intro u hu
  simp only [Function.comp]
  by_cases e : u = v
  · subst e; simp
  · have : f u ≠ f v := fun c => e (hinj u v hu hv c)
    simp [e, this]

/-- what `remove_bordering` does to one label -/
def dropTouching (shape : List Nat) (labels : List Int) (v : Int) : Int :=
  if v ≠ 0 && touchesBorder shape labels (shape.map fun _ => 1) v then 0 else v

theorem removeBorderingSpec_eq_map (shape : List Nat) (labels : List Int) :
    removeBorderingSpec shape labels (shape.map fun _ => 1) = labels.map (dropTouching shape labels) := rfl

theorem dropTouching_cases (shape : List Nat) (labels : List Int) (v : Int) :
    (v ≠ 0 ∧ touchesBorder shape labels (shape.map fun _ => 1) v = true ∧ dropTouching shape labels v = 0) ∨
    ((v = 0 ∨ touchesBorder shape labels (shape.map fun _ => 1) v = false) ∧ dropTouching shape labels v = v) := by
  unfold dropTouching
  by_cases hv0 : v = 0
  · right; subst hv0; exact ⟨Or.inl rfl, by simp⟩
  · cases hT : touchesBorder shape labels (shape.map fun _ => 1) v
    · right; exact ⟨Or.inr rfl, by simp⟩
    · left; exact ⟨hv0, rfl, by simp [hv0]⟩

/-- a region that does not touch the border keeps all its pixels -/
theorem count_dropTouching (shape : List Nat) (labels : List Int) (v : Int) (hv0 : v ≠ 0)
    (hT : touchesBorder shape labels (shape.map fun _ => 1) v = false) :
    ((labels.map (dropTouching shape labels)).filter (· == v)).length = (labels.filter (· == v)).length := by
  rw [List.filter_map, List.length_map]
  congr 1
  apply List.filter_congr
  intro u _
  simp only [Function.comp]
  rcases dropTouching_cases shape labels u with ⟨_, hTu, hd⟩ | ⟨_, hd⟩
  · rw [hd]
    have h1 : ((0 : Int) == v) = false := by simp; exact fun c => hv0 c.symm
    have h2 : (u == v) = false := by
      simp only [beq_eq_false_iff_ne]
      intro c; subst c; rw [hT] at hTu; cases hTu
    rw [h1, h2]
  · rw [hd]

/-- zero a label whose region size (in `L`) fails the size test -/
def sizeZero (minSize maxSize : Nat) (L : List Int) (w : Int) : Int :=
  if w ≠ 0 && badSize minSize maxSize (L.filter (· == w)).length then 0 else w

/-- the specified fate of one label when `remove_bordering = True` -/
def keepFn (shape : List Nat) (labels : List Int) (minSize maxSize : Nat) (v : Int) : Int :=
  if v ≠ 0 && ((true && touchesBorder shape labels (shape.map fun _ => 1) v) ||
      badSize minSize maxSize (labels.filter (· == v)).length) then 0 else v

theorem map3 (d f H : Int → Int) (l : List Int) :
    ((l.map d).map f).map H = l.map (fun v => H (f (d v))) := by
  simp [List.map_map]

theorem map2 (k f : Int → Int) (l : List Int) : (l.map k).map f = l.map (fun v => f (k v)) := by
  simp [List.map_map]

/-- **filter_labeled.** -/
theorem filterLabeled_eq (shape : List Nat) (labels : List Int) (rb : Bool) (minSize maxSize : Nat)
    (hnn : ∀ v ∈ labels, 0 ≤ v) (hlen : labels.length = shapeSize shape) :
    filterLabeled shape labels rb minSize maxSize = relabel (filterKept shape labels rb minSize maxSize) := by
  cases rb with
  | false =>
    unfold filterLabeled filterKept
    simp only [Bool.false_eq_true, if_false, Bool.false_and, Bool.false_or]
    have hle : ∀ v ∈ labels, v ≤ (((maxOf labels).toNat : Nat) : Int) := by
      intro v hv
      have := (maxOf_ge labels 0).2 v hv
      unfold maxOf
      omega
    rw [removeBySize labels _ minSize maxSize hnn hle]
  | true =>
    unfold filterLabeled
    simp only [if_true]
    rw [removeBordering_eq_spec shape labels _ hlen, removeBorderingSpec_eq_map]
    -- the intermediate relabelling is a renaming by an injective function
    obtain ⟨f, hf, hf0, hpos, hinj⟩ := C03.renumber_map 0 (labels.map (dropTouching shape labels))
    have hlt : ∀ (v l : Int), ([((0 : Int), (0 : Int))] : List (Int × Int)).lookup v = some l → l < 1 := by
      intro v l h
      have := (C03.seenInv_init 0).lt v l h
      omega
    obtain ⟨hn0, hcnt, _⟩ := C03.renumGo_count (labels.map (dropTouching shape labels)) _ _ hlt
    generalize hL1 : labels.map (dropTouching shape labels) = L1 at hf hpos hinj hn0 hcnt ⊢
    have hrel : (relabel L1).1 = L1.map f := hf
    have hcnt' : ∀ l ∈ (relabel L1).1, l ≤ (relabel L1).2 := hcnt
    have hn0' : 0 ≤ (relabel L1).2 := by
      have : (1 : Int) - 1 ≤ (relabel L1).2 := hn0
      omega
    have hnn1 : ∀ w ∈ L1.map f, 0 ≤ w := by
      intro w hw
      obtain ⟨v, hv, rfl⟩ := List.mem_map.mp hw
      by_cases e : v = 0
      · rw [e, hf0]
      · have := hpos v hv e; omega
    have hle1 : ∀ w ∈ L1.map f, w ≤ ((((relabel L1).2).toNat : Nat) : Int) := by
      intro w hw
      have := hcnt' w (by rw [hrel]; exact hw)
      omega
    rw [hrel, removeBySize (L1.map f) _ minSize maxSize hnn1 hle1]
    have hinjL : ∀ a b, a ∈ L1 → b ∈ L1 → f a = f b → a = b :=
      fun a b ha hb => hinj a b (Or.inl ha) (Or.inl hb)
    -- rewrite as a renaming of the specified map
    have hkey : ((L1.map f).map fun w =>
          if w ≠ 0 && badSize minSize maxSize ((L1.map f).filter (· == w)).length then 0 else w) =
        (filterKept shape labels true minSize maxSize).map f := by
      rw [← hL1]
      show ((labels.map (dropTouching shape labels)).map f).map
          (sizeZero minSize maxSize ((labels.map (dropTouching shape labels)).map f)) =
        (labels.map (keepFn shape labels minSize maxSize)).map f
      rw [map3 (dropTouching shape labels) f
        (sizeZero minSize maxSize ((labels.map (dropTouching shape labels)).map f)) labels,
        map2 (keepFn shape labels minSize maxSize) f labels]
      apply List.map_congr_left
      intro v hv
      show sizeZero minSize maxSize ((labels.map (dropTouching shape labels)).map f)
          (f (dropTouching shape labels v)) = f (keepFn shape labels minSize maxSize v)
      rcases dropTouching_cases shape labels v with ⟨hv0, hT, hd⟩ | ⟨hc, hd⟩
      · -- touches the border: zero on both sides
        rw [hd, hf0]
        have c2 : keepFn shape labels minSize maxSize v = 0 := by
          unfold keepFn; rw [hT]; simp [hv0]
        rw [c2, hf0]
        unfold sizeZero; simp
      · rw [hd]
        by_cases hv0 : v = 0
        · subst hv0
          have c2 : keepFn shape labels minSize maxSize 0 = 0 := by
            unfold keepFn; simp
          rw [c2, hf0]
          unfold sizeZero; simp
        · have hT : touchesBorder shape labels (shape.map fun _ => 1) v = false := by
            rcases hc with h | h
            · exact absurd h hv0
            · exact h
          have hvL1 : v ∈ labels.map (dropTouching shape labels) :=
            List.mem_map.mpr ⟨v, hv, hd⟩
          have hfv : f v ≠ 0 := by
            have := hpos v (by rw [← hL1]; exact hvL1) hv0; omega
          have hc1 : ((List.map f (List.map (dropTouching shape labels) labels)).filter (· == f v)).length =
              (labels.filter (· == v)).length := by
            rw [count_map_inj f _ v hvL1 (by rw [hL1]; exact hinjL), count_dropTouching shape labels v hv0 hT]
          unfold sizeZero keepFn
          rw [hc1, hT]
          cases hB : badSize minSize maxSize (labels.filter (· == v)).length
          · simp
          · simp [hfv, hv0, hf0]
    rw [hkey]
    apply relabel_map_inj f _ hf0
    -- every kept label is a label of L1 or 0
    have hsub : ∀ a, (a ∈ filterKept shape labels true minSize maxSize ∨ a = 0) → (a ∈ L1 ∨ a = 0) := by
      rintro a (ha | ha)
      · unfold filterKept at ha
        obtain ⟨v, hv, rfl⟩ := List.mem_map.mp ha
        show (keepFn shape labels minSize maxSize v ∈ L1 ∨ keepFn shape labels minSize maxSize v = 0)
        by_cases hc : (v ≠ 0 && ((true && touchesBorder shape labels (shape.map fun _ => 1) v) ||
            badSize minSize maxSize (labels.filter (· == v)).length)) = true
        · right; unfold keepFn; rw [if_pos hc]
        · have hk : keepFn shape labels minSize maxSize v = v := by unfold keepFn; rw [if_neg hc]
          rw [hk]
          rcases dropTouching_cases shape labels v with ⟨hv0, hT, _⟩ | ⟨_, hd⟩
          · exfalso; apply hc; rw [hT]; simp [hv0]
          · left; rw [← hL1]; exact List.mem_map.mpr ⟨v, hv, hd⟩
      · right; exact ha
    intro a b ha hb hab
    exact hinj a b (hsub a ha) (hsub b hb) hab

end Mahotas.C13
