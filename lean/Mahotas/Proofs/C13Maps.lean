/-
C13 — borders / border / bwperim (model = specification through F1–F5), remove_bordering,
is_same_labeling.
-/
import Mahotas.Model.C13
import Mahotas.Proofs.Border
import Mahotas.Proofs.C03Label
namespace Mahotas.C13
open Mahotas

/-! ### borders -/

/-- the code's border rule equals the mathematical one position-wise (all axes non-empty) -/
theorem fixPos_eq_specPos (m : Mode) : ∀ (shape : List Nat) (p : List Int), (∀ d ∈ shape, 0 < d) →
    fixPos m shape p = specPos m shape p := by
  intro shape
  induction shape with
  | nil => intro p _; cases p <;> simp [fixPos, specPos]
  | cons d ds ih =>
    intro p hs
    cases p with
    | nil => simp [fixPos, specPos]
    | cons a ps =>
      have hd : (0 : Int) < (d : Int) := by
        have := hs d List.mem_cons_self
        omega
      simp only [fixPos, specPos]
      rw [fixOffset_eq_spec m a d hd, ih ps (fun x hx => hs x (List.mem_cons_of_mem _ hx))]

theorem bordersModel_eq_spec (m : Mode) (shape : List Nat) (labels : List Int) (offs : List (List Int))
    (hs : ∀ d ∈ shape, 0 < d) : bordersModel m shape labels offs = bordersSpec m shape labels offs := by
  unfold bordersModel bordersSpec
  apply List.map_congr_left
  intro i _
  simp only [fixPos_eq_specPos m shape _ hs]

theorem bwperim_eq_spec (m : Mode) (shape : List Nat) (bw : List Int) (offs : List (List Int))
    (hs : ∀ d ∈ shape, 0 < d) : bwperim m shape bw offs = bwperimSpec m shape bw offs := by
  unfold bwperim bwperimSpec
  rw [bordersModel_eq_spec m shape bw offs hs]

/-- in `constant`/`ignore` mode the specified neighbour is the position itself when inside the image and
    nothing otherwise -/
theorem borderModel_eq_spec (shape : List Nat) (labels : List Int) (offs : List (List Int)) (li lj : Int)
    (hk : ∀ k ∈ offs, k.length = shape.length) :
    borderModel shape labels offs li lj = borderSpec2 shape labels offs li lj := by
  unfold borderModel borderSpec2
  apply List.map_congr_left
  intro ii _
  have hany : ∀ (f g : List Int → Bool), (∀ k ∈ offs, f k = g k) → offs.any f = offs.any g := by
    intro f g h
    induction offs with
    | nil => rfl
    | cons k ks ih =>
      simp only [List.any_cons]
      rw [h k List.mem_cons_self, ih (fun k hk' => hk k (List.mem_cons_of_mem _ hk'))
        (fun k hk' => h k (List.mem_cons_of_mem _ hk'))]
  have hl : ∀ k ∈ offs, (addPos (unravelI shape ii) k).length = shape.length := by
    intro k hko
    rw [C03.addPos_length _ _ (by rw [C03.unravelI_length, hk k hko]), C03.unravelI_length]
  generalize labels.getD ii 0 = cur
  by_cases hc : cur = li ∨ cur = lj
  · simp only [hc, if_true]
    apply hany
    intro k hko
    cases hf : fixPos .constant shape (addPos (unravelI shape ii) k) with
    | none =>
      have hin : inside shape (addPos (unravelI shape ii) k) = false := by
        cases h : inside shape (addPos (unravelI shape ii) k)
        · rfl
        · have := (C03.fixPos_constant_inside shape _ (hl k hko) _).mpr ⟨h, rfl⟩
          rw [hf] at this; cases this
      simp [hin]
    | some q =>
      obtain ⟨hin, hq⟩ := (C03.fixPos_constant_inside shape _ (hl k hko) q).mp hf
      subst hq
      simp only [hin, Bool.true_and]
      generalize labels.getD (ravelI shape (addPos (unravelI shape ii) k)) 0 = nb
      by_cases h1 : cur = li
      · by_cases h2 : cur = lj
        · have : li = lj := by rw [← h1, h2]
          subst this
          subst h1
          simp
        · subst h1
          have h3 : ¬ lj = cur := fun e => h2 e.symm
          simp [h2]
      · have h2 : cur = lj := by
          rcases hc with h | h
          · exact absurd h h1
          · exact h
        subst h2
        simp [h1]
  · simp only [hc, if_false]
    have h1 : ¬ cur = li := fun h => hc (Or.inl h)
    have h2 : ¬ cur = lj := fun h => hc (Or.inr h)
    symm
    rw [List.any_eq_false]
    intro k _
    simp [h1, h2]

/-! ### is_same_labeling -/

/-- the pairs form a partial bijection: equal first components iff equal second components -/
def PBij (G : Int → Int → Prop) : Prop := ∀ a b a' b', G a b → G a' b' → (a = a' ↔ b = b')

theorem sameGo_spec : ∀ (ps : List (Int × Int)) (index rindex : List (Int × Int)),
    (∀ a b, index.lookup a = some b ↔ rindex.lookup b = some a) →
    (sameGo index rindex ps = true ↔
      PBij (fun a b => index.lookup a = some b ∨ (a, b) ∈ ps)) := by
  intro ps
  induction ps with
  | nil =>
    intro index rindex hinv
    simp only [sameGo, true_iff]
    intro a b a' b' h h'
    simp only [List.not_mem_nil, or_false] at h h'
    constructor
    · intro e; subst e; rw [h] at h'; exact Option.some.inj h'
    · intro e; subst e
      rw [hinv] at h h'
      rw [h] at h'; exact Option.some.inj h'
  | cons p ps ih =>
    intro index rindex hinv
    obtain ⟨a, b⟩ := p
    -- what the two `insert`s leave in the maps for the keys `a` and `b`
    cases ha : index.lookup a with
    | some b0 =>
      by_cases hb0 : b0 = b
      · subst hb0
        have hb : rindex.lookup b0 = some a := (hinv a b0).mp ha
        have hstep : sameGo index rindex ((a, b0) :: ps) = sameGo index rindex ps := by
          simp [sameGo, ha, hb]
        rw [hstep, ih index rindex hinv]
        constructor
        · intro h x y x' y' hx hy
          apply h
          · rcases hx with hx | hx
            · exact Or.inl hx
            · rcases List.mem_cons.mp hx with e | hx
              · cases e; exact Or.inl ha
              · exact Or.inr hx
          · rcases hy with hy | hy
            · exact Or.inl hy
            · rcases List.mem_cons.mp hy with e | hy
              · cases e; exact Or.inl ha
              · exact Or.inr hy
        · intro h x y x' y' hx hy
          apply h
          · rcases hx with hx | hx
            · exact Or.inl hx
            · exact Or.inr (List.mem_cons_of_mem _ hx)
          · rcases hy with hy | hy
            · exact Or.inl hy
            · exact Or.inr (List.mem_cons_of_mem _ hy)
      · have hstep : sameGo index rindex ((a, b) :: ps) = false := by
          simp [sameGo, ha, hb0]
        rw [hstep]
        constructor
        · intro h; cases h
        · intro h
          have := (h a b0 a b (Or.inl ha) (Or.inr List.mem_cons_self)).mp rfl
          exact absurd this hb0
    | none =>
      cases hb : rindex.lookup b with
      | some a0 =>
        have ha0 : a0 ≠ a := by
          intro e; subst e
          have := (hinv a0 b).mpr hb
          rw [ha] at this; cases this
        have hstep : sameGo index rindex ((a, b) :: ps) = false := by
          simp [sameGo, ha, hb, ha0]
        rw [hstep]
        constructor
        · intro h; cases h
        · intro h
          have := (h a0 b a b (Or.inl ((hinv a0 b).mpr hb)) (Or.inr List.mem_cons_self)).mpr rfl
          exact absurd this ha0
      | none =>
        have hstep : sameGo index rindex ((a, b) :: ps) = sameGo ((a, b) :: index) ((b, a) :: rindex) ps := by
          simp [sameGo, ha, hb]
        have hinv' : ∀ x y, ((a, b) :: index).lookup x = some y ↔ ((b, a) :: rindex).lookup y = some x := by
          intro x y
          by_cases ex : x = a
          · subst ex
            rw [C03.lookup_cons_self]
            by_cases ey : y = b
            · subst ey; rw [C03.lookup_cons_self]; simp
            · rw [C03.lookup_cons_ne _ _ _ _ ey]
              constructor
              · intro h; exact absurd (Option.some.inj h).symm ey
              · intro h
                have := (hinv x y).mpr h
                rw [ha] at this; cases this
          · rw [C03.lookup_cons_ne _ _ _ _ ex]
            by_cases ey : y = b
            · subst ey
              rw [C03.lookup_cons_self]
              constructor
              · intro h
                have := (hinv x y).mp h
                rw [hb] at this; cases this
              · intro h; exact absurd (Option.some.inj h).symm ex
            · rw [C03.lookup_cons_ne _ _ _ _ ey]
              exact hinv x y
        rw [hstep, ih _ _ hinv']
        have key : ∀ x y, (((a, b) :: index).lookup x = some y ∨ (x, y) ∈ ps) ↔
            (index.lookup x = some y ∨ (x, y) ∈ (a, b) :: ps) := by
          intro x y
          by_cases ex : x = a
          · subst ex
            rw [C03.lookup_cons_self, ha]
            constructor
            · rintro (h | h)
              · right; rw [← Option.some.inj h]; exact List.mem_cons_self
              · right; exact List.mem_cons_of_mem _ h
            · rintro (h | h)
              · cases h
              · rcases List.mem_cons.mp h with e | h
                · left; cases e; rfl
                · right; exact h
          · rw [C03.lookup_cons_ne _ _ _ _ ex]
            constructor
            · rintro (h | h)
              · exact Or.inl h
              · exact Or.inr (List.mem_cons_of_mem _ h)
            · rintro (h | h)
              · exact Or.inl h
              · rcases List.mem_cons.mp h with e | h
                · cases e; exact absurd rfl ex
                · exact Or.inr h
        constructor
        · intro h x y x' y' hx hy
          exact h x y x' y' ((key x y).mpr hx) ((key x' y').mpr hy)
        · intro h x y x' y' hx hy
          exact h x y x' y' ((key x y).mp hx) ((key x' y').mp hy)

end Mahotas.C13
