/-
C13 — the executable oracles of the driver (`sameSpec`, `relabelSpec`, `filterLabeledSpec`) equal the models.
-/
import Mahotas.Proofs.C13Maps
import Mahotas.Proofs.C13Filter
import Mahotas.Proofs.C03Renum
import Mahotas.Proofs.C13BBox
namespace Mahotas.C13
open Mahotas

/-! ### is_same_labeling -/

/-- the quadratic oracle decides the partial-bijection property of the pairs (plus `(0, 0)`) -/
theorem sameSpec_iff (a b : List Int) :
    sameSpec a b = true ↔ PBij (fun x y => (x = 0 ∧ y = 0) ∨ (x, y) ∈ a.zip b) := by
  have key : sameSpec a b = true ↔
      ∀ p ∈ a.zip b, (p.1 = 0 ↔ p.2 = 0) ∧ ∀ q ∈ a.zip b, (p.1 = q.1 ↔ p.2 = q.2) := by
    unfold sameSpec
    simp only [List.all_eq_true, Bool.and_eq_true, Bool.beq_eq_decide_eq, decide_eq_true_eq,
      decide_eq_decide]
  rw [key]
  constructor
  · intro h x y x' y' hx hy
    rcases hx with ⟨rfl, rfl⟩ | hx <;> rcases hy with ⟨rfl, rfl⟩ | hy
    · simp
    · have := (h (x', y') hy).1
      simp only at this
      omega
    · have := (h (x, y) hx).1
      simp only at this
      omega
    · exact (h (x, y) hx).2 (x', y') hy
  · intro h p hp
    obtain ⟨x, y⟩ := p
    refine ⟨?_, ?_⟩
    · exact h x y 0 0 (Or.inr hp) (Or.inl ⟨rfl, rfl⟩)
    · intro q hq
      obtain ⟨x', y'⟩ := q
      exact h x y x' y' (Or.inr hp) (Or.inr hq)

/-! ### relabel -/

/-- index `i` is the first occurrence of a non-zero value -/
def isFirst (L : List Int) (i : Nat) : Bool := L.getD i 0 ≠ 0 && L.idxOf (L.getD i 0) == i

/-- number of first occurrences of non-zero values among the first `m` positions -/
def cnt (L : List Int) (m : Nat) : Nat := ((List.range m).filter (isFirst L)).length

theorem cnt_succ (L : List Int) (m : Nat) : cnt L (m + 1) = cnt L m + if isFirst L m then 1 else 0 := by
  unfold cnt
  rw [List.range_succ, List.filter_append, List.length_append]
  by_cases h : isFirst L m <;> simp [h]

theorem filter_lt_range (p : Nat → Bool) (n m : Nat) (h : m ≤ n) :
    (((List.range n).filter p).filter fun i => decide (i < m)).length = ((List.range m).filter p).length := by
  induction n with
  | zero =>
    have : m = 0 := by omega
    subst this; simp
  | succ n ih =>
    by_cases hm : m ≤ n
    · rw [List.range_succ, List.filter_append, List.filter_append, List.length_append, ih hm]
      have : (([n].filter p).filter fun i => decide (i < m)) = [] := by
        rw [List.filter_eq_nil_iff]
        intro a ha
        have := (List.mem_filter.mp ha).1
        simp at this
        subst this
        simp; omega
      rw [this]; simp
    · have : m = n + 1 := by omega
      subst this
      rw [List.filter_eq_self.mpr]
      intro a ha
      have := List.mem_range.mp (List.mem_filter.mp ha).1
      simpa using this

/-- the loop on a suffix `vals` of `L = pre ++ vals`: when the map `seen` holds exactly the non-zero values of
    `pre` with their ranks and `next` is one more than their number, the output is the rank of every value -/
theorem renumGo_eq_rank (L : List Int) : ∀ (vals pre : List Int) (seen : List (Int × Int)) (next : Int),
    L = pre ++ vals →
    seen.lookup 0 = some 0 →
    (∀ v, v ≠ 0 → v ∈ pre → seen.lookup v = some (((cnt L (L.idxOf v) + 1 : Nat)) : Int)) →
    (∀ v, v ≠ 0 → v ∉ pre → seen.lookup v = none) →
    next = (((cnt L pre.length + 1 : Nat)) : Int) →
    C03.renumGo seen next vals =
      (vals.map fun v => if v == 0 then 0 else (((cnt L (L.idxOf v) + 1 : Nat)) : Int), ((cnt L L.length : Nat) : Int)) := by
  intro vals
  induction vals with
  | nil =>
    intro pre seen next hL h0 h1 h2 hn
    have : pre.length = L.length := by rw [hL]; simp
    simp only [C03.renumGo, List.map_nil]
    rw [hn, this]
    congr 1
    omega
  | cons v vs ih =>
    intro pre seen next hL h0 h1 h2 hn
    have hL' : L = (pre ++ [v]) ++ vs := by rw [hL]; simp
    have hlen : (pre ++ [v]).length = pre.length + 1 := by simp
    have hget : L.getD pre.length 0 = v := by rw [hL]; simp [List.getD_eq_getElem?_getD]
    by_cases hv0 : v = 0
    · subst hv0
      rw [C03.renumGo_cons_some h0, ih (pre ++ [0]) seen next hL' h0 ?_ ?_ ?_]
      · simp
      · intro w hw hmem
        apply h1 w hw
        rcases List.mem_append.mp hmem with h | h
        · exact h
        · simp at h; exact absurd h hw
      · intro w hw hmem
        apply h2 w hw
        intro h; exact hmem (List.mem_append_left _ h)
      · rw [hlen, cnt_succ]
        have : isFirst L pre.length = false := by unfold isFirst; rw [hget]; simp
        rw [this]; simpa using hn
    · by_cases hmem : v ∈ pre
      · have hlk := h1 v hv0 hmem
        rw [C03.renumGo_cons_some hlk, ih (pre ++ [v]) seen next hL' h0 ?_ ?_ ?_]
        · simp [hv0]
        · intro w hw hm
          apply h1 w hw
          rcases List.mem_append.mp hm with h | h
          · exact h
          · simp at h; subst h; exact hmem
        · intro w hw hm
          apply h2 w hw
          intro h; exact hm (List.mem_append_left _ h)
        · rw [hlen, cnt_succ]
          have hidx : L.idxOf v < pre.length := by
            rw [hL, List.idxOf_append, if_pos hmem]; exact List.idxOf_lt_length_of_mem hmem
          have : isFirst L pre.length = false := by
            unfold isFirst; rw [hget]; simp; intro _; omega
          rw [this]; simpa using hn
      · have hlk := h2 v hv0 hmem
        have hidx : L.idxOf v = pre.length := by
          rw [hL, List.idxOf_append, if_neg hmem, List.idxOf_cons_self]; simp
        have hfirst : isFirst L pre.length = true := by
          unfold isFirst; rw [hget, hidx]; simp [hv0]
        rw [C03.renumGo_cons_none hlk, ih (pre ++ [v]) ((v, next) :: seen) (next + 1) hL' ?_ ?_ ?_ ?_]
        · simp [hv0, hidx, hn]
        · rw [C03.lookup_cons_ne _ _ _ _ (Ne.symm hv0)]
          exact h0
        · intro w hw hm
          by_cases e : w = v
          · subst e; rw [C03.lookup_cons_self, hidx, hn]
          · rw [C03.lookup_cons_ne _ _ _ _ e]
            apply h1 w hw
            rcases List.mem_append.mp hm with h | h
            · exact h
            · simp at h; exact absurd h e
        · intro w hw hm
          have e : w ≠ v := by intro e; apply hm; rw [e]; simp
          rw [C03.lookup_cons_ne _ _ _ _ e]
          apply h2 w hw
          intro h; exact hm (List.mem_append_left _ h)
        · rw [hlen, cnt_succ, hfirst, hn]; simp

/-- **the relabel oracle is the relabel model**, for every list -/
theorem relabelSpec_eq (labels : List Int) : relabelSpec labels = relabel labels := by
  have h := renumGo_eq_rank labels labels [] [(0, 0)] 1 rfl (by simp) (by intro v _ h; simp at h)
    (by intro v hv _; rw [C03.lookup_cons_ne _ _ _ _ hv]; rfl) (by simp [cnt])
  unfold relabel C03.renumber
  rw [h]
  unfold relabelSpec
  simp only
  congr 1
  apply List.map_congr_left
  intro v _
  by_cases e : v = 0
  · simp [e]
  · simp only [beq_iff_eq, e, if_false]
    congr 2
    exact filter_lt_range _ _ _ List.idxOf_le_length

/-- **the filter_labeled oracle is the filter_labeled model** (non-negative labels filling the shape) -/
theorem filterLabeledSpec_eq (shape : List Nat) (labels : List Int) (rb : Bool) (minSize maxSize : Nat)
    (hnn : ∀ v ∈ labels, 0 ≤ v) (hlen : labels.length = shapeSize shape) :
    filterLabeledSpec shape labels rb minSize maxSize = filterLabeled shape labels rb minSize maxSize := by
  unfold filterLabeledSpec
  rw [relabelSpec_eq, filterLabeled_eq shape labels rb minSize maxSize hnn hlen]

/-! ### bbox -/

/-- a list of `2 n` entries is the concatenation of its `n` pairs -/
theorem pairs_flatMap : ∀ (n : Nat) (l : List Int), l.length = 2 * n →
    l = (List.range n).flatMap fun j => [l.getD (2 * j) 0, l.getD (2 * j + 1) 0] := by
  intro n
  induction n with
  | zero => intro l hl; simp at hl; subst hl; simp
  | succ n ih =>
    intro l hl
    match l, hl with
    | a :: b :: rest, hl =>
      have hr : rest.length = 2 * n := by simp at hl; omega
      rw [List.range_succ_eq_map, List.flatMap_cons, List.flatMap_map]
      have h1 : ∀ j, 2 * (j + 1) = 2 * j + 1 + 1 := by intro j; omega
      have h2 : ∀ j, 2 * (j + 1) + 1 = 2 * j + 1 + 1 + 1 := by intro j; omega
      simp only [Nat.succ_eq_add_one, h1, List.getD_cons_succ, Nat.mul_zero, List.getD_cons_zero,
        Nat.zero_add]
      rw [← ih rest hr]
      rfl

theorem foldl_bboxUpdate_length : ∀ (ps : List (List Int)) (ext : List Int),
    (ps.foldl bboxUpdate ext).length = ext.length := by
  intro ps
  induction ps with
  | nil => intro ext; rfl
  | cons p ps ih => intro ext; simp only [List.foldl_cons]; rw [ih, bboxUpdate_length]

theorem bboxInit_length (shape : List Nat) : (bboxInit shape).length = 2 * shape.length := by
  induction shape with
  | nil => rfl
  | cons d ds ih =>
    have hcons : bboxInit (d :: ds) = (d : Int) :: 0 :: bboxInit ds := by simp [bboxInit]
    rw [hcons]; simp [ih]; omega

/-- the oracle as a function of the list of non-zero positions -/
def bboxOfPs (nd : Nat) (ps : List (List Int)) : Option (List Int) :=
  match ps with
  | [] => none
  | p0 :: _ =>
    some ((List.range nd).flatMap fun j =>
      [ps.foldl (fun m p => min m (p.getD j 0)) (p0.getD j 0),
       ps.foldl (fun m p => max m (p.getD j 0 + 1)) (p0.getD j 0 + 1)])

theorem bboxSpec_ofPs (shape : List Nat) (data : List Int) :
    bboxSpec shape data = bboxOfPs shape.length
      (((List.range data.length).filter fun i => data.getD i 0 ≠ 0).map (unravelI shape)) := rfl

/-- **the bbox oracle is the bbox model**: for an image of rank ≥ 1 filling its shape, the oracle is `none`
    exactly when no pixel is non-zero (the model then returns zeros) and otherwise `some` of the model's box -/
theorem bboxSpec_eq (shape : List Nat) (data : List Int) (hlen : data.length = shapeSize shape)
    (hnd : 0 < shape.length) :
    let ps := ((List.range data.length).filter fun i => data.getD i 0 ≠ 0).map (unravelI shape)
    (ps = [] → bboxSpec shape data = none ∧ bboxGeneric shape data = List.replicate (2 * shape.length) 0) ∧
    (ps ≠ [] → bboxSpec shape data = some (bboxGeneric shape data)) := by
  intro ps
  obtain ⟨c1, c2⟩ := bboxGeneric_cases shape data hlen hnd
  constructor
  · intro hps
    refine ⟨?_, ?_⟩
    · rw [bboxSpec_ofPs]
      show bboxOfPs shape.length ps = none
      rw [hps]; rfl
    · rw [c1 hps, List.map_const', bboxInit_length]
  · intro hps
    rw [c2 hps]
    have hext : (List.range data.length).foldl (fun ext i =>
        if data.getD i 0 ≠ 0 then bboxUpdate ext (unravelI shape i) else ext) (bboxInit shape) =
        ps.foldl bboxUpdate (bboxInit shape) := by
      have := foldl_filter_map (fun i => decide (data.getD i 0 ≠ 0)) (unravelI shape) bboxUpdate
        (List.range data.length) (bboxInit shape)
      simp only [decide_eq_true_eq] at this
      rw [this]
    rw [hext]
    have hpl : ∀ p ∈ ps, ∀ j, j < shape.length → j < p.length ∧ 0 ≤ p.getD j 0 ∧
        p.getD j 0 < ((shape.getD j 0 : Nat) : Int) := by
      intro p hp j hj
      obtain ⟨i, hi, rfl⟩ := List.mem_map.mp hp
      have hi' : i < data.length := List.mem_range.mp (List.mem_filter.mp hi).1
      rw [unravelI_getD, C03.unravelI_length]
      have := unravel_lt shape i (by omega) j hj
      exact ⟨hj, by omega, by omega⟩
    rw [bboxSpec_ofPs]
    show bboxOfPs shape.length ps = _
    match ps, hps, hpl with
    | p0 :: rest, _, hpl =>
      show some _ = some _
      congr 1
      rw [pairs_flatMap shape.length (List.foldl bboxUpdate (bboxInit shape) (p0 :: rest))
        (by rw [foldl_bboxUpdate_length, bboxInit_length])]
      apply List.flatMap_congr
      intro j hj
      have hj' : j < shape.length := List.mem_range.mp hj
      obtain ⟨i0, i1, i2⟩ := bboxInit_getD shape j hj'
      obtain ⟨f1, f2⟩ := bboxFold_getD j (p0 :: rest) (bboxInit shape) (fun p hp => (hpl p hp j hj').1) i2
      obtain ⟨_, b0, b1⟩ := hpl p0 List.mem_cons_self j hj'
      rw [f1, f2, i0, i1]
      simp only [List.foldl_cons]
      rw [min_eq_right (le_of_lt b1), min_self, max_eq_right (by omega : (0 : Int) ≤ p0.getD j 0 + 1), max_self]

theorem nzPos_nil_iff (shape : List Nat) (data : List Int) :
    ((List.range data.length).filter fun i => data.getD i 0 ≠ 0).map (unravelI shape) = [] ↔
      data.all (· == 0) = true := by
  rw [List.map_eq_nil_iff, List.filter_eq_nil_iff]
  simp only [List.mem_range, decide_eq_true_eq, List.all_eq_true, beq_iff_eq]
  constructor
  · intro h v hv
    obtain ⟨i, hi, rfl⟩ := List.getElem_of_mem hv
    have := h i hi
    simpa [List.getD_eq_getElem?_getD, hi] using this
  · intro h i hi
    have := h data[i] (List.getElem_mem hi)
    simp [List.getD_eq_getElem?_getD, hi, this]

/-- closed form: `none` for an all-zero image, otherwise `some` of what the model returns -/
theorem bboxSpec_eq_ite (shape : List Nat) (data : List Int) (hlen : data.length = shapeSize shape)
    (hnd : 0 < shape.length) :
    bboxSpec shape data = (if data.all (· == 0) then none else some (bboxGeneric shape data)) ∧
    (data.all (· == 0) = true → bboxGeneric shape data = List.replicate (2 * shape.length) 0) := by
  obtain ⟨c1, c2⟩ := bboxSpec_eq shape data hlen hnd
  by_cases h : data.all (· == 0) = true
  · obtain ⟨a, b⟩ := c1 ((nzPos_nil_iff shape data).mpr h)
    exact ⟨by rw [a, if_pos h], fun _ => b⟩
  · have := c2 (fun e => h ((nzPos_nil_iff shape data).mp e))
    exact ⟨by rw [this, if_neg h], fun e => absurd e h⟩

/-- the oracle's box is tight: it contains every non-zero pixel and each bound is attained -/
theorem bboxSpec_sound (shape : List Nat) (data : List Int) (hlen : data.length = shapeSize shape)
    (hnd : 0 < shape.length) (b : List Int) (hb : bboxSpec shape data = some b) (j : Nat) (hj : j < shape.length) :
    let ps := ((List.range data.length).filter fun i => data.getD i 0 ≠ 0).map (unravelI shape)
    ps ≠ [] ∧ (∀ p ∈ ps, b.getD (2 * j) 0 ≤ p.getD j 0 ∧ p.getD j 0 + 1 ≤ b.getD (2 * j + 1) 0) ∧
    (∃ p ∈ ps, p.getD j 0 = b.getD (2 * j) 0) ∧ (∃ p ∈ ps, p.getD j 0 + 1 = b.getD (2 * j + 1) 0) := by
  intro ps
  obtain ⟨c1, c2⟩ := bboxSpec_eq shape data hlen hnd
  have hps : ps ≠ [] := by
    intro e
    rw [(c1 e).1] at hb
    cases hb
  have h2 := c2 hps
  rw [hb] at h2
  have hbe : b = bboxGeneric shape data := Option.some.inj h2
  rw [(bboxGeneric_cases shape data hlen hnd).2 hps] at hbe
  obtain ⟨t1, t2⟩ := bbox_tight shape data hlen j hj
  rw [hbe]
  exact ⟨hps, t1, (t2 hps).1, (t2 hps).2⟩

/-- **the labeled.bbox oracle is the labeled.bbox model** (non-negative labels filling a shape of rank ≥ 1) -/
theorem bboxLabeledSpec_eq (shape : List Nat) (labels : List Int) (n : Nat)
    (hnn : ∀ v ∈ labels, 0 ≤ v) (hlen : labels.length = shapeSize shape) (hnd : 0 < shape.length) :
    bboxLabeledSpec shape labels n = bboxLabeled shape labels n := by
  rw [bboxLabeled_eq]
  unfold bboxLabeledSpec
  apply List.flatMap_congr
  intro l _
  have hind : (labels.map fun v => if v == (l : Int) then (1 : Int) else 0) = indicator labels l := by
    unfold indicator
    apply List.map_congr_left
    intro v hv
    have := hnn v hv
    by_cases e : v = (l : Int)
    · have : v.toNat = l := by omega
      simp [e]
    · have : ¬ v.toNat = l := by omega
      simp [e, this]
  rw [hind]
  have hl2 : (indicator labels l).length = shapeSize shape := by rw [← hlen]; simp [indicator]
  obtain ⟨c1, c2⟩ := bboxSpec_eq shape (indicator labels l) hl2 hnd
  by_cases hps : ((List.range (indicator labels l).length).filter fun i => (indicator labels l).getD i 0 ≠ 0).map
      (unravelI shape) = []
  · obtain ⟨a, b⟩ := c1 hps
    rw [a, b]
  · rw [c2 hps]

/-! ### borders / bwperim on arrays with an empty axis -/

theorem shapeSize_zero_of_mem : ∀ (shape : List Nat), 0 ∈ shape → shapeSize shape = 0 := by
  intro shape
  induction shape with
  | nil => intro h; simp at h
  | cons d ds ih =>
    intro h
    simp only [shapeSize]
    rcases List.mem_cons.mp h with e | h
    · rw [← e]; simp
    · rw [ih h]; simp

/-- a full array has all axes non-empty or no pixel at all -/
theorem pos_or_nil_of_full (shape : List Nat) (labels : List Int) (hlen : labels.length = shapeSize shape) :
    (∀ d ∈ shape, 0 < d) ∨ labels = [] := by
  by_cases h : 0 ∈ shape
  · right
    rw [shapeSize_zero_of_mem shape h] at hlen
    exact List.eq_nil_of_length_eq_zero hlen
  · left
    intro d hd
    by_contra c
    have : d = 0 := by omega
    subst this
    exact h hd

theorem bordersSpec_eq (m : Mode) (shape : List Nat) (labels : List Int) (offs : List (List Int))
    (hs : (∀ d ∈ shape, 0 < d) ∨ labels = []) : bordersSpec m shape labels offs = bordersModel m shape labels offs := by
  rcases hs with hs | rfl
  · exact (bordersModel_eq_spec m shape labels offs hs).symm
  · rfl

theorem bwperimSpec_eq (m : Mode) (shape : List Nat) (bw : List Int) (offs : List (List Int))
    (hs : (∀ d ∈ shape, 0 < d) ∨ bw = []) : bwperimSpec m shape bw offs = bwperim m shape bw offs := by
  rcases hs with hs | rfl
  · exact (bwperim_eq_spec m shape bw offs hs).symm
  · rfl

end Mahotas.C13
