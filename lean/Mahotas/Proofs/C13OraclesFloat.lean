/-
C13 — the float instances of `labeled_sum/max/min`: the model run at `Float` equals the image of the exact
integer oracle under the embedding `k ↦ Float.ofInt k / scale`, *conditionally* on explicitly stated exactness
facts about that embedding (Lean's `Float` operations are opaque, so these facts cannot be proved; they are what
the harness' choice of dyadic data is meant to guarantee).
-/
import Mahotas.Proofs.C13OraclesNum
import Mahotas.Proofs.C13Com
namespace Mahotas.C13
open Mahotas

theorem valuesOf_map {α β : Type} (emb : β → α) (px : List (β × Int)) (l : Int) :
    valuesOf (px.map fun x => (emb x.1, x.2)) l = (valuesOf px l).map emb := by
  unfold valuesOf
  induction px with
  | nil => rfl
  | cons x xs ih =>
    simp only [List.map_cons, List.filter_cons]
    by_cases h : (x.2 == l) = true
    · simp only [h, if_true, List.map_cons, ih]
    · have h' : (x.2 == l) = false := by simpa using h
      simp only [h', Bool.false_eq_true, if_false, ih]

theorem zip_map_emb {α : Type} (emb : Int → α) : ∀ (data labels : List Int),
    (data.map emb).zip labels = (data.zip labels).map fun x => (emb x.1, x.2) := by
  intro data
  induction data with
  | nil => intro labels; rfl
  | cons d ds ih =>
    intro labels
    cases labels with
    | nil => rfl
    | cons b bs => simp only [List.map_cons, List.zip_cons_cons, ih]

/-- transfer of a fold along an embedding that commutes with the operation on the values that actually arise
    (every element against the running result of the elements before it) -/
theorem foldl_hom {α β : Type} (f : α → α → α) (g : β → β → β) (emb : β → α) : ∀ (vs : List β) (s : β),
    (∀ pre a rest, vs = pre ++ a :: rest →
      f (emb a) (emb (pre.foldl (fun r a => g a r) s)) = emb (g a (pre.foldl (fun r a => g a r) s))) →
    (vs.map emb).foldl (fun r a => f a r) (emb s) = emb (vs.foldl (fun r a => g a r) s) := by
  intro vs
  induction vs with
  | nil => intro s _; rfl
  | cons v vs ih =>
    intro s h
    simp only [List.map_cons, List.foldl_cons]
    have h1 := h [] v vs rfl
    simp only [List.foldl_nil] at h1
    rw [h1]
    apply ih (g v s)
    intro pre a rest e
    have := h (v :: pre) a rest (by rw [e]; rfl)
    simpa using this

/-- **labeled_sum at `Float`, conditional on exact partial sums.** -/
theorem sumFloat_slot_of_exact (emb : Int → Float) (n : Nat) (data labels : List Int) (l : Nat) (hl : l < n)
    (h0 : emb 0 = 0.0)
    (hexact : ∀ pre a rest, valuesOf (data.zip labels) (l : Int) = pre ++ a :: rest →
      emb a + emb pre.sum = emb (a + pre.sum)) :
    (sumFloat n ((data.map emb).zip labels))[l]? =
      ((foldSpec false "sum" n (data.zip labels))[l]?).map emb := by
  rw [foldSpec_sum]
  simp only [Bool.false_eq_true, if_false]
  rw [sumSpec_slot n _ l hl, Option.map_some, zip_map_emb]
  unfold sumFloat
  rw [labeledFold_slot _ _ n _ l hl, valuesOf_map, ← h0,
    foldl_hom (fun a r => a + r) (fun (a r : Int) => a + r) emb _ 0, foldl_add_eq_sum, Int.zero_add]
  intro pre a rest e
  rw [foldl_add_eq_sum, Int.zero_add]
  exact hexact pre a rest e

theorem foldl_stdMax_from_head (v0 : Int) (rest : List Int) :
    rest.foldl (fun r a => stdMax a r) v0 = (v0 :: rest).foldl max ((v0 :: rest).headD 0) := by
  simp only [List.foldl_cons, List.headD_cons, max_self]
  congr 1
  funext r a
  rw [stdMax_eq_max, max_comm]

theorem foldl_stdMin_from_head (v0 : Int) (rest : List Int) :
    rest.foldl (fun r a => stdMin a r) v0 = (v0 :: rest).foldl min ((v0 :: rest).headD 0) := by
  simp only [List.foldl_cons, List.headD_cons, min_self]
  congr 1
  funext r a
  rw [stdMin_eq_min, min_comm]

/-- **labeled_max / labeled_min at `Float`, conditional on a strictly monotone embedding** (on the values of the
    label) and on the identities not beating any value -/
theorem maxMinFloat_slot_of_monotone (emb : Int → Float) (lowest highest : Float) (n : Nat)
    (data labels : List Int) (l : Nat) (hl : l < n)
    (hne : valuesOf (data.zip labels) (l : Int) ≠ [])
    (hlow : ∀ v ∈ valuesOf (data.zip labels) (l : Int), ¬ (emb v < lowest))
    (hhigh : ∀ v ∈ valuesOf (data.zip labels) (l : Int), ¬ (highest < emb v))
    (hmono : ∀ a ∈ valuesOf (data.zip labels) (l : Int), ∀ b ∈ valuesOf (data.zip labels) (l : Int),
      (emb a < emb b ↔ a < b)) :
    (maxFloat lowest n ((data.map emb).zip labels))[l]? =
      ((foldSpec false "max" n (data.zip labels))[l]?).map emb ∧
    (minFloat highest n ((data.map emb).zip labels))[l]? =
      ((foldSpec false "min" n (data.zip labels))[l]?).map emb := by
  rw [foldSpec_max, foldSpec_min, maxSpec_slot n _ l hl, minSpec_slot n _ l hl, Option.map_some, Option.map_some,
    zip_map_emb]
  unfold maxFloat minFloat
  rw [labeledFold_slot _ _ n _ l hl, labeledFold_slot _ _ n _ l hl, valuesOf_map]
  generalize valuesOf (data.zip labels) (l : Int) = vs at hne hlow hhigh hmono
  match vs, hne with
  | v0 :: rest, _ =>
    have hv0 : v0 ∈ v0 :: rest := List.mem_cons_self
    constructor
    · rw [← foldl_stdMax_from_head]
      simp only [List.map_cons, List.foldl_cons]
      have hs : stdMax (emb v0) lowest = emb v0 := by
        unfold stdMax; rw [if_neg (hlow v0 hv0)]
      rw [hs, foldl_hom stdMax stdMax emb rest v0]
      intro pre a rest' e
      have ha : a ∈ v0 :: rest := by rw [e]; simp
      have hr : pre.foldl (fun r a => stdMax a r) v0 ∈ v0 :: rest := by
        rcases (foldl_max_spec pre v0).2.2 with h | h
        · rw [h]; exact hv0
        · rw [e]; exact List.mem_cons_of_mem _ (List.mem_append_left _ h)
      generalize pre.foldl (fun r a => stdMax a r) v0 = r at hr
      unfold stdMax
      by_cases c : a < r
      · rw [if_pos c, if_pos ((hmono a ha r hr).mpr c)]
      · rw [if_neg c, if_neg (fun c' => c ((hmono a ha r hr).mp c'))]
    · rw [← foldl_stdMin_from_head]
      simp only [List.map_cons, List.foldl_cons]
      have hs : stdMin (emb v0) highest = emb v0 := by
        unfold stdMin; rw [if_neg (hhigh v0 hv0)]
      rw [hs, foldl_hom stdMin stdMin emb rest v0]
      intro pre a rest' e
      have ha : a ∈ v0 :: rest := by rw [e]; simp
      have hr : pre.foldl (fun r a => stdMin a r) v0 ∈ v0 :: rest := by
        rcases (foldl_min_spec pre v0).2.2 with h | h
        · rw [h]; exact hv0
        · rw [e]; exact List.mem_cons_of_mem _ (List.mem_append_left _ h)
      generalize pre.foldl (fun r a => stdMin a r) v0 = r at hr
      unfold stdMin
      by_cases c : r < a
      · rw [if_pos c, if_pos ((hmono r hr a ha).mpr c)]
      · rw [if_neg c, if_neg (fun c' => c ((hmono r hr a ha).mp c'))]

/-! ### center_of_mass with arbitrary operations (the driver: `floatOps`) -/

theorem rowAdd_getD_gen {α : Type} (ops : NumOps α) (nd : Nat) (val : α) (pos : List Nat) (row : List α) (j : Nat)
    (hj : j < nd) :
    (rowAdd ops nd val pos row).getD j ops.zero =
      ops.add (row.getD j ops.zero) (ops.mul val (ops.ofNat (pos.getD (nd - 1 - j) 0))) := by
  unfold rowAdd
  simp [List.getD_eq_getElem?_getD, List.getElem?_map, List.getElem?_range, hj]

/-- the running row of a label, one coordinate at a time, for arbitrary operations -/
theorem row_fold_gen {α : Type} (ops : NumOps α) (nd : Nat) (v : Nat → α) (pos : Nat → List Nat) (j : Nat)
    (hj : j < nd) : ∀ (is : List Nat) (row : List α),
    (is.foldl (fun r i => rowAdd ops nd (v i) (pos i) r) row).getD j ops.zero =
      is.foldl (fun x i => ops.add x (ops.mul (v i) (ops.ofNat ((pos i).getD (nd - 1 - j) 0))))
        (row.getD j ops.zero) := by
  intro is
  induction is with
  | nil => intro row; rfl
  | cons i is ih =>
    intro row
    simp only [List.foldl_cons]
    rw [ih, rowAdd_getD_gen ops nd _ _ _ j hj]

/-- transfer of an accumulation over a list of indices along an embedding of ℤ that is exact on every step -/
theorem foldl_idx_hom {α : Type} (add : α → α → α) (emb : Int → α) (t : Nat → Int) (val : Nat → α) :
    ∀ (is : List Nat) (s : Int),
    (∀ pre i rest, is = pre ++ i :: rest →
      add (emb (s + (pre.map t).sum)) (val i) = emb (s + (pre.map t).sum + t i)) →
    is.foldl (fun acc i => add acc (val i)) (emb s) = emb (s + (is.map t).sum) := by
  intro is
  induction is with
  | nil => intro s _; simp
  | cons i is ih =>
    intro s h
    simp only [List.foldl_cons, List.map_cons, List.sum_cons]
    have h1 := h [] i is rfl
    simp only [List.map_nil, List.sum_nil, Int.add_zero] at h1
    rw [h1, ih (s + t i), Int.add_assoc]
    intro pre i' rest e
    have := h (i :: pre) i' rest (by rw [e]; rfl)
    simp only [List.map_cons, List.sum_cons] at this
    rw [Int.add_assoc s (t i), this]

/-- **center_of_mass with arbitrary operations, conditional on exact accumulation.** -/
theorem comModelG_of_exact {α : Type} (ops : NumOps α) (emb : Int → α) (shape : List Nat) (ks labels : List Int)
    (hnn : ∀ v ∈ labels, 0 ≤ v) (h0 : emb 0 = ops.zero)
    (htot : ∀ (l : Nat) (pre : List Nat) (i : Nat) (rest : List Nat),
      ((List.range ks.length).filter fun i => labels.getD i 0 == (l : Int)) = pre ++ i :: rest →
      ops.add (emb (pre.map fun i => ks.getD i 0).sum) (emb (ks.getD i 0)) =
        emb ((pre.map fun i => ks.getD i 0).sum + ks.getD i 0))
    (hrow : ∀ (l j : Nat), j < shape.length → ∀ (pre : List Nat) (i : Nat) (rest : List Nat),
      ((List.range ks.length).filter fun i => labels.getD i 0 == (l : Int)) = pre ++ i :: rest →
      ops.add (emb (pre.map fun i => ks.getD i 0 * ((unravel shape i).getD j 0 : Nat)).sum)
          (ops.mul (emb (ks.getD i 0)) (ops.ofNat ((unravel shape i).getD j 0))) =
        emb ((pre.map fun i => ks.getD i 0 * ((unravel shape i).getD j 0 : Nat)).sum +
          ks.getD i 0 * ((unravel shape i).getD j 0 : Nat))) :
    comModelG ops shape (ks.map emb) labels =
      (comSpec shape ks labels).map fun nd => ops.div (emb nd.1) (emb nd.2) := by
  unfold comModelG comSpec
  simp only [List.map_flatMap, List.map_map, List.length_map]
  rw [comFold_fst, comFold_snd]
  apply List.flatMap_congr
  intro l hl
  have hl' : l < (maxOf labels).toNat + 1 := List.mem_range.mp hl
  rw [reverse_map_range]
  apply List.map_congr_left
  intro j hj
  have hj' : j < shape.length := List.mem_range.mp hj
  have hjr : shape.length - 1 - j < shape.length := by omega
  have hsub : shape.length - 1 - (shape.length - 1 - j) = j := by omega
  have hf : ((List.range ks.length).filter fun i => decide ((labels.getD i 0).toNat = l)) =
      ((List.range ks.length).filter fun i => labels.getD i 0 == (l : Int)) := by
    apply List.filter_congr
    intro i _
    have h0' := getD_nonneg labels hnn i
    generalize labels.getD i 0 = x at h0'
    by_cases e : x = (l : Int)
    · have : x.toNat = l := by omega
      simp [e]
    · have : ¬ x.toNat = l := by omega
      simp [e, this]
  have hg : ∀ i, (ks.map emb).getD i ops.zero = emb (ks.getD i 0) := by
    intro i
    simp only [List.getD_eq_getElem?_getD, List.getElem?_map]
    cases ks[i]? with
    | none => simp [h0]
    | some v => simp
  have ht := modify_fold_slot (fun i (t : α) => ops.add t ((ks.map emb).getD i ops.zero))
    (fun i => (labels.getD i 0).toNat) l (List.range ks.length)
    (Array.replicate ((maxOf labels).toNat + 1) ops.zero)
  have hr := modify_fold_slot (fun i =>
      rowAdd ops shape.length ((ks.map emb).getD i ops.zero) (unravel shape i))
    (fun i => (labels.getD i 0).toNat) l (List.range ks.length)
    (Array.replicate ((maxOf labels).toNat + 1) (List.replicate shape.length ops.zero))
  simp only [Array.getElem?_replicate, hl', if_true, Option.map_some] at ht hr
  simp only [Array.getD_eq_getD_getElem?, Function.comp]
  rw [ht, hr]
  simp only [Option.getD_some]
  rw [hf, row_fold_gen ops shape.length _ _ _ hjr, hsub]
  have hzero : (List.replicate shape.length ops.zero).getD (shape.length - 1 - j) ops.zero = ops.zero := by
    simp [List.getD_eq_getElem?_getD, List.getElem?_replicate, hjr]
  rw [hzero]
  simp only [hg]
  rw [← h0, foldl_add_sum, foldl_add_sum,
    foldl_idx_hom ops.add emb (fun i => ks.getD i 0) (fun i => emb (ks.getD i 0)) _ 0,
    foldl_idx_hom ops.add emb (fun i => ks.getD i 0 * ((unravel shape i).getD j 0 : Nat))
      (fun i => ops.mul (emb (ks.getD i 0)) (ops.ofNat ((unravel shape i).getD j 0))) _ 0]
  · intro pre i rest e
    simp only [Int.zero_add]
    exact hrow l j hj' pre i rest e
  · intro pre i rest e
    simp only [Int.zero_add]
    exact htot l pre i rest e

end Mahotas.C13
