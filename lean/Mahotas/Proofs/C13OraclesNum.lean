/-
C13 — the executable oracles of the driver for the numeric call sites (`foldSpec` = `sumSpec`/`orSpec`/
`maxSpec`/`minSpec`, `countSpec`, `comSpec`) equal the models.
-/
import Mahotas.Proofs.C13
import Mahotas.Proofs.C13Com
import Mahotas.Proofs.C13Filter
namespace Mahotas.C13
open Mahotas

/-! ### labeled_sum / labeled_max / labeled_min -/

theorem foldSpec_sum (b : Bool) (n : Nat) (px : List (Int × Int)) :
    foldSpec b "sum" n px = if b then orSpec n px else sumSpec n px := by
  simp [foldSpec]

theorem foldSpec_max (b : Bool) (n : Nat) (px : List (Int × Int)) : foldSpec b "max" n px = maxSpec n px := by
  simp [foldSpec]

theorem foldSpec_min (b : Bool) (n : Nat) (px : List (Int × Int)) : foldSpec b "min" n px = minSpec n px := by
  simp [foldSpec]

theorem foldl_add_sum (vs : List Int) (s : Int) : vs.foldl (· + ·) s = s + vs.sum := by
  induction vs generalizing s with
  | nil => simp
  | cons v vs ih => simp only [List.foldl_cons, List.sum_cons]; rw [ih]; omega

theorem sumSpec_slot (n : Nat) (px : List (Int × Int)) (l : Nat) (hl : l < n) :
    (sumSpec n px)[l]? = some (valuesOf px (l : Int)).sum := by
  unfold sumSpec
  rw [List.getElem?_map, List.getElem?_range hl, Option.map_some, foldl_add_sum, Int.zero_add]

theorem orSpec_slot (n : Nat) (px : List (Int × Int)) (l : Nat) (hl : l < n) :
    (orSpec n px)[l]? = some (if (valuesOf px (l : Int)).any (· ≠ 0) then 1 else 0) := by
  unfold orSpec
  rw [List.getElem?_map, List.getElem?_range hl, Option.map_some]

theorem maxSpec_slot (n : Nat) (px : List (Int × Int)) (l : Nat) (hl : l < n) :
    (maxSpec n px)[l]? = some ((valuesOf px (l : Int)).foldl max ((valuesOf px (l : Int)).headD 0)) := by
  unfold maxSpec
  rw [List.getElem?_map, List.getElem?_range hl, Option.map_some]

theorem minSpec_slot (n : Nat) (px : List (Int × Int)) (l : Nat) (hl : l < n) :
    (minSpec n px)[l]? = some ((valuesOf px (l : Int)).foldl min ((valuesOf px (l : Int)).headD 0)) := by
  unfold minSpec
  rw [List.getElem?_map, List.getElem?_range hl, Option.map_some]

/-- a list and an array of the same length with equal slots -/
theorem list_eq_toList_of_slots {α : Type} (n : Nat) (l : List α) (a : Array α) (hl : l.length = n) (ha : a.size = n)
    (h : ∀ i, i < n → l[i]? = a[i]?) : l = a.toList := by
  apply List.ext_getElem?
  intro i
  by_cases hi : i < n
  · rw [h i hi]; simp
  · rw [List.getElem?_eq_none (by omega), List.getElem?_eq_none (by simp; omega)]

/-- integer dtypes: slot `l` of the sum oracle is slot `l` of the wrap-around model whenever the exact sum is
    representable in the dtype -/
theorem sumSpec_slot_eq_model (dt : DT) (wf : dt.WF) (n : Nat) (px : List (Int × Int)) (l : Nat) (hl : l < n)
    (hr : dt.InRange (valuesOf px (l : Int)).sum) :
    (foldSpec dt.isBool "sum" n px)[l]? = (sumInt dt n px)[l]? := by
  rw [foldSpec_sum, wf.notBool]
  simp only [Bool.false_eq_true, if_false]
  rw [sumSpec_slot n px l hl]
  have h0 : dt.wrap 0 = 0 := by
    apply DT.wrap_in
    have := wf.hi_pos
    rcases wf.lo_cases with h | h <;> omega
  unfold sumInt
  simp only [wf.notBool, Bool.false_eq_true, if_false]
  rw [labeledFold_slot _ _ n px l hl]
  have := foldl_wrap_add dt (valuesOf px (l : Int)) 0
  rw [h0] at this
  rw [this, Int.zero_add, DT.wrap_in dt _ hr]

/-- bool: the `or` oracle is the model, for every input -/
theorem orSpec_eq_model (n : Nat) (px : List (Int × Int)) :
    foldSpec dtBool.isBool "sum" n px = (sumInt dtBool n px).toList := by
  rw [foldSpec_sum]
  have hb : dtBool.isBool = true := rfl
  simp only [hb, if_true]
  have hsz : (sumInt dtBool n px).size = n := by
    unfold sumInt; simp only [hb, if_true]; exact labeledFold_size _ _ n px
  apply list_eq_toList_of_slots n _ _ (by simp [orSpec]) hsz
  intro l hl
  rw [orSpec_slot n px l hl]
  unfold sumInt
  simp only [hb, if_true]
  rw [labeledFold_slot _ _ n px l hl, foldl_or_any _ 0 (Or.inl rfl)]
  simp

theorem foldl_stdMax_eq (vs : List Int) (lowest : Int) (hne : vs ≠ []) (hlo : ∀ v ∈ vs, lowest ≤ v) :
    vs.foldl (fun r a => stdMax a r) lowest = vs.foldl max (vs.headD 0) := by
  match vs, hne with
  | v0 :: rest, _ =>
    have h0 := hlo v0 List.mem_cons_self
    simp only [List.foldl_cons, List.headD_cons]
    rw [stdMax_eq_max, max_eq_left h0, max_self]
    congr 1
    funext r a
    rw [stdMax_eq_max, max_comm]

theorem foldl_stdMin_eq (vs : List Int) (highest : Int) (hne : vs ≠ []) (hhi : ∀ v ∈ vs, v ≤ highest) :
    vs.foldl (fun r a => stdMin a r) highest = vs.foldl min (vs.headD 0) := by
  match vs, hne with
  | v0 :: rest, _ =>
    have h0 := hhi v0 List.mem_cons_self
    simp only [List.foldl_cons, List.headD_cons]
    rw [stdMin_eq_min, min_eq_left h0, min_self]
    congr 1
    funext r a
    rw [stdMin_eq_min, min_comm]

/-- the max / min oracles are the polymorphic model at ℤ on every non-empty label bounded by the identities -/
theorem maxSpec_slot_eq_exact (b : Bool) (lowest highest : Int) (n : Nat) (px : List (Int × Int)) (l : Nat)
    (hl : l < n) (hne : valuesOf px (l : Int) ≠ []) (hlo : ∀ v ∈ valuesOf px (l : Int), lowest ≤ v)
    (hhi : ∀ v ∈ valuesOf px (l : Int), v ≤ highest) :
    (foldSpec b "max" n px)[l]? = (labeledFold stdMax lowest n px)[l]? ∧
    (foldSpec b "min" n px)[l]? = (labeledFold stdMin highest n px)[l]? := by
  rw [foldSpec_max, foldSpec_min, maxSpec_slot n px l hl, minSpec_slot n px l hl,
    labeledFold_slot _ _ n px l hl, labeledFold_slot _ _ n px l hl,
    foldl_stdMax_eq _ lowest hne hlo, foldl_stdMin_eq _ highest hne hhi]
  exact ⟨rfl, rfl⟩

/-- the sum oracle is the polymorphic model at unbounded ℤ, for every input -/
theorem sumSpec_eq_exact (n : Nat) (px : List (Int × Int)) :
    foldSpec false "sum" n px = (labeledFold (fun a r => a + r) (0 : Int) n px).toList := by
  rw [foldSpec_sum]
  simp only [Bool.false_eq_true, if_false]
  apply list_eq_toList_of_slots n _ _ (by simp [sumSpec]) (labeledFold_size _ _ n px)
  intro l hl
  rw [sumSpec_slot n px l hl, labeledFold_slot _ _ n px l hl, foldl_add_eq_sum, Int.zero_add]

/-! ### labeled_size / fullhistogram -/

theorem histogram_size (n : Nat) (vals : List Int) : (histogram n vals).size = n := by
  unfold histogram
  have : ∀ (vals : List Int) (h : Array Nat),
      (vals.foldl (fun h v => h.modify v.toNat (· + 1)) h).size = h.size := by
    intro vals
    induction vals with
    | nil => intro h; rfl
    | cons v vs ih => intro h; simp only [List.foldl_cons]; rw [ih]; simp
  rw [this]; simp

theorem bool_counts : ∀ (vals : List Int), (∀ v ∈ vals, v = 0 ∨ v = 1) →
    (vals.filter (· == (0 : Int))).length + (vals.filter (· ≠ 0)).length = vals.length ∧
    (vals.filter (· == (1 : Int))).length = (vals.filter (· ≠ 0)).length := by
  intro vals
  induction vals with
  | nil => intro _; simp
  | cons v vs ih =>
    intro h
    obtain ⟨a, b⟩ := ih (fun w hw => h w (List.mem_cons_of_mem _ hw))
    rcases h v List.mem_cons_self with e | e
    · subst e
      simp only [List.filter_cons, List.length_cons]
      simp at a b ⊢
      exact ⟨by omega, b⟩
    · subst e
      simp only [List.filter_cons, List.length_cons]
      simp at a b ⊢
      exact ⟨by omega, b⟩

/-- **the histogram oracle is the histogram model** (non-negative values; bool images hold 0/1) -/
theorem countSpec_eq_model (isBool : Bool) (vals : List Int) (hv : ∀ v ∈ vals, 0 ≤ v)
    (hb : isBool = true → ∀ v ∈ vals, v ≤ 1) :
    countSpec vals (fullHistogram isBool vals).length = fullHistogram isBool vals := by
  cases isBool with
  | true =>
    have h01 : ∀ v ∈ vals, v = 0 ∨ v = 1 := by
      intro v hvm
      have := hv v hvm
      have := hb rfl v hvm
      omega
    obtain ⟨a, b⟩ := bool_counts vals h01
    unfold fullHistogram countSpec
    simp only [if_true, List.length_cons, List.length_nil]
    have hr : List.range (0 + 1 + 1) = [0, 1] := by decide
    rw [hr]
    simp only [List.map_cons, List.map_nil, Int.natCast_zero, Int.natCast_one]
    congr 1
    · omega
    · rw [b]
  | false =>
    unfold fullHistogram
    simp only [Bool.false_eq_true, if_false]
    have hsz := histogram_size ((maxOf vals).toNat + 1) vals
    rw [Array.length_toList, hsz]
    apply list_eq_toList_of_slots ((maxOf vals).toNat + 1) _ _ (by simp [countSpec]) hsz
    intro l hl
    unfold countSpec histogram
    rw [List.getElem?_map, List.getElem?_range hl, Option.map_some, histogram_slot _ l hl vals _ hv]
    simp [hl]

/-! ### center_of_mass -/

theorem cast_foldl_add {α : Type} [Field α] (xs : List Int) (s : Int) :
    ((xs.foldl (· + ·) s : Int) : α) = (s : α) + (xs.map fun k => ((k : Int) : α)).sum := by
  induction xs generalizing s with
  | nil => simp
  | cons x xs ih =>
    simp only [List.foldl_cons, List.map_cons, List.sum_cons]
    rw [ih, Int.cast_add, add_assoc]

theorem getD_nonneg (labels : List Int) (hnn : ∀ v ∈ labels, 0 ≤ v) (i : Nat) : 0 ≤ labels.getD i 0 := by
  rw [List.getD_eq_getElem?_getD]
  cases h : labels[i]? with
  | none => simp
  | some v => simpa using hnn v (List.mem_of_getElem? h)

/-- **the centre-of-mass oracle is the model over any field**: the exact fractions `(Σ k·coord_j, Σ k)` the
    oracle computes on the integers `ks`, read in a field, are the output of the polymorphic model run with the
    operations of that field on the same data (non-negative labels; `labels = []` = no label map) -/
theorem comSpec_eq_model {α : Type} [Field α] (shape : List Nat) (ks : List Int) (labels : List Int)
    (hnn : ∀ v ∈ labels, 0 ≤ v) :
    (comSpec shape ks labels).map (fun nd => ((nd.1 : Int) : α) / ((nd.2 : Int) : α)) =
      comModelG (fieldOps α) shape (ks.map fun k => ((k : Int) : α)) labels := by
  rw [comModelG_eq]
  unfold comSpec
  simp only [List.map_flatMap, List.map_map, List.length_map]
  apply List.flatMap_congr
  intro l _
  apply List.map_congr_left
  intro j _
  simp only [Function.comp]
  have hf : ((List.range ks.length).filter fun i => labels.getD i 0 == (l : Int)) =
      ((List.range ks.length).filter fun i => decide ((labels.getD i 0).toNat = l)) := by
    apply List.filter_congr
    intro i _
    have h0 := getD_nonneg labels hnn i
    generalize labels.getD i 0 = x at h0
    by_cases e : x = (l : Int)
    · have : x.toNat = l := by omega
      simp [e]
    · have : ¬ x.toNat = l := by omega
      simp [e, this]
  have hg : ∀ i, (ks.map fun k => ((k : Int) : α)).getD i 0 = ((ks.getD i 0 : Int) : α) := by
    intro i
    simp only [List.getD_eq_getElem?_getD, List.getElem?_map]
    cases ks[i]? <;> simp
  rw [hf, cast_foldl_add, cast_foldl_add]
  simp only [List.map_map, Function.comp_def, hg, Int.cast_mul, Int.cast_natCast, Int.cast_zero, zero_add]

end Mahotas.C13
