/-
C13 (round 4) — `labeled.perimeter`: the counts that enter the dot product with the weight table
(`bwperim`, 3×3 convolution in `reflect` mode, `fullhistogram`, first 34 bins) equal the direct classification of
every perimeter pixel by its numbers of edge and diagonal neighbours on the perimeter.
-/
import Mahotas.Proofs.C13Maps
import Mahotas.Proofs.C13OraclesNum
import Mahotas.Proofs.C13Filter
import Mathlib.Tactic.Ring
namespace Mahotas.C13
open Mahotas

/-- the weight table read through the mask: a bin `c + 2a + 10d` (`c ≤ 1` centre, `a ≤ 4` edge neighbours, `d ≤ 4`
    diagonal neighbours — the decomposition is unique) has the class the direct rule gives -/
theorem perimClass_table : ∀ (c : Fin 2) (a d : Fin 5),
    perimClass (c.val + 2 * a.val + 10 * d.val) = perimClassAD c.val a.val d.val := by
  decide

theorem perimClass_AD (c a d : Nat) (hc : c ≤ 1) (ha : a ≤ 4) (hd : d ≤ 4) :
    perimClass (c + 2 * a + 10 * d) = perimClassAD c a d :=
  perimClass_table ⟨c, by omega⟩ ⟨a, by omega⟩ ⟨d, by omega⟩

theorem perimAt_le (shape : List Nat) (perim : List Bool) (i : Nat) (k : List Int) : perimAt shape perim i k ≤ 1 := by
  unfold perimAt
  split
  · split <;> omega
  · omega

/-- one term of the convolution = mask weight × (is the reflected neighbour on the perimeter?) -/
theorem perimConv_term (shape : List Nat) (hs : ∀ d ∈ shape, 0 < d) (perim : List Bool) (i : Nat) (k : List Int) :
    perimTerm shape perim i k = perimMagic k * perimAt shape perim i k := by
  unfold perimTerm perimAt
  rw [fixPos_eq_specPos .reflect shape _ hs]
  cases specPos Mode.reflect shape (addPos (unravelI shape i) k) with
  | none => simp
  | some q =>
    simp only
    by_cases hq : perim.getD (ravelI shape q) false = true
    · rw [if_pos hq, if_pos hq]; simp
    · rw [if_neg hq, if_neg hq]; simp

/-- the value of the convolution at pixel `i` and its class -/
theorem perimConv_class (shape : List Nat) (hs : ∀ d ∈ shape, 0 < d) (perim : List Bool) (i : Nat) :
    perimClass (perimConvAt shape perim i) = perimCls shape perim i := by
  unfold perimConvAt
  simp only [perimConv_term shape hs perim i, nb9, List.map_cons, List.map_nil, List.foldl_cons, List.foldl_nil]
  have m1 : perimMagic [-1, -1] = 10 := by decide
  have m2 : perimMagic [-1, 0] = 2 := by decide
  have m3 : perimMagic [-1, 1] = 10 := by decide
  have m4 : perimMagic [0, -1] = 2 := by decide
  have m5 : perimMagic [0, 0] = 1 := by decide
  have m6 : perimMagic [0, 1] = 2 := by decide
  have m7 : perimMagic [1, -1] = 10 := by decide
  have m8 : perimMagic [1, 0] = 2 := by decide
  have m9 : perimMagic [1, 1] = 10 := by decide
  rw [m1, m2, m3, m4, m5, m6, m7, m8, m9]
  unfold perimCls
  have b1 := perimAt_le shape perim i [-1, -1]
  have b2 := perimAt_le shape perim i [-1, 0]
  have b3 := perimAt_le shape perim i [-1, 1]
  have b4 := perimAt_le shape perim i [0, -1]
  have b5 := perimAt_le shape perim i [0, 0]
  have b6 := perimAt_le shape perim i [0, 1]
  have b7 := perimAt_le shape perim i [1, -1]
  have b8 := perimAt_le shape perim i [1, 0]
  have b9 := perimAt_le shape perim i [1, 1]
  rw [← perimClass_AD _ _ _ b5 (by omega) (by omega)]
  congr 1
  ring

/-! ### counting through the histogram -/

theorem foldl_add_nat (l : List Nat) (a : Nat) : l.foldl (· + ·) a = a + l.sum := by
  induction l generalizing a with
  | nil => simp
  | cons x xs ih => simp only [List.foldl_cons, List.sum_cons]; rw [ih]; omega

theorem sum_indicator (x : Nat) : ∀ (S : List Nat), S.Nodup →
    (S.map fun v => if x = v then 1 else 0).sum = if x ∈ S then 1 else 0
  | [], _ => by simp
  | s :: S, hnd => by
    have hnd' := List.nodup_cons.1 hnd
    simp only [List.map_cons, List.sum_cons, List.mem_cons]
    rw [sum_indicator x S hnd'.2]
    by_cases h : x = s
    · subst h
      simp [hnd'.1]
    · simp [h]

/-- summing the multiplicities of the values in a duplicate-free list `S` counts the elements that lie in `S` -/
theorem sum_count_eq (S : List Nat) (hnd : S.Nodup) : ∀ (vs : List Nat),
    (S.map fun v => vs.count v).sum = (vs.filter fun x => decide (x ∈ S)).length
  | [] => by simp
  | x :: t => by
    have ih := sum_count_eq S hnd t
    have hsplit : (S.map fun v => (x :: t).count v).sum =
        (S.map fun v => t.count v).sum + (S.map fun v => if x = v then 1 else 0).sum := by
      clear ih
      induction S with
      | nil => simp
      | cons s S ihS =>
        simp only [List.map_cons, List.sum_cons]
        rw [ihS (List.nodup_cons.1 hnd).2, List.count_cons]
        simp only [beq_iff_eq]
        omega
    rw [hsplit, ih, sum_indicator x S hnd, List.filter_cons]
    by_cases h : x ∈ S
    · simp [h]
    · simp [h]

theorem count_cast (conv : List Nat) (v : Nat) :
    ((conv.map fun (x : Nat) => (x : Int)).filter (· == (v : Int))).length = conv.count v := by
  induction conv with
  | nil => rfl
  | cons x xs ih =>
    simp only [List.map_cons, List.filter_cons, List.count_cons, beq_iff_eq]
    by_cases h : x = v
    · subst h; simp [ih]
    · have h' : ¬ ((x : Int) = (v : Int)) := by omega
      simp [h, h', ih]

theorem perimClass_zero_of_ge (v : Nat) (h : 34 ≤ v) : perimClass v = 0 := by
  unfold perimClass
  have h1 : [5, 7, 15, 17, 25, 27].contains v = false := by
    simp only [List.contains_eq_mem, List.mem_cons, List.not_mem_nil, or_false, decide_eq_false_iff_not]; omega
  have h2 : [21, 33].contains v = false := by
    simp only [List.contains_eq_mem, List.mem_cons, List.not_mem_nil, or_false, decide_eq_false_iff_not]; omega
  have h3 : [13, 23].contains v = false := by
    simp only [List.contains_eq_mem, List.mem_cons, List.not_mem_nil, or_false, decide_eq_false_iff_not]; omega
  rw [h1, h2, h3]
  simp

/-- **perimeter: the counts read off the histogram = the direct classification of the perimeter pixels** -/
theorem perimeterCounts_eq_spec (m : Mode) (shape : List Nat) (bw : List Int) (offs : List (List Int))
    (hs : ∀ d ∈ shape, 0 < d) : perimeterCounts m shape bw offs = perimeterCountsSpec m shape bw offs := by
  unfold perimeterCounts perimeterCountsSpec
  rw [bwperim_eq_spec m shape bw offs hs]
  generalize bwperimSpec m shape bw offs = perim
  simp only
  apply List.map_congr_left
  intro c hc
  have hc0 : c ≠ 0 := by
    simp only [List.mem_cons, List.not_mem_nil, or_false] at hc
    omega
  generalize hconv : perimConv shape perim = conv
  generalize hconvI : (conv.map fun (v : Nat) => (v : Int)) = convI
  have hnn : ∀ v ∈ convI, 0 ≤ v := by
    intro v hv
    rw [← hconvI] at hv
    obtain ⟨w, _, rfl⟩ := List.mem_map.1 hv
    omega
  have hlen : (fullHistogram false convI).length = (maxOf convI).toNat + 1 := by
    unfold fullHistogram
    simp only [Bool.false_eq_true, if_false, Array.length_toList, histogram_size]
  have hget : ∀ v, v < (maxOf convI).toNat + 1 → (fullHistogram false convI).getD v 0 = conv.count v := by
    intro v hv
    unfold fullHistogram
    simp only [Bool.false_eq_true, if_false]
    have h1 := histogram_slot ((maxOf convI).toNat + 1) v hv convI (Array.replicate ((maxOf convI).toNat + 1) 0) hnn
    rw [List.getD_eq_getElem?_getD, Array.getElem?_toList]
    unfold histogram
    rw [h1]
    simp only [hv, Array.getElem?_replicate, if_true, Option.map_some, Option.getD_some, Nat.zero_add]
    rw [← hconvI, count_cast]
  rw [hlen, foldl_add_nat, Nat.zero_add]
  have hS : ((List.range (min 34 ((maxOf convI).toNat + 1))).filter fun v => perimClass v == c).Nodup :=
    List.Nodup.filter _ List.nodup_range
  have hmap : (((List.range (min 34 ((maxOf convI).toNat + 1))).filter fun v => perimClass v == c).map
      fun v => (fullHistogram false convI).getD v 0) =
      (((List.range (min 34 ((maxOf convI).toNat + 1))).filter fun v => perimClass v == c).map
      fun v => conv.count v) := by
    apply List.map_congr_left
    intro v hv
    have := (List.mem_range.1 (List.mem_filter.1 hv).1)
    exact hget v (by omega)
  rw [hmap, sum_count_eq _ hS conv]
  have hfil : (conv.filter fun x => decide (x ∈ (List.range (min 34 ((maxOf convI).toNat + 1))).filter
      fun v => perimClass v == c)) = conv.filter fun x => perimClass x == c := by
    apply List.filter_congr
    intro x hx
    rw [Bool.eq_iff_iff]
    simp only [decide_eq_true_eq, List.mem_filter, List.mem_range]
    constructor
    · intro h; exact h.2
    · intro h
      refine ⟨?_, h⟩
      have h34 : x < 34 := by
        by_contra hge
        have := perimClass_zero_of_ge x (by omega)
        rw [this] at h
        simp only [beq_iff_eq] at h
        exact hc0 h.symm
      have hxI : (x : Int) ∈ convI := by rw [← hconvI]; exact List.mem_map.2 ⟨x, hx, rfl⟩
      have := (maxOf_ge convI 0).2 (x : Int) hxI
      unfold maxOf
      omega
  rw [hfil, ← hconv]
  unfold perimConv
  rw [List.filter_map, List.length_map]
  congr 1
  apply List.filter_congr
  intro i _
  simp only [Function.comp]
  rw [perimConv_class shape hs perim i]

end Mahotas.C13
