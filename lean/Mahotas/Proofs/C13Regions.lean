/-
C13 — binary search (remove_regions), remove_bordering, bounding boxes.
-/
import Mahotas.Model.C13
import Mahotas.Proofs.C03Label
import Mathlib.Order.Basic
import Mathlib.Order.Lattice
import Mathlib.Algebra.Order.Group.Int
import Mathlib.Tactic.Linarith
namespace Mahotas.C13
open Mahotas

/-! ### `std::binary_search` -/

theorem lowerBound_spec (arr : Array Int) (x : Int)
    (hs : ∀ i j, i < j → j < arr.size → arr.getD i 0 ≤ arr.getD j 0) :
    ∀ (fuel first count : Nat), count ≤ fuel → first + count ≤ arr.size →
      first ≤ lowerBound arr x fuel first count ∧ lowerBound arr x fuel first count ≤ first + count ∧
      (∀ k, first ≤ k → k < lowerBound arr x fuel first count → arr.getD k 0 < x) ∧
      (∀ k, lowerBound arr x fuel first count ≤ k → k < first + count → x ≤ arr.getD k 0) := by
  intro fuel
  induction fuel with
  | zero =>
    intro first count hc _
    have : count = 0 := by omega
    subst this
    simp only [lowerBound]
    exact ⟨Nat.le_refl _, by omega, by intro k h1 h2; omega, by intro k h1 h2; omega⟩
  | succ fuel ih =>
    intro first count hc hsz
    by_cases h0 : count = 0
    · subst h0
      simp only [lowerBound, if_true]
      exact ⟨Nat.le_refl _, by omega, by intro k h1 h2; omega, by intro k h1 h2; omega⟩
    · have hstep : count / 2 < count := Nat.div_lt_self (by omega) (by omega)
      by_cases hlt : arr.getD (first + count / 2) 0 < x
      · have hl : lowerBound arr x (fuel + 1) first count =
            lowerBound arr x fuel (first + count / 2 + 1) (count - (count / 2 + 1)) := by
          show (if count = 0 then first else
            if arr.getD (first + count / 2) 0 < x then
              lowerBound arr x fuel (first + count / 2 + 1) (count - (count / 2 + 1))
            else lowerBound arr x fuel first (count / 2)) = _
          rw [if_neg h0, if_pos hlt]
        rw [hl]
        obtain ⟨a, b, c, d⟩ := ih (first + count / 2 + 1) (count - (count / 2 + 1)) (by omega) (by omega)
        refine ⟨by omega, by omega, ?_, ?_⟩
        · intro k h1 h2
          by_cases hk : k ≤ first + count / 2
          · by_cases hk2 : k = first + count / 2
            · rw [hk2]; exact hlt
            · have := hs k (first + count / 2) (by omega) (by omega)
              omega
          · exact c k (by omega) h2
        · intro k h1 h2
          exact d k h1 (by omega)
      · have hl : lowerBound arr x (fuel + 1) first count = lowerBound arr x fuel first (count / 2) := by
          show (if count = 0 then first else
            if arr.getD (first + count / 2) 0 < x then
              lowerBound arr x fuel (first + count / 2 + 1) (count - (count / 2 + 1))
            else lowerBound arr x fuel first (count / 2)) = _
          rw [if_neg h0, if_neg hlt]
        rw [hl]
        obtain ⟨a, b, c, d⟩ := ih first (count / 2) (by omega) (by omega)
        refine ⟨a, by omega, c, ?_⟩
        intro k h1 h2
        by_cases hk : k < first + count / 2
        · exact d k h1 hk
        · by_cases hk2 : k = first + count / 2
          · rw [hk2]; omega
          · have := hs (first + count / 2) k (by omega) (by omega)
            omega

theorem binarySearch_iff (arr : Array Int) (x : Int)
    (hs : ∀ i j, i < j → j < arr.size → arr.getD i 0 ≤ arr.getD j 0) :
    binarySearch arr x = true ↔ ∃ i, i < arr.size ∧ arr.getD i 0 = x := by
  obtain ⟨_, _, c, d⟩ := lowerBound_spec arr x hs (arr.size + 1) 0 arr.size (by omega) (by omega)
  unfold binarySearch
  simp only [Bool.and_eq_true, decide_eq_true_eq, Bool.not_eq_true', decide_eq_false_iff_not]
  constructor
  · rintro ⟨h1, h2⟩
    refine ⟨_, h1, ?_⟩
    have := d (lowerBound arr x (arr.size + 1) 0 arr.size) (Nat.le_refl _) (by omega)
    omega
  · rintro ⟨k, hk, hx⟩
    have hik : lowerBound arr x (arr.size + 1) 0 arr.size ≤ k := by
      by_contra hc
      have := c k (by omega) (by omega)
      omega
    refine ⟨by omega, ?_⟩
    by_cases e : lowerBound arr x (arr.size + 1) 0 arr.size = k
    · rw [e]; omega
    · have := hs (lowerBound arr x (arr.size + 1) 0 arr.size) k (by omega) hk
      omega

/-! ### `np.unique` + binary search = membership -/

theorem pairwise_eraseDups {R : Int → Int → Prop} : ∀ (n : Nat) (l : List Int), l.length ≤ n →
    l.Pairwise R → l.eraseDups.Pairwise R := by
  intro n
  induction n with
  | zero =>
    intro l hl _
    have : l = [] := List.eq_nil_of_length_eq_zero (by omega)
    subst this; simp
  | succ n ih =>
    intro l hl hp
    cases l with
    | nil => simp
    | cons a as =>
      rw [List.eraseDups_cons]
      have hp' := List.pairwise_cons.mp hp
      refine List.pairwise_cons.mpr ⟨?_, ?_⟩
      · intro b hb
        have hb1 := List.mem_eraseDups.mp hb
        exact hp'.1 b (List.mem_filter.mp hb1).1
      · apply ih
        · have := List.length_filter_le (fun b => !b == a) as
          simp at hl; omega
        · exact hp'.2.filter _

theorem sortedUnique_sorted (xs : List Int) : (sortedUnique xs).Pairwise (· ≤ ·) := by
  unfold sortedUnique
  apply pairwise_eraseDups _ _ (Nat.le_refl _)
  have := List.pairwise_mergeSort (le := fun (a b : Int) => decide (a ≤ b))
    (by intro a b c h1 h2; simp at *; omega) (by intro a b; simp; omega) xs
  exact this.imp (by intro a b h; simpa using h)

theorem mem_sortedUnique (xs : List Int) (v : Int) : v ∈ sortedUnique xs ↔ v ∈ xs := by
  unfold sortedUnique
  rw [List.mem_eraseDups, List.mem_mergeSort]

theorem removeRegions_eq_spec (labels regions : List Int) :
    removeRegions labels regions = removeRegionsSpec labels regions := by
  unfold removeRegions removeRegionsSpec
  apply List.map_congr_left
  intro v _
  have hs : ∀ i j, i < j → j < (sortedUnique regions).toArray.size →
      (sortedUnique regions).toArray.getD i 0 ≤ (sortedUnique regions).toArray.getD j 0 := by
    intro i j hij hj
    have hj' : j < (sortedUnique regions).length := by simpa using hj
    have := (List.pairwise_iff_getElem.mp (sortedUnique_sorted regions)) i j (by omega) hj' hij
    simpa [Array.getD_eq_getD_getElem?, hj', (by omega : i < (sortedUnique regions).length)] using this
  have hb := binarySearch_iff (sortedUnique regions).toArray v hs
  have hmem : (∃ i, i < (sortedUnique regions).toArray.size ∧ (sortedUnique regions).toArray.getD i 0 = v) ↔
      v ∈ regions := by
    rw [← mem_sortedUnique]
    constructor
    · rintro ⟨i, hi, rfl⟩
      have hi' : i < (sortedUnique regions).length := by simpa using hi
      simp [Array.getD_eq_getD_getElem?, hi']
    · intro hv
      obtain ⟨i, hi, rfl⟩ := List.getElem_of_mem hv
      exact ⟨i, by simpa using hi, by simp [Array.getD_eq_getD_getElem?, hi]⟩
  by_cases hv0 : v = 0
  · subst hv0
    by_cases hc : regions.contains 0 <;> simp [hc]
  · by_cases hc : v ∈ regions
    · have : binarySearch (sortedUnique regions).toArray v = true := hb.mpr (hmem.mpr hc)
      simp [this, hv0, hc]
    · have : binarySearch (sortedUnique regions).toArray v = false := by
        cases h : binarySearch (sortedUnique regions).toArray v
        · rfl
        · exact absurd (hmem.mp (hb.mp h)) hc
      simp [this, hc]
/-! ### coordinates are inside their axes -/

theorem unravel_lt : ∀ (shape : List Nat) (i : Nat), i < shapeSize shape →
    ∀ d, d < shape.length → (unravel shape i).getD d 0 < shape.getD d 0 := by
  intro shape
  induction shape with
  | nil => intro i _ d hd; simp at hd
  | cons n ds ih =>
    intro i hi d hd
    simp only [shapeSize] at hi
    have hS : 0 < shapeSize ds := by
      by_contra hc
      have : shapeSize ds = 0 := by omega
      rw [this] at hi; simp at hi
    cases d with
    | zero =>
      simp only [unravel, List.getD_cons_zero]
      exact (Nat.div_lt_iff_lt_mul hS).mpr hi
    | succ d =>
      simp only [unravel, List.getD_cons_succ]
      exact ih (i % shapeSize ds) (Nat.mod_lt _ hS) d (by simpa using hd)

/-! ### remove_bordering -/

theorem inBorderSlices_iff (n r x : Nat) (hx : x < n) :
    inBorderSlices n r x = true ↔ (x < r ∨ n ≤ x + r) := by
  unfold inBorderSlices
  simp only [Bool.or_eq_true, Bool.and_eq_true, decide_eq_true_eq]
  by_cases h : r ≤ n
  · simp only [h, if_true]
    constructor
    · rintro (h1 | ⟨h1, _⟩)
      · left; omega
      · right; omega
    · rintro (h1 | h1)
      · left; omega
      · right; omega
  · simp only [h, if_false]
    constructor
    · intro _; left; omega
    · intro _; left; omega

theorem removeBordering_eq_spec (shape : List Nat) (labels : List Int) (rsize : List Nat)
    (hlen : labels.length = shapeSize shape) :
    removeBordering shape labels rsize = removeBorderingSpec shape labels rsize := by
  unfold removeBordering removeBorderingSpec
  apply List.map_congr_left
  intro v _
  have hb : ∀ i, i < labels.length →
      ((∃ d, d < shape.length ∧
        inBorderSlices (shape.getD d 0) (rsize.getD d 0) ((unravel shape i).getD d 0) = true) ↔
      (∃ d, d < shape.length ∧ ((unravel shape i).getD d 0 < rsize.getD d 0 ∨
          shape.getD d 0 ≤ (unravel shape i).getD d 0 + rsize.getD d 0))) := by
    intro i hi
    constructor
    · rintro ⟨d, hd, h⟩
      exact ⟨d, hd, (inBorderSlices_iff _ _ _ (unravel_lt shape i (by omega) d hd)).mp h⟩
    · rintro ⟨d, hd, h⟩
      exact ⟨d, hd, (inBorderSlices_iff _ _ _ (unravel_lt shape i (by omega) d hd)).mpr h⟩
  have key : (((List.range labels.length).filter fun i =>
        labels.getD i 0 ≠ 0 &&
        (List.range shape.length).any fun d =>
          inBorderSlices (shape.getD d 0) (rsize.getD d 0) ((unravel shape i).getD d 0)).map
          fun i => labels.getD i 0).contains v = (v ≠ 0 && touchesBorder shape labels rsize v) := by
    rw [Bool.eq_iff_iff]
    unfold touchesBorder
    simp only [List.contains_iff_mem, List.mem_map, List.mem_filter, List.mem_range, Bool.and_eq_true,
      decide_eq_true_eq, List.any_eq_true, beq_iff_eq, Bool.or_eq_true]
    constructor
    · rintro ⟨i, ⟨hi, hnz, hany⟩, rfl⟩
      exact ⟨hnz, i, hi, rfl, (hb i hi).mp hany⟩
    · rintro ⟨hv, i, hi, rfl, hany⟩
      exact ⟨i, ⟨hi, hv, (hb i hi).mpr hany⟩, rfl⟩
  simp only [key]


/-! ### bounding box (generic loop) -/

theorem bboxUpdate_length : ∀ (p ext : List Int), (bboxUpdate ext p).length = ext.length := by
  intro p
  induction p with
  | nil =>
    intro ext
    cases ext with
    | nil => rfl
    | cons x xs => cases xs <;> rfl
  | cons a ps ih =>
    intro ext
    cases ext with
    | nil => rfl
    | cons x xs =>
      cases xs with
      | nil => rfl
      | cons y rest => simp [bboxUpdate, ih rest]

/-- one pixel updates slot pair `j` by `min` / `max` -/
theorem bboxUpdate_getD : ∀ (j : Nat) (ext p : List Int), j < p.length → 2 * j + 1 < ext.length →
    (bboxUpdate ext p).getD (2 * j) 0 = min (ext.getD (2 * j) 0) (p.getD j 0) ∧
    (bboxUpdate ext p).getD (2 * j + 1) 0 = max (ext.getD (2 * j + 1) 0) (p.getD j 0 + 1) := by
  intro j
  induction j with
  | zero =>
    intro ext p hp he
    cases p with
    | nil => simp at hp
    | cons a ps =>
      cases ext with
      | nil => simp at he
      | cons x xs =>
        cases xs with
        | nil => simp at he
        | cons y rest => simp [bboxUpdate]
  | succ j ih =>
    intro ext p hp he
    cases p with
    | nil => simp at hp
    | cons a ps =>
      cases ext with
      | nil => simp at he
      | cons x xs =>
        cases xs with
        | nil => simp at he
        | cons y rest =>
          have h1 : 2 * (j + 1) = 2 * j + 1 + 1 := by omega
          have h2 : 2 * (j + 1) + 1 = 2 * j + 1 + 1 + 1 := by omega
          obtain ⟨a1, a2⟩ := ih rest ps (by simpa using hp) (by simp at he; omega)
          simp only [bboxUpdate, h1, h2, List.getD_cons_succ]
          exact ⟨a1, a2⟩

/-- folding a list of positions -/
theorem bboxFold_getD (j : Nat) : ∀ (ps : List (List Int)) (ext : List Int), (∀ p ∈ ps, j < p.length) →
    2 * j + 1 < ext.length →
    (ps.foldl bboxUpdate ext).getD (2 * j) 0 = ps.foldl (fun m p => min m (p.getD j 0)) (ext.getD (2 * j) 0) ∧
    (ps.foldl bboxUpdate ext).getD (2 * j + 1) 0 =
      ps.foldl (fun m p => max m (p.getD j 0 + 1)) (ext.getD (2 * j + 1) 0) := by
  intro ps
  induction ps with
  | nil => intro ext _ _; simp
  | cons p ps ih =>
    intro ext hp he
    simp only [List.foldl_cons]
    obtain ⟨a1, a2⟩ := bboxUpdate_getD j ext p (hp p List.mem_cons_self) he
    obtain ⟨b1, b2⟩ := ih (bboxUpdate ext p) (fun q hq => hp q (List.mem_cons_of_mem _ hq))
      (by rw [bboxUpdate_length]; exact he)
    rw [b1, b2, a1, a2]
    exact ⟨rfl, rfl⟩

theorem foldl_filter_map {α β : Type} (c : Nat → Bool) (h : Nat → β) (g : α → β → α) :
    ∀ (l : List Nat) (e : α),
    l.foldl (fun ext i => if c i then g ext (h i) else ext) e = ((l.filter c).map h).foldl g e := by
  intro l
  induction l with
  | nil => intro e; rfl
  | cons i l ih =>
    intro e
    simp only [List.foldl_cons, List.filter_cons]
    by_cases hc : c i
    · simp [hc, ih]
    · simp [hc, ih]

theorem foldl_min_facts (j : Nat) : ∀ (ps : List (List Int)) (m0 : Int),
    (∀ p ∈ ps, ps.foldl (fun m p => min m (p.getD j 0)) m0 ≤ p.getD j 0) ∧
    ps.foldl (fun m p => min m (p.getD j 0)) m0 ≤ m0 ∧
    (ps.foldl (fun m p => min m (p.getD j 0)) m0 = m0 ∨
      ∃ p ∈ ps, p.getD j 0 = ps.foldl (fun m p => min m (p.getD j 0)) m0) := by
  intro ps
  induction ps with
  | nil => intro m0; simp
  | cons q ps ih =>
    intro m0
    simp only [List.foldl_cons]
    obtain ⟨a, b, c⟩ := ih (min m0 (q.getD j 0))
    refine ⟨?_, le_trans b (min_le_left _ _), ?_⟩
    · intro p hp
      rcases List.mem_cons.mp hp with e | hp
      · subst e; exact le_trans b (min_le_right _ _)
      · exact a p hp
    · rcases c with c | ⟨p, hp, hpe⟩
      · rw [c]
        rcases min_choice m0 (q.getD j 0) with e | e
        · left; exact e
        · right; exact ⟨q, List.mem_cons_self, e.symm⟩
      · right; exact ⟨p, List.mem_cons_of_mem _ hp, hpe⟩

theorem foldl_max_facts (j : Nat) : ∀ (ps : List (List Int)) (m0 : Int),
    (∀ p ∈ ps, p.getD j 0 + 1 ≤ ps.foldl (fun m p => max m (p.getD j 0 + 1)) m0) ∧
    m0 ≤ ps.foldl (fun m p => max m (p.getD j 0 + 1)) m0 ∧
    (ps.foldl (fun m p => max m (p.getD j 0 + 1)) m0 = m0 ∨
      ∃ p ∈ ps, p.getD j 0 + 1 = ps.foldl (fun m p => max m (p.getD j 0 + 1)) m0) := by
  intro ps
  induction ps with
  | nil => intro m0; simp
  | cons q ps ih =>
    intro m0
    simp only [List.foldl_cons]
    obtain ⟨a, b, c⟩ := ih (max m0 (q.getD j 0 + 1))
    refine ⟨?_, le_trans (le_max_left _ _) b, ?_⟩
    · intro p hp
      rcases List.mem_cons.mp hp with e | hp
      · subst e; exact le_trans (le_max_right _ _) b
      · exact a p hp
    · rcases c with c | ⟨p, hp, hpe⟩
      · rw [c]
        rcases max_choice m0 (q.getD j 0 + 1) with e | e
        · left; exact e
        · right; exact ⟨q, List.mem_cons_self, e.symm⟩
      · right; exact ⟨p, List.mem_cons_of_mem _ hp, hpe⟩

theorem bboxInit_getD : ∀ (shape : List Nat) (j : Nat), j < shape.length →
    (bboxInit shape).getD (2 * j) 0 = ((shape.getD j 0 : Nat) : Int) ∧ (bboxInit shape).getD (2 * j + 1) 0 = 0 ∧
    2 * j + 1 < (bboxInit shape).length := by
  intro shape
  induction shape with
  | nil => intro j hj; simp at hj
  | cons d ds ih =>
    intro j hj
    cases j with
    | zero => simp [bboxInit]
    | succ j =>
      have h1 : 2 * (j + 1) = 2 * j + 1 + 1 := by omega
      have h2 : 2 * (j + 1) + 1 = 2 * j + 1 + 1 + 1 := by omega
      obtain ⟨a, b, c⟩ := ih j (by simpa using hj)
      have hcons : bboxInit (d :: ds) = (d : Int) :: 0 :: bboxInit ds := by simp [bboxInit]
      rw [hcons, h1]
      simp only [List.getD_cons_succ, List.length_cons]
      exact ⟨a, b, by omega⟩

theorem unravelI_getD (shape : List Nat) (i j : Nat) :
    (unravelI shape i).getD j 0 = (((unravel shape i).getD j 0 : Nat) : Int) := by
  unfold unravelI
  simp [List.getD_eq_getElem?_getD, List.getElem?_map]
  cases (unravel shape i)[j]? <;> simp

/-- **tightness of the generic bounding box.** -/
theorem bbox_tight (shape : List Nat) (data : List Int) (hlen : data.length = shapeSize shape) (j : Nat)
    (hj : j < shape.length) :
    let ps := ((List.range data.length).filter fun i => data.getD i 0 ≠ 0).map (unravelI shape)
    let ext := (List.range data.length).foldl (fun ext i =>
      if data.getD i 0 ≠ 0 then bboxUpdate ext (unravelI shape i) else ext) (bboxInit shape)
    (∀ p ∈ ps, ext.getD (2 * j) 0 ≤ p.getD j 0 ∧ p.getD j 0 + 1 ≤ ext.getD (2 * j + 1) 0) ∧
    (ps ≠ [] → (∃ p ∈ ps, p.getD j 0 = ext.getD (2 * j) 0) ∧ (∃ p ∈ ps, p.getD j 0 + 1 = ext.getD (2 * j + 1) 0)) := by
  intro ps ext
  have hext : ext = ps.foldl bboxUpdate (bboxInit shape) := by
    show (List.range data.length).foldl (fun ext i =>
      if data.getD i 0 ≠ 0 then bboxUpdate ext (unravelI shape i) else ext) (bboxInit shape) = _
    have := foldl_filter_map (fun i => decide (data.getD i 0 ≠ 0)) (unravelI shape) bboxUpdate
      (List.range data.length) (bboxInit shape)
    simp only [decide_eq_true_eq] at this
    rw [this]
  obtain ⟨i0, i1, i2⟩ := bboxInit_getD shape j hj
  have hpl : ∀ p ∈ ps, j < p.length := by
    intro p hp
    obtain ⟨i, _, rfl⟩ := List.mem_map.mp hp
    rw [C03.unravelI_length]; exact hj
  have hbound : ∀ p ∈ ps, 0 ≤ p.getD j 0 ∧ p.getD j 0 < ((shape.getD j 0 : Nat) : Int) := by
    intro p hp
    obtain ⟨i, hi, rfl⟩ := List.mem_map.mp hp
    have hi' : i < data.length := List.mem_range.mp (List.mem_filter.mp hi).1
    rw [unravelI_getD]
    have := unravel_lt shape i (by omega) j hj
    omega
  obtain ⟨f1, f2⟩ := bboxFold_getD j ps (bboxInit shape) hpl i2
  rw [← hext, i0] at f1
  rw [← hext, i1] at f2
  obtain ⟨a1, a2, a3⟩ := foldl_min_facts j ps ((shape.getD j 0 : Nat) : Int)
  obtain ⟨b1, b2, b3⟩ := foldl_max_facts j ps 0
  rw [← f1] at a1 a2 a3
  rw [← f2] at b1 b2 b3
  refine ⟨fun p hp => ⟨a1 p hp, b1 p hp⟩, ?_⟩
  intro hne
  obtain ⟨p0, hp0⟩ := List.exists_mem_of_ne_nil _ hne
  constructor
  · rcases a3 with h | h
    · have := a1 p0 hp0
      have := (hbound p0 hp0).2
      omega
    · exact h
  · rcases b3 with h | h
    · have := b1 p0 hp0
      have := (hbound p0 hp0).1
      omega
    · exact h

end Mahotas.C13
