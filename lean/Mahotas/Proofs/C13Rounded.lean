/-
C13 (round 4) — the floating-point instances of `labeled_sum` and `center_of_mass` over the binary64 rounding
model of `Proofs/C05Binary64.lean`.

Lean's `Float` is opaque, so round 3 left the IEEE facts "every accumulation step is exact on the dyadic data the
harness feeds" as hypotheses of `C13_labeled_sum_float_oracle_eq_model_of_exact` / `C13_com_float_oracle_eq_model_of_exact`.
Here the same polymorphic definitions the driver runs at `Float` (`labeledFold`, `comModelG`) are instantiated with
correctly rounded rational arithmetic `rnd (a + b)`, `rnd (a * b)`, `rnd (a / b)` and the hypotheses are *proved*:
for every rounding that leaves the dyadic rationals `k / 2^s`, `|k| ≤ 2^53`, unchanged (`ExactDyadic`; true of
round-to-nearest with a 53-bit significand whatever the tie rule — `rndBin n`, in particular `rne53` — and, for
`s = 0`, of every `Rounding`), data `k_i / 2^s` whose partial sums stay within `2^53 / 2^s` are accumulated without
any rounding error: the rounded fold is the exact sum, and the centroid is the correctly rounded exact quotient.
-/
import Mahotas.Proofs.C13OraclesFloat
import Mahotas.Proofs.C05Binary64
import Mathlib.Tactic.FieldSimp
import Mathlib.Tactic.Positivity
import Mathlib.Tactic.GCongr
namespace Mahotas.C13
open Mahotas Mahotas.C05

/-- `rnd` leaves every dyadic rational `k / 2^s` with `|k| ≤ 2^53` unchanged (binary64: 53-bit significand,
    exponent range not modelled) -/
def ExactDyadic (rnd : ℚ → ℚ) (s : ℕ) : Prop :=
  ∀ k : ℤ, |(k : ℚ)| ≤ 2 ^ 53 → rnd ((k : ℚ) / 2 ^ s) = (k : ℚ) / 2 ^ s

/-- every `Rounding` is exact on the integers up to `2^53` -/
theorem exactDyadic_of_rounding (rnd : ℚ → ℚ) (h : Rounding rnd) : ExactDyadic rnd 0 := by
  intro k hk
  simp only [pow_zero, div_one]
  exact h.exact_int k hk

/-- round-to-nearest with a 53-bit significand (any tie rule) is exact on every `k / 2^s`, `|k| ≤ 2^53` -/
theorem exactDyadic_rndBin (n : ℚ → ℤ) (hn : ∀ y, |(n y : ℚ) - y| ≤ 1 / 2) (s : ℕ) :
    ExactDyadic (rndBin n) s := by
  intro k hk
  by_cases hk0 : (k : ℚ) = 0
  · have hn0 : n 0 = 0 := by simpa using nearest_int n hn 0
    rw [hk0]; unfold rndBin; simp [hn0]
  have hs : (0 : ℚ) < 2 ^ s := by positivity
  have hx0 : (k : ℚ) / 2 ^ s ≠ 0 := div_ne_zero hk0 hs.ne'
  obtain ⟨h1, h2⟩ := binade ((k : ℚ) / 2 ^ s) hx0
  have habs : |(k : ℚ) / 2 ^ s| = |(k : ℚ)| / 2 ^ s := by rw [abs_div, abs_of_pos hs]
  have hpow : (2 : ℚ) ^ ((53 : ℤ) - s) = 2 ^ 53 / 2 ^ s := by
    rw [zpow_sub₀ two_ne_zero, zpow_natCast]; norm_num
  have he : Int.log 2 |(k : ℚ) / 2 ^ s| ≤ 53 - s := by
    have h3 : (2 : ℚ) ^ Int.log 2 |(k : ℚ) / 2 ^ s| ≤ (2 : ℚ) ^ ((53 : ℤ) - s) := by
      rw [hpow]
      calc (2 : ℚ) ^ Int.log 2 |(k : ℚ) / 2 ^ s| ≤ |(k : ℚ) / 2 ^ s| := h1
        _ = |(k : ℚ)| / 2 ^ s := habs
        _ ≤ 2 ^ 53 / 2 ^ s := div_le_div_of_nonneg_right hk hs.le
    exact (zpow_le_zpow_iff_right₀ (by norm_num : (1 : ℚ) < 2)).1 h3
  rcases lt_or_eq_of_le he with hlt | heq
  · obtain ⟨j, hj⟩ : ∃ j : ℕ, Int.log 2 |(k : ℚ) / 2 ^ s| - 52 = -(((j + s : ℕ)) : ℤ) :=
      ⟨(52 - s - Int.log 2 |(k : ℚ) / 2 ^ s|).toNat, by push_cast; omega⟩
    apply rndBin_of_multiple n hn _ (k * 2 ^ j)
    rw [hj, zpow_neg, zpow_natCast, pow_add]
    push_cast
    field_simp
  · have hk53 : |(k : ℚ)| = 2 ^ 53 := by
      apply le_antisymm hk
      have h4 : (2 : ℚ) ^ ((53 : ℤ) - s) ≤ |(k : ℚ)| / 2 ^ s := by rw [← heq, ← habs]; exact h1
      rw [hpow] at h4
      exact (div_le_div_iff_of_pos_right hs).1 h4
    have hexp : Int.log 2 |(k : ℚ) / 2 ^ s| - 52 = 1 - (s : ℤ) := by omega
    have hpow1 : (2 : ℚ) ^ ((1 : ℤ) - s) = 2 / 2 ^ s := by
      rw [zpow_sub₀ two_ne_zero, zpow_natCast]; norm_num
    rcases (abs_eq (by positivity : (0 : ℚ) ≤ 2 ^ 53)).1 hk53 with hp | hm
    · apply rndBin_of_multiple n hn _ (2 ^ 52)
      rw [hexp, hpow1, hp]
      push_cast
      field_simp
      norm_num
    · apply rndBin_of_multiple n hn _ (-(2 ^ 52))
      rw [hexp, hpow1, hm]
      push_cast
      field_simp
      norm_num

/-- IEEE-754 binary64 `roundTiesToEven` (unbounded exponent) is exact on every `k / 2^s`, `|k| ≤ 2^53` -/
theorem exactDyadic_rne53 (s : ℕ) : ExactDyadic rne53 s := exactDyadic_rndBin roundEven roundEven_near s

/-! ### labeled_sum -/

/-- the model of `labeled_sum` (`labeledFold`, the definition the driver runs at `Float` with `a + r`)
    instantiated with rounded rational addition -/
def sumRounded (rnd : ℚ → ℚ) (n : Nat) (px : List (ℚ × Int)) : Array ℚ :=
  labeledFold (fun a r => rnd (a + r)) 0 n px

/-- the embedding of the scaled integer data: `k ↦ k / 2^s` (the harness: `s = 3`, data `k/8`) -/
def dy (s : ℕ) (k : Int) : ℚ := (k : ℚ) / 2 ^ s

theorem dy_add (s : ℕ) (a b : Int) : dy s a + dy s b = dy s (a + b) := by
  unfold dy; push_cast; ring

theorem dy_zero (s : ℕ) : dy s 0 = 0 := by simp [dy]

theorem sumRounded_exact (rnd : ℚ → ℚ) (s : ℕ) (hr : ExactDyadic rnd s) (n : Nat) (data labels : List Int)
    (l : Nat) (hl : l < n)
    (hb : ∀ pre a rest, valuesOf (data.zip labels) (l : Int) = pre ++ a :: rest →
      |((a + pre.sum : Int) : ℚ)| ≤ 2 ^ 53) :
    (sumRounded rnd n ((data.map (dy s)).zip labels))[l]? = some (dy s (valuesOf (data.zip labels) (l : Int)).sum) ∧
    (sumRounded rnd n ((data.map (dy s)).zip labels))[l]? =
      ((foldSpec false "sum" n (data.zip labels)).map (dy s))[l]? := by
  have key : (sumRounded rnd n ((data.map (dy s)).zip labels))[l]? =
      some (dy s (valuesOf (data.zip labels) (l : Int)).sum) := by
    unfold sumRounded
    rw [zip_map_emb, labeledFold_slot _ _ n _ l hl, valuesOf_map, ← dy_zero s,
      foldl_hom (fun a r => rnd (a + r)) (fun (a r : Int) => a + r) (dy s) _ 0, foldl_add_eq_sum, Int.zero_add]
    intro pre a rest e
    rw [foldl_add_eq_sum, Int.zero_add]
    show rnd (dy s a + dy s pre.sum) = dy s (a + pre.sum)
    rw [dy_add]
    exact hr _ (hb pre a rest e)
  refine ⟨key, ?_⟩
  rw [key, List.getElem?_map, foldSpec_sum]
  simp only [Bool.false_eq_true, if_false]
  rw [sumSpec_slot n _ l hl]
  rfl

theorem abs_sum_le_sum_abs : ∀ vs : List Int, |vs.sum| ≤ (vs.map fun v => |v|).sum
  | [] => by simp
  | v :: vs => by
    simp only [List.sum_cons, List.map_cons]
    have h1 := abs_sum_le_sum_abs vs
    have h2 := abs_add_le v vs.sum
    linarith

theorem sum_abs_nonneg : ∀ vs : List Int, 0 ≤ (vs.map fun v => |v|).sum
  | [] => by simp
  | v :: vs => by
    simp only [List.sum_cons, List.map_cons]
    exact add_nonneg (abs_nonneg _) (sum_abs_nonneg vs)

/-- a convenient sufficient bound: the absolute values of the label's data sum to at most `2^53` -/
theorem partial_sums_bounded (vs : List Int) (hb : (vs.map fun v => |v|).sum ≤ 2 ^ 53) :
    ∀ pre a rest, vs = pre ++ a :: rest → |((a + pre.sum : Int) : ℚ)| ≤ 2 ^ 53 := by
  intro pre a rest e
  have h1 : |a + pre.sum| ≤ (vs.map fun v => |v|).sum := by
    rw [e]
    simp only [List.map_append, List.map_cons, List.sum_append, List.sum_cons]
    have h3 := abs_sum_le_sum_abs pre
    have h4 := sum_abs_nonneg rest
    have h5 := abs_add_le a pre.sum
    linarith
  have h2 : |a + pre.sum| ≤ 2 ^ 53 := le_trans h1 hb
  rw [← Int.cast_abs]
  exact_mod_cast h2

/-! ### center_of_mass -/

/-- `NumOps` of correctly rounded rational arithmetic (the kernel works in `double`) -/
def rndOps (rnd : ℚ → ℚ) : NumOps ℚ :=
  { zero := 0, add := fun a b => rnd (a + b), mul := fun a b => rnd (a * b), div := fun a b => rnd (a / b),
    ofNat := fun c => rnd (c : ℚ) }

theorem dy_div (s : ℕ) (a b : Int) : dy s a / dy s b = (a : ℚ) / (b : ℚ) := by
  unfold dy
  exact div_div_div_cancel_right₀ (by positivity) _ _

theorem comRounded_exact (rnd : ℚ → ℚ) (s : ℕ) (hr : ExactDyadic rnd s) (hr0 : ExactDyadic rnd 0)
    (shape : List Nat) (ks labels : List Int) (hnn : ∀ v ∈ labels, 0 ≤ v)
    (hc : ∀ i j, (((unravel shape i).getD j 0 : Nat) : ℚ) ≤ 2 ^ 53)
    (hprod : ∀ i j, |((ks.getD i 0 * ((unravel shape i).getD j 0 : Nat) : Int) : ℚ)| ≤ 2 ^ 53)
    (htot : ∀ (l : Nat) (pre : List Nat) (i : Nat) (rest : List Nat),
      ((List.range ks.length).filter fun i => labels.getD i 0 == (l : Int)) = pre ++ i :: rest →
      |(((pre.map fun i => ks.getD i 0).sum + ks.getD i 0 : Int) : ℚ)| ≤ 2 ^ 53)
    (hrow : ∀ (l j : Nat), j < shape.length → ∀ (pre : List Nat) (i : Nat) (rest : List Nat),
      ((List.range ks.length).filter fun i => labels.getD i 0 == (l : Int)) = pre ++ i :: rest →
      |(((pre.map fun i => ks.getD i 0 * ((unravel shape i).getD j 0 : Nat)).sum +
          ks.getD i 0 * ((unravel shape i).getD j 0 : Nat) : Int) : ℚ)| ≤ 2 ^ 53) :
    comModelG (rndOps rnd) shape (ks.map (dy s)) labels =
      (comSpec shape ks labels).map fun nd => rnd ((nd.1 : ℚ) / (nd.2 : ℚ)) := by
  rw [comModelG_of_exact (rndOps rnd) (dy s) shape ks labels hnn (dy_zero s)]
  · apply List.map_congr_left
    intro nd _
    show rnd (dy s nd.1 / dy s nd.2) = _
    rw [dy_div]
  · intro l pre i rest e
    show rnd (dy s _ + dy s _) = _
    rw [dy_add]
    exact hr _ (htot l pre i rest e)
  · intro l j hj pre i rest e
    show rnd (dy s _ + rnd (dy s (ks.getD i 0) * rnd (((unravel shape i).getD j 0 : Nat) : ℚ))) = _
    have h1 : rnd ((((unravel shape i).getD j 0 : Nat) : ℚ)) = (((unravel shape i).getD j 0 : Nat) : ℚ) := by
      have := hr0 (((unravel shape i).getD j 0 : Nat) : ℤ) (by
        rw [Int.cast_natCast, abs_of_nonneg (Nat.cast_nonneg _)]; exact hc i j)
      simpa using this
    have h2 : dy s (ks.getD i 0) * (((unravel shape i).getD j 0 : Nat) : ℚ) =
        dy s (ks.getD i 0 * ((unravel shape i).getD j 0 : Nat)) := by
      unfold dy; push_cast; ring
    have h3 : rnd (dy s (ks.getD i 0 * ((unravel shape i).getD j 0 : Nat))) =
        dy s (ks.getD i 0 * ((unravel shape i).getD j 0 : Nat)) := hr _ (hprod i j)
    rw [h1, h2, h3, dy_add]
    exact hr _ (hrow l j hj pre i rest e)

end Mahotas.C13
