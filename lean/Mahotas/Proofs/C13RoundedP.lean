/-
C13 (round 4) — rounding to nearest with a `p`-bit significand (binary32: `p = 24`, binary64: `p = 53`): exact on the
dyadic rationals `k / 2^s` with `|k| ≤ 2^p`, hence `labeled_sum` accumulated in that format (the kernel's accumulator has
the dtype of the image: `float` for float32 images) is exact on dyadic data whose partial sums stay within `2^p / 2^s`.
-/
import Mahotas.Proofs.C13Rounded
namespace Mahotas.C13
open Mahotas Mahotas.C05

/-- round `x` to the nearest multiple of `2^(⌊log₂|x|⌋ − (p − 1))`, the integer quotient chosen by `n`
    (`p` significand bits, exponent range unbounded); `rndBinP 53 = rndBin` -/
def rndBinP (p : ℕ) (n : ℚ → ℤ) (x : ℚ) : ℚ :=
  (n (x / (2 : ℚ) ^ (Int.log 2 |x| - ((p : ℤ) - 1))) : ℚ) * (2 : ℚ) ^ (Int.log 2 |x| - ((p : ℤ) - 1))

theorem rndBinP_53 (n : ℚ → ℤ) (x : ℚ) : rndBinP 53 n x = rndBin n x := by
  unfold rndBinP rndBin
  norm_num

theorem rndBinP_of_multiple (p : ℕ) (n : ℚ → ℤ) (hn : ∀ y, |(n y : ℚ) - y| ≤ 1 / 2) (x : ℚ) (m : ℤ)
    (hm : x = (m : ℚ) * (2 : ℚ) ^ (Int.log 2 |x| - ((p : ℤ) - 1))) : rndBinP p n x = x := by
  have hU : (0 : ℚ) < (2 : ℚ) ^ (Int.log 2 |x| - ((p : ℤ) - 1)) := zpow_pos (by norm_num) _
  have hq : x / (2 : ℚ) ^ (Int.log 2 |x| - ((p : ℤ) - 1)) = (m : ℚ) := by
    rw [div_eq_iff hU.ne']; exact hm
  unfold rndBinP
  rw [hq, nearest_int n hn, ← hm]

/-- `rnd` leaves every `k / 2^s` with `|k| ≤ B` unchanged -/
def ExactDyadicB (rnd : ℚ → ℚ) (s : ℕ) (B : ℚ) : Prop :=
  ∀ k : ℤ, |(k : ℚ)| ≤ B → rnd ((k : ℚ) / 2 ^ s) = (k : ℚ) / 2 ^ s

theorem exactDyadicB_of_exactDyadic (rnd : ℚ → ℚ) (s : ℕ) (h : ExactDyadic rnd s) : ExactDyadicB rnd s (2 ^ 53) := h

/-- round-to-nearest with a `p`-bit significand (any tie rule) is exact on every `k / 2^s`, `|k| ≤ 2^p` -/
theorem exactDyadicB_rndBinP (p : ℕ) (hp : 1 ≤ p) (n : ℚ → ℤ) (hn : ∀ y, |(n y : ℚ) - y| ≤ 1 / 2) (s : ℕ) :
    ExactDyadicB (rndBinP p n) s (2 ^ p) := by
  intro k hk
  by_cases hk0 : (k : ℚ) = 0
  · have hn0 : n 0 = 0 := by simpa using nearest_int n hn 0
    rw [hk0]; unfold rndBinP; simp [hn0]
  have hs : (0 : ℚ) < 2 ^ s := by positivity
  have hx0 : (k : ℚ) / 2 ^ s ≠ 0 := div_ne_zero hk0 hs.ne'
  obtain ⟨h1, h2⟩ := binade ((k : ℚ) / 2 ^ s) hx0
  have habs : |(k : ℚ) / 2 ^ s| = |(k : ℚ)| / 2 ^ s := by rw [abs_div, abs_of_pos hs]
  have hpow : (2 : ℚ) ^ ((p : ℤ) - s) = 2 ^ p / 2 ^ s := by
    rw [zpow_sub₀ two_ne_zero, zpow_natCast, zpow_natCast]
  have he : Int.log 2 |(k : ℚ) / 2 ^ s| ≤ (p : ℤ) - s := by
    have h3 : (2 : ℚ) ^ Int.log 2 |(k : ℚ) / 2 ^ s| ≤ (2 : ℚ) ^ ((p : ℤ) - s) := by
      rw [hpow]
      calc (2 : ℚ) ^ Int.log 2 |(k : ℚ) / 2 ^ s| ≤ |(k : ℚ) / 2 ^ s| := h1
        _ = |(k : ℚ)| / 2 ^ s := habs
        _ ≤ 2 ^ p / 2 ^ s := div_le_div_of_nonneg_right hk hs.le
    exact (zpow_le_zpow_iff_right₀ (by norm_num : (1 : ℚ) < 2)).1 h3
  rcases lt_or_eq_of_le he with hlt | heq
  · obtain ⟨j, hj⟩ : ∃ j : ℕ, Int.log 2 |(k : ℚ) / 2 ^ s| - ((p : ℤ) - 1) = -(((j + s : ℕ)) : ℤ) :=
      ⟨((p : ℤ) - 1 - s - Int.log 2 |(k : ℚ) / 2 ^ s|).toNat, by push_cast; omega⟩
    apply rndBinP_of_multiple p n hn _ (k * 2 ^ j)
    rw [hj, zpow_neg, zpow_natCast, pow_add]
    push_cast
    field_simp
  · have hkp : |(k : ℚ)| = 2 ^ p := by
      apply le_antisymm hk
      have h4 : (2 : ℚ) ^ ((p : ℤ) - s) ≤ |(k : ℚ)| / 2 ^ s := by rw [← heq, ← habs]; exact h1
      rw [hpow] at h4
      exact (div_le_div_iff_of_pos_right hs).1 h4
    have hexp : Int.log 2 |(k : ℚ) / 2 ^ s| - ((p : ℤ) - 1) = 1 - (s : ℤ) := by omega
    have hpow1 : (2 : ℚ) ^ ((1 : ℤ) - s) = 2 / 2 ^ s := by
      rw [zpow_sub₀ two_ne_zero, zpow_natCast]; norm_num
    obtain ⟨q, rfl⟩ : ∃ q : ℕ, p = q + 1 := ⟨p - 1, by omega⟩
    rcases (abs_eq (by positivity : (0 : ℚ) ≤ 2 ^ (q + 1))).1 hkp with hpos | hneg
    · apply rndBinP_of_multiple (q + 1) n hn _ (2 ^ q)
      rw [hexp, hpow1, hpos]
      push_cast
      field_simp
      ring
    · apply rndBinP_of_multiple (q + 1) n hn _ (-(2 ^ q))
      rw [hexp, hpow1, hneg]
      push_cast
      field_simp
      ring

/-- `labeled_sum` accumulated with a rounding exact on the dyadics of scale `s` up to `B`: exact while the partial sums
    of the scaled integers stay within `B` -/
theorem sumRounded_exactB (rnd : ℚ → ℚ) (s : ℕ) (B : ℚ) (hr : ExactDyadicB rnd s B) (n : Nat)
    (data labels : List Int) (l : Nat) (hl : l < n)
    (hb : ∀ pre a rest, valuesOf (data.zip labels) (l : Int) = pre ++ a :: rest →
      |((a + pre.sum : Int) : ℚ)| ≤ B) :
    (sumRounded rnd n ((data.map (dy s)).zip labels))[l]? = some (dy s (valuesOf (data.zip labels) (l : Int)).sum) ∧
    (sumRounded rnd n ((data.map (dy s)).zip labels))[l]? =
      ((foldSpec false "sum" n (data.zip labels)).map (dy s))[l]? := by
  have key : (sumRounded rnd n ((data.map (dy s)).zip labels))[l]? =
      some (dy s (valuesOf (data.zip labels) (l : Int)).sum) := by
    unfold sumRounded
    rw [zip_map_emb, labeledFold_slot _ _ n _ l hl, valuesOf_map, ← dy_zero s,
      foldl_hom (fun a r => rnd (a + r)) (fun (a r : Int) => a + r) (dy s) _ 0, foldl_add_eq_sum, Int.zero_add]
    intro pre a rest e
    rw [foldl_add_eq_sum, Int.zero_add]
    show rnd (dy s a + dy s pre.sum) = dy s (a + pre.sum)
    rw [dy_add]
    exact hr _ (hb pre a rest e)
  refine ⟨key, ?_⟩
  rw [key, List.getElem?_map, foldSpec_sum]
  simp only [Bool.false_eq_true, if_false]
  rw [sumSpec_slot n _ l hl]
  rfl

end Mahotas.C13
