/-
C13 (round 4) — the Python wrappers around the kernels: `bbox(border=, as_slice=)` / `croptobbox`,
`labeled_sum(minlength=)`, `labeled_size`, `is_same_labeling` on unequal shapes, `remove_regions_where`.
-/
import Mahotas.Proofs.C13Oracles
import Mahotas.Proofs.C13OraclesNum
import Mahotas.Proofs.C13Filter
import Mahotas.Proofs.C13BBox
namespace Mahotas.C13
open Mahotas

/-! ### remove_regions_where -/

theorem mem_where_iff (conds : List Int) (v : Int) :
    v ∈ (((List.range conds.length).filter fun i => conds.getD i 0 ≠ 0).map fun (i : Nat) => (i : Int)) ↔
      0 ≤ v ∧ v.toNat < conds.length ∧ conds.getD v.toNat 0 ≠ 0 := by
  simp only [List.mem_map, List.mem_filter, List.mem_range, ne_eq, decide_not, Bool.not_eq_eq_eq_not,
    Bool.not_true, decide_eq_false_iff_not]
  constructor
  · rintro ⟨i, ⟨hi, hc⟩, rfl⟩
    refine ⟨by omega, ?_, ?_⟩
    · simpa using hi
    · simpa using hc
  · rintro ⟨h0, h1, h2⟩
    exact ⟨v.toNat, ⟨h1, h2⟩, by omega⟩

theorem removeRegionsWhere_eq_spec (labels conds : List Int) :
    removeRegionsWhere labels conds = removeRegionsWhereSpec labels conds := by
  unfold removeRegionsWhere removeRegionsWhereSpec
  rw [removeRegions_eq_spec]
  unfold removeRegionsSpec
  apply List.map_congr_left
  intro v _
  by_cases h : 0 ≤ v ∧ v.toNat < conds.length ∧ conds.getD v.toNat 0 ≠ 0
  · have hm := (mem_where_iff conds v).2 h
    rw [if_pos (by simpa using hm)]
    obtain ⟨h0, h1, h2⟩ := h
    rw [if_pos]
    simp only [Bool.and_eq_true, decide_eq_true_eq, ne_eq, decide_not, Bool.not_eq_eq_eq_not, Bool.not_true,
      decide_eq_false_iff_not]
    exact ⟨⟨h0, h1⟩, h2⟩
  · have hm : ¬ v ∈ _ := fun hm => h ((mem_where_iff conds v).1 hm)
    rw [if_neg (by simpa using hm)]
    rw [if_neg]
    intro hc
    apply h
    simp only [Bool.and_eq_true, decide_eq_true_eq, ne_eq, decide_not, Bool.not_eq_eq_eq_not, Bool.not_true,
      decide_eq_false_iff_not] at hc
    exact ⟨hc.1.1, hc.1.2, hc.2⟩

/-! ### labeled_size -/

theorem map_emod_id (vals : List Int) (hv : ∀ v ∈ vals, 0 ≤ v ∧ v < 4294967296) :
    vals.map (· % 4294967296) = vals := by
  induction vals with
  | nil => rfl
  | cons x xs ih =>
    simp only [List.map_cons]
    rw [ih (fun v hv' => hv v (List.mem_cons_of_mem _ hv'))]
    have := hv x List.mem_cons_self
    rw [Int.emod_eq_of_lt this.1 this.2]

theorem labeledSize_counts (vals : List Int) :
    countSpec (vals.map (· % 4294967296)) (labeledSize vals).length = labeledSize vals := by
  unfold labeledSize
  apply countSpec_eq_model false
  · intro v hv
    obtain ⟨w, _, rfl⟩ := List.mem_map.1 hv
    exact Int.emod_nonneg _ (by decide)
  · intro h; cases h

/-! ### labeled_sum(minlength=) -/

theorem valuesOf_nil_of_gt {α : Type} (data : List α) (labels : List Int) (l : Int) (hl : maxOf labels < l) :
    valuesOf (data.zip labels) l = [] := by
  unfold valuesOf
  rw [List.map_eq_nil_iff, List.filter_eq_nil_iff]
  intro x hx
  have h2 : x.2 ∈ labels := (List.of_mem_zip hx).2
  have := (maxOf_ge labels 0).2 x.2 h2
  unfold maxOf at hl
  simp only [beq_iff_eq]
  omega

theorem foldLen_ge (labels : List Int) (ml : Option Int) :
    (maxOf labels + 1).toNat ≤ foldLen labels ml ∧ (∀ m, ml = some m → m.toNat ≤ foldLen labels ml) ∧
    (ml = none → foldLen labels ml = (maxOf labels + 1).toNat) := by
  unfold foldLen
  cases ml with
  | none => simp
  | some m =>
    refine ⟨by simp only; omega, ?_, by intro h; cases h⟩
    intro m' h
    cases h
    simp only; omega

/-! ### bbox(border=), as_slice, croptobbox -/

theorem bboxBorderGo_getD (b : Int) : ∀ (box : List Int) (d : Nat), 2 * d + 1 < box.length →
    (bboxBorderGo b box).getD (2 * d) 0 = max (box.getD (2 * d) 0 - b) 0 ∧
    (bboxBorderGo b box).getD (2 * d + 1) 0 = box.getD (2 * d + 1) 0 + b
  | [], d, hd => by simp at hd
  | [_], d, hd => by simp at hd
  | lo :: hi :: rest, 0, _ => by simp [bboxBorderGo]
  | lo :: hi :: rest, d + 1, hd => by
    have := bboxBorderGo_getD b rest d (by simp only [List.length_cons] at hd; omega)
    have e1 : 2 * (d + 1) = (2 * d) + 1 + 1 := by omega
    rw [bboxBorderGo, e1]
    simp only [List.getD_cons_succ]
    exact this

/-- one axis: with `0 ≤ lo`, `0 ≤ hi`, `0 ≤ b` and `x < n`, the Python slice `slice(max(lo-b,0), hi+b)` selects `x`
    iff `lo - b ≤ x < hi + b` -/
theorem sliceSel_border (n : Nat) (lo hi b : Int) (x : Nat) (_hlo : 0 ≤ lo) (hhi : 0 ≤ hi) (hb : 0 ≤ b) (hx : x < n) :
    sliceSel n (max (lo - b) 0) (hi + b) x = (decide (lo - b ≤ (x : Int)) && decide ((x : Int) < hi + b)) := by
  unfold sliceSel sliceBound
  have h1 : ¬ (max (lo - b) 0 < 0) := by omega
  have h2 : ¬ (hi + b < 0) := by omega
  rw [if_neg h1, if_neg h2]
  rw [Bool.eq_iff_iff]
  simp only [Bool.and_eq_true, decide_eq_true_eq]
  omega

theorem sliceSel_plain (n : Nat) (lo hi : Int) (x : Nat) (hlo : 0 ≤ lo) (hhi : 0 ≤ hi) (hx : x < n) :
    sliceSel n lo hi x = (decide (lo - 0 ≤ (x : Int)) && decide ((x : Int) < hi + 0)) := by
  unfold sliceSel sliceBound
  have h1 : ¬ (lo < 0) := by omega
  have h2 : ¬ (hi < 0) := by omega
  rw [if_neg h1, if_neg h2]
  rw [Bool.eq_iff_iff]
  simp only [Bool.and_eq_true, decide_eq_true_eq]
  omega

/-- **croptobbox(border = b ≥ 0)**: the pixels shown by `img[bbox(img, border=b, as_slice=True)]` are exactly the
    pixels within `b` of the box on every axis (the image clips the rest) -/
theorem cropTo_eq_spec (shape : List Nat) (box : List Int) (b : Int) (hb : 0 ≤ b)
    (hlen : box.length = 2 * shape.length) (hnn : ∀ k, 0 ≤ box.getD k 0) :
    (cropTo shape (bboxBorder box b)).2 = cropSpec shape box b := by
  unfold cropTo cropSpec
  simp only
  apply List.filter_congr
  intro i hi
  have hi' : i < shapeSize shape := List.mem_range.1 hi
  rw [Bool.eq_iff_iff, List.all_eq_true, List.all_eq_true]
  have key : ∀ d ∈ List.range shape.length,
      sliceSel (shape.getD d 0) ((bboxBorder box b).getD (2 * d) 0) ((bboxBorder box b).getD (2 * d + 1) 0)
        ((unravel shape i).getD d 0) =
      (decide (box.getD (2 * d) 0 - b ≤ (((unravel shape i).getD d 0 : Nat) : Int)) &&
        decide ((((unravel shape i).getD d 0 : Nat) : Int) < box.getD (2 * d + 1) 0 + b)) := by
    intro d hd
    have hd' : d < shape.length := List.mem_range.1 hd
    have hx := unravel_lt shape i hi' d hd'
    unfold bboxBorder
    by_cases hb0 : b = 0
    · rw [if_pos hb0, hb0]
      exact sliceSel_plain _ _ _ _ (hnn _) (hnn _) hx
    · rw [if_neg hb0]
      obtain ⟨e1, e2⟩ := bboxBorderGo_getD b box d (by omega)
      rw [e1, e2]
      exact sliceSel_border _ _ _ _ _ (hnn _) (hnn _) hb hx
  constructor
  · intro h d hd; rw [← key d hd]; exact h d hd
  · intro h d hd; rw [key d hd]; exact h d hd

/-! ### croptobbox end to end: the model of `bbox` feeds the slices -/

theorem condFold_length (shape : List Nat) (data : List Int) : ∀ (is : List Nat) (ext : List Int),
    (is.foldl (fun ext i => if data.getD i 0 ≠ 0 then bboxUpdate ext (unravelI shape i) else ext) ext).length =
      ext.length := by
  intro is
  induction is with
  | nil => intro ext; rfl
  | cons i is ih =>
    intro ext
    simp only [List.foldl_cons]
    rw [ih]
    by_cases h : data.getD i 0 ≠ 0
    · rw [if_pos h, bboxUpdate_length]
    · rw [if_neg h]

/-- every entry of the box the model of `bbox` returns is non-negative -/
theorem bboxGeneric_nonneg (shape : List Nat) (data : List Int) (hlen : data.length = shapeSize shape)
    (hnd : 0 < shape.length) (k : Nat) : 0 ≤ (bboxGeneric shape data).getD k 0 := by
  obtain ⟨h0, h1⟩ := bboxGeneric_cases shape data hlen hnd
  by_cases hps : ((List.range data.length).filter fun i => data.getD i 0 ≠ 0).map (unravelI shape) = []
  · rw [h0 hps, List.getD_eq_getElem?_getD, List.getElem?_map]
    cases (bboxInit shape)[k]? <;> simp
  · rw [h1 hps]
    by_cases hk : k < 2 * shape.length
    · have hj : k / 2 < shape.length := by omega
      obtain ⟨_, ht⟩ := bbox_tight shape data hlen (k / 2) hj
      obtain ⟨⟨p, hp, e1⟩, ⟨q, hq, e2⟩⟩ := ht hps
      obtain ⟨i, _, rfl⟩ := List.mem_map.1 hp
      obtain ⟨i', _, rfl⟩ := List.mem_map.1 hq
      rw [unravelI_getD] at e1 e2
      rcases Nat.mod_two_eq_zero_or_one k with hk2 | hk2
      · have : k = 2 * (k / 2) := by omega
        rw [this, ← e1]; omega
      · have : k = 2 * (k / 2) + 1 := by omega
        rw [this, ← e2]; omega
    · rw [List.getD_eq_getElem?_getD, List.getElem?_eq_none]
      · simp
      · rw [condFold_length, bboxInit_length]; omega

/-- **croptobbox(img, border = b ≥ 0) end to end**: the crop computed from the model of `bbox` is the box grown by `b`
    and clipped to the image, and it shows every non-zero pixel of the image -/
theorem croptobbox_contains (shape : List Nat) (data : List Int) (hlen : data.length = shapeSize shape)
    (hnd : 0 < shape.length) (b : Int) (hb : 0 ≤ b) :
    (cropTo shape (bboxBorder (bboxGeneric shape data) b)).2 = cropSpec shape (bboxGeneric shape data) b ∧
    ∀ i, i < data.length → data.getD i 0 ≠ 0 → i ∈ cropSpec shape (bboxGeneric shape data) b := by
  have hblen : (bboxGeneric shape data).length = 2 * shape.length := by
    unfold bboxGeneric bboxFinish
    split
    · rw [List.length_map, condFold_length, bboxInit_length]
    · rw [condFold_length, bboxInit_length]
  refine ⟨cropTo_eq_spec shape _ b hb hblen (bboxGeneric_nonneg shape data hlen hnd), ?_⟩
  intro i hi hnz
  have hmem : unravelI shape i ∈ ((List.range data.length).filter fun i => data.getD i 0 ≠ 0).map (unravelI shape) :=
    List.mem_map.2 ⟨i, List.mem_filter.2 ⟨List.mem_range.2 hi, by simpa using hnz⟩, rfl⟩
  have hps : ((List.range data.length).filter fun i => data.getD i 0 ≠ 0).map (unravelI shape) ≠ [] :=
    List.ne_nil_of_mem hmem
  obtain ⟨_, h1⟩ := bboxGeneric_cases shape data hlen hnd
  rw [h1 hps]
  unfold cropSpec
  rw [List.mem_filter, List.mem_range, List.all_eq_true]
  refine ⟨by omega, ?_⟩
  intro d hd
  have hd' : d < shape.length := List.mem_range.1 hd
  obtain ⟨hin, _⟩ := bbox_tight shape data hlen d hd'
  have := hin _ hmem
  rw [unravelI_getD] at this
  simp only [Bool.and_eq_true, decide_eq_true_eq]
  omega

end Mahotas.C13
