/-
Helper lemmas for C14: clamped neighbours of star-shaped neighbourhoods, the flood fill only
clears flags, hit-or-miss as a conjunction.
-/
import Mahotas.Model.C14
import Mahotas.Proofs.C01
namespace Mahotas.C14
open Mahotas

/-! ### arrays of flags -/

theorem getD_setIfInBounds_false (a : Array Bool) (i j : Nat) :
    (a.setIfInBounds i false).getD j false = (if i = j then false else a.getD j false) := by
  simp only [Array.getD_eq_getD_getElem?, Array.getElem?_setIfInBounds]
  by_cases h : i = j
  · simp only [h, if_true]; split <;> rfl
  · simp only [h, if_false]

/-- `a ⊑ b`: every flag set in `a` is set in `b` -/
def Sub (a b : Array Bool) : Prop := ∀ i, a.getD i false = true → b.getD i false = true

theorem Sub.refl (a : Array Bool) : Sub a a := fun _ h => h
theorem Sub.trans {a b c : Array Bool} (h1 : Sub a b) (h2 : Sub b c) : Sub a c := fun i h => h2 i (h1 i h)

theorem sub_set (a : Array Bool) (i : Nat) : Sub (a.setIfInBounds i false) a := by
  intro j h
  rw [getD_setIfInBounds_false] at h
  by_cases hij : i = j
  · simp [hij] at h
  · simpa [hij] using h

theorem floodVisit_sub (shape : List Nat) (nb : List (List Int)) (p : List Int)
    (st : Array Bool × List (List Int)) : Sub (floodVisit shape nb p st).1 st.1 := by
  unfold floodVisit
  induction nb generalizing st with
  | nil => exact Sub.refl _
  | cons k t ih =>
    simp only [List.foldl_cons]
    split
    · exact Sub.trans (ih _) (sub_set _ _)
    · exact ih _

theorem flood_sub (shape : List Nat) (nb : List (List Int)) (fuel : Nat) (avail : Array Bool)
    (stack : List (List Int)) : Sub (flood shape nb fuel avail stack) avail := by
  induction fuel generalizing avail stack with
  | zero => unfold flood; exact Sub.refl _
  | succ n ih =>
    cases stack with
    | nil => unfold flood; exact Sub.refl _
    | cons p s =>
      unfold flood
      exact Sub.trans (ih _ _) (floodVisit_sub shape nb p (avail, s))

theorem removeFake_sub (isMin : Bool) (A : Img Int) (nb : List (List Int)) (marks : Array Bool) :
    Sub (removeFake isMin A nb marks) marks := by
  unfold removeFake
  generalize allPos A.shape = ps
  induction ps generalizing marks with
  | nil => exact Sub.refl _
  | cons p t ih =>
    simp only [List.foldl_cons]
    split
    · exact ih _
    · split
      · exact Sub.trans (ih _) (Sub.trans (flood_sub _ _ _ _ _) (sub_set _ _))
      · exact ih _

/-! ### hit-or-miss -/

theorem hmEntries_all (bshape : List Nat) (bc : Array Int) (g : List Int × Int → Bool) :
    (hmEntries bshape bc).all g =
    (List.range (shapeSize bshape)).all fun i =>
      bc.getD i 0 == 2 || g (subPos (unravelI bshape i) (centreOf bshape), bc.getD i 0) := by
  unfold hmEntries
  rw [List.all_filterMap]
  congr 1
  funext i
  simp only []
  generalize bc.getD i 0 = v
  by_cases h : v = 2
  · subst h; simp
  · have : (v == 2) = false := by simpa using h
    simp [this]

theorem templateInside_cons (n : Nat) (ns : List Nat) (b : Nat) (bs : List Nat) (x : Int) (xs : List Int) :
    templateInside (n :: ns) (b :: bs) (x :: xs) =
    (decide (0 ≤ x - ((b / 2 : Nat) : Int)) && decide (x - ((b / 2 : Nat) : Int) < n) &&
     decide (0 ≤ x - ((b / 2 : Nat) : Int) + ((b : Int) - 1)) && decide (x - ((b / 2 : Nat) : Int) + ((b : Int) - 1) < n) &&
     templateInside ns bs xs) := by
  simp only [templateInside, centreOf, List.map_cons, subPos, addPos, inside]
  generalize inside ns (subPos xs (List.map (fun d => ((d / 2 : Nat) : Int)) bs)) = u
  generalize inside ns _ = v
  cases u <;> cases v <;> simp [Bool.and_assoc]

/-- for odd template sides the positions the kernel evaluates are exactly those at which the
    whole template lies inside the image -/
theorem hmEvaluated_eq_inside (shape bshape : List Nat) (p : List Int)
    (hodd : ∀ b ∈ bshape, b % 2 = 1) (hne : shape ≠ [])
    (hl1 : bshape.length = shape.length) (hl2 : p.length = shape.length) :
    hmEvaluated shape bshape p = templateInside shape bshape p := by
  induction shape generalizing bshape p with
  | nil => exact absurd rfl hne
  | cons n ns ih =>
    cases bshape with
    | nil => simp at hl1
    | cons b bs =>
      cases p with
      | nil => simp at hl2
      | cons x xs =>
        have hb : b % 2 = 1 := hodd b (by simp)
        rw [templateInside_cons]
        unfold hmEvaluated
        by_cases hns : ns = []
        · subst hns
          have hbs : bs = [] := by
            cases bs with
            | nil => rfl
            | cons _ _ => simp at hl1
          have hxs : xs = [] := by
            cases xs with
            | nil => rfl
            | cons _ _ => simp at hl2
          subst hbs; subst hxs
          simp only [List.isEmpty_nil, if_true, Bool.true_and, templateInside, List.map_nil,
            subPos, addPos, inside, Bool.and_true]
          rw [Bool.eq_iff_iff]
          simp only [Bool.and_eq_true, decide_eq_true_eq]
          omega
        · have : ns.isEmpty = false := by cases ns <;> simp_all
          simp only [this, Bool.false_eq_true, if_false]
          rw [ih bs xs (fun b hb => hodd b (by simp [hb])) hns (by simpa using hl1) (by simpa using hl2)]
          generalize templateInside ns bs xs = u
          cases u
          · simp
          · simp only [Bool.and_true]
            rw [Bool.eq_iff_iff]
            simp only [Bool.and_eq_true, decide_eq_true_eq]
            omega

/-! ### clamped reads of star-shaped neighbourhoods -/

theorem inside_pos (shape : List Nat) (p : List Int) (h : inside shape p = true) : ∀ d ∈ shape, 0 < d := by
  induction shape generalizing p with
  | nil => simp
  | cons d ds ih =>
    cases p with
    | nil => simp [inside] at h
    | cons x xs =>
      simp only [inside, Bool.and_eq_true, decide_eq_true_eq] at h
      intro e he
      rcases List.mem_cons.mp he with rfl | he
      · omega
      · exact ih xs h.2 e he

theorem inside_length (shape : List Nat) (p : List Int) (h : inside shape p = true) : p.length = shape.length := by
  induction shape generalizing p with
  | nil => cases p <;> simp_all [inside]
  | cons d ds ih =>
    cases p with
    | nil => simp [inside] at h
    | cons x xs =>
      simp only [inside, Bool.and_eq_true] at h
      simp [ih xs h.2]

theorem clampPos_inside (shape : List Nat) (q : List Int) (h : inside shape q = true) : clampPos shape q = q := by
  induction shape generalizing q with
  | nil => cases q <;> simp_all [inside, clampPos]
  | cons d ds ih =>
    cases q with
    | nil => simp [inside] at h
    | cons x xs =>
      simp only [inside, Bool.and_eq_true, decide_eq_true_eq] at h
      simp only [clampPos, ih xs h.2, clampSpec]
      congr 1
      omega

theorem between_length (k' k : List Int) (h : C01.between k' k = true) : k'.length = k.length := by
  induction k' generalizing k with
  | nil => cases k <;> simp_all [C01.between]
  | cons a as ih =>
    cases k with
    | nil => simp [C01.between] at h
    | cons b bs =>
      simp only [C01.between, Bool.and_eq_true] at h
      simp [ih bs h.2]

theorem addPos_zero (p k : List Int) (hz : isZeroPos k = true) (hl : k.length = p.length) : addPos p k = p := by
  induction p generalizing k with
  | nil => cases k <;> simp [addPos]
  | cons x xs ih =>
    cases k with
    | nil => simp at hl
    | cons a as =>
      simp only [isZeroPos, List.all_cons, Bool.and_eq_true, beq_iff_eq] at hz
      simp only [addPos]
      rw [ih as (by simpa [isZeroPos] using hz.2) (by simpa using hl)]
      simp [hz.1]

/-- a clamped neighbour `clamp(p + k)` of an inside pixel is `p + k'` for an offset `k'`
    between `0` and `k` (coordinate-wise), and lies inside the image -/
theorem clamp_between (shape : List Nat) (p k : List Int) (hp : inside shape p = true)
    (hl : k.length = p.length) :
    ∃ k', C01.between k' k = true ∧ clampPos shape (addPos p k) = addPos p k' ∧
      inside shape (addPos p k') = true := by
  induction shape generalizing p k with
  | nil =>
    cases p with
    | nil =>
      cases k with
      | nil => exact ⟨[], by simp [C01.between, clampPos, addPos, inside]⟩
      | cons _ _ => simp at hl
    | cons _ _ => simp [inside] at hp
  | cons d ds ih =>
    cases p with
    | nil => simp [inside] at hp
    | cons x xs =>
      cases k with
      | nil => simp at hl
      | cons a as =>
        simp only [inside, Bool.and_eq_true, decide_eq_true_eq] at hp
        obtain ⟨k'', hb, hc, hi⟩ := ih xs as hp.2 (by simpa using hl)
        have hcs : clampSpec (x + a) d = max 0 (min (x + a) ((d : Int) - 1)) := rfl
        refine ⟨(clampSpec (x + a) d - x) :: k'', ?_, ?_, ?_⟩
        · generalize clampSpec (x + a) d = c at hcs ⊢
          simp only [C01.between, hb, Bool.and_true, Bool.or_eq_true, Bool.and_eq_true,
            decide_eq_true_eq]
          omega
        · simp only [addPos, clampPos, hc]
          congr 1
          omega
        · generalize clampSpec (x + a) d = c at hcs ⊢
          simp only [addPos, inside, hi, Bool.and_true, Bool.and_eq_true, decide_eq_true_eq]
          omega

/-- the neighbourhood (centre removed) is coordinate-wise star-shaped: every offset between `0`
    and a member is `0` or a member — true of the centred cross and of every centred box. -/
def StarShaped (nb : List (List Int)) : Prop :=
  ∀ k ∈ nb, ∀ k', C01.between k' k = true → isZeroPos k' = true ∨ k' ∈ nb

theorem beats_irrefl (isMin : Bool) (a : Int) : beats isMin a a = false := by
  unfold beats; cases isMin <;> simp

theorem locAt_eq_spec (isMin : Bool) (A : Img Int) (nb : List (List Int)) (p : List Int)
    (hp : inside A.shape p = true) (hlen : ∀ k ∈ nb, k.length = p.length) (hstar : StarShaped nb) :
    locAt isMin A nb p = locSpecAt isMin A nb p := by
  have hs := inside_pos A.shape p hp
  unfold locAt locSpecAt
  rw [Bool.eq_iff_iff, List.all_eq_true, List.all_eq_true]
  constructor
  · intro h k hk
    have := h k hk
    by_cases hin : inside A.shape (addPos p k) = true
    · rw [C01.readNearest_eq A _ hs, clampPos_inside _ _ hin] at this
      simpa [hin] using this
    · have : inside A.shape (addPos p k) = false := by simpa using hin
      simp [this]
  · intro h k hk
    obtain ⟨k', hb, hc, hi⟩ := clamp_between A.shape p k hp (hlen k hk)
    rw [C01.readNearest_eq A _ hs, hc]
    rcases hstar k hk k' hb with hz | hm
    · rw [addPos_zero p k' hz (by rw [between_length k' k hb, hlen k hk]), beats_irrefl]; rfl
    · have := h k' hm
      simpa [hi] using this

end Mahotas.C14
