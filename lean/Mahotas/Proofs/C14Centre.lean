/-
C14 round 4 — the centre entry of the structuring element: `_remove_centre` (Python) and the centre
skipping of the C++ `neighbours(Bc)`; all-ones boxes of arbitrary (also even) sides; the clamped
specification for arbitrary neighbourhoods.
-/
import Mahotas.Proofs.C14Families
namespace Mahotas.C14
open Mahotas

theorem filterMap_congr' {α β : Type} {f g : α → Option β} (l : List α) (h : ∀ a ∈ l, f a = g a) :
    l.filterMap f = l.filterMap g := by
  induction l with
  | nil => rfl
  | cons a t ih =>
    simp only [List.filterMap_cons, h a (by simp)]
    rw [ih (fun b hb => h b (by simp [hb]))]

/-! ### the centre position -/

theorem subPos_zero_iff (a b : List Int) (h : a.length = b.length) :
    isZeroPos (subPos a b) = true ↔ a = b := by
  induction a generalizing b with
  | nil => cases b <;> simp_all [subPos, isZeroPos]
  | cons x xs ih =>
    cases b with
    | nil => simp at h
    | cons y ys =>
      have e : isZeroPos (subPos (x :: xs) (y :: ys)) = ((x - y == 0) && isZeroPos (subPos xs ys)) := rfl
      rw [e, Bool.and_eq_true, ih ys (by simpa using h), beq_iff_eq]
      constructor
      · rintro ⟨h1, rfl⟩; congr 1; omega
      · intro h; cases h; exact ⟨by omega, rfl⟩

theorem centre_inside (S : List Nat) (h : 0 < shapeSize S) : inside S (centreOf S) = true := by
  induction S with
  | nil => rfl
  | cons d ds ih =>
    have hd : 0 < d ∧ 0 < shapeSize ds := by
      simp only [shapeSize] at h
      exact ⟨Nat.pos_of_mul_pos_right h, Nat.pos_of_mul_pos_left h⟩
    have := ih hd.2
    simp only [centreOf] at this
    simp only [centreOf, List.map_cons, inside, this, Bool.and_true, Bool.and_eq_true, decide_eq_true_eq]
    omega

/-- among the entries of the element, the one whose offset is zero is the entry `_remove_centre`
    clears: flat index `ravelI S (centreOf S)` -/
theorem isZero_offset_iff (S : List Nat) (i : Nat) (hi : i < shapeSize S) :
    isZeroPos (subPos (unravelI S i) (centreOf S)) = true ↔ i = ravelI S (centreOf S) := by
  rw [subPos_zero_iff _ _ (by rw [unravelI_length, C01.centreOf_length])]
  constructor
  · intro h
    have := ravelI_unravelI S i hi
    rw [h] at this; exact this.symm
  · intro h
    rw [h, unravelI_ravelI S _ (centre_inside S (by omega))]

theorem getD_setIfInBounds_int (a : Array Int) (i j : Nat) (v : Int) :
    (a.setIfInBounds i v).getD j 0 = (if i = j ∧ i < a.size then v else a.getD j 0) := by
  simp only [Array.getD_eq_getD_getElem?, Array.getElem?_setIfInBounds]
  by_cases h : i = j
  · subst h
    by_cases h2 : i < a.size
    · simp [h2]
    · simp [h2]
  · simp [h]

/-- the C++ `neighbours(Bc)` never looks at the centre entry -/
theorem neighbours_setCentre (S : List Nat) (bc : Array Int) (v : Int) :
    neighbours S (bc.setIfInBounds (ravelI S (centreOf S)) v) = neighbours S bc := by
  unfold neighbours
  apply filterMap_congr'
  intro i hi
  have hi' : i < shapeSize S := List.mem_range.mp hi
  simp only []
  by_cases hc : i = ravelI S (centreOf S)
  · have hz := (isZero_offset_iff S i hi').mpr hc
    simp [hz]
  · rw [getD_setIfInBounds_int]
    have : ¬ (ravelI S (centreOf S) = i ∧ ravelI S (centreOf S) < bc.size) := fun h => hc h.1.symm
    rw [if_neg this]

/-- `_remove_centre` followed by the compressed footprint of `filter_iterator` is the neighbour list
    of the C++ `neighbours(Bc)` on the element as given -/
theorem rawOffsets_removeCentre (S : List Nat) (bc : Array Int) :
    rawOffsets S (removeCentre S bc) = neighbours S bc := by
  unfold rawOffsets neighbours removeCentre
  apply filterMap_congr'
  intro i hi
  have hi' : i < shapeSize S := List.mem_range.mp hi
  simp only []
  rw [getD_setIfInBounds_int]
  by_cases hc : i = ravelI S (centreOf S)
  · have hz := (isZero_offset_iff S i hi').mpr hc
    rw [hz]
    by_cases h2 : ravelI S (centreOf S) < bc.size
    · rw [if_pos (And.intro hc.symm h2)]; simp
    · have h0 : bc.getD i 0 = 0 := by
        rw [Array.getD_eq_getD_getElem?, Array.getElem?_eq_none (by omega)]; rfl
      have : ¬ (ravelI S (centreOf S) = i ∧ ravelI S (centreOf S) < bc.size) := fun h => h2 h.2
      rw [if_neg this, h0]; simp
  · have hz : isZeroPos (subPos (unravelI S i) (centreOf S)) = false := by
      have : ¬ isZeroPos (subPos (unravelI S i) (centreOf S)) = true :=
        fun h => hc ((isZero_offset_iff S i hi').mp h)
      simpa using this
    have : ¬ (ravelI S (centreOf S) = i ∧ ravelI S (centreOf S) < bc.size) := fun h => hc h.1.symm
    rw [if_neg this, hz, Bool.or_false]

theorem neighbours_removeCentre (S : List Nat) (bc : Array Int) :
    neighbours S (removeCentre S bc) = neighbours S bc :=
  neighbours_setCentre S bc 0

theorem locModelRaw_eq (isMin : Bool) (A : Img Int) (S : List Nat) (bc : Array Int) :
    locModelRaw isMin A S bc = locModel isMin A (neighbours S bc) := by
  unfold locModelRaw; rw [rawOffsets_removeCentre]

theorem regModelRaw_eq (isMin : Bool) (A : Img Int) (S : List Nat) (bc : Array Int) :
    regModelRaw isMin A S bc = regModel isMin A (neighbours S bc) := by
  unfold regModelRaw regModel; rw [locModelRaw_eq, neighbours_removeCentre]

/-! ### without `_remove_centre` at all: the centre offset reads the pixel itself -/

theorem mem_rawOffsets (S : List Nat) (bc : Array Int) (k : List Int) :
    k ∈ rawOffsets S bc ↔ k ∈ neighbours S bc ∨
      (k ∈ rawOffsets S bc ∧ isZeroPos k = true) := by
  constructor
  · intro hk
    by_cases hz : isZeroPos k = true
    · exact Or.inr ⟨hk, hz⟩
    · left
      unfold rawOffsets at hk
      simp only [List.mem_filterMap, List.mem_range] at hk
      obtain ⟨i, hi, h⟩ := hk
      unfold neighbours
      simp only [List.mem_filterMap, List.mem_range]
      refine ⟨i, hi, ?_⟩
      split at h
      · cases h
      · next hne =>
        cases h
        have h1 : (bc.getD i 0 == 0) = false := by simpa using hne
        have h2 : isZeroPos (subPos (unravelI S i) (centreOf S)) = false := by simpa using hz
        rw [h1, h2]; rfl
  · rintro (hk | ⟨hk, _⟩)
    · unfold neighbours at hk
      simp only [List.mem_filterMap, List.mem_range] at hk
      obtain ⟨i, hi, h⟩ := hk
      unfold rawOffsets
      simp only [List.mem_filterMap, List.mem_range]
      refine ⟨i, hi, ?_⟩
      split at h
      · cases h
      · next hne =>
        cases h
        simp only [Bool.or_eq_true, not_or, Bool.not_eq_true] at hne
        rw [hne.1]; rfl
    · exact hk

/-- even if Python did not clear the centre, `locmin_max` would answer the same: the zero offset reads
    the pixel itself, which does not beat itself -/
theorem locAt_rawOffsets (isMin : Bool) (A : Img Int) (S : List Nat) (bc : Array Int) (p : List Int)
    (hp : inside A.shape p = true) (hS : S.length = A.shape.length) :
    locAt isMin A (rawOffsets S bc) p = locAt isMin A (neighbours S bc) p := by
  have hs := inside_pos A.shape p hp
  unfold locAt
  rw [Bool.eq_iff_iff, List.all_eq_true, List.all_eq_true]
  constructor
  · intro h k hk
    exact h k ((mem_rawOffsets S bc k).mpr (Or.inl hk))
  · intro h k hk
    rcases (mem_rawOffsets S bc k).mp hk with hk' | ⟨hk', hz⟩
    · exact h k hk'
    · have hlen : k.length = p.length := by
        unfold rawOffsets at hk'
        simp only [List.mem_filterMap, List.mem_range] at hk'
        obtain ⟨i, _, h⟩ := hk'
        split at h
        · cases h
        · cases h
          rw [C01.subPos_length, unravelI_length, C01.centreOf_length, inside_length _ _ hp]; omega
      rw [addPos_zero p k hz hlen, C01.readNearest_eq A _ hs, clampPos_inside _ _ hp, beats_irrefl]; rfl

/-! ### all-ones boxes of arbitrary sides (even sides included): star-shaped, not symmetric -/

theorem mem_neighbours_box (S : List Nat) (bc : Array Int) (hbc : ∀ i, i < shapeSize S → bc.getD i 0 = 1)
    (k : List Int) : k ∈ neighbours S bc ↔ k ∈ C01.boxOffsets S ∧ isZeroPos k = false := by
  rw [mem_neighbours]
  constructor
  · rintro ⟨⟨kh, hkh, rfl⟩, hz⟩
    exact ⟨((C01.mem_box_members S bc hbc kh).mp hkh).1, hz⟩
  · rintro ⟨hk, hz⟩
    exact ⟨⟨(k, 1), (C01.mem_box_members S bc hbc (k, 1)).mpr ⟨hk, rfl⟩, rfl⟩, hz⟩

theorem starShaped_box (S : List Nat) (bc : Array Int) (hbc : ∀ i, i < shapeSize S → bc.getD i 0 = 1) :
    StarShaped (neighbours S bc) := by
  intro k hk k' hb
  obtain ⟨hkb, _⟩ := (mem_neighbours_box S bc hbc k).mp hk
  by_cases hz : isZeroPos k' = true
  · exact Or.inl hz
  · right
    obtain ⟨i, hi, rfl⟩ := (C01.mem_boxOffsets S k).mp hkb
    obtain ⟨hin, hk'⟩ := C01.between_boxOffsets S k' i hi hb
    exact (mem_neighbours_box S bc hbc k').mpr
      ⟨(C01.mem_boxOffsets S k').mpr ⟨_, hin, hk'⟩, by simpa using hz⟩

theorem neighbours_box_len (S : List Nat) (bc : Array Int) (hbc : ∀ i, i < shapeSize S → bc.getD i 0 = 1) :
    ∀ k ∈ neighbours S bc, k.length = S.length := by
  intro k hk
  exact C01.boxOffsets_length S k ((mem_neighbours_box S bc hbc k).mp hk).1

/-! ### arbitrary neighbourhoods: the clamped specification -/

theorem locAt_eq_clamped (isMin : Bool) (A : Img Int) (nb : List (List Int)) (p : List Int)
    (hs : ∀ d ∈ A.shape, 0 < d) : locAt isMin A nb p = locClampedSpecAt isMin A nb p := by
  unfold locAt locClampedSpecAt
  apply List.all_congr rfl
  intro k
  rw [C01.readNearest_eq A _ hs]

end Mahotas.C14
