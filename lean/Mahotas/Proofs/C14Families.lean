/-
C14 — the neighbourhood hypotheses `StarShaped` / `SymNb` of the extrema theorems, proved once for the
neighbourhood lists the driver builds (`neighbours S bc`: offsets of the non-zero entries, centre
removed as `_remove_centre` does) from every cross `crossElem d r`, disk `diskElem d r` and all-ones box
of odd sides, in every rank — instead of per concrete neighbourhood by a Boolean checker.
-/
import Mahotas.Proofs.C02Families
import Mahotas.Proofs.C14Reg

namespace Mahotas.C14
open Mahotas

/-- the neighbourhood list of the driver = offsets of the compressed support without the centre -/
theorem mem_neighbours (S : List Nat) (bc : Array Int) (k : List Int) :
    k ∈ neighbours S bc ↔ (∃ kh ∈ C01.support S bc true, kh.1 = k) ∧ isZeroPos k = false := by
  constructor
  · intro hk
    unfold neighbours at hk
    simp only [List.mem_filterMap, List.mem_range] at hk
    obtain ⟨i, hi, h⟩ := hk
    split at h
    · cases h
    · next hne =>
      cases h
      simp only [Bool.or_eq_true, not_or, beq_iff_eq, Bool.not_eq_true] at hne
      exact ⟨⟨(_, bc.getD i 0), (C01.mem_support_true S bc _).mpr ⟨i, hi, hne.1, rfl⟩, rfl⟩, hne.2⟩
  · rintro ⟨⟨kh, hkh, rfl⟩, hz⟩
    obtain ⟨i, hi, hne, rfl⟩ := (C01.mem_support_true S bc kh).mp hkh
    unfold neighbours
    simp only [List.mem_filterMap, List.mem_range]
    refine ⟨i, hi, ?_⟩
    have h1 : (bc.getD i 0 == 0) = false := by simpa using hne
    simp only at hz
    rw [h1, hz]; rfl

theorem isZeroPos_negPos (k : List Int) : isZeroPos (negPos k) = isZeroPos k := by
  induction k with
  | nil => rfl
  | cons a as ih =>
    have e : isZeroPos (negPos (a :: as)) = ((-a == 0) && isZeroPos (negPos as)) := rfl
    have e' : isZeroPos (a :: as) = ((a == 0) && isZeroPos as) := rfl
    have e2 : (-a == 0) = (a == 0) := by
      by_cases h : a = 0
      · subst h; rfl
      · have h2 : -a ≠ 0 := by omega
        rw [beq_eq_false_iff_ne.mpr h, beq_eq_false_iff_ne.mpr h2]
    rw [e, e', ih, e2]

section
variable {d : Nat} {S : List Nat} {bc : Array Int}

theorem starShaped_family (h : C01.RegularElem d S bc) : StarShaped (neighbours S bc) := by
  intro k hk k' hb
  obtain ⟨⟨kh, hkh, rfl⟩, _⟩ := (mem_neighbours S bc _).mp hk
  by_cases hz : isZeroPos k' = true
  · exact Or.inl hz
  · right
    exact (mem_neighbours S bc k').mpr ⟨⟨(k', 1), h.star_mem kh hkh k' hb, rfl⟩, by simpa using hz⟩

theorem neighbours_len (h : C01.RegularElem d S bc) : ∀ k ∈ neighbours S bc, k.length = d := by
  intro k hk
  obtain ⟨⟨kh, hkh, rfl⟩, _⟩ := (mem_neighbours S bc _).mp hk
  exact h.len true kh hkh

theorem symNb_family (h : C01.RegularElem d S bc) (A : Img Int) (hd : A.shape.length = d) :
    SymNb A (neighbours S bc) := by
  constructor
  · intro k hk
    obtain ⟨⟨kh, hkh, rfl⟩, hz⟩ := (mem_neighbours S bc _).mp hk
    exact (mem_neighbours S bc _).mpr ⟨⟨(negPos kh.1, 1), h.neg_mem kh hkh, rfl⟩, by
      rw [isZeroPos_negPos]; exact hz⟩
  · intro k hk
    rw [neighbours_len h k hk, hd]

end

end Mahotas.C14
