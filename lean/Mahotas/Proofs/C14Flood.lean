/-
F14 for C14: the stack flood fill of `Model/C14.lean` (with fuel) clears exactly the flags of the
pixels reachable from the initial stack through available pixels.
-/
import Mahotas.Proofs.C14
import Mahotas.Proofs.C02Index
namespace Mahotas.C14
open Mahotas

/-! ### index round trip, counting flags -/

theorem unravelI_ravelI (s : List Nat) (q : List Int) (h : inside s q = true) :
    unravelI s (ravelI s q) = q := by
  induction s generalizing q with
  | nil => cases q <;> simp_all [inside, unravelI, unravel]
  | cons d ds ih =>
    cases q with
    | nil => simp [inside] at h
    | cons x xs =>
      simp only [inside, Bool.and_eq_true, decide_eq_true_eq] at h
      have hr := ravelI_lt ds xs h.2
      have hS : 0 < shapeSize ds := by omega
      have ih' := ih xs h.2
      simp only [unravelI] at ih'
      simp only [unravelI, unravel, ravelI, List.map_cons]
      rw [Nat.add_comm, Nat.add_mul_div_right _ _ hS, Nat.add_mul_mod_self_right,
        Nat.div_eq_of_lt hr, Nat.mod_eq_of_lt hr, ih', Nat.zero_add]
      congr 1
      exact Int.toNat_of_nonneg h.1.1

theorem ravelI_inj (s : List Nat) (p q : List Int) (hp : inside s p = true) (hq : inside s q = true)
    (h : ravelI s p = ravelI s q) : p = q := by
  rw [← unravelI_ravelI s p hp, ← unravelI_ravelI s q hq, h]

theorem mem_allPos_of_inside (s : List Nat) (q : List Int) (h : inside s q = true) : q ∈ allPos s := by
  rw [← unravelI_ravelI s q h]
  exact unravelI_mem_allPos s _ (ravelI_lt s q h)

/-- number of set flags -/
def cnt (av : Array Bool) : Nat := av.toList.countP id

theorem cnt_take (av : Array Bool) (i : Nat) (h : av.getD i false = true) :
    cnt (av.setIfInBounds i false) + 1 = cnt av := by
  have hi : i < av.size := by
    by_cases hi : i < av.size
    · exact hi
    · simp [Array.getD_eq_getD_getElem?, Array.getElem?_eq_none (Nat.le_of_not_lt hi)] at h
  have hv : av[i] = true := by
    simpa [Array.getD_eq_getD_getElem?, Array.getElem?_eq_getElem hi] using h
  unfold cnt
  rw [Array.toList_setIfInBounds, List.countP_set (by simpa using hi)]
  have hpos : 0 < List.countP id av.toList := by
    rw [List.countP_pos_iff]
    exact ⟨true, by rw [← hv]; simp, rfl⟩
  have : av.toList[i]'(by simpa using hi) = true := by simpa using hv
  rw [this]
  simp only [id_eq, if_true, Bool.false_eq_true, if_false, Nat.add_zero]
  omega

/-! ### reachability -/

structure Ctx where
  shape : List Nat
  nb : List (List Int)
  avail0 : Array Bool
  stack0 : List (List Int)

/-- the flag of position `q` -/
def Ctx.fl (c : Ctx) (av : Array Bool) (q : List Int) : Bool := av.getD (ravelI c.shape q) false

/-- `q` is reached from the initial stack by steps `p ↦ p + k` (`k` in the neighbourhood) through
    pixels inside the image that are initially available -/
inductive Reach (c : Ctx) : List Int → Prop
  | base (p q k : List Int) : p ∈ c.stack0 → k ∈ c.nb → q = addPos p k → inside c.shape q = true →
      c.fl c.avail0 q = true → Reach c q
  | step (p q k : List Int) : Reach c p → k ∈ c.nb → q = addPos p k → inside c.shape q = true →
      c.fl c.avail0 q = true → Reach c q

def Src (c : Ctx) (p : List Int) : Prop := p ∈ c.stack0 ∨ Reach c p

theorem Reach.of_src {c : Ctx} {p k : List Int} (hp : Src c p) (hk : k ∈ c.nb)
    (hin : inside c.shape (addPos p k) = true) (hav : c.fl c.avail0 (addPos p k) = true) :
    Reach c (addPos p k) := by
  rcases hp with hp | hp
  · exact Reach.base p _ k hp hk rfl hin hav
  · exact Reach.step p _ k hp hk rfl hin hav

theorem Reach.props {c : Ctx} {q : List Int} (h : Reach c q) :
    inside c.shape q = true ∧ c.fl c.avail0 q = true := by
  cases h with
  | base _ _ _ _ _ _ hin hav => exact ⟨hin, hav⟩
  | step _ _ _ _ _ _ hin hav => exact ⟨hin, hav⟩

/-- all available neighbours of `p` have been taken -/
def Done (c : Ctx) (av : Array Bool) (p : List Int) : Prop :=
  ∀ k ∈ c.nb, inside c.shape (addPos p k) = true → c.fl c.avail0 (addPos p k) = true →
    c.fl av (addPos p k) = false

/-- invariant of the inner loop: `p` has been popped and the offsets `done` processed -/
structure InvIn (c : Ctx) (p : List Int) (done : List (List Int)) (av : Array Bool)
    (st : List (List Int)) : Prop where
  sub : ∀ q, inside c.shape q = true → c.fl av q = true → c.fl c.avail0 q = true
  taken : ∀ q, inside c.shape q = true → c.fl c.avail0 q = true → c.fl av q = false → Reach c q
  stk : ∀ p' ∈ st, Src c p'
  src : Src c p
  closed : ∀ p', Src c p' → p' ∈ st ∨ (inside c.shape p' = true ∧ c.fl av p' = true) ∨ Done c av p' ∨ p' = p
  part : ∀ k ∈ done, inside c.shape (addPos p k) = true → c.fl c.avail0 (addPos p k) = true →
    c.fl av (addPos p k) = false

/-- invariant of the outer loop -/
structure Inv (c : Ctx) (av : Array Bool) (st : List (List Int)) : Prop where
  sub : ∀ q, inside c.shape q = true → c.fl av q = true → c.fl c.avail0 q = true
  taken : ∀ q, inside c.shape q = true → c.fl c.avail0 q = true → c.fl av q = false → Reach c q
  stk : ∀ p' ∈ st, Src c p'
  closed : ∀ p', Src c p' → p' ∈ st ∨ (inside c.shape p' = true ∧ c.fl av p' = true) ∨ Done c av p'

theorem fl_set (c : Ctx) (av : Array Bool) (q q' : List Int) (hq : inside c.shape q = true)
    (hq' : inside c.shape q' = true) :
    c.fl (av.setIfInBounds (ravelI c.shape q) false) q' = (if q' = q then false else c.fl av q') := by
  unfold Ctx.fl
  rw [getD_setIfInBounds_false]
  by_cases h : q' = q
  · subst h; simp
  · have : ravelI c.shape q ≠ ravelI c.shape q' := fun he => h (ravelI_inj c.shape q' q hq' hq he.symm)
    simp [this, h]

/-- one offset of the inner loop, the pixel is taken -/
theorem invIn_take (c : Ctx) (p : List Int) (done : List (List Int)) (av : Array Bool)
    (st : List (List Int)) (k : List Int) (hk : k ∈ c.nb) (h : InvIn c p done av st)
    (hin : inside c.shape (addPos p k) = true) (hav : c.fl av (addPos p k) = true) :
    InvIn c p (done ++ [k]) (av.setIfInBounds (ravelI c.shape (addPos p k)) false) (addPos p k :: st) := by
  have hreach : Reach c (addPos p k) := Reach.of_src h.src hk hin (h.sub _ hin hav)
  have hfl : ∀ q', inside c.shape q' = true →
      c.fl (av.setIfInBounds (ravelI c.shape (addPos p k)) false) q' =
        (if q' = addPos p k then false else c.fl av q') := fun q' hq' => fl_set c av _ q' hin hq'
  refine ⟨?_, ?_, ?_, h.src, ?_, ?_⟩
  · intro q hq hf
    rw [hfl q hq] at hf
    by_cases he : q = addPos p k
    · simp [he] at hf
    · simp only [he, if_false] at hf; exact h.sub q hq hf
  · intro q hq h0 hf
    rw [hfl q hq] at hf
    by_cases he : q = addPos p k
    · rw [he]; exact hreach
    · simp only [he, if_false] at hf; exact h.taken q hq h0 hf
  · intro p' hp'
    rcases List.mem_cons.mp hp' with rfl | hp'
    · exact Or.inr hreach
    · exact h.stk p' hp'
  · intro p' hp'
    rcases h.closed p' hp' with h1 | ⟨h1, h2⟩ | h1 | h1
    · exact Or.inl (List.mem_cons_of_mem _ h1)
    · by_cases he : p' = addPos p k
      · exact Or.inl (by rw [he]; exact List.mem_cons_self)
      · refine Or.inr (Or.inl ⟨h1, ?_⟩)
        rw [hfl p' h1]; simp [he, h2]
    · refine Or.inr (Or.inr (Or.inl ?_))
      intro k' hk' hin' hav'
      rw [hfl _ hin']
      by_cases he : addPos p' k' = addPos p k
      · simp [he]
      · simp only [he, if_false]; exact h1 k' hk' hin' hav'
    · exact Or.inr (Or.inr (Or.inr h1))
  · intro k' hk' hin' hav'
    rw [hfl _ hin']
    by_cases he : addPos p k' = addPos p k
    · simp [he]
    · simp only [he, if_false]
      rcases List.mem_append.mp hk' with hk' | hk'
      · exact h.part k' hk' hin' hav'
      · simp only [List.mem_singleton] at hk'
        exact absurd (by rw [hk']) he

/-- one offset of the inner loop, nothing to take -/
theorem invIn_skip (c : Ctx) (p : List Int) (done : List (List Int)) (av : Array Bool)
    (st : List (List Int)) (k : List Int) (h : InvIn c p done av st)
    (hno : ¬ (inside c.shape (addPos p k) = true ∧ c.fl av (addPos p k) = true)) :
    InvIn c p (done ++ [k]) av st := by
  refine ⟨h.sub, h.taken, h.stk, h.src, h.closed, ?_⟩
  intro k' hk' hin' hav'
  rcases List.mem_append.mp hk' with hk' | hk'
  · exact h.part k' hk' hin' hav'
  · simp only [List.mem_singleton] at hk'
    subst hk'
    cases hf : c.fl av (addPos p k')
    · rfl
    · exact absurd ⟨hin', hf⟩ hno

/-! ### the loops -/

/-- the body of the inner loop of `floodVisit` -/
def visitStep (shape : List Nat) (p : List Int) (acc : Array Bool × List (List Int)) (k : List Int) :
    Array Bool × List (List Int) :=
  let q := addPos p k
  if inside shape q && acc.1.getD (ravelI shape q) false then
    (acc.1.setIfInBounds (ravelI shape q) false, q :: acc.2)
  else acc

theorem floodVisit_eq (shape : List Nat) (nb : List (List Int)) (p : List Int)
    (st : Array Bool × List (List Int)) : floodVisit shape nb p st = nb.foldl (visitStep shape p) st := rfl

theorem visit_inv (c : Ctx) (p : List Int) (ks : List (List Int)) (hks : ∀ k ∈ ks, k ∈ c.nb)
    (done : List (List Int)) (av : Array Bool) (st : List (List Int)) (h : InvIn c p done av st) :
    InvIn c p (done ++ ks) (ks.foldl (visitStep c.shape p) (av, st)).1
      (ks.foldl (visitStep c.shape p) (av, st)).2 ∧
    (ks.foldl (visitStep c.shape p) (av, st)).2.length + cnt (ks.foldl (visitStep c.shape p) (av, st)).1
      = st.length + cnt av := by
  induction ks generalizing done av st with
  | nil => simpa using h
  | cons k t ih =>
    have hk : k ∈ c.nb := hks k (by simp)
    have ht : ∀ k' ∈ t, k' ∈ c.nb := fun k' hk' => hks k' (by simp [hk'])
    simp only [List.foldl_cons]
    have happ : done ++ k :: t = (done ++ [k]) ++ t := by simp
    rw [happ]
    by_cases hc : inside c.shape (addPos p k) = true ∧ c.fl av (addPos p k) = true
    · have hstep : visitStep c.shape p (av, st) k =
          (av.setIfInBounds (ravelI c.shape (addPos p k)) false, addPos p k :: st) := by
        have h2 : av.getD (ravelI c.shape (addPos p k)) false = true := hc.2
        simp [visitStep, hc.1, h2]
      rw [hstep]
      obtain ⟨h1, h2⟩ := ih ht _ _ _ (invIn_take c p done av st k hk h hc.1 hc.2)
      refine ⟨h1, ?_⟩
      rw [h2]
      have := cnt_take av _ hc.2
      simp only [List.length_cons]
      omega
    · have hstep : visitStep c.shape p (av, st) k = (av, st) := by
        unfold visitStep
        simp only []
        split
        · rename_i hh
          simp only [Bool.and_eq_true] at hh
          exact absurd hh hc
        · rfl
      rw [hstep]
      exact ih ht _ _ _ (invIn_skip c p done av st k h hc)

theorem flood_inv (c : Ctx) (fuel : Nat) (av : Array Bool) (st : List (List Int)) (h : Inv c av st)
    (hf : st.length + cnt av ≤ fuel) : Inv c (flood c.shape c.nb fuel av st) [] := by
  induction fuel generalizing av st with
  | zero =>
    have : st = [] := by
      cases st with
      | nil => rfl
      | cons _ _ => simp at hf
    subst this
    unfold flood
    exact h
  | succ n ih =>
    cases st with
    | nil => unfold flood; exact h
    | cons p s =>
      unfold flood
      simp only []
      rw [floodVisit_eq]
      have hin : InvIn c p [] av s := by
        refine ⟨h.sub, h.taken, fun p' hp' => h.stk p' (List.mem_cons_of_mem _ hp'),
          h.stk p List.mem_cons_self, ?_, by simp⟩
        intro p' hp'
        rcases h.closed p' hp' with h1 | h1 | h1
        · rcases List.mem_cons.mp h1 with h1 | h1
          · exact Or.inr (Or.inr (Or.inr h1))
          · exact Or.inl h1
        · exact Or.inr (Or.inl h1)
        · exact Or.inr (Or.inr (Or.inl h1))
      obtain ⟨h1, h2⟩ := visit_inv c p c.nb (fun _ hk => hk) [] av s hin
      simp only [List.nil_append] at h1
      apply ih
      · refine ⟨h1.sub, h1.taken, h1.stk, ?_⟩
        intro p' hp'
        rcases h1.closed p' hp' with h3 | h3 | h3 | h3
        · exact Or.inl h3
        · exact Or.inr (Or.inl h3)
        · exact Or.inr (Or.inr h3)
        · subst h3; exact Or.inr (Or.inr h1.part)
      · rw [h2]; simp only [List.length_cons] at hf; omega

/-- **F14**: with enough fuel, the flood clears exactly the flags of the pixels reachable from the
    initial stack through initially available pixels -/
theorem flood_final (c : Ctx) (fuel : Nat) (hfuel : c.stack0.length + cnt c.avail0 ≤ fuel)
    (h0 : ∀ p ∈ c.stack0, c.fl c.avail0 p = false) (q : List Int) (hq : inside c.shape q = true) :
    c.fl (flood c.shape c.nb fuel c.avail0 c.stack0) q = true ↔
      (c.fl c.avail0 q = true ∧ ¬ Reach c q) := by
  have hinit : Inv c c.avail0 c.stack0 := by
    refine ⟨fun _ _ h => h, ?_, fun p hp => Or.inl hp, ?_⟩
    · intro q _ h1 h2; rw [h1] at h2; cases h2
    · intro p hp
      rcases hp with hp | hp
      · exact Or.inl hp
      · exact Or.inr (Or.inl hp.props)
  have hI := flood_inv c fuel c.avail0 c.stack0 hinit hfuel
  generalize flood c.shape c.nb fuel c.avail0 c.stack0 = fin at hI
  have key : ∀ q, Reach c q → c.fl fin q = false := by
    intro q hr
    induction hr with
    | base p q k hp hk hq hin hav =>
      subst hq
      rcases hI.closed p (Or.inl hp) with h1 | ⟨h1, h2⟩ | h1
      · cases h1
      · have := hI.sub p h1 h2
        rw [h0 p hp] at this; cases this
      · exact h1 k hk hin hav
    | step p q k hp hk hq hin hav ih =>
      subst hq
      rcases hI.closed p (Or.inr hp) with h1 | ⟨_, h2⟩ | h1
      · cases h1
      · rw [ih] at h2; cases h2
      · exact h1 k hk hin hav
  constructor
  · intro h
    refine ⟨hI.sub q hq h, fun hr => ?_⟩
    rw [key q hr] at h; cases h
  · rintro ⟨h1, h2⟩
    cases hf : c.fl fin q
    · exact absurd (hI.taken q hq h1 hf) h2
    · rfl

end Mahotas.C14
