/-
C14 round 4 — `hitmiss` for every template shape: the positions the `slack` rule evaluates in closed
form (odd sides, even sides, templates larger than the image).
-/
import Mahotas.Proofs.C14
namespace Mahotas.C14
open Mahotas

/-- the positions the kernel evaluates = the positions at which the template fits, minus the ones the
    even-side rule skips (`hmEvenExcluded`) — for every template with positive sides -/
theorem hmEvaluated_closed (shape bshape : List Nat) (p : List Int)
    (hpos : ∀ b ∈ bshape, 0 < b) (hne : shape ≠ [])
    (hl1 : bshape.length = shape.length) (hl2 : p.length = shape.length) :
    hmEvaluated shape bshape p = (templateInside shape bshape p && !hmEvenExcluded shape bshape p) := by
  induction shape generalizing bshape p with
  | nil => exact absurd rfl hne
  | cons n ns ih =>
    cases bshape with
    | nil => simp at hl1
    | cons b bs =>
      cases p with
      | nil => simp at hl2
      | cons x xs =>
        have hb : 0 < b := hpos b (by simp)
        rw [templateInside_cons]
        unfold hmEvaluated hmEvenExcluded
        by_cases hns : ns = []
        · subst hns
          have hbs : bs = [] := by
            cases bs with
            | nil => rfl
            | cons _ _ => simp at hl1
          have hxs : xs = [] := by
            cases xs with
            | nil => rfl
            | cons _ _ => simp at hl2
          subst hbs; subst hxs
          have e0 : hmEvenExcluded [] [] [] = false := by unfold hmEvenExcluded; rfl
          simp only [List.isEmpty_nil, if_true, Bool.true_and, templateInside, List.map_nil,
            subPos, addPos, inside, Bool.and_true, e0, Bool.or_false]
          rw [Bool.eq_iff_iff]
          simp only [Bool.and_eq_true, decide_eq_true_eq, Bool.not_eq_true', Bool.and_eq_false_iff,
            beq_eq_false_iff_ne, ne_eq]
          omega
        · have : ns.isEmpty = false := by cases ns <;> simp_all
          simp only [this, Bool.false_eq_true, if_false]
          rw [ih bs xs (fun b hb => hpos b (by simp [hb])) hns (by simpa using hl1) (by simpa using hl2)]
          generalize templateInside ns bs xs = u
          generalize hmEvenExcluded ns bs xs = v
          cases u
          · simp
          · cases v
            · simp only [Bool.and_true, Bool.or_false, Bool.not_false]
              rw [Bool.eq_iff_iff]
              simp only [Bool.and_eq_true, decide_eq_true_eq, Bool.not_eq_true', Bool.and_eq_false_iff,
                beq_eq_false_iff_ne, ne_eq]
              omega
            · simp

/-- if on some axis the image side is smaller than `2 ⌊b/2⌋ + 1` (in particular smaller than the
    template side `b`, or equal to an even `b`) the kernel evaluates no position at all -/
theorem hmEvaluated_false_of_small (shape bshape : List Nat) (p : List Int) (i : Nat)
    (hi : i < shape.length) (h : shape.getD i 0 < 2 * (bshape.getD i 0 / 2) + 1) :
    hmEvaluated shape bshape p = false := by
  induction shape generalizing bshape p i with
  | nil => simp at hi
  | cons n ns ih =>
    cases bshape with
    | nil => unfold hmEvaluated; rfl
    | cons b bs =>
      cases p with
      | nil => unfold hmEvaluated; rfl
      | cons x xs =>
        unfold hmEvaluated
        cases i with
        | zero =>
          simp only [List.getD_cons_zero] at h
          by_cases hns : ns.isEmpty = true
          · simp only [hns, if_true]
            have : decide (min ((b / 2 : Nat) : Int) ((n : Int) - ((b / 2 : Nat) : Int) - 1) ≥ ((b / 2 : Nat) : Int)) = false := by
              rw [decide_eq_false_iff_not]; omega
            rw [this]; simp
          · simp only [hns, Bool.false_eq_true, if_false]
            have : decide (min x ((n : Int) - x - 1) ≥ ((b / 2 : Nat) : Int)) = false := by
              rw [decide_eq_false_iff_not]; omega
            rw [this]; simp
        | succ j =>
          simp only [List.getD_cons_succ] at h
          have hj : j < ns.length := by simpa using hi
          have hns : ns.isEmpty = false := by cases ns <;> simp_all
          simp only [hns, Bool.false_eq_true, if_false]
          rw [ih bs xs j hj h]; simp

/-- with odd sides only, the even-side rule skips nothing -/
theorem hmEvenExcluded_odd (shape bshape : List Nat) (p : List Int) (hodd : ∀ b ∈ bshape, b % 2 = 1) :
    hmEvenExcluded shape bshape p = false := by
  induction shape generalizing bshape p with
  | nil => unfold hmEvenExcluded; rfl
  | cons n ns ih =>
    cases bshape with
    | nil => unfold hmEvenExcluded; rfl
    | cons b bs =>
      cases p with
      | nil => unfold hmEvenExcluded; rfl
      | cons x xs =>
        unfold hmEvenExcluded
        have hb : b % 2 = 1 := hodd b (by simp)
        rw [ih bs xs (fun b hb => hodd b (by simp [hb]))]
        have : (b % 2 == 0) = false := by rw [hb]; rfl
        rw [this]; rfl

/-- when the template fits at `p`, every entry of the template lies over a pixel of the image -/
theorem templateInside_reads (shape bshape : List Nat) (p u : List Int)
    (hl1 : bshape.length = shape.length) (hl2 : p.length = shape.length)
    (ht : templateInside shape bshape p = true) (hu : inside bshape u = true) :
    inside shape (addPos p (subPos u (centreOf bshape))) = true := by
  induction shape generalizing bshape p u with
  | nil =>
    cases bshape with
    | nil =>
      cases p with
      | nil => cases u <;> simp_all [inside, addPos, subPos, centreOf]
      | cons _ _ => simp at hl2
    | cons _ _ => simp at hl1
  | cons n ns ih =>
    cases bshape with
    | nil => simp at hl1
    | cons b bs =>
      cases p with
      | nil => simp at hl2
      | cons x xs =>
        cases u with
        | nil => simp [inside] at hu
        | cons y ys =>
          rw [templateInside_cons] at ht
          simp only [Bool.and_eq_true, decide_eq_true_eq] at ht
          simp only [inside, Bool.and_eq_true, decide_eq_true_eq] at hu
          have := ih bs xs ys (by simpa using hl1) (by simpa using hl2) ht.2 hu.2
          simp only [centreOf] at this
          simp only [centreOf, List.map_cons, subPos, addPos, inside, this, Bool.and_true,
            Bool.and_eq_true, decide_eq_true_eq]
          omega

end Mahotas.C14
