/-
C14-T3: `close_holes` = complement of the background connected to the image border.
-/
import Mahotas.Proofs.C14Flood
namespace Mahotas.C14
open Mahotas

/-- background pixel `q` is connected to the border: it is a background pixel on the border, or it
    is reached from one by steps `p ↦ p + k` (`k` in the neighbourhood) through background pixels
    inside the image -/
inductive BorderConn (ref : Img Int) (nb : List (List Int)) : List Int → Prop
  | seed (q : List Int) : inside ref.shape q = true → onBorder ref.shape q = true →
      ref.getD q 1 = 0 → BorderConn ref nb q
  | step (p q k : List Int) : BorderConn ref nb p → k ∈ nb → q = addPos p k →
      inside ref.shape q = true → ref.getD q 1 = 0 → BorderConn ref nb q

/-- the flood context of `closeHoles` -/
def chCtx (ref : Img Int) (nb : List (List Int)) : Ctx :=
  { shape := ref.shape, nb := nb, avail0 := chAvail1 ref, stack0 := (chSeeds ref).reverse }

theorem mem_chSeeds (ref : Img Int) (q : List Int) :
    q ∈ chSeeds ref ↔ inside ref.shape q = true ∧ onBorder ref.shape q = true ∧ ref.getD q 1 = 0 := by
  unfold chSeeds
  rw [List.mem_filter]
  constructor
  · rintro ⟨h1, h2⟩
    obtain ⟨i, hi, rfl⟩ := mem_allPos _ _ h1
    simp only [Bool.and_eq_true, beq_iff_eq] at h2
    exact ⟨inside_unravelI _ _ hi, h2.1, h2.2⟩
  · rintro ⟨h1, h2, h3⟩
    exact ⟨mem_allPos_of_inside _ _ h1, by simp [h2, h3]⟩

theorem fl_chAvail0 (ref : Img Int) (nb : List (List Int)) (hwf : ref.data.size = shapeSize ref.shape)
    (q : List Int) (hq : inside ref.shape q = true) :
    (chCtx ref nb).fl (chAvail0 ref) q = true ↔ ref.getD q 1 = 0 := by
  have hi : ravelI ref.shape q < ref.data.size := by rw [hwf]; exact ravelI_lt _ _ hq
  unfold Ctx.fl chAvail0
  rw [Img.getD_inside ref q 1 hq]
  simp [chCtx, Array.getD_eq_getD_getElem?, List.getElem?_map, Array.getElem?_eq_getElem hi]

theorem fl_foldl_set (c : Ctx) (ps : List (List Int)) (hps : ∀ p ∈ ps, inside c.shape p = true)
    (av : Array Bool) (q : List Int) (hq : inside c.shape q = true) :
    c.fl (ps.foldl (fun a p => a.setIfInBounds (ravelI c.shape p) false) av) q = true ↔
      (c.fl av q = true ∧ q ∉ ps) := by
  induction ps generalizing av with
  | nil => simp
  | cons p t ih =>
    simp only [List.foldl_cons, List.mem_cons, not_or]
    rw [ih (fun p' hp' => hps p' (by simp [hp'])), fl_set c av p q (hps p (by simp)) hq]
    by_cases h : q = p
    · simp [h]
    · simp [h]

theorem fl_chAvail1 (ref : Img Int) (nb : List (List Int)) (hwf : ref.data.size = shapeSize ref.shape)
    (q : List Int) (hq : inside ref.shape q = true) :
    (chCtx ref nb).fl (chAvail1 ref) q = true ↔ (ref.getD q 1 = 0 ∧ q ∉ chSeeds ref) := by
  unfold chAvail1
  have := fl_foldl_set (chCtx ref nb) (chSeeds ref)
    (fun p hp => ((mem_chSeeds ref p).mp hp).1) (chAvail0 ref) q hq
  rw [show (chCtx ref nb).shape = ref.shape from rfl] at this
  rw [this, fl_chAvail0 ref nb hwf q hq]

theorem borderConn_iff (ref : Img Int) (nb : List (List Int)) (hwf : ref.data.size = shapeSize ref.shape)
    (q : List Int) :
    BorderConn ref nb q ↔ (q ∈ chSeeds ref ∨ Reach (chCtx ref nb) q) := by
  constructor
  · intro h
    induction h with
    | seed q h1 h2 h3 => exact Or.inl ((mem_chSeeds ref q).mpr ⟨h1, h2, h3⟩)
    | step p q k _ hk hq hin hbg ih =>
      by_cases hs : q ∈ chSeeds ref
      · exact Or.inl hs
      · right
        subst hq
        have hsrc : Src (chCtx ref nb) p := by
          rcases ih with h | h
          · exact Or.inl (by simpa [chCtx] using h)
          · exact Or.inr h
        exact Reach.of_src hsrc hk hin ((fl_chAvail1 ref nb hwf _ hin).mpr ⟨hbg, hs⟩)
  · rintro (h | h)
    · obtain ⟨h1, h2, h3⟩ := (mem_chSeeds ref q).mp h
      exact BorderConn.seed q h1 h2 h3
    · induction h with
      | base p q k hp hk hq hin hav =>
        have hp' : p ∈ chSeeds ref := by simpa [chCtx] using hp
        obtain ⟨h1, h2, h3⟩ := (mem_chSeeds ref p).mp hp'
        exact BorderConn.step p q k (BorderConn.seed p h1 h2 h3) hk hq hin
          ((fl_chAvail1 ref nb hwf q hin).mp hav).1
      | step p q k _ hk hq hin hav ih =>
        exact BorderConn.step p q k ih hk hq hin ((fl_chAvail1 ref nb hwf q hin).mp hav).1

theorem cnt_le_size (av : Array Bool) : cnt av ≤ av.size := by
  unfold cnt
  have := List.countP_le_length (p := id) (l := av.toList)
  simpa using this

theorem size_foldl_set (ps : List (List Int)) (shape : List Nat) (av : Array Bool) :
    (ps.foldl (fun a p => a.setIfInBounds (ravelI shape p) false) av).size = av.size := by
  induction ps generalizing av with
  | nil => rfl
  | cons p t ih => simp only [List.foldl_cons, ih, Array.size_setIfInBounds]

/-- **C14-T3** -/
theorem closeHoles_spec (ref : Img Int) (nb : List (List Int)) (hwf : ref.data.size = shapeSize ref.shape)
    (q : List Int) (hq : inside ref.shape q = true) :
    (closeHoles ref nb).getD (ravelI ref.shape q) false = true ↔ ¬ BorderConn ref nb q := by
  have hi : ravelI ref.shape q < shapeSize ref.shape := ravelI_lt _ _ hq
  have hfuel : (chCtx ref nb).stack0.length + cnt (chCtx ref nb).avail0 ≤
      ref.size + (chSeeds ref).length + 1 := by
    have h1 := cnt_le_size (chAvail1 ref)
    have h2 : (chAvail1 ref).size = ref.data.size := by
      unfold chAvail1; rw [size_foldl_set]; simp [chAvail0]
    have h5 : ref.size = shapeSize ref.shape := rfl
    show (chSeeds ref).reverse.length + cnt (chAvail1 ref) ≤ _
    rw [List.length_reverse]
    omega
  have h0 : ∀ p ∈ (chCtx ref nb).stack0, (chCtx ref nb).fl (chCtx ref nb).avail0 p = false := by
    intro p hp
    have hp' : p ∈ chSeeds ref := by simpa [chCtx] using hp
    have hin := ((mem_chSeeds ref p).mp hp').1
    cases hf : (chCtx ref nb).fl (chCtx ref nb).avail0 p
    · rfl
    · exact absurd hp' ((fl_chAvail1 ref nb hwf p hin).mp hf).2
  have hfin := flood_final (chCtx ref nb) _ hfuel h0 q hq
  have hget : (closeHoles ref nb).getD (ravelI ref.shape q) false =
      (ref.data.getD (ravelI ref.shape q) 0 != 0 ||
       (chCtx ref nb).fl (flood ref.shape nb (ref.size + (chSeeds ref).length + 1) (chAvail1 ref)
         (chSeeds ref).reverse) q) := by
    have hi' : ravelI ref.shape q < ref.size := hi
    simp [closeHoles, Ctx.fl, chCtx, Array.getD_eq_getD_getElem?, List.getElem?_map,
      List.getElem?_range hi']
  rw [hget, borderConn_iff ref nb hwf q]
  have hbg : ref.getD q 1 = ref.data.getD (ravelI ref.shape q) 0 := by
    rw [Img.getD_inside ref q 1 hq]
    have hi2 : ravelI ref.shape q < ref.data.size := by rw [hwf]; exact hi
    simp [Array.getD_eq_getD_getElem?, Array.getElem?_eq_getElem hi2]
  have hfin' : (chCtx ref nb).fl (flood ref.shape nb (ref.size + (chSeeds ref).length + 1) (chAvail1 ref)
      (chSeeds ref).reverse) q = true ↔
      ((ref.getD q 1 = 0 ∧ q ∉ chSeeds ref) ∧ ¬ Reach (chCtx ref nb) q) := by
    rw [← fl_chAvail1 ref nb hwf q hq]; exact hfin
  rw [Bool.or_eq_true, hfin', hbg]
  by_cases hz : ref.data.getD (ravelI ref.shape q) 0 = 0
  · simp only [hz, bne_self_eq_false, Bool.false_eq_true, false_or, true_and]
    constructor
    · rintro ⟨h1, h2⟩ (h | h)
      · exact h1 h
      · exact h2 h
    · intro h; exact ⟨fun h1 => h (Or.inl h1), fun h2 => h (Or.inr h2)⟩
  · have hne : (ref.data.getD (ravelI ref.shape q) 0 != 0) = true := by simpa using hz
    simp only [hne, true_or, true_iff]
    rintro (h | h)
    · have := ((mem_chSeeds ref q).mp h).2.2
      rw [hbg] at this; exact hz this
    · have := ((fl_chAvail1 ref nb hwf q hq).mp h.props.2).1
      rw [hbg] at this; exact hz this

end Mahotas.C14
