/-
C14 round 4 — the executable fixed-point specification `closeHolesSpec` that the driver prints for
`holes` is the complement of `BorderConn` (symmetric neighbourhoods): soundness of every round,
`size` rounds reach the fixed point (generic counting argument), completeness at the fixed point.
-/
import Mahotas.Proofs.C14Holes
import Mahotas.Proofs.C14RegSpec
namespace Mahotas.C14
open Mahotas

/-! ### a monotone iteration on `N` flags is stationary after `N` rounds -/

theorem iter_mono_fixed_or_cnt (step : Array Bool → Array Bool) (N : Nat)
    (hsize : ∀ a, (step a).size = N)
    (hmono : ∀ a i, i < N → a.getD i false = true → (step a).getD i false = true)
    (a0 : Array Bool) (h0 : a0.size = N) (n : Nat) :
    step (iter step n a0) = iter step n a0 ∨ n + 1 ≤ cnt (iter step (n + 1) a0) := by
  have hsz : ∀ m, (iter step m a0).size = N := by
    intro m
    cases m with
    | zero => exact h0
    | succ k => rw [iter_succ']; exact hsize _
  have hcnt : ∀ a : Array Bool, a.size = N → step a ≠ a → cnt a < cnt (step a) := by
    intro a ha hne
    unfold cnt
    refine countP_lt_of_sub_ne _ _ (by simp [ha, hsize]) ?_ ?_
    · intro i hi
      have hi' : a.getD i false = true := by
        simpa [Array.getD_eq_getD_getElem?, List.getD_eq_getElem?_getD] using hi
      have hlt : i < N := by
        rw [← ha]
        by_cases hlt : i < a.size
        · exact hlt
        · rw [Array.getD_eq_getD_getElem?, Array.getElem?_eq_none (by omega)] at hi'; cases hi'
      have := hmono a i hlt hi'
      simpa [Array.getD_eq_getD_getElem?, List.getD_eq_getElem?_getD] using this
    · intro h; exact hne (Array.toList_inj.mp h.symm)
  induction n with
  | zero =>
    by_cases h : step a0 = a0
    · exact Or.inl h
    · right
      have := hcnt a0 h0 h
      show 1 ≤ cnt (step a0)
      omega
  | succ m ih =>
    rw [iter_succ' step (m + 1) a0]
    by_cases h : step (iter step (m + 1) a0) = iter step (m + 1) a0
    · exact Or.inl h
    · right
      have hlt := hcnt _ (hsz (m + 1)) h
      rcases ih with ih | ih
      · exfalso; apply h
        rw [iter_succ' step m a0, ih, ih]
      · omega

theorem iter_mono_fixed (step : Array Bool → Array Bool) (N : Nat)
    (hsize : ∀ a, (step a).size = N)
    (hmono : ∀ a i, i < N → a.getD i false = true → (step a).getD i false = true)
    (a0 : Array Bool) (h0 : a0.size = N) : step (iter step N a0) = iter step N a0 := by
  rcases iter_mono_fixed_or_cnt step N hsize hmono a0 h0 N with h | h
  · exact h
  · exfalso
    have h1 := cnt_le_size' (iter step (N + 1) a0)
    rw [iter_succ', hsize] at h1
    rw [iter_succ'] at h
    omega

/-! ### `closeHolesSpec` -/

theorem addPos_subPos_cancel (q k : List Int) (h : k.length = q.length) : addPos (subPos q k) k = q := by
  induction q generalizing k with
  | nil => cases k <;> simp [addPos, subPos]
  | cons x xs ih =>
    cases k with
    | nil => simp at h
    | cons a as =>
      simp only [subPos, addPos, ih as (by simpa using h)]
      congr 1; omega

theorem subPos_addPos_cancel (p k : List Int) (h : k.length = p.length) : subPos (addPos p k) k = p := by
  induction p generalizing k with
  | nil => cases k <;> simp [addPos, subPos]
  | cons x xs ih =>
    cases k with
    | nil => simp at h
    | cons a as =>
      simp only [subPos, addPos, ih as (by simpa using h)]
      congr 1; omega

section
variable {ref : Img Int} {nb : List (List Int)}

/-- the flag of position `q` -/
def hfl (ref : Img Int) (a : Array Bool) (q : List Int) : Bool := a.getD (ravelI ref.shape q) false

/-- the start of the iteration: background pixels of the border -/
def reach0 (ref : Img Int) : Array Bool :=
  ((allPos ref.shape).map fun p => onBorder ref.shape p && ref.getD p 1 == 0).toArray

theorem hfl_reachStep (a : Array Bool) (q : List Int) (hq : inside ref.shape q = true) :
    hfl ref (reachStep ref nb a) q =
      (hfl ref a q || (ref.getD q 1 == 0 && nb.any fun k =>
        (inside ref.shape (addPos q k) && hfl ref a (addPos q k)) ||
        (inside ref.shape (subPos q k) && hfl ref a (subPos q k)))) := by
  unfold hfl reachStep
  rw [getD_map_allPos ref.shape _ _ false (ravelI_lt _ _ hq), unravelI_ravelI _ _ hq]

theorem hfl_reach0 (q : List Int) (hq : inside ref.shape q = true) :
    hfl ref (reach0 ref) q = (onBorder ref.shape q && ref.getD q 1 == 0) := by
  unfold hfl reach0
  rw [getD_map_allPos ref.shape _ _ false (ravelI_lt _ _ hq), unravelI_ravelI _ _ hq]

theorem reachStep_size (a : Array Bool) : (reachStep ref nb a).size = shapeSize ref.shape := by
  unfold reachStep; exact size_map_allPos _ _

theorem reachStep_getD (a : Array Bool) (i : Nat) (hi : i < shapeSize ref.shape)
    (h : a.getD i false = true) : (reachStep ref nb a).getD i false = true := by
  unfold reachStep
  rw [getD_map_allPos ref.shape _ _ false hi, ravelI_unravelI ref.shape i hi, h]; rfl

theorem BorderConn.inside' {q : List Int} (h : BorderConn ref nb q) : inside ref.shape q = true := by
  cases h with
  | seed _ hin _ _ => exact hin
  | step _ _ _ _ _ _ hin _ => exact hin

theorem BorderConn.bg {q : List Int} (h : BorderConn ref nb q) : ref.getD q 1 = 0 := by
  cases h with
  | seed _ _ _ hb => exact hb
  | step _ _ _ _ _ _ _ hb => exact hb

theorem reachStep_sound (hn : SymNb ref nb) (a : Array Bool)
    (h : ∀ q, inside ref.shape q = true → hfl ref a q = true → BorderConn ref nb q)
    (q : List Int) (hq : inside ref.shape q = true) (hb : hfl ref (reachStep ref nb a) q = true) :
    BorderConn ref nb q := by
  rw [hfl_reachStep a q hq, Bool.or_eq_true] at hb
  rcases hb with hb | hb
  · exact h q hq hb
  · rw [Bool.and_eq_true, beq_iff_eq, List.any_eq_true] at hb
    obtain ⟨hbg, k, hk, hb⟩ := hb
    have hkl : k.length = q.length := by rw [hn.len k hk, inside_length _ _ hq]
    rw [Bool.or_eq_true] at hb
    rcases hb with hb | hb
    · simp only [Bool.and_eq_true] at hb
      refine BorderConn.step (addPos q k) q (negPos k) (h _ hb.1 hb.2) (hn.neg k hk) ?_ hq hbg
      exact (addPos_negPos q k hkl).symm
    · simp only [Bool.and_eq_true] at hb
      refine BorderConn.step (subPos q k) q k (h _ hb.1 hb.2) hk ?_ hq hbg
      exact (addPos_subPos_cancel q k hkl).symm

theorem iter_reachStep_sound (hn : SymNb ref nb) (n : Nat) (a : Array Bool)
    (h : ∀ q, inside ref.shape q = true → hfl ref a q = true → BorderConn ref nb q)
    (q : List Int) (hq : inside ref.shape q = true) (hb : hfl ref (iter (reachStep ref nb) n a) q = true) :
    BorderConn ref nb q := by
  induction n generalizing a with
  | zero => exact h q hq hb
  | succ m ih =>
    unfold iter at hb
    exact ih _ (fun q' hq' hb' => reachStep_sound hn a h q' hq' hb') hb

theorem iter_reachStep_mono (n : Nat) (a : Array Bool) (q : List Int) (hq : inside ref.shape q = true)
    (h : hfl ref a q = true) : hfl ref (iter (reachStep ref nb) n a) q = true := by
  induction n generalizing a with
  | zero => exact h
  | succ m ih =>
    unfold iter
    exact ih _ (by rw [hfl_reachStep a q hq, h]; rfl)

/-- the flags after `size` rounds -/
def reachFinal (ref : Img Int) (nb : List (List Int)) : Array Bool :=
  iter (reachStep ref nb) ref.size (reach0 ref)

theorem reachFinal_fixed : reachStep ref nb (reachFinal ref nb) = reachFinal ref nb := by
  unfold reachFinal
  exact iter_mono_fixed (reachStep ref nb) (shapeSize ref.shape) (fun a => reachStep_size a)
    (fun a i hi h => reachStep_getD a i hi h) (reach0 ref) (by unfold reach0; exact size_map_allPos _ _)

theorem reachFinal_iff (hn : SymNb ref nb) (q : List Int) (hq : inside ref.shape q = true) :
    hfl ref (reachFinal ref nb) q = true ↔ BorderConn ref nb q := by
  constructor
  · intro hb
    unfold reachFinal at hb
    refine iter_reachStep_sound hn _ _ ?_ q hq hb
    intro q' hq' hb'
    rw [hfl_reach0 q' hq', Bool.and_eq_true, beq_iff_eq] at hb'
    exact BorderConn.seed q' hq' hb'.1 hb'.2
  · intro hc
    induction hc with
    | seed q hin hbd hbg =>
      unfold reachFinal
      refine iter_reachStep_mono _ _ q hin ?_
      rw [hfl_reach0 q hin, hbd, hbg]; rfl
    | step p q k hp hk hqe hin hbg ih =>
      have hpin := hp.inside'
      have hkl : k.length = p.length := by rw [hn.len k hk, inside_length _ _ hpin]
      rw [← reachFinal_fixed, hfl_reachStep _ q hin, Bool.or_eq_true]
      right
      rw [Bool.and_eq_true, beq_iff_eq, List.any_eq_true]
      refine ⟨hbg, k, hk, ?_⟩
      rw [Bool.or_eq_true]; right
      have : subPos q k = p := by rw [hqe]; exact subPos_addPos_cancel p k hkl
      rw [this, hpin, ih hpin]; rfl

theorem closeHolesSpec_eq (ref : Img Int) (nb : List (List Int)) :
    closeHolesSpec ref nb = (reachFinal ref nb).map (!·) := rfl

theorem closeHolesSpec_iff (hn : SymNb ref nb) (q : List Int) (hq : inside ref.shape q = true) :
    (closeHolesSpec ref nb).getD (ravelI ref.shape q) false = true ↔ ¬ BorderConn ref nb q := by
  rw [closeHolesSpec_eq, ← reachFinal_iff hn q hq]
  have hsz : (reachFinal ref nb).size = shapeSize ref.shape := by
    unfold reachFinal
    cases hN : ref.size with
    | zero => unfold iter reach0; exact size_map_allPos _ _
    | succ m => rw [iter_succ']; exact reachStep_size _
  have hlt : ravelI ref.shape q < (reachFinal ref nb).size := by rw [hsz]; exact ravelI_lt _ _ hq
  unfold hfl
  simp [Array.getD_eq_getD_getElem?, hlt]

end

end Mahotas.C14
