/-
C14 round 4 — the kernels only compare pixel values: the models of `locmax`/`locmin`/`regmax`/`regmin`
are invariant under every strictly increasing re-labelling of the values. This is what makes the
harness's embedding of float images into the integer model (`x ↦ sign(x)·bits(|x|)`) sound.
-/
import Mahotas.Proofs.C14Reg
namespace Mahotas.C14
open Mahotas

theorem all_congr_mem {α : Type} (l : List α) (f g : α → Bool) (h : ∀ a ∈ l, f a = g a) : l.all f = l.all g := by
  induction l with
  | nil => rfl
  | cons a t ih =>
    simp only [List.all_cons, h a (by simp)]
    rw [ih (fun b hb => h b (by simp [hb]))]

/-- the image with every value re-labelled by `f` -/
def mapImg (f : Int → Int) (A : Img Int) : Img Int := { shape := A.shape, data := A.data.map f }

section
variable (f : Int → Int) (hf : ∀ a b : Int, a < b → f a < f b)
include hf

theorem mono_lt_iff (a b : Int) : f a < f b ↔ a < b := by
  constructor
  · intro h
    rcases Int.lt_trichotomy a b with h1 | h1 | h1
    · exact h1
    · subst h1; omega
    · have := hf b a h1; omega
  · exact hf a b

theorem mono_le_iff (a b : Int) : f a ≤ f b ↔ a ≤ b := by
  constructor
  · intro h
    rcases Int.lt_trichotomy a b with h1 | h1 | h1
    · omega
    · omega
    · have := hf b a h1; omega
  · intro h
    by_cases h1 : a < b
    · have := hf a b h1; omega
    · have : a = b := by omega
      subst this; omega

theorem beats_map (isMin : Bool) (a b : Int) : beats isMin (f a) (f b) = beats isMin a b := by
  unfold beats
  cases isMin
  · simp only [Bool.false_eq_true, if_false, gt_iff_lt]
    rw [Bool.eq_iff_iff, decide_eq_true_eq, decide_eq_true_eq]; exact mono_lt_iff f hf b a
  · simp only [if_true]
    rw [Bool.eq_iff_iff, decide_eq_true_eq, decide_eq_true_eq]; exact mono_lt_iff f hf a b

theorem weakBeats_map (isMin : Bool) (a b : Int) : weakBeats isMin (f a) (f b) = weakBeats isMin a b := by
  unfold weakBeats
  cases isMin
  · simp only [Bool.false_eq_true, if_false, ge_iff_le]
    rw [Bool.eq_iff_iff, decide_eq_true_eq, decide_eq_true_eq]; exact mono_le_iff f hf b a
  · simp only [if_true]
    rw [Bool.eq_iff_iff, decide_eq_true_eq, decide_eq_true_eq]; exact mono_le_iff f hf a b

end

theorem getD_mapImg (f : Int → Int) (A : Img Int) (hwf : A.data.size = shapeSize A.shape) (p : List Int)
    (hp : inside A.shape p = true) : (mapImg f A).getD p 0 = f (A.getD p 0) := by
  have hlt : ravelI A.shape p < A.data.size := by rw [hwf]; exact ravelI_lt _ _ hp
  unfold Img.getD mapImg
  simp only [hp, if_true]
  simp [Array.getD_eq_getD_getElem?, hlt]

section
variable (f : Int → Int) (hf : ∀ a b : Int, a < b → f a < f b) (isMin : Bool) (A : Img Int)
  (hwf : A.data.size = shapeSize A.shape) (nb : List (List Int))
include hf hwf

theorem locAt_mapImg (hlen : ∀ k ∈ nb, k.length = A.shape.length) (p : List Int)
    (hp : inside A.shape p = true) : locAt isMin (mapImg f A) nb p = locAt isMin A nb p := by
  have hs := inside_pos A.shape p hp
  unfold locAt
  apply all_congr_mem
  intro k hk
  obtain ⟨k', _, hc, hi⟩ := clamp_between A.shape p k hp (by rw [hlen k hk, inside_length _ _ hp])
  rw [C01.readNearest_eq (mapImg f A) _ hs, C01.readNearest_eq A _ hs]
  show (!beats isMin ((mapImg f A).getD (clampPos A.shape (addPos p k)) 0) ((mapImg f A).getD p 0)) = _
  rw [hc, getD_mapImg f A hwf _ hi, getD_mapImg f A hwf _ hp, beats_map f hf]

theorem locModel_mapImg (hlen : ∀ k ∈ nb, k.length = A.shape.length) :
    locModel isMin (mapImg f A) nb = locModel isMin A nb := by
  unfold locModel
  show ((allPos A.shape).map (locAt isMin (mapImg f A) nb)).toArray = _
  congr 1
  exact List.map_congr_left fun p hp =>
    locAt_mapImg f hf isMin A hwf nb hlen p (by obtain ⟨i, hi, rfl⟩ := mem_allPos _ _ hp; exact inside_unravelI _ _ hi)

theorem hasFakeWitness_mapImg (m : Array Bool) (p : List Int) (hp : inside A.shape p = true) :
    hasFakeWitness isMin (mapImg f A) nb m p = hasFakeWitness isMin A nb m p := by
  unfold hasFakeWitness
  apply List.any_congr rfl
  intro k
  show (inside A.shape (addPos p k) && !m.getD (ravelI A.shape (addPos p k)) false &&
      weakBeats isMin ((mapImg f A).getD (addPos p k) 0) ((mapImg f A).getD p 0)) = _
  by_cases hin : inside A.shape (addPos p k) = true
  · rw [getD_mapImg f A hwf _ hin, getD_mapImg f A hwf _ hp, weakBeats_map f hf]
  · have : inside A.shape (addPos p k) = false := by simpa using hin
    simp [this]

theorem removeFake_mapImg (marks : Array Bool) :
    removeFake isMin (mapImg f A) nb marks = removeFake isMin A nb marks := by
  rw [removeFake_eq, removeFake_eq]
  show (allPos A.shape).foldl (regBody isMin (mapImg f A) nb) marks = _
  have hps : ∀ p ∈ allPos A.shape, inside A.shape p = true := fun p hp => by
    obtain ⟨i, hi, rfl⟩ := mem_allPos _ _ hp; exact inside_unravelI _ _ hi
  generalize allPos A.shape = ps at hps
  induction ps generalizing marks with
  | nil => rfl
  | cons p t ih =>
    simp only [List.foldl_cons]
    have : regBody isMin (mapImg f A) nb marks p = regBody isMin A nb marks p := by
      unfold regBody
      rw [hasFakeWitness_mapImg f hf isMin A hwf nb marks p (hps p (by simp))]
      rfl
    rw [this]
    exact ih _ (fun q hq => hps q (by simp [hq]))

theorem regModel_mapImg (hlen : ∀ k ∈ nb, k.length = A.shape.length) :
    regModel isMin (mapImg f A) nb = regModel isMin A nb := by
  unfold regModel
  rw [locModel_mapImg f hf isMin A hwf nb hlen, removeFake_mapImg f hf isMin A hwf nb]

end

end Mahotas.C14
