/-
C14-T2: `regmax`/`regmin` mark exactly the plateaus without a strictly better neighbour
(symmetric neighbourhoods).
-/
import Mahotas.Proofs.C14Flood
namespace Mahotas.C14
open Mahotas

/-! ### position algebra -/

theorem addPos_negPos (p k : List Int) (h : k.length = p.length) : addPos (addPos p k) (negPos k) = p := by
  induction p generalizing k with
  | nil => cases k <;> simp [addPos, negPos]
  | cons x xs ih =>
    cases k with
    | nil => simp at h
    | cons a as =>
      have := ih as (by simpa using h)
      simp only [negPos] at this
      simp only [addPos, negPos, List.map_cons, this]
      congr 1; omega

/-! ### order facts -/

theorem beats_antisymm (isMin : Bool) (a b : Int) (h1 : beats isMin a b = false) (h2 : beats isMin b a = false) :
    a = b := by
  unfold beats at h1 h2
  cases isMin <;> simp at h1 h2 <;> omega

theorem weak_not_beats (isMin : Bool) (a b : Int) (h1 : weakBeats isMin a b = true) (h2 : beats isMin a b = false) :
    a = b := by
  unfold beats at h2; unfold weakBeats at h1
  cases isMin <;> simp at h1 h2 <;> omega

theorem weakBeats_refl (isMin : Bool) (a : Int) : weakBeats isMin a a = true := by
  unfold weakBeats; cases isMin <;> simp

/-! ### plateaus -/

section reg
variable (isMin : Bool) (A : Img Int) (nb : List (List Int))

/-- the flag of position `q` in a mark array -/
def flg (m : Array Bool) (q : List Int) : Bool := m.getD (ravelI A.shape q) false

/-- `q` is a local extremum in the sense of the specification -/
def Loc (q : List Int) : Prop :=
  ∀ k ∈ nb, inside A.shape (addPos q k) = true → beats isMin (A.getD (addPos q k) 0) (A.getD q 0) = false

theorem locSpecAt_iff (q : List Int) : locSpecAt isMin A nb q = true ↔ Loc isMin A nb q := by
  unfold locSpecAt Loc
  rw [List.all_eq_true]
  constructor
  · intro h k hk hin
    have := h k hk
    simpa [hin] using this
  · intro h k hk
    by_cases hin : inside A.shape (addPos q k) = true
    · simp [hin, h k hk hin]
    · have : inside A.shape (addPos q k) = false := by simpa using hin
      simp [this]

/-- one step inside a plateau: a neighbour inside the image with the same value -/
def PStep (x y : List Int) : Prop :=
  ∃ k ∈ nb, y = addPos x k ∧ inside A.shape y = true ∧ A.getD y 0 = A.getD x 0

/-- `r` belongs to the plateau of `q` -/
inductive PConn : List Int → List Int → Prop
  | refl (q : List Int) : PConn q q
  | tail (p x y : List Int) : PConn p x → PStep A nb x y → PConn p y

/-- the plateau of `q` has no strictly better neighbour -/
def Regional (q : List Int) : Prop := ∀ r, PConn A nb q r → Loc isMin A nb r

variable {isMin A nb}

theorem PConn.head {p x r : List Int} (h1 : PStep A nb p x) (h2 : PConn A nb x r) : PConn A nb p r := by
  induction h2 with
  | refl => exact PConn.tail p p _ (PConn.refl p) h1
  | tail x' y _ hs ih => exact PConn.tail p x' y ih hs

theorem PConn.trans {p x r : List Int} (h1 : PConn A nb p x) (h2 : PConn A nb x r) : PConn A nb p r := by
  induction h2 with
  | refl => exact h1
  | tail x' y _ hs ih => exact PConn.tail p x' y ih hs

/-- symmetric neighbourhood whose offsets have the rank of the image -/
structure SymNb (A : Img Int) (nb : List (List Int)) : Prop where
  neg : ∀ k ∈ nb, negPos k ∈ nb
  len : ∀ k ∈ nb, k.length = A.shape.length

theorem PStep.symm (hn : SymNb A nb) {x y : List Int} (hx : inside A.shape x = true) (h : PStep A nb x y) :
    PStep A nb y x := by
  obtain ⟨k, hk, rfl, hin, hv⟩ := h
  refine ⟨negPos k, hn.neg k hk, ?_, hx, hv.symm⟩
  rw [addPos_negPos x k (by rw [hn.len k hk, inside_length _ _ hx])]

theorem PConn.in_image {p r : List Int} (hp : inside A.shape p = true) (h : PConn A nb p r) :
    inside A.shape r = true := by
  cases h with
  | refl => exact hp
  | tail x y _ hs => obtain ⟨_, _, _, hin, _⟩ := hs; exact hin

theorem PConn.symm (hn : SymNb A nb) {p r : List Int} (hp : inside A.shape p = true) (h : PConn A nb p r) :
    PConn A nb r p := by
  induction h with
  | refl => exact PConn.refl p
  | tail x y hpx hs ih => exact PConn.head (PStep.symm hn (PConn.in_image hp hpx) hs) ih

theorem Regional.of_conn {p r : List Int} (h : Regional isMin A nb p) (hc : PConn A nb p r) :
    Regional isMin A nb r := fun r' hr' => h r' (PConn.trans hc hr')

end reg

/-! ### the flood keeps the size of the flag array -/

theorem cnt_le_size' (av : Array Bool) : cnt av ≤ av.size := by
  unfold cnt
  have := List.countP_le_length (p := id) (l := av.toList)
  simpa using this

theorem visitStep_size (shape : List Nat) (p : List Int) (acc : Array Bool × List (List Int)) (k : List Int) :
    (visitStep shape p acc k).1.size = acc.1.size := by
  unfold visitStep
  simp only []
  split <;> simp

theorem floodVisit_size (shape : List Nat) (nb : List (List Int)) (p : List Int)
    (st : Array Bool × List (List Int)) : (floodVisit shape nb p st).1.size = st.1.size := by
  rw [floodVisit_eq]
  induction nb generalizing st with
  | nil => rfl
  | cons k t ih => simp only [List.foldl_cons, ih, visitStep_size]

theorem flood_size (shape : List Nat) (nb : List (List Int)) (fuel : Nat) (av : Array Bool)
    (st : List (List Int)) : (flood shape nb fuel av st).size = av.size := by
  induction fuel generalizing av st with
  | zero => unfold flood; rfl
  | succ n ih =>
    cases st with
    | nil => unfold flood; rfl
    | cons p s => unfold flood; simp only []; rw [ih, floodVisit_size]

/-! ### the removal pass -/

section pass
variable {isMin : Bool} {A : Img Int} {nb : List (List Int)}

/-- the body of the scan of `removeFake` -/
def regBody (isMin : Bool) (A : Img Int) (nb : List (List Int)) (m : Array Bool) (p : List Int) : Array Bool :=
  let i := ravelI A.shape p
  if !m.getD i false then m
  else if hasFakeWitness isMin A nb m p then
    flood A.shape nb (A.size + 1) (m.setIfInBounds i false) [p]
  else m

theorem removeFake_eq (marks : Array Bool) :
    removeFake isMin A nb marks = (allPos A.shape).foldl (regBody isMin A nb) marks := rfl

theorem hasFakeWitness_iff (m : Array Bool) (p : List Int) :
    hasFakeWitness isMin A nb m p = true ↔
      ∃ k ∈ nb, inside A.shape (addPos p k) = true ∧ flg A m (addPos p k) = false ∧
        weakBeats isMin (A.getD (addPos p k) 0) (A.getD p 0) = true := by
  unfold hasFakeWitness flg
  rw [List.any_eq_true]
  constructor
  · rintro ⟨k, hk, h⟩
    simp only [Bool.and_eq_true, Bool.not_eq_true'] at h
    exact ⟨k, hk, h.1.1, h.1.2, h.2⟩
  · rintro ⟨k, hk, h1, h2, h3⟩
    exact ⟨k, hk, by simp [h1, h2, h3]⟩

/-- invariant of the scan: `scanned` lists the positions already visited -/
structure RInv (isMin : Bool) (A : Img Int) (nb : List (List Int)) (m : Array Bool)
    (scanned : List (List Int)) : Prop where
  size : m.size = shapeSize A.shape
  keep : ∀ q, inside A.shape q = true → Regional isMin A nb q → flg A m q = true
  loc : ∀ q, inside A.shape q = true → flg A m q = true → Loc isMin A nb q
  nofake : ∀ p ∈ scanned, inside A.shape p = true → flg A m p = true → ∀ k ∈ nb,
    inside A.shape (addPos p k) = true →
    weakBeats isMin (A.getD (addPos p k) 0) (A.getD p 0) = true → flg A m (addPos p k) = true

/-- adjacent marked pixels have the same value (symmetric neighbourhood) -/
theorem adj_marked_eq (hn : SymNb A nb) {m : Array Bool} {sc : List (List Int)} (h : RInv isMin A nb m sc)
    {x : List Int} {k : List Int} (hk : k ∈ nb) (hx : inside A.shape x = true)
    (hy : inside A.shape (addPos x k) = true) (mx : flg A m x = true) (my : flg A m (addPos x k) = true) :
    A.getD (addPos x k) 0 = A.getD x 0 := by
  have h1 := h.loc x hx mx k hk hy
  have h2 := h.loc _ hy my (negPos k) (hn.neg k hk)
  have hback : addPos (addPos x k) (negPos k) = x :=
    addPos_negPos x k (by rw [hn.len k hk, inside_length _ _ hx])
  rw [hback] at h2
  exact beats_antisymm isMin _ _ h1 (h2 hx)

theorem regBody_inv (hn : SymNb A nb) (m : Array Bool) (sc : List (List Int)) (h : RInv isMin A nb m sc)
    (p : List Int) (hp : inside A.shape p = true) :
    RInv isMin A nb (regBody isMin A nb m p) (p :: sc) := by
  unfold regBody
  simp only []
  have hflg : m.getD (ravelI A.shape p) false = flg A m p := rfl
  rw [hflg]
  cases hm : flg A m p
  · -- not marked: nothing happens
    simp only [Bool.not_false, if_true]
    refine ⟨h.size, h.keep, h.loc, ?_⟩
    intro p' hp' hin' hm'
    rcases List.mem_cons.mp hp' with rfl | hp'
    · rw [hm] at hm'; cases hm'
    · exact h.nofake p' hp' hin' hm'
  · simp only [Bool.not_true, Bool.false_eq_true, if_false]
    cases hw : hasFakeWitness isMin A nb m p
    · -- marked, no witness: stays
      simp only [Bool.false_eq_true, if_false]
      refine ⟨h.size, h.keep, h.loc, ?_⟩
      intro p' hp' hin' hm'
      rcases List.mem_cons.mp hp' with rfl | hp'
      · intro k hk hink hwk
        cases hf : flg A m (addPos p' k)
        · have : hasFakeWitness isMin A nb m p' = true :=
            (hasFakeWitness_iff m p').mpr ⟨k, hk, hink, hf, hwk⟩
          rw [hw] at this; cases this
        · rfl
      · exact h.nofake p' hp' hin' hm'
    · -- marked with a witness: the marked component of `p` is removed
      simp only [if_true]
      obtain ⟨k0, hk0, hin0, hf0, hw0⟩ := (hasFakeWitness_iff m p).mp hw
      let c : Ctx := ⟨A.shape, nb, m.setIfInBounds (ravelI A.shape p) false, [p]⟩
      have hset : ∀ q, inside A.shape q = true →
          flg A (m.setIfInBounds (ravelI A.shape p) false) q = (if q = p then false else flg A m q) :=
        fun q hq => fl_set c m p q hp hq
      have hfuel : c.stack0.length + cnt c.avail0 ≤ A.size + 1 := by
        have h1 := cnt_le_size' (m.setIfInBounds (ravelI A.shape p) false)
        have h2 : (m.setIfInBounds (ravelI A.shape p) false).size = shapeSize A.shape := by
          rw [Array.size_setIfInBounds, h.size]
        have h3 : A.size = shapeSize A.shape := rfl
        show [p].length + cnt (m.setIfInBounds (ravelI A.shape p) false) ≤ _
        simp only [List.length_singleton]
        omega
      have h0 : ∀ p' ∈ c.stack0, c.fl c.avail0 p' = false := by
        intro p' hp'
        have : p' = p := by simpa [c] using hp'
        subst this
        have e := hset p' hp
        rw [if_pos rfl] at e
        exact e
      have hfin : ∀ q, inside A.shape q = true →
          (flg A (flood A.shape nb (A.size + 1) (m.setIfInBounds (ravelI A.shape p) false) [p]) q = true ↔
            ((q ≠ p ∧ flg A m q = true) ∧ ¬ Reach c q)) := by
        intro q hq
        have := flood_final c (A.size + 1) hfuel h0 q hq
        have e : c.fl c.avail0 q = flg A (m.setIfInBounds (ravelI A.shape p) false) q := rfl
        rw [e, hset q hq] at this
        rw [show flg A (flood A.shape nb (A.size + 1) (m.setIfInBounds (ravelI A.shape p) false) [p]) q
            = c.fl (flood c.shape c.nb (A.size + 1) c.avail0 c.stack0) q from rfl, this]
        by_cases hqp : q = p <;> simp [hqp]
      -- every reached pixel is marked and lies in the plateau of `p`
      have hreach : ∀ q, Reach c q → flg A m q = true ∧ q ≠ p ∧ inside A.shape q = true ∧ PConn A nb p q := by
        intro q hr
        induction hr with
        | base p' q k hp' hk hq hin hav =>
          have : p' = p := by simpa [c] using hp'
          subst this; subst hq
          have e : c.fl c.avail0 (addPos p' k) = flg A (m.setIfInBounds (ravelI A.shape p') false) (addPos p' k) := rfl
          rw [e, hset _ hin] at hav
          by_cases hqp : addPos p' k = p'
          · simp [hqp] at hav
          · simp only [hqp, if_false] at hav
            refine ⟨hav, hqp, hin, PConn.tail _ _ _ (PConn.refl _) ⟨k, hk, rfl, hin, ?_⟩⟩
            exact adj_marked_eq hn h hk hp hin hm hav
        | step x q k _ hk hq hin hav ih =>
          subst hq
          obtain ⟨mx, _, hx, hpx⟩ := ih
          have e : c.fl c.avail0 (addPos x k) = flg A (m.setIfInBounds (ravelI A.shape p) false) (addPos x k) := rfl
          rw [e, hset _ hin] at hav
          by_cases hqp : addPos x k = p
          · simp [hqp] at hav
          · simp only [hqp, if_false] at hav
            refine ⟨hav, hqp, hin, PConn.tail _ _ _ hpx ⟨k, hk, rfl, hin, ?_⟩⟩
            exact adj_marked_eq hn h hk hx hin mx hav
      -- `p` is not regional: its witness is an unmarked pixel of its plateau
      have hnotreg : ¬ Regional isMin A nb p := by
        intro hr
        have hv : A.getD (addPos p k0) 0 = A.getD p 0 :=
          weak_not_beats isMin _ _ hw0 (h.loc p hp hm k0 hk0 hin0)
        have hstep : PConn A nb p (addPos p k0) := PConn.tail _ _ _ (PConn.refl _) ⟨k0, hk0, rfl, hin0, hv⟩
        have := h.keep _ hin0 (hr.of_conn hstep)
        rw [hf0] at this; cases this
      have hnotreg' : ∀ q, PConn A nb p q → ¬ Regional isMin A nb q := fun q hc hr =>
        hnotreg (hr.of_conn (PConn.symm hn hp hc))
      refine ⟨by rw [flood_size, Array.size_setIfInBounds, h.size], ?_, ?_, ?_⟩
      · intro q hq hr
        rw [hfin q hq]
        refine ⟨⟨fun hqp => hnotreg (hqp ▸ hr), h.keep q hq hr⟩, fun hre => ?_⟩
        exact hnotreg' q (hreach q hre).2.2.2 hr
      · intro q hq hmq
        exact h.loc q hq ((hfin q hq).mp hmq).1.2
      · intro p' hp' hin' hm' k hk hink hwk
        obtain ⟨⟨hne, hm1⟩, hnr⟩ := (hfin p' hin').mp hm'
        have hp'sc : p' ∈ sc := by
          rcases List.mem_cons.mp hp' with h1 | h1
          · exact absurd h1 hne
          · exact h1
        have hmx := h.nofake p' hp'sc hin' hm1 k hk hink hwk
        rw [hfin _ hink]
        have hback : addPos (addPos p' k) (negPos k) = p' :=
          addPos_negPos p' k (by rw [hn.len k hk, inside_length _ _ hin'])
        have hav' : c.fl c.avail0 p' = true := by
          have e : c.fl c.avail0 p' = flg A (m.setIfInBounds (ravelI A.shape p) false) p' := rfl
          rw [e, hset p' hin']; simp [hne, hm1]
        refine ⟨⟨fun hxp => ?_, hmx⟩, fun hre => ?_⟩
        · -- the neighbour is `p` itself: then `p'` is reached from the stack
          apply hnr
          have := Reach.base (c := c) p p' (negPos k) (by simp [c]) (hn.neg k hk)
            (by rw [← hxp, hback]) hin' hav'
          exact this
        · apply hnr
          have := Reach.step (c := c) (addPos p' k) p' (negPos k) hre (hn.neg k hk) (by rw [hback]) hin' hav'
          exact this

theorem regFold_inv (hn : SymNb A nb) (ps : List (List Int)) (hps : ∀ p ∈ ps, inside A.shape p = true)
    (m : Array Bool) (sc : List (List Int)) (h : RInv isMin A nb m sc) :
    RInv isMin A nb (ps.foldl (regBody isMin A nb) m) (ps.reverse ++ sc) := by
  induction ps generalizing m sc with
  | nil => simpa using h
  | cons p t ih =>
    simp only [List.foldl_cons, List.reverse_cons, List.append_assoc, List.singleton_append]
    exact ih (fun p' hp' => hps p' (by simp [hp'])) _ _ (regBody_inv hn m sc h p (hps p (by simp)))

/-- the removal pass turns the local extrema into the regional ones -/
theorem removeFake_spec (hn : SymNb A nb) (marks0 : Array Bool) (hsize : marks0.size = shapeSize A.shape)
    (hmarks : ∀ q, inside A.shape q = true → (flg A marks0 q = true ↔ Loc isMin A nb q))
    (q : List Int) (hq : inside A.shape q = true) :
    flg A (removeFake isMin A nb marks0) q = true ↔ Regional isMin A nb q := by
  have hinit : RInv isMin A nb marks0 [] :=
    ⟨hsize, fun q hq hr => (hmarks q hq).mpr (hr q (PConn.refl q)), fun q hq hm => (hmarks q hq).mp hm,
      by simp⟩
  have hfin := regFold_inv hn (allPos A.shape)
    (fun p hp => by obtain ⟨i, hi, rfl⟩ := mem_allPos _ _ hp; exact inside_unravelI _ _ hi) marks0 [] hinit
  rw [← removeFake_eq] at hfin
  generalize removeFake isMin A nb marks0 = mf at hfin ⊢
  constructor
  · intro hm r hr
    have : flg A mf r = true := by
      induction hr with
      | refl => exact hm
      | tail x y hqx hs ih =>
        obtain ⟨k, hk, rfl, hin, hv⟩ := hs
        have hx := PConn.in_image hq hqx
        refine hfin.nofake x (by simp [mem_allPos_of_inside _ _ hx]) hx ih k hk hin ?_
        rw [hv]; exact weakBeats_refl isMin _
    exact hfin.loc r (PConn.in_image hq hr) this
  · exact hfin.keep q hq

theorem flg_locModel (q : List Int) (hq : inside A.shape q = true) :
    flg A (locModel isMin A nb) q = locAt isMin A nb q := by
  unfold flg locModel
  rw [getD_map_allPos A.shape _ _ false (ravelI_lt _ _ hq), unravelI_ravelI _ _ hq]

/-- regional extrema of the model = plateaus without a strictly better neighbour -/
theorem regModel_spec (hn : SymNb A nb) (hstar : StarShaped nb) (q : List Int) (hq : inside A.shape q = true) :
    (regModel isMin A nb).getD (ravelI A.shape q) false = true ↔ Regional isMin A nb q := by
  have := removeFake_spec (isMin := isMin) hn (locModel isMin A nb) (size_map_allPos _ _)
    (fun q' hq' => by
      rw [flg_locModel q' hq',
        locAt_eq_spec isMin A nb q' hq' (fun k hk => by rw [hn.len k hk, inside_length _ _ hq']) hstar,
        locSpecAt_iff])
    q hq
  exact this

end pass

end Mahotas.C14
