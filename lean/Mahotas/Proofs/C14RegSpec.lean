/-
C14 round 4 — the executable fixed-point specification `regSpec` that the driver prints for `reg`
is tied to `Regional` (sound always; complete once the iteration has reached its fixed point, which
the driver checks and prints), and corollaries of `regModel_spec` for plateaus of global extrema
(they touch the border whenever they like).
-/
import Mahotas.Proofs.C14Reg
namespace Mahotas.C14
open Mahotas

theorem subPos_eq_addPos_neg (q k : List Int) : subPos q k = addPos q (negPos k) := by
  induction q generalizing k with
  | nil => cases k <;> simp [subPos, addPos, negPos]
  | cons x xs ih =>
    cases k with
    | nil => simp [subPos, addPos, negPos]
    | cons a as =>
      have := ih as
      simp only [negPos] at this
      simp only [subPos, addPos, negPos, List.map_cons, this]
      congr 1

section
variable {isMin : Bool} {A : Img Int} {nb : List (List Int)}

theorem flg_badStep (bad : Array Bool) (q : List Int) (hq : inside A.shape q = true) :
    flg A (badStep A nb bad) q =
      (flg A bad q || nb.any fun k =>
        (inside A.shape (addPos q k) && A.getD (addPos q k) 0 == A.getD q 0 && flg A bad (addPos q k)) ||
        (inside A.shape (subPos q k) && A.getD (subPos q k) 0 == A.getD q 0 && flg A bad (subPos q k))) := by
  unfold flg badStep
  rw [getD_map_allPos A.shape _ _ false (ravelI_lt _ _ hq), unravelI_ravelI _ _ hq]

theorem flg_regBad0 (q : List Int) (hq : inside A.shape q = true) :
    flg A (regBad0 isMin A nb) q = !locSpecAt isMin A nb q := by
  unfold flg regBad0
  rw [getD_map_allPos A.shape _ _ false (ravelI_lt _ _ hq), unravelI_ravelI _ _ hq]

theorem size_iter_badStep (n : Nat) (bad : Array Bool) (h : bad.size = shapeSize A.shape) :
    (iter (badStep A nb) n bad).size = shapeSize A.shape := by
  induction n generalizing bad with
  | zero => exact h
  | succ m ih => unfold iter; exact ih _ (by unfold badStep; exact size_map_allPos _ _)

theorem size_regSpecBad : (regSpecBad isMin A nb).size = shapeSize A.shape := by
  unfold regSpecBad
  exact size_iter_badStep _ _ (by unfold regBad0; exact size_map_allPos _ _)

/-- the iteration only ever sets flags -/
theorem iter_badStep_mono (n : Nat) (bad : Array Bool) (q : List Int) (hq : inside A.shape q = true)
    (h : flg A bad q = true) : flg A (iter (badStep A nb) n bad) q = true := by
  induction n generalizing bad with
  | zero => exact h
  | succ m ih =>
    unfold iter
    exact ih _ (by rw [flg_badStep bad q hq, h]; rfl)

/-- soundness of one round: flags stay inside "the plateau has a strictly better neighbour" -/
theorem badStep_sound (hn : SymNb A nb) (bad : Array Bool)
    (h : ∀ q, inside A.shape q = true → flg A bad q = true → ¬ Regional isMin A nb q)
    (q : List Int) (hq : inside A.shape q = true) (hb : flg A (badStep A nb bad) q = true) :
    ¬ Regional isMin A nb q := by
  rw [flg_badStep bad q hq, Bool.or_eq_true] at hb
  rcases hb with hb | hb
  · exact h q hq hb
  · rw [List.any_eq_true] at hb
    obtain ⟨k, hk, hb⟩ := hb
    rw [Bool.or_eq_true] at hb
    rcases hb with hb | hb
    · simp only [Bool.and_eq_true, beq_iff_eq] at hb
      intro hreg
      exact h _ hb.1.1 hb.2 (hreg.of_conn (PConn.tail q q _ (PConn.refl q) ⟨k, hk, rfl, hb.1.1, hb.1.2⟩))
    · simp only [Bool.and_eq_true, beq_iff_eq] at hb
      intro hreg
      refine h _ hb.1.1 hb.2 (hreg.of_conn (PConn.tail q q _ (PConn.refl q) ⟨negPos k, hn.neg k hk, ?_, hb.1.1, hb.1.2⟩))
      exact subPos_eq_addPos_neg q k

theorem iter_badStep_sound (hn : SymNb A nb) (n : Nat) (bad : Array Bool)
    (h : ∀ q, inside A.shape q = true → flg A bad q = true → ¬ Regional isMin A nb q)
    (q : List Int) (hq : inside A.shape q = true) (hb : flg A (iter (badStep A nb) n bad) q = true) :
    ¬ Regional isMin A nb q := by
  induction n generalizing bad with
  | zero => exact h q hq hb
  | succ m ih =>
    unfold iter at hb
    exact ih _ (fun q' hq' hb' => badStep_sound hn bad h q' hq' hb') hb

theorem regBad0_sound (q : List Int) (hq : inside A.shape q = true)
    (hb : flg A (regBad0 isMin A nb) q = true) : ¬ Regional isMin A nb q := by
  rw [flg_regBad0 q hq] at hb
  intro hreg
  have := (locSpecAt_iff isMin A nb q).mpr (hreg q (PConn.refl q))
  rw [this] at hb; cases hb

/-- **soundness** of `regSpec`: a pixel it rejects is not regional (symmetric neighbourhoods) -/
theorem regSpecBad_sound (hn : SymNb A nb) (q : List Int) (hq : inside A.shape q = true)
    (hb : flg A (regSpecBad isMin A nb) q = true) : ¬ Regional isMin A nb q := by
  unfold regSpecBad at hb
  exact iter_badStep_sound hn _ _ (fun q' hq' hb' => regBad0_sound q' hq' hb') q hq hb

/-- **completeness** of `regSpec` at a fixed point of the iteration -/
theorem regSpecBad_complete (hfix : regSpecFixed isMin A nb = true) (q : List Int)
    (hq : inside A.shape q = true) (hreg : ¬ Regional isMin A nb q) :
    flg A (regSpecBad isMin A nb) q = true := by
  have hfix' : badStep A nb (regSpecBad isMin A nb) = regSpecBad isMin A nb := by
    unfold regSpecFixed at hfix
    exact Array.toList_inj.mp (by simpa using hfix)
  -- the fixed point is closed under stepping back along a plateau
  have hclosed : ∀ x y, inside A.shape x = true → PStep A nb x y →
      flg A (regSpecBad isMin A nb) y = true → flg A (regSpecBad isMin A nb) x = true := by
    intro x y hx hs hy
    obtain ⟨k, hk, rfl, hin, hv⟩ := hs
    rw [← hfix', flg_badStep _ x hx, Bool.or_eq_true]
    right
    rw [List.any_eq_true]
    refine ⟨k, hk, ?_⟩
    rw [Bool.or_eq_true]; left
    simp only [Bool.and_eq_true, beq_iff_eq]
    exact ⟨⟨hin, hv⟩, hy⟩
  have hback : ∀ r, PConn A nb q r → flg A (regSpecBad isMin A nb) r = true →
      flg A (regSpecBad isMin A nb) q = true := by
    intro r hr
    induction hr with
    | refl => exact id
    | tail x y hqx hs ih => exact fun hy => ih (hclosed x y (PConn.in_image hq hqx) hs hy)
  unfold Regional at hreg
  obtain ⟨r, hr⟩ := Classical.not_forall.mp hreg
  obtain ⟨hc, hl⟩ := Classical.not_imp.mp hr
  have hrin := PConn.in_image hq hc
  refine hback r hc ?_
  unfold regSpecBad
  refine iter_badStep_mono _ _ r hrin ?_
  rw [flg_regBad0 r hrin]
  have : locSpecAt isMin A nb r ≠ true := fun h => hl ((locSpecAt_iff isMin A nb r).mp h)
  simpa using this

theorem flg_regSpec (q : List Int) (hq : inside A.shape q = true) :
    (regSpec isMin A nb).getD (ravelI A.shape q) false = !flg A (regSpecBad isMin A nb) q := by
  unfold regSpec flg
  have hlt : ravelI A.shape q < (regSpecBad isMin A nb).size := by
    rw [size_regSpecBad]; exact ravelI_lt _ _ hq
  simp [Array.getD_eq_getD_getElem?, hlt]

theorem regSpec_iff (hn : SymNb A nb) (hfix : regSpecFixed isMin A nb = true) (q : List Int)
    (hq : inside A.shape q = true) :
    (regSpec isMin A nb).getD (ravelI A.shape q) false = true ↔ Regional isMin A nb q := by
  rw [flg_regSpec q hq]
  constructor
  · intro h
    apply Classical.byContradiction
    intro hreg
    rw [regSpecBad_complete hfix q hq hreg] at h; cases h
  · intro hreg
    cases hb : flg A (regSpecBad isMin A nb) q
    · rfl
    · exact absurd hreg (regSpecBad_sound hn q hq hb)

/-! ### plateaus of global extrema (anywhere, in particular touching the border) -/

theorem PConn.value {q r : List Int} (h : PConn A nb q r) : A.getD r 0 = A.getD q 0 := by
  induction h with
  | refl => rfl
  | tail x y _ hs ih => obtain ⟨_, _, _, _, hv⟩ := hs; rw [hv, ih]

/-- a pixel that no pixel of the image beats belongs to a regional extremum -/
theorem regional_of_global (q : List Int)
    (hg : ∀ r, inside A.shape r = true → beats isMin (A.getD r 0) (A.getD q 0) = false) :
    Regional isMin A nb q := by
  intro r hr k _ hin
  rw [hr.value]
  exact hg _ hin

end

/-! ### `size` rounds always reach the fixed point (a monotone iteration on `size` flags) -/

theorem countP_le_of_sub : ∀ (l1 l2 : List Bool), l1.length = l2.length →
    (∀ i, l1.getD i false = true → l2.getD i false = true) → l1.countP id ≤ l2.countP id
  | [], [], _, _ => Nat.le_refl _
  | [], _ :: _, h, _ => by simp at h
  | _ :: _, [], h, _ => by simp at h
  | a :: t1, b :: t2, hl, hs => by
    have ht := countP_le_of_sub t1 t2 (by simpa using hl) (fun i hi => by simpa using hs (i + 1) (by simpa using hi))
    have hh : a = true → b = true := fun ha => by simpa using hs 0 (by simpa using ha)
    cases a <;> cases b <;> simp_all <;> omega

theorem countP_lt_of_sub_ne : ∀ (l1 l2 : List Bool), l1.length = l2.length →
    (∀ i, l1.getD i false = true → l2.getD i false = true) → l1 ≠ l2 → l1.countP id < l2.countP id
  | [], [], _, _, hne => absurd rfl hne
  | [], _ :: _, h, _, _ => by simp at h
  | _ :: _, [], h, _, _ => by simp at h
  | a :: t1, b :: t2, hl, hs, hne => by
    have hl' : t1.length = t2.length := by simpa using hl
    have hs' : ∀ i, t1.getD i false = true → t2.getD i false = true :=
      fun i hi => by simpa using hs (i + 1) (by simpa using hi)
    have hle := countP_le_of_sub t1 t2 hl' hs'
    have hh : a = true → b = true := fun ha => by simpa using hs 0 (by simpa using ha)
    by_cases hab : a = b
    · subst hab
      have hne' : t1 ≠ t2 := fun h => hne (by rw [h])
      have := countP_lt_of_sub_ne t1 t2 hl' hs' hne'
      cases a <;> simp <;> omega
    · cases a <;> cases b <;> simp_all <;> omega

theorem iter_succ' {α : Type} (f : α → α) (n : Nat) (x : α) : iter f (n + 1) x = f (iter f n x) := by
  induction n generalizing x with
  | zero => rfl
  | succ m ih =>
    have e : iter f (m + 1 + 1) x = iter f (m + 1) (f x) := rfl
    rw [e, ih (f x)]; rfl

section
variable {A : Img Int} {nb : List (List Int)}

theorem badStep_getD (bad : Array Bool) (i : Nat) (hi : i < shapeSize A.shape)
    (h : bad.getD i false = true) : (badStep A nb bad).getD i false = true := by
  unfold badStep
  rw [getD_map_allPos A.shape _ _ false hi, ravelI_unravelI A.shape i hi, h]; rfl

theorem badStep_size (bad : Array Bool) : (badStep A nb bad).size = shapeSize A.shape := by
  unfold badStep; exact size_map_allPos _ _

/-- a round that changes something sets at least one more flag -/
theorem badStep_cnt (bad : Array Bool) (hsz : bad.size = shapeSize A.shape)
    (hne : badStep A nb bad ≠ bad) : cnt bad < cnt (badStep A nb bad) := by
  unfold cnt
  refine countP_lt_of_sub_ne _ _ (by simp [hsz, badStep_size]) ?_ ?_
  · intro i hi
    have hi' : bad.getD i false = true := by simpa [Array.getD_eq_getD_getElem?, List.getD_eq_getElem?_getD] using hi
    have hlt : i < shapeSize A.shape := by
      rw [← hsz]
      by_cases hlt : i < bad.size
      · exact hlt
      · rw [Array.getD_eq_getD_getElem?, Array.getElem?_eq_none (by omega)] at hi'; cases hi'
    have := badStep_getD (nb := nb) bad i hlt hi'
    simpa [Array.getD_eq_getD_getElem?, List.getD_eq_getElem?_getD] using this
  · intro h; exact hne (Array.toList_inj.mp h.symm)

theorem iter_badStep_fixed_or_cnt (bad0 : Array Bool) (hsz : bad0.size = shapeSize A.shape) (n : Nat) :
    badStep A nb (iter (badStep A nb) n bad0) = iter (badStep A nb) n bad0 ∨
      n + 1 ≤ cnt (iter (badStep A nb) (n + 1) bad0) := by
  induction n with
  | zero =>
    by_cases h : badStep A nb bad0 = bad0
    · exact Or.inl h
    · right
      have := badStep_cnt (nb := nb) bad0 hsz h
      show 1 ≤ cnt (badStep A nb bad0)
      omega
  | succ m ih =>
    rw [iter_succ' (badStep A nb) (m + 1) bad0]
    by_cases h : badStep A nb (iter (badStep A nb) (m + 1) bad0) = iter (badStep A nb) (m + 1) bad0
    · exact Or.inl h
    · right
      have hlt := badStep_cnt (nb := nb) _ (size_iter_badStep (m + 1) bad0 hsz) h
      rcases ih with ih | ih
      · exfalso; apply h
        rw [iter_succ' (badStep A nb) m bad0, ih, ih]
      · omega

/-- **`size` rounds reach the fixed point**: one more round changes nothing -/
theorem regSpecFixed_always (isMin : Bool) : regSpecFixed isMin A nb = true := by
  have hsz0 : (regBad0 isMin A nb).size = shapeSize A.shape := by unfold regBad0; exact size_map_allPos _ _
  have key : badStep A nb (regSpecBad isMin A nb) = regSpecBad isMin A nb := by
    unfold regSpecBad
    rcases iter_badStep_fixed_or_cnt (nb := nb) (regBad0 isMin A nb) hsz0 A.size with h | h
    · exact h
    · exfalso
      have h1 := cnt_le_size' (iter (badStep A nb) (A.size + 1) (regBad0 isMin A nb))
      rw [size_iter_badStep _ _ hsz0] at h1
      have : A.size = shapeSize A.shape := rfl
      omega
  unfold regSpecFixed
  rw [key]; simp

end

end Mahotas.C14
