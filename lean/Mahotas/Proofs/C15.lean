/-
C15 — thinning: the result is a subset of the input; the outer loop reaches a fixed point of all
eight passes (the number of set pixels strictly decreases in every iteration that changes
something).  Euler tables: the generated look-up tables are Gray's bit-quad weights.
-/
import Mahotas.Proofs.C15Basic
import Mathlib.Tactic.Ring
import Mathlib.Tactic.Linarith
namespace Mahotas.C15
open Mahotas

/-! ## subset -/

theorem pass_le (b : Bin) (e : Elem) (y x : Int) (h : (pass b e).get y x = true) : b.get y x = true := by
  rw [pass_get] at h
  simp at h
  exact h.1

theorem foldl_pass_le (l : List Elem) (b : Bin) (y x : Int) (h : (l.foldl pass b).get y x = true) :
    b.get y x = true := by
  induction l generalizing b with
  | nil => exact h
  | cons e es ih => exact pass_le b e y x (ih (pass b e) h)

theorem iter_le (b : Bin) (y x : Int) (h : (iter b).get y x = true) : b.get y x = true :=
  foldl_pass_le _ b y x h

theorem thinLoop_le (n : Nat) (b : Bin) (y x : Int) (h : (thinLoop n b).get y x = true) :
    b.get y x = true := by
  induction n generalizing b with
  | zero => exact h
  | succ n ih =>
    unfold thinLoop at h
    simp only at h
    split at h
    · exact iter_le b y x h
    · exact iter_le b y x (ih (iter b) h)

theorem thinCore_le (b : Bin) (m : Int) (y x : Int) (h : (thinCore b m).get y x = true) :
    b.get y x = true := thinLoop_le _ b y x h

theorem thinModel_le (b : Bin) (m : Int) (y x : Int) (h : (thinModel b m).get y x = true) :
    b.get y x = true := by
  unfold thinModel at h
  generalize bbox b = bb at h
  obtain ⟨min0, max0, min1, max1⟩ := bb
  simp only at h
  rw [Bin.get_tabulate] at h
  simp only [Bool.and_eq_true, decide_eq_true_eq] at h
  obtain ⟨_, ⟨⟨⟨⟨h1, h2⟩, h3⟩, h4⟩, h5⟩⟩ := h
  have h6 := thinCore_le _ m _ _ h5
  rw [Bin.get_tabulate] at h6
  simp only [Bool.and_eq_true, decide_eq_true_eq] at h6
  have e1 : y - (min0 : Int) + 1 - 1 + (min0 : Int) = y := by ring
  have e2 : x - (min1 : Int) + 1 - 1 + (min1 : Int) = x := by ring
  rw [e1, e2] at h6
  exact h6.2.2

/-! ## shape bookkeeping -/

/-- the data array has exactly `rows * cols` entries -/
def Bin.WF (b : Bin) : Prop := b.data.size = b.rows * b.cols

theorem tabulate_wf (r c : Nat) (f : Int → Int → Bool) : (Bin.tabulate r c f).WF := by
  simp [Bin.WF, Bin.tabulate]

theorem foldl_pass_shape (l : List Elem) (b : Bin) (hb : b.WF) :
    (l.foldl pass b).rows = b.rows ∧ (l.foldl pass b).cols = b.cols ∧ (l.foldl pass b).WF := by
  induction l generalizing b with
  | nil => exact ⟨rfl, rfl, hb⟩
  | cons e es ih =>
    have := ih (pass b e) (tabulate_wf _ _ _)
    exact ⟨this.1, this.2.1, this.2.2⟩

theorem iter_shape (b : Bin) (hb : b.WF) : (iter b).rows = b.rows ∧ (iter b).cols = b.cols ∧ (iter b).WF :=
  foldl_pass_shape _ b hb

/-! ## the pixel count decreases -/

theorem filter_len_le : ∀ (l' l : List Bool), l'.length = l.length →
    (∀ i, l'.getD i false = true → l.getD i false = true) →
    (l'.filter id).length ≤ (l.filter id).length
  | [], [], _, _ => Nat.le_refl _
  | [], _ :: _, h, _ => by simp at h
  | _ :: _, [], h, _ => by simp at h
  | a :: as, c :: cs, hlen, hp => by
    have ht := filter_len_le as cs (by simpa using hlen) (fun i hi => by simpa using hp (i + 1) (by simpa using hi))
    have h0 := hp 0
    simp only [List.getD_cons_zero] at h0
    cases a <;> cases c <;> simp_all <;> omega

theorem filter_len_lt : ∀ (l' l : List Bool), l'.length = l.length →
    (∀ i, l'.getD i false = true → l.getD i false = true) → l' ≠ l →
    (l'.filter id).length < (l.filter id).length
  | [], [], _, _, hne => absurd rfl hne
  | [], _ :: _, h, _, _ => by simp at h
  | _ :: _, [], h, _, _ => by simp at h
  | a :: as, c :: cs, hlen, hp, hne => by
    have hl : as.length = cs.length := by simpa using hlen
    have hpt : ∀ i, as.getD i false = true → cs.getD i false = true :=
      fun i hi => by simpa using hp (i + 1) (by simpa using hi)
    have h0 := hp 0
    simp only [List.getD_cons_zero] at h0
    by_cases ht : as = cs
    · subst ht
      have hac : a ≠ c := fun e => hne (by rw [e])
      cases a <;> cases c <;> simp_all
    · have hlt := filter_len_lt as cs hl hpt ht
      cases a <;> cases c <;> simp_all <;> omega

/-- reading a well-formed image at the pixel with flat index `i` -/
theorem get_flat (b : Bin) (hb : b.WF) (i : Nat) (hi : i < b.rows * b.cols) :
    b.get ((i / b.cols : Nat) : Int) ((i % b.cols : Nat) : Int) = b.data.toList.getD i false := by
  have hc : 0 < b.cols := by
    rcases Nat.eq_zero_or_pos b.cols with h | h
    · rw [h] at hi; simp at hi
    · exact h
  have hy : i / b.cols < b.rows := by
    rw [Nat.div_lt_iff_lt_mul hc]; exact hi
  have hx : i % b.cols < b.cols := Nat.mod_lt _ hc
  unfold Bin.get
  have hcond : (0 : Int) ≤ ((i / b.cols : Nat) : Int) ∧ ((i / b.cols : Nat) : Int) < (b.rows : Int) ∧
      (0 : Int) ≤ ((i % b.cols : Nat) : Int) ∧ ((i % b.cols : Nat) : Int) < (b.cols : Int) := by
    refine ⟨Int.natCast_nonneg _, by exact_mod_cast hy, Int.natCast_nonneg _, by exact_mod_cast hx⟩
  rw [if_pos hcond]
  have : ((i / b.cols : Nat) : Int).toNat * b.cols + ((i % b.cols : Nat) : Int).toNat = i := by
    simp only [Int.toNat_natCast]
    rw [Nat.mul_comm]; exact Nat.div_add_mod i b.cols
  rw [this]
  have hsz : i < b.data.size := by rw [hb]; exact hi
  simp [Array.getD, List.getD, hsz]

theorem count_lt_of_le (b' b : Bin) (hb' : b'.WF) (hb : b.WF) (hr : b'.rows = b.rows) (hc : b'.cols = b.cols)
    (hle : ∀ y x, b'.get y x = true → b.get y x = true) (hne : b'.data ≠ b.data) :
    b'.count < b.count := by
  unfold Bin.count
  apply filter_len_lt
  · simp only [Array.length_toList]; rw [hb', hb, hr, hc]
  · intro i hi
    have hi' : i < b'.rows * b'.cols := by
      by_contra hcon
      have : b'.data.toList.length ≤ i := by simp only [Array.length_toList]; rw [hb']; omega
      have hnone : b'.data.toList[i]? = none := List.getElem?_eq_none this
      simp [List.getD, hnone] at hi
    have h1 := get_flat b' hb' i hi'
    have h2 := get_flat b hb i (by rw [← hr, ← hc]; exact hi')
    rw [← h2]
    apply hle
    rw [hc] at h1
    rw [h1]; exact hi
  · intro h
    apply hne
    exact Array.toList_inj.mp h

/-! ## the loop reaches a fixed point -/

/-- `b` is unchanged by a full iteration of the eight passes -/
def Stable (b : Bin) : Prop := (iter b).data = b.data

theorem bin_ext (a b : Bin) (hr : a.rows = b.rows) (hc : a.cols = b.cols) (hd : a.data = b.data) : a = b := by
  cases a; cases b; simp_all

theorem thinLoop_stable (n : Nat) (b : Bin) (hb : b.WF) (hn : b.count < n) : Stable (thinLoop n b) := by
  induction n generalizing b with
  | zero => omega
  | succ n ih =>
    unfold thinLoop
    simp only
    obtain ⟨hr, hc, hw⟩ := iter_shape b hb
    split
    · rename_i heq
      have hd : (iter b).data = b.data := by simpa using heq
      have : iter b = b := bin_ext _ _ hr hc hd
      unfold Stable
      rw [this]; exact hd
    · rename_i hneq
      have hd : (iter b).data ≠ b.data := by simpa using hneq
      have hlt := count_lt_of_le (iter b) b hw hb hr hc (iter_le b) hd
      exact ih (iter b) hw (by omega)

theorem thinLoop_wf (n : Nat) (b : Bin) (hb : b.WF) : (thinLoop n b).WF := by
  induction n generalizing b with
  | zero => exact hb
  | succ n ih =>
    unfold thinLoop
    simp only
    split
    · exact (iter_shape b hb).2.2
    · exact ih (iter b) (iter_shape b hb).2.2

theorem thinCore_wf (b : Bin) (hb : b.WF) (m : Int) : (thinCore b m).WF := thinLoop_wf _ b hb

/-- with `max_iter < 0` the thinning loop ends in an image that no pass changes -/
theorem thinCore_stable (b : Bin) (hb : b.WF) (m : Int) (hm : m < 0) : Stable (thinCore b m) := by
  unfold thinCore
  simp only [hm, if_true]
  exact thinLoop_stable _ b hb (by omega)

/-- running the loop again on a stable image returns it unchanged -/
theorem thinLoop_of_stable (n : Nat) (b : Bin) (hs : Stable b) : (thinLoop n b).data = b.data := by
  cases n with
  | zero => rfl
  | succ n =>
    unfold thinLoop
    simp only
    have hs' : (iter b).data = b.data := hs
    have : ((iter b).data == b.data) = true := by simpa using hs'
    rw [if_pos this]; exact hs'

/-! ## Euler tables -/

/-- the four pixels of a quad from its table index, using the generated weights
    (`eulerPowers = [[1,2],[4,8]]`): pixel (i,j) is set iff its weight's bit is set -/
def quadBit (code w : Nat) : Bool := (code / w) % 2 == 1

theorem euler_powers : Generated.eulerPowers = [[1, 2], [4, 8]] := by decide
theorem euler_den : Generated.eulerDen = 4 := by decide

/-- `_euler_lookup8[code] · 4` is Gray's weight of the quad with that code, for all 16 codes -/
theorem lookup8_gray : ∀ code : Fin 16,
    Generated.eulerLookup8.getD code.val 0 =
      grayQuad true (quadBit code 1) (quadBit code 2) (quadBit code 4) (quadBit code 8) := by decide

theorem lookup4_gray : ∀ code : Fin 16,
    Generated.eulerLookup4.getD code.val 0 =
      grayQuad false (quadBit code 1) (quadBit code 2) (quadBit code 4) (quadBit code 8) := by decide

theorem lookup_lengths : Generated.eulerLookup8.length = 16 ∧ Generated.eulerLookup4.length = 16 := by decide

/-! ## the Euler model is Gray's bit-quad sum -/

theorem quadCode_eq (b : Bin) (y x : Int) :
    quadCode b y x = (if b.get y x then 1 else 0) + (if b.get y (x + 1) then 2 else 0) +
      ((if b.get (y + 1) x then 4 else 0) + (if b.get (y + 1) (x + 1) then 8 else 0)) := by
  unfold quadCode
  rw [euler_powers]
  simp [List.zipIdx]

theorem quad_lookup (b : Bin) (conn8 : Bool) (y x : Int) :
    (if conn8 then Generated.eulerLookup8 else Generated.eulerLookup4).getD (quadCode b y x) 0 =
      grayQuad conn8 (b.get y x) (b.get y (x + 1)) (b.get (y + 1) x) (b.get (y + 1) (x + 1)) := by
  rw [quadCode_eq]
  cases conn8 <;> cases b.get y x <;> cases b.get y (x + 1) <;> cases b.get (y + 1) x <;>
    cases b.get (y + 1) (x + 1) <;> decide

/-- Gray's bit-quad sum over every 2×2 window that meets the image -/
def graySum (b : Bin) (conn8 : Bool) : Int :=
  ((List.range (b.rows + 1)).map fun (i : Nat) =>
    ((List.range (b.cols + 1)).map fun (j : Nat) =>
      grayQuad conn8 (b.get ((i : Int) - 1) ((j : Int) - 1)) (b.get ((i : Int) - 1) ((j : Int) - 1 + 1))
        (b.get ((i : Int) - 1 + 1) ((j : Int) - 1)) (b.get ((i : Int) - 1 + 1) ((j : Int) - 1 + 1))).foldl (· + ·) 0).foldl (· + ·) 0

theorem eulerModel4_eq_graySum (b : Bin) (conn8 : Bool) : eulerModel4 b conn8 = graySum b conn8 := by
  unfold eulerModel4 graySum
  simp only [quad_lookup]

end Mahotas.C15
