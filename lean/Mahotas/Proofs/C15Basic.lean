/-
C15 — basic facts about the binary-image model: reading a tabulated image, one thinning pass as
a pointwise function.
-/
import Mahotas.Model.C15
import Mathlib.Tactic.Ring
import Mathlib.Tactic.Linarith
namespace Mahotas.C15
open Mahotas

theorem Bin.get_tabulate (rows cols : Nat) (f : Int → Int → Bool) (y x : Int) :
    (Bin.tabulate rows cols f).get y x =
      (decide (0 ≤ y ∧ y < (rows : Int) ∧ 0 ≤ x ∧ x < (cols : Int)) && f y x) := by
  unfold Bin.get Bin.tabulate
  simp only
  by_cases h : 0 ≤ y ∧ y < (rows : Int) ∧ 0 ≤ x ∧ x < (cols : Int)
  · obtain ⟨h0, h1, h2, h3⟩ := h
    have hc : 0 < cols := by omega
    have hlt : y.toNat * cols + x.toNat < rows * cols := by
      have hy : y.toNat < rows := by omega
      have hx : x.toNat < cols := by omega
      calc y.toNat * cols + x.toNat < y.toNat * cols + cols := by omega
        _ = (y.toNat + 1) * cols := by ring
        _ ≤ rows * cols := Nat.mul_le_mul_right _ hy
    have hx : x.toNat < cols := by omega
    have e1 : (y * (cols : Int) + x) / (cols : Int) = y := by
      rw [Int.add_comm, Int.add_mul_ediv_right _ _ (by omega), Int.ediv_eq_zero_of_lt h2 h3]; simp
    have e2 : x % (cols : Int) = x := Int.emod_eq_of_lt h2 h3
    simp [h0, h1, h2, h3, Array.getD, hlt, Int.toNat_of_nonneg h0, Int.toNat_of_nonneg h2, e1, e2]
  · simp [h]

/-- a pass as a pointwise function: a pixel survives iff it was set and does not match -/
theorem pass_get (b : Bin) (e : Elem) (y x : Int) :
    (pass b e).get y x = (b.get y x && !matchElem b e y x) := by
  unfold pass
  rw [Bin.get_tabulate]
  by_cases h : 0 ≤ y ∧ y < (b.rows : Int) ∧ 0 ≤ x ∧ x < (b.cols : Int)
  · simp [h]
  · have : b.get y x = false := by unfold Bin.get; simp [h]
    simp [h, this]

theorem pass_rows (b : Bin) (e : Elem) : (pass b e).rows = b.rows := rfl
theorem pass_cols (b : Bin) (e : Elem) : (pass b e).cols = b.cols := rfl

end Mahotas.C15
