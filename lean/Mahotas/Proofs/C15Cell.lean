/-
C15 (round 3) — the bit-quad sum is four times the Euler characteristic `V − E + F` of a cell complex.

For 8-connectivity take the closed unit squares of the set pixels: a lattice vertex (an edge) belongs to
the complex iff *some* of its four (two) adjacent pixels is set. For 4-connectivity take the dual
convention: an edge (a vertex) counts iff *both* (all four) adjacent pixels are set. With `F` the
number of set pixels, Gray's weights sum to `4·(V − E + F)` — a purely local double-counting identity:
every pixel lies in four windows, every edge in two, every vertex in one. Gray's identity
(bit-quad sum = components − holes) is thereby reduced to the Euler–Poincaré formula for this planar
complex, which is *not* proved here.
-/
import Mahotas.Proofs.C15Euler
import Mathlib.Tactic.Ring
import Mathlib.Tactic.Linarith
namespace Mahotas.C15
open Mahotas

/-- indicator -/
def ind (t : Bool) : Int := if t then 1 else 0

/-- how adjacent pixels combine: `or` for 8-connectivity (closed squares), `and` for 4-connectivity -/
def cop (c : Bool) (p q : Bool) : Bool := if c then p || q else p && q

/-- pixel `(y, x)` is set -/
def pixW (g : Int → Int → Bool) (p : Int × Int) : Int := ind (g p.1 p.2)
/-- the unit edge between pixels `(y, x)` and `(y, x+1)` belongs to the complex -/
def ehW (c : Bool) (g : Int → Int → Bool) (p : Int × Int) : Int := ind (cop c (g p.1 p.2) (g p.1 (p.2 + 1)))
/-- the unit edge between pixels `(y, x)` and `(y+1, x)` belongs to the complex -/
def evW (c : Bool) (g : Int → Int → Bool) (p : Int × Int) : Int := ind (cop c (g p.1 p.2) (g (p.1 + 1) p.2))
/-- the lattice vertex shared by pixels `(y, x)`, `(y, x+1)`, `(y+1, x)`, `(y+1, x+1)` belongs to the complex -/
def vW (c : Bool) (g : Int → Int → Bool) (p : Int × Int) : Int :=
  ind (cop c (cop c (g p.1 p.2) (g p.1 (p.2 + 1))) (cop c (g (p.1 + 1) p.2) (g (p.1 + 1) (p.2 + 1))))

/-- Gray's weight of a window = 4·[vertex] − 2·[its four edges] + [its four pixels] -/
theorem grayQuad_cells (c p q r s : Bool) :
    grayQuad c p q r s = 4 * ind (cop c (cop c p q) (cop c r s)) -
      2 * (ind (cop c p q) + ind (cop c r s) + ind (cop c p r) + ind (cop c q s)) +
      (ind p + ind q + ind r + ind s) := by
  cases c <;> cases p <;> cases q <;> cases r <;> cases s <;> decide

theorem ind_cop_false (c : Bool) {p q : Bool} (hp : p = false) (hq : q = false) : ind (cop c p q) = 0 := by
  subst hp; subst hq; cases c <;> rfl

/-- re-indexing a plane sum by a shift, when the summand vanishes outside both index sets -/
theorem sum_shift (s : Finset (Int × Int)) (h : Int × Int → Int) (δ : Int × Int)
    (h1 : ∀ q, q ∉ s → h q = 0) (h2 : ∀ q, (q - δ) ∉ s → h q = 0) :
    ∑ p ∈ s, h (p + δ) = ∑ p ∈ s, h p := by
  have himg : ∑ p ∈ s, h (p + δ) = ∑ q ∈ s.image (· + δ), h q := by
    rw [Finset.sum_image]
    intro a _ b _ hab
    exact add_right_cancel hab
  have h2' : ∀ q, q ∉ s.image (· + δ) → h q = 0 := by
    intro q hq
    apply h2
    intro hs
    apply hq
    exact Finset.mem_image.2 ⟨q - δ, hs, sub_add_cancel q δ⟩
  rw [himg]
  have e1 : ∑ q ∈ s.image (· + δ), h q = ∑ q ∈ s.image (· + δ) ∪ s, h q :=
    Finset.sum_subset Finset.subset_union_left (fun q _ hq => h2' q hq)
  have e2 : ∑ q ∈ s, h q = ∑ q ∈ s.image (· + δ) ∪ s, h q :=
    Finset.sum_subset Finset.subset_union_right (fun q _ hq => h1 q hq)
  rw [e1, e2]

/-- a pixel read through a window corner outside the (shifted) box is background -/
theorem get_false_of (b : Bin) (y x : Int)
    (h : ¬ (0 ≤ y ∧ y < (b.rows : Int) ∧ 0 ≤ x ∧ x < (b.cols : Int))) : b.get y x = false :=
  get_false_outside b y x h

/-- number of set pixels, of edges and of vertices of the complex (as integers) -/
def pixelsN (b : Bin) : Int := ∑ p ∈ box b, pixW b.get p
def edgesN (c : Bool) (b : Bin) : Int := ∑ p ∈ box b, (ehW c b.get p + evW c b.get p)
def verticesN (c : Bool) (b : Bin) : Int := ∑ p ∈ box b, vW c b.get p

theorem sum_pix_shift (b : Bin) (δ : Int × Int) (hδ : (δ.1 = 0 ∨ δ.1 = 1) ∧ (δ.2 = 0 ∨ δ.2 = 1)) :
    ∑ p ∈ box b, pixW b.get (p + δ) = ∑ p ∈ box b, pixW b.get p := by
  apply sum_shift
  · intro q hq
    rw [mem_box] at hq
    unfold pixW
    rw [get_false_of b q.1 q.2 (by omega)]; rfl
  · intro q hq
    rw [mem_box] at hq
    simp only [Prod.fst_sub, Prod.snd_sub] at hq
    unfold pixW
    rw [get_false_of b q.1 q.2 (by omega)]; rfl

theorem sum_eh_shift (c : Bool) (b : Bin) :
    ∑ p ∈ box b, ehW c b.get (p + (1, 0)) = ∑ p ∈ box b, ehW c b.get p := by
  apply sum_shift
  · intro q hq
    rw [mem_box] at hq
    unfold ehW
    exact ind_cop_false c (get_false_of b _ _ (by omega)) (get_false_of b _ _ (by omega))
  · intro q hq
    rw [mem_box] at hq
    simp only [Prod.fst_sub, Prod.snd_sub] at hq
    unfold ehW
    exact ind_cop_false c (get_false_of b _ _ (by omega)) (get_false_of b _ _ (by omega))

theorem sum_ev_shift (c : Bool) (b : Bin) :
    ∑ p ∈ box b, evW c b.get (p + (0, 1)) = ∑ p ∈ box b, evW c b.get p := by
  apply sum_shift
  · intro q hq
    rw [mem_box] at hq
    unfold evW
    exact ind_cop_false c (get_false_of b _ _ (by omega)) (get_false_of b _ _ (by omega))
  · intro q hq
    rw [mem_box] at hq
    simp only [Prod.fst_sub, Prod.snd_sub] at hq
    unfold evW
    exact ind_cop_false c (get_false_of b _ _ (by omega)) (get_false_of b _ _ (by omega))

/-- the weight of one window in terms of the cells it touches -/
theorem qw_cells (c : Bool) (g : Int → Int → Bool) (p : Int × Int) :
    qw c g p.1 p.2 = 4 * vW c g p -
      2 * (ehW c g p + ehW c g (p + (1, 0)) + evW c g p + evW c g (p + (0, 1))) +
      (pixW g p + pixW g (p + (0, 1)) + pixW g (p + (1, 0)) + pixW g (p + (1, 1))) := by
  unfold qw vW ehW evW pixW
  simp only [Prod.fst_add, Prod.snd_add, add_zero]
  exact grayQuad_cells c _ _ _ _

/-- **the bit-quad sum is `4·(V − E + F)`** -/
theorem eulerModel4_eq_cells (b : Bin) (c : Bool) :
    eulerModel4 b c = 4 * (verticesN c b - edgesN c b + pixelsN b) := by
  rw [eulerModel4_eq_E_box]
  unfold E
  simp only [qw_cells]
  simp only [Finset.sum_add_distrib, Finset.sum_sub_distrib, ← Finset.mul_sum]
  rw [sum_eh_shift, sum_ev_shift, sum_pix_shift b (0, 1) (by simp), sum_pix_shift b (1, 0) (by simp),
    sum_pix_shift b (1, 1) (by simp)]
  unfold verticesN edgesN pixelsN
  rw [Finset.sum_add_distrib]
  ring

end Mahotas.C15
