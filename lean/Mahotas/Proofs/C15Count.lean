/-
C15 (round 3) — "the same number of 8-connected components", literally: `SameComps A B` yields a bijection
between the sets of components (quotients of the pixel sets by 8-connectivity), hence equal cardinalities.
-/
import Mahotas.Proofs.C15Model
import Mathlib.SetTheory.Cardinal.Finite
import Mathlib.Data.Set.Finite.Basic
import Mathlib.Data.Set.Finite.Lattice
import Mathlib.Order.Interval.Set.Basic
import Mathlib.Order.Interval.Finset.Defs
import Mathlib.Data.Int.Interval
import Mathlib.Data.Finite.Prod
namespace Mahotas.C15
open Mahotas

/-- 8-connectivity inside `A`, as an equivalence relation on the pixels of `A` -/
def compSetoid (A : Set Px) : Setoid A where
  r x y := Conn A x.1 y.1
  iseqv := ⟨fun x => Conn.refl x.1, fun h => Conn.symm h, fun h1 h2 => Conn.trans h1 h2⟩

/-- the set of 8-connected components of `A` -/
abbrev Comps (A : Set Px) := Quotient (compSetoid A)

/-- the map induced by the inclusion `B ⊆ A` on components -/
def compMap {A B : Set Px} (h : SameComps A B) : Comps B → Comps A :=
  Quotient.lift (fun y : B => (Quotient.mk (compSetoid A) ⟨y.1, h.1 y.2⟩ : Comps A))
    (fun x y hxy => Quotient.sound ((h.2.1 x.1 x.2 y.1 y.2).2 hxy))

theorem compMap_bijective {A B : Set Px} (h : SameComps A B) : Function.Bijective (compMap h) := by
  constructor
  · intro qx qy
    induction qx using Quotient.ind with
    | _ x =>
      induction qy using Quotient.ind with
      | _ y =>
        intro hxy
        have hc : Conn A x.1 y.1 := Quotient.exact hxy
        exact Quotient.sound ((h.2.1 x.1 x.2 y.1 y.2).1 hc)
  · intro qa
    induction qa using Quotient.ind with
    | _ a =>
      obtain ⟨y, hyB, hc⟩ := h.2.2 a.1 a.2
      refine ⟨Quotient.mk _ ⟨y, hyB⟩, ?_⟩
      exact Quotient.sound (Conn.symm hc)

/-- **`SameComps` ⇒ the same number of components** (as cardinal numbers of the component sets; finite for images) -/
theorem SameComps.card_eq {A B : Set Px} (h : SameComps A B) : Nat.card (Comps B) = Nat.card (Comps A) :=
  Nat.card_congr (Equiv.ofBijective _ (compMap_bijective h))

/-- the pixel set of an image is finite, hence so is its set of components -/
theorem bset_finite (b : Bin) : (bset b).Finite := by
  apply Set.Finite.subset ((Set.finite_Icc (0 : ℤ) (b.rows : ℤ)).prod (Set.finite_Icc (0 : ℤ) (b.cols : ℤ)))
  intro p hp
  have h := get_inrange b p.1 p.2 hp
  exact ⟨⟨h.1, by omega⟩, ⟨h.2.2.1, by omega⟩⟩

instance comps_finite (b : Bin) : Finite (Comps (bset b)) := by
  have : Finite (bset b) := (bset_finite b).to_subtype
  exact Quotient.finite _

end Mahotas.C15
