/-
C15 — exact identities of the Euler model's bit-quad sum `eulerModel4` (round 3).

The model sums a table look-up over the 2×2 windows whose top-left corner runs over
`[-1, rows-1] × [-1, cols-1]`.  Because the all-background window has weight 0 and `Bin.get` is
`false` outside the box, that sum is the "plane sum" `E c g s` of Gray's weight of `g = b.get`
over ANY finite set `s` of window corners outside of which the weight vanishes (`Covers`).
From this: translation and transposition invariance (re-indexing), additivity over images no
window of which meets both (pointwise additivity of the weight), and the explicit values for a
filled rectangle (the weight of a product image factors into row transitions × column
transitions) and for a one-pixel-thick rectangular ring (weight of ring = weight of outer
rectangle − weight of inner rectangle, window by window).
-/
import Mahotas.Proofs.C15
import Mathlib.Algebra.BigOperators.Group.Finset.Basic
import Mathlib.Algebra.BigOperators.Group.Finset.Sigma
import Mathlib.Algebra.BigOperators.Ring.Finset
import Mathlib.Tactic.SplitIfs
namespace Mahotas.C15
open Mahotas

/-! ## the plane sum -/

/-- Gray's weight (×4) of the 2×2 window of the infinite image `g` with top-left corner `(y, x)` -/
def qw (c : Bool) (g : Int → Int → Bool) (y x : Int) : Int :=
  grayQuad c (g y x) (g y (x + 1)) (g (y + 1) x) (g (y + 1) (x + 1))

/-- the bit-quad sum of `g` over the window corners in `s` -/
def E (c : Bool) (g : Int → Int → Bool) (s : Finset (Int × Int)) : Int :=
  ∑ p ∈ s, qw c g p.1 p.2

/-- outside `s` every window of `g` has weight 0 -/
def Covers (c : Bool) (g : Int → Int → Bool) (s : Finset (Int × Int)) : Prop :=
  ∀ p : Int × Int, p ∉ s → qw c g p.1 p.2 = 0

theorem Covers.mono {c : Bool} {g : Int → Int → Bool} {s t : Finset (Int × Int)}
    (h : Covers c g s) (hst : s ⊆ t) : Covers c g t :=
  fun p hp => h p (fun hs => hp (hst hs))

/-- the plane sum does not depend on the (large enough) set of window corners -/
theorem E_indep {c : Bool} {g : Int → Int → Bool} {s t : Finset (Int × Int)}
    (hs : Covers c g s) (ht : Covers c g t) : E c g s = E c g t := by
  have h1 : E c g s = E c g (s ∪ t) :=
    Finset.sum_subset Finset.subset_union_left (fun p _ hp => hs p hp)
  have h2 : E c g t = E c g (s ∪ t) :=
    Finset.sum_subset Finset.subset_union_right (fun p _ hp => ht p hp)
  rw [h1, h2]

theorem grayQuad_zero (c : Bool) : grayQuad c false false false false = 0 := by
  cases c <;> decide

/-! ## the model is a plane sum -/

theorem foldl_range_eq_sum (f : Nat → Int) (n : Nat) :
    ((List.range n).map f).foldl (· + ·) 0 = ∑ i ∈ Finset.range n, f i := by
  induction n with
  | zero => simp
  | succ n ih =>
    rw [List.range_succ, List.map_append, List.foldl_append, ih, Finset.sum_range_succ]
    simp

/-- the window corners visited by the model -/
def box (b : Bin) : Finset (Int × Int) :=
  (Finset.range (b.rows + 1) ×ˢ Finset.range (b.cols + 1)).image
    fun p : Nat × Nat => ((p.1 : Int) - 1, (p.2 : Int) - 1)

theorem mem_box (b : Bin) (p : Int × Int) :
    p ∈ box b ↔ (-1 ≤ p.1 ∧ p.1 ≤ (b.rows : Int) - 1 ∧ -1 ≤ p.2 ∧ p.2 ≤ (b.cols : Int) - 1) := by
  unfold box
  simp only [Finset.mem_image, Finset.mem_product, Finset.mem_range, Prod.exists]
  constructor
  · rintro ⟨i, j, ⟨hi, hj⟩, rfl⟩
    simp only
    omega
  · rintro ⟨h1, h2, h3, h4⟩
    refine ⟨(p.1 + 1).toNat, (p.2 + 1).toNat, ⟨by omega, by omega⟩, ?_⟩
    apply Prod.ext <;> simp only <;> omega

theorem get_true_inside (b : Bin) (y x : Int) (h : b.get y x = true) :
    0 ≤ y ∧ y < (b.rows : Int) ∧ 0 ≤ x ∧ x < (b.cols : Int) := by
  unfold Bin.get at h
  split at h
  · assumption
  · cases h

theorem get_false_outside (b : Bin) (y x : Int)
    (h : ¬ (0 ≤ y ∧ y < (b.rows : Int) ∧ 0 ≤ x ∧ x < (b.cols : Int))) : b.get y x = false := by
  cases hg : b.get y x
  · rfl
  · exact absurd (get_true_inside b y x hg) h

theorem covers_box (c : Bool) (b : Bin) : Covers c b.get (box b) := by
  intro p hp
  rw [mem_box] at hp
  unfold qw
  rw [get_false_outside b p.1 p.2 (by omega), get_false_outside b p.1 (p.2 + 1) (by omega),
    get_false_outside b (p.1 + 1) p.2 (by omega), get_false_outside b (p.1 + 1) (p.2 + 1) (by omega)]
  exact grayQuad_zero c

theorem eulerModel4_eq_E_box (b : Bin) (c : Bool) : eulerModel4 b c = E c b.get (box b) := by
  rw [eulerModel4_eq_graySum]
  unfold graySum E box
  rw [Finset.sum_image, Finset.sum_product, foldl_range_eq_sum]
  · apply Finset.sum_congr rfl
    intro i _
    rw [foldl_range_eq_sum]
    rfl
  · intro p _ q _ h
    simp only [Prod.mk.injEq] at h
    apply Prod.ext <;> omega

/-- **the bridge**: the model equals the plane sum over any covering set of window corners -/
theorem eulerModel4_eq_E (b : Bin) (c : Bool) (s : Finset (Int × Int)) (hs : Covers c b.get s) :
    eulerModel4 b c = E c b.get s := by
  rw [eulerModel4_eq_E_box]
  exact E_indep (covers_box c b) hs

/-- two images with covering sets related by a weight-preserving injection have the same sum -/
theorem eulerModel4_eq_of_get_eq (b b' : Bin) (c : Bool) (h : ∀ y x, b'.get y x = b.get y x) :
    eulerModel4 b' c = eulerModel4 b c := by
  have hg : b'.get = b.get := by funext y x; exact h y x
  rw [eulerModel4_eq_E b' c (box b ∪ box b') ((covers_box c b').mono Finset.subset_union_right),
    eulerModel4_eq_E b c (box b ∪ box b') ((covers_box c b).mono Finset.subset_union_left), hg]

/-! ## translation -/

theorem euler_translate (b b' : Bin) (c : Bool) (dy dx : Int)
    (h : ∀ y x, b'.get (y + dy) (x + dx) = b.get y x) : eulerModel4 b' c = eulerModel4 b c := by
  have hq : ∀ y x, qw c b'.get (y + dy) (x + dx) = qw c b.get y x := by
    intro y x
    unfold qw
    have e1 : y + dy + 1 = y + 1 + dy := by omega
    have e2 : x + dx + 1 = x + 1 + dx := by omega
    rw [e1, e2, h, h, h, h]
  let sh : Int × Int → Int × Int := fun p => (p.1 + dy, p.2 + dx)
  have hcov : Covers c b'.get ((box b).image sh) := by
    intro p hp
    have hp' : (p.1 - dy, p.2 - dx) ∉ box b := by
      intro hin
      apply hp
      rw [Finset.mem_image]
      refine ⟨_, hin, ?_⟩
      apply Prod.ext <;> simp only [sh] <;> omega
    have := covers_box c b _ hp'
    rw [← hq] at this
    simpa using this
  rw [eulerModel4_eq_E b' c _ hcov, eulerModel4_eq_E_box b c]
  unfold E
  rw [Finset.sum_image]
  · apply Finset.sum_congr rfl
    intro p _
    exact hq p.1 p.2
  · intro p _ q _ hpq
    simp only [sh, Prod.mk.injEq] at hpq
    apply Prod.ext <;> omega

/-! ## transposition -/

theorem grayQuad_swap (c p q r s : Bool) : grayQuad c p q r s = grayQuad c p r q s := by
  revert c p q r s
  decide

theorem euler_transpose (b b' : Bin) (c : Bool)
    (h : ∀ y x, b'.get y x = b.get x y) : eulerModel4 b' c = eulerModel4 b c := by
  have hq : ∀ y x, qw c b'.get x y = qw c b.get y x := by
    intro y x
    unfold qw
    rw [h, h, h, h]
    exact grayQuad_swap c _ _ _ _
  have hcov : Covers c b'.get ((box b).image Prod.swap) := by
    intro p hp
    have hp' : (p.2, p.1) ∉ box b := by
      intro hin
      apply hp
      rw [Finset.mem_image]
      exact ⟨_, hin, rfl⟩
    have := covers_box c b _ hp'
    rw [← hq] at this
    exact this
  rw [eulerModel4_eq_E b' c _ hcov, eulerModel4_eq_E_box b c]
  unfold E
  rw [Finset.sum_image]
  · apply Finset.sum_congr rfl
    intro p _
    exact hq p.1 p.2
  · intro p _ q _ hpq
    exact Prod.swap_injective hpq

/-! ## additivity -/

/-- some pixel of the window with top-left corner `(y, x)` is set -/
def active (g : Int → Int → Bool) (y x : Int) : Bool :=
  g y x || g y (x + 1) || g (y + 1) x || g (y + 1) (x + 1)

theorem qw_of_not_active (c : Bool) (g : Int → Int → Bool) (y x : Int) (h : active g y x = false) :
    qw c g y x = 0 := by
  unfold active at h
  simp only [Bool.or_eq_false_iff] at h
  obtain ⟨⟨⟨h1, h2⟩, h3⟩, h4⟩ := h
  unfold qw
  rw [h1, h2, h3, h4]
  exact grayQuad_zero c

/-- window by window: if the window does not meet both images, the weight of the union is the
    sum of the weights -/
theorem qw_union (c : Bool) (g1 g2 u : Int → Int → Bool) (hu : ∀ y x, u y x = (g1 y x || g2 y x))
    (y x : Int) (hsep : ¬ (active g1 y x = true ∧ active g2 y x = true)) :
    qw c u y x = qw c g1 y x + qw c g2 y x := by
  by_cases h1 : active g1 y x = true
  · have h2 : active g2 y x = false := by
      cases hh : active g2 y x
      · rfl
      · exact absurd ⟨h1, hh⟩ hsep
    rw [qw_of_not_active c g2 y x h2]
    unfold active at h2
    simp only [Bool.or_eq_false_iff] at h2
    obtain ⟨⟨⟨a1, a2⟩, a3⟩, a4⟩ := h2
    unfold qw
    simp only [hu, a1, a2, a3, a4, Bool.or_false, Int.add_zero]
  · have h1' : active g1 y x = false := by simpa using h1
    rw [qw_of_not_active c g1 y x h1']
    unfold active at h1'
    simp only [Bool.or_eq_false_iff] at h1'
    obtain ⟨⟨⟨a1, a2⟩, a3⟩, a4⟩ := h1'
    unfold qw
    simp only [hu, a1, a2, a3, a4, Bool.false_or, Int.zero_add]

/-- additivity for two images no 2×2 window of which meets both -/
theorem euler_additive (b1 b2 u : Bin) (c : Bool)
    (hu : ∀ y x, u.get y x = (b1.get y x || b2.get y x))
    (hsep : ∀ y x, ¬ (active b1.get y x = true ∧ active b2.get y x = true)) :
    eulerModel4 u c = eulerModel4 b1 c + eulerModel4 b2 c := by
  let s := box u ∪ (box b1 ∪ box b2)
  have hs1 : Covers c b1.get s :=
    (covers_box c b1).mono (fun p hp => Finset.mem_union_right _ (Finset.mem_union_left _ hp))
  have hs2 : Covers c b2.get s :=
    (covers_box c b2).mono (fun p hp => Finset.mem_union_right _ (Finset.mem_union_right _ hp))
  have hsu : Covers c u.get s := (covers_box c u).mono Finset.subset_union_left
  rw [eulerModel4_eq_E u c s hsu, eulerModel4_eq_E b1 c s hs1, eulerModel4_eq_E b2 c s hs2]
  unfold E
  rw [← Finset.sum_add_distrib]
  apply Finset.sum_congr rfl
  intro p _
  exact qw_union c b1.get b2.get u.get hu p.1 p.2 (hsep p.1 p.2)

theorem active_rows (g : Int → Int → Bool) (y x : Int) (h : active g y x = true) :
    ∃ yy xx, g yy xx = true ∧ (yy = y ∨ yy = y + 1) ∧ (xx = x ∨ xx = x + 1) := by
  unfold active at h
  simp only [Bool.or_eq_true] at h
  rcases h with ((h | h) | h) | h
  · exact ⟨y, x, h, Or.inl rfl, Or.inl rfl⟩
  · exact ⟨y, x + 1, h, Or.inl rfl, Or.inr rfl⟩
  · exact ⟨y + 1, x, h, Or.inr rfl, Or.inl rfl⟩
  · exact ⟨y + 1, x + 1, h, Or.inr rfl, Or.inr rfl⟩

/-- supports separated by an empty row `k` -/
theorem sep_of_rows (g1 g2 : Int → Int → Bool) (k : Int)
    (h1 : ∀ y x, g1 y x = true → y < k) (h2 : ∀ y x, g2 y x = true → k < y) (y x : Int) :
    ¬ (active g1 y x = true ∧ active g2 y x = true) := by
  rintro ⟨a1, a2⟩
  obtain ⟨y1, x1, e1, r1, _⟩ := active_rows g1 y x a1
  obtain ⟨y2, x2, e2, r2, _⟩ := active_rows g2 y x a2
  have := h1 y1 x1 e1
  have := h2 y2 x2 e2
  omega

/-- supports separated by an empty column `k` -/
theorem sep_of_cols (g1 g2 : Int → Int → Bool) (k : Int)
    (h1 : ∀ y x, g1 y x = true → x < k) (h2 : ∀ y x, g2 y x = true → k < x) (y x : Int) :
    ¬ (active g1 y x = true ∧ active g2 y x = true) := by
  rintro ⟨a1, a2⟩
  obtain ⟨y1, x1, e1, _, r1⟩ := active_rows g1 y x a1
  obtain ⟨y2, x2, e2, _, r2⟩ := active_rows g2 y x a2
  have := h1 y1 x1 e1
  have := h2 y2 x2 e2
  omega

/-! ## filled rectangles -/

/-- indicator of the integer interval `[lo, lo + n)` -/
def ivl (lo n : Int) (y : Int) : Bool := decide (lo ≤ y ∧ y < lo + n)

/-- the filled rectangle `[y0, y0+a) × [x0, x0+b)` -/
def rectFn (y0 a x0 b : Int) (y x : Int) : Bool := ivl y0 a y && ivl x0 b x

/-- transition indicator of a row/column indicator between `y` and `y + 1` -/
def tr (r : Int → Bool) (y : Int) : Int := if r y = r (y + 1) then 0 else 1

theorem gray_prod (c a0 a1 b0 b1 : Bool) :
    grayQuad c (a0 && b0) (a0 && b1) (a1 && b0) (a1 && b1) =
      (if a0 = a1 then 0 else 1) * (if b0 = b1 then 0 else 1) := by
  revert c a0 a1 b0 b1
  decide

theorem qw_prod (c : Bool) (r s : Int → Bool) (y x : Int) :
    qw c (fun y x => r y && s x) y x = tr r y * tr s x := by
  unfold qw tr
  exact gray_prod c _ _ _ _

theorem tr_ivl (lo n : Int) (hn : 1 ≤ n) (y : Int) :
    tr (ivl lo n) y = if (y = lo - 1 ∨ y = lo + n - 1) then 1 else 0 := by
  unfold tr ivl
  simp only [decide_eq_decide]
  split_ifs <;> omega

/-- the two ends of an interval: the only places where its indicator changes -/
def ends (lo n : Int) : Finset Int := {lo - 1, lo + n - 1}

theorem tr_ivl_outside (lo n : Int) (hn : 1 ≤ n) (y : Int) (hy : y ∉ ends lo n) : tr (ivl lo n) y = 0 := by
  rw [tr_ivl lo n hn]
  unfold ends at hy
  simp only [Finset.mem_insert, Finset.mem_singleton] at hy
  rw [if_neg hy]

theorem sum_tr_ivl (lo n : Int) (hn : 1 ≤ n) : ∑ y ∈ ends lo n, tr (ivl lo n) y = 2 := by
  unfold ends
  rw [Finset.sum_pair (by omega), tr_ivl lo n hn, tr_ivl lo n hn]
  simp

theorem covers_rect (c : Bool) (y0 a x0 b : Int) (ha : 1 ≤ a) (hb : 1 ≤ b) :
    Covers c (rectFn y0 a x0 b) (ends y0 a ×ˢ ends x0 b) := by
  intro p hp
  have : qw c (rectFn y0 a x0 b) p.1 p.2 = tr (ivl y0 a) p.1 * tr (ivl x0 b) p.2 :=
    qw_prod c (ivl y0 a) (ivl x0 b) p.1 p.2
  rw [this]
  rw [Finset.mem_product] at hp
  by_cases h1 : p.1 ∈ ends y0 a
  · have h2 : p.2 ∉ ends x0 b := fun h2 => hp ⟨h1, h2⟩
    rw [tr_ivl_outside x0 b hb _ h2, Int.mul_zero]
  · rw [tr_ivl_outside y0 a ha _ h1, Int.zero_mul]

/-- the bit-quad sum of a filled rectangle is 4 (four corner windows of weight 1) -/
theorem E_rect (c : Bool) (y0 a x0 b : Int) (ha : 1 ≤ a) (hb : 1 ≤ b) (s : Finset (Int × Int))
    (hs : Covers c (rectFn y0 a x0 b) s) : E c (rectFn y0 a x0 b) s = 4 := by
  rw [E_indep hs (covers_rect c y0 a x0 b ha hb)]
  unfold E
  rw [Finset.sum_product]
  have : ∀ y ∈ ends y0 a, ∑ x ∈ ends x0 b, qw c (rectFn y0 a x0 b) (y, x).1 (y, x).2 =
      ∑ x ∈ ends x0 b, tr (ivl y0 a) y * tr (ivl x0 b) x := by
    intro y _
    apply Finset.sum_congr rfl
    intro x _
    exact qw_prod c (ivl y0 a) (ivl x0 b) y x
  rw [Finset.sum_congr rfl this, ← Finset.sum_mul_sum, sum_tr_ivl y0 a ha, sum_tr_ivl x0 b hb]
  rfl

theorem euler_rect (bi : Bin) (c : Bool) (y0 a x0 b : Int) (ha : 1 ≤ a) (hb : 1 ≤ b)
    (h : ∀ y x, bi.get y x = rectFn y0 a x0 b y x) : eulerModel4 bi c = 4 := by
  have hg : bi.get = rectFn y0 a x0 b := by funext y x; exact h y x
  rw [eulerModel4_eq_E_box, hg]
  apply E_rect c y0 a x0 b ha hb
  rw [← hg]
  exact covers_box c bi

/-! ## rectangular rings -/

/-- the ring: outer rectangle `[y0, y0+a) × [x0, x0+b)` minus the inner rectangle one pixel in -/
def frameFn (y0 a x0 b : Int) (y x : Int) : Bool :=
  rectFn y0 a x0 b y x && !rectFn (y0 + 1) (a - 2) (x0 + 1) (b - 2) y x

set_option maxRecDepth 4096 in
theorem gray_frame (c ry0 ry1 rx0 rx1 iy0 iy1 ix0 ix1 : Bool)
    (hy : (iy0 || iy1) = true → (ry0 && ry1) = true)
    (hx : (ix0 || ix1) = true → (rx0 && rx1) = true) :
    grayQuad c ((ry0 && rx0) && !(iy0 && ix0)) ((ry0 && rx1) && !(iy0 && ix1))
        ((ry1 && rx0) && !(iy1 && ix0)) ((ry1 && rx1) && !(iy1 && ix1)) =
      grayQuad c (ry0 && rx0) (ry0 && rx1) (ry1 && rx0) (ry1 && rx1) -
        grayQuad c (iy0 && ix0) (iy0 && ix1) (iy1 && ix0) (iy1 && ix1) := by
  revert c ry0 ry1 rx0 rx1 iy0 iy1 ix0 ix1
  decide

theorem ivl_inner (lo n y : Int) (h : (ivl (lo + 1) (n - 2) y || ivl (lo + 1) (n - 2) (y + 1)) = true) :
    (ivl lo n y && ivl lo n (y + 1)) = true := by
  unfold ivl at *
  simp only [Bool.or_eq_true, Bool.and_eq_true, decide_eq_true_eq] at *
  omega

theorem qw_frame (c : Bool) (y0 a x0 b : Int) (y x : Int) :
    qw c (frameFn y0 a x0 b) y x =
      qw c (rectFn y0 a x0 b) y x - qw c (rectFn (y0 + 1) (a - 2) (x0 + 1) (b - 2)) y x := by
  unfold qw frameFn rectFn
  exact gray_frame c _ _ _ _ _ _ _ _ (ivl_inner y0 a y) (ivl_inner x0 b x)

theorem euler_frame (bi : Bin) (c : Bool) (y0 a x0 b : Int) (ha : 3 ≤ a) (hb : 3 ≤ b)
    (h : ∀ y x, bi.get y x = frameFn y0 a x0 b y x) : eulerModel4 bi c = 0 := by
  have hg : bi.get = frameFn y0 a x0 b := by funext y x; exact h y x
  let s := (ends y0 a ×ˢ ends x0 b) ∪ (ends (y0 + 1) (a - 2) ×ˢ ends (x0 + 1) (b - 2))
  have h1 : Covers c (rectFn y0 a x0 b) s :=
    (covers_rect c y0 a x0 b (by omega) (by omega)).mono Finset.subset_union_left
  have h2 : Covers c (rectFn (y0 + 1) (a - 2) (x0 + 1) (b - 2)) s :=
    (covers_rect c (y0 + 1) (a - 2) (x0 + 1) (b - 2) (by omega) (by omega)).mono Finset.subset_union_right
  have h3 : Covers c bi.get s := by
    intro p hp
    rw [hg, qw_frame, h1 p hp, h2 p hp]
    rfl
  rw [eulerModel4_eq_E bi c s h3, hg]
  have : E c (frameFn y0 a x0 b) s =
      E c (rectFn y0 a x0 b) s - E c (rectFn (y0 + 1) (a - 2) (x0 + 1) (b - 2)) s := by
    unfold E
    rw [← Finset.sum_sub_distrib]
    apply Finset.sum_congr rfl
    intro p _
    exact qw_frame c y0 a x0 b p.1 p.2
  rw [this, E_rect c y0 a x0 b (by omega) (by omega) s h1,
    E_rect c (y0 + 1) (a - 2) (x0 + 1) (b - 2) (by omega) (by omega) s h2]
  rfl

end Mahotas.C15
