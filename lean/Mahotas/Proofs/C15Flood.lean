/-
C15 — the flood-fill counting oracle (`neigh`, `flood`, `countComps`, `components`, `holes`) counts the connected
components of the pixel-adjacency graph on flat indices.
-/
import Mahotas.Model.C15
import Mathlib.Logic.Relation
import Mathlib.Logic.ExistsUnique
namespace Mahotas.C15
open Mahotas

/-! ## reads, the graph on flat indices -/

/-- read of the mask (`false` outside the array) -/
def mk (mask : Array Bool) (k : Nat) : Bool := mask.getD k false
/-- read of the visited set (`true` outside the array) -/
def sn (seen : Array Bool) (k : Nat) : Bool := seen.getD k true

theorem sn_mark (seen : Array Bool) (j k : Nat) :
    sn (seen.setIfInBounds j true) k = (decide (k = j) || sn seen k) := by
  unfold sn
  simp only [Array.getD_eq_getD_getElem?, Array.getElem?_setIfInBounds]
  by_cases h : j = k
  · subst h
    by_cases h2 : j < seen.size
    · simp [h2]
    · simp [h2]
  · have : ¬ k = j := fun e => h e.symm
    simp [h, this]

theorem sn_replicate (n k : Nat) : sn (Array.replicate n false) k = decide (n ≤ k) := by
  unfold sn
  by_cases h : k < n
  · simp [Array.getD_eq_getD_getElem?, h, Nat.not_le.mpr h]
  · simp [Array.getD_eq_getD_getElem?, h, Nat.le_of_not_lt h]

/-- the in-box target of offset `d` from flat index `i` (the model's own index arithmetic) -/
def tgt (rows cols : Nat) (i : Nat) (d : Int × Int) : Option Nat :=
  if 0 ≤ ((i / cols : Nat) : Int) + d.1 ∧ ((i / cols : Nat) : Int) + d.1 < (rows : Int) ∧
      0 ≤ ((i % cols : Nat) : Int) + d.2 ∧ ((i % cols : Nat) : Int) + d.2 < (cols : Int) then
    some ((((i / cols : Nat) : Int) + d.1).toNat * cols + (((i % cols : Nat) : Int) + d.2).toNat)
  else none

/-- the body of the inner loop of `flood` -/
def pushF (rows cols : Nat) (mask : Array Bool) (i : Nat) (acc : List Nat × Array Bool) (d : Int × Int) :
    List Nat × Array Bool :=
  match tgt rows cols i d with
  | some j => if mask.getD j false && !acc.2.getD j true then (j :: acc.1, acc.2.setIfInBounds j true) else acc
  | none => acc

/-- the pixel with flat index `k` lies on the image border -/
def bdr (rows cols : Nat) (k : Nat) : Bool :=
  ((k / cols : Nat) : Int) == 0 || ((k % cols : Nat) : Int) == 0 ||
    ((k / cols : Nat) : Int) == (rows : Int) - 1 || ((k % cols : Nat) : Int) == (cols : Int) - 1

theorem flood_cons (rows cols : Nat) (mask : Array Bool) (conn8 : Bool) (fuel i : Nat) (st : List Nat)
    (seen : Array Bool) (tb : Bool) :
    flood rows cols mask conn8 (fuel + 1) (i :: st) seen tb =
      flood rows cols mask conn8 fuel ((neigh conn8).foldl (pushF rows cols mask i) (st, seen)).1
        ((neigh conn8).foldl (pushF rows cols mask i) (st, seen)).2 (tb || bdr rows cols i) := by
  have hf : (fun (acc : List Nat × Array Bool) (d : Int × Int) =>
        let yy := ((i / cols : Nat) : Int) + d.1
        let xx := ((i % cols : Nat) : Int) + d.2
        if 0 ≤ yy ∧ yy < (rows : Int) ∧ 0 ≤ xx ∧ xx < (cols : Int) then
          let j := yy.toNat * cols + xx.toNat
          if mask.getD j false && !acc.2.getD j true then (j :: acc.1, acc.2.setIfInBounds j true) else acc
        else acc) = pushF rows cols mask i := by
    funext acc d
    unfold pushF tgt
    by_cases h : 0 ≤ ((i / cols : Nat) : Int) + d.1 ∧ ((i / cols : Nat) : Int) + d.1 < (rows : Int) ∧
      0 ≤ ((i % cols : Nat) : Int) + d.2 ∧ ((i % cols : Nat) : Int) + d.2 < (cols : Int)
    · simp only [h, if_true, and_self]
    · simp only [h, if_false]
  rw [flood]
  simp only [hf, bdr, Bool.or_assoc]

theorem flood_nil (rows cols : Nat) (mask : Array Bool) (conn8 : Bool) (fuel : Nat)
    (seen : Array Bool) (tb : Bool) :
    flood rows cols mask conn8 fuel [] seen tb = (seen, tb) := by
  cases fuel <;> simp [flood]

theorem flood_zero (rows cols : Nat) (mask : Array Bool) (conn8 : Bool) (st : List Nat)
    (seen : Array Bool) (tb : Bool) :
    flood rows cols mask conn8 0 st seen tb = (seen, tb) := by
  simp [flood]


/-! ## the measure: masked, unvisited indices below `n` -/

def U (n : Nat) (mask seen : Array Bool) : Nat := (List.range n).countP fun k => mk mask k && !sn seen k

theorem countP_remove (l : List Nat) (hl : l.Nodup) (p q : Nat → Bool) (j : Nat) (hj : j ∈ l)
    (hpj : p j = true) (hqj : q j = false) (hq : ∀ k, k ≠ j → q k = p k) :
    l.countP q + 1 = l.countP p := by
  induction l with
  | nil => cases hj
  | cons a l ih =>
    rw [List.nodup_cons] at hl
    by_cases ha : a = j
    · subst ha
      have : l.countP q = l.countP p := by
        apply List.countP_congr
        intro k hk
        have : k ≠ a := fun e => hl.1 (e ▸ hk)
        rw [hq k this]
      simp [hpj, hqj, this]
    · have hj' : j ∈ l := by
        rcases List.mem_cons.mp hj with e | e
        · exact absurd e.symm ha
        · exact e
      have := ih hl.2 hj'
      simp only [List.countP_cons, hq a ha]
      omega

theorem U_mark (n : Nat) (mask seen : Array Bool) (j : Nat) (hj : j < n) (hm : mk mask j = true)
    (hs : sn seen j = false) : U n mask (seen.setIfInBounds j true) + 1 = U n mask seen := by
  unfold U
  apply countP_remove _ List.nodup_range _ _ j (List.mem_range.mpr hj)
  · simp [hm, hs]
  · simp [sn_mark]
  · intro k hk
    simp [sn_mark, hk]

theorem tgt_lt {rows cols i : Nat} {d : Int × Int} {j : Nat} (h : tgt rows cols i d = some j) :
    j < rows * cols := by
  unfold tgt at h
  split at h
  · rename_i hb
    obtain ⟨h0, h1, h2, h3⟩ := hb
    injection h with h
    subst h
    have hy : (((i / cols : Nat) : Int) + d.1).toNat + 1 ≤ rows := by omega
    have hx : (((i % cols : Nat) : Int) + d.2).toNat < cols := by omega
    have := Nat.mul_le_mul_right cols hy
    rw [Nat.succ_mul] at this
    omega
  · cases h

theorem pushF_cases (rows cols : Nat) (mask : Array Bool) (i : Nat) (acc : List Nat × Array Bool) (d : Int × Int) :
    (∃ j, tgt rows cols i d = some j ∧ mk mask j = true ∧ sn acc.2 j = false ∧
        pushF rows cols mask i acc d = (j :: acc.1, acc.2.setIfInBounds j true)) ∨
    (pushF rows cols mask i acc d = acc ∧ ∀ j, tgt rows cols i d = some j → mk mask j = true → sn acc.2 j = true) := by
  unfold pushF
  cases ht : tgt rows cols i d with
  | none => right; simp
  | some j =>
    by_cases hc : (mask.getD j false && !acc.2.getD j true) = true
    · left
      refine ⟨j, rfl, ?_, ?_, ?_⟩
      · simp only [Bool.and_eq_true] at hc; exact hc.1
      · simp only [Bool.and_eq_true, Bool.not_eq_true'] at hc; exact hc.2
      · simp only [hc, if_true]
    · right
      simp only [hc]
      refine ⟨by simp, ?_⟩
      intro j' hj' hm
      injection hj' with hj'
      subst hj'
      simp only [Bool.and_eq_true, Bool.not_eq_true', not_and, Bool.not_eq_false] at hc
      exact hc hm

/-- what the inner loop over the offsets `ds` does to `(stack, seen)` -/
structure FoldRel (rows cols : Nat) (mask : Array Bool) (i : Nat) (ds : List (Int × Int)) (st : List Nat)
    (seen : Array Bool) (r : List Nat × Array Bool) : Prop where
  mono : ∀ k, sn seen k = true → sn r.2 k = true
  new : ∀ k, sn r.2 k = true → sn seen k = true ∨ (mk mask k = true ∧ ∃ d ∈ ds, tgt rows cols i d = some k)
  stack : ∀ k, k ∈ r.1 ↔ k ∈ st ∨ (sn r.2 k = true ∧ sn seen k = false)
  complete : ∀ d ∈ ds, ∀ k, tgt rows cols i d = some k → mk mask k = true → sn r.2 k = true
  meas : r.1.length + U (rows * cols) mask r.2 ≤ st.length + U (rows * cols) mask seen

theorem foldRel (rows cols : Nat) (mask : Array Bool) (i : Nat) (ds : List (Int × Int)) :
    ∀ (st : List Nat) (seen : Array Bool),
      FoldRel rows cols mask i ds st seen (ds.foldl (pushF rows cols mask i) (st, seen)) := by
  induction ds with
  | nil =>
    intro st seen
    refine ⟨fun k h => h, fun k h => Or.inl h, ?_, ?_, Nat.le_refl _⟩
    · intro k
      simp only [List.foldl_nil]
      constructor
      · exact Or.inl
      · rintro (h | ⟨h1, h2⟩)
        · exact h
        · rw [h1] at h2; cases h2
    · intro d hd; cases hd
  | cons d ds ih =>
    intro st seen
    rw [List.foldl_cons]
    rcases pushF_cases rows cols mask i (st, seen) d with ⟨j, hj, hm, hs, he⟩ | ⟨he, hc⟩
    · rw [he]
      have R := ih (j :: st) (seen.setIfInBounds j true)
      simp only at hs
      refine ⟨?_, ?_, ?_, ?_, ?_⟩
      · intro k hk
        apply R.mono
        simp [sn_mark, hk]
      · intro k hk
        rcases R.new k hk with h | ⟨h1, d', hd', h2⟩
        · simp only [sn_mark, Bool.or_eq_true, decide_eq_true_eq] at h
          rcases h with h | h
          · subst h
            exact Or.inr ⟨hm, d, List.mem_cons_self, hj⟩
          · exact Or.inl h
        · exact Or.inr ⟨h1, d', List.mem_cons_of_mem _ hd', h2⟩
      · intro k
        rw [R.stack k]
        have hjj : sn (ds.foldl (pushF rows cols mask i) (j :: st, seen.setIfInBounds j true)).2 j = true := by
          apply R.mono; simp [sn_mark]
        simp only [sn_mark, Bool.or_eq_false_iff, decide_eq_false_iff_not, List.mem_cons]
        constructor
        · rintro ((h | h) | ⟨h1, h2, h3⟩)
          · subst h; exact Or.inr ⟨hjj, hs⟩
          · exact Or.inl h
          · exact Or.inr ⟨h1, h3⟩
        · rintro (h | ⟨h1, h2⟩)
          · exact Or.inl (Or.inr h)
          · by_cases hk : k = j
            · exact Or.inl (Or.inl hk)
            · exact Or.inr ⟨h1, hk, h2⟩
      · intro d' hd' k hk hmk
        rcases List.mem_cons.mp hd' with e | e
        · subst e
          rw [hj] at hk
          injection hk with hk
          subst hk
          apply R.mono; simp [sn_mark]
        · exact R.complete d' e k hk hmk
      · have := R.meas
        have := U_mark (rows * cols) mask seen j (tgt_lt hj) hm hs
        simp only [List.length_cons] at *
        omega
    · rw [he]
      have R := ih st seen
      refine ⟨R.mono, ?_, R.stack, ?_, R.meas⟩
      · intro k hk
        rcases R.new k hk with h | ⟨h1, d', hd', h2⟩
        · exact Or.inl h
        · exact Or.inr ⟨h1, d', List.mem_cons_of_mem _ hd', h2⟩
      · intro d' hd' k hk hmk
        rcases List.mem_cons.mp hd' with e | e
        · subst e
          apply R.mono
          exact hc k hk hmk
        · exact R.complete d' e k hk hmk


/-! ## the graph: set pixels inside the box, joined along the offsets of `neigh` -/

/-- a vertex: a flat index inside the box whose mask entry is set -/
def IsV (rows cols : Nat) (mask : Array Bool) (k : Nat) : Prop := k < rows * cols ∧ mk mask k = true

/-- `j`'s (row, column) is `i`'s (row, column) plus an offset of `neigh conn8`, inside the box -/
def adjIdx (rows cols : Nat) (conn8 : Bool) (i j : Nat) : Prop := ∃ d ∈ neigh conn8, tgt rows cols i d = some j

/-- an edge of the graph -/
def istep (rows cols : Nat) (mask : Array Bool) (conn8 : Bool) (a b : Nat) : Prop :=
  IsV rows cols mask a ∧ IsV rows cols mask b ∧ adjIdx rows cols conn8 a b

/-- connected inside the mask -/
def IConn (rows cols : Nat) (mask : Array Bool) (conn8 : Bool) : Nat → Nat → Prop :=
  Relation.ReflTransGen (istep rows cols mask conn8)

theorem neigh_neg (c : Bool) : ∀ d ∈ neigh c, (-d.1, -d.2) ∈ neigh c := by
  cases c <;> decide

theorem adjIdx_symm {rows cols : Nat} {conn8 : Bool} {i j : Nat} (hi : i < rows * cols)
    (h : adjIdx rows cols conn8 i j) : adjIdx rows cols conn8 j i := by
  obtain ⟨d, hd, ht⟩ := h
  refine ⟨(-d.1, -d.2), neigh_neg conn8 d hd, ?_⟩
  unfold tgt at ht
  split at ht
  · rename_i hb
    obtain ⟨h0, h1, h2, h3⟩ := hb
    injection ht with ht
    subst ht
    have cpos : 0 < cols := by omega
    have hr : i / cols < rows := Nat.div_lt_of_lt_mul (by rw [Nat.mul_comm]; exact hi)
    have hc : i % cols < cols := Nat.mod_lt _ cpos
    have hdm : i / cols * cols + i % cols = i := Nat.div_add_mod' i cols
    generalize i / cols = q at *
    generalize i % cols = r at *
    obtain ⟨a, ha⟩ : ∃ a : Nat, (a : Int) = (q : Int) + d.1 := ⟨_, Int.toNat_of_nonneg h0⟩
    obtain ⟨b, hb⟩ : ∃ b : Nat, (b : Int) = (r : Int) + d.2 := ⟨_, Int.toNat_of_nonneg h2⟩
    rw [← ha, ← hb, Int.toNat_natCast, Int.toNat_natCast]
    have hbl : b < cols := by omega
    have e3 : ((a : Int) + -d.1).toNat = q := by omega
    have e4 : ((b : Int) + -d.2).toNat = r := by omega
    have hcond : 0 ≤ (a : Int) + -d.1 ∧ (a : Int) + -d.1 < (rows : Int) ∧
        0 ≤ (b : Int) + -d.2 ∧ (b : Int) + -d.2 < (cols : Int) := by omega
    have e1 : (a * cols + b) / cols = a := by
      rw [Nat.mul_comm, Nat.mul_add_div cpos, Nat.div_eq_of_lt hbl, Nat.add_zero]
    have e2 : (a * cols + b) % cols = b := by
      rw [Nat.mul_comm, Nat.mul_add_mod, Nat.mod_eq_of_lt hbl]
    unfold tgt
    simp only [e1, e2]
    rw [if_pos hcond, e3, e4, hdm]
  · cases ht

theorem IConn.symm {rows cols : Nat} {mask : Array Bool} {conn8 : Bool} {a b : Nat}
    (h : IConn rows cols mask conn8 a b) : IConn rows cols mask conn8 b a := by
  induction h with
  | refl => exact Relation.ReflTransGen.refl
  | tail _ hbc ih =>
    exact Relation.ReflTransGen.head ⟨hbc.2.1, hbc.1, adjIdx_symm hbc.1.1 hbc.2.2⟩ ih

theorem IConn.isV {rows cols : Nat} {mask : Array Bool} {conn8 : Bool} {a b : Nat}
    (h : IConn rows cols mask conn8 a b) (ha : IsV rows cols mask a) : IsV rows cols mask b := by
  cases h with
  | refl => exact ha
  | tail _ hbc => exact hbc.2.1

/-! ## the loop invariant of `flood` -/

structure Inv (rows cols : Nat) (mask : Array Bool) (conn8 : Bool) (S0 : Nat → Prop) (seed : Nat)
    (st : List Nat) (seen : Array Bool) (tb : Bool) : Prop where
  sd : sn seen seed = true
  stk : ∀ k ∈ st, IsV rows cols mask k ∧ sn seen k = true ∧ ¬ S0 k ∧ IConn rows cols mask conn8 seed k
  snd : ∀ k, sn seen k = true → S0 k ∨ IConn rows cols mask conn8 seed k
  mono : ∀ k, S0 k → sn seen k = true
  closed : ∀ k, sn seen k = true → ¬ S0 k → k ∉ st →
    ∀ j, adjIdx rows cols conn8 k j → IsV rows cols mask j → sn seen j = true
  tbs : tb = true → ∃ k, sn seen k = true ∧ ¬ S0 k ∧ bdr rows cols k = true
  tbc : ∀ k, sn seen k = true → ¬ S0 k → k ∉ st → bdr rows cols k = true → tb = true

theorem Inv.step {rows cols : Nat} {mask : Array Bool} {conn8 : Bool} {S0 : Nat → Prop} {seed i : Nat}
    {st : List Nat} {seen : Array Bool} {tb : Bool} (I : Inv rows cols mask conn8 S0 seed (i :: st) seen tb) :
    Inv rows cols mask conn8 S0 seed ((neigh conn8).foldl (pushF rows cols mask i) (st, seen)).1
      ((neigh conn8).foldl (pushF rows cols mask i) (st, seen)).2 (tb || bdr rows cols i) := by
  have R := foldRel rows cols mask i (neigh conn8) st seen
  generalize (neigh conn8).foldl (pushF rows cols mask i) (st, seen) = r at R ⊢
  obtain ⟨hVi, hsi, hS0i, hci⟩ := I.stk i List.mem_cons_self
  have hnew : ∀ k, sn r.2 k = true → sn seen k = false →
      IsV rows cols mask k ∧ ¬ S0 k ∧ IConn rows cols mask conn8 seed k := by
    intro k h1 h2
    rcases R.new k h1 with h | ⟨hm, d, hd, ht⟩
    · rw [h] at h2; cases h2
    · have hV : IsV rows cols mask k := ⟨tgt_lt ht, hm⟩
      refine ⟨hV, ?_, Relation.ReflTransGen.tail hci ⟨hVi, hV, d, hd, ht⟩⟩
      intro h0
      rw [I.mono k h0] at h2; cases h2
  have hold : ∀ k, sn r.2 k = true → k ∉ r.1 → k ∉ st ∧ sn seen k = true := by
    intro k h1 h2
    rw [R.stack k] at h2
    refine ⟨fun h => h2 (Or.inl h), ?_⟩
    cases hs : sn seen k with
    | true => rfl
    | false => exact absurd (Or.inr ⟨h1, hs⟩) h2
  refine ⟨R.mono _ I.sd, ?_, ?_, fun k h => R.mono k (I.mono k h), ?_, ?_, ?_⟩
  · intro k hk
    rcases (R.stack k).mp hk with h | ⟨h1, h2⟩
    · obtain ⟨a, b, c, d⟩ := I.stk k (List.mem_cons_of_mem _ h)
      exact ⟨a, R.mono k b, c, d⟩
    · obtain ⟨a, c, d⟩ := hnew k h1 h2
      exact ⟨a, h1, c, d⟩
  · intro k hk
    cases hs : sn seen k with
    | true => exact I.snd k hs
    | false => exact Or.inr (hnew k hk hs).2.2
  · intro k h1 h2 h3 j hadj hVj
    obtain ⟨h4, h5⟩ := hold k h1 h3
    by_cases hki : k = i
    · subst hki
      obtain ⟨d, hd, ht⟩ := hadj
      exact R.complete d hd j ht hVj.2
    · apply R.mono
      refine I.closed k h5 h2 ?_ j hadj hVj
      intro hmem
      rcases List.mem_cons.mp hmem with e | e
      · exact hki e
      · exact h4 e
  · intro h
    rw [Bool.or_eq_true] at h
    rcases h with h | h
    · obtain ⟨k, a, b, c⟩ := I.tbs h
      exact ⟨k, R.mono k a, b, c⟩
    · exact ⟨i, R.mono i hsi, hS0i, h⟩
  · intro k h1 h2 h3 hb
    obtain ⟨h4, h5⟩ := hold k h1 h3
    rw [Bool.or_eq_true]
    by_cases hki : k = i
    · subst hki
      exact Or.inr hb
    · left
      refine I.tbc k h5 h2 ?_ hb
      intro hmem
      rcases List.mem_cons.mp hmem with e | e
      · exact hki e
      · exact h4 e

theorem Inv.step_meas (rows cols : Nat) (mask : Array Bool) (conn8 : Bool) (i : Nat) (st : List Nat)
    (seen : Array Bool) :
    ((neigh conn8).foldl (pushF rows cols mask i) (st, seen)).1.length +
      U (rows * cols) mask ((neigh conn8).foldl (pushF rows cols mask i) (st, seen)).2 ≤
      st.length + U (rows * cols) mask seen :=
  (foldRel rows cols mask i (neigh conn8) st seen).meas

/-- with enough fuel the flood ends with an empty stack and the invariant -/
theorem flood_inv {rows cols : Nat} {mask : Array Bool} {conn8 : Bool} {S0 : Nat → Prop} {seed : Nat} :
    ∀ (fuel : Nat) (st : List Nat) (seen : Array Bool) (tb : Bool),
      Inv rows cols mask conn8 S0 seed st seen tb → st.length + U (rows * cols) mask seen ≤ fuel →
      Inv rows cols mask conn8 S0 seed [] (flood rows cols mask conn8 fuel st seen tb).1
        (flood rows cols mask conn8 fuel st seen tb).2 := by
  intro fuel
  induction fuel with
  | zero =>
    intro st seen tb I h
    have : st = [] := List.length_eq_zero_iff.mp (by omega)
    subst this
    rw [flood_zero]; exact I
  | succ fuel ih =>
    intro st seen tb I h
    cases st with
    | nil => rw [flood_nil]; exact I
    | cons i st =>
      rw [flood_cons]
      apply ih _ _ _ I.step
      have := Inv.step_meas rows cols mask conn8 i st seen
      simp only [List.length_cons] at h
      omega


theorem U_le (n : Nat) (mask seen : Array Bool) : U n mask seen ≤ n := by
  unfold U
  exact Nat.le_trans List.countP_le_length (by simp)

/-- **one flood from a fresh seed marks exactly the seed's component** (and reports whether it meets the border),
    provided the set visited before is closed under the edges of the graph -/
theorem flood_seed {rows cols : Nat} {mask : Array Bool} {conn8 : Bool} {seed : Nat} (seen0 : Array Bool)
    (hV : IsV rows cols mask seed) (hs : sn seen0 seed = false)
    (H0 : ∀ k j, IsV rows cols mask k → IsV rows cols mask j → adjIdx rows cols conn8 k j →
      sn seen0 j = true → sn seen0 k = true) :
    (∀ k, sn (flood rows cols mask conn8 (rows * cols + 1) [seed] (seen0.setIfInBounds seed true) false).1 k = true ↔
        (sn seen0 k = true ∨ IConn rows cols mask conn8 seed k)) ∧
    (∀ k, IConn rows cols mask conn8 seed k → sn seen0 k = false) ∧
    ((flood rows cols mask conn8 (rows * cols + 1) [seed] (seen0.setIfInBounds seed true) false).2 = true ↔
        ∃ k, IConn rows cols mask conn8 seed k ∧ bdr rows cols k = true) := by
  have I0 : Inv rows cols mask conn8 (fun k => sn seen0 k = true) seed [seed]
      (seen0.setIfInBounds seed true) false := by
    have hcontra : ∀ k, sn (seen0.setIfInBounds seed true) k = true → ¬ sn seen0 k = true → k ∉ [seed] → False := by
      intro k h1 h2 h3
      simp only [sn_mark, Bool.or_eq_true, decide_eq_true_eq] at h1
      rcases h1 with h | h
      · exact h3 (by simp [h])
      · exact h2 h
    refine ⟨by simp [sn_mark], ?_, ?_, ?_, ?_, ?_, ?_⟩
    · intro k hk
      have : k = seed := by simpa using hk
      subst this
      exact ⟨hV, by simp [sn_mark], by simp [hs], Relation.ReflTransGen.refl⟩
    · intro k hk
      simp only [sn_mark, Bool.or_eq_true, decide_eq_true_eq] at hk
      rcases hk with h | h
      · subst h; exact Or.inr Relation.ReflTransGen.refl
      · exact Or.inl h
    · intro k hk
      simp [sn_mark, hk]
    · intro k h1 h2 h3
      exact (hcontra k h1 h2 h3).elim
    · intro h; cases h
    · intro k h1 h2 h3
      exact (hcontra k h1 h2 h3).elim
  have hfuel : [seed].length + U (rows * cols) mask (seen0.setIfInBounds seed true) ≤ rows * cols + 1 := by
    have := U_mark (rows * cols) mask seen0 seed hV.1 hV.2 hs
    have := U_le (rows * cols) mask seen0
    simp only [List.length_cons, List.length_nil]
    omega
  have I := flood_inv _ _ _ _ I0 hfuel
  generalize flood rows cols mask conn8 (rows * cols + 1) [seed] (seen0.setIfInBounds seed true) false = r at I ⊢
  have key : ∀ k, IConn rows cols mask conn8 seed k → sn r.1 k = true ∧ ¬ sn seen0 k = true := by
    intro k hk
    induction hk with
    | refl => exact ⟨I.sd, by simp [hs]⟩
    | tail _ hbc ih =>
      obtain ⟨hVb, hVc, hadj⟩ := hbc
      refine ⟨I.closed _ ih.1 ih.2 (by simp) _ hadj hVc, ?_⟩
      intro h
      exact ih.2 (H0 _ _ hVb hVc hadj h)
  refine ⟨?_, ?_, ?_⟩
  · intro k
    constructor
    · exact I.snd k
    · rintro (h | h)
      · exact I.mono k h
      · exact (key k h).1
  · intro k hk
    have := (key k hk).2
    simpa using this
  · constructor
    · intro h
      obtain ⟨k, h1, h2, h3⟩ := I.tbs h
      rcases I.snd k h1 with h4 | h4
      · exact absurd h4 h2
      · exact ⟨k, h4, h3⟩
    · rintro ⟨k, h1, h2⟩
      exact I.tbc k (key k h1).1 (key k h1).2 (by simp) h2

/-! ## the outer loop of `countComps` -/

/-- the body of the outer loop -/
def outF (rows cols : Nat) (mask : Array Bool) (conn8 : Bool) (acc : Array Bool × Nat × Nat) (i : Nat) :
    Array Bool × Nat × Nat :=
  if (mk mask i && !sn acc.1 i) = true then
    ((flood rows cols mask conn8 (rows * cols + 1) [i] (acc.1.setIfInBounds i true) false).1, acc.2.1 + 1,
      acc.2.2 + (if (flood rows cols mask conn8 (rows * cols + 1) [i] (acc.1.setIfInBounds i true) false).2 then 1 else 0))
  else acc

theorem countComps_eq (rows cols : Nat) (mask : Array Bool) (conn8 : Bool) :
    countComps rows cols mask conn8 =
      (((List.range (rows * cols)).foldl (outF rows cols mask conn8) (Array.replicate (rows * cols) false, 0, 0)).2.1,
       ((List.range (rows * cols)).foldl (outF rows cols mask conn8) (Array.replicate (rows * cols) false, 0, 0)).2.2) := rfl

/-- the component of `s` contains a border pixel -/
def Touches (rows cols : Nat) (mask : Array Bool) (conn8 : Bool) (s : Nat) : Prop :=
  ∃ k, IConn rows cols mask conn8 s k ∧ bdr rows cols k = true

structure OInv (rows cols : Nat) (mask : Array Bool) (conn8 : Bool) (m : Nat) (acc : Array Bool × Nat × Nat)
    (seeds seeds2 : List Nat) : Prop where
  nd : seeds.Nodup
  len : seeds.length = acc.2.1
  sV : ∀ s ∈ seeds, IsV rows cols mask s
  smin : ∀ s ∈ seeds, ∀ k, IConn rows cols mask conn8 s k → s ≤ k
  sep : ∀ s ∈ seeds, ∀ s' ∈ seeds, IConn rows cols mask conn8 s s' → s = s'
  seen : ∀ k, sn acc.1 k = true ↔ (rows * cols ≤ k ∨ ∃ s ∈ seeds, IConn rows cols mask conn8 s k)
  done : ∀ k, k < m → IsV rows cols mask k → sn acc.1 k = true
  nd2 : seeds2.Nodup
  len2 : seeds2.length = acc.2.2
  mem2 : ∀ s, s ∈ seeds2 ↔ (s ∈ seeds ∧ Touches rows cols mask conn8 s)

theorem OInv.next {rows cols : Nat} {mask : Array Bool} {conn8 : Bool} {m : Nat} {acc : Array Bool × Nat × Nat}
    {seeds seeds2 : List Nat} (O : OInv rows cols mask conn8 m acc seeds seeds2) (hm : m < rows * cols) :
    ∃ seeds' seeds2', OInv rows cols mask conn8 (m + 1) (outF rows cols mask conn8 acc m) seeds' seeds2' := by
  unfold outF
  by_cases hc : (Mahotas.C15.mk mask m && !sn acc.1 m) = true
  · rw [if_pos hc]
    simp only [Bool.and_eq_true, Bool.not_eq_true'] at hc
    obtain ⟨hmk, hs⟩ := hc
    have hV : IsV rows cols mask m := ⟨hm, hmk⟩
    have H0 : ∀ k j, IsV rows cols mask k → IsV rows cols mask j → adjIdx rows cols conn8 k j →
        sn acc.1 j = true → sn acc.1 k = true := by
      intro k j hVk hVj hadj hj
      rcases (O.seen j).mp hj with h | ⟨s, hs1, hs2⟩
      · exact absurd hVj.1 (by omega)
      · exact (O.seen k).mpr (Or.inr ⟨s, hs1,
          Relation.ReflTransGen.tail hs2 ⟨hVj, hVk, adjIdx_symm hVk.1 hadj⟩⟩)
    obtain ⟨F1, F2, F3⟩ := flood_seed (conn8 := conn8) acc.1 hV hs H0
    generalize flood rows cols mask conn8 (rows * cols + 1) [m] (acc.1.setIfInBounds m true) false = r at F1 F3 ⊢
    have hseen_seed : ∀ s ∈ seeds, sn acc.1 s = true := fun s hs' =>
      (O.seen s).mpr (Or.inr ⟨s, hs', Relation.ReflTransGen.refl⟩)
    have hmnot : m ∉ seeds := by
      intro h
      rw [hseen_seed m h] at hs; cases hs
    have nd' : (m :: seeds).Nodup := List.nodup_cons.mpr ⟨hmnot, O.nd⟩
    have sV' : ∀ s ∈ m :: seeds, IsV rows cols mask s := by
      intro s hs'
      rcases List.mem_cons.mp hs' with e | e
      · subst e; exact hV
      · exact O.sV s e
    have smin' : ∀ s ∈ m :: seeds, ∀ k, IConn rows cols mask conn8 s k → s ≤ k := by
      intro s hs' k hk
      rcases List.mem_cons.mp hs' with e | e
      · subst e
        apply Nat.le_of_not_lt
        intro hlt
        have h1 := O.done k hlt (hk.isV hV)
        rw [F2 k hk] at h1; cases h1
      · exact O.smin s e k hk
    have sep' : ∀ s ∈ m :: seeds, ∀ s' ∈ m :: seeds, IConn rows cols mask conn8 s s' → s = s' := by
      intro s hs1 s' hs2 hk
      rcases List.mem_cons.mp hs1 with e | e <;> rcases List.mem_cons.mp hs2 with e' | e'
      · rw [e, e']
      · subst e
        have := F2 s' hk
        rw [hseen_seed s' e'] at this; cases this
      · subst e'
        have := (O.seen s').mpr (Or.inr ⟨s, e, hk⟩)
        rw [this] at hs; cases hs
      · exact O.sep s e s' e' hk
    have seen' : ∀ k, sn r.1 k = true ↔
        (rows * cols ≤ k ∨ ∃ s ∈ m :: seeds, IConn rows cols mask conn8 s k) := by
      intro k
      rw [F1 k, O.seen k]
      constructor
      · rintro ((h | ⟨s, h1, h2⟩) | h)
        · exact Or.inl h
        · exact Or.inr ⟨s, List.mem_cons_of_mem _ h1, h2⟩
        · exact Or.inr ⟨m, List.mem_cons_self, h⟩
      · rintro (h | ⟨s, h1, h2⟩)
        · exact Or.inl (Or.inl h)
        · rcases List.mem_cons.mp h1 with e | e
          · subst e; exact Or.inr h2
          · exact Or.inl (Or.inr ⟨s, e, h2⟩)
    have done' : ∀ k, k < m + 1 → IsV rows cols mask k → sn r.1 k = true := by
      intro k hk hVk
      by_cases e : k = m
      · subst e; exact (F1 k).mpr (Or.inr Relation.ReflTransGen.refl)
      · exact (F1 k).mpr (Or.inl (O.done k (by omega) hVk))
    by_cases htb : r.2 = true
    · refine ⟨m :: seeds, m :: seeds2, nd', by simp [O.len], sV', smin', sep', seen', done', ?_, ?_, ?_⟩
      · exact List.nodup_cons.mpr ⟨fun h => hmnot ((O.mem2 m).mp h).1, O.nd2⟩
      · simp [htb, O.len2]
      · intro s
        constructor
        · intro h
          rcases List.mem_cons.mp h with e | e
          · subst e; exact ⟨List.mem_cons_self, F3.mp htb⟩
          · exact ⟨List.mem_cons_of_mem _ ((O.mem2 s).mp e).1, ((O.mem2 s).mp e).2⟩
        · rintro ⟨h1, h2⟩
          rcases List.mem_cons.mp h1 with e | e
          · subst e; exact List.mem_cons_self
          · exact List.mem_cons_of_mem _ ((O.mem2 s).mpr ⟨e, h2⟩)
    · refine ⟨m :: seeds, seeds2, nd', by simp [O.len], sV', smin', sep', seen', done', O.nd2, ?_, ?_⟩
      · simp [htb, O.len2]
      · intro s
        constructor
        · intro h
          exact ⟨List.mem_cons_of_mem _ ((O.mem2 s).mp h).1, ((O.mem2 s).mp h).2⟩
        · rintro ⟨h1, h2⟩
          rcases List.mem_cons.mp h1 with e | e
          · subst e; exact absurd (F3.mpr h2) htb
          · exact (O.mem2 s).mpr ⟨e, h2⟩
  · rw [if_neg hc]
    refine ⟨seeds, seeds2, O.nd, O.len, O.sV, O.smin, O.sep, O.seen, ?_, O.nd2, O.len2, O.mem2⟩
    intro k hk hVk
    by_cases e : k = m
    · subst e
      simp only [Bool.and_eq_true, Bool.not_eq_true', not_and, Bool.not_eq_false] at hc
      exact hc hVk.2
    · exact O.done k (by omega) hVk

theorem outer_inv (rows cols : Nat) (mask : Array Bool) (conn8 : Bool) :
    ∀ m, m ≤ rows * cols → ∃ seeds seeds2, OInv rows cols mask conn8 m
      ((List.range m).foldl (outF rows cols mask conn8) (Array.replicate (rows * cols) false, 0, 0)) seeds seeds2 := by
  intro m
  induction m with
  | zero =>
    intro _
    refine ⟨[], [], List.nodup_nil, rfl, by simp, by simp, by simp, ?_, ?_, List.nodup_nil, rfl, by simp⟩
    · intro k
      simp [sn_replicate]
    · intro k hk; omega
  | succ m ih =>
    intro hm
    obtain ⟨seeds, seeds2, O⟩ := ih (by omega)
    rw [List.range_succ, List.foldl_append, List.foldl_cons, List.foldl_nil]
    exact O.next (by omega)


/-! ## what `countComps` counts -/

/-- `i` is a set pixel and the smallest index of its component: the canonical representative -/
def IsRep (rows cols : Nat) (mask : Array Bool) (conn8 : Bool) (i : Nat) : Prop :=
  IsV rows cols mask i ∧ ∀ j, IConn rows cols mask conn8 i j → i ≤ j

theorem countComps_spec (rows cols : Nat) (mask : Array Bool) (conn8 : Bool) :
    ∃ seeds seeds2 : List Nat,
      seeds.Nodup ∧ seeds.length = (countComps rows cols mask conn8).1 ∧
      (∀ i, i ∈ seeds ↔ IsRep rows cols mask conn8 i) ∧
      (∀ k, IsV rows cols mask k → ∃! s, s ∈ seeds ∧ IConn rows cols mask conn8 s k) ∧
      seeds2.Nodup ∧ seeds2.length = (countComps rows cols mask conn8).2 ∧
      (∀ s, s ∈ seeds2 ↔ (IsRep rows cols mask conn8 s ∧ Touches rows cols mask conn8 s)) := by
  obtain ⟨seeds, seeds2, O⟩ := outer_inv rows cols mask conn8 (rows * cols) (Nat.le_refl _)
  rw [countComps_eq]
  generalize (List.range (rows * cols)).foldl (outF rows cols mask conn8)
    (Array.replicate (rows * cols) false, 0, 0) = acc at O ⊢
  have hex : ∀ k, IsV rows cols mask k → ∃ s, s ∈ seeds ∧ IConn rows cols mask conn8 s k := by
    intro k hk
    rcases (O.seen k).mp (O.done k hk.1 hk) with h | ⟨s, h1, h2⟩
    · exact absurd hk.1 (by omega)
    · exact ⟨s, h1, h2⟩
  have hrep : ∀ i, i ∈ seeds ↔ IsRep rows cols mask conn8 i := by
    intro i
    constructor
    · intro h; exact ⟨O.sV i h, O.smin i h⟩
    · rintro ⟨hV, hmin⟩
      obtain ⟨s, h1, h2⟩ := hex i hV
      have a := hmin s h2.symm
      have b := O.smin s h1 i h2
      have : s = i := by omega
      rw [← this]; exact h1
  refine ⟨seeds, seeds2, O.nd, O.len, hrep, ?_, O.nd2, O.len2, ?_⟩
  · intro k hk
    obtain ⟨s, h1, h2⟩ := hex k hk
    refine ⟨s, ⟨h1, h2⟩, ?_⟩
    rintro s' ⟨h1', h2'⟩
    exact O.sep s' h1' s h1 (Relation.ReflTransGen.trans h2' h2.symm)
  · intro s
    rw [O.mem2 s, hrep s]

/-- the number of canonical representatives whose component does **not** meet the border is `r.1 - r.2` -/
theorem countComps_inner (rows cols : Nat) (mask : Array Bool) (conn8 : Bool) :
    ∃ inner : List Nat, inner.Nodup ∧
      inner.length = (countComps rows cols mask conn8).1 - (countComps rows cols mask conn8).2 ∧
      (∀ s, s ∈ inner ↔ (IsRep rows cols mask conn8 s ∧ ¬ Touches rows cols mask conn8 s)) := by
  obtain ⟨seeds, seeds2, h1, h2, h3, _, h5, h6, h7⟩ := countComps_spec rows cols mask conn8
  refine ⟨seeds.filter fun s => !seeds2.contains s, h1.sublist List.filter_sublist, ?_, ?_⟩
  · have hp : (seeds.filter fun s => seeds2.contains s).Perm seeds2 := by
      rw [List.perm_ext_iff_of_nodup (h1.sublist List.filter_sublist) h5]
      intro a
      simp only [List.mem_filter, List.contains_iff_mem]
      constructor
      · exact fun h => h.2
      · intro h
        exact ⟨(h3 a).mpr ((h7 a).mp h).1, h⟩
    have hl := List.length_eq_countP_add_countP (fun s => seeds2.contains s) (l := seeds)
    rw [List.countP_eq_length_filter, List.countP_eq_length_filter, hp.length_eq] at hl
    have : (seeds.filter fun s => !seeds2.contains s) =
        seeds.filter (fun a => decide ¬seeds2.contains a = true) := by
      congr 1
      funext a
      cases h : seeds2.contains a <;> simp
    rw [this, ← h2, ← h6]
    omega
  · intro s
    simp only [List.mem_filter, Bool.not_eq_true', List.contains_eq_mem, decide_eq_false_iff_not]
    rw [h3 s, h7 s]
    constructor
    · rintro ⟨a, b⟩; exact ⟨a, fun c => b ⟨a, c⟩⟩
    · rintro ⟨a, b⟩; exact ⟨a, fun c => b c.2⟩

end Mahotas.C15
