/-
C15 — the graph on flat indices used by the flood-fill theorems (`C15Flood.lean`) in pixel coordinates, and its
identification, for 8-connectivity, with `adj8` / `Conn (bset b)` of the thinning theorems (`C15Thin.lean`).
-/
import Mahotas.Proofs.C15Flood
import Mahotas.Proofs.C15Thin
namespace Mahotas.C15
open Mahotas

/-- the in-box target in coordinates: `j` is inside the box and its (row, column) is `i`'s plus the offset -/
theorem tgt_eq_some_iff {rows cols i : Nat} (d : Int × Int) (j : Nat) :
    tgt rows cols i d = some j ↔
      (j < rows * cols ∧ ((j / cols : Nat) : Int) = ((i / cols : Nat) : Int) + d.1 ∧
        ((j % cols : Nat) : Int) = ((i % cols : Nat) : Int) + d.2) := by
  constructor
  · intro ht
    refine ⟨tgt_lt ht, ?_⟩
    unfold tgt at ht
    split at ht
    · rename_i hb
      obtain ⟨h0, h1, h2, h3⟩ := hb
      injection ht with ht
      subst ht
      have cpos : 0 < cols := by omega
      generalize i / cols = q at *
      generalize i % cols = r at *
      obtain ⟨a, ha⟩ : ∃ a : Nat, (a : Int) = (q : Int) + d.1 := ⟨_, Int.toNat_of_nonneg h0⟩
      obtain ⟨b, hb⟩ : ∃ b : Nat, (b : Int) = (r : Int) + d.2 := ⟨_, Int.toNat_of_nonneg h2⟩
      rw [← ha, ← hb, Int.toNat_natCast, Int.toNat_natCast]
      have hbl : b < cols := by omega
      have e1 : (a * cols + b) / cols = a := by
        rw [Nat.mul_comm, Nat.mul_add_div cpos, Nat.div_eq_of_lt hbl, Nat.add_zero]
      have e2 : (a * cols + b) % cols = b := by
        rw [Nat.mul_comm, Nat.mul_add_mod, Nat.mod_eq_of_lt hbl]
      rw [e1, e2]
      exact ⟨rfl, rfl⟩
    · cases ht
  · rintro ⟨hj, h1, h2⟩
    have cpos : 0 < cols := by
      rcases Nat.eq_zero_or_pos cols with h | h
      · subst h; simp at hj
      · exact h
    have hr : j / cols < rows := Nat.div_lt_of_lt_mul (by rw [Nat.mul_comm]; exact hj)
    have hc : j % cols < cols := Nat.mod_lt _ cpos
    have hdm : j / cols * cols + j % cols = j := Nat.div_add_mod' j cols
    unfold tgt
    rw [← h1, ← h2, Int.toNat_natCast, Int.toNat_natCast, hdm]
    have hcond : 0 ≤ ((j / cols : Nat) : Int) ∧ ((j / cols : Nat) : Int) < (rows : Int) ∧
        0 ≤ ((j % cols : Nat) : Int) ∧ ((j % cols : Nat) : Int) < (cols : Int) :=
      ⟨Int.natCast_nonneg _, by exact_mod_cast hr, Int.natCast_nonneg _, by exact_mod_cast hc⟩
    rw [if_pos hcond]

/-- **adjacency of flat indices in coordinates**: the (row, column) difference is an offset of `neigh` -/
theorem adjIdx_iff {rows cols : Nat} {conn8 : Bool} {i j : Nat} (hj : j < rows * cols) :
    adjIdx rows cols conn8 i j ↔
      (((j / cols : Nat) : Int) - ((i / cols : Nat) : Int), ((j % cols : Nat) : Int) - ((i % cols : Nat) : Int))
        ∈ neigh conn8 := by
  unfold adjIdx
  constructor
  · rintro ⟨d, hd, ht⟩
    obtain ⟨_, h1, h2⟩ := (tgt_eq_some_iff d j).mp ht
    have : (((j / cols : Nat) : Int) - ((i / cols : Nat) : Int),
        ((j % cols : Nat) : Int) - ((i % cols : Nat) : Int)) = d := by
      apply Prod.ext
      · simp only; omega
      · simp only; omega
    rw [this]; exact hd
  · intro h
    refine ⟨_, h, (tgt_eq_some_iff _ j).mpr ⟨hj, ?_, ?_⟩⟩
    · simp only; omega
    · simp only; omega


/-! ## 8-connectivity: the index graph is the pixel graph of the thinning theorems -/

/-- the pixel (row, column) of a flat index -/
def pxOf (cols : Nat) (i : Nat) : Px := (((i / cols : Nat) : Int), ((i % cols : Nat) : Int))
/-- the flat index of a pixel -/
def idxOf (cols : Nat) (p : Px) : Nat := p.1.toNat * cols + p.2.toNat

theorem idxOf_pxOf (cols i : Nat) : idxOf cols (pxOf cols i) = i := by
  unfold idxOf pxOf
  simp only [Int.toNat_natCast]
  exact Nat.div_add_mod' i cols

theorem get_pxOf (b : Bin) {i : Nat} (hi : i < b.rows * b.cols) :
    b.get (pxOf b.cols i).1 (pxOf b.cols i).2 = b.data.getD i false := by
  have cpos : 0 < b.cols := by
    rcases Nat.eq_zero_or_pos b.cols with h | h
    · rw [h] at hi; simp at hi
    · exact h
  have hr : i / b.cols < b.rows := Nat.div_lt_of_lt_mul (by rw [Nat.mul_comm]; exact hi)
  have hc : i % b.cols < b.cols := Nat.mod_lt _ cpos
  unfold Bin.get pxOf
  simp only
  rw [if_pos ⟨Int.natCast_nonneg _, by exact_mod_cast hr, Int.natCast_nonneg _, by exact_mod_cast hc⟩,
    Int.toNat_natCast, Int.toNat_natCast, Nat.div_add_mod']

/-- vertices of the index graph = pixels of `bset b` -/
theorem isV_iff (b : Bin) (i : Nat) :
    IsV b.rows b.cols b.data i ↔ (i < b.rows * b.cols ∧ pxOf b.cols i ∈ bset b) := by
  unfold IsV mk
  constructor
  · rintro ⟨h1, h2⟩
    refine ⟨h1, ?_⟩
    show b.get _ _ = true
    rw [get_pxOf b h1]; exact h2
  · rintro ⟨h1, h2⟩
    refine ⟨h1, ?_⟩
    rw [← get_pxOf b h1]; exact h2

theorem bset_box (b : Bin) {p : Px} (h : p ∈ bset b) :
    0 ≤ p.1 ∧ p.1 < (b.rows : Int) ∧ 0 ≤ p.2 ∧ p.2 < (b.cols : Int) := by
  by_contra hn
  have h' : b.get p.1 p.2 = true := h
  unfold Bin.get at h'
  rw [if_neg hn] at h'
  cases h'

theorem box_idx {rows cols : Nat} {p : Px}
    (h : 0 ≤ p.1 ∧ p.1 < (rows : Int) ∧ 0 ≤ p.2 ∧ p.2 < (cols : Int)) :
    idxOf cols p < rows * cols ∧ pxOf cols (idxOf cols p) = p := by
  obtain ⟨p1, p2⟩ := p
  obtain ⟨h0, h1, h2, h3⟩ := h
  simp only at h0 h1 h2 h3
  obtain ⟨a, ha⟩ : ∃ a : Nat, (a : Int) = p1 := ⟨_, Int.toNat_of_nonneg h0⟩
  obtain ⟨c, hc⟩ : ∃ c : Nat, (c : Int) = p2 := ⟨_, Int.toNat_of_nonneg h2⟩
  subst ha; subst hc
  have cpos : 0 < cols := by omega
  have hcl : c < cols := by omega
  have hal : a + 1 ≤ rows := by omega
  unfold idxOf pxOf
  simp only [Int.toNat_natCast]
  have e1 : (a * cols + c) / cols = a := by
    rw [Nat.mul_comm, Nat.mul_add_div cpos, Nat.div_eq_of_lt hcl, Nat.add_zero]
  have e2 : (a * cols + c) % cols = c := by
    rw [Nat.mul_comm, Nat.mul_add_mod, Nat.mod_eq_of_lt hcl]
  rw [e1, e2]
  refine ⟨?_, rfl⟩
  have := Nat.mul_le_mul_right cols hal
  rw [Nat.succ_mul] at this
  omega

theorem neigh_true_iff (d : Int × Int) :
    d ∈ neigh true ↔ (d ≠ (0, 0) ∧ -1 ≤ d.1 ∧ d.1 ≤ 1 ∧ -1 ≤ d.2 ∧ d.2 ≤ 1) := by
  obtain ⟨d1, d2⟩ := d
  constructor
  · intro h
    simp only [neigh, if_true, List.mem_cons, Prod.mk.injEq, List.mem_nil_iff, or_false] at h
    simp only [ne_eq, Prod.mk.injEq]
    omega
  · rintro ⟨h0, h1, h2, h3, h4⟩
    simp only [ne_eq, Prod.mk.injEq] at h0 h1 h2 h3 h4
    simp only [neigh, if_true, List.mem_cons, Prod.mk.injEq, List.mem_nil_iff, or_false]
    omega

theorem adjIdx_adj8 {rows cols i j : Nat} (hj : j < rows * cols) :
    adjIdx rows cols true i j ↔ adj8 (pxOf cols i) (pxOf cols j) := by
  rw [adjIdx_iff hj, neigh_true_iff, adj8_iff]
  unfold pxOf
  simp only [ne_eq, Prod.mk.injEq]
  omega

/-- **for 8-connectivity, connectivity in the index graph is `Conn (bset b)` of the thinning theorems** -/
theorem IConn_iff_Conn (b : Bin) {i j : Nat} (hi : IsV b.rows b.cols b.data i) :
    IConn b.rows b.cols b.data true i j ↔
      (j < b.rows * b.cols ∧ Conn (bset b) (pxOf b.cols i) (pxOf b.cols j)) := by
  constructor
  · intro h
    refine ⟨(h.isV hi).1, ?_⟩
    induction h with
    | refl => exact Conn.refl _
    | tail _ hbc ih =>
      obtain ⟨hVb, hVc, hadj⟩ := hbc
      exact Relation.ReflTransGen.tail ih
        ⟨((isV_iff b _).mp hVb).2, ((isV_iff b _).mp hVc).2, (adjIdx_adj8 hVc.1).mp hadj⟩
  · rintro ⟨hj, h⟩
    have key : ∀ p q : Px, Conn (bset b) p q → p ∈ bset b →
        IConn b.rows b.cols b.data true (idxOf b.cols p) (idxOf b.cols q) := by
      intro p q hpq hp
      induction hpq with
      | refl => exact Relation.ReflTransGen.refl
      | tail _ hbc ih =>
        obtain ⟨hb', hc', hadj⟩ := hbc
        obtain ⟨l1, e1⟩ := box_idx (bset_box b hb')
        obtain ⟨l2, e2⟩ := box_idx (bset_box b hc')
        refine Relation.ReflTransGen.tail ih ⟨(isV_iff b _).mpr ⟨l1, by rw [e1]; exact hb'⟩,
          (isV_iff b _).mpr ⟨l2, by rw [e2]; exact hc'⟩, (adjIdx_adj8 l2).mpr (by rw [e1, e2]; exact hadj)⟩
    have := key _ _ h ((isV_iff b i).mp hi).2
    rwa [idxOf_pxOf, idxOf_pxOf] at this


/-! ## images with the same components have the same count -/

theorem length_le_of_inj {α β : Type} [DecidableEq β] (R : α → β → Prop) :
    ∀ (la : List α) (lb : List β), la.Nodup → (∀ a ∈ la, ∃ b ∈ lb, R a b) →
      (∀ a ∈ la, ∀ a' ∈ la, ∀ b ∈ lb, R a b → R a' b → a = a') → la.length ≤ lb.length := by
  intro la
  induction la with
  | nil => intro lb _ _ _; simp
  | cons a la ih =>
    intro lb hnd h1 h3
    rw [List.nodup_cons] at hnd
    obtain ⟨b, hb, hab⟩ := h1 a List.mem_cons_self
    have := ih (lb.erase b) hnd.2 (by
      intro a' ha'
      obtain ⟨b', hb', hab'⟩ := h1 a' (List.mem_cons_of_mem _ ha')
      refine ⟨b', ?_, hab'⟩
      have hne : b' ≠ b := by
        intro e
        subst e
        have := h3 a List.mem_cons_self a' (List.mem_cons_of_mem _ ha') b' hb hab hab'
        exact hnd.1 (this ▸ ha')
      exact (List.mem_erase_of_ne hne).mpr hb') (by
      intro x hx x' hx' y hy
      exact h3 x (List.mem_cons_of_mem _ hx) x' (List.mem_cons_of_mem _ hx') y (List.mem_of_mem_erase hy))
    rw [List.length_erase_of_mem hb] at this
    have : 0 < lb.length := List.length_pos_of_mem hb
    simp only [List.length_cons]
    omega

/-- a system of distinct representatives of the classes of `Conn A`, as flat indices read through `px` -/
def IsSDR (A : Set Px) (px : Nat → Px) (l : List Nat) : Prop :=
  l.Nodup ∧ (∀ s ∈ l, px s ∈ A) ∧ ∀ p ∈ A, ∃! s, s ∈ l ∧ Conn A (px s) p

theorem sdr_length_eq {A B : Set Px} (h : SameComps A B) {pa pb : Nat → Px} {la lb : List Nat}
    (ha : IsSDR A pa la) (hb : IsSDR B pb lb) : la.length = lb.length := by
  obtain ⟨hBA, hiff, hnear⟩ := h
  obtain ⟨nda, ma, ua⟩ := ha
  obtain ⟨ndb, mb, ub⟩ := hb
  have hR1 : ∀ a ∈ la, ∃ b ∈ lb, Conn A (pa a) (pb b) := by
    intro a haa
    obtain ⟨y, hy, hc⟩ := hnear _ (ma a haa)
    obtain ⟨b, ⟨hb1, hb2⟩, _⟩ := ub y hy
    exact ⟨b, hb1, hc.trans (Conn.mono hBA hb2).symm⟩
  have hR2 : ∀ b ∈ lb, ∃ a ∈ la, Conn A (pa a) (pb b) := by
    intro b hbb
    obtain ⟨a, ⟨ha1, ha2⟩, _⟩ := ua _ (hBA (mb b hbb))
    exact ⟨a, ha1, ha2⟩
  have hR3 : ∀ a ∈ la, ∀ a' ∈ la, ∀ b ∈ lb, Conn A (pa a) (pb b) → Conn A (pa a') (pb b) → a = a' := by
    intro a h1 a' h2 b h3 c1 c2
    exact (ua _ (hBA (mb b h3))).unique ⟨h1, c1⟩ ⟨h2, c2⟩
  have hR4 : ∀ b ∈ lb, ∀ b' ∈ lb, ∀ a ∈ la, Conn A (pa a) (pb b) → Conn A (pa a) (pb b') → b = b' := by
    intro b h1 b' h2 a h3 c1 c2
    have cA : Conn A (pb b) (pb b') := c1.symm.trans c2
    have cB : Conn B (pb b) (pb b') := (hiff _ (mb b h1) _ (mb b' h2)).mp cA
    exact (ub _ (mb b' h2)).unique ⟨h1, cB⟩ ⟨h2, Conn.refl _⟩
  apply Nat.le_antisymm
  · exact length_le_of_inj (fun a b => Conn A (pa a) (pb b)) la lb nda hR1 hR3
  · exact length_le_of_inj (fun b a => Conn A (pa a) (pb b)) lb la ndb hR2 hR4

end Mahotas.C15
