/-
C15 — convex hull model, one monotone-chain scan (`inPlaceScan`): for distinct input points the
prefix it returns is a strictly monotone, strictly convex chain from the first to the last sorted
point, and every input point lies on or to the right of every chain edge.
-/
import Mahotas.Model.C15
import Mahotas.Proofs.C15Hull
import Mathlib.Data.List.Perm.Basic
import Mathlib.Data.List.Nodup
import Mathlib.Tactic.Linarith
import Mathlib.Tactic.Ring
namespace Mahotas.C15
open Mahotas

/-! ## the lexicographic order and the half-plane lemma -/

/-- strict lexicographic order on `(p.1, p.2)` -/
def lexLt (a b : Pt) : Prop := a.1 < b.1 ∨ (a.1 = b.1 ∧ a.2 < b.2)

/-- the strict order of the scan: lexicographic, reversed for the second scan -/
def ltR (rev : Bool) (a b : Pt) : Prop := if rev then lexLt b a else lexLt a b

theorem ltR_irrefl (rev : Bool) (a : Pt) : ¬ ltR rev a a := by
  cases rev <;> simp [ltR, lexLt]

theorem ltR_asymm (rev : Bool) {a b : Pt} (h : ltR rev a b) : ¬ ltR rev b a := by
  cases rev <;> simp only [ltR, lexLt, if_true, if_false, Bool.false_eq_true] at h ⊢ <;> omega

theorem ltR_trans (rev : Bool) {a b c : Pt} (h1 : ltR rev a b) (h2 : ltR rev b c) : ltR rev a c := by
  cases rev <;> simp only [ltR, lexLt, if_true, if_false, Bool.false_eq_true] at h1 h2 ⊢ <;> omega

theorem ltR_total (rev : Bool) (a b : Pt) : a = b ∨ ltR rev a b ∨ ltR rev b a := by
  by_cases e : a = b
  · exact Or.inl e
  · right
    have : a.1 ≠ b.1 ∨ a.2 ≠ b.2 := by
      by_contra hc
      exact e (Prod.ext (by omega) (by omega))
    cases rev <;> simp only [ltR, lexLt, if_true, if_false, Bool.false_eq_true] <;> omega

/-- three vectors of the (lexicographically) positive half-plane: if `u` is clockwise of `v` and
    `w` counter-clockwise of `v` (both weakly) then `u` is weakly clockwise of `w` -/
theorem halfplane_trans (u1 u2 v1 v2 w1 w2 : ℤ)
    (hu : 0 < u1 ∨ (u1 = 0 ∧ 0 < u2)) (hv : 0 < v1 ∨ (v1 = 0 ∧ 0 < v2))
    (hw : 0 < w1 ∨ (w1 = 0 ∧ 0 < w2))
    (h1 : v1 * u2 - v2 * u1 ≤ 0) (h2 : 0 ≤ v1 * w2 - v2 * w1) : w1 * u2 - w2 * u1 ≤ 0 := by
  have hu1 : 0 ≤ u1 := by omega
  have hw1 : 0 ≤ w1 := by omega
  rcases hv with hv | ⟨hv, hv2⟩
  · have id : (w1 * u2 - w2 * u1) * v1 = (v1 * u2 - v2 * u1) * w1 - (v1 * w2 - v2 * w1) * u1 := by
      ring
    have r1 : (v1 * u2 - v2 * u1) * w1 ≤ 0 := mul_nonpos_of_nonpos_of_nonneg h1 hw1
    have r2 : 0 ≤ (v1 * w2 - v2 * w1) * u1 := mul_nonneg h2 hu1
    by_contra hc
    have : 0 < (w1 * u2 - w2 * u1) * v1 := mul_pos (by omega) hv
    omega
  · subst hv
    have hw0 : w1 = 0 := by
      by_contra hc
      have : 0 < v2 * w1 := mul_pos hv2 (by omega)
      omega
    subst hw0
    have : 0 < w2 := by omega
    have : 0 ≤ w2 * u1 := mul_nonneg (by omega) hu1
    omega

/-! ## three orientation lemmas for points in scan order -/

/-- `b` is about to be popped (`p` is weakly left of `a → b`): whatever lies weakly right of
    `a → b` and after `a` lies weakly right of `a → p` -/
theorem turn_pop (rev : Bool) {a b p q : Pt} (hab : ltR rev a b) (hap : ltR rev a p)
    (haq : ltR rev a q) (h1 : 0 ≤ isLeft a b p) (h2 : isLeft a b q ≤ 0) : isLeft a p q ≤ 0 := by
  unfold isLeft at *
  cases rev
  · simp only [ltR, lexLt, if_false, Bool.false_eq_true] at hab hap haq
    have := halfplane_trans (q.1 - a.1) (q.2 - a.2) (b.1 - a.1) (b.2 - a.2) (p.1 - a.1) (p.2 - a.2)
      (by omega) (by omega) (by omega) (by linarith) (by linarith)
    linarith
  · simp only [ltR, lexLt, if_true] at hab hap haq
    have := halfplane_trans (a.1 - q.1) (a.2 - q.2) (a.1 - b.1) (a.2 - b.2) (a.1 - p.1) (a.2 - p.2)
      (by omega) (by omega) (by omega) (by linarith) (by linarith)
    linarith

/-- a right turn at `a` (from `a' → a` to `a → p`): whatever lies weakly right of `a' → a` and
    before `a` lies weakly right of `a → p` -/
theorem turn_back (rev : Bool) {a' a p q : Pt} (h1 : ltR rev a' a) (h2 : ltR rev a p)
    (h3 : ltR rev q a) (t1 : isLeft a' a p ≤ 0) (t2 : isLeft a' a q ≤ 0) : isLeft a p q ≤ 0 := by
  unfold isLeft at *
  cases rev
  · simp only [ltR, lexLt, if_false, Bool.false_eq_true] at h1 h2 h3
    have := halfplane_trans (p.1 - a.1) (p.2 - a.2) (a.1 - a'.1) (a.2 - a'.2) (a.1 - q.1) (a.2 - q.2)
      (by omega) (by omega) (by omega) (by linarith) (by linarith)
    linarith
  · simp only [ltR, lexLt, if_true] at h1 h2 h3
    have := halfplane_trans (a.1 - p.1) (a.2 - p.2) (a'.1 - a.1) (a'.2 - a.2) (q.1 - a.1) (q.2 - a.2)
      (by omega) (by omega) (by omega) (by linarith) (by linarith)
    linarith

/-- two consecutive weak right turns `a b c`, `b c p` in scan order: `p` is weakly right of `a → b` -/
theorem turn_chain (rev : Bool) {a b c p : Pt} (h1 : ltR rev a b) (h2 : ltR rev b c)
    (h3 : ltR rev c p) (t1 : isLeft a b c ≤ 0) (t2 : isLeft b c p ≤ 0) : isLeft a b p ≤ 0 := by
  unfold isLeft at *
  cases rev
  · simp only [ltR, lexLt, if_false, Bool.false_eq_true] at h1 h2 h3
    have := halfplane_trans (p.1 - c.1) (p.2 - c.2) (c.1 - b.1) (c.2 - b.2) (b.1 - a.1) (b.2 - a.2)
      (by omega) (by omega) (by omega) (by linarith) (by linarith)
    linarith
  · simp only [ltR, lexLt, if_true] at h1 h2 h3
    have := halfplane_trans (c.1 - p.1) (c.2 - p.2) (b.1 - c.1) (b.2 - c.2) (a.1 - b.1) (a.2 - b.2)
      (by omega) (by omega) (by omega) (by linarith) (by linarith)
    linarith

theorem isLeft_self_right (a p : Pt) : isLeft a p p = 0 := by unfold isLeft; ring
theorem isLeft_self_left (a p : Pt) : isLeft a p a = 0 := by unfold isLeft; ring

/-! ## reading the array, `popWhile` -/

/-- `P[k]` as the model reads it -/
def rd (A : Array Pt) (k : Nat) : Pt := A.getD k (0, 0)

theorem size_swapIfInBounds (A : Array Pt) (m i : Nat) : (A.swapIfInBounds m i).size = A.size := by
  unfold Array.swapIfInBounds
  split
  · split
    · exact Array.size_swap
    · rfl
  · rfl

theorem rd_swapIfInBounds (A : Array Pt) {m i : Nat} (hm : m < A.size) (hi : i < A.size) (k : Nat) :
    rd (A.swapIfInBounds m i) k = if k = m then rd A i else if k = i then rd A m else rd A k := by
  unfold Array.swapIfInBounds
  rw [dif_pos hm, dif_pos hi]
  unfold rd
  simp only [Array.getD_eq_getD_getElem?, Array.getElem?_swap]
  by_cases h1 : k = m
  · subst h1
    by_cases h2 : i = k
    · subst h2; simp [hi]
    · simp [h2, hi]
  · by_cases h2 : k = i
    · subst h2; simp [h1, hm]
    · have h1' : ¬ m = k := fun e => h1 e.symm
      have h2' : ¬ i = k := fun e => h2 e.symm
      simp [h1, h2, h1', h2']

theorem popWhile_zero (A : Array Pt) (p : Pt) : popWhile A p 0 = 0 := by simp [popWhile]
theorem popWhile_one (A : Array Pt) (p : Pt) : popWhile A p 1 = 1 := by simp [popWhile]
theorem popWhile_succ_succ (A : Array Pt) (p : Pt) (n : Nat) : popWhile A p (n + 2) =
    if 0 ≤ isLeft (rd A n) (rd A (n + 1)) p then popWhile A p (n + 1) else n + 2 := by
  simp [popWhile, rd]

/-- `popWhile` only lowers the height, never below 1; the surviving top edge makes a strict right
    turn with `p`, and the last popped edge did not -/
theorem popWhile_spec (A : Array Pt) (p : Pt) (h : Nat) :
    popWhile A p h ≤ h ∧ (1 ≤ h → 1 ≤ popWhile A p h) ∧
      (2 ≤ popWhile A p h →
        isLeft (rd A (popWhile A p h - 2)) (rd A (popWhile A p h - 1)) p < 0) ∧
      (popWhile A p h < h →
        0 ≤ isLeft (rd A (popWhile A p h - 1)) (rd A (popWhile A p h)) p) := by
  induction h with
  | zero => rw [popWhile_zero]; simp
  | succ n ih =>
    cases n with
    | zero => rw [popWhile_one]; simp
    | succ n =>
      rw [popWhile_succ_succ]
      by_cases hc : 0 ≤ isLeft (rd A n) (rd A (n + 1)) p
      · rw [if_pos hc]
        obtain ⟨i1, i2, i3, i4⟩ := ih
        refine ⟨by omega, fun _ => i2 (by omega), i3, fun _ => ?_⟩
        by_cases hlt : popWhile A p (n + 1) < n + 1
        · exact i4 hlt
        · have e : popWhile A p (n + 1) = n + 1 := by omega
          rw [e, Nat.add_sub_cancel]; exact hc
      · rw [if_neg hc]
        refine ⟨Nat.le_refl _, fun _ => by omega, fun _ => ?_, fun h => by omega⟩
        have e1 : n + 2 - 2 = n := by omega
        have e2 : n + 2 - 1 = n + 1 := by omega
        rw [e1, e2]
        exact not_le.1 hc

/-! ## the invariant of the scan loop -/

/-- state of `for (i = 1; …)` before iteration `i`: `S` is the sorted array, `A` the current array,
    `h` the height of the stack kept in `A[0..h)` -/
structure ScanInv (rev : Bool) (S : Array Pt) (i : Nat) (A : Array Pt) (h : Nat) : Prop where
  size : A.size = S.size
  h1 : 1 ≤ h
  hi : h ≤ i
  rest : ∀ j, i ≤ j → rd A j = rd S j
  bot : rd A 0 = rd S 0
  top : rd A (h - 1) = rd S (i - 1)
  mem : ∀ k, k < h → ∃ j, j < i ∧ rd A k = rd S j
  mono : ∀ k, k + 1 < h → ltR rev (rd A k) (rd A (k + 1))
  conv : ∀ k, k + 2 < h → isLeft (rd A k) (rd A (k + 1)) (rd A (k + 2)) < 0
  under : ∀ k, k + 1 < h → ∀ j, j < i → isLeft (rd A k) (rd A (k + 1)) (rd S j) ≤ 0

theorem scan_step (rev : Bool) (S A : Array Pt) (i h : Nat)
    (hS : ∀ j1 j2, j1 < j2 → j2 < S.size → ltR rev (rd S j1) (rd S j2))
    (inv : ScanInv rev S i A h) (hi1 : 1 ≤ i) (hiN : i < S.size) :
    ScanInv rev S (i + 1) (A.swapIfInBounds (popWhile A (rd A i) h) i)
      (popWhile A (rd A i) h + 1) := by
  obtain ⟨hsize, hh1, hhi, hrest, hbot, htop, hmem, hmono, hconv, hunder⟩ := inv
  have hpS : rd A i = rd S i := hrest i (Nat.le_refl i)
  generalize hp : rd A i = p at hpS ⊢
  obtain ⟨m_le, m_ge, m_turn, m_pop⟩ := popWhile_spec A p h
  generalize hm : popWhile A p h = m at m_le m_ge m_turn m_pop ⊢
  have hm1 : 1 ≤ m := m_ge hh1
  have hmA : m < A.size := by omega
  have hiA : i < A.size := by omega
  have rdA' : ∀ k, rd (A.swapIfInBounds m i) k =
      if k = m then p else if k = i then rd A m else rd A k := by
    intro k; rw [rd_swapIfInBounds A hmA hiA k, hp]
  have low : ∀ k, k < m → rd (A.swapIfInBounds m i) k = rd A k := by
    intro k hk; rw [rdA', if_neg (by omega), if_neg (by omega)]
  have topA' : rd (A.swapIfInBounds m i) m = p := by rw [rdA', if_pos rfl]
  have lt_p : ∀ j, j < i → ltR rev (rd S j) p := fun j hj => hpS ▸ hS j i hj hiN
  have mem_lt_p : ∀ k, k < h → ltR rev (rd A k) p := by
    intro k hk
    obtain ⟨j, hj, e⟩ := hmem k hk
    rw [e]; exact lt_p j hj
  have old_p : ∀ d k, k + 2 + d = m → isLeft (rd A k) (rd A (k + 1)) p ≤ 0 := by
    intro d
    induction d with
    | zero =>
      intro k hk
      have := m_turn (by omega)
      have e1 : m - 2 = k := by omega
      have e2 : m - 1 = k + 1 := by omega
      rw [e1, e2] at this
      exact le_of_lt this
    | succ d ih =>
      intro k hk
      have := ih (k + 1) (by omega)
      exact turn_chain rev (hmono k (by omega)) (hmono (k + 1) (by omega))
        (mem_lt_p (k + 2) (by omega)) (le_of_lt (hconv k (by omega))) this
  refine ⟨?_, by omega, by omega, ?_, ?_, ?_, ?_, ?_, ?_, ?_⟩
  · rw [size_swapIfInBounds]; exact hsize
  · intro j hj
    rw [rdA', if_neg (by omega), if_neg (by omega)]
    exact hrest j (by omega)
  · rw [low 0 (by omega)]; exact hbot
  · rw [Nat.add_sub_cancel, Nat.add_sub_cancel, topA', hpS]
  · intro k hk
    by_cases e : k = m
    · subst e; exact ⟨i, by omega, topA'.trans hpS⟩
    · rw [low k (by omega)]
      obtain ⟨j, hj, e⟩ := hmem k (by omega)
      exact ⟨j, by omega, e⟩
  · intro k hk
    by_cases e : k + 1 = m
    · have e' : rd (A.swapIfInBounds m i) (k + 1) = p := by rw [e]; exact topA'
      rw [low k (by omega), e']
      exact mem_lt_p k (by omega)
    · rw [low k (by omega), low (k + 1) (by omega)]
      exact hmono k (by omega)
  · intro k hk
    by_cases e : k + 2 = m
    · have e' : rd (A.swapIfInBounds m i) (k + 2) = p := by rw [e]; exact topA'
      rw [low k (by omega), low (k + 1) (by omega), e']
      have := m_turn (by omega)
      have e1 : m - 2 = k := by omega
      have e2 : m - 1 = k + 1 := by omega
      rw [e1, e2] at this
      exact this
    · rw [low k (by omega), low (k + 1) (by omega), low (k + 2) (by omega)]
      exact hconv k (by omega)
  · intro k hk j hj
    by_cases e : k + 1 = m
    · -- the new edge `A[m-1] → p`
      have e' : rd (A.swapIfInBounds m i) (k + 1) = p := by rw [e]; exact topA'
      rw [low k (by omega), e']
      by_cases ej : j = i
      · subst ej; rw [← hpS]; exact le_of_eq (isLeft_self_right _ _)
      · have hj' : j < i := by omega
        rcases ltR_total rev (rd A k) (rd S j) with heq | hlt | hgt
        · rw [← heq]; exact le_of_eq (isLeft_self_left _ _)
        · -- `q` after the new top: something was popped
          have hmh : m < h := by
            by_contra hc
            have ek : k = h - 1 := by omega
            have ea : rd A k = rd S (i - 1) := by rw [ek]; exact htop
            by_cases ej2 : j = i - 1
            · rw [ea, ej2] at hlt; exact ltR_irrefl rev _ hlt
            · have := hS j (i - 1) (by omega) (by omega)
              rw [← ea] at this
              exact ltR_asymm rev hlt this
          have hp0 := m_pop hmh
          have e1 : m - 1 = k := by omega
          rw [e1, ← e] at hp0
          exact turn_pop rev (hmono k (by omega)) (mem_lt_p k (by omega)) hlt hp0
            (hunder k (by omega) j hj')
        · -- `q` before the new top: there is an edge below it
          have hk1 : 1 ≤ k := by
            by_contra hc
            have ek : k = 0 := by omega
            rw [ek, hbot] at hgt
            by_cases ej0 : j = 0
            · rw [ej0] at hgt; exact ltR_irrefl rev _ hgt
            · exact ltR_asymm rev hgt (hS 0 j (by omega) (by omega))
          obtain ⟨k', rfl⟩ : ∃ k', k = k' + 1 := ⟨k - 1, by omega⟩
          have ht := m_turn (by omega)
          have e1 : m - 2 = k' := by omega
          have e2 : m - 1 = k' + 1 := by omega
          rw [e1, e2] at ht
          exact turn_back rev (hmono k' (by omega)) (mem_lt_p (k' + 1) (by omega)) hgt
            (le_of_lt ht) (hunder k' (by omega) j hj')
    · rw [low k (by omega), low (k + 1) (by omega)]
      by_cases ej : j = i
      · subst ej; rw [← hpS]; exact old_p (m - (k + 2)) k (by omega)
      · exact hunder k (by omega) j (by omega)


/-! ## the whole loop -/

theorem scan_fold (rev : Bool) (S : Array Pt)
    (hS : ∀ j1 j2, j1 < j2 → j2 < S.size → ltR rev (rd S j1) (rd S j2)) (k : Nat) :
    ∀ (i : Nat) (A : Array Pt) (h : Nat), 1 ≤ i → i + k = S.size → ScanInv rev S i A h →
      ScanInv rev S S.size
        ((List.range' i k).foldl (fun (acc : Array Pt × Nat) j =>
          let h := popWhile acc.1 (acc.1.getD j (0, 0)) acc.2
          (acc.1.swapIfInBounds h j, h + 1)) (A, h)).1
        ((List.range' i k).foldl (fun (acc : Array Pt × Nat) j =>
          let h := popWhile acc.1 (acc.1.getD j (0, 0)) acc.2
          (acc.1.swapIfInBounds h j, h + 1)) (A, h)).2 := by
  induction k with
  | zero =>
    intro i A h _ hik inv
    have : i = S.size := by omega
    subst this
    exact inv
  | succ k ih =>
    intro i A h hi1 hik inv
    rw [List.range'_succ, List.foldl_cons]
    exact ih (i + 1) _ _ (by omega) (by omega) (scan_step rev S A i h hS inv hi1 (by omega))

/-- the comparison handed to `mergeSort` -/
def scanLe (rev : Bool) (a b : Pt) : Bool :=
  a == b || (if rev then reverseCmp a b else forwardCmp a b)

/-- the sorted array of `inPlaceScan` -/
def sortedOf (P : Array Pt) (rev : Bool) : Array Pt := (P.toList.mergeSort (scanLe rev)).toArray

theorem inPlaceScan_eq (P : Array Pt) (rev : Bool) : inPlaceScan P rev =
    (List.range' 1 ((sortedOf P rev).size - 1)).foldl (fun (acc : Array Pt × Nat) j =>
      let h := popWhile acc.1 (acc.1.getD j (0, 0)) acc.2
      (acc.1.swapIfInBounds h j, h + 1)) (sortedOf P rev, 1) := rfl

theorem scanLe_iff (rev : Bool) (a b : Pt) : scanLe rev a b = true ↔ a = b ∨ ltR rev a b := by
  obtain ⟨a1, a2⟩ := a
  obtain ⟨b1, b2⟩ := b
  cases rev
  · simp only [scanLe, forwardCmp, ltR, lexLt, Bool.or_eq_true, beq_iff_eq, Bool.false_eq_true, if_false]
    by_cases e : a1 = b1
    · simp [e]
    · simp [e]
  · simp only [scanLe, reverseCmp, ltR, lexLt, Bool.or_eq_true, beq_iff_eq, if_true]
    by_cases e : a1 = b1
    · simp [e]
    · simp [e]; omega

theorem sortedOf_perm (P : Array Pt) (rev : Bool) : (sortedOf P rev).toList.Perm P.toList := by
  unfold sortedOf
  exact List.mergeSort_perm _ _

theorem sortedOf_size (P : Array Pt) (rev : Bool) : (sortedOf P rev).size = P.size := by
  have := (sortedOf_perm P rev).length_eq
  simpa using this

theorem rd_of_lt (A : Array Pt) {j : Nat} (h : j < A.size) : rd A j = A.toList[j]'(by simpa using h) := by
  unfold rd
  simp [Array.getD_eq_getD_getElem?, h]

/-- distinct points: the sorted array is strictly increasing in the scan order -/
theorem sortedOf_strict (P : Array Pt) (rev : Bool) (hnd : P.toList.Nodup) :
    ∀ j1 j2, j1 < j2 → j2 < (sortedOf P rev).size →
      ltR rev (rd (sortedOf P rev) j1) (rd (sortedOf P rev) j2) := by
  have hpw : (P.toList.mergeSort (scanLe rev)).Pairwise (fun a b => scanLe rev a b = true) := by
    apply List.pairwise_mergeSort
    · intro a b c h1 h2
      rw [scanLe_iff] at h1 h2 ⊢
      rcases h1 with rfl | h1
      · exact h2
      · rcases h2 with rfl | h2
        · exact Or.inr h1
        · exact Or.inr (ltR_trans rev h1 h2)
    · intro a b
      rw [Bool.or_eq_true, scanLe_iff, scanLe_iff]
      rcases ltR_total rev a b with h | h | h
      · exact Or.inl (Or.inl h)
      · exact Or.inl (Or.inr h)
      · exact Or.inr (Or.inr h)
  have hnd' : (P.toList.mergeSort (scanLe rev)).Nodup :=
    (List.mergeSort_perm _ _).nodup_iff.2 hnd
  have hlt : (P.toList.mergeSort (scanLe rev)).Pairwise (ltR rev) := by
    refine (hpw.and hnd').imp ?_
    rintro a b ⟨h1, h2⟩
    rcases (scanLe_iff rev a b).1 h1 with h | h
    · exact absurd h h2
    · exact h
  intro j1 j2 h12 h2
  rw [rd_of_lt _ (by omega), rd_of_lt _ h2]
  have := List.pairwise_iff_getElem.1 hlt j1 j2 (by simpa [sortedOf] using (show j1 < (sortedOf P rev).size by omega))
    (by simpa [sortedOf] using h2) h12
  simpa [sortedOf] using this

theorem scanInv_init (rev : Bool) (S : Array Pt) : ScanInv rev S 1 S 1 := by
  refine ⟨rfl, Nat.le_refl 1, Nat.le_refl 1, fun _ _ => rfl, rfl, rfl, ?_, ?_, ?_, ?_⟩
  · intro k hk
    have : k = 0 := by omega
    subst this
    exact ⟨0, by omega, rfl⟩
  · intro k hk; omega
  · intro k hk; omega
  · intro k hk; omega

/-- **the invariant holds at the end of `inPlaceScan`** (all `N` sorted points processed) -/
theorem inPlaceScan_inv (P : Array Pt) (rev : Bool) (hnd : P.toList.Nodup) (hN : 1 ≤ P.size) :
    ScanInv rev (sortedOf P rev) P.size (inPlaceScan P rev).1 (inPlaceScan P rev).2 := by
  have hsz := sortedOf_size P rev
  have hS := sortedOf_strict P rev hnd
  rw [inPlaceScan_eq, show P.size = (sortedOf P rev).size from hsz.symm]
  exact scan_fold rev (sortedOf P rev) hS ((sortedOf P rev).size - 1) 1 (sortedOf P rev) 1
    (Nat.le_refl 1) (by omega) (scanInv_init rev _)

/-! ## the statements about one scan, spelled out -/

theorem mem_iff_rd (A : Array Pt) (p : Pt) : p ∈ A.toList ↔ ∃ j, j < A.size ∧ rd A j = p := by
  rw [List.mem_iff_getElem]
  constructor
  · rintro ⟨j, hj, e⟩
    have hj' : j < A.size := by simpa using hj
    exact ⟨j, hj', by rw [rd_of_lt A hj']; exact e⟩
  · rintro ⟨j, hj, e⟩
    exact ⟨j, by simpa using hj, by rw [← rd_of_lt A hj]; exact e⟩

theorem mem_sortedOf (P : Array Pt) (rev : Bool) (p : Pt) :
    p ∈ P.toList ↔ ∃ j, j < P.size ∧ rd (sortedOf P rev) j = p := by
  rw [← (sortedOf_perm P rev).mem_iff, mem_iff_rd, sortedOf_size]

/-- the first sorted point precedes every other input point -/
theorem sortedOf_first (P : Array Pt) (rev : Bool) (hnd : P.toList.Nodup) (p : Pt)
    (hp : p ∈ P.toList) : p = rd (sortedOf P rev) 0 ∨ ltR rev (rd (sortedOf P rev) 0) p := by
  obtain ⟨j, hj, rfl⟩ := (mem_sortedOf P rev p).1 hp
  by_cases e : j = 0
  · left; rw [e]
  · right; exact sortedOf_strict P rev hnd 0 j (by omega) (by rw [sortedOf_size]; exact hj)

/-- the last sorted point follows every other input point -/
theorem sortedOf_last (P : Array Pt) (rev : Bool) (hnd : P.toList.Nodup) (p : Pt)
    (hp : p ∈ P.toList) :
    p = rd (sortedOf P rev) (P.size - 1) ∨ ltR rev p (rd (sortedOf P rev) (P.size - 1)) := by
  obtain ⟨j, hj, rfl⟩ := (mem_sortedOf P rev p).1 hp
  by_cases e : j = P.size - 1
  · left; rw [e]
  · right
    exact sortedOf_strict P rev hnd j (P.size - 1) (by omega) (by rw [sortedOf_size]; omega)

/-- **(a) the chain of one scan**: height between 1 and `N`; the prefix starts at the first and ends
    at the last sorted point, is strictly monotone in the scan order, consists of input points, and
    every three consecutive entries make a strict right turn -/
theorem inPlaceScan_chain (P : Array Pt) (rev : Bool) (hnd : P.toList.Nodup) (hN : 1 ≤ P.size) :
    1 ≤ (inPlaceScan P rev).2 ∧ (inPlaceScan P rev).2 ≤ P.size ∧
    (inPlaceScan P rev).1.size = P.size ∧
    rd (inPlaceScan P rev).1 0 = rd (sortedOf P rev) 0 ∧
    rd (inPlaceScan P rev).1 ((inPlaceScan P rev).2 - 1) = rd (sortedOf P rev) (P.size - 1) ∧
    (∀ k, k < (inPlaceScan P rev).2 → rd (inPlaceScan P rev).1 k ∈ P.toList) ∧
    (∀ k, k + 1 < (inPlaceScan P rev).2 →
      ltR rev (rd (inPlaceScan P rev).1 k) (rd (inPlaceScan P rev).1 (k + 1))) ∧
    (∀ k, k + 2 < (inPlaceScan P rev).2 →
      isLeft (rd (inPlaceScan P rev).1 k) (rd (inPlaceScan P rev).1 (k + 1))
        (rd (inPlaceScan P rev).1 (k + 2)) < 0) := by
  have inv := inPlaceScan_inv P rev hnd hN
  refine ⟨inv.h1, inv.hi, inv.size.trans (sortedOf_size P rev), inv.bot, inv.top, ?_, inv.mono,
    inv.conv⟩
  intro k hk
  obtain ⟨j, hj, e⟩ := inv.mem k hk
  rw [e]
  exact (mem_sortedOf P rev _).2 ⟨j, hj, rfl⟩

/-- **(b) containment for one scan**: every input point lies on or to the right of every edge of
    the chain -/
theorem inPlaceScan_under (P : Array Pt) (rev : Bool) (hnd : P.toList.Nodup) (hN : 1 ≤ P.size)
    (k : Nat) (hk : k + 1 < (inPlaceScan P rev).2) (p : Pt) (hp : p ∈ P.toList) :
    isLeft (rd (inPlaceScan P rev).1 k) (rd (inPlaceScan P rev).1 (k + 1)) p ≤ 0 := by
  have inv := inPlaceScan_inv P rev hnd hN
  obtain ⟨j, hj, rfl⟩ := (mem_sortedOf P rev p).1 hp
  exact inv.under k hk j hj

/-! ## the vertices of one chain lie to the right of every backward edge whose right side contains
    the two chain ends (used for the edges of the other chain) -/

/-- along a strict right turn `c0 c1 c2` (in scan order) the height `isLeft a b ·` over a backward
    edge `a → b` has no weak local maximum at `c1` -/
theorem no_local_max (rev : Bool) {c0 c1 c2 a b : Pt} (h1 : ltR rev c0 c1) (h2 : ltR rev c1 c2)
    (ht : isLeft c0 c1 c2 < 0) (hab : ltR rev b a) :
    ¬ (isLeft a b c0 ≤ isLeft a b c1 ∧ isLeft a b c2 ≤ isLeft a b c1) := by
  rintro ⟨m1, m2⟩
  unfold isLeft at *
  cases rev
  · simp only [ltR, lexLt, if_false, Bool.false_eq_true] at h1 h2 hab
    have := halfplane_trans (c1.1 - c0.1) (c1.2 - c0.2) (a.1 - b.1) (a.2 - b.2) (c2.1 - c1.1) (c2.2 - c1.2)
      (by omega) (by omega) (by omega) (by linarith) (by linarith)
    linarith
  · simp only [ltR, lexLt, if_true] at h1 h2 hab
    have := halfplane_trans (c0.1 - c1.1) (c0.2 - c1.2) (b.1 - a.1) (b.2 - a.2) (c1.1 - c2.1) (c1.2 - c2.2)
      (by omega) (by omega) (by omega) (by linarith) (by linarith)
    linarith

/-- a finite integer sequence without interior weak local maximum is bounded by its two ends -/
theorem valley (x : Nat → ℤ) (m : Nat)
    (hloc : ∀ i, 1 ≤ i → i < m → ¬ (x (i - 1) ≤ x i ∧ x (i + 1) ≤ x i)) :
    ∀ i, i ≤ m → x i ≤ x 0 ∨ x i ≤ x m := by
  have up : ∀ i, 1 ≤ i → x (i - 1) ≤ x i → ∀ d, i + d ≤ m → x (i + d - 1) ≤ x (i + d) ∧ x i ≤ x (i + d) := by
    intro i hi hx d
    induction d with
    | zero => intro _; exact ⟨hx, le_refl _⟩
    | succ d ih =>
      intro hd
      obtain ⟨i1, i2⟩ := ih (by omega)
      have := hloc (i + d) (by omega) (by omega)
      have hlt : x (i + d) < x (i + d + 1) := by
        by_contra hc
        exact this ⟨i1, not_lt.1 hc⟩
      have e : i + (d + 1) - 1 = i + d := by omega
      rw [e, ← Nat.add_assoc]
      exact ⟨le_of_lt hlt, by omega⟩
  have main : ∀ i, i ≤ m → x i ≤ x 0 ∨ (1 ≤ i ∧ x (i - 1) ≤ x i) := by
    intro i
    induction i with
    | zero => intro _; exact Or.inl (le_refl _)
    | succ i ih =>
      intro hi
      by_cases hc : x i ≤ x (i + 1)
      · exact Or.inr ⟨by omega, by rw [Nat.add_sub_cancel]; exact hc⟩
      · rcases ih (by omega) with h | ⟨h1, h2⟩
        · exact Or.inl (by omega)
        · exact absurd ⟨h2, by omega⟩ (hloc i h1 (by omega))
  intro i hi
  rcases main i hi with h | ⟨h1, h2⟩
  · exact Or.inl h
  · have := (up i h1 h2 (m - i) (by omega)).2
    have e : i + (m - i) = m := by omega
    rw [e] at this
    exact Or.inr this

/-- all vertices of the chain lie on or to the right of a backward edge `a → b` as soon as the two
    ends of the chain do -/
theorem chain_right_of_backward_edge (rev : Bool) (S : Array Pt) (N : Nat) (A : Array Pt) (h : Nat)
    (inv : ScanInv rev S N A h) {a b : Pt} (hab : ltR rev b a)
    (h0 : isLeft a b (rd A 0) ≤ 0) (hl : isLeft a b (rd A (h - 1)) ≤ 0) :
    ∀ k, k < h → isLeft a b (rd A k) ≤ 0 := by
  intro k hk
  have hv := valley (fun i => isLeft a b (rd A i)) (h - 1) (by
    intro i hi1 hi2
    obtain ⟨i', rfl⟩ : ∃ i', i = i' + 1 := ⟨i - 1, by omega⟩
    simp only [Nat.add_sub_cancel]
    exact no_local_max rev (inv.mono i' (by omega)) (inv.mono (i' + 1) (by omega))
      (inv.conv i' (by omega)) hab) k (by omega)
  rcases hv with h | h
  · exact le_trans h h0
  · exact le_trans h hl

/-- **the two chains together**: if the second (reverse) scan runs on a set of points that contains
    both ends of the first chain, then every vertex of the first chain — and every input point of
    the second scan — lies on or to the right of every edge of the second chain -/
theorem second_chain_under (S1 : Array Pt) (N1 : Nat) (A1 : Array Pt) (h1 : Nat)
    (inv1 : ScanInv false S1 N1 A1 h1) (S2 : Array Pt) (N2 : Nat) (A2 : Array Pt) (h2 : Nat)
    (inv2 : ScanInv true S2 N2 A2 h2)
    (hL : ∃ j, j < N2 ∧ rd S2 j = rd A1 0) (hM : ∃ j, j < N2 ∧ rd S2 j = rd A1 (h1 - 1))
    (k : Nat) (hk : k + 1 < h2) (p : Pt)
    (hp : (∃ j, j < N2 ∧ rd S2 j = p) ∨ (∃ k', k' < h1 ∧ rd A1 k' = p)) :
    isLeft (rd A2 k) (rd A2 (k + 1)) p ≤ 0 := by
  rcases hp with ⟨j, hj, rfl⟩ | ⟨k', hk', rfl⟩
  · exact inv2.under k hk j hj
  · obtain ⟨jL, hjL, eL⟩ := hL
    obtain ⟨jM, hjM, eM⟩ := hM
    have hab : ltR false (rd A2 (k + 1)) (rd A2 k) := by
      have := inv2.mono k hk
      simpa [ltR] using this
    exact chain_right_of_backward_edge false S1 N1 A1 h1 inv1 hab
      (eL ▸ inv2.under k hk jL hjL) (eM ▸ inv2.under k hk jM hjM) k' hk'

/-! ## the plumbing of `grahamModel`: rotation of the prefix, extraction -/

/-- `for (i = 0; i != t; ++i) swap(P[i], P[i+1])` -/
def rotFold (P : Array Pt) (t : Nat) : Array Pt :=
  (List.range t).foldl (fun (P : Array Pt) i => P.swapIfInBounds i (i + 1)) P

theorem rotFold_spec (P : Array Pt) (t : Nat) (ht : t < P.size) :
    (rotFold P t).size = P.size ∧ (∀ k, k < t → rd (rotFold P t) k = rd P (k + 1)) ∧
      rd (rotFold P t) t = rd P 0 ∧ (∀ k, t < k → rd (rotFold P t) k = rd P k) := by
  induction t with
  | zero => exact ⟨rfl, fun k hk => by omega, rfl, fun _ _ => rfl⟩
  | succ t ih =>
    obtain ⟨i1, i2, i3, i4⟩ := ih (by omega)
    have e : rotFold P (t + 1) = (rotFold P t).swapIfInBounds t (t + 1) := by
      unfold rotFold
      rw [List.range_succ, List.foldl_append]
      rfl
    have hr := rd_swapIfInBounds (rotFold P t) (m := t) (i := t + 1) (by omega) (by omega)
    rw [e]
    refine ⟨by rw [size_swapIfInBounds]; exact i1, ?_, ?_, ?_⟩
    · intro k hk
      rw [hr]
      by_cases e1 : k = t
      · rw [if_pos e1, i4 (t + 1) (by omega), e1]
      · rw [if_neg e1, if_neg (by omega)]; exact i2 k (by omega)
    · rw [hr, if_neg (by omega), if_pos rfl]; exact i3
    · intro k hk
      rw [hr, if_neg (by omega), if_neg (by omega)]; exact i4 k (by omega)

theorem rd_extract (A : Array Pt) (s e k : Nat) (he : e ≤ A.size) (hk : s + k < e) :
    rd (A.extract s e) k = rd A (s + k) := by
  unfold rd
  simp only [Array.getD_eq_getD_getElem?, Array.getElem?_extract]
  have : k < min e A.size - s := by omega
  simp [this]

theorem size_extract' (A : Array Pt) (s e : Nat) (he : e ≤ A.size) : (A.extract s e).size = e - s := by
  simp [Array.size_extract, Nat.min_eq_left he]

theorem grahamModel_eq (pts : List Pt) (hN : 3 < pts.length) :
    grahamModel pts =
      ((rotFold (inPlaceScan pts.toArray false).1 ((inPlaceScan pts.toArray false).2 - 1)).extract 0
          ((inPlaceScan pts.toArray false).2 - 2)).toList ++
        ((inPlaceScan ((rotFold (inPlaceScan pts.toArray false).1
            ((inPlaceScan pts.toArray false).2 - 1)).extract
              ((inPlaceScan pts.toArray false).2 - 2) pts.length) true).1.extract 0
          (inPlaceScan ((rotFold (inPlaceScan pts.toArray false).1
            ((inPlaceScan pts.toArray false).2 - 1)).extract
              ((inPlaceScan pts.toArray false).2 - 2) pts.length) true).2).toList := by
  unfold grahamModel
  simp only
  rw [if_neg (by omega)]
  rfl

theorem rd_toList (A : Array Pt) (t : Nat) : A.toList.getD t (0, 0) = rd A t := by
  unfold rd
  simp [Array.getD_eq_getD_getElem?, List.getD_eq_getElem?_getD]

theorem mem_cyclicPairs {v : List Pt} {e : Pt × Pt} (he : e ∈ cyclicPairs v) :
    ∃ t, t < v.length ∧ e.1 = v.getD t (0, 0) ∧
      e.2 = (if t + 1 < v.length then v.getD (t + 1) (0, 0) else v.getD 0 (0, 0)) := by
  cases v with
  | nil => simp [cyclicPairs] at he
  | cons a w =>
    simp only [cyclicPairs, List.drop_succ_cons, List.drop_zero] at he
    obtain ⟨t, ht, rfl⟩ := List.mem_iff_getElem.1 he
    have ht' : t < w.length + 1 := by
      simp only [List.length_zip, List.length_cons, List.length_append, List.length_nil] at ht
      omega
    refine ⟨t, by simpa using ht', ?_, ?_⟩
    · rw [List.getElem_zip]
      simp only [List.getD_eq_getElem?_getD]
      rw [List.getElem?_eq_getElem (by simpa using ht')]; rfl
    · rw [List.getElem_zip]
      simp only [List.length_cons, Nat.add_lt_add_iff_right, List.getD_cons_succ, List.getD_cons_zero]
      by_cases h1 : t < w.length
      · rw [if_pos h1, List.getElem_append_left h1, List.getD_eq_getElem?_getD,
          List.getElem?_eq_getElem h1]; rfl
      · rw [if_neg h1, List.getElem_append_right (by omega)]
        simp

/-- assembling the closed polygon `P[1..h-1) ++ Q[0..h')` from the two chains
    `P[0..h)` (from `L` to `M`) and `Q[0..h')` (from `M` back to `L`) -/
theorem polygon_onesided (pts : List Pt) (P Q : Array Pt) (h h' : Nat) (hh : 2 ≤ h) (hh' : 1 ≤ h')
    (v : List Pt) (hlen : v.length = (h - 2) + h')
    (hv1 : ∀ t, t < h - 2 → v.getD t (0, 0) = rd P (t + 1))
    (hv2 : ∀ t, t < h' → v.getD (h - 2 + t) (0, 0) = rd Q t)
    (hQ0 : rd Q 0 = rd P (h - 1)) (hQl : rd Q (h' - 1) = rd P 0)
    (c1 : ∀ k, k + 1 < h → ∀ p ∈ pts, isLeft (rd P k) (rd P (k + 1)) p ≤ 0)
    (c2 : ∀ k, k + 1 < h' → ∀ p ∈ pts, isLeft (rd Q k) (rd Q (k + 1)) p ≤ 0) :
    ∀ e ∈ cyclicPairs v, ∀ p ∈ pts, isLeft e.1 e.2 p ≤ 0 := by
  intro e he p hp
  obtain ⟨t, ht, e1, e2⟩ := mem_cyclicPairs he
  rw [e1, e2]
  by_cases hA : t + 1 < h - 2
  · rw [if_pos (by omega), hv1 t (by omega), hv1 (t + 1) hA]
    exact c1 (t + 1) (by omega) p hp
  · by_cases hB : t + 1 = h - 2
    · have := hv2 0 hh'
      rw [Nat.add_zero, ← hB] at this
      rw [if_pos (by omega), hv1 t (by omega), this, hQ0]
      have e3 : h - 1 = t + 1 + 1 := by omega
      rw [e3]
      exact c1 (t + 1) (by omega) p hp
    · obtain ⟨s, rfl⟩ : ∃ s, t = h - 2 + s := ⟨t - (h - 2), by omega⟩
      by_cases hC : s + 1 < h'
      · rw [if_pos (by omega), hv2 s (by omega), Nat.add_assoc, hv2 (s + 1) hC]
        exact c2 s hC p hp
      · have es : s = h' - 1 := by omega
        rw [if_neg (by omega), hv2 s (by omega), es, hQl]
        have e0 : v.getD 0 (0, 0) = rd P (0 + 1) := by
          by_cases h2 : h = 2
          · have := hv2 0 hh'
            have e4 : h - 2 + 0 = 0 := by omega
            rw [e4] at this
            rw [this, hQ0, h2]
          · exact hv1 0 (by omega)
        rw [e0]
        exact c1 0 (by omega) p hp

theorem getD_append_left' (l1 l2 : List Pt) (t : Nat) (d : Pt) (h : t < l1.length) :
    (l1 ++ l2).getD t d = l1.getD t d := by
  simp [List.getD_eq_getElem?_getD, List.getElem?_append_left h]

theorem getD_append_right' (l1 l2 : List Pt) (t : Nat) (d : Pt) (h : l1.length ≤ t) :
    (l1 ++ l2).getD t d = l2.getD (t - l1.length) d := by
  simp [List.getD_eq_getElem?_getD, List.getElem?_append_right h]

/-- **structure of the result** (more than three distinct points): `grahamModel pts` is
    `P[1..h-1) ++ Q[0..h')` for two chains `P[0..h)` (first scan, from the lexicographic minimum `P[0]`
    to the maximum `P[h-1]`) and `Q[0..h')` (second scan, from the maximum back to the minimum), and
    every input point lies on or to the right of every edge of either chain -/
theorem grahamModel_structure (pts : List Pt) (hnd : pts.Nodup) (hN : 3 < pts.length) :
    ∃ (P Q : Array Pt) (h h' : Nat), 2 ≤ h ∧ 1 ≤ h' ∧
      (grahamModel pts).length = (h - 2) + h' ∧
      (∀ t, t < h - 2 → (grahamModel pts).getD t (0, 0) = rd P (t + 1)) ∧
      (∀ t, t < h' → (grahamModel pts).getD (h - 2 + t) (0, 0) = rd Q t) ∧
      rd Q 0 = rd P (h - 1) ∧ rd Q (h' - 1) = rd P 0 ∧
      (∀ k, k + 1 < h → ∀ p ∈ pts, isLeft (rd P k) (rd P (k + 1)) p ≤ 0) ∧
      (∀ k, k + 1 < h' → ∀ p ∈ pts, isLeft (rd Q k) (rd Q (k + 1)) p ≤ 0) ∧
      (∀ p ∈ pts, p = rd P 0 ∨ lexLt (rd P 0) p) ∧
      (∀ p ∈ pts, p = rd P (h - 1) ∨ lexLt p (rd P (h - 1))) := by
  rw [grahamModel_eq pts hN]
  have hsz : pts.toArray.size = pts.length := by simp
  have hnd' : pts.toArray.toList.Nodup := by simpa using hnd
  have inv1 := inPlaceScan_inv pts.toArray false hnd' (by omega)
  have und1 := inPlaceScan_under pts.toArray false hnd' (by omega)
  have perm1 := inPlaceScan_perm pts.toArray false
  have hS1 := sortedOf_strict pts.toArray false hnd'
  have hS1last := sortedOf_last pts.toArray false hnd'
  have hS1first := sortedOf_first pts.toArray false hnd'
  have hS1sz := sortedOf_size pts.toArray false
  generalize hr1 : inPlaceScan pts.toArray false = r1 at inv1 und1 perm1 ⊢
  obtain ⟨P, h⟩ := r1
  simp only at inv1 und1 perm1 ⊢
  generalize hS1def : sortedOf pts.toArray false = S1 at inv1 hS1 hS1last hS1first hS1sz
  rw [hsz] at inv1 hS1last hS1sz
  have hh : 2 ≤ h := by
    by_contra hc
    have h1 : h = 1 := by have := inv1.h1; omega
    have t := inv1.top
    have b := inv1.bot
    rw [h1] at t
    have := hS1 0 (pts.length - 1) (by omega) (by omega)
    rw [← b, ← t] at this
    exact ltR_irrefl false _ this
  have hhN : h ≤ pts.length := inv1.hi
  have hPsz : P.size = pts.length := inv1.size.trans hS1sz
  obtain ⟨r1, r2, r3, r4⟩ := rotFold_spec P (h - 1) (by omega)
  have perm2 : (rotFold P (h - 1)).toList.Perm P.toList := rotate_perm _ _
  generalize hP1 : rotFold P (h - 1) = P1 at r1 r2 r3 r4 perm2 ⊢
  have permP1 : P1.toList.Perm pts := perm2.trans (perm1.trans (by simp))
  have hX2sz : (P1.extract (h - 2) pts.length).size = pts.length - (h - 2) :=
    size_extract' _ _ _ (by omega)
  have hX2rd : ∀ k, k < pts.length - (h - 2) →
      rd (P1.extract (h - 2) pts.length) k = rd P1 (h - 2 + k) :=
    fun k hk => rd_extract _ _ _ _ (by omega) (by omega)
  have hX2sub : ∀ p ∈ (P1.extract (h - 2) pts.length).toList, p ∈ pts := by
    intro p hp
    simp only [Array.toList_extract, List.extract] at hp
    exact permP1.subset (List.mem_of_mem_drop (List.mem_of_mem_take hp))
  have hX2nd : (P1.extract (h - 2) pts.length).toList.Nodup := by
    simp only [Array.toList_extract, List.extract]
    exact (permP1.nodup_iff.2 hnd).sublist ((List.take_sublist _ _).trans (List.drop_sublist _ _))
  generalize hX2 : P1.extract (h - 2) pts.length = X2 at hX2sz hX2rd hX2sub hX2nd ⊢
  have inv2 := inPlaceScan_inv X2 true hX2nd (by omega)
  have hS2first := sortedOf_first X2 true hX2nd
  have hS2last := sortedOf_last X2 true hX2nd
  have memS2 := mem_sortedOf X2 true
  generalize hr2 : inPlaceScan X2 true = r2' at inv2 ⊢
  obtain ⟨Q, h'⟩ := r2'
  simp only at inv2 ⊢
  generalize hS2def : sortedOf X2 true = S2 at inv2 hS2first hS2last memS2
  have hM2 : rd X2 0 = rd P (h - 1) := by
    rw [hX2rd 0 (by omega), Nat.add_zero, r2 (h - 2) (by omega)]
    congr 1; omega
  have hL2 : rd X2 1 = rd P 0 := by
    rw [hX2rd 1 (by omega), show h - 2 + 1 = h - 1 by omega]
    exact r3
  have m_in : rd P (h - 1) ∈ X2.toList := (mem_iff_rd X2 _).2 ⟨0, by omega, hM2⟩
  have l_in : rd P 0 ∈ X2.toList := (mem_iff_rd X2 _).2 ⟨1, by omega, hL2⟩
  have hS20 : rd S2 0 = rd P (h - 1) := by
    have s_in : rd S2 0 ∈ X2.toList := (memS2 _).2 ⟨0, by omega, rfl⟩
    rcases hS2first _ m_in with e | hlt
    · exact e.symm
    · rcases hS1last _ (by simpa using hX2sub _ s_in) with e | hgt
      · rw [e]; exact inv1.top.symm
      · exfalso
        rw [← inv1.top] at hgt
        have hlt' : ltR false (rd P (h - 1)) (rd S2 0) := by simpa [ltR] using hlt
        exact ltR_asymm false hgt hlt'
  have hS2l : rd S2 (X2.size - 1) = rd P 0 := by
    have s_in : rd S2 (X2.size - 1) ∈ X2.toList := (memS2 _).2 ⟨X2.size - 1, by omega, rfl⟩
    rcases hS2last _ l_in with e | hlt
    · exact e.symm
    · rcases hS1first _ (by simpa using hX2sub _ s_in) with e | hgt
      · rw [e]; exact inv1.bot.symm
      · exfalso
        rw [← inv1.bot] at hgt
        have hlt' : ltR false (rd S2 (X2.size - 1)) (rd P 0) := by simpa [ltR] using hlt
        exact ltR_asymm false hgt hlt'
  have hQ0 : rd Q 0 = rd P (h - 1) := inv2.bot.trans hS20
  have hQl : rd Q (h' - 1) = rd P 0 := inv2.top.trans hS2l
  have c1 : ∀ k, k + 1 < h → ∀ p ∈ pts, isLeft (rd P k) (rd P (k + 1)) p ≤ 0 :=
    fun k hk p hp => und1 k hk p (by simpa using hp)
  have c2 : ∀ k, k + 1 < h' → ∀ p ∈ pts, isLeft (rd Q k) (rd Q (k + 1)) p ≤ 0 := by
    intro k hk p hp
    refine second_chain_under S1 pts.length P h inv1 S2 X2.size Q h' inv2
      ((memS2 _).1 l_in) ((memS2 _).1 m_in) k hk p ?_
    obtain ⟨j, hj, rfl⟩ := (mem_iff_rd P p).1 (perm1.mem_iff.2 (by simpa using hp))
    by_cases hjh : j < h
    · right; exact ⟨j, hjh, rfl⟩
    · left
      have : rd P j ∈ X2.toList := (mem_iff_rd X2 _).2 ⟨j - (h - 2), by omega, by
        rw [hX2rd _ (by omega), show h - 2 + (j - (h - 2)) = j by omega, r4 j (by omega)]⟩
      exact (memS2 _).1 this
  have hQsz : h' ≤ Q.size := by
    have := inv2.hi
    have := inv2.size
    rw [← hS2def, sortedOf_size] at this
    omega
  refine ⟨P, Q, h, h', hh, inv2.h1, ?_, ?_, ?_, hQ0, hQl, c1, c2, ?_, ?_⟩
  · simp only [List.length_append, Array.length_toList]
    rw [size_extract' _ _ _ (by omega), size_extract' _ _ _ hQsz]
    omega
  · intro t ht
    rw [getD_append_left' _ _ _ _ (by
      rw [Array.length_toList, size_extract' _ _ _ (by omega)]; omega), rd_toList,
      rd_extract _ _ _ _ (by omega) (by omega), Nat.zero_add]
    exact r2 t (by omega)
  · intro t ht
    have hl1 : ((P1.extract 0 (h - 2)).toList).length = h - 2 := by
      rw [Array.length_toList, size_extract' _ _ _ (by omega)]; omega
    rw [getD_append_right' _ _ _ _ (by omega), hl1, Nat.add_sub_cancel_left, rd_toList,
      rd_extract _ _ _ _ hQsz (by omega), Nat.zero_add]
  · intro p hp
    have := hS1first p (by simpa using hp)
    rw [← inv1.bot] at this
    simpa [ltR] using this
  · intro p hp
    have := hS1last p (by simpa using hp)
    rw [← inv1.top] at this
    simpa [ltR] using this

/-- **(c) one-sidedness of the whole polygon** (more than three distinct points): every input point
    lies on or to the right of every directed edge of the closed polygon `grahamModel pts` -/
theorem grahamModel_onesided (pts : List Pt) (hnd : pts.Nodup) (hN : 3 < pts.length) :
    ∀ e ∈ cyclicPairs (grahamModel pts), ∀ p ∈ pts, isLeft e.1 e.2 p ≤ 0 := by
  obtain ⟨P, Q, h, h', hh, hh', hlen, hv1, hv2, hQ0, hQl, c1, c2, _, _⟩ :=
    grahamModel_structure pts hnd hN
  exact polygon_onesided pts P Q h h' hh hh' _ hlen hv1 hv2 hQ0 hQl c1 c2

/-- **(c) the extreme points are corners**: the lexicographically smallest and largest input points
    belong to `grahamModel pts` -/
theorem grahamModel_extremes (pts : List Pt) (hnd : pts.Nodup) (hN : 3 < pts.length) :
    ∃ L M, L ∈ grahamModel pts ∧ M ∈ grahamModel pts ∧
      (∀ p ∈ pts, p = L ∨ lexLt L p) ∧ (∀ p ∈ pts, p = M ∨ lexLt p M) := by
  obtain ⟨P, Q, h, h', hh, hh', hlen, hv1, hv2, hQ0, hQl, c1, c2, hmin, hmax⟩ :=
    grahamModel_structure pts hnd hN
  have mem_of_getD : ∀ t, t < (grahamModel pts).length →
      (grahamModel pts).getD t (0, 0) ∈ grahamModel pts := by
    intro t ht
    rw [List.getD_eq_getElem?_getD, List.getElem?_eq_getElem ht]
    exact List.getElem_mem ht
  refine ⟨rd P 0, rd P (h - 1), ?_, ?_, hmin, hmax⟩
  · rw [← hQl, ← hv2 (h' - 1) (by omega)]
    exact mem_of_getD _ (by omega)
  · rw [← hQ0, ← hv2 0 hh']
    exact mem_of_getD _ (by omega)

/-! ## conjuncts of `hullOK` -/

theorem hullOK_onesided (pts : List Pt) (hnd : pts.Nodup) (hN : 3 < pts.length) :
    (cyclicPairs (grahamModel pts)).all (fun e => pts.all fun p => isLeft e.1 e.2 p ≤ 0) = true := by
  simp only [List.all_eq_true, decide_eq_true_eq]
  exact grahamModel_onesided pts hnd hN

theorem hullOK_subset (pts : List Pt) :
    (grahamModel pts).all (fun p => pts.contains p) = true := by
  simp only [List.all_eq_true, List.contains_iff_mem]
  exact grahamModel_subset pts

theorem hullOK_isEmpty (pts : List Pt) (hnd : pts.Nodup) (hN : 3 < pts.length) :
    (pts.isEmpty == (grahamModel pts).isEmpty) = true := by
  obtain ⟨P, Q, h, h', hh, hh', hlen, _⟩ := grahamModel_structure pts hnd hN
  have h1 : pts ≠ [] := by intro e; rw [e] at hN; simp at hN
  have h2 : grahamModel pts ≠ [] := by intro e; rw [e] at hlen; simp at hlen; omega
  have e1 : pts.isEmpty = false := by cases pts with
    | nil => exact absurd rfl h1
    | cons _ _ => rfl
  have e2 : (grahamModel pts).isEmpty = false := by
    cases hg : grahamModel pts with
    | nil => exact absurd hg h2
    | cons _ _ => rfl
  rw [e1, e2]; rfl


/-! ## the remaining conjuncts and the final statement -/

theorem eraseDups_of_nodup (l : List Pt) (h : l.Nodup) : l.eraseDups = l := by
  induction l with
  | nil => exact List.eraseDups_nil
  | cons a as ih =>
    rw [List.eraseDups_cons]
    have hn := List.nodup_cons.1 h
    have : List.filter (fun b => !b == a) as = as := by
      rw [List.filter_eq_self]
      intro b hb
      have : b ≠ a := fun e => hn.1 (e ▸ hb)
      simp [this]
    rw [this, ih hn.2]

theorem forwardCmp_iff (a b : Pt) : forwardCmp a b = true ↔ lexLt a b := by
  obtain ⟨a1, a2⟩ := a
  obtain ⟨b1, b2⟩ := b
  simp only [forwardCmp, lexLt]
  by_cases e : a1 = b1
  · simp [e]
  · simp [e]

theorem lexLt_trans {a b c : Pt} (h1 : lexLt a b) (h2 : lexLt b c) : lexLt a c :=
  ltR_trans false (a := a) (b := b) (c := c) (by simpa [ltR] using h1) (by simpa [ltR] using h2) |>
    (by simpa [ltR] using ·)

theorem lexLt_total (a b : Pt) : a = b ∨ lexLt a b ∨ lexLt b a := by
  simpa [ltR] using ltR_total false a b

theorem lexLt_asymm {a b : Pt} (h1 : lexLt a b) (h2 : lexLt b a) : False :=
  ltR_asymm false (a := a) (b := b) (by simpa [ltR] using h1) (by simpa [ltR] using h2)

theorem foldMin_spec (l : List Pt) : ∀ q : Pt, ∃ m,
    l.foldl (fun (m : Option Pt) p => match m with
      | none => some p | some q => if forwardCmp p q then some p else some q) (some q) = some m ∧
    (m = q ∨ m ∈ l) ∧ (m = q ∨ lexLt m q) ∧ ∀ p ∈ l, p = m ∨ lexLt m p := by
  induction l with
  | nil => intro q; exact ⟨q, rfl, Or.inl rfl, Or.inl rfl, fun p hp => by simp at hp⟩
  | cons x xs ih =>
    intro q
    rw [List.foldl_cons]
    by_cases hc : forwardCmp x q = true
    · simp only [hc, if_true]
      have hxq := (forwardCmp_iff x q).1 hc
      obtain ⟨m, e, h1, h2, h3⟩ := ih x
      refine ⟨m, e, ?_, ?_, ?_⟩
      · rcases h1 with rfl | h1
        · exact Or.inr List.mem_cons_self
        · exact Or.inr (List.mem_cons_of_mem _ h1)
      · rcases h2 with rfl | h2
        · exact Or.inr hxq
        · exact Or.inr (lexLt_trans h2 hxq)
      · intro p hp
        rcases List.mem_cons.1 hp with rfl | hp
        · rcases h2 with rfl | h2
          · exact Or.inl rfl
          · exact Or.inr h2
        · exact h3 p hp
    · simp only [hc, if_false, Bool.false_eq_true]
      have hxq : ¬ lexLt x q := fun h => hc ((forwardCmp_iff x q).2 h)
      obtain ⟨m, e, h1, h2, h3⟩ := ih q
      refine ⟨m, e, ?_, h2, ?_⟩
      · rcases h1 with h1 | h1
        · exact Or.inl h1
        · exact Or.inr (List.mem_cons_of_mem _ h1)
      · intro p hp
        rcases List.mem_cons.1 hp with rfl | hp
        · rcases lexLt_total p q with e1 | e1 | e1
          · rcases h2 with h2 | h2
            · exact Or.inl (e1.trans h2.symm)
            · exact Or.inr (e1 ▸ h2)
          · exact absurd e1 hxq
          · rcases h2 with h2 | h2
            · exact Or.inr (h2 ▸ e1)
            · exact Or.inr (lexLt_trans h2 e1)
        · exact h3 p hp

theorem foldMax_spec (l : List Pt) : ∀ q : Pt, ∃ m,
    l.foldl (fun (m : Option Pt) p => match m with
      | none => some p | some q => if forwardCmp q p then some p else some q) (some q) = some m ∧
    (m = q ∨ m ∈ l) ∧ (m = q ∨ lexLt q m) ∧ ∀ p ∈ l, p = m ∨ lexLt p m := by
  induction l with
  | nil => intro q; exact ⟨q, rfl, Or.inl rfl, Or.inl rfl, fun p hp => by simp at hp⟩
  | cons x xs ih =>
    intro q
    rw [List.foldl_cons]
    by_cases hc : forwardCmp q x = true
    · simp only [hc, if_true]
      have hxq := (forwardCmp_iff q x).1 hc
      obtain ⟨m, e, h1, h2, h3⟩ := ih x
      refine ⟨m, e, ?_, ?_, ?_⟩
      · rcases h1 with rfl | h1
        · exact Or.inr List.mem_cons_self
        · exact Or.inr (List.mem_cons_of_mem _ h1)
      · rcases h2 with rfl | h2
        · exact Or.inr hxq
        · exact Or.inr (lexLt_trans hxq h2)
      · intro p hp
        rcases List.mem_cons.1 hp with rfl | hp
        · rcases h2 with rfl | h2
          · exact Or.inl rfl
          · exact Or.inr h2
        · exact h3 p hp
    · simp only [hc, if_false, Bool.false_eq_true]
      have hxq : ¬ lexLt q x := fun h => hc ((forwardCmp_iff q x).2 h)
      obtain ⟨m, e, h1, h2, h3⟩ := ih q
      refine ⟨m, e, ?_, h2, ?_⟩
      · rcases h1 with h1 | h1
        · exact Or.inl h1
        · exact Or.inr (List.mem_cons_of_mem _ h1)
      · intro p hp
        rcases List.mem_cons.1 hp with rfl | hp
        · rcases lexLt_total p q with e1 | e1 | e1
          · rcases h2 with h2 | h2
            · exact Or.inl (e1.trans h2.symm)
            · exact Or.inr (e1 ▸ h2)
          · rcases h2 with h2 | h2
            · exact Or.inr (h2 ▸ e1)
            · exact Or.inr (lexLt_trans e1 h2)
          · exact absurd e1 hxq
        · exact h3 p hp

theorem lexMin_spec (x : Pt) (xs : List Pt) : ∃ m, lexMin (x :: xs) = some m ∧ m ∈ x :: xs ∧
    ∀ p ∈ x :: xs, p = m ∨ lexLt m p := by
  obtain ⟨m, e, h1, h2, h3⟩ := foldMin_spec xs x
  refine ⟨m, e, ?_, ?_⟩
  · rcases h1 with rfl | h1
    · exact List.mem_cons_self
    · exact List.mem_cons_of_mem _ h1
  · intro p hp
    rcases List.mem_cons.1 hp with rfl | hp
    · rcases h2 with rfl | h2
      · exact Or.inl rfl
      · exact Or.inr h2
    · exact h3 p hp

theorem lexMax_spec (x : Pt) (xs : List Pt) : ∃ m, lexMax (x :: xs) = some m ∧ m ∈ x :: xs ∧
    ∀ p ∈ x :: xs, p = m ∨ lexLt p m := by
  obtain ⟨m, e, h1, h2, h3⟩ := foldMax_spec xs x
  refine ⟨m, e, ?_, ?_⟩
  · rcases h1 with rfl | h1
    · exact List.mem_cons_self
    · exact List.mem_cons_of_mem _ h1
  · intro p hp
    rcases List.mem_cons.1 hp with rfl | hp
    · rcases h2 with rfl | h2
      · exact Or.inl rfl
      · exact Or.inr h2
    · exact h3 p hp

/-- the last conjunct of `hullOK`: the extreme points found by `lexMin`/`lexMax` are corners, as soon
    as every lexicographically minimal / maximal point of `fg` belongs to `v` -/
theorem hullOK_extremes (fg v : List Pt)
    (hmin : ∀ a, a ∈ fg → (∀ p ∈ fg, p = a ∨ lexLt a p) → a ∈ v)
    (hmax : ∀ z, z ∈ fg → (∀ p ∈ fg, p = z ∨ lexLt p z) → z ∈ v) :
    (match lexMin fg, lexMax fg with
      | some a, some z => v.contains a && v.contains z
      | _, _ => true) = true := by
  cases fg with
  | nil => rfl
  | cons x xs =>
    obtain ⟨a, ea, ha1, ha2⟩ := lexMin_spec x xs
    obtain ⟨z, ez, hz1, hz2⟩ := lexMax_spec x xs
    rw [ea, ez]
    simp only [Bool.and_eq_true, List.contains_iff_mem]
    exact ⟨hmin a ha1 ha2, hmax z hz1 hz2⟩

theorem isLeft_aab (a p : Pt) : isLeft a a p = 0 := by unfold isLeft; ring
theorem isLeft_rot1 (a b c : Pt) : isLeft b c a = isLeft a b c := by unfold isLeft; ring
theorem isLeft_rot2 (a b c : Pt) : isLeft c a b = isLeft a b c := by unfold isLeft; ring

/-- at most three points: the polygon is degenerate or a triangle, which is one-sided -/
theorem small_onesided (pts : List Pt) (hN : pts.length ≤ 3) :
    ((cyclicPairs pts).all (fun e => pts.all fun p => isLeft e.1 e.2 p ≤ 0) ||
      (cyclicPairs pts).all (fun e => pts.all fun p => isLeft e.1 e.2 p ≥ 0)) = true := by
  rcases pts with _ | ⟨a, _ | ⟨b, _ | ⟨c, _ | ⟨d, r⟩⟩⟩⟩
  · rfl
  · simp [cyclicPairs, isLeft_aab]
  · simp [cyclicPairs, isLeft_self_left, isLeft_self_right]
  · rcases le_total (isLeft a b c) 0 with h | h
    · rw [Bool.or_eq_true]; left
      have h1 := isLeft_rot1 a b c
      have h2 := isLeft_rot2 a b c
      simp [cyclicPairs, isLeft_self_left, isLeft_self_right]
      omega
    · rw [Bool.or_eq_true]; right
      have h1 := isLeft_rot1 a b c
      have h2 := isLeft_rot2 a b c
      simp [cyclicPairs, isLeft_self_left, isLeft_self_right]
      omega
  · simp at hN

/-- **the convex hull model satisfies the statement's predicate** for distinct input points -/
theorem grahamModel_hullOK (pts : List Pt) (hnd : pts.Nodup) : hullOK pts (grahamModel pts) = true := by
  unfold hullOK
  simp only [Bool.and_eq_true]
  refine ⟨⟨⟨⟨hullOK_subset pts, ?_⟩, ?_⟩, ?_⟩, ?_⟩
  · rw [eraseDups_of_nodup _ (grahamModel_nodup pts hnd)]
    exact beq_self_eq_true _
  · by_cases hN : 3 < pts.length
    · exact hullOK_isEmpty pts hnd hN
    · have : grahamModel pts = pts := by unfold grahamModel; simp only; rw [if_pos (by omega)]
      rw [this]; exact beq_self_eq_true _
  · by_cases hN : 3 < pts.length
    · rw [Bool.or_eq_true]; left
      exact hullOK_onesided pts hnd hN
    · have : grahamModel pts = pts := by unfold grahamModel; simp only; rw [if_pos (by omega)]
      rw [this]; exact small_onesided pts (by omega)
  · by_cases hN : 3 < pts.length
    · obtain ⟨L, M, hL, hM, hmin, hmax⟩ := grahamModel_extremes pts hnd hN
      have hLp := grahamModel_subset pts L hL
      have hMp := grahamModel_subset pts M hM
      apply hullOK_extremes
      · intro a ha hamin
        rcases hmin a ha with e | h1
        · rw [e]; exact hL
        · rcases hamin L hLp with e | h2
          · rw [← e]; exact hL
          · exact (lexLt_asymm h1 h2).elim
      · intro z hz hzmax
        rcases hmax z hz with e | h1
        · rw [e]; exact hM
        · rcases hzmax M hMp with e | h2
          · rw [← e]; exact hM
          · exact (lexLt_asymm h1 h2).elim
    · have : grahamModel pts = pts := by unfold grahamModel; simp only; rw [if_pos (by omega)]
      rw [this]
      exact hullOK_extremes pts pts (fun a ha _ => ha) (fun z hz _ => hz)

theorem hullModel_hullOK (b : Bin) : hullOK (foreground b) (hullModel b) = true :=
  grahamModel_hullOK (foreground b) (foreground_nodup b)
end Mahotas.C15
