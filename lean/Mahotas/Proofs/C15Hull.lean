/-
C15 — convex hull model (`inPlaceGraham`): the corners it returns are input points, and distinct
when the input points are distinct (the scan only permutes the array and returns prefixes).
-/
import Mahotas.Model.C15
import Mathlib.Data.List.Perm.Basic
import Mathlib.Data.List.Nodup
namespace Mahotas.C15
open Mahotas List

theorem swapIfInBounds_perm (xs : Array Pt) (i j : Nat) : (xs.swapIfInBounds i j).toList.Perm xs.toList := by
  unfold Array.swapIfInBounds
  split
  · split
    · exact (Array.swap_perm _ _).toList
    · exact Perm.refl _
  · exact Perm.refl _

theorem scanFold_perm (l : List Nat) (acc : Array Pt × Nat) :
    (l.foldl (fun (acc : Array Pt × Nat) i =>
      let h := popWhile acc.1 (acc.1.getD i (0, 0)) acc.2
      (acc.1.swapIfInBounds h i, h + 1)) acc).1.toList.Perm acc.1.toList := by
  induction l generalizing acc with
  | nil => exact Perm.refl _
  | cons i is ih =>
    simp only [List.foldl_cons]
    exact (ih _).trans (swapIfInBounds_perm _ _ _)

theorem inPlaceScan_perm (P : Array Pt) (rev : Bool) : (inPlaceScan P rev).1.toList.Perm P.toList := by
  unfold inPlaceScan
  simp only
  refine (scanFold_perm _ _).trans ?_
  simp only [List.toList_toArray]
  exact List.mergeSort_perm _ _

theorem rotate_perm (l : List Nat) (P : Array Pt) :
    (l.foldl (fun (P : Array Pt) i => P.swapIfInBounds i (i + 1)) P).toList.Perm P.toList := by
  induction l generalizing P with
  | nil => exact Perm.refl _
  | cons i is ih =>
    simp only [List.foldl_cons]
    exact (ih _).trans (swapIfInBounds_perm _ _ _)

/-- the returned corners form a sub-multiset of the input points -/
theorem grahamModel_subperm (pts : List Pt) : (grahamModel pts).Subperm pts := by
  unfold grahamModel
  simp only
  split
  · exact Subperm.refl _
  · have h1 := inPlaceScan_perm pts.toArray false
    generalize inPlaceScan pts.toArray false = r at h1 ⊢
    obtain ⟨P, h⟩ := r
    simp only at h1 ⊢
    have h2 := rotate_perm (List.range (h - 1)) P
    generalize (List.range (h - 1)).foldl (fun (P : Array Pt) i => P.swapIfInBounds i (i + 1)) P = P1 at h2 ⊢
    have h3 := inPlaceScan_perm (P1.extract (h - 2) pts.length) true
    generalize inPlaceScan (P1.extract (h - 2) pts.length) true = r2 at h3 ⊢
    obtain ⟨Q, h'⟩ := r2
    simp only at h3 ⊢
    simp only [Array.toList_extract, List.extract, Nat.sub_zero, List.drop_zero] at h3 ⊢
    -- result = take (h-2) P1 ++ take h' Q ; Q ~ take _ (drop (h-2) P1)
    have s1 : (List.take h' Q.toList).Subperm (List.drop (h - 2) P1.toList) :=
      ((List.take_sublist _ _).subperm).trans (h3.subperm.trans (List.take_sublist _ _).subperm)
    have s2 : (List.take (h - 2) P1.toList ++ List.take h' Q.toList).Subperm
        (List.take (h - 2) P1.toList ++ List.drop (h - 2) P1.toList) :=
      (List.subperm_append_left _).mpr s1
    rw [List.take_append_drop] at s2
    exact s2.trans ((h2.trans (h1.trans (by simp))).subperm)

theorem grahamModel_subset (pts : List Pt) : ∀ p ∈ grahamModel pts, p ∈ pts :=
  fun _ hp => (grahamModel_subperm pts).subset hp

theorem grahamModel_nodup (pts : List Pt) (h : pts.Nodup) : (grahamModel pts).Nodup := by
  obtain ⟨l, hl, hs⟩ := grahamModel_subperm pts
  exact hl.nodup_iff.mp (h.sublist hs)

/-- the foreground list has no repetition -/
theorem foreground_nodup (b : Bin) : (foreground b).Nodup := by
  unfold foreground
  apply List.Nodup.filterMap _ List.nodup_range
  intro i j p hi hj
  simp only [Option.mem_def] at hi hj
  split at hi
  · split at hj
    · have hi' := Option.some.inj hi
      have hj' := Option.some.inj hj
      have e := hi'.trans hj'.symm
      have e1 : ((i / b.cols : Nat) : Int) = ((j / b.cols : Nat) : Int) := congrArg Prod.fst e
      have e2 : ((i % b.cols : Nat) : Int) = ((j % b.cols : Nat) : Int) := congrArg Prod.snd e
      have e1' : i / b.cols = j / b.cols := by exact_mod_cast e1
      have e2' : i % b.cols = j % b.cols := by exact_mod_cast e2
      rw [← Nat.div_add_mod i b.cols, ← Nat.div_add_mod j b.cols, e1', e2']
    · exact absurd hj (by simp)
  · exact absurd hi (by simp)

/-- every listed foreground point is a set pixel of the image -/
theorem foreground_get (b : Bin) (p : Pt) (hp : p ∈ foreground b) : b.get p.1 p.2 = true := by
  unfold foreground at hp
  rw [List.mem_filterMap] at hp
  obtain ⟨i, hi, hv⟩ := hp
  have hi' : i < b.rows * b.cols := List.mem_range.mp hi
  split at hv
  · rename_i hd
    have hp' := Option.some.inj hv
    rw [← hp']
    have hc : 0 < b.cols := by
      rcases Nat.eq_zero_or_pos b.cols with h | h
      · rw [h] at hi'; simp at hi'
      · exact h
    have hy : i / b.cols < b.rows := by rw [Nat.div_lt_iff_lt_mul hc]; exact hi'
    have hx : i % b.cols < b.cols := Nat.mod_lt _ hc
    unfold Bin.get
    have hcond : (0 : Int) ≤ ((i / b.cols : Nat) : Int) ∧ ((i / b.cols : Nat) : Int) < (b.rows : Int) ∧
        (0 : Int) ≤ ((i % b.cols : Nat) : Int) ∧ ((i % b.cols : Nat) : Int) < (b.cols : Int) :=
      ⟨Int.natCast_nonneg _, by exact_mod_cast hy, Int.natCast_nonneg _, by exact_mod_cast hx⟩
    simp only
    rw [if_pos hcond]
    have : ((i / b.cols : Nat) : Int).toNat * b.cols + ((i % b.cols : Nat) : Int).toNat = i := by
      simp only [Int.toNat_natCast]
      rw [Nat.mul_comm]; exact Nat.div_add_mod i b.cols
    rw [this]; exact hd
  · exact absurd hv (by simp)

end Mahotas.C15
