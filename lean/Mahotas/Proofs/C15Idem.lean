/-
C15 — `thin(thin(x)) = thin(x)` for the whole model: the result of the loop is stable, cropping
and re-framing a stable image is a translation, passes commute with translations.
-/
import Mahotas.Proofs.C15Model
namespace Mahotas.C15
open Mahotas

/-! ## images are determined by their reads -/

theorem data_eq_of_get (a b : Bin) (ha : a.WF) (hb : b.WF) (hr : a.rows = b.rows) (hc : a.cols = b.cols)
    (h : ∀ y x, a.get y x = b.get y x) : a.data = b.data := by
  apply Array.toList_inj.mp
  apply List.ext_getElem
  · simp only [Array.length_toList]; rw [ha, hb, hr, hc]
  · intro i h1 h2
    have hi : i < a.rows * a.cols := by
      have : i < a.data.size := by simpa using h1
      unfold Bin.WF at ha
      omega
    have g1 := get_flat a ha i hi
    have g2 := get_flat b hb i (by rw [← hr, ← hc]; exact hi)
    have h1' : i < a.data.size := by simpa using h1
    have h2' : i < b.data.size := by simpa using h2
    have k1 : a.data.toList.getD i false = a.data.toList[i] := by
      simp [List.getD, Array.getElem?_eq_getElem h1']
    have k2 : b.data.toList.getD i false = b.data.toList[i] := by
      simp [List.getD, Array.getElem?_eq_getElem h2']
    rw [k1] at g1
    rw [k2] at g2
    rw [← g1, ← g2, hc]
    exact h _ _

theorem bin_eq_of_get (a b : Bin) (ha : a.WF) (hb : b.WF) (hr : a.rows = b.rows) (hc : a.cols = b.cols)
    (h : ∀ y x, a.get y x = b.get y x) : a = b :=
  bin_ext a b hr hc (data_eq_of_get a b ha hb hr hc h)

theorem get_eq_of_bset (a b : Bin) (h : bset a = bset b) (y x : Int) : a.get y x = b.get y x := by
  have : ((y, x) ∈ bset a) ↔ ((y, x) ∈ bset b) := by rw [h]
  simp only [bset, Set.mem_ofPred_eq] at this
  cases ha : a.get y x <;> cases hb : b.get y x <;> simp_all

/-! ## passes on sets, folded; they commute with translations -/

def foldT (l : List Elem) (A : Set Px) : Set Px := l.foldl (fun A e => passT e A) A

theorem bset_foldl_pass (l : List Elem) (b : Bin) : bset (l.foldl pass b) = foldT l (bset b) := by
  induction l generalizing b with
  | nil => rfl
  | cons e es ih =>
    simp only [List.foldl_cons, foldT]
    rw [ih (pass b e), bset_pass]; rfl

theorem passT_shift (e : Elem) (dy dx : Int) (A : Set Px) :
    passT e {u | shift dy dx u ∈ A} = {u | shift dy dx u ∈ passT e A} := by
  ext p
  simp only [passT, delT, Set.mem_ofPred_eq, shift]
  have : ∀ t : Int × Int × Bool, ((p.1 + t.1 + dy, p.2 + t.2.1 + dx) ∈ A) ↔ ((p.1 + dy + t.1, p.2 + dx + t.2.1) ∈ A) := by
    intro t
    have e1 : p.1 + t.1 + dy = p.1 + dy + t.1 := by ring
    have e2 : p.2 + t.2.1 + dx = p.2 + dx + t.2.1 := by ring
    rw [e1, e2]
  simp only [this]

theorem foldT_shift (l : List Elem) (dy dx : Int) (A : Set Px) :
    foldT l {u | shift dy dx u ∈ A} = {u | shift dy dx u ∈ foldT l A} := by
  induction l generalizing A with
  | nil => rfl
  | cons e es ih =>
    simp only [foldT, List.foldl_cons]
    rw [passT_shift]
    exact ih (passT e A)

/-! ## stable images -/

theorem iter_eq_of_stable (b : Bin) (hb : b.WF) (hs : Stable b) : iter b = b :=
  bin_ext _ _ (iter_shape b hb).1 (iter_shape b hb).2.1 hs

theorem thinLoop_eq_of_stable (n : Nat) (b : Bin) (hb : b.WF) (hs : Stable b) : thinLoop n b = b := by
  cases n with
  | zero => rfl
  | succ n =>
    unfold thinLoop
    simp only
    have hd : (iter b).data = b.data := hs
    have : ((iter b).data == b.data) = true := by simpa using hd
    rw [if_pos this]
    exact iter_eq_of_stable b hb hs

/-- a well-formed image whose pixel set is a translate of the pixel set of a stable image is stable -/
theorem stable_of_shift (a t : Bin) (ha : a.WF) (ht : t.WF) (hs : Stable t) (dy dx : Int)
    (h : bset a = {u | shift dy dx u ∈ bset t}) : Stable a := by
  have h1 : bset (iter a) = bset a := by
    unfold iter
    rw [bset_foldl_pass, h, foldT_shift, ← bset_foldl_pass]
    have : List.foldl pass t Generated.thinElems = t := iter_eq_of_stable t ht hs
    rw [this]
  exact data_eq_of_get _ _ (iter_shape a ha).2.2 ha (iter_shape a ha).1 (iter_shape a ha).2.1
    (get_eq_of_bset _ _ h1)

/-! ## idempotence of `thinModel` -/

theorem frameOf_wf (b : Bin) : (frameOf b).WF := tabulate_wf _ _ _
theorem pasteOf_wf (b t : Bin) : (pasteOf b t).WF := tabulate_wf _ _ _

theorem shift_shift (a b c d : Int) (p : Px) : shift a b (shift c d p) = shift (a + c) (b + d) p := by
  simp only [shift]; exact Prod.ext (by ring) (by ring)

/-- pasting the frame of `R` back gives `R` -/
theorem paste_frame (R : Bin) (hR : R.WF) : pasteOf R (frameOf R) = R := by
  apply bin_eq_of_get _ _ (pasteOf_wf _ _) hR rfl rfl
  apply get_eq_of_bset
  rw [← bset_pasteOf R (frameOf R) (fun _ h => h)]
  exact bset_frameOf R

theorem thinModel_idem (b : Bin) (m m' : Int) (hm : m < 0) :
    thinModel (thinModel b m) m' = thinModel b m := by
  set R := thinModel b m with hRdef
  have hRwf : R.WF := by rw [hRdef, thinModel_eq]; exact pasteOf_wf _ _
  -- the loop's result on the first run
  set t := thinCore (frameOf b) m with htdef
  have htwf : t.WF := thinCore_wf _ (frameOf_wf b) m
  have hts : Stable t := thinCore_stable _ (frameOf_wf b) m hm
  have htsub : bset t ⊆ bset (frameOf b) := (thinCore_sameComps (frameOf b) m).1
  have hR : bset R = {u | toFrame b u ∈ bset t} := by
    rw [hRdef, thinModel_eq]; exact (bset_pasteOf b t htsub).symm
  -- the frame of R is a translate of t, hence stable
  have hF : bset (frameOf R) = {q | shift ((1 - ((bbox b).1 : Int)) + (((bbox R).1 : Int) - 1))
      ((1 - ((bbox b).2.2.1 : Int)) + (((bbox R).2.2.1 : Int) - 1)) q ∈ bset t} := by
    ext q
    have hfr := bset_frameOf R
    have hq : q = toFrame R (shift (((bbox R).1 : Int) - 1) (((bbox R).2.2.1 : Int) - 1) q) := by
      simp only [toFrame, shift_shift]
      simp [shift]
    constructor
    · intro hqin
      rw [hq] at hqin
      have : shift (((bbox R).1 : Int) - 1) (((bbox R).2.2.1 : Int) - 1) q ∈ bset R := by
        rw [← hfr]; exact hqin
      rw [hR] at this
      simp only [Set.mem_ofPred_eq, toFrame, shift_shift] at this
      exact this
    · intro hqin
      rw [hq]
      have : shift (((bbox R).1 : Int) - 1) (((bbox R).2.2.1 : Int) - 1) q ∈ bset R := by
        rw [hR]
        simp only [Set.mem_ofPred_eq, toFrame, shift_shift]
        exact hqin
      rw [← hfr] at this
      exact this
  have hFs : Stable (frameOf R) := stable_of_shift _ t (frameOf_wf R) htwf hts _ _ hF
  rw [thinModel_eq R m']
  unfold thinCore
  rw [thinLoop_eq_of_stable _ _ (frameOf_wf R) hFs]
  exact paste_frame R hRwf

end Mahotas.C15
