/-
C15 — from the loop to `mahotas.thin`: cropping to the bounding box, framing and pasting back is a
translation of the pixel set, so the whole model `thinModel` keeps the 8-connected components.
-/
import Mahotas.Proofs.C15
import Mahotas.Proofs.C15Thin
namespace Mahotas.C15
open Mahotas

/-! ## the bounding box contains every set pixel -/

theorem sorted_bounds : ∀ (l : List Nat), l.Pairwise (· < ·) → ∀ a ∈ l, ∀ d, l.headD d ≤ a ∧ a ≤ l.getLastD d
  | [], _, a, ha, _ => by simp at ha
  | [x], _, a, ha, d => by simp at ha; subst ha; simp
  | x :: y :: rest, h, a, ha, d => by
    rw [List.pairwise_cons] at h
    obtain ⟨hx, ht⟩ := h
    have hlast : (x :: y :: rest).getLastD d = (y :: rest).getLastD d := by simp [List.getLastD]
    rw [hlast]
    simp only [List.headD_cons]
    rcases List.mem_cons.mp ha with rfl | ha'
    · have hy := sorted_bounds (y :: rest) ht y (by simp) d
      simp only [List.headD_cons] at hy
      have := hx y (by simp)
      exact ⟨Nat.le_refl _, by omega⟩
    · have hb := sorted_bounds (y :: rest) ht a ha' d
      have := hx a ha'
      exact ⟨by omega, hb.2⟩

theorem get_inrange (b : Bin) (y x : Int) (h : b.get y x = true) :
    0 ≤ y ∧ y < (b.rows : Int) ∧ 0 ≤ x ∧ x < (b.cols : Int) := by
  unfold Bin.get at h
  by_contra hc
  rw [if_neg hc] at h
  exact Bool.false_ne_true h

theorem bbox_spec (b : Bin) (y x : Int) (h : b.get y x = true) :
    ((bbox b).1 : Int) ≤ y ∧ y < ((bbox b).2.1 : Int) ∧ ((bbox b).2.2.1 : Int) ≤ x ∧ x < ((bbox b).2.2.2 : Int) := by
  obtain ⟨h0, h1, h2, h3⟩ := get_inrange b y x h
  unfold bbox
  simp only
  generalize hys : ((List.range b.rows).filter fun (y : Nat) => (List.range b.cols).any fun (x : Nat) => b.get (y : Int) (x : Int)) = ys
  generalize hxs : ((List.range b.cols).filter fun (x : Nat) => (List.range b.rows).any fun (y : Nat) => b.get (y : Int) (x : Int)) = xs
  have hy : y.toNat ∈ ys := by
    rw [← hys, List.mem_filter]
    refine ⟨List.mem_range.mpr (by omega), ?_⟩
    rw [List.any_eq_true]
    exact ⟨x.toNat, List.mem_range.mpr (by omega), by
      rw [Int.toNat_of_nonneg h0, Int.toNat_of_nonneg h2]; exact h⟩
  have hx : x.toNat ∈ xs := by
    rw [← hxs, List.mem_filter]
    refine ⟨List.mem_range.mpr (by omega), ?_⟩
    rw [List.any_eq_true]
    exact ⟨y.toNat, List.mem_range.mpr (by omega), by
      rw [Int.toNat_of_nonneg h0, Int.toNat_of_nonneg h2]; exact h⟩
  have sy : ys.Pairwise (· < ·) := by rw [← hys]; exact List.Pairwise.filter _ List.pairwise_lt_range
  have sx : xs.Pairwise (· < ·) := by rw [← hxs]; exact List.Pairwise.filter _ List.pairwise_lt_range
  cases ys with
  | nil => simp at hy
  | cons y0 yr =>
    cases xs with
    | nil => simp at hx
    | cons x0 xr =>
      have by' := sorted_bounds _ sy _ hy y0
      have bx' := sorted_bounds _ sx _ hx x0
      simp only [List.headD_cons] at by' bx'
      simp only
      refine ⟨by omega, ?_, by omega, ?_⟩
      · have : (y.toNat : Int) < (((y0 :: yr).getLastD y0 + 1 : Nat) : Int) := by exact_mod_cast Nat.lt_succ_of_le by'.2
        omega
      · have : (x.toNat : Int) < (((x0 :: xr).getLastD x0 + 1 : Nat) : Int) := by exact_mod_cast Nat.lt_succ_of_le bx'.2
        omega

/-! ## translations -/

def shift (dy dx : Int) (p : Px) : Px := (p.1 + dy, p.2 + dx)

theorem adj8_shift (dy dx : Int) (x y : Px) (h : adj8 x y) : adj8 (shift dy dx x) (shift dy dx y) := by
  obtain ⟨h1, h2, h3⟩ := h
  refine ⟨fun e => h1 ?_, ?_, ?_⟩
  · have e1 := congrArg Prod.fst e
    have e2 := congrArg Prod.snd e
    simp only [shift] at e1 e2
    exact Prod.ext (by omega) (by omega)
  · simpa [shift] using h2
  · simpa [shift] using h3

theorem sameComps_shift (dy dx : Int) {A B : Set Px} (h : SameComps A B) :
    SameComps {u | shift dy dx u ∈ A} {u | shift dy dx u ∈ B} :=
  SameComps.preimage (shift dy dx) (shift (-dy) (-dx))
    (fun x => by simp [shift]) (fun x => by simp [shift])
    (adj8_shift dy dx) (adj8_shift (-dy) (-dx)) h

/-! ## `thinModel` = paste ∘ loop ∘ frame -/

/-- the zero-framed crop handed to `_thin.thin` -/
def frameOf (b : Bin) : Bin :=
  Bin.tabulate ((bbox b).2.1 - (bbox b).1 + 2) ((bbox b).2.2.2 - (bbox b).2.2.1 + 2) fun y x =>
    decide (1 ≤ y) && decide (y ≤ (((bbox b).2.1 - (bbox b).1 : Nat) : Int)) && decide (1 ≤ x) &&
      decide (x ≤ (((bbox b).2.2.2 - (bbox b).2.2.1 : Nat) : Int)) &&
      b.get (y - 1 + ((bbox b).1 : Int)) (x - 1 + ((bbox b).2.2.1 : Int))

/-- the thinned crop `t` pasted back into an image of the input's shape -/
def pasteOf (b t : Bin) : Bin :=
  Bin.tabulate b.rows b.cols fun y x =>
    decide (((bbox b).1 : Int) ≤ y) && decide (y < ((bbox b).2.1 : Int)) &&
      decide (((bbox b).2.2.1 : Int) ≤ x) && decide (x < ((bbox b).2.2.2 : Int)) &&
      t.get (y - ((bbox b).1 : Int) + 1) (x - ((bbox b).2.2.1 : Int) + 1)

theorem thinModel_eq (b : Bin) (m : Int) : thinModel b m = pasteOf b (thinCore (frameOf b) m) := rfl

/-- shift from image coordinates to frame coordinates -/
def toFrame (b : Bin) (p : Px) : Px := shift (1 - ((bbox b).1 : Int)) (1 - ((bbox b).2.2.1 : Int)) p

theorem bset_frameOf (b : Bin) : {u | toFrame b u ∈ bset (frameOf b)} = bset b := by
  have hbb := bbox_spec b
  ext p
  obtain ⟨y, x⟩ := p
  simp only [Set.mem_ofPred_eq, bset, toFrame, shift, frameOf]
  rw [Bin.get_tabulate]
  simp only [Bool.and_eq_true, decide_eq_true_eq]
  have e1 : y + (1 - ((bbox b).1 : Int)) - 1 + ((bbox b).1 : Int) = y := by ring
  have e2 : x + (1 - ((bbox b).2.2.1 : Int)) - 1 + ((bbox b).2.2.1 : Int) = x := by ring
  rw [e1, e2]
  constructor
  · intro h; exact h.2.2
  · intro h
    obtain ⟨b1, b2, b3, b4⟩ := hbb y x h
    refine ⟨⟨?_, ?_, ?_, ?_⟩, ⟨⟨⟨?_, ?_⟩, ?_⟩, ?_⟩, h⟩ <;> push_cast <;> omega

theorem bset_pasteOf (b t : Bin) (ht : bset t ⊆ bset (frameOf b)) :
    {u | toFrame b u ∈ bset t} = bset (pasteOf b t) := by
  have hbb := bbox_spec b
  ext p
  obtain ⟨y, x⟩ := p
  simp only [Set.mem_ofPred_eq, bset, toFrame, shift, pasteOf]
  rw [Bin.get_tabulate]
  simp only [Bool.and_eq_true, decide_eq_true_eq]
  have e1 : y + (1 - ((bbox b).1 : Int)) = y - ((bbox b).1 : Int) + 1 := by ring
  have e2 : x + (1 - ((bbox b).2.2.1 : Int)) = x - ((bbox b).2.2.1 : Int) + 1 := by ring
  rw [e1, e2]
  constructor
  · intro h
    have hin : (y, x) ∈ bset b := by
      rw [← bset_frameOf b]
      simp only [Set.mem_ofPred_eq, toFrame, shift]
      rw [e1, e2]
      exact ht h
    have hg : b.get y x = true := hin
    obtain ⟨b1, b2, b3, b4⟩ := hbb y x hg
    obtain ⟨r1, r2, r3, r4⟩ := get_inrange b y x hg
    exact ⟨⟨r1, r2, r3, r4⟩, ⟨⟨⟨b1, b2⟩, b3⟩, b4⟩, h⟩
  · intro h; exact h.2.2

theorem thinModel_sameComps (b : Bin) (m : Int) : SameComps (bset b) (bset (thinModel b m)) := by
  rw [thinModel_eq]
  have hcore := thinCore_sameComps (frameOf b) m
  have hsh := sameComps_shift (1 - ((bbox b).1 : Int)) (1 - ((bbox b).2.2.1 : Int)) hcore
  have hA := bset_frameOf b
  have hB := bset_pasteOf b (thinCore (frameOf b) m) hcore.1
  unfold toFrame at hA hB
  rw [hA, hB] at hsh
  exact hsh

/-! ## `fill_convexhull` -/

theorem fillHullModel_superset (b : Bin) (y x : Int) (h : b.get y x = true) :
    (fillHullModel b).get y x = true := by
  obtain ⟨h0, h1, h2, h3⟩ := get_inrange b y x h
  unfold fillHullModel
  simp only
  rw [Bin.get_tabulate]
  simp [h, h0, h1, h2, h3]

end Mahotas.C15
