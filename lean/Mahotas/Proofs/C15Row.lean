/-
C15 (round 4) — Gray's identity for every one-row image: `eulerModel4 b c = 4 * eulerSpec b c` when `b.rows = 1`.
Bit-quad side: a one-row image is a product image, so its weight factors (`qw_prod`) and the sum is twice the number of
value changes along the row, i.e. four times the number of runs. Graph side: in a one-row image the smallest pixel of a
component is a run start, and every background pixel is a border pixel (no holes).
-/
import Mahotas.Proofs.C15Euler
import Mahotas.Proofs.C15Flood
namespace Mahotas.C15
open Mahotas

/-- 0/1 value of a Boolean -/
def iota (v : Bool) : Int := if v then 1 else 0

/-- a run starts at `k`: `m k` is set and `m (k - 1)` is not -/
def up (m : Int → Bool) (k : Nat) : Int := if m (k : Int) = true ∧ m ((k : Int) - 1) = false then 1 else 0

theorem tr_eq_up_down (m : Int → Bool) (k : Nat) :
    tr m ((k : Int) - 1) = 2 * up m k - (iota (m (k : Int)) - iota (m ((k : Int) - 1))) := by
  unfold tr up iota
  have e : (k : Int) - 1 + 1 = (k : Int) := by omega
  rw [e]
  cases m (k : Int) <;> cases m ((k : Int) - 1) <;> simp

/-- the number of value changes of a finitely supported row is twice its number of runs -/
theorem sum_tr_row (m : Int → Bool) (n : Nat) (hlo : m (-1) = false) (hhi : m (n : Int) = false) :
    ∑ k ∈ Finset.range (n + 1), tr m ((k : Int) - 1) = 2 * ∑ k ∈ Finset.range n, up m k := by
  have tele : ∑ k ∈ Finset.range (n + 1), (iota (m (k : Int)) - iota (m ((k : Int) - 1))) = 0 := by
    have := Finset.sum_range_sub (fun i : Nat => iota (m ((i : Int) - 1))) (n + 1)
    simp only [Nat.cast_add, Nat.cast_one, Nat.cast_zero] at this
    have e : ∀ i : Nat, ((i : Int) + 1 - 1) = (i : Int) := fun i => by omega
    simp only [e] at this
    rw [this]
    have e3 : ((0 : Int) - 1) = -1 := by omega
    rw [e3, hlo, hhi]
    simp [iota]
  have hlast : up m n = 0 := by unfold up; simp [hhi]
  calc ∑ k ∈ Finset.range (n + 1), tr m ((k : Int) - 1)
      = ∑ k ∈ Finset.range (n + 1), (2 * up m k - (iota (m (k : Int)) - iota (m ((k : Int) - 1)))) :=
        Finset.sum_congr rfl (fun k _ => tr_eq_up_down m k)
    _ = 2 * ∑ k ∈ Finset.range (n + 1), up m k - 0 := by
        rw [Finset.sum_sub_distrib, tele, Finset.mul_sum]
    _ = 2 * ∑ k ∈ Finset.range n, up m k := by
        rw [Finset.sum_range_succ, hlast]; ring

/-- window columns of a row of width `n`: `-1 … n-1` -/
def rowCols (n : Nat) : Finset Int := (Finset.range (n + 1)).image fun k : Nat => (k : Int) - 1

theorem mem_rowCols (n : Nat) (x : Int) : x ∈ rowCols n ↔ (-1 ≤ x ∧ x ≤ (n : Int) - 1) := by
  unfold rowCols
  simp only [Finset.mem_image, Finset.mem_range]
  constructor
  · rintro ⟨k, hk, rfl⟩; omega
  · rintro ⟨h1, h2⟩
    exact ⟨(x + 1).toNat, by omega, by omega⟩

theorem get_one_row (b : Bin) (h1 : b.rows = 1) (y x : Int) : b.get y x = (ivl 0 1 y && b.get 0 x) := by
  unfold ivl
  by_cases hy : y = 0
  · subst hy; simp
  · have : b.get y x = false := by
      unfold Bin.get; rw [if_neg]; rw [h1]; omega
    rw [this]
    have hd : decide ((0 : Int) ≤ y ∧ y < 0 + 1) = false := by
      apply decide_eq_false; omega
    rw [hd]; rfl

theorem get_row_outside (b : Bin) (x : Int) (h : x < 0 ∨ (b.cols : Int) ≤ x) : b.get 0 x = false := by
  unfold Bin.get; rw [if_neg]; omega

/-- **bit-quad side**: the sum of a one-row image is four times its number of runs -/
theorem eulerModel4_one_row (b : Bin) (c : Bool) (h1 : b.rows = 1) :
    eulerModel4 b c = 4 * ∑ k ∈ Finset.range b.cols, up (b.get 0) k := by
  let m : Int → Bool := b.get 0
  have hg : b.get = fun y x => ivl 0 1 y && m x := by
    funext y x; exact get_one_row b h1 y x
  have htr0 : ∀ x : Int, x ∉ rowCols b.cols → tr m x = 0 := by
    intro x hx
    rw [mem_rowCols] at hx
    have a1 : m x = false := get_row_outside b x (by omega)
    have a2 : m (x + 1) = false := get_row_outside b (x + 1) (by omega)
    unfold tr; rw [a1, a2]; simp
  have hcov : Covers c b.get (ends 0 1 ×ˢ rowCols b.cols) := by
    intro p hp
    rw [hg, qw_prod c (ivl 0 1) m p.1 p.2]
    rw [Finset.mem_product] at hp
    by_cases hy : p.1 ∈ ends 0 1
    · have hx : p.2 ∉ rowCols b.cols := fun hx => hp ⟨hy, hx⟩
      rw [htr0 _ hx, Int.mul_zero]
    · rw [tr_ivl_outside 0 1 (by omega) _ hy, Int.zero_mul]
  rw [eulerModel4_eq_E b c _ hcov]
  unfold E
  rw [Finset.sum_product]
  have hq : ∀ y ∈ ends 0 1, ∑ x ∈ rowCols b.cols, qw c b.get (y, x).1 (y, x).2 =
      ∑ x ∈ rowCols b.cols, tr (ivl 0 1) y * tr m x := by
    intro y _
    apply Finset.sum_congr rfl
    intro x _
    rw [hg]; exact qw_prod c (ivl 0 1) m y x
  rw [Finset.sum_congr rfl hq, ← Finset.sum_mul_sum, sum_tr_ivl 0 1 (by omega)]
  have himg : ∑ x ∈ rowCols b.cols, tr m x = ∑ k ∈ Finset.range (b.cols + 1), tr m ((k : Int) - 1) := by
    unfold rowCols
    rw [Finset.sum_image]
    intro a _ a' _ h
    have h' : (a : Int) - 1 = (a' : Int) - 1 := h
    have : (a : Int) = (a' : Int) := by omega
    exact_mod_cast this
  rw [himg, sum_tr_row m b.cols (get_row_outside b (-1) (by omega)) (get_row_outside b _ (by omega))]
  ring

/-! ## graph side -/

theorem adj_one_row {n i j : Nat} {c : Bool} (hi : i < n) (h : adjIdx 1 n c i j) : j = i + 1 ∨ j + 1 = i := by
  obtain ⟨d, hd, ht⟩ := h
  unfold tgt at ht
  rw [Nat.div_eq_of_lt hi, Nat.mod_eq_of_lt hi] at ht
  split at ht
  · rename_i hb
    injection ht with ht
    obtain ⟨d1, d2⟩ := d
    simp only at hb ht
    have h0 : d1 = 0 := by omega
    subst h0
    have hd2 : d2 = 1 ∨ d2 = -1 := by
      cases c <;> simp [neigh] at hd <;> omega
    rcases hd2 with rfl | rfl
    · left; subst ht; simp
    · right; subst ht; simp; omega
  · exact absurd ht (by simp)

theorem adj_left_one_row {n i : Nat} (c : Bool) (hi : i < n) (h1 : 1 ≤ i) : adjIdx 1 n c i (i - 1) := by
  refine ⟨(0, -1), by cases c <;> simp [neigh], ?_⟩
  unfold tgt
  rw [Nat.div_eq_of_lt hi, Nat.mod_eq_of_lt hi]
  rw [if_pos (by simp; omega)]
  congr 1
  simp
  omega

theorem minimal_iff_one_row (n : Nat) (mask : Array Bool) (c : Bool) (i : Nat) (hv : IsV 1 n mask i) :
    (∀ j, IConn 1 n mask c i j → i ≤ j) ↔ (i = 0 ∨ mk mask (i - 1) = false) := by
  have hin : i < n := by have := hv.1; omega
  constructor
  · intro h
    by_contra hcon
    have h1 : 1 ≤ i := by omega
    have hm : mk mask (i - 1) = true := by
      cases hmm : mk mask (i - 1)
      · exact absurd (Or.inr hmm) hcon
      · rfl
    have hv' : IsV 1 n mask (i - 1) := ⟨by omega, hm⟩
    have := h (i - 1) (Relation.ReflTransGen.single ⟨hv, hv', adj_left_one_row c hin h1⟩)
    omega
  · intro h j hj
    induction hj with
    | refl => exact Nat.le_refl _
    | tail hik hkj ih =>
      rename_i k j
      obtain ⟨hvk, hvj, hadj⟩ := hkj
      have hkn : k < n := by have := hvk.1; omega
      rcases adj_one_row hkn hadj with e | e
      · omega
      · by_cases hki : k = i
        · subst hki
          rcases h with h0 | hm
          · omega
          · have : j = k - 1 := by omega
            subst this
            rw [hvj.2] at hm
            exact absurd hm (by simp)
        · omega

theorem bdr_one_row {n k : Nat} (hk : k < n) : bdr 1 n k = true := by
  unfold bdr
  rw [Nat.div_eq_of_lt hk]
  simp

/-- a pixel of the row read through `Bin.get` is the mask bit -/
theorem get_row_inside (b : Bin) (h1 : b.rows = 1) (k : Nat) (hk : k < b.cols) : b.get 0 (k : Int) = mk b.data k := by
  unfold Bin.get mk
  rw [if_pos (by rw [h1]; omega)]
  simp

/-- `up` on a one-row image in terms of the mask -/
theorem up_one_row (b : Bin) (h1 : b.rows = 1) (k : Nat) (hk : k < b.cols) :
    up (b.get 0) k = if (mk b.data k = true ∧ (k = 0 ∨ mk b.data (k - 1) = false)) then 1 else 0 := by
  unfold up
  rw [get_row_inside b h1 k hk]
  rcases Nat.eq_zero_or_pos k with h0 | hpos
  · subst h0
    have : b.get 0 (-1) = false := get_row_outside b _ (by omega)
    simp [this]
  · have e : ((k : Int) - 1) = ((k - 1 : Nat) : Int) := by omega
    rw [e, get_row_inside b h1 (k - 1) (by omega)]
    have : k ≠ 0 := by omega
    simp [this]

/-- a duplicate-free list whose members are the `k < n` with `P k` has as many elements as the sum of the indicator -/
theorem length_eq_sum_indicator (l : List Nat) (hl : l.Nodup) (n : Nat) (P : Nat → Prop) [DecidablePred P]
    (hm : ∀ i, i ∈ l ↔ (i < n ∧ P i)) : (l.length : Int) = ∑ k ∈ Finset.range n, if P k then 1 else 0 := by
  rw [Finset.sum_boole]
  have : l.toFinset = (Finset.range n).filter P := by
    ext i
    simp only [List.mem_toFinset, Finset.mem_filter, Finset.mem_range]
    exact hm i
  rw [← this, List.toFinset_card_of_nodup hl]

/-! ## one-column images (the same argument with the axes exchanged) -/

theorem get_one_col (b : Bin) (h1 : b.cols = 1) (y x : Int) : b.get y x = (b.get y 0 && ivl 0 1 x) := by
  unfold ivl
  by_cases hx : x = 0
  · subst hx; simp
  · have : b.get y x = false := by
      unfold Bin.get; rw [if_neg]; rw [h1]; omega
    rw [this]
    have hd : decide ((0 : Int) ≤ x ∧ x < 0 + 1) = false := by
      apply decide_eq_false; omega
    rw [hd]; simp

theorem get_col_outside (b : Bin) (y : Int) (h : y < 0 ∨ (b.rows : Int) ≤ y) : b.get y 0 = false := by
  unfold Bin.get; rw [if_neg]; omega

theorem eulerModel4_one_col (b : Bin) (c : Bool) (h1 : b.cols = 1) :
    eulerModel4 b c = 4 * ∑ k ∈ Finset.range b.rows, up (fun y => b.get y 0) k := by
  let m : Int → Bool := fun y => b.get y 0
  have hg : b.get = fun y x => m y && ivl 0 1 x := by
    funext y x; exact get_one_col b h1 y x
  have htr0 : ∀ y : Int, y ∉ rowCols b.rows → tr m y = 0 := by
    intro y hy
    rw [mem_rowCols] at hy
    have a1 : m y = false := get_col_outside b y (by omega)
    have a2 : m (y + 1) = false := get_col_outside b (y + 1) (by omega)
    unfold tr; rw [a1, a2]; simp
  have hcov : Covers c b.get (rowCols b.rows ×ˢ ends 0 1) := by
    intro p hp
    rw [hg, qw_prod c m (ivl 0 1) p.1 p.2]
    rw [Finset.mem_product] at hp
    by_cases hx : p.2 ∈ ends 0 1
    · have hy : p.1 ∉ rowCols b.rows := fun hy => hp ⟨hy, hx⟩
      rw [htr0 _ hy, Int.zero_mul]
    · rw [tr_ivl_outside 0 1 (by omega) _ hx, Int.mul_zero]
  rw [eulerModel4_eq_E b c _ hcov]
  unfold E
  rw [Finset.sum_product]
  have hq : ∀ y ∈ rowCols b.rows, ∑ x ∈ ends 0 1, qw c b.get (y, x).1 (y, x).2 =
      ∑ x ∈ ends 0 1, tr m y * tr (ivl 0 1) x := by
    intro y _
    apply Finset.sum_congr rfl
    intro x _
    rw [hg]; exact qw_prod c m (ivl 0 1) y x
  rw [Finset.sum_congr rfl hq, ← Finset.sum_mul_sum, sum_tr_ivl 0 1 (by omega)]
  have himg : ∑ y ∈ rowCols b.rows, tr m y = ∑ k ∈ Finset.range (b.rows + 1), tr m ((k : Int) - 1) := by
    unfold rowCols
    rw [Finset.sum_image]
    intro a _ a' _ h
    have h' : (a : Int) - 1 = (a' : Int) - 1 := h
    have : (a : Int) = (a' : Int) := by omega
    exact_mod_cast this
  rw [himg, sum_tr_row m b.rows (get_col_outside b (-1) (by omega)) (get_col_outside b _ (by omega))]
  ring

theorem adj_one_col {n i j : Nat} {c : Bool} (hi : i < n) (h : adjIdx n 1 c i j) : j = i + 1 ∨ j + 1 = i := by
  obtain ⟨d, hd, ht⟩ := h
  unfold tgt at ht
  rw [Nat.div_one, Nat.mod_one] at ht
  split at ht
  · rename_i hb
    injection ht with ht
    obtain ⟨d1, d2⟩ := d
    simp only at hb ht
    have h0 : d2 = 0 := by omega
    subst h0
    have hd1 : d1 = 1 ∨ d1 = -1 := by
      cases c <;> simp [neigh] at hd <;> omega
    rcases hd1 with rfl | rfl
    · left; subst ht; simp
    · right; subst ht; simp; omega
  · exact absurd ht (by simp)

theorem adj_left_one_col {n i : Nat} (c : Bool) (hi : i < n) (h1 : 1 ≤ i) : adjIdx n 1 c i (i - 1) := by
  refine ⟨(-1, 0), by cases c <;> simp [neigh], ?_⟩
  unfold tgt
  rw [Nat.div_one, Nat.mod_one]
  rw [if_pos (by simp; omega)]
  congr 1
  simp
  omega

/-- the characterisation of the smallest pixel of a component for any box whose graph is a path `0 - 1 - 2 - …` -/
theorem minimal_iff_path (rows cols : Nat) (mask : Array Bool) (c : Bool)
    (hadj : ∀ i j, i < rows * cols → adjIdx rows cols c i j → j = i + 1 ∨ j + 1 = i)
    (hleft : ∀ i, i < rows * cols → 1 ≤ i → adjIdx rows cols c i (i - 1))
    (i : Nat) (hv : IsV rows cols mask i) :
    (∀ j, IConn rows cols mask c i j → i ≤ j) ↔ (i = 0 ∨ mk mask (i - 1) = false) := by
  have hin : i < rows * cols := hv.1
  constructor
  · intro h
    by_contra hcon
    have h1 : 1 ≤ i := by omega
    have hm : mk mask (i - 1) = true := by
      cases hmm : mk mask (i - 1)
      · exact absurd (Or.inr hmm) hcon
      · rfl
    have hv' : IsV rows cols mask (i - 1) := ⟨by omega, hm⟩
    have := h (i - 1) (Relation.ReflTransGen.single ⟨hv, hv', hleft i hin h1⟩)
    omega
  · intro h j hj
    induction hj with
    | refl => exact Nat.le_refl _
    | tail hik hkj ih =>
      rename_i k j
      obtain ⟨hvk, hvj, hadj'⟩ := hkj
      rcases hadj k j hvk.1 hadj' with e | e
      · omega
      · by_cases hki : k = i
        · subst hki
          rcases h with h0 | hm
          · omega
          · have : j = k - 1 := by omega
            subst this
            rw [hvj.2] at hm
            exact absurd hm (by simp)
        · omega

theorem bdr_one_col (n k : Nat) : bdr n 1 k = true := by
  unfold bdr
  rw [Nat.mod_one]
  simp

theorem get_col_inside (b : Bin) (h1 : b.cols = 1) (k : Nat) (hk : k < b.rows) : b.get (k : Int) 0 = mk b.data k := by
  unfold Bin.get mk
  rw [if_pos (by rw [h1]; omega), h1]
  simp

theorem up_one_col (b : Bin) (h1 : b.cols = 1) (k : Nat) (hk : k < b.rows) :
    up (fun y => b.get y 0) k = if (mk b.data k = true ∧ (k = 0 ∨ mk b.data (k - 1) = false)) then 1 else 0 := by
  have hk0 : b.get (k : Int) 0 = mk b.data k := get_col_inside b h1 k hk
  rcases Nat.eq_zero_or_pos k with h0 | hpos
  · subst h0
    have hm1 : b.get (((0 : Nat) : Int) - 1) 0 = false := get_col_outside b _ (by omega)
    simp only [up, hk0, hm1]
    simp
  · have e : ((k : Int) - 1) = ((k - 1 : Nat) : Int) := by omega
    have hk1 : b.get ((k : Int) - 1) 0 = mk b.data (k - 1) := by
      rw [e]; exact get_col_inside b h1 (k - 1) (by omega)
    have : k ≠ 0 := by omega
    simp only [up, hk0, hk1]
    simp [this]

end Mahotas.C15
