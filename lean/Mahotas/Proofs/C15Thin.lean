/-
C15 — thinning preserves 8-connected components: every one of the eight hit-or-miss passes
(all matching pixels deleted in parallel) induces a bijection of the 8-connected components,
hence so do one iteration, the outer loop and `thinCore`.
-/
import Mahotas.Model.C15
import Mahotas.Proofs.C15Basic
import Mahotas.Generated.Tables
import Mathlib.Logic.Relation
import Mathlib.Algebra.Order.Group.Int
import Mathlib.Data.Set.Basic
import Mathlib.Tactic.Linarith
import Mathlib.Tactic.IntervalCases
namespace Mahotas.C15
open Mahotas

/-! ## pixels, 8-adjacency, connectivity inside a set -/

abbrev Px := ℤ × ℤ

def adj8 (x y : Px) : Prop := x ≠ y ∧ |x.1 - y.1| ≤ 1 ∧ |x.2 - y.2| ≤ 1

theorem adj8_symm {x y : Px} (h : adj8 x y) : adj8 y x := by
  obtain ⟨h1, h2, h3⟩ := h
  exact ⟨fun e => h1 e.symm, by rw [abs_sub_comm]; exact h2, by rw [abs_sub_comm]; exact h3⟩

theorem adj8_iff (x y : Px) :
    adj8 x y ↔ x ≠ y ∧ (-1 ≤ y.1 - x.1 ∧ y.1 - x.1 ≤ 1) ∧ (-1 ≤ y.2 - x.2 ∧ y.2 - x.2 ≤ 1) := by
  unfold adj8
  rw [abs_le, abs_le]
  constructor
  · rintro ⟨h, ⟨a, b⟩, ⟨c, d⟩⟩; exact ⟨h, ⟨by omega, by omega⟩, ⟨by omega, by omega⟩⟩
  · rintro ⟨h, ⟨a, b⟩, ⟨c, d⟩⟩; exact ⟨h, ⟨by omega, by omega⟩, ⟨by omega, by omega⟩⟩

/-- one step inside `A` -/
def step (A : Set Px) (x y : Px) : Prop := x ∈ A ∧ y ∈ A ∧ adj8 x y
/-- connected inside `A` (endpoints included in `A` when the chain is non-empty) -/
def Conn (A : Set Px) : Px → Px → Prop := Relation.ReflTransGen (step A)

theorem Conn.refl {A : Set Px} (x : Px) : Conn A x x := Relation.ReflTransGen.refl

theorem Conn.trans {A : Set Px} {x y z : Px} (h1 : Conn A x y) (h2 : Conn A y z) : Conn A x z :=
  Relation.ReflTransGen.trans h1 h2

theorem Conn.symm {A : Set Px} {x y : Px} (h : Conn A x y) : Conn A y x := by
  induction h with
  | refl => exact Relation.ReflTransGen.refl
  | tail _ hbc ih =>
    exact Relation.ReflTransGen.head ⟨hbc.2.1, hbc.1, adj8_symm hbc.2.2⟩ ih

theorem Conn.mono {A B : Set Px} (hBA : B ⊆ A) {x y : Px} (h : Conn B x y) : Conn A x y := by
  induction h with
  | refl => exact Relation.ReflTransGen.refl
  | tail _ hbc ih => exact Relation.ReflTransGen.tail ih ⟨hBA hbc.1, hBA hbc.2.1, hbc.2.2⟩

/-- a map that sends `A` into `B` and preserves adjacency maps chains to chains -/
theorem Conn.map {A B : Set Px} (g : Px → Px) (hmem : ∀ x ∈ A, g x ∈ B)
    (hadj : ∀ x y, adj8 x y → adj8 (g x) (g y)) {x y : Px} (h : Conn A x y) :
    Conn B (g x) (g y) := by
  induction h with
  | refl => exact Relation.ReflTransGen.refl
  | tail _ hbc ih =>
    exact Relation.ReflTransGen.tail ih ⟨hmem _ hbc.1, hmem _ hbc.2.1, hadj _ _ hbc.2.2⟩

theorem step1 {B : Set Px} {x y : Px} (hx : x ∈ B) (hy : y ∈ B) (h : adj8 x y) : Conn B x y :=
  Relation.ReflTransGen.single ⟨hx, hy, h⟩

/-- two pixels of `B` at Chebyshev distance ≤ 1 are connected in `B` (possibly equal) -/
theorem near {B : Set Px} {x y : Px} (hx : x ∈ B) (hy : y ∈ B)
    (h1 : -1 ≤ y.1 - x.1 ∧ y.1 - x.1 ≤ 1) (h2 : -1 ≤ y.2 - x.2 ∧ y.2 - x.2 ≤ 1) : Conn B x y := by
  by_cases e : x = y
  · subst e; exact Relation.ReflTransGen.refl
  · exact step1 hx hy ((adj8_iff x y).2 ⟨e, h1, h2⟩)

/-- a retraction `f : A → B` that maps adjacent pixels to connected pixels and moves every pixel
    inside its own component induces a bijection of the connected components -/
theorem retract_components (A B : Set Px) (f : Px → Px) (hBA : B ⊆ A)
    (hfB : ∀ x ∈ A, f x ∈ B) (hfid : ∀ x ∈ B, f x = x)
    (hadj : ∀ x ∈ A, ∀ y ∈ A, adj8 x y → Conn B (f x) (f y))
    (hnear : ∀ x ∈ A, Conn A x (f x)) :
    (∀ x ∈ B, ∀ y ∈ B, (Conn A x y ↔ Conn B x y)) ∧ (∀ x ∈ A, ∃ y ∈ B, Conn A x y) := by
  refine ⟨?_, fun x hx => ⟨f x, hfB x hx, hnear x hx⟩⟩
  intro x hx y hy
  constructor
  · intro h
    have key : ∀ a b, Conn A a b → a ∈ A → Conn B (f a) (f b) := by
      intro a b hab
      induction hab with
      | refl => intro _; exact Relation.ReflTransGen.refl
      | tail _ hbc ih =>
        intro ha
        exact Relation.ReflTransGen.trans (ih ha) (hadj _ hbc.1 _ hbc.2.1 hbc.2.2)
    have := key x y h (hBA hx)
    rwa [hfid x hx, hfid y hy] at this
  · exact Conn.mono hBA

/-! ## "same components" -/

/-- `B ⊆ A` and the inclusion induces a bijection of the 8-connected components: two pixels of `B`
    are connected in `A` iff they are connected in `B`, and every component of `A` meets `B` -/
def SameComps (A B : Set Px) : Prop :=
  B ⊆ A ∧ (∀ x ∈ B, ∀ y ∈ B, (Conn A x y ↔ Conn B x y)) ∧ (∀ x ∈ A, ∃ y ∈ B, Conn A x y)

theorem SameComps.refl (A : Set Px) : SameComps A A :=
  ⟨fun _ h => h, fun _ _ _ _ => Iff.rfl, fun x hx => ⟨x, hx, Conn.refl x⟩⟩

theorem SameComps.trans {A B C : Set Px} (h1 : SameComps A B) (h2 : SameComps B C) :
    SameComps A C := by
  obtain ⟨hBA, hAB, hsA⟩ := h1
  obtain ⟨hCB, hBC, hsB⟩ := h2
  refine ⟨fun x hx => hBA (hCB hx), ?_, ?_⟩
  · intro x hx y hy
    rw [hAB x (hCB hx) y (hCB hy), hBC x hx y hy]
  · intro x hx
    obtain ⟨y, hy, hxy⟩ := hsA x hx
    obtain ⟨z, hz, hyz⟩ := hsB y hy
    exact ⟨z, hz, hxy.trans (Conn.mono hBA hyz)⟩

/-! ## a template pass on pixel sets, and the link with the model -/

/-- pixel `x` of `A` matches the hit-or-miss template `T` -/
def delT (T : Elem) (A : Set Px) (x : Px) : Prop :=
  x ∈ A ∧ ∀ t ∈ T, ((x.1 + t.1, x.2 + t.2.1) ∈ A ↔ t.2.2 = true)

/-- one pass: all matching pixels are removed in parallel -/
def passT (T : Elem) (A : Set Px) : Set Px := {x | x ∈ A ∧ ¬ delT T A x}

theorem passT_sub (T : Elem) (A : Set Px) : passT T A ⊆ A := fun _ h => h.1

/-- the foreground of a binary image -/
def bset (b : Bin) : Set Px := {p | b.get p.1 p.2 = true}

theorem bset_pass (b : Bin) (e : Elem) : bset (pass b e) = passT e (bset b) := by
  ext ⟨y, x⟩
  simp only [bset, passT, delT, Set.mem_ofPred_eq, pass_get, matchElem, Bool.and_eq_true,
    Bool.not_eq_true']
  constructor
  · rintro ⟨h1, h2⟩
    refine ⟨h1, ?_⟩
    rintro ⟨_, h3⟩
    have : (b.get y x && e.all fun t => b.get (y + t.1) (x + t.2.1) == t.2.2) = true := by
      rw [Bool.and_eq_true, List.all_eq_true]
      refine ⟨h1, fun t ht => ?_⟩
      rw [beq_iff_eq, Bool.eq_iff_iff]
      exact h3 t ht
    rw [this] at h2
    exact Bool.noConfusion h2
  · rintro ⟨h1, h2⟩
    refine ⟨h1, ?_⟩
    rw [Bool.eq_false_iff]
    intro h3
    rw [Bool.and_eq_true, List.all_eq_true] at h3
    refine h2 ⟨h1, fun t ht => ?_⟩
    have := h3.2 t ht
    rw [beq_iff_eq, Bool.eq_iff_iff] at this
    exact this

/-! ## the north-edge pass (template `000 / x1x / 111`) -/

def Nrow (x : Px) : List Px := [(x.1 - 1, x.2 - 1), (x.1 - 1, x.2), (x.1 - 1, x.2 + 1)]
def Srow (x : Px) : List Px := [(x.1 + 1, x.2 - 1), (x.1 + 1, x.2), (x.1 + 1, x.2 + 1)]
/-- pixel matches the template  000 / x1x / 111 -/
def delN (A : Set Px) (x : Px) : Prop := x ∈ A ∧ (∀ y ∈ Nrow x, y ∉ A) ∧ (∀ y ∈ Srow x, y ∈ A)
def passN (A : Set Px) : Set Px := {x | x ∈ A ∧ ¬ delN A x}
open Classical in
noncomputable def fN (A : Set Px) (x : Px) : Px := if delN A x then (x.1 + 1, x.2) else x

theorem mem_Srow (x : Px) (c : ℤ) (hc : -1 ≤ c ∧ c ≤ 1) : (x.1 + 1, x.2 + c) ∈ Srow x := by
  have : c = -1 ∨ c = 0 ∨ c = 1 := by omega
  rcases this with rfl | rfl | rfl <;> simp [Srow, sub_eq_add_neg]

theorem mem_Nrow_of_south (x : Px) (c : ℤ) (hc : -1 ≤ c ∧ c ≤ 1) : x ∈ Nrow (x.1 + 1, x.2 + c) := by
  have : c = -1 ∨ c = 0 ∨ c = 1 := by omega
  rcases this with rfl | rfl | rfl <;> simp [Nrow]

theorem south_survives {A : Set Px} {x : Px} (hx : delN A x) (c : ℤ) (hc : -1 ≤ c ∧ c ≤ 1) :
    (x.1 + 1, x.2 + c) ∈ passN A := by
  obtain ⟨hxA, _, hS⟩ := hx
  refine ⟨hS _ (mem_Srow x c hc), fun hd => ?_⟩
  exact hd.2.1 x (mem_Nrow_of_south x c hc) hxA

theorem passN_sub (A : Set Px) : passN A ⊆ A := fun _ h => h.1

theorem not_mem_of_Nrow {A : Set Px} {x y : Px} (hx : delN A x) (hy : y ∈ A)
    (h : y.1 = x.1 - 1) (h2 : -1 ≤ y.2 - x.2 ∧ y.2 - x.2 ≤ 1) : False := by
  have : y ∈ Nrow x := by
    have : y.2 = x.2 - 1 ∨ y.2 = x.2 ∨ y.2 = x.2 + 1 := by omega
    obtain ⟨y1, y2⟩ := y
    simp only at h this
    rcases this with e | e | e <;> subst h <;> subst e <;> simp [Nrow]
  exact hx.2.1 y this hy

theorem passN_components (A : Set Px) :
    (∀ x ∈ passN A, ∀ y ∈ passN A, (Conn A x y ↔ Conn (passN A) x y)) ∧
    (∀ x ∈ A, ∃ y ∈ passN A, Conn A x y) := by
  classical
  apply retract_components A (passN A) (fN A) (passN_sub A)
  · intro x hx
    unfold fN; split_ifs with hd
    · simpa using south_survives hd 0 (by omega)
    · exact ⟨hx, hd⟩
  · intro x hx
    unfold fN; rw [if_neg hx.2]
  · intro x hx y hy hadj
    obtain ⟨hne, hr, hc⟩ := (adj8_iff x y).1 hadj
    unfold fN
    by_cases hdx : delN A x <;> by_cases hdy : delN A y <;> simp only [hdx, hdy, if_true, if_false]
    · -- both deleted: y is W or E of x
      have hrow : y.1 = x.1 := by
        by_contra hne'
        have : y.1 = x.1 - 1 ∨ y.1 = x.1 + 1 := by omega
        rcases this with e | e
        · exact not_mem_of_Nrow hdx hy e hc
        · exact not_mem_of_Nrow hdy hx (by omega) (by omega)
      have h1 := south_survives hdx 0 (by omega)
      have h2 := south_survives hdy 0 (by omega)
      exact near (by simpa using h1) (by simpa using h2) (by simp; omega) (by simp; omega)
    · -- x deleted, y survives
      have hyB : y ∈ passN A := ⟨hy, hdy⟩
      have hnotN : y.1 ≠ x.1 - 1 := fun e => not_mem_of_Nrow hdx hy e hc
      have hS0 := south_survives hdx 0 (by omega)
      by_cases hrow : y.1 = x.1
      · -- W or E: go through SW / SE
        have hmid := south_survives hdx (y.2 - x.2) hc
        have c1 : Conn (passN A) (x.1 + 1, x.2) (x.1 + 1, x.2 + (y.2 - x.2)) :=
          near (by simpa using hS0) hmid (by simp) (by simp; omega)
        have c2 : Conn (passN A) (x.1 + 1, x.2 + (y.2 - x.2)) y :=
          near hmid hyB (by simp; omega) (by simp)
        exact c1.trans c2
      · exact near (by simpa using hS0) hyB (by simp; omega) (by simp; omega)
    · -- y deleted, x survives (symmetric)
      have hxB : x ∈ passN A := ⟨hx, hdx⟩
      have hnotN : x.1 ≠ y.1 - 1 := fun e => not_mem_of_Nrow hdy hx e (by omega)
      have hS0 := south_survives hdy 0 (by omega)
      by_cases hrow : x.1 = y.1
      · have hmid := south_survives hdy (x.2 - y.2) (by omega)
        have c1 : Conn (passN A) (y.1 + 1, y.2) (y.1 + 1, y.2 + (x.2 - y.2)) :=
          near (by simpa using hS0) hmid (by simp) (by simp; omega)
        have c2 : Conn (passN A) (y.1 + 1, y.2 + (x.2 - y.2)) x :=
          near hmid hxB (by simp; omega) (by simp)
        exact Conn.symm (c1.trans c2)
      · exact (near (by simpa using hS0) hxB (by simp; omega) (by simp; omega)).symm
    · exact step1 ⟨hx, hdx⟩ ⟨hy, hdy⟩ hadj
  · intro x hx
    unfold fN; split_ifs with hd
    · exact step1 hx (passN_sub A (by simpa using south_survives hd 0 (by omega)))
        ((adj8_iff _ _).2 ⟨by intro e; have := congrArg Prod.fst e; simp at this, by simp, by simp⟩)
    · exact Relation.ReflTransGen.refl

/-- element 0 of the generated table -/
def e0 : Elem := [(-1, -1, false), (-1, 0, false), (-1, 1, false), (1, -1, true), (1, 0, true), (1, 1, true)]

theorem thinElems_0 : Generated.thinElems[0] = e0 := by decide

theorem delT_e0_iff (A : Set Px) (x : Px) : delT e0 A x ↔ delN A x := by
  simp [delT, e0, delN, Nrow, Srow, sub_eq_add_neg, and_assoc]

theorem passT_e0 (A : Set Px) : passT e0 A = passN A := by
  ext x
  simp only [passT, passN, delT_e0_iff]

theorem e0_sameComps (A : Set Px) : SameComps A (passT e0 A) := by
  rw [passT_e0]
  exact ⟨passN_sub A, passN_components A⟩

/-! ## the north-east corner pass (template `x00 / 110 / x1x`) -/

/-- element 1 of the generated table: N, NE, E off; W, SW, S on -/
def e1 : Elem := [(-1, 0, false), (-1, 1, false), (0, 1, false), (0, -1, true), (1, -1, true), (1, 0, true)]

theorem thinElems_1 : Generated.thinElems[1] = e1 := by decide

theorem mem_cast {A : Set Px} {p q : Px} (h : p ∈ A) (h1 : p.1 = q.1) (h2 : p.2 = q.2) : q ∈ A := by
  have : p = q := Prod.ext h1 h2
  rwa [← this]

/-- `omega` after reducing projections of explicit pairs -/
macro "pomega" : tactic => `(tactic| ((try dsimp only) <;> omega))

theorem delT_e1_iff (A : Set Px) (x : Px) : delT e1 A x ↔
    x ∈ A ∧ (x.1 + -1, x.2) ∉ A ∧ (x.1 + -1, x.2 + 1) ∉ A ∧ (x.1, x.2 + 1) ∉ A ∧
      (x.1, x.2 + -1) ∈ A ∧ (x.1 + 1, x.2 + -1) ∈ A ∧ (x.1 + 1, x.2) ∈ A := by
  simp [delT, e1]

/-- the N, NE, E neighbours of a deleted pixel are off -/
theorem corner_excl {A : Set Px} {x y : Px} (hd : delT e1 A x) (hy : y ∈ A) :
    ¬ (y.1 = x.1 - 1 ∧ y.2 = x.2) ∧ ¬ (y.1 = x.1 - 1 ∧ y.2 = x.2 + 1) ∧
      ¬ (y.1 = x.1 ∧ y.2 = x.2 + 1) := by
  obtain ⟨_, hN, hNE, hE, _, _, _⟩ := (delT_e1_iff A x).1 hd
  refine ⟨fun h => hN (mem_cast hy ?_ ?_), fun h => hNE (mem_cast hy ?_ ?_),
    fun h => hE (mem_cast hy ?_ ?_)⟩ <;> pomega

/-- the W, SW, S neighbours of a deleted pixel are on and survive the pass -/
theorem corner_surv {A : Set Px} {x p : Px} (hd : delT e1 A x)
    (hp : (p.1 = x.1 ∧ p.2 = x.2 - 1) ∨ (p.1 = x.1 + 1 ∧ p.2 = x.2 - 1) ∨
      (p.1 = x.1 + 1 ∧ p.2 = x.2)) : p ∈ passT e1 A := by
  obtain ⟨hx, _, _, _, hW, hSW, hS⟩ := (delT_e1_iff A x).1 hd
  have hpA : p ∈ A := by
    rcases hp with h | h | h
    · exact mem_cast hW (by pomega) (by pomega)
    · exact mem_cast hSW (by pomega) (by pomega)
    · exact mem_cast hS (by pomega) (by pomega)
  refine ⟨hpA, fun hdp => ?_⟩
  have := corner_excl hdp hx
  omega

theorem corner_link {A : Set Px} {x y : Px} (hd : delT e1 A x) (hy : y ∈ passT e1 A)
    (hadj : adj8 x y) : Conn (passT e1 A) (x.1 + 1, x.2) y := by
  obtain ⟨hne, hr, hc⟩ := (adj8_iff x y).1 hadj
  have hne' : ¬ (x.1 = y.1 ∧ x.2 = y.2) := fun h => hne (Prod.ext h.1 h.2)
  have hS : ((x.1 + 1, x.2) : Px) ∈ passT e1 A := corner_surv hd (by right; right; exact ⟨rfl, rfl⟩)
  have hex := corner_excl hd hy.1
  by_cases h1 : y.1 = x.1 - 1
  · have hW : ((x.1, x.2 - 1) : Px) ∈ passT e1 A := corner_surv hd (by left; exact ⟨rfl, rfl⟩)
    exact (near hS hW (by pomega) (by pomega)).trans (near hW hy (by pomega) (by pomega))
  · exact near hS hy (by pomega) (by pomega)

open Classical in
noncomputable def fC (A : Set Px) (x : Px) : Px := if delT e1 A x then (x.1 + 1, x.2) else x

theorem e1_sameComps (A : Set Px) : SameComps A (passT e1 A) := by
  classical
  refine ⟨passT_sub _ _, ?_⟩
  apply retract_components A (passT e1 A) (fC A) (passT_sub _ A)
  · intro x hx
    unfold fC; split_ifs with hd
    · exact corner_surv hd (by right; right; exact ⟨rfl, rfl⟩)
    · exact ⟨hx, hd⟩
  · intro x hx
    unfold fC; rw [if_neg hx.2]
  · intro x hx y hy hadj
    unfold fC
    by_cases hdx : delT e1 A x <;> by_cases hdy : delT e1 A y <;>
      simp only [hdx, hdy, if_true, if_false]
    · -- both deleted: y is NW or SE of x
      obtain ⟨hne, hr, hc⟩ := (adj8_iff x y).1 hadj
      have hne' : ¬ (x.1 = y.1 ∧ x.2 = y.2) := fun h => hne (Prod.ext h.1 h.2)
      have h1 := corner_excl hdx hy
      have h2 := corner_excl hdy hx
      have hSx : ((x.1 + 1, x.2) : Px) ∈ passT e1 A :=
        corner_surv hdx (by right; right; exact ⟨rfl, rfl⟩)
      have hSy : ((y.1 + 1, y.2) : Px) ∈ passT e1 A :=
        corner_surv hdy (by right; right; exact ⟨rfl, rfl⟩)
      exact near hSx hSy (by pomega) (by pomega)
    · exact corner_link hdx ⟨hy, hdy⟩ hadj
    · exact (corner_link hdy ⟨hx, hdx⟩ (adj8_symm hadj)).symm
    · exact step1 ⟨hx, hdx⟩ ⟨hy, hdy⟩ hadj
  · intro x hx
    unfold fC; split_ifs with hd
    · exact near hx (passT_sub _ _ (corner_surv hd (by right; right; exact ⟨rfl, rfl⟩)))
        (by pomega) (by pomega)
    · exact Conn.refl _

/-! ## the other six passes by rotation -/

/-- quarter turn of the pixel grid -/
def rot (p : Px) : Px := (p.2, -p.1)
def rotInv (p : Px) : Px := (-p.2, p.1)
/-- the rotated template -/
def rotE (T : Elem) : Elem := T.map fun t => (t.2.1, -t.1, t.2.2)

theorem rot_rotInv (p : Px) : rot (rotInv p) = p := by simp [rot, rotInv]
theorem rotInv_rot (p : Px) : rotInv (rot p) = p := by simp [rot, rotInv]

theorem adj8_rot {x y : Px} (h : adj8 x y) : adj8 (rot x) (rot y) := by
  obtain ⟨hne, hr, hc⟩ := (adj8_iff x y).1 h
  refine (adj8_iff _ _).2 ⟨fun e => hne ?_, ?_, ?_⟩
  · have := congrArg rotInv e
    rwa [rotInv_rot, rotInv_rot] at this
  · simp only [rot]; omega
  · simp only [rot]; omega

theorem adj8_rotInv {x y : Px} (h : adj8 x y) : adj8 (rotInv x) (rotInv y) := by
  obtain ⟨hne, hr, hc⟩ := (adj8_iff x y).1 h
  refine (adj8_iff _ _).2 ⟨fun e => hne ?_, ?_, ?_⟩
  · have := congrArg rot e
    rwa [rot_rotInv, rot_rotInv] at this
  · simp only [rotInv]; omega
  · simp only [rotInv]; omega

/-- connectivity in a preimage under an adjacency-preserving bijection -/
theorem Conn_preimage (g g' : Px → Px) (hgg' : ∀ x, g (g' x) = x) (hg'g : ∀ x, g' (g x) = x)
    (hg : ∀ x y, adj8 x y → adj8 (g x) (g y)) (hg' : ∀ x y, adj8 x y → adj8 (g' x) (g' y))
    (A : Set Px) (x y : Px) : Conn {u | g u ∈ A} x y ↔ Conn A (g x) (g y) := by
  constructor
  · exact Conn.map g (fun _ hx => hx) hg
  · intro h
    have := Conn.map (A := A) (B := {u | g u ∈ A}) g'
      (fun u hu => by show g (g' u) ∈ A; rwa [hgg']) hg' h
    rwa [hg'g, hg'g] at this

theorem SameComps.preimage (g g' : Px → Px) (hgg' : ∀ x, g (g' x) = x) (hg'g : ∀ x, g' (g x) = x)
    (hg : ∀ x y, adj8 x y → adj8 (g x) (g y)) (hg' : ∀ x y, adj8 x y → adj8 (g' x) (g' y))
    {A B : Set Px} (h : SameComps A B) : SameComps {u | g u ∈ A} {u | g u ∈ B} := by
  obtain ⟨hBA, hiff, hsurj⟩ := h
  refine ⟨fun x hx => hBA hx, ?_, ?_⟩
  · intro x hx y hy
    rw [Conn_preimage g g' hgg' hg'g hg hg', Conn_preimage g g' hgg' hg'g hg hg']
    exact hiff _ hx _ hy
  · intro x hx
    obtain ⟨z, hz, hxz⟩ := hsurj (g x) hx
    refine ⟨g' z, by show g (g' z) ∈ B; rwa [hgg'], ?_⟩
    rw [Conn_preimage g g' hgg' hg'g hg hg', hgg']
    exact hxz

theorem delT_rotE (T : Elem) (A : Set Px) (x : Px) :
    delT (rotE T) A x ↔ delT T {u | rot u ∈ A} (rotInv x) := by
  unfold delT rotE
  simp only [List.forall_mem_map]
  apply and_congr
  · show x ∈ A ↔ rot (rotInv x) ∈ A
    rw [rot_rotInv]
  · apply forall_congr'; intro t
    apply imp_congr Iff.rfl
    have : rot ((rotInv x).1 + t.1, (rotInv x).2 + t.2.1) = (x.1 + t.2.1, x.2 + -t.1) := by
      simp only [rot, rotInv]
      exact Prod.ext rfl (by simp only; omega)
    show _ ↔ (rot ((rotInv x).1 + t.1, (rotInv x).2 + t.2.1) ∈ A ↔ _)
    rw [this]

theorem passT_rotE (T : Elem) (A : Set Px) :
    passT (rotE T) A = {x | rotInv x ∈ passT T {u | rot u ∈ A}} := by
  ext x
  show (x ∈ A ∧ ¬ delT (rotE T) A x) ↔
    (rot (rotInv x) ∈ A ∧ ¬ delT T {u | rot u ∈ A} (rotInv x))
  rw [rot_rotInv, delT_rotE]

theorem passT_congr {T T' : Elem} (h1 : ∀ t ∈ T, t ∈ T') (h2 : ∀ t ∈ T', t ∈ T) (A : Set Px) :
    passT T A = passT T' A := by
  ext x
  have : delT T A x ↔ delT T' A x :=
    and_congr Iff.rfl ⟨fun h t ht => h t (h2 t ht), fun h t ht => h t (h1 t ht)⟩
  show (x ∈ A ∧ ¬ delT T A x) ↔ (x ∈ A ∧ ¬ delT T' A x)
  rw [this]

/-- if the pass of `T` preserves components, so does the pass of any template with the same
    entries as the rotated `T` -/
theorem rot_sameComps {T T' : Elem} (h : ∀ A, SameComps A (passT T A))
    (h1 : ∀ t ∈ rotE T, t ∈ T') (h2 : ∀ t ∈ T', t ∈ rotE T) (A : Set Px) :
    SameComps A (passT T' A) := by
  rw [← passT_congr h1 h2, passT_rotE]
  have := SameComps.preimage rotInv rot rotInv_rot rot_rotInv (fun _ _ => adj8_rotInv)
    (fun _ _ => adj8_rot) (h {u | rot u ∈ A})
  have hA : {u | rotInv u ∈ {u | rot u ∈ A}} = A := by
    ext u
    show rot (rotInv u) ∈ A ↔ u ∈ A
    rw [rot_rotInv]
  rwa [hA] at this

def e2 : Elem := [(-1, -1, true), (0, -1, true), (1, -1, true), (-1, 1, false), (0, 1, false), (1, 1, false)]
def e3 : Elem := [(-1, -1, true), (-1, 0, true), (0, -1, true), (0, 1, false), (1, 0, false), (1, 1, false)]
def e4 : Elem := [(-1, -1, true), (-1, 0, true), (-1, 1, true), (1, -1, false), (1, 0, false), (1, 1, false)]
def e5 : Elem := [(-1, 0, true), (-1, 1, true), (0, 1, true), (0, -1, false), (1, -1, false), (1, 0, false)]
def e6 : Elem := [(-1, -1, false), (-1, 0, false), (0, -1, false), (0, 1, true), (1, 0, true), (1, 1, true)]
def e7 : Elem := [(-1, -1, false), (0, -1, false), (1, -1, false), (-1, 1, true), (0, 1, true), (1, 1, true)]

/-- the generated table, element by element -/
theorem thinElems_eq : Generated.thinElems = [e0, e1, e2, e3, e4, e5, e6, e7] := by decide

/-- edges: `e2`, `e4`, `e7` are the successive quarter turns of `e0` (E, S, W edges) -/
theorem e2_sameComps (A : Set Px) : SameComps A (passT e2 A) :=
  rot_sameComps e0_sameComps (by decide) (by decide) A
theorem e4_sameComps (A : Set Px) : SameComps A (passT e4 A) :=
  rot_sameComps e2_sameComps (by decide) (by decide) A
theorem e7_sameComps (A : Set Px) : SameComps A (passT e7 A) :=
  rot_sameComps e4_sameComps (by decide) (by decide) A

/-- corners: `e3`, `e5`, `e6` are the successive quarter turns of `e1` (SE, SW, NW corners) -/
theorem e3_sameComps (A : Set Px) : SameComps A (passT e3 A) :=
  rot_sameComps e1_sameComps (by decide) (by decide) A
theorem e5_sameComps (A : Set Px) : SameComps A (passT e5 A) :=
  rot_sameComps e3_sameComps (by decide) (by decide) A
theorem e6_sameComps (A : Set Px) : SameComps A (passT e6 A) :=
  rot_sameComps e5_sameComps (by decide) (by decide) A

/-- every pass of the generated table preserves the 8-connected components -/
theorem pass_sameComps (e : Elem) (he : e ∈ Generated.thinElems) (A : Set Px) :
    SameComps A (passT e A) := by
  rw [thinElems_eq] at he
  simp only [List.mem_cons, List.not_mem_nil, or_false] at he
  rcases he with rfl | rfl | rfl | rfl | rfl | rfl | rfl | rfl
  · exact e0_sameComps A
  · exact e1_sameComps A
  · exact e2_sameComps A
  · exact e3_sameComps A
  · exact e4_sameComps A
  · exact e5_sameComps A
  · exact e6_sameComps A
  · exact e7_sameComps A

/-! ## composition: one iteration, the outer loop, `thinCore`
    (parameterised by the per-pass statement) -/

theorem foldl_pass_sameComps (l : List Elem) (h : ∀ e ∈ l, ∀ A, SameComps A (passT e A)) (b : Bin) :
    SameComps (bset b) (bset (l.foldl pass b)) := by
  induction l generalizing b with
  | nil => exact SameComps.refl _
  | cons e l ih =>
    rw [List.foldl_cons]
    have h1 : SameComps (bset b) (bset (pass b e)) := by
      rw [bset_pass]; exact h e (List.mem_cons_self) _
    exact h1.trans (ih (fun e' he' => h e' (List.mem_cons_of_mem _ he')) _)

theorem iter_sameComps_of (h : ∀ e ∈ Generated.thinElems, ∀ A, SameComps A (passT e A)) (b : Bin) :
    SameComps (bset b) (bset (iter b)) :=
  foldl_pass_sameComps _ h b

theorem thinLoop_sameComps_of (h : ∀ e ∈ Generated.thinElems, ∀ A, SameComps A (passT e A))
    (n : Nat) (b : Bin) : SameComps (bset b) (bset (thinLoop n b)) := by
  induction n generalizing b with
  | zero => exact SameComps.refl _
  | succ n ih =>
    unfold thinLoop
    simp only
    split_ifs
    · exact iter_sameComps_of h b
    · exact (iter_sameComps_of h b).trans (ih _)

theorem thinCore_sameComps_of (h : ∀ e ∈ Generated.thinElems, ∀ A, SameComps A (passT e A))
    (b : Bin) (m : Int) : SameComps (bset b) (bset (thinCore b m)) := by
  unfold thinCore
  exact thinLoop_sameComps_of h _ b

/-! ## the unconditional statements -/

theorem iter_sameComps (b : Bin) : SameComps (bset b) (bset (iter b)) :=
  iter_sameComps_of pass_sameComps b

theorem thinLoop_sameComps (n : Nat) (b : Bin) : SameComps (bset b) (bset (thinLoop n b)) :=
  thinLoop_sameComps_of pass_sameComps n b

theorem thinCore_sameComps (b : Bin) (m : Int) : SameComps (bset b) (bset (thinCore b m)) :=
  thinCore_sameComps_of pass_sameComps b m

end Mahotas.C15
